(* Proofs about Model/Dispatch.v (ported from design_probes/Dispatch.v; generalised over the
   send mode: every theorem holds for eager AND for synchronous sends).  No axioms. *)
From Verif Require Import Prelude Dispatch.
From Coq Require Import Permutation.
From AAC_tactics Require Import AAC.
From AAC_tactics Require Instances.
Import Instances.Lists.
Open Scope nat_scope.
Set Implicit Arguments.

Section DispatchP.
Context {T R : Type}.
Context (f : T -> R).
Context (allowed : nat -> bool).
Context (fb : bool).
Context (md : mode).

Local Notation msg := (Dispatch.msg T).
Local Notation worker := (Dispatch.worker T R).
Local Notation st := (Dispatch.st T R).
Local Notation step := (Dispatch.step f allowed fb md).
Local Notation reach := (Dispatch.reach f allowed fb md).
Local Notation steps := (Dispatch.steps f allowed fb md).
Local Notation has_allowed_below := (Dispatch.has_allowed_below allowed).
Local Notation init := (@Dispatch.init T R).

Lemma nsum_app a b : nsum (a ++ b) = nsum a + nsum b.
Proof. induction a as [|x a IH]; simpl; lia. Qed.

Lemma upd_length A i (x : A) l : i < length l -> length (upd i x l) = length l.
Proof.
  intros H. unfold upd. rewrite app_length. cbn [length]. rewrite firstn_length, skipn_length. lia.
Qed.

Lemma nth_error_lt A (l : list A) i x : nth_error l i = Some x -> i < length l.
Proof. intros H. apply nth_error_Some. congruence. Qed.

Lemma nth_error_split' A (l : list A) i x :
  nth_error l i = Some x -> l = firstn i l ++ x :: skipn (S i) l.
Proof.
  revert i; induction l as [|y l IH]; intros [|i] H; simpl in *; try discriminate.
  - congruence.
  - f_equal. apply IH. exact H.
Qed.

Lemma nsum_upd (g : worker -> nat) i w w' l :
  nth_error l i = Some w ->
  nsum (map g (upd i w' l)) + g w = nsum (map g l) + g w'.
Proof.
  intros H. pose proof (nth_error_split' _ _ H) as E.
  rewrite E at 2. unfold upd. rewrite !map_app, !nsum_app. simpl. lia.
Qed.

Lemma wm_def (w : worker) : wm w = 3 * nsum (map is_task (inb w)) + 2 * length (outb w) + nsum (map is_eoq (inb w)).
Proof. reflexivity. Qed.

Ltac use_upd :=
  match goal with
  | Hn : nth_error ?l ?i = Some ?w |- context [upd ?i ?w' ?l] =>
      let Hlt := fresh "Hlt" in let Hs := fresh "Hs" in
      pose proof (@nth_error_lt _ l i w Hn) as Hlt;
      pose proof (@nsum_upd wm i w w' l Hn) as Hs;
      try rewrite (@upd_length _ i w' l Hlt);
      rewrite (wm_def w'), (wm_def w) in Hs; cbn [inb outb] in Hs;
      repeat match goal with Hx : outb w = _ |- _ => rewrite Hx in Hs end;
      repeat match goal with Hx : inb w = _ |- _ => rewrite Hx in Hs end;
      rewrite ?map_app, ?nsum_app, ?app_length in Hs;
      cbn [map nsum is_task is_eoq length] in Hs
  end.

Theorem step_decreases s s' : step s s' -> mu s' < mu s.
Proof.
  intros H. inversion H; subst; unfold mu; cbn [pc pend Dispatch.ws pcw length];
  try use_upd; lia.
Qed.

(* ---------- invariant, exactly-once, progress ---------- *)
Inductive shape : worker -> Prop :=
| sh_idle : shape (@mkW T R [] [] false)
| sh_task t : shape (mkW [Task t] [] false)
| sh_res x : shape (mkW [] [x] false)
| sh_eoq : shape (mkW [EOQ] [] false)
| sh_fin : shape (mkW [] [] true).

Definition idle (w : worker) : Prop := w = mkW [] [] false.
Definition busy (w : worker) : nat := nsum (map is_task (inb w)) + length (outb w).
Definition intasks (w : worker) : list T :=
  flat_map (fun m => match m with Task t => [t] | EOQ => [] end) (inb w).
Definition served (k : nat) (l : list worker) : Prop :=
  forall j w, nth_error l j = Some w -> (k <= j -> idle w) /\ (j < k -> ~ idle w).

Definition pc_inv (s : st) : Prop :=
  match pc s with
  | RInit k a => k <= length (ws s) /\ a = nsum (map busy (ws s)) /\ served k (ws s)
                 /\ (pend s <> [] -> has_allowed_below k -> 1 <= a)
  | RLoop a => a = nsum (map busy (ws s)) /\ served (length (ws s)) (ws s)
                 /\ (pend s <> [] -> has_allowed_below (length (ws s)) -> 1 <= a)
  | RBar | RDone => nsum (map busy (ws s)) = 0 /\ served (length (ws s)) (ws s)
                 /\ (has_allowed_below (length (ws s)) \/ fb = true -> pend s = [])
  end.

Definition Inv (tasks : list T) (s : st) : Prop :=
  Forall shape (ws s)
  /\ Permutation tasks (pend s ++ flat_map intasks (ws s) ++ ran s)
  /\ Permutation (map f (ran s)) (got s ++ flat_map outb (ws s))
  /\ pc_inv s.

Lemma upd_split A (l : list A) i w w' :
  nth_error l i = Some w ->
  exists l1 l2, l = l1 ++ w :: l2 /\ upd i w' l = l1 ++ w' :: l2 /\ length l1 = i.
Proof.
  intros H. exists (firstn i l), (skipn (S i) l). split; [|split].
  - apply nth_error_split'. exact H.
  - reflexivity.
  - apply firstn_length_le. apply Nat.lt_le_incl. eapply nth_error_lt; eauto.
Qed.

Lemma nsum_busy_repeat n : nsum (map busy (repeat (@mkW T R [] [] false) n)) = 0.
Proof. induction n; simpl; auto. Qed.

Lemma Inv_init tasks n : Inv tasks (init tasks n).
Proof.
  unfold Inv, Dispatch.init, pc_inv; cbn [Dispatch.ws pend ran got pc]. repeat split.
  - apply Forall_forall. intros w Hw. apply repeat_spec in Hw. subst. constructor.
  - assert (E : flat_map intasks (repeat (@mkW T R [] [] false) n) = []).
    { induction n; simpl; auto. }
    rewrite E. simpl. rewrite app_nil_r. apply Permutation_refl.
  - assert (E : flat_map outb (repeat (@mkW T R [] [] false) n) = []).
    { induction n; simpl; auto. }
    rewrite E. constructor.
  - lia.
  - symmetry. apply nsum_busy_repeat.
  - intros _. apply nth_error_In in H. apply repeat_spec in H. exact H.
  - intros Hlt. lia.
  - intros _ [j [Hj _]]. lia.
Qed.

Lemma cons_app A (x : A) l : x :: l = [x] ++ l. Proof. reflexivity. Qed.
Lemma firstn_exact A (l1 l2 : list A) : firstn (length l1) (l1 ++ l2) = l1.
Proof. induction l1; simpl; [destruct l2; reflexivity | f_equal; auto]. Qed.
Lemma skipn_exact A (l1 l2 : list A) : skipn (length l1) (l1 ++ l2) = l2.
Proof. induction l1; simpl; auto. Qed.
Lemma firstn_exact_S A (l1 : list A) x l2 : firstn (S (length l1)) (l1 ++ x :: l2) = l1 ++ [x].
Proof. induction l1; simpl; [destruct l2; reflexivity | f_equal; auto]. Qed.
Lemma skipn_exact_S A (l1 : list A) x l2 : skipn (S (length l1)) (l1 ++ x :: l2) = l2.
Proof. induction l1; simpl; auto. Qed.
Lemma nsum_busy_mid l1 w l2 : nsum (map busy (l1 ++ w :: l2)) = nsum (map busy l1) + busy w + nsum (map busy l2).
Proof. rewrite map_app, nsum_app. simpl. lia. Qed.
Lemma fm_mid B (g : worker -> list B) l1 w l2 :
  flat_map g (l1 ++ w :: l2) = flat_map g l1 ++ g w ++ flat_map g l2.
Proof. rewrite flat_map_app. reflexivity. Qed.

Lemma shape_inv w : shape w ->
  (w = mkW [] [] false) \/ (exists t, w = mkW [Task t] [] false) \/ (exists x, w = mkW [] [x] false)
  \/ (w = mkW [EOQ] [] false) \/ (w = mkW [] [] true).
Proof. intros H; inversion H; eauto 10. Qed.

Ltac perm_solve :=
  repeat match goal with
  | |- context [?x :: ?l] => lazymatch l with nil => fail | _ => rewrite (cons_app x l) end
  end; aac_reflexivity.

Ltac busy_eval :=
  repeat match goal with
  | |- context [busy (mkW ?a ?b ?c)] =>
      let v := eval cbv in (busy (mkW a b c)) in change (busy (mkW a b c)) with v
  | H : context [busy (mkW ?a ?b ?c)] |- _ =>
      let v := eval cbv in (busy (mkW a b c)) in change (busy (mkW a b c)) with v in H
  end.

Ltac split7 := split; [|split; [|split; [|split; [|split; [|split]]]]].
Ltac split6 := split; [|split; [|split; [|split; [|split]]]].

Ltac split_ws Hn w' :=
  let l1 := fresh "l1" in let l2 := fresh "l2" in
  let E := fresh "E" in let E' := fresh "E'" in let Hl := fresh "Hl" in
  destruct (@upd_split _ _ _ _ w' Hn) as (l1 & l2 & E & E' & Hl); rewrite E' in *; clear E'; subst.


Lemma nth_mid A (l1 : list A) x l2 j y :
  nth_error (l1 ++ x :: l2) j = Some y ->
  (j = length l1 /\ y = x) \/ (j <> length l1 /\ forall x', nth_error (l1 ++ x' :: l2) j = Some y).
Proof.
  intros H. destruct (Nat.eq_dec j (length l1)) as [->|Hne].
  - left. split; auto. rewrite nth_error_app2 in H by lia. rewrite Nat.sub_diag in H. simpl in H. congruence.
  - right. split; auto. intros x'. destruct (Nat.lt_ge_cases j (length l1)).
    + rewrite nth_error_app1 in * by lia. exact H.
    + rewrite nth_error_app2 in * by lia.
      destruct (j - length l1) as [|m] eqn:Em; [lia|]. simpl in *. exact H.
Qed.

(* replacing a non-idle (or to-be-served) worker keeps [served] *)
Lemma served_upd k l1 w w' l2 :
  served k (l1 ++ w :: l2) -> ~ idle w' -> length l1 < k -> served k (l1 ++ w' :: l2).
Proof.
  intros Hs Hni Hlt j y Hy. destruct (nth_mid _ _ _ _ Hy) as [[-> ->]|[Hne Hall]].
  - split; [lia | auto].
  - apply (Hs j y). apply Hall.
Qed.

Lemma served_next l1 w w' l2 :
  served (length l1) (l1 ++ w :: l2) -> ~ idle w' -> served (S (length l1)) (l1 ++ w' :: l2).
Proof.
  intros Hs Hni j y Hy. destruct (nth_mid _ _ _ _ Hy) as [[-> ->]|[Hne Hall]].
  - split; [lia | auto].
  - destruct (Hs j y (Hall w)) as [Ha Hb]. split; intros; [apply Ha | apply Hb]; lia.
Qed.

Lemma served_at k l1 w l2 : served k (l1 ++ w :: l2) -> (k <= length l1 -> idle w) /\ (length l1 < k -> ~ idle w).
Proof.
  intros Hs. apply (Hs (length l1) w). rewrite nth_error_app2 by lia. rewrite Nat.sub_diag. reflexivity.
Qed.

Lemma Inv_step tasks s s' : Inv tasks s -> step s s' -> Inv tasks s'.
Proof.
  intros (Hsh & Hp1 & Hp2 & Hpc) Hst. unfold Inv, pc_inv in *.
  inversion Hst; subst; cbn [pc pend Dispatch.ws got ran] in *.
  - (* init_task *)
    destruct Hpc as (Hk & Ha & Hserved & Hact).
    split_ws H0 (mkW (inb w ++ [Task t]) (outb w) (fin w)).
    destruct (@served_at _ _ _ _ Hserved) as [Hid _]. specialize (Hid (le_n _)). red in Hid; subst w.
    cbn [inb outb fin app] in *.
    apply Forall_app in Hsh as [Hs1 Hs2]. inversion Hs2; subst.
    rewrite !fm_mid, ?nsum_busy_mid, ?app_length in *. cbn [intasks inb outb flat_map length] in *. busy_eval.
    split7.
    + apply Forall_app; split; auto. constructor; auto. constructor.
    + etransitivity; [exact Hp1|]. perm_solve.
    + exact Hp2.
    + lia.
    + lia.
    + eapply (@served_next _ _ _ _ Hserved). intros Hi; red in Hi; discriminate Hi.
    + intros _ _. lia.
  - (* init_eoq *)
    destruct Hpc as (Hk & Ha & Hserved & Hact).
    split_ws H0 (mkW (inb w ++ [EOQ]) (outb w) (fin w)).
    destruct (@served_at _ _ _ _ Hserved) as [Hid _]. specialize (Hid (le_n _)). red in Hid; subst w.
    cbn [inb outb fin app] in *.
    apply Forall_app in Hsh as [Hs1 Hs2]. inversion Hs2; subst.
    rewrite !fm_mid, ?nsum_busy_mid, ?app_length in *. cbn [intasks inb outb flat_map length] in *. busy_eval.
    split7.
    + apply Forall_app; split; auto. constructor; auto. constructor.
    + exact Hp1.
    + exact Hp2.
    + lia.
    + lia.
    + eapply (@served_next _ _ _ _ Hserved). intros Hi; red in Hi; discriminate Hi.
    + intros Hne [j [Hj Hal]]. destruct H as [Hna | Hnil]; [|contradiction].
      apply Hact; auto. exists j. split; auto.
      assert (j <> length l1) by (intros ->; congruence). lia.
  - (* init_done *)
    destruct Hpc as (Hk & Ha & Hserved & Hact). split6; auto.
  - (* recv_more *)
    destruct Hpc as (Ha & Hserved & Hact).
    split_ws H (mkW (inb w ++ [Task t]) xs (fin w)).
    apply Forall_app in Hsh as [Hs1 Hs2]. inversion Hs2 as [|? ? Hw Hs3]; subst.
    inversion Hw; subst; cbn [outb] in H0; try discriminate. injection H0 as -> <-.
    cbn [inb outb fin app] in *.
    rewrite !fm_mid, ?nsum_busy_mid, ?app_length in *. cbn [intasks inb outb flat_map length] in *. busy_eval.
    split6.
    + apply Forall_app; split; auto. constructor; auto. constructor.
    + etransitivity; [exact Hp1|]. perm_solve.
    + etransitivity; [exact Hp2|]. perm_solve.
    + lia.
    + eapply (@served_upd _ _ _ _ _ Hserved). intros Hi; red in Hi; discriminate Hi. simpl. lia.
    + intros _ _. lia.
  - (* recv_last *)
    destruct Hpc as (Ha & Hserved & Hact).
    split_ws H (mkW (inb w ++ [EOQ]) xs (fin w)).
    apply Forall_app in Hsh as [Hs1 Hs2]. inversion Hs2 as [|? ? Hw Hs3]; subst.
    inversion Hw; subst; cbn [outb] in H0; try discriminate. injection H0 as -> <-.
    cbn [inb outb fin app] in *.
    rewrite !fm_mid, ?nsum_busy_mid, ?app_length in *. cbn [intasks inb outb flat_map length] in *. busy_eval.
    split6.
    + apply Forall_app; split; auto. constructor; auto. constructor.
    + exact Hp1.
    + etransitivity; [exact Hp2|]. perm_solve.
    + lia.
    + eapply (@served_upd _ _ _ _ _ Hserved). intros Hi; red in Hi; discriminate Hi. simpl. lia.
    + intros Hne. contradiction.
  - (* exit *)
    destruct Hpc as (Ha & Hserved & Hact). split6; auto.
    intros [Hal|Hfb]; [|auto]. destruct p as [|t p]; auto. exfalso. assert (1 <= 0) by (apply Hact; [discriminate|auto]). lia.
  - (* fallback: the root runs a pending task itself *)
    destruct Hpc as (Ha & Hserved & Hact). rewrite map_app. cbn [map].
    split; [|split; [|split; [|split; [|split]]]]; auto.
    + etransitivity; [exact Hp1|]. perm_solve.
    + etransitivity; [apply Permutation_app_tail; exact Hp2|]. perm_solve.
    + intros _ Hal. apply Hact; [discriminate|exact Hal].
  - (* wtask *)
    split_ws H (mkW ms (outb w ++ [f t]) false).
    apply Forall_app in Hsh as [Hs1 Hs2]. inversion Hs2 as [|? ? Hw Hs3]; subst.
    inversion Hw; subst; cbn [inb] in H1; try discriminate. injection H1 as -> <-.
    cbn [inb outb fin app] in *.
    rewrite !fm_mid, ?nsum_busy_mid, ?app_length in *. cbn [intasks inb outb flat_map length] in *.
    rewrite ?map_app in *. cbn [map] in *. busy_eval.
    split; [|split; [|split]].
    + apply Forall_app; split; auto. constructor; auto. constructor.
    + etransitivity; [exact Hp1|]. perm_solve.
    + etransitivity; [apply Permutation_app_tail; exact Hp2|]. perm_solve.
    + assert (Hni : forall x, ~ idle (mkW [] [x] false)) by (intros x0 Hi; red in Hi; discriminate Hi).
      destruct c as [k a| a | |].
      * destruct Hpc as (Hk & Ha & Hserved & Hact). split; [|split; [|split]]; try lia; auto.
        eapply (@served_upd _ _ _ _ _ Hserved); auto.
        destruct (@served_at _ _ _ _ Hserved) as [Hid _].
        destruct (Nat.lt_ge_cases (length l1) k) as [Hlt|Hge]; auto.
        specialize (Hid Hge). red in Hid. discriminate Hid.
      * destruct Hpc as (Ha & Hserved & Hact). split; [|split]; try lia; auto.
        eapply (@served_upd _ _ _ _ _ Hserved); auto. simpl. lia.
      * destruct Hpc as (Ha & Hserved & Hact). lia.
      * destruct Hpc as (Ha & Hserved & Hact). lia.
  - (* weoq *)
    split_ws H (mkW ms (outb w) true).
    apply Forall_app in Hsh as [Hs1 Hs2]. inversion Hs2 as [|? ? Hw Hs3]; subst.
    inversion Hw; subst; cbn [inb] in H1; try discriminate. injection H1 as <-.
    cbn [inb outb fin app] in *.
    rewrite !fm_mid, ?nsum_busy_mid, ?app_length in *. cbn [intasks inb outb flat_map length] in *. busy_eval.
    split; [|split; [|split]].
    + apply Forall_app; split; auto. constructor; auto. constructor.
    + exact Hp1.
    + exact Hp2.
    + assert (Hni : ~ idle (mkW [] [] true)) by (intros Hi; red in Hi; discriminate Hi).
      destruct c as [k a| a | |].
      * destruct Hpc as (Hk & Ha & Hserved & Hact). split; [|split; [|split]]; try lia; auto.
        eapply (@served_upd _ _ _ _ _ Hserved); auto.
        destruct (@served_at _ _ _ _ Hserved) as [Hid _].
        destruct (Nat.lt_ge_cases (length l1) k) as [Hlt|Hge]; auto.
        specialize (Hid Hge). red in Hid. discriminate Hid.
      * destruct Hpc as (Ha & Hserved & Hact). split; [|split]; try lia; auto.
        eapply (@served_upd _ _ _ _ _ Hserved); auto. simpl. lia.
      * destruct Hpc as (Ha & Hserved & Hact). split; [|split]; try lia; auto.
        eapply (@served_upd _ _ _ _ _ Hserved); auto. simpl. lia.
      * destruct Hpc as (Ha & Hserved & Hact). split; [|split]; try lia; auto.
        eapply (@served_upd _ _ _ _ _ Hserved); auto. simpl. lia.
  - (* bar *)
    exact (conj Hsh (conj Hp1 (conj Hp2 Hpc))).
Qed.


Lemma Inv_reach tasks n s : reach (init tasks n) s -> Inv tasks s.
Proof. induction 1; [apply Inv_init | eapply Inv_step; eauto]. Qed.

Lemma busy0_fin_empty l :
  Forall shape l -> forallb fin l = true -> flat_map intasks l = [] /\ flat_map outb l = [].
Proof.
  induction 1 as [|w l Hw Hl IH]; simpl; auto. intros Hf. apply andb_true_iff in Hf as [Hfw Hfl].
  destruct (IH Hfl) as [E1 E2]. inversion Hw; subst; simpl in *; try discriminate. rewrite E1, E2. auto.
Qed.

(* a final state with nothing pending: every task was executed exactly once and the root
   yielded exactly the results *)
Lemma final_state tasks n s :
  reach (init tasks n) s -> pc s = RDone -> pend s = [] ->
  Permutation tasks (ran s) /\ Permutation (map f tasks) (got s).
Proof.
  intros Hr Hpc Hpe. destruct (Inv_reach Hr) as (Hsh & Hp1 & Hp2 & Hinv).
  unfold pc_inv in Hinv. rewrite Hpc in Hinv. destruct Hinv as (Hb & Hserved & Hpend).
  (* at RDone all workers are finished: RDone is only entered via s_bar *)
  assert (Hfin : forallb fin (ws s) = true).
  { clear - Hr Hpc. induction Hr; [discriminate|].
    inversion H; subst; cbn [pc] in *; try discriminate; auto.
    - match goal with Hc : ?c = RDone |- _ => subst c end. specialize (IHHr eq_refl). cbn [Dispatch.ws] in *.
      destruct (@upd_split _ _ _ _ (mkW ms (outb w ++ [f t]) false) H0) as (l1 & l2 & E & E' & Hl).
      rewrite E in IHHr. rewrite forallb_app in IHHr. simpl in IHHr. rewrite H1 in IHHr.
      rewrite andb_false_r in IHHr. discriminate.
    - match goal with Hc : ?c = RDone |- _ => subst c end. specialize (IHHr eq_refl). cbn [Dispatch.ws] in *.
      destruct (@upd_split _ _ _ _ (mkW ms (outb w) true) H0) as (l1 & l2 & E & E' & Hl).
      rewrite E in IHHr. rewrite forallb_app in IHHr. simpl in IHHr. rewrite H1 in IHHr.
      rewrite andb_false_r in IHHr. discriminate. }
  destruct (busy0_fin_empty Hsh Hfin) as [E1 E2]. rewrite E1 in Hp1. rewrite E2 in Hp2.
  rewrite Hpe in Hp1. simpl in Hp1. rewrite app_nil_r in Hp2.
  split; auto. etransitivity; [apply Permutation_map; exact Hp1 | exact Hp2].
Qed.

Lemma final_pend tasks n s :
  reach (init tasks n) s -> pc s = RDone ->
  has_allowed_below (length (ws s)) \/ fb = true -> pend s = [].
Proof.
  intros Hr Hpc Hor. destruct (Inv_reach Hr) as (_ & _ & _ & Hinv).
  unfold pc_inv in Hinv. rewrite Hpc in Hinv. destruct Hinv as (_ & _ & Hpend). auto.
Qed.

(* both algorithms (with and without root fallback): exactly once + root result, for every
   world size n, every rank set containing a worker, every schedule, both send modes *)
Theorem dispatch_exactly_once tasks n s :
  reach (init tasks n) s -> pc s = RDone -> has_allowed_below (length (ws s)) ->
  Permutation tasks (ran s) /\ Permutation (map f tasks) (got s).
Proof.
  intros Hr Hpc Hal. apply (final_state Hr Hpc). apply (final_pend Hr Hpc). left. exact Hal.
Qed.

Lemma noinb_false (l : list worker) :
  noinb l = false -> exists i w, nth_error l i = Some w /\ inb w <> [].
Proof.
  induction l as [|w l IH]; simpl; [discriminate|].
  destruct (inb w) eqn:E; simpl.
  - intros H. destruct (IH H) as (i & w' & Hi & Hw'). exists (S i), w'. auto.
  - intros _. exists 0, w. split; [reflexivity|]. rewrite E. discriminate.
Qed.

Lemma root_ok_of_noinb (l : list worker) : noinb l = true -> root_ok md l = true.
Proof. intros H. destruct md; simpl; auto. Qed.

(* deadlock freedom, for eager and for synchronous sends: every reachable state that is not
   RDone can step.  Synchronous case (lemma `recv_ready` of the design): while some message of
   the root is still untaken its receiver can take it (it is at its receive, not finished);
   once all are taken the root's moves are enabled exactly as in the eager case. *)
Theorem dispatch_progress tasks n s :
  reach (init tasks n) s -> pc s <> RDone -> exists s', step s s'.
Proof.
  intros Hr Hne. destruct (Inv_reach Hr) as (Hsh & Hp1 & Hp2 & Hinv).
  destruct s as [c p l g r]. cbn [pc pend Dispatch.ws got ran] in *. unfold pc_inv in Hinv. cbn [pc Dispatch.ws pend] in Hinv.
  destruct (noinb l) eqn:Hnb.
  2: { destruct (noinb_false _ Hnb) as (i & w & Hi & Hwne).
       assert (Hw : shape w). { eapply Forall_forall in Hsh; eauto. eapply nth_error_In; eauto. }
       inversion Hw; subst; cbn [inb] in Hwne; try congruence.
       - eexists. eapply s_wtask; eauto; reflexivity.
       - eexists. eapply s_weoq; eauto; reflexivity. }
  pose proof (root_ok_of_noinb _ Hnb) as Hok.
  destruct c as [k a|a| |]; [| | |congruence].
  - destruct Hinv as (Hk & Ha & Hserved & Hact).
    destruct (Nat.eq_dec k (length l)) as [->|Hn].
    + eexists. apply s_init_done; [reflexivity|exact Hok].
    + destruct (nth_error l k) as [w|] eqn:Hw; [|apply nth_error_None in Hw; lia].
      destruct p as [|t p].
      * eexists. eapply s_init_eoq; eauto.
      * destruct (allowed k) eqn:Hal.
        -- eexists. eapply s_init_task; eauto.
        -- eexists. eapply s_init_eoq; eauto.
  - destruct Hinv as (Ha & Hserved & Hact).
    destruct a as [|a].
    { destruct fb eqn:Hfb.
      - destruct p as [|t p].
        + eexists. apply s_exit; [exact Hok|reflexivity].
        + eexists. apply s_fallback; [reflexivity|exact Hok].
      - eexists. apply s_exit; [exact Hok|discriminate]. }
    (* some worker is busy *)
    assert (Hex : exists i w, nth_error l i = Some w /\ busy w <> 0).
    { clear - Ha. revert a Ha. induction l as [|w l IH]; simpl; intros a Ha; [lia|].
      destruct (busy w) eqn:Hb.
      - destruct (IH a) as (i & w' & Hi & Hw'); [simpl in Ha; lia|]. exists (S i), w'. auto.
      - exists 0, w. split; auto. lia. }
    destruct Hex as (i & w & Hi & Hb).
    assert (Hw : shape w). { eapply Forall_forall in Hsh; eauto. eapply nth_error_In; eauto. }
    inversion Hw; subst; cbv in Hb; try congruence.
    + eexists. eapply s_wtask; eauto; reflexivity.
    + destruct p as [|t' p].
      * eexists. eapply s_recv_last; eauto. reflexivity.
      * eexists. eapply s_recv_more; eauto. reflexivity.
  - destruct Hinv as (Hb & Hserved & Hpend).
    destruct (forallb fin l) eqn:Hf.
    + eexists. apply s_bar. exact Hf.
    + (* some worker not finished: it is not idle and not busy, so it holds the sentinel *)
      assert (Hex : exists i w, nth_error l i = Some w /\ fin w = false).
      { clear - Hf. induction l as [|w l IH]; simpl in *; [discriminate|].
        destruct (fin w) eqn:Hw.
        - destruct (IH Hf) as (i & w' & Hi & Hw'). exists (S i), w'. auto.
        - exists 0, w. auto. }
      destruct Hex as (i & w & Hi & Hfw).
      assert (Hw : shape w). { eapply Forall_forall in Hsh; eauto. eapply nth_error_In; eauto. }
      assert (Hbw : busy w = 0).
      { clear - Hb Hi. revert i Hi. induction l as [|x l IH]; intros [|i] Hi; simpl in *; try discriminate.
        - injection Hi as ->. lia.
        - eapply IH; eauto. lia. }
      destruct (Hserved i w Hi) as [_ Hni]. specialize (Hni (nth_error_lt _ _ Hi)).
      inversion Hw; subst; cbv in Hbw; try discriminate.
      * exfalso. apply Hni. reflexivity.
      * eexists. eapply s_weoq; eauto; reflexivity.
Qed.

(* ---------- termination ---------- *)
(* any execution from ANY state s (reachable or not) has at most [mu s] steps *)
Theorem dispatch_terminates k s s' : steps k s s' -> k + mu s' <= mu s.
Proof.
  induction 1 as [s|k s s1 s2 Hs _ IH]; [lia|].
  pose proof (step_decreases Hs). lia.
Qed.

Theorem dispatch_step_wf : well_founded (fun s' s : st => step s s').
Proof.
  apply (well_founded_lt_compat _ (fun s : st => mu s)). intros x y H. apply step_decreases. exact H.
Qed.

Lemma reach_trans s0 s1 s2 : reach s0 s1 -> reach s1 s2 -> reach s0 s2.
Proof. intros H1 H2. induction H2; [exact H1|]. eapply reach_step; eauto. Qed.

(* progress + termination: from every reachable state the protocol can run to completion, and
   (dispatch_terminates) it cannot run forever: all ranks return *)
Theorem dispatch_reaches_done tasks n s :
  reach (init tasks n) s -> exists s', reach s s' /\ pc s' = RDone.
Proof.
  remember (mu s) as k eqn:Ek. revert s Ek.
  induction k as [k IH] using lt_wf_ind. intros s Ek Hr.
  destruct (pc s) eqn:Hpc.
  4: { exists s. split; [constructor|exact Hpc]. }
  all: destruct (@dispatch_progress tasks n s Hr) as [s1 Hs1]; [congruence|];
       destruct (IH (mu s1) ltac:(subst k; apply step_decreases; exact Hs1) s1 eq_refl
                    ltac:(eapply reach_step; eauto)) as (s2 & Hr2 & Hd);
       exists s2; split; [|exact Hd];
       eapply reach_trans; [eapply reach_step; [constructor|exact Hs1]|exact Hr2].
Qed.

(* ---------- the executable step is the relation ---------- *)
Ltac dm :=
  match goal with
  | H : context [match ?x with _ => _ end] |- _ => destruct x eqn:?; try discriminate
  end.

Lemma is_nil_true A (l : list A) : is_nil l = true -> l = [].
Proof. destruct l; [reflexivity|discriminate]. Qed.

Lemma step_with_sound c s s' : step_with f allowed fb md c s = Some s' -> step s s'.
Proof.
  destruct s as [c0 p l g r]. unfold step_with; cbn [pc pend Dispatch.ws got ran]. intros H.
  destruct c; repeat dm; injection H as <-;
  repeat match goal with H : _ && _ = true |- _ => apply andb_true_iff in H as [? ?] end;
  repeat match goal with H : (_ =? _) = true |- _ => apply Nat.eqb_eq in H; subst end.
  - eapply s_init_task; eauto.
  - eapply s_init_eoq; eauto.
    match goal with H : _ || _ = true |- _ => apply orb_true_iff in H; destruct H as [Hx|Hx] end.
    + left. apply negb_true_iff. exact Hx.
    + right. apply is_nil_true. exact Hx.
  - eapply s_init_done; eauto.
  - eapply s_recv_more; eauto.
  - eapply s_recv_last; eauto.
  - eapply s_fallback; eauto.
  - eapply s_exit; eauto.
    intros ->. apply is_nil_true. simpl in *. assumption.
  - eapply s_wtask; eauto.
  - eapply s_weoq; eauto.
  - eapply s_bar; eauto.
Qed.

Lemma step_with_complete s s' : step s s' -> exists c, step_with f allowed fb md c s = Some s'.
Proof.
  intros H. inversion H; subst.
  - exists (CInitTask k). unfold step_with; cbn [pc pend Dispatch.ws got ran].
    rewrite H1, Nat.eqb_refl, H0, H2. reflexivity.
  - exists (CInitEoq k). unfold step_with; cbn [pc pend Dispatch.ws got ran].
    rewrite H1, Nat.eqb_refl, H2.
    destruct H0 as [-> | ->]; [reflexivity|]. rewrite orb_true_r. reflexivity.
  - exists CInitDone. unfold step_with; cbn [pc pend Dispatch.ws got ran].
    rewrite Nat.eqb_refl, H1. reflexivity.
  - exists (CRecvMore i). unfold step_with; cbn [pc pend Dispatch.ws got ran].
    rewrite H0, H1, H2. reflexivity.
  - exists (CRecvLast i). unfold step_with; cbn [pc pend Dispatch.ws got ran].
    rewrite H0, H1, H2. reflexivity.
  - exists CExit. unfold step_with; cbn [pc pend Dispatch.ws got ran].
    match goal with Hr : root_ok _ _ = true |- _ => rewrite Hr end.
    match goal with Hp : fb = true -> _ = [] |- _ => destruct fb; [rewrite (Hp eq_refl)|] end; reflexivity.
  - exists CFallback. unfold step_with; cbn [pc pend Dispatch.ws got ran].
    match goal with Hr : root_ok _ _ = true |- _ => rewrite Hr end. reflexivity.
  - exists (CWTask i). unfold step_with; cbn [pc pend Dispatch.ws got ran].
    rewrite H0, H1, H2. reflexivity.
  - exists (CWEoq i). unfold step_with; cbn [pc pend Dispatch.ws got ran].
    rewrite H0, H1, H2. reflexivity.
  - exists CBar. unfold step_with; cbn [pc pend Dispatch.ws got ran]. rewrite H0. reflexivity.
Qed.

Lemma run_sound cs s s' : run f allowed fb md cs s = Some s' -> reach s s'.
Proof.
  revert s. induction cs as [|c cs IH]; simpl; intros s H.
  - injection H as <-. constructor.
  - destruct (step_with f allowed fb md c s) as [s1|] eqn:E; [|discriminate].
    apply (reach_trans (s1 := s1)); [|apply IH; exact H].
    eapply reach_step; [apply reach_refl|]. eapply step_with_sound. exact E.
Qed.

(* ---------- no worker rank allowed (max_workers = 1): nothing is ever executed ---------- *)
Definition quiet (w : worker) : Prop := outb w = [] /\ forall t, ~ In (Task t) (inb w).
Definition Inv0 (tasks : list T) (s : st) : Prop :=
  got s = [] /\ ran s = [] /\ pend s = tasks /\ Forall quiet (ws s)
  /\ match pc s with RInit _ a => a = 0 | RLoop a => a = 0 | _ => True end.

Lemma Forall_upd (P : worker -> Prop) i (w w' : worker) l :
  nth_error l i = Some w -> Forall P l -> P w' -> Forall P (upd i w' l).
Proof.
  intros Hn Hl Hw'. destruct (@upd_split _ _ _ _ w' Hn) as (l1 & l2 & E & E' & _).
  rewrite E'. rewrite E in Hl. apply Forall_app in Hl as [H1 H2]. inversion H2; subst.
  apply Forall_app; split; auto.
Qed.

Lemma Forall_nth (P : worker -> Prop) i (w : worker) l : nth_error l i = Some w -> Forall P l -> P w.
Proof. intros Hn Hl. eapply Forall_forall in Hl; eauto. eapply nth_error_In; eauto. Qed.

Lemma Inv0_step tasks s s' :
  fb = false -> (forall k, allowed k = false) -> Inv0 tasks s -> step s s' -> Inv0 tasks s'.
Proof.
  intros Hfb Hna (Hg & Hr & Hp & Hq & Hpc) Hst. unfold Inv0 in *.
  inversion Hst; subst; cbn [pc pend Dispatch.ws got ran] in *; try discriminate.
  - rewrite Hna in H. discriminate.
  - repeat split; auto. eapply Forall_upd; eauto.
    destruct (Forall_nth _ H0 Hq) as [Ho Hi]. split; cbn [inb outb]; auto.
    intros t Hin. apply in_app_or in Hin as [Hin|[Hin|[]]]; [eapply Hi; eauto|discriminate].
  - repeat split; auto.
  - repeat split; auto.
  - exfalso. destruct (Forall_nth _ H Hq) as [_ Hi]. apply (Hi t). rewrite H1. left. reflexivity.
  - repeat split; auto. eapply Forall_upd; eauto.
    destruct (Forall_nth _ H Hq) as [Ho Hi]. split; cbn [inb outb]; auto.
    intros t Hin. apply (Hi t). rewrite H1. right. exact Hin.
  - repeat split; auto.
Qed.

(* for EVERY task list, world size, send mode and schedule: if no worker rank is in `ranks`
   the root yields nothing, nothing is executed and all tasks are still pending at the end *)
Theorem dispatch_no_worker_general tasks n s :
  fb = false -> (forall k, allowed k = false) -> reach (init tasks n) s ->
  got s = [] /\ ran s = [] /\ pend s = tasks.
Proof.
  intros Hfb Hna Hr.
  assert (H : Inv0 tasks s).
  { induction Hr; [|eapply Inv0_step; eauto].
    unfold Inv0, Dispatch.init; cbn [pc pend Dispatch.ws got ran]. repeat split; auto.
    apply Forall_forall. intros w Hw. apply repeat_spec in Hw. subst. split; cbn [inb outb]; auto. }
  destruct H as (Hg & Hr' & Hp & _). auto.
Qed.

(* ---------- the repaired algorithm (root fallback): TOTAL statement ---------- *)
(* for EVERY rank set `allowed` (also the empty one: max_workers = 1), every number of workers,
   both send modes, every schedule: a finished run executed every task exactly once and the
   root yielded exactly map f tasks.  (Termination and deadlock freedom: dispatch_terminates,
   dispatch_progress, dispatch_reaches_done hold for this algorithm as well.) *)
Theorem dispatch_exactly_once_total tasks n s :
  fb = true -> reach (init tasks n) s -> pc s = RDone ->
  Permutation tasks (ran s) /\ Permutation (map f tasks) (got s).
Proof.
  intros Hfb Hr Hpc. apply (final_state Hr Hpc). apply (final_pend Hr Hpc). right. exact Hfb.
Qed.

End DispatchP.

(* the two algorithms as instances: repaired (fb = true), pinned "_cur" (fb = false) *)
Corollary dispatch_exactly_once_total_repaired :
  forall (T R : Type) (f : T -> R) allowed md tasks n (s : st T R),
  reach f allowed true md (init tasks n) s -> pc s = RDone ->
  Permutation tasks (ran s) /\ Permutation (map f tasks) (got s).
Proof. intros T R f allowed md tasks n s. exact (@dispatch_exactly_once_total T R f allowed true md tasks n s eq_refl). Qed.

Corollary dispatch_no_worker_general_cur :
  forall (T R : Type) (f : T -> R) allowed md tasks n (s : st T R),
  (forall k, allowed k = false) -> reach f allowed false md (init tasks n) s ->
  got s = [] /\ ran s = [] /\ pend s = tasks.
Proof. intros T R f allowed md tasks n s. exact (@dispatch_no_worker_general T R f allowed false md tasks n s eq_refl). Qed.

(* ---------- F13a: max_workers = 1  =>  ranks = {0}  =>  no worker index is allowed ---------- *)
Lemma c06_allowed_root_only k : c06_allowed [0] k = false.
Proof. reflexivity. Qed.

Definition f13a_choices : list choice :=
  [CInitEoq 0; CWEoq 0; CInitEoq 1; CWEoq 1; CInitDone; CExit; CBar].

(* the PINNED algorithm (no root fallback, fb = false): a complete run (world size 3, three
   tasks) that ends with every rank returned, nothing executed, nothing yielded — the statement
   "the root gets map f tasks" is false of the faithful model of the pinned code when
   max_workers = 1, in both send modes.  Repaired by commit cd002ec (fb = true). *)
Theorem dispatch_no_worker_refuted :
  forall md, exists s : st nat nat,
    reach c06_f (c06_allowed [0]) false md (init [10; 20; 30] 2) s /\ pc s = RDone /\
    got s = [] /\ ran s = [] /\ pend s = [10; 20; 30] /\
    ~ Permutation (map c06_f [10; 20; 30]) (got s).
Proof.
  intros md.
  destruct (run c06_f (c06_allowed [0]) false md f13a_choices (init [10; 20; 30] 2)) as [s|] eqn:E;
    [|destruct md; vm_compute in E; discriminate].
  exists s. pose proof (run_sound _ _ _ _ _ _ E) as Hr.
  destruct md; vm_compute in E; injection E as <-; cbn [pc got ran pend];
    (repeat split; auto; intros HP; apply Permutation_length in HP; discriminate).
Qed.

(* the same world under the repaired algorithm: the root runs the three tasks itself *)
Definition f13a_choices_fixed : list choice :=
  [CInitEoq 0; CWEoq 0; CInitEoq 1; CWEoq 1; CInitDone; CFallback; CFallback; CFallback; CExit; CBar].

Lemma dispatch_no_worker_fixed_run :
  forall md, exists s : st nat nat,
    run c06_f (c06_allowed [0]) true md f13a_choices_fixed (init [10; 20; 30] 2) = Some s /\
    pc s = RDone /\ got s = [31; 61; 91] /\ ran s = [10; 20; 30] /\ pend s = [].
Proof. intros md. destruct md; eexists; vm_compute; repeat split; reflexivity. Qed.


(* ======================================================================================
   Jobs may fail: proofs about the extended protocol of Model/Dispatch.v (estep).
   For every number of workers, rank set, task list, [fails] predicate, send mode and schedule.
   No axioms. *)
Section DispatchEP.
Context {T R : Type}.
Context (f : T -> R) (fails : T -> bool).
Context (allowed : nat -> bool).
Context (md : mode).

Local Notation msg := (Dispatch.msg T).
Local Notation eworker := (eworker T R).
Local Notation est := (est T R).
Local Notation res := (res T R).
Local Notation job := (job f fails).
Local Notation einit := (@einit T R).

Lemma ensum_upd (g : eworker -> nat) i w w' l :
  nth_error l i = Some w ->
  nsum (map g (upd i w' l)) + g w = nsum (map g l) + g w'.
Proof.
  intros H. pose proof (nth_error_split' _ _ H) as E.
  rewrite E at 2. unfold upd. rewrite !map_app, !nsum_app. simpl. lia.
Qed.

Lemma ewm_def (w : eworker) :
  ewm w = 3 * nsum (map is_task (einb w)) + 2 * length (eoutb w) + nsum (map is_eoq (einb w)).
Proof. reflexivity. Qed.

Ltac euse_upd :=
  match goal with
  | Hn : nth_error ?l ?i = Some ?w |- context [upd ?i ?w' ?l] =>
      let Hlt := fresh "Hlt" in let Hs := fresh "Hs" in
      pose proof (@nth_error_lt _ l i w Hn) as Hlt;
      pose proof (@ensum_upd ewm i w w' l Hn) as Hs;
      try rewrite (@upd_length _ i w' l Hlt);
      rewrite (ewm_def w'), (ewm_def w) in Hs; cbn [einb eoutb] in Hs;
      repeat match goal with Hx : eoutb w = _ |- _ => rewrite Hx in Hs end;
      repeat match goal with Hx : einb w = _ |- _ => rewrite Hx in Hs end;
      rewrite ?map_app, ?nsum_app, ?app_length in Hs;
      cbn [map nsum is_task is_eoq length] in Hs
  end.

(* ---------- (a) termination: for the repaired AND the pinned worker ---------- *)
Section AnyWorker.
Context (wcatch : bool).
Local Notation estep := (estep f fails allowed wcatch md).
Local Notation esteps := (esteps f fails allowed wcatch md).

Theorem estep_decreases s s' : estep s s' -> emu s' < emu s.
Proof.
  intros H. inversion H; subst; unfold emu; cbn [epc epend ews pcw length];
  try euse_upd; lia.
Qed.

Theorem edispatch_terminates k s s' : esteps k s s' -> k + emu s' <= emu s.
Proof.
  induction 1 as [s|k s s1 s2 Hs _ IH]; [lia|].
  pose proof (estep_decreases Hs). lia.
Qed.

Theorem edispatch_step_wf : well_founded (fun s' s : est => estep s s').
Proof.
  apply (well_founded_lt_compat _ (fun s : est => emu s)). intros x y H. apply estep_decreases. exact H.
Qed.

(* once the root has received an error it hands out nothing more and keeps that error *)
Lemma eerr_frozen s s' e :
  estep s s' -> eerr s = Some e -> eerr s' = Some e /\ epend s' = epend s /\ egot s' = egot s.
Proof.
  intros H He. inversion H; subst; cbn [eerr epend egot] in *; try discriminate; auto.
Qed.
End AnyWorker.

(* ---------- the repaired worker (wcatch = true): invariant ---------- *)
Local Notation estep := (estep f fails allowed true md).
Local Notation ereach := (ereach f fails allowed true md).

Inductive eshape : eworker -> Prop :=
| esh_idle : eshape (@mkEW T R [] [] false 0)
| esh_task t : eshape (mkEW [Task t] [] false 0)
| esh_res y : eshape (mkEW [] [y] false 0)
| esh_eoq : eshape (mkEW [EOQ] [] false 0)
| esh_fin : eshape (mkEW [] [] true 1).

Definition eidle (w : eworker) : Prop := w = mkEW [] [] false 0.
Definition ebusy (w : eworker) : nat := nsum (map is_task (einb w)) + length (eoutb w).
Definition eintasks (w : eworker) : list T :=
  flat_map (fun m => match m with Task t => [t] | EOQ => [] end) (einb w).
Definition eserved (k : nat) (l : list eworker) : Prop :=
  forall j w, nth_error l j = Some w -> (k <= j -> eidle w) /\ (j < k -> ~ eidle w).

Definition epc_inv (s : est) : Prop :=
  match epc s with
  | RInit k a => k <= length (ews s) /\ a = nsum (map ebusy (ews s)) /\ eserved k (ews s) /\ eerr s = None
  | RLoop a => a = nsum (map ebusy (ews s)) /\ eserved (length (ews s)) (ews s)
  | RBar | RDone => nsum (map ebusy (ews s)) = 0 /\ eserved (length (ews s)) (ews s)
                 /\ (eerr s = None -> epend s = [])
                 /\ (epc s = RDone -> forallb efin (ews s) = true /\ eout s = repeat (eerr s) (S (length (ews s))))
  end.

(* h = the tasks handed out so far (to a worker or run by the root); d = the results the root
   received and did not yield (the first error and everything after it) *)
Definition EInv (tasks : list T) (s : est) : Prop :=
  Forall eshape (ews s)
  /\ (exists h, tasks = h ++ epend s /\ Permutation h (flat_map eintasks (ews s) ++ eran s))
  /\ (exists d, Permutation (map job (eran s)) (map (@Ok T R) (egot s) ++ flat_map eoutb (ews s) ++ d)
                /\ (eerr s = None -> d = []))
  /\ (forall t, eerr s = Some t -> fails t = true /\ In t (eran s))
  /\ epc_inv s.

Lemma ensum_busy_repeat n : nsum (map ebusy (repeat (@mkEW T R [] [] false 0) n)) = 0.
Proof. induction n; simpl; auto. Qed.

Lemma EInv_init tasks n : EInv tasks (einit tasks n).
Proof.
  unfold EInv, Dispatch.einit, epc_inv; cbn [ews epend eran egot epc eerr eout].
  assert (E1 : flat_map eintasks (repeat (@mkEW T R [] [] false 0) n) = []) by (induction n; simpl; auto).
  assert (E2 : flat_map eoutb (repeat (@mkEW T R [] [] false 0) n) = []) by (induction n; simpl; auto).
  split; [|split; [|split; [|split]]].
  - apply Forall_forall. intros w Hw. apply repeat_spec in Hw. subst. constructor.
  - exists []. rewrite E1. split; [reflexivity|constructor].
  - exists []. rewrite E2. split; [constructor|auto].
  - intros t Ht. discriminate.
  - split; [lia|]. split; [symmetry; apply ensum_busy_repeat|]. split; [|reflexivity].
    intros j w Hj. split.
    + intros _. apply nth_error_In in Hj. apply repeat_spec in Hj. exact Hj.
    + intros Hlt. lia.
Qed.

Lemma ensum_busy_mid l1 w l2 : nsum (map ebusy (l1 ++ w :: l2)) = nsum (map ebusy l1) + ebusy w + nsum (map ebusy l2).
Proof. rewrite map_app, nsum_app. simpl. lia. Qed.
Lemma efm_mid B (g : eworker -> list B) l1 w l2 :
  flat_map g (l1 ++ w :: l2) = flat_map g l1 ++ g w ++ flat_map g l2.
Proof. rewrite flat_map_app. reflexivity. Qed.

Ltac eperm_solve :=
  repeat match goal with
  | |- context [?x :: ?l] => lazymatch l with nil => fail | _ => rewrite (cons_app x l) end
  end; aac_reflexivity.

Ltac ebusy_eval :=
  repeat match goal with
  | |- context [ebusy (mkEW ?a ?b ?c ?d)] =>
      let v := eval cbv in (ebusy (mkEW a b c d)) in change (ebusy (mkEW a b c d)) with v
  | H : context [ebusy (mkEW ?a ?b ?c ?d)] |- _ =>
      let v := eval cbv in (ebusy (mkEW a b c d)) in change (ebusy (mkEW a b c d)) with v in H
  end.

Ltac esplit_ws Hn w' :=
  let l1 := fresh "l1" in let l2 := fresh "l2" in
  let E := fresh "E" in let E' := fresh "E'" in let Hl := fresh "Hl" in
  destruct (@upd_split _ _ _ _ w' Hn) as (l1 & l2 & E & E' & Hl); rewrite E' in *; clear E'; subst.

Lemma eserved_upd k l1 w w' l2 :
  eserved k (l1 ++ w :: l2) -> ~ eidle w' -> length l1 < k -> eserved k (l1 ++ w' :: l2).
Proof.
  intros Hs Hni Hlt j y Hy. destruct (nth_mid _ _ _ _ Hy) as [[-> ->]|[Hne Hall]].
  - split; [lia | auto].
  - apply (Hs j y). apply Hall.
Qed.

Lemma eserved_next l1 w w' l2 :
  eserved (length l1) (l1 ++ w :: l2) -> ~ eidle w' -> eserved (S (length l1)) (l1 ++ w' :: l2).
Proof.
  intros Hs Hni j y Hy. destruct (nth_mid _ _ _ _ Hy) as [[-> ->]|[Hne Hall]].
  - split; [lia | auto].
  - destruct (Hs j y (Hall w)) as [Ha Hb]. split; intros; [apply Ha | apply Hb]; lia.
Qed.

Lemma eserved_at k l1 w l2 : eserved k (l1 ++ w :: l2) -> (k <= length l1 -> eidle w) /\ (length l1 < k -> ~ eidle w).
Proof.
  intros Hs. apply (Hs (length l1) w). rewrite nth_error_app2 by lia. rewrite Nat.sub_diag. reflexivity.
Qed.

Lemma job_ok t : fails t = false -> job t = Ok (f t).
Proof. unfold Dispatch.job. intros ->. reflexivity. Qed.
Lemma job_err t : fails t = true -> job t = Err t.
Proof. unfold Dispatch.job. intros ->. reflexivity. Qed.
Lemma job_err_inv t t' : job t = Err t' -> t = t' /\ fails t' = true.
Proof. unfold Dispatch.job. destruct (fails t) eqn:E; intros H; [|discriminate]. injection H as <-. auto. Qed.
Lemma job_ok_inv t x : job t = Ok x -> fails t = false /\ x = f t.
Proof. unfold Dispatch.job. destruct (fails t) eqn:E; intros H; [discriminate|]. injection H as <-. auto. Qed.

(* an error message in flight is the error of an executed, failing task *)
Lemma err_in_flight (ran : list T) (rest : list res) t :
  Permutation (map job ran) rest -> In (Err t) rest -> fails t = true /\ In t ran.
Proof.
  intros HP Hin. apply Permutation_sym in HP. pose proof (Permutation_in _ HP Hin) as Hm.
  apply in_map_iff in Hm as (t0 & Hj & Ht0). apply job_err_inv in Hj as [-> Hf]. auto.
Qed.

Lemma forallb_nth A (p : A -> bool) l i x : forallb p l = true -> nth_error l i = Some x -> p x = true.
Proof. intros Hf Hn. rewrite forallb_forall in Hf. apply Hf. eapply nth_error_In; eauto. Qed.

Ltac eni := let Hi := fresh in intros Hi; red in Hi; discriminate Hi.


Ltac split5 := split; [|split; [|split; [|split]]].
Ltac ein_ran Herr := let t0 := fresh "t0" in let Ht0 := fresh "Ht0" in
  intros t0 Ht0; destruct (Herr t0 Ht0); split; auto; apply in_or_app; auto.

Lemma EInv_step tasks s s' : EInv tasks s -> estep s s' -> EInv tasks s'.
Proof.
  intros (Hsh & (h & Eh & Hp1) & (d & Hp2 & Hd) & Herr & Hpc) Hst. unfold EInv, epc_inv in *.
  inversion Hst; subst; cbn [epc epend ews egot eran eerr eout] in *.
  - (* init_task *)
    destruct Hpc as (Hk & Ha & Hserved & _).
    esplit_ws H0 (mkEW (einb w ++ [Task t]) (eoutb w) (efin w) (eoqn w)).
    destruct (@eserved_at _ _ _ _ Hserved) as [Hid _]. specialize (Hid (le_n _)). red in Hid; subst w.
    cbn [einb eoutb efin eoqn app] in *.
    apply Forall_app in Hsh as [Hs1 Hs2]. inversion Hs2; subst.
    rewrite !efm_mid, ?ensum_busy_mid, ?app_length in *. cbn [eintasks einb eoutb flat_map length] in *. ebusy_eval.
    split5.
    + apply Forall_app; split; auto. constructor; auto. constructor.
    + exists (h ++ [t]). split; [rewrite <- app_assoc; reflexivity|].
      etransitivity; [apply Permutation_app_tail; exact Hp1|]. eperm_solve.
    + exists d. split; auto.
    + exact Herr.
    + split; [lia|]. split; [lia|]. split; [|reflexivity]. eapply (@eserved_next _ _ _ _ Hserved). eni.
  - (* init_eoq *)
    destruct Hpc as (Hk & Ha & Hserved & _).
    esplit_ws H0 (mkEW (einb w ++ [EOQ]) (eoutb w) (efin w) (eoqn w)).
    destruct (@eserved_at _ _ _ _ Hserved) as [Hid _]. specialize (Hid (le_n _)). red in Hid; subst w.
    cbn [einb eoutb efin eoqn app] in *.
    apply Forall_app in Hsh as [Hs1 Hs2]. inversion Hs2; subst.
    rewrite !efm_mid, ?ensum_busy_mid, ?app_length in *. cbn [eintasks einb eoutb flat_map length] in *. ebusy_eval.
    split5.
    + apply Forall_app; split; auto. constructor; auto. constructor.
    + exists h. split; auto.
    + exists d. split; auto.
    + exact Herr.
    + split; [lia|]. split; [lia|]. split; [|reflexivity]. eapply (@eserved_next _ _ _ _ Hserved). eni.
  - (* init_done *)
    destruct Hpc as (Hk & Ha & Hserved & _). split5; eauto.
  - (* recv_more *)
    destruct Hpc as (Ha & Hserved).
    esplit_ws H (mkEW (einb w ++ [Task t]) xs (efin w) (eoqn w)).
    apply Forall_app in Hsh as [Hs1 Hs2]. inversion Hs2 as [|? ? Hw Hs3]; subst.
    inversion Hw; subst; cbn [eoutb] in H0; try discriminate. injection H0 as -> <-.
    cbn [einb eoutb efin eoqn app] in *.
    rewrite !efm_mid, ?ensum_busy_mid, ?app_length in *. cbn [eintasks einb eoutb flat_map length] in *. ebusy_eval.
    rewrite ?map_app in *. cbn [map] in *.
    split5.
    + apply Forall_app; split; auto. constructor; auto. constructor.
    + exists (h ++ [t]). split; [rewrite <- app_assoc; reflexivity|].
      etransitivity; [apply Permutation_app_tail; exact Hp1|]. eperm_solve.
    + exists d. split; auto. etransitivity; [exact Hp2|]. eperm_solve.
    + exact Herr.
    + split; [lia|]. eapply (@eserved_upd _ _ _ _ _ Hserved). eni. simpl. lia.
  - (* recv_last *)
    destruct Hpc as (Ha & Hserved).
    esplit_ws H (mkEW (einb w ++ [EOQ]) xs (efin w) (eoqn w)).
    apply Forall_app in Hsh as [Hs1 Hs2]. inversion Hs2 as [|? ? Hw Hs3]; subst.
    inversion Hw; subst; cbn [eoutb] in H0; try discriminate. injection H0 as -> <-.
    cbn [einb eoutb efin eoqn app] in *.
    rewrite !efm_mid, ?ensum_busy_mid, ?app_length in *. cbn [eintasks einb eoutb flat_map length] in *. ebusy_eval.
    rewrite ?map_app in *. cbn [map] in *.
    split5.
    + apply Forall_app; split; auto. constructor; auto. constructor.
    + exists h. split; auto.
    + exists d. split; auto. etransitivity; [exact Hp2|]. eperm_solve.
    + exact Herr.
    + split; [lia|]. eapply (@eserved_upd _ _ _ _ _ Hserved). eni. simpl. lia.
  - (* recv_err: the first error *)
    destruct Hpc as (Ha & Hserved). rewrite (Hd eq_refl) in *. clear Hd.
    esplit_ws H (mkEW (einb w ++ [EOQ]) xs (efin w) (eoqn w)).
    apply Forall_app in Hsh as [Hs1 Hs2]. inversion Hs2 as [|? ? Hw Hs3]; subst.
    inversion Hw; subst; cbn [eoutb] in H0; try discriminate. injection H0 as -> <-.
    cbn [einb eoutb efin eoqn app] in *.
    rewrite !efm_mid, ?ensum_busy_mid, ?app_length in *. cbn [eintasks einb eoutb flat_map length] in *. ebusy_eval.
    split5.
    + apply Forall_app; split; auto. constructor; auto. constructor.
    + exists h. split; auto.
    + exists [Err t']. split; [|intros; discriminate]. etransitivity; [exact Hp2|]. eperm_solve.
    + intros t0 Ht0. injection Ht0 as <-.
      eapply err_in_flight; [exact Hp2|]. apply in_or_app. right. apply in_or_app. left.
      apply in_or_app. right. left. reflexivity.
    + split; [lia|]. eapply (@eserved_upd _ _ _ _ _ Hserved). eni. simpl. lia.
  - (* recv_drain: after the first error *)
    destruct Hpc as (Ha & Hserved). clear Hd.
    esplit_ws H (mkEW (einb w ++ [EOQ]) xs (efin w) (eoqn w)).
    apply Forall_app in Hsh as [Hs1 Hs2]. inversion Hs2 as [|? ? Hw Hs3]; subst.
    inversion Hw; subst; cbn [eoutb] in H0; try discriminate. injection H0 as -> <-.
    cbn [einb eoutb efin eoqn app] in *.
    rewrite !efm_mid, ?ensum_busy_mid, ?app_length in *. cbn [eintasks einb eoutb flat_map length] in *. ebusy_eval.
    split5.
    + apply Forall_app; split; auto. constructor; auto. constructor.
    + exists h. split; auto.
    + exists (d ++ [y]). split; [|intros; discriminate]. etransitivity; [exact Hp2|]. eperm_solve.
    + exact Herr.
    + split; [lia|]. eapply (@eserved_upd _ _ _ _ _ Hserved). eni. simpl. lia.
  - (* exit *)
    destruct Hpc as (Ha & Hserved). split5; eauto.
    split; [auto|]. split; [auto|]. split; [auto|]. intros; discriminate.
  - (* fallback: the root runs a pending task itself *)
    destruct Hpc as (Ha & Hserved). rewrite (Hd eq_refl) in *. clear Hd.
    rewrite ?map_app in *. cbn [map] in *. rewrite (job_ok H0).
    split5; auto.
    + exists (h ++ [t]). split; [rewrite <- app_assoc; reflexivity|].
      etransitivity; [apply Permutation_app_tail; exact Hp1|]. eperm_solve.
    + exists []. split; auto. etransitivity; [apply Permutation_app_tail; exact Hp2|]. eperm_solve.
    + intros; discriminate.
  - (* fallback_err: the job raises on the root *)
    destruct Hpc as (Ha & Hserved). rewrite (Hd eq_refl) in *. clear Hd.
    rewrite ?map_app in *. cbn [map] in *. rewrite (job_err H0).
    split5; auto.
    + exists (h ++ [t]). split; [rewrite <- app_assoc; reflexivity|].
      etransitivity; [apply Permutation_app_tail; exact Hp1|]. eperm_solve.
    + exists [Err t]. split; [|intros; discriminate]. etransitivity; [apply Permutation_app_tail; exact Hp2|]. eperm_solve.
    + intros t0 Ht0. injection Ht0 as <-. split; auto. apply in_or_app. right. left. reflexivity.
  - (* wtask *)
    esplit_ws H (mkEW ms (eoutb w ++ [job t]) false (eoqn w)).
    apply Forall_app in Hsh as [Hs1 Hs2]. inversion Hs2 as [|? ? Hw Hs3]; subst.
    inversion Hw; subst; cbn [einb] in H1; try discriminate. injection H1 as -> <-.
    cbn [einb eoutb efin eoqn app] in *.
    rewrite !efm_mid, ?ensum_busy_mid, ?app_length in *. cbn [eintasks einb eoutb flat_map length] in *.
    rewrite ?map_app in *. cbn [map] in *. ebusy_eval.
    split5.
    + apply Forall_app; split; auto. constructor; auto. constructor.
    + exists h. split; auto. etransitivity; [exact Hp1|]. eperm_solve.
    + exists d. split; auto. etransitivity; [apply Permutation_app_tail; exact Hp2|]. eperm_solve.
    + ein_ran Herr.
    + assert (Hni : forall x, ~ eidle (mkEW [] [x] false 0)) by (intros x0; eni).
      destruct c as [k a| a | |].
      * destruct Hpc as (Hk & Ha & Hserved & He). split; [|split; [|split]]; try lia; auto.
        eapply (@eserved_upd _ _ _ _ _ Hserved); auto.
        destruct (@eserved_at _ _ _ _ Hserved) as [Hid _].
        destruct (Nat.lt_ge_cases (length l1) k) as [Hlt|Hge]; auto.
        specialize (Hid Hge). red in Hid. discriminate Hid.
      * destruct Hpc as (Ha & Hserved). split; try lia; auto.
        eapply (@eserved_upd _ _ _ _ _ Hserved); auto. simpl. lia.
      * destruct Hpc as (Ha & _). lia.
      * destruct Hpc as (Ha & _). lia.
  - (* wescape: not the repaired worker *)
    discriminate.
  - (* weoq *)
    esplit_ws H (mkEW ms (eoutb w) true (S (eoqn w))).
    apply Forall_app in Hsh as [Hs1 Hs2]. inversion Hs2 as [|? ? Hw Hs3]; subst.
    inversion Hw; subst; cbn [einb] in H1; try discriminate. injection H1 as <-.
    cbn [einb eoutb efin eoqn app] in *.
    rewrite !efm_mid, ?ensum_busy_mid, ?app_length in *. cbn [eintasks einb eoutb flat_map length] in *. ebusy_eval.
    split5.
    + apply Forall_app; split; auto. constructor; auto. constructor.
    + exists h. split; auto.
    + exists d. split; auto.
    + exact Herr.
    + assert (Hni : ~ eidle (mkEW [] [] true 1)) by eni.
      destruct c as [k a| a | |].
      * destruct Hpc as (Hk & Ha & Hserved & He). split; [|split; [|split]]; try lia; auto.
        eapply (@eserved_upd _ _ _ _ _ Hserved); auto.
        destruct (@eserved_at _ _ _ _ Hserved) as [Hid _].
        destruct (Nat.lt_ge_cases (length l1) k) as [Hlt|Hge]; auto.
        specialize (Hid Hge). red in Hid. discriminate Hid.
      * destruct Hpc as (Ha & Hserved). split; try lia; auto.
        eapply (@eserved_upd _ _ _ _ _ Hserved); auto. simpl. lia.
      * destruct Hpc as (Ha & Hserved & Hpe & _). split; [|split; [|split]]; try lia; auto.
        -- eapply (@eserved_upd _ _ _ _ _ Hserved); auto. simpl. lia.
        -- intros; discriminate.
      * destruct Hpc as (_ & _ & _ & Hfin). destruct (Hfin eq_refl) as [Hf _].
        rewrite forallb_app in Hf. simpl in Hf. rewrite andb_false_r in Hf. discriminate.
  - (* bar: the closing broadcast *)
    destruct Hpc as (Ha & Hserved & Hpe & _). split5; eauto.
Qed.


Lemma EInv_reach tasks n s : ereach (einit tasks n) s -> EInv tasks s.
Proof. induction 1; [apply EInv_init | eapply EInv_step; eauto]. Qed.

Lemma estep_length s s' : estep s s' -> length (ews s') = length (ews s).
Proof.
  intros H. inversion H; subst; cbn [ews]; auto;
  match goal with Hn : nth_error ?l ?i = Some _ |- _ => apply upd_length; eapply nth_error_lt; exact Hn end.
Qed.

Lemma ereach_length tasks n s : ereach (einit tasks n) s -> length (ews s) = n.
Proof.
  induction 1; [apply repeat_length|]. rewrite (estep_length H0). exact IHereach.
Qed.

Lemma enoinb_false (l : list eworker) :
  enoinb l = false -> exists i w, nth_error l i = Some w /\ einb w <> [].
Proof.
  induction l as [|w l IH]; simpl; [discriminate|].
  destruct (einb w) eqn:E; simpl.
  - intros H. destruct (IH H) as (i & w' & Hi & Hw'). exists (S i), w'. auto.
  - intros _. exists 0, w. split; [reflexivity|]. rewrite E. discriminate.
Qed.

Lemma eroot_ok_of_noinb (l : list eworker) : enoinb l = true -> eroot_ok md l = true.
Proof. intros H. destruct md; simpl; auto. Qed.

(* ---------- (a) no deadlock, eager and synchronous sends, whatever fails ---------- *)
Theorem edispatch_progress tasks n s :
  ereach (einit tasks n) s -> epc s <> RDone -> exists s', estep s s'.
Proof.
  intros Hr Hne. destruct (EInv_reach Hr) as (Hsh & _ & _ & _ & Hinv).
  destruct s as [c p l g r e o]. cbn [epc epend ews egot eran eerr eout] in *. unfold epc_inv in Hinv.
  cbn [epc ews epend eerr eout] in Hinv.
  destruct (enoinb l) eqn:Hnb.
  2: { destruct (enoinb_false _ Hnb) as (i & w & Hi & Hwne).
       assert (Hw : eshape w). { eapply Forall_forall in Hsh; eauto. eapply nth_error_In; eauto. }
       inversion Hw; subst; cbn [einb] in Hwne; try congruence.
       - eexists. eapply e_wtask; eauto; reflexivity.
       - eexists. eapply e_weoq; eauto; reflexivity. }
  pose proof (eroot_ok_of_noinb _ Hnb) as Hok.
  destruct c as [k a|a| |]; [| | |congruence].
  - destruct Hinv as (Hk & Ha & Hserved & ->).
    destruct (Nat.eq_dec k (length l)) as [->|Hn].
    + eexists. apply e_init_done; [reflexivity|exact Hok].
    + destruct (nth_error l k) as [w|] eqn:Hw; [|apply nth_error_None in Hw; lia].
      destruct p as [|t p].
      * eexists. eapply e_init_eoq; eauto.
      * destruct (allowed k) eqn:Hal.
        -- eexists. eapply e_init_task; eauto.
        -- eexists. eapply e_init_eoq; eauto.
  - destruct Hinv as (Ha & Hserved).
    destruct a as [|a].
    { destruct e as [e|].
      - eexists. apply e_exit; [exact Hok|intros; discriminate].
      - destruct p as [|t p].
        + eexists. apply e_exit; [exact Hok|reflexivity].
        + destruct (fails t) eqn:Hf.
          * eexists. apply e_fallback_err; [exact Hok|exact Hf].
          * eexists. apply e_fallback; [exact Hok|exact Hf]. }
    (* some worker is busy *)
    assert (Hex : exists i w, nth_error l i = Some w /\ ebusy w <> 0).
    { clear - Ha. revert a Ha. induction l as [|w l IH]; simpl; intros a Ha; [lia|].
      destruct (ebusy w) eqn:Hb.
      - destruct (IH a) as (i & w' & Hi & Hw'); [simpl in Ha; lia|]. exists (S i), w'. auto.
      - exists 0, w. split; auto. lia. }
    destruct Hex as (i & w & Hi & Hb).
    assert (Hw : eshape w). { eapply Forall_forall in Hsh; eauto. eapply nth_error_In; eauto. }
    inversion Hw; subst; cbv in Hb; try congruence.
    + eexists. eapply e_wtask; eauto; reflexivity.
    + destruct e as [e|].
      * eexists. eapply e_recv_drain; eauto. reflexivity.
      * destruct y as [x|t'].
        -- destruct p as [|t' p].
           ++ eexists. eapply e_recv_last; eauto. reflexivity.
           ++ eexists. eapply e_recv_more; eauto. reflexivity.
        -- eexists. eapply e_recv_err; eauto. reflexivity.
  - destruct Hinv as (Hb & Hserved & Hpend & _).
    destruct (forallb efin l) eqn:Hf.
    + eexists. apply e_bar. exact Hf.
    + assert (Hex : exists i w, nth_error l i = Some w /\ efin w = false).
      { clear - Hf. induction l as [|w l IH]; simpl in *; [discriminate|].
        destruct (efin w) eqn:Hw.
        - destruct (IH Hf) as (i & w' & Hi & Hw'). exists (S i), w'. auto.
        - exists 0, w. auto. }
      destruct Hex as (i & w & Hi & Hfw).
      assert (Hw : eshape w). { eapply Forall_forall in Hsh; eauto. eapply nth_error_In; eauto. }
      assert (Hbw : ebusy w = 0).
      { clear - Hb Hi. revert i Hi. induction l as [|x l IH]; intros [|i] Hi; simpl in *; try discriminate.
        - injection Hi as ->. lia.
        - eapply IH; eauto. lia. }
      destruct (Hserved i w Hi) as [_ Hni]. specialize (Hni (nth_error_lt _ _ Hi)).
      inversion Hw; subst; cbv in Hbw; try discriminate.
      * exfalso. apply Hni. reflexivity.
      * eexists. eapply e_weoq; eauto; reflexivity.
Qed.

Lemma ereach_trans s0 s1 s2 : ereach s0 s1 -> ereach s1 s2 -> ereach s0 s2.
Proof. intros H1 H2. induction H2; [exact H1|]. eapply ereach_step; eauto. Qed.

(* progress + termination: every partial run can be completed, all ranks pass the broadcast *)
Theorem edispatch_reaches_done tasks n s :
  ereach (einit tasks n) s -> exists s', ereach s s' /\ epc s' = RDone.
Proof.
  remember (emu s) as k eqn:Ek. revert s Ek.
  induction k as [k IH] using lt_wf_ind. intros s Ek Hr.
  destruct (epc s) eqn:Hpc.
  4: { exists s. split; [constructor|exact Hpc]. }
  all: destruct (@edispatch_progress tasks n s Hr) as [s1 Hs1]; [congruence|];
       destruct (IH (emu s1) ltac:(subst k; eapply estep_decreases; exact Hs1) s1 eq_refl
                    ltac:(eapply ereach_step; eauto)) as (s2 & Hr2 & Hd);
       exists s2; split; [|exact Hd];
       eapply ereach_trans; [eapply ereach_step; [constructor|exact Hs1]|exact Hr2].
Qed.

(* ---------- the end of a run ---------- *)
Definition wdone (w : eworker) : Prop := w = mkEW [] [] true 1.

Lemma efin_all_done l : Forall eshape l -> forallb efin l = true -> Forall wdone l.
Proof.
  induction 1 as [|w l Hw Hl IH]; simpl; auto. intros Hf. apply andb_true_iff in Hf as [Hfw Hfl].
  constructor; auto. inversion Hw; subst; simpl in *; try discriminate. reflexivity.
Qed.

Lemma wdone_empty l : Forall wdone l -> flat_map eintasks l = [] /\ flat_map eoutb l = [].
Proof.
  induction 1 as [|w l Hw Hl [E1 E2]]; simpl; auto. red in Hw. subst w. simpl. auto.
Qed.

Lemma map_Ok_inj (a b : list R) : map (@Ok T R) a = map (@Ok T R) b -> a = b.
Proof.
  revert b; induction a as [|x a IH]; intros [|y b] H; simpl in *; try discriminate; auto.
  injection H as -> H. f_equal. auto.
Qed.

Lemma Permutation_map_Ok_inv (a b : list R) : Permutation (map (@Ok T R) a) (map (@Ok T R) b) -> Permutation a b.
Proof.
  intros H. apply Permutation_map_inv in H as (l3 & E & HP). apply map_Ok_inj in E. subst l3.
  apply Permutation_sym. exact HP.
Qed.

Section AtDone.
Context (tasks : list T) (n : nat) (s : est).
Context (Hr : ereach (einit tasks n) s).
Context (Hdone : epc s = RDone).

Lemma edone_facts :
  Forall wdone (ews s) /\ eout s = repeat (eerr s) (S n) /\ (eerr s = None -> epend s = [])
  /\ (exists h, tasks = h ++ epend s /\ Permutation h (eran s))
  /\ (exists d, Permutation (map job (eran s)) (map (@Ok T R) (egot s) ++ d) /\ (eerr s = None -> d = []))
  /\ (forall t, eerr s = Some t -> fails t = true /\ In t (eran s)).
Proof.
  destruct (EInv_reach Hr) as (Hsh & (h & Eh & Hp1) & (d & Hp2 & Hd) & Herr & Hpc).
  unfold epc_inv in Hpc. rewrite Hdone in Hpc. destruct Hpc as (_ & _ & Hpe & Hfin).
  destruct (Hfin eq_refl) as [Hf Ho].
  pose proof (efin_all_done Hsh Hf) as Hall. destruct (wdone_empty Hall) as [E1 E2].
  rewrite E1 in Hp1. rewrite E2 in Hp2. simpl in Hp1, Hp2.
  rewrite (ereach_length Hr) in Ho.
  split; [exact Hall|]. split; [exact Ho|]. split; [exact Hpe|].
  split; [exists h; auto|]. split; [exists d; auto|]. exact Herr.
Qed.

(* (b) every worker has received exactly one sentinel, holds no message and is out of its loop *)
Theorem edispatch_workers_end : length (ews s) = n /\ Forall wdone (ews s).
Proof. split; [apply (ereach_length Hr)|apply edone_facts]. Qed.

(* (c) every task is executed at most once; the tasks handed out (all but the suffix that is
   still pending - nothing is handed out after the first error, eerr_frozen) exactly once *)
Theorem edispatch_at_most_once :
  exists h, tasks = h ++ epend s /\ Permutation h (eran s).
Proof. apply edone_facts. Qed.

(* (d) the error flag is set iff some executed task fails; it is the error of an executed
   failing task; every rank leaves the broadcast with the root's flag: all raise or none *)
Theorem edispatch_error_iff :
  (eerr s <> None <-> exists t, In t (eran s) /\ fails t = true)
  /\ (forall t, eerr s = Some t -> fails t = true /\ In t (eran s))
  /\ eout s = repeat (eerr s) (S n).
Proof.
  destruct edone_facts as (_ & Ho & _ & _ & (d & Hp2 & Hd) & Herr).
  split; [|split; auto]. split.
  - destruct (eerr s) as [t|] eqn:E; [|congruence]. intros _. exists t. destruct (Herr t eq_refl). auto.
  - intros (t & Hin & Hf) Hnone. rewrite (Hd Hnone), app_nil_r in Hp2.
    assert (Hm : In (Err t) (map job (eran s))).
    { apply in_map_iff. exists t. split; auto. apply job_err. exact Hf. }
    pose proof (Permutation_in _ Hp2 Hm) as Hm'. apply in_map_iff in Hm' as (x & Hx & _). discriminate.
Qed.

Corollary edispatch_all_ranks_same r1 r2 o1 o2 :
  nth_error (eout s) r1 = Some o1 -> nth_error (eout s) r2 = Some o2 -> o1 = eerr s /\ o2 = eerr s.
Proof.
  destruct edispatch_error_iff as (_ & _ & ->). intros H1 H2.
  apply nth_error_In in H1, H2. apply repeat_spec in H1, H2. auto.
Qed.

(* what the root yielded are results of distinct executed tasks that did not fail *)
Theorem edispatch_yielded_sound :
  exists d, Permutation (map job (eran s)) (map (@Ok T R) (egot s) ++ d).
Proof. destruct edone_facts as (_ & _ & _ & _ & (d & Hp2 & _) & _). eauto. Qed.

(* (e) a run that ends without the error flag executed every task exactly once and the root
   yielded exactly map f tasks - the statement of the error-free theorem *)
Theorem edispatch_no_error_result :
  eerr s = None -> Permutation tasks (eran s) /\ Permutation (map f tasks) (egot s).
Proof.
  intros Hnone. destruct edone_facts as (_ & _ & Hpe & (h & Eh & Hp1) & (d & Hp2 & Hd) & _).
  rewrite (Hpe Hnone), app_nil_r in Eh. subst h. rewrite (Hd Hnone), app_nil_r in Hp2.
  split; auto.
  assert (Hnf : forall t, In t (eran s) -> fails t = false).
  { intros t Hin. destruct (fails t) eqn:Hf; auto. exfalso.
    destruct edispatch_error_iff as ([_ Hx] & _). apply Hx; eauto. }
  assert (E : map job (eran s) = map (@Ok T R) (map f (eran s))).
  { rewrite map_map. apply map_ext_in. intros t Hin. apply job_ok. auto. }
  rewrite E in Hp2. apply Permutation_map_Ok_inv in Hp2.
  etransitivity; [apply Permutation_map; exact Hp1|exact Hp2].
Qed.

Corollary edispatch_no_failing_task :
  (forall t, In t tasks -> fails t = false) ->
  eerr s = None /\ eout s = repeat None (S n) /\ Permutation tasks (eran s) /\ Permutation (map f tasks) (egot s).
Proof.
  intros Hnf. assert (Hnone : eerr s = None).
  { destruct (eerr s) as [t|] eqn:E; auto. exfalso.
    destruct edone_facts as (_ & _ & _ & (h & Eh & Hp1) & _ & Herr).
    destruct (Herr t E) as [Hf Hin]. apply Permutation_sym in Hp1. pose proof (Permutation_in _ Hp1 Hin) as Hh.
    rewrite (Hnf t) in Hf; [discriminate|]. rewrite Eh. apply in_or_app. auto. }
  destruct edispatch_error_iff as (_ & _ & Ho). rewrite Hnone in Ho.
  destruct (edispatch_no_error_result Hnone). auto.
Qed.
End AtDone.


(* ---------- root fallback: no worker rank allowed (max_workers = 1) ---------- *)
(* the root runs the tasks itself, in order; the first failing task raises, the rest is not
   run; then the broadcast: the run is the single-process run [seqrun] *)
Definition equiet (w : eworker) : Prop := eoutb w = [] /\ forall t, ~ In (Task t) (einb w).
Definition EInv0 (tasks : list T) (s : est) : Prop :=
  Forall equiet (ews s)
  /\ match epc s with RInit _ a => a = 0 | RLoop a => a = 0 | _ => True end
  /\ match eerr s with
     | None => seqrun f fails (eran s) (egot s) (epend s) = seqrun f fails [] [] tasks
     | Some t => (eran s, egot s, Some t, epend s) = seqrun f fails [] [] tasks
     end.

Lemma eForall_upd (P : eworker -> Prop) i (w w' : eworker) l :
  nth_error l i = Some w -> Forall P l -> P w' -> Forall P (upd i w' l).
Proof.
  intros Hn Hl Hw'. destruct (@upd_split _ _ _ _ w' Hn) as (l1 & l2 & E & E' & _).
  rewrite E'. rewrite E in Hl. apply Forall_app in Hl as [H1 H2]. inversion H2; subst.
  apply Forall_app; split; auto.
Qed.

Lemma eForall_nth (P : eworker -> Prop) i (w : eworker) l : nth_error l i = Some w -> Forall P l -> P w.
Proof. intros Hn Hl. eapply Forall_forall in Hl; eauto. eapply nth_error_In; eauto. Qed.

Lemma EInv0_step tasks s s' :
  (forall k, allowed k = false) -> EInv0 tasks s -> estep s s' -> EInv0 tasks s'.
Proof.
  intros Hna (Hq & Hpc & Hseq) Hst. unfold EInv0 in *.
  inversion Hst; subst; cbn [epc epend ews egot eran eerr eout] in *; try discriminate.
  - rewrite Hna in H. discriminate.
  - repeat split; auto. eapply eForall_upd; eauto.
    destruct (eForall_nth _ H0 Hq) as [Ho Hi]. split; cbn [einb eoutb]; auto.
    intros t Hin. apply in_app_or in Hin as [Hin|[Hin|[]]]; [eapply Hi; eauto|discriminate].
  - repeat split; auto.
  - repeat split; auto.
  - split; [auto|]. split; [auto|]. rewrite <- Hseq. simpl. rewrite H0. reflexivity.
  - split; [auto|]. split; [auto|]. rewrite <- Hseq. simpl. rewrite H0. reflexivity.
  - exfalso. destruct (eForall_nth _ H Hq) as [_ Hi]. apply (Hi t). rewrite H1. left. reflexivity.
  - split; [|split; auto]. eapply eForall_upd; eauto.
    destruct (eForall_nth _ H Hq) as [Ho Hi]. split; cbn [einb eoutb]; auto.
    intros t Hin. apply (Hi t). rewrite H1. right. exact Hin.
  - repeat split; auto.
Qed.

Theorem edispatch_root_fallback tasks n s :
  (forall k, allowed k = false) -> ereach (einit tasks n) s -> epc s = RDone ->
  (eran s, egot s, eerr s, epend s) = seqrun f fails [] [] tasks /\ eout s = repeat (eerr s) (S n).
Proof.
  intros Hna Hr Hd.
  assert (H : EInv0 tasks s).
  { clear Hd. induction Hr; [|eapply EInv0_step; eauto].
    unfold EInv0, Dispatch.einit; cbn [epc epend ews egot eran eerr]. repeat split; auto.
    apply Forall_forall. intros w Hw. apply repeat_spec in Hw. subst. split; cbn [einb eoutb]; auto. }
  destruct H as (_ & _ & Hseq). destruct (edone_facts Hr Hd) as (_ & Ho & Hpe & _).
  split; auto. destruct (eerr s) as [t|] eqn:E; auto.
  rewrite <- Hseq. rewrite (Hpe eq_refl). reflexivity.
Qed.

End DispatchEP.

(* ---------- the executable step is the relation (repaired and pinned worker) ---------- *)
Section EStepWith.
Context {T R : Type}.
Context (f : T -> R) (fails : T -> bool) (allowed : nat -> bool) (wcatch : bool) (md : mode).
Local Notation estep := (estep f fails allowed wcatch md).
Local Notation estep_with := (estep_with f fails allowed wcatch md).
Local Notation ereach := (ereach f fails allowed wcatch md).

Ltac edm :=
  match goal with
  | H : context [match ?x with _ => _ end] |- _ => destruct x eqn:?; try discriminate
  end.

Lemma estep_with_sound c s s' : estep_with c s = Some s' -> estep s s'.
Proof.
  destruct s as [c0 p l g r e o]. unfold Dispatch.estep_with, eset; cbn [epc epend ews egot eran eerr eout]. intros H.
  destruct c; repeat edm; injection H as <-;
  repeat match goal with H : _ && _ = true |- _ => apply andb_true_iff in H as [? ?] end;
  repeat match goal with H : (_ =? _) = true |- _ => apply Nat.eqb_eq in H; subst end.
  - eapply e_init_task; eauto.
  - eapply e_init_eoq; eauto.
    match goal with H : _ || _ = true |- _ => apply orb_true_iff in H; destruct H as [Hx|Hx] end.
    + left. apply negb_true_iff. exact Hx.
    + right. apply is_nil_true. exact Hx.
  - eapply e_init_done; eauto.
  - eapply e_recv_more; eauto.
  - eapply e_recv_last; eauto.
  - eapply e_recv_err; eauto.
  - eapply e_recv_drain; eauto.
  - eapply e_fallback; eauto. apply negb_true_iff. assumption.
  - eapply e_fallback_err; eauto.
  - eapply e_exit; eauto. intros; discriminate.
  - eapply e_exit; eauto. intros _. apply is_nil_true. assumption.
  - eapply e_wtask; eauto.
    match goal with H : _ || _ = true |- _ => apply orb_true_iff in H; destruct H as [Hx|Hx] end.
    + left. exact Hx.
    + right. apply negb_true_iff. exact Hx.
  - eapply e_wescape; eauto. apply negb_true_iff. assumption.
  - eapply e_weoq; eauto.
  - eapply e_bar; eauto.
Qed.

Lemma estep_with_complete s s' : estep s s' -> exists c, estep_with c s = Some s'.
Proof.
  intros H. inversion H; subst.
  - exists (EInitTask k). unfold Dispatch.estep_with, eset; cbn [epc epend ews egot eran eerr eout].
    rewrite H1, Nat.eqb_refl, H0, H2. reflexivity.
  - exists (EInitEoq k). unfold Dispatch.estep_with, eset; cbn [epc epend ews egot eran eerr eout].
    rewrite H1, Nat.eqb_refl, H2.
    destruct H0 as [-> | ->]; [reflexivity|]. rewrite orb_true_r. reflexivity.
  - exists EInitDone. unfold Dispatch.estep_with, eset; cbn [epc epend ews egot eran eerr eout].
    rewrite Nat.eqb_refl, H1. reflexivity.
  - exists (ERecvMore i). unfold Dispatch.estep_with, eset; cbn [epc epend ews egot eran eerr eout].
    rewrite H0, H1, H2. reflexivity.
  - exists (ERecvLast i). unfold Dispatch.estep_with, eset; cbn [epc epend ews egot eran eerr eout].
    rewrite H0, H1, H2. reflexivity.
  - exists (ERecvErr i). unfold Dispatch.estep_with, eset; cbn [epc epend ews egot eran eerr eout].
    rewrite H0, H1, H2. reflexivity.
  - exists (ERecvDrain i). unfold Dispatch.estep_with, eset; cbn [epc epend ews egot eran eerr eout].
    rewrite H0, H1, H2. reflexivity.
  - exists EExit. unfold Dispatch.estep_with, eset; cbn [epc epend ews egot eran eerr eout].
    rewrite H0. destruct e; [reflexivity|]. rewrite (H1 eq_refl). reflexivity.
  - exists EFallback. unfold Dispatch.estep_with, eset; cbn [epc epend ews egot eran eerr eout].
    rewrite H0, H1. reflexivity.
  - exists EFallbackErr. unfold Dispatch.estep_with, eset; cbn [epc epend ews egot eran eerr eout].
    rewrite H0, H1. reflexivity.
  - exists (EWTask i). unfold Dispatch.estep_with, eset; cbn [epc epend ews egot eran eerr eout].
    rewrite H0, H1, H2. destruct H3 as [-> | ->]; [reflexivity|]. rewrite orb_true_r. reflexivity.
  - exists (EWEscape i). unfold Dispatch.estep_with, eset; cbn [epc epend ews egot eran eerr eout].
    rewrite H0, H1, H2, H4. reflexivity.
  - exists (EWEoq i). unfold Dispatch.estep_with, eset; cbn [epc epend ews egot eran eerr eout].
    rewrite H0, H1, H2. reflexivity.
  - exists EBar. unfold Dispatch.estep_with, eset; cbn [epc epend ews egot eran eerr eout]. rewrite H0. reflexivity.
Qed.

Lemma erun_sound cs s s' : erun f fails allowed wcatch md cs s = Some s' -> ereach s s'.
Proof.
  revert s. induction cs as [|c cs IH]; simpl; intros s H.
  - injection H as <-. constructor.
  - destruct (estep_with c s) as [s1|] eqn:E; [|discriminate].
    assert (Hs : estep s s1) by (eapply estep_with_sound; exact E).
    specialize (IH _ H). clear - Hs IH. induction IH; [eapply ereach_step; [constructor|exact Hs]|eapply ereach_step; eauto].
Qed.

(* a choice with a worker index outside the world is never enabled; hence the boolean test
   [enone_enabled] decides that NO step is possible *)
Lemma estep_with_oob c s :
  ~ In c (echoices (length (ews s))) -> estep_with c s = None.
Proof.
  intros Hnin.
  assert (Hidx : forall i c,
             In c [EInitTask i; EInitEoq i; ERecvMore i; ERecvLast i; ERecvErr i; ERecvDrain i; EWTask i; EWEscape i; EWEoq i] ->
             ~ In c (echoices (length (ews s))) -> nth_error (ews s) i = None).
  { intros i c0 Hin Hn. apply nth_error_None. destruct (Nat.lt_ge_cases i (length (ews s))) as [Hlt|]; auto.
    exfalso. apply Hn. unfold echoices. apply in_or_app. right. apply in_flat_map. exists i. split; auto.
    apply in_seq. lia. }
  unfold Dispatch.estep_with.
  destruct c;
    try (exfalso; apply Hnin; unfold echoices; apply in_or_app; left; simpl; auto 8; fail);
    match goal with
    | |- context [nth_error (ews s) ?i] =>
        let Hx := fresh in
        assert (Hx : nth_error (ews s) i = None) by (eapply Hidx; [|exact Hnin]; simpl; auto 12);
        rewrite Hx
    end;
    repeat match goal with |- context [match ?x with _ => _ end] => destruct x; try reflexivity end;
    try reflexivity.
Qed.

Lemma enone_enabled_stuck s :
  epc s <> RDone -> enone_enabled f fails allowed wcatch md s = true -> estuck f fails allowed wcatch md s.
Proof.
  intros Hpc Hn. split; auto. intros s' Hst. apply estep_with_complete in Hst as [c Hc].
  unfold enone_enabled in Hn. rewrite forallb_forall in Hn.
  destruct (in_dec (fun a b : echoice => ltac:(decide equality; apply Nat.eq_dec) : {a = b} + {a <> b}) c (echoices (length (ews s)))) as [Hin|Hnin].
  - specialize (Hn c Hin). rewrite Hc in Hn. discriminate.
  - rewrite (estep_with_oob _ Hnin) in Hc. discriminate.
Qed.
End EStepWith.

(* ---------- the error-free protocol is the special case fails = (fun _ => false) ---------- *)
Section Embed.
Context {T R : Type}.
Context (f : T -> R) (allowed : nat -> bool) (wcatch : bool) (md : mode).
Local Notation nofail := (fun _ : T => false).

Lemma embW_upd i (x : worker T R) l : map embW (upd i x l) = upd i (embW x) (map embW l).
Proof. unfold upd. rewrite map_app, firstn_map, skipn_map. reflexivity. Qed.

Lemma eroot_ok_emb (l : list (worker T R)) : eroot_ok md (map embW l) = root_ok md l.
Proof.
  destruct md; simpl; auto. unfold enoinb, noinb. induction l as [|w l IH]; simpl; auto.
  rewrite IH. destruct (inb w); reflexivity.
Qed.

Lemma efin_emb (l : list (worker T R)) : forallb (@efin T R) (map embW l) = forallb (@fin T R) l.
Proof. induction l as [|w l IH]; simpl; auto. rewrite IH. reflexivity. Qed.

Lemma nth_emb (l : list (worker T R)) i : nth_error (map embW l) i = option_map embW (nth_error l i).
Proof. apply nth_error_map. Qed.

(* the extended executable step on embedded states, with the embedded choice, IS the old step
   (root fallback on): same enabledness, same successor *)
Ltac emb_dm :=
  match goal with
  | |- context [option_map embW (nth_error ?l ?i)] => destruct (nth_error l i) eqn:?; cbn [option_map]
  | |- context [match map _ (outb ?w) with _ => _ end] => destruct (outb w) eqn:?; cbn [map]
  | |- context [match ?x with _ => _ end] => destruct x eqn:?
  end;
  cbn [embW einb eoutb efin eoqn inb outb fin negb orb andb is_done Dispatch.job option_map];
  rewrite ?orb_true_r, ?andb_true_r; try reflexivity; try discriminate.

Ltac emb_leaf :=
  unfold embed; cbn [pc pend ws got ran is_done option_map]; rewrite ?embW_upd; unfold embW; cbn [inb outb fin];
  rewrite ?map_app; cbn [map];
  repeat match goal with H : fin _ = _ |- _ => rewrite H end;
  rewrite ?upd_length by (eapply nth_error_lt; eassumption); rewrite ?map_length; try reflexivity.

Theorem estep_with_embed c (s : st T R) :
  estep_with f nofail allowed wcatch md (lift c) (embed s)
  = option_map embed (step_with f allowed true md c s).
Proof.
  destruct s as [c0 p l g r]. destruct c0 as [k0 a0|a0| |].
  all: unfold Dispatch.estep_with, Dispatch.step_with, embed, eset, lift;
    cbn [epc epend ews egot eran eerr eout pc pend ws got ran].
  all: destruct c; rewrite ?nth_emb, ?eroot_ok_emb, ?efin_emb, ?map_length; repeat emb_dm; emb_leaf.
Qed.

(* so a replayed log accepted by the old model is accepted by the extended one, with the
   embedded final state *)
Corollary erun_embed cs (s : st T R) :
  erun f nofail allowed wcatch md (map lift cs) (embed s)
  = option_map embed (run f allowed true md cs s).
Proof.
  revert s. induction cs as [|c cs IH]; intros s; simpl; auto.
  rewrite estep_with_embed. destruct (step_with f allowed true md c s) as [s1|]; simpl; auto.
Qed.

Lemma embed_init tasks n : embed (@init T R tasks n) = einit tasks n.
Proof.
  unfold embed, init, einit; cbn [pc pend ws got ran is_done]. f_equal.
  induction n; simpl; auto. f_equal. exact IHn.
Qed.
End Embed.

(* the error-free theorem as a corollary of the extended one: a finished run of the extended
   protocol with a job that never fails executed every task exactly once, the root yielded
   map f tasks, and no rank raises *)
Corollary edispatch_exactly_once_total_nofail :
  forall (T R : Type) (f : T -> R) allowed md tasks n (s : est T R),
  ereach f (fun _ => false) allowed true md (einit tasks n) s -> epc s = RDone ->
  eerr s = None /\ eout s = repeat None (S n) /\ Permutation tasks (eran s) /\ Permutation (map f tasks) (egot s).
Proof. intros. eapply edispatch_no_failing_task; eauto. Qed.

(* ---------- (f) the pinned worker: a failing job leaves the root waiting forever ---------- *)
(* world size 3, tasks 10 11 12 13, the job fails on 11.  Worker 2 gets 11, the exception
   escapes, it leaves without sending; worker 1 works off the rest and gets its sentinel; the
   root still counts one active worker and waits in recv(ANY_SOURCE): nothing is enabled, in
   both send modes (finding F23 group C, repaired by 32238ed) *)
Definition f23c_choices : list echoice :=
  [EInitTask 0; EWTask 0; EInitTask 1; EWEscape 1; EInitDone; ERecvMore 0; EWTask 0; ERecvMore 0; EWTask 0;
   ERecvLast 0; EWEoq 0].

Theorem old_worker_job_error_stuck :
  forall md, exists s : est nat nat,
    ereach c06_f (c06_fails [11]) (c06_allowed [0; 1; 2]) false md (einit [10; 11; 12; 13] 2) s /\
    estuck c06_f (c06_fails [11]) (c06_allowed [0; 1; 2]) false md s /\
    epc s = RLoop 1 /\ eran s = [10; 11; 12; 13] /\ egot s = [31; 37; 40] /\ eerr s = None /\
    Forall (fun w => einb w = [] /\ eoutb w = []) (ews s).
Proof.
  intros md.
  destruct (erun c06_f (c06_fails [11]) (c06_allowed [0; 1; 2]) false md f23c_choices (einit [10; 11; 12; 13] 2)) as [s|] eqn:E;
    [|destruct md; vm_compute in E; discriminate].
  exists s. pose proof (erun_sound _ _ _ _ _ _ _ E) as Hr. split; [exact Hr|].
  destruct md; vm_compute in E; injection E as <-;
    (split; [apply enone_enabled_stuck; [discriminate|vm_compute; reflexivity]|]);
    cbn [epc eran egot eerr ews]; repeat split; auto.
Qed.

(* the same world and the same matching order with the repaired worker: the error comes back,
   the root drains worker 1, every rank raises the error of task 11; task 13 is never run *)
Definition f23c_choices_fixed : list echoice :=
  [EInitTask 0; EWTask 0; EInitTask 1; EWTask 1; EInitDone; ERecvMore 0; EWTask 0; ERecvErr 1; EWEoq 1;
   ERecvDrain 0; EWEoq 0; EExit; EBar].

Lemma new_worker_job_error_run :
  forall md, exists s : est nat nat,
    erun c06_f (c06_fails [11]) (c06_allowed [0; 1; 2]) true md f23c_choices_fixed (einit [10; 11; 12; 13] 2) = Some s /\
    epc s = RDone /\ egot s = [31] /\ eran s = [10; 11; 12] /\ epend s = [13] /\ eerr s = Some 11 /\
    eout s = [Some 11; Some 11; Some 11].
Proof. intros md. destruct md; eexists; vm_compute; repeat split; reflexivity. Qed.


(* ======================================================================================
   The consumer of the root's iterator stops after k items (Model/Dispatch.v, qstep): for every
   task list, number of workers, rank set, send mode, schedule and every k.  No axioms. *)
Lemma nth_error_upd_eq A i (x y : A) l : nth_error l i = Some y -> nth_error (upd i x l) i = Some x.
Proof.
  intros H. destruct (@upd_split _ _ _ _ x H) as (l1 & l2 & E & E' & Hl). rewrite E'. subst i.
  rewrite nth_error_app2 by lia. rewrite Nat.sub_diag. reflexivity.
Qed.

Lemma nth_error_upd_other A j i (x y z : A) l :
  nth_error l j = Some y -> nth_error l i = Some z -> i <> j -> nth_error (upd j x l) i = Some z.
Proof.
  intros Hj Hi Hne. destruct (@upd_split _ _ _ _ x Hj) as (l1 & l2 & E & E' & Hl).
  rewrite E'. rewrite E in Hi. destruct (nth_mid _ _ _ _ Hi) as [[Hij _]|[_ Hx]]; [lia|]. apply Hx.
Qed.

Lemma forallb_false_nth A (p : A -> bool) l :
  forallb p l = false -> exists i x, nth_error l i = Some x /\ p x = false.
Proof.
  induction l as [|y l IH]; simpl; [discriminate|]. destruct (p y) eqn:E; simpl.
  - intros H. destruct (IH H) as (i & x & Hi & Hx). exists (S i), x. auto.
  - intros _. exists 0, y. auto.
Qed.

Section DispatchQP.
Context {T R : Type}.
Context (f : T -> R).
Context (allowed : nat -> bool).
Context (fb : bool).
Context (md : mode).

Local Notation worker := (Dispatch.worker T R).
Local Notation st := (Dispatch.st T R).
Local Notation qst := (Dispatch.qst T R).
Local Notation step := (Dispatch.step f allowed fb md).
Local Notation reach := (Dispatch.reach f allowed fb md).
Local Notation wstep := (Dispatch.wstep f).
Local Notation qstep := (Dispatch.qstep f allowed fb md).
Local Notation qreach := (Dispatch.qreach f allowed fb md).
Local Notation qsteps := (Dispatch.qsteps f allowed fb md).
Local Notation qstuck := (Dispatch.qstuck f allowed fb md).
Local Notation init := (@Dispatch.init T R).
Local Notation qinit := (@Dispatch.qinit T R).

Lemma wstep_step s s' : wstep s s' -> step s s'.
Proof. intros H. inversion H; subst; [eapply s_wtask | eapply s_weoq]; eauto. Qed.

Lemma wstep_frozen s s' : wstep s s' -> pc s' = pc s /\ pend s' = pend s /\ got s' = got s.
Proof. intros H. inversion H; subst; auto. Qed.

(* ---- termination: every step decreases the measure of the protocol state ---- *)
Theorem qstep_decreases k s s' : qstep k s s' -> mu (qs s') < mu (qs s).
Proof.
  intros H.
  inversion H as [b b' Hst Hlt | i a p l g r w x xs Hn Ho Hr Hk | t p l g r Hfb Hr Hk | b b' who Hw]; subst; cbn [qs].
  - apply (step_decreases Hst).
  - unfold mu; cbn [pc pend Dispatch.ws pcw length].
    pose proof (nth_error_lt _ _ Hn) as Hl.
    pose proof (@nsum_upd T R (@wm T R) i w (mkW (inb w) xs (fin w)) l Hn) as Hs.
    try rewrite (upd_length _ _ Hl). rewrite !wm_def in Hs. cbn [inb outb] in Hs. rewrite Ho in Hs. cbn [length] in Hs. lia.
  - unfold mu; cbn [pc pend Dispatch.ws pcw length]. lia.
  - apply (step_decreases (wstep_step Hw)).
Qed.

Theorem qdispatch_terminates k n s s' : qsteps k n s s' -> n + mu (qs s') <= mu (qs s).
Proof.
  induction 1 as [s|n s s1 s2 Hs _ IH]; [lia|]. pose proof (qstep_decreases Hs). lia.
Qed.

Lemma qreach_trans k s0 s1 s2 : qreach k s0 s1 -> qreach k s1 s2 -> qreach k s0 s2.
Proof. intros H1 H2. induction H2; [exact H1|]. eapply qreach_step; eauto. Qed.

(* ---- once the consumer has stopped the root is frozen ---- *)
Theorem qstopped_frozen k s s' who :
  qstep k s s' -> qstop s = Some who ->
  qstop s' = Some who /\ pc (qs s') = pc (qs s) /\ pend (qs s') = pend (qs s) /\ got (qs s') = got (qs s).
Proof.
  intros H Hq.
  inversion H as [b b' Hst Hlt | i a p l g r w x xs Hn Ho Hr Hk | t p l g r Hfb Hr Hk | b b' who' Hw]; subst;
    cbn [qstop qs] in *; try discriminate.
  injection Hq as <-. destruct (wstep_frozen Hw) as (A & B & C). auto.
Qed.

(* ---- a stopped state in which every worker is quiet cannot move ---- *)
Lemma qquiet_stuck k s who : qstop s = Some who -> qquiet s = true -> qstuck k s.
Proof.
  intros Hq Hqu s' H.
  inversion H as [b b' Hst Hlt | i a p l g r w x xs Hn Ho Hr Hk | t p l g r Hfb Hr Hk | b b' who' Hw]; subst;
    cbn [qstop qs] in *; try discriminate.
  unfold qquiet in Hqu. cbn [qs] in Hqu.
  inversion Hw as [i c p l g r w t ms Hn Hf Hi | i c p l g r w ms Hn Hf Hi]; subst; cbn [Dispatch.ws] in Hqu;
    pose proof (forallb_nth _ _ _ Hqu Hn) as Hp; cbn beta in Hp; rewrite Hi, Hf in Hp; discriminate.
Qed.

(* ---- ... and every stopped state runs into one: the world is deadlocked ---- *)
Theorem consumer_stop_gets_stuck k s who :
  qstop s = Some who ->
  exists s', qreach k s s' /\ qstop s' = Some who /\ qquiet s' = true /\ qstuck k s'.
Proof.
  remember (mu (qs s)) as m eqn:Em. revert s Em.
  induction m as [m IH] using lt_wf_ind. intros s Em Hq.
  destruct (qquiet s) eqn:Hqu.
  - exists s. split; [constructor|]. split; [exact Hq|]. split; [exact Hqu|]. eapply qquiet_stuck; eauto.
  - destruct s as [b q]. cbn [qstop] in Hq. subst q. unfold qquiet in Hqu. cbn [qs] in *.
    destruct (forallb_false_nth _ _ Hqu) as (i & w & Hn & Hp). cbn beta in Hp.
    apply orb_false_iff in Hp as [Hi Hf]. destruct b as [c p l g r]. cbn [Dispatch.ws] in Hn.
    destruct (inb w) as [|[t|] ms] eqn:Ei; [discriminate| |].
    + pose (b1 := mkS c p (upd i (mkW ms (outb w ++ [f t]) false) l) g (r ++ [t])).
      assert (Hs : qstep k (mkQ (mkS c p l g r) (Some who)) (mkQ b1 (Some who))).
      { apply q_worker. eapply w_task; eauto. }
      destruct (IH (mu b1) ltac:(subst m; apply (qstep_decreases Hs)) (mkQ b1 (Some who)) eq_refl eq_refl)
        as (s2 & Hr2 & Hq2 & Hqu2 & Hst2).
      exists s2. split; [|auto]. eapply qreach_trans; [eapply qreach_step; [constructor|exact Hs]|exact Hr2].
    + pose (b1 := mkS c p (upd i (mkW ms (outb w) true) l) g r).
      assert (Hs : qstep k (mkQ (mkS c p l g r) (Some who)) (mkQ b1 (Some who))).
      { apply q_worker. eapply w_eoq; eauto. }
      destruct (IH (mu b1) ltac:(subst m; apply (qstep_decreases Hs)) (mkQ b1 (Some who)) eq_refl eq_refl)
        as (s2 & Hr2 & Hq2 & Hqu2 & Hst2).
      exists s2. split; [|auto]. eapply qreach_trans; [eapply qreach_step; [constructor|exact Hs]|exact Hr2].
Qed.

(* ---- invariant of the runs from the initial state ---- *)
Definition qwaiting (i : nat) (s : qst) : Prop :=
  exists w, nth_error (ws (qs s)) i = Some w /\ inb w = [] /\ outb w = [] /\ fin w = false.

Definition QInv (k : nat) (tasks : list T) (n : nat) (s : qst) : Prop :=
  match qstop s with
  | None => reach (init tasks n) (qs s) /\ length (got (qs s)) < k
  | Some who => (exists a, pc (qs s) = RLoop a) /\ length (got (qs s)) = k /\ k <= length tasks
                /\ match who with Some i => qwaiting i s | None => True end
  end.

Lemma outb_le_flat (l : list worker) i w :
  nth_error l i = Some w -> length (outb w) <= length (flat_map (@outb T R) l).
Proof.
  intros H. rewrite (nth_error_split' _ _ H). rewrite flat_map_app. cbn [flat_map]. rewrite !app_length. lia.
Qed.

Lemma reach_lengths tasks n s :
  reach (init tasks n) s ->
  length (pend s) + length (got s) + length (flat_map (@outb T R) (ws s)) <= length tasks.
Proof.
  intros Hr. destruct (Inv_reach Hr) as (_ & Hp1 & Hp2 & _).
  apply Permutation_length in Hp1. apply Permutation_length in Hp2.
  rewrite map_length in Hp2. rewrite !app_length in *. lia.
Qed.

Lemma QInv_step k tasks n s s' : QInv k tasks n s -> qstep k s s' -> QInv k tasks n s'.
Proof.
  intros HI H.
  inversion H as [b b' Hst Hlt | i a p l g r w x xs Hn Ho Hr Hk | t p l g r Hfb Hr Hk | b b' who Hw]; subst;
    unfold QInv in *; cbn [qstop qs] in *.
  - destruct HI as [Hre _]. split; [eapply reach_step; eauto|exact Hlt].
  - destruct HI as [Hre _].
    pose proof (reach_lengths Hre) as Hlen. cbn [pend got Dispatch.ws] in Hlen.
    pose proof Hn as Hle; apply outb_le_flat in Hle. rewrite Ho in Hle. cbn [length] in Hle.
    destruct (Inv_reach Hre) as (Hsh & _). cbn [Dispatch.ws] in Hsh.
    assert (Hw : shape w) by (eapply Forall_nth; eauto).
    split; [eexists; reflexivity|]. split; [cbn [got]; rewrite app_length; cbn [length]; lia|]. split; [lia|].
    exists (mkW (inb w) xs (fin w)). cbn [Dispatch.ws qs].
    split; [eapply nth_error_upd_eq; eauto|].
    inversion Hw as [E|t0 E|x0 E|E|E]; subst w; cbn [inb outb fin] in *; try discriminate.
    injection Ho as _ <-. auto.
  - destruct HI as [Hre _].
    pose proof (reach_lengths Hre) as Hlen. cbn [pend got Dispatch.ws length] in Hlen.
    split; [eexists; reflexivity|]. split; [cbn [got]; rewrite app_length; cbn [length]; lia|]. split; [lia|exact I].
  - destruct HI as ((a & Hpc) & Hlen & Hk & Hwho). destruct (wstep_frozen Hw) as (A & B & C).
    split; [exists a; congruence|]. split; [congruence|]. split; [exact Hk|].
    destruct who as [i|]; [|exact I]. destruct Hwho as (w & Hn & Hi & Ho & Hf). cbn [qs] in *.
    inversion Hw as [j c p l g r w1 t ms Hn1 Hf1 Hi1 | j c p l g r w1 ms Hn1 Hf1 Hi1]; subst; cbn [Dispatch.ws] in *;
      (assert (Hne : i <> j) by (intros ->; rewrite Hn in Hn1; injection Hn1 as <-; rewrite Hi in Hi1; discriminate));
      exists w; (split; [eapply nth_error_upd_other; eauto|auto]).
Qed.

Lemma QInv_reach k tasks n s : 1 <= k -> qreach k (qinit tasks n) s -> QInv k tasks n s.
Proof.
  intros Hk. induction 1 as [|s s' _ IH Hs]; [|eapply QInv_step; eauto].
  unfold QInv, Dispatch.qinit. cbn [qstop qs]. split; [constructor|cbn; lia].
Qed.

(* (1) after the stop: the root sits in its loop (it never enters the closing collective), the
   consumer holds exactly k items, and the worker whose result was the k-th item waits in
   recv(source=0) with no message in flight to it - it never gets its sentinel *)
Theorem consumer_stop_blocks k tasks n s who :
  1 <= k -> qreach k (qinit tasks n) s -> qstop s = Some who ->
  (exists a, pc (qs s) = RLoop a) /\ length (got (qs s)) = k /\ k <= length tasks /\
  (forall i, who = Some i -> qwaiting i s).
Proof.
  intros Hk Hr Hq. pose proof (QInv_reach Hk Hr) as HI. unfold QInv in HI. rewrite Hq in HI.
  destruct HI as (A & B & C & D). repeat split; auto. intros i ->. exact D.
Qed.

(* (2) a consumer that stops after k <= |tasks| items: NO run of the protocol ends with all ranks
   returned (repaired algorithm, every rank set - also max_workers = 1) *)
Theorem consumer_stop_never_done k tasks n s :
  fb = true -> 1 <= k <= length tasks -> qreach k (qinit tasks n) s -> pc (qs s) <> RDone.
Proof.
  intros Hfb [Hk1 Hk2] Hr Hpc. pose proof (QInv_reach Hk1 Hr) as HI. unfold QInv in HI.
  destruct (qstop s) as [who|].
  - destruct HI as ((a & Ha) & _). congruence.
  - destruct HI as [Hre Hlt].
    destruct (dispatch_exactly_once_total Hfb Hre Hpc) as [_ HP].
    apply Permutation_length in HP. rewrite map_length in HP. lia.
Qed.

(* (3) a consumer that asks for more items than there are tasks never stops: its runs are the
   runs of the protocol *)
Theorem consumer_exhausts_is_protocol k tasks n :
  length tasks < k ->
  (forall s, qreach k (qinit tasks n) s -> qstop s = None /\ reach (init tasks n) (qs s)) /\
  (forall b, reach (init tasks n) b -> qreach k (qinit tasks n) (mkQ b None)).
Proof.
  intros Hk. split.
  - intros s Hr. assert (Hk1 : 1 <= k) by lia. pose proof (QInv_reach Hk1 Hr) as HI. unfold QInv in HI.
    destruct (qstop s) as [who|]; [destruct HI as (_ & _ & Hle & _); lia|]. destruct HI; auto.
  - induction 1 as [|b b' Hre IH Hst]; [constructor|].
    eapply qreach_step; [exact IH|]. apply q_run; [exact Hst|].
    pose proof (reach_lengths (reach_step Hre Hst)). lia.
Qed.

(* ---- the executable step is sound ---- *)
Lemma step_with_wchoice c s s' :
  is_wchoice c = true -> step_with f allowed fb md c s = Some s' -> wstep s s'.
Proof.
  destruct s as [c0 p l g r]. destruct c; try discriminate; intros _; unfold step_with; cbn [Dispatch.ws pc pend got ran];
    destruct (nth_error l i) as [w|] eqn:Hn; try discriminate;
    destruct (fin w) eqn:Hf; try discriminate;
    destruct (inb w) as [|[t|] ms] eqn:Hi; try discriminate; intros E; injection E as <-.
  - eapply w_task; eauto.
  - eapply w_eoq; eauto.
Qed.

Lemma qstep_with_sound k c s s' : qstep_with f allowed fb md k c s = Some s' -> qstep k s s'.
Proof.
  destruct s as [b q]. unfold qstep_with. cbn [qs qstop].
  destruct c as [c'|i|]; destruct q as [who|]; try discriminate.
  - destruct (is_wchoice c') eqn:Hw; [|discriminate].
    destruct (step_with f allowed fb md c' b) as [b'|] eqn:E; [|discriminate].
    intros H; injection H as <-. apply q_worker. eapply step_with_wchoice; eauto.
  - destruct (step_with f allowed fb md c' b) as [b'|] eqn:E; [|discriminate].
    destruct (length (got b') <? k) eqn:Hl; [|discriminate].
    intros H; injection H as <-. apply q_run; [eapply step_with_sound; eauto|apply Nat.ltb_lt; exact Hl].
  - destruct b as [c0 p l g r]. cbn [pc Dispatch.ws pend got ran].
    destruct c0 as [? ?|[|a]| |]; try discriminate.
    destruct (nth_error l i) as [w|] eqn:Hn; [|discriminate].
    destruct (outb w) as [|x xs] eqn:Ho; [discriminate|].
    destruct (root_ok md l && (S (length g) =? k)) eqn:Hc; [|discriminate].
    apply andb_true_iff in Hc as [Hr Hk]. apply Nat.eqb_eq in Hk.
    intros H; injection H as <-. eapply q_stop_recv; eauto.
  - destruct b as [c0 p l g r]. cbn [pc Dispatch.ws pend got ran].
    destruct c0 as [? ?|[|a]| |]; try discriminate.
    destruct p as [|t p]; [discriminate|].
    destruct (fb && root_ok md l && (S (length g) =? k)) eqn:Hc; [|discriminate].
    apply andb_true_iff in Hc as [Hc Hk]. apply andb_true_iff in Hc as [Hfb Hr]. apply Nat.eqb_eq in Hk.
    intros H; injection H as <-. eapply q_stop_fallback; eauto.
Qed.

Lemma qrun_sound k cs s s' : qrun f allowed fb md k cs s = Some s' -> qreach k s s'.
Proof.
  revert s. induction cs as [|c cs IH]; simpl; intros s H.
  - injection H as <-. constructor.
  - destruct (qstep_with f allowed fb md k c s) as [s1|] eqn:E; [|discriminate].
    apply (qreach_trans (s1 := s1)); [|apply IH; exact H].
    eapply qreach_step; [apply qreach_refl|]. eapply qstep_with_sound. exact E.
Qed.
End DispatchQP.

(* the repaired algorithm (root fallback) as an instance *)
Corollary consumer_stop_never_done_repaired :
  forall (T R : Type) (f : T -> R) allowed md k (tasks : list T) n (s : qst T R),
  1 <= k <= length tasks -> qreach f allowed true md k (qinit tasks n) s -> pc (qs s) <> RDone.
Proof. intros T R f allowed md k tasks n s. exact (@consumer_stop_never_done T R f allowed true md k tasks n s eq_refl). Qed.

(* ---------- the wrapper that stops once it has seen all expected items ---------- *)
(* world size 3, tasks 10 20 30, the consumer stops after 3 = |tasks| items (it has everything
   it expects: [31; 61; 91]).  Worker 2 got its sentinel after its last result; worker 1 delivered
   the third item and is never answered: it waits in recv(source=0) for ever, the root never
   enters the closing collective, nothing can move - in both send modes, although the root's
   values are complete and correct *)
Definition qstop_choices : list qchoice :=
  [QRun (CInitTask 0); QRun (CWTask 0); QRun (CInitTask 1); QRun (CWTask 1); QRun CInitDone;
   QRun (CRecvMore 0); QRun (CWTask 0); QRun (CRecvLast 1); QRun (CWEoq 1); QStopRecv 0].

Theorem consumer_stop_after_last_item_refuted :
  forall md, exists s : qst nat nat,
    qreach c06_f (c06_allowed [0; 1; 2]) true md 3 (qinit [10; 20; 30] 2) s /\
    qstuck c06_f (c06_allowed [0; 1; 2]) true md 3 s /\
    qstop s = Some (Some 0) /\ pc (qs s) = RLoop 1 /\ pend (qs s) = [] /\
    got (qs s) = [31; 61; 91] /\ got (qs s) = map c06_f [10; 20; 30] /\ ran (qs s) = [10; 20; 30] /\
    ws (qs s) = [mkW [] [] false; mkW [] [] true].
Proof.
  intros md.
  destruct (qrun c06_f (c06_allowed [0; 1; 2]) true md 3 qstop_choices (qinit [10; 20; 30] 2)) as [s|] eqn:E;
    [|destruct md; vm_compute in E; discriminate].
  exists s. pose proof (qrun_sound _ _ _ _ _ _ _ E) as Hr. split; [exact Hr|].
  destruct md; vm_compute in E; injection E as <-;
    (split; [eapply qquiet_stuck; [reflexivity|vm_compute; reflexivity]|]);
    cbn [qstop qs pc pend got ran ws]; repeat split; reflexivity.
Qed.
