(* Proofs about Model/Dispatch.v (ported from design_probes/Dispatch.v; generalised over the
   send mode: every theorem holds for eager AND for synchronous sends).  No axioms. *)
From Verif Require Import Prelude Dispatch.
From Coq Require Import Permutation.
From AAC_tactics Require Import AAC.
From AAC_tactics Require Instances.
Import Instances.Lists.
Open Scope nat_scope.
Set Implicit Arguments.

Section DispatchP.
Context {T R : Type}.
Context (f : T -> R).
Context (allowed : nat -> bool).
Context (fb : bool).
Context (md : mode).

Local Notation msg := (Dispatch.msg T).
Local Notation worker := (Dispatch.worker T R).
Local Notation st := (Dispatch.st T R).
Local Notation step := (Dispatch.step f allowed fb md).
Local Notation reach := (Dispatch.reach f allowed fb md).
Local Notation steps := (Dispatch.steps f allowed fb md).
Local Notation has_allowed_below := (Dispatch.has_allowed_below allowed).
Local Notation init := (@Dispatch.init T R).

Lemma nsum_app a b : nsum (a ++ b) = nsum a + nsum b.
Proof. induction a as [|x a IH]; simpl; lia. Qed.

Lemma upd_length A i (x : A) l : i < length l -> length (upd i x l) = length l.
Proof.
  intros H. unfold upd. rewrite app_length. cbn [length]. rewrite firstn_length, skipn_length. lia.
Qed.

Lemma nth_error_lt A (l : list A) i x : nth_error l i = Some x -> i < length l.
Proof. intros H. apply nth_error_Some. congruence. Qed.

Lemma nth_error_split' A (l : list A) i x :
  nth_error l i = Some x -> l = firstn i l ++ x :: skipn (S i) l.
Proof.
  revert i; induction l as [|y l IH]; intros [|i] H; simpl in *; try discriminate.
  - congruence.
  - f_equal. apply IH. exact H.
Qed.

Lemma nsum_upd (g : worker -> nat) i w w' l :
  nth_error l i = Some w ->
  nsum (map g (upd i w' l)) + g w = nsum (map g l) + g w'.
Proof.
  intros H. pose proof (nth_error_split' _ _ H) as E.
  rewrite E at 2. unfold upd. rewrite !map_app, !nsum_app. simpl. lia.
Qed.

Lemma wm_def (w : worker) : wm w = 3 * nsum (map is_task (inb w)) + 2 * length (outb w) + nsum (map is_eoq (inb w)).
Proof. reflexivity. Qed.

Ltac use_upd :=
  match goal with
  | Hn : nth_error ?l ?i = Some ?w |- context [upd ?i ?w' ?l] =>
      let Hlt := fresh "Hlt" in let Hs := fresh "Hs" in
      pose proof (@nth_error_lt _ l i w Hn) as Hlt;
      pose proof (@nsum_upd wm i w w' l Hn) as Hs;
      try rewrite (@upd_length _ i w' l Hlt);
      rewrite (wm_def w'), (wm_def w) in Hs; cbn [inb outb] in Hs;
      repeat match goal with Hx : outb w = _ |- _ => rewrite Hx in Hs end;
      repeat match goal with Hx : inb w = _ |- _ => rewrite Hx in Hs end;
      rewrite ?map_app, ?nsum_app, ?app_length in Hs;
      cbn [map nsum is_task is_eoq length] in Hs
  end.

Theorem step_decreases s s' : step s s' -> mu s' < mu s.
Proof.
  intros H. inversion H; subst; unfold mu; cbn [pc pend Dispatch.ws pcw length];
  try use_upd; lia.
Qed.

(* ---------- invariant, exactly-once, progress ---------- *)
Inductive shape : worker -> Prop :=
| sh_idle : shape (@mkW T R [] [] false)
| sh_task t : shape (mkW [Task t] [] false)
| sh_res x : shape (mkW [] [x] false)
| sh_eoq : shape (mkW [EOQ] [] false)
| sh_fin : shape (mkW [] [] true).

Definition idle (w : worker) : Prop := w = mkW [] [] false.
Definition busy (w : worker) : nat := nsum (map is_task (inb w)) + length (outb w).
Definition intasks (w : worker) : list T :=
  flat_map (fun m => match m with Task t => [t] | EOQ => [] end) (inb w).
Definition served (k : nat) (l : list worker) : Prop :=
  forall j w, nth_error l j = Some w -> (k <= j -> idle w) /\ (j < k -> ~ idle w).

Definition pc_inv (s : st) : Prop :=
  match pc s with
  | RInit k a => k <= length (ws s) /\ a = nsum (map busy (ws s)) /\ served k (ws s)
                 /\ (pend s <> [] -> has_allowed_below k -> 1 <= a)
  | RLoop a => a = nsum (map busy (ws s)) /\ served (length (ws s)) (ws s)
                 /\ (pend s <> [] -> has_allowed_below (length (ws s)) -> 1 <= a)
  | RBar | RDone => nsum (map busy (ws s)) = 0 /\ served (length (ws s)) (ws s)
                 /\ (has_allowed_below (length (ws s)) \/ fb = true -> pend s = [])
  end.

Definition Inv (tasks : list T) (s : st) : Prop :=
  Forall shape (ws s)
  /\ Permutation tasks (pend s ++ flat_map intasks (ws s) ++ ran s)
  /\ Permutation (map f (ran s)) (got s ++ flat_map outb (ws s))
  /\ pc_inv s.

Lemma upd_split A (l : list A) i w w' :
  nth_error l i = Some w ->
  exists l1 l2, l = l1 ++ w :: l2 /\ upd i w' l = l1 ++ w' :: l2 /\ length l1 = i.
Proof.
  intros H. exists (firstn i l), (skipn (S i) l). split; [|split].
  - apply nth_error_split'. exact H.
  - reflexivity.
  - apply firstn_length_le. apply Nat.lt_le_incl. eapply nth_error_lt; eauto.
Qed.

Lemma nsum_busy_repeat n : nsum (map busy (repeat (@mkW T R [] [] false) n)) = 0.
Proof. induction n; simpl; auto. Qed.

Lemma Inv_init tasks n : Inv tasks (init tasks n).
Proof.
  unfold Inv, Dispatch.init, pc_inv; cbn [Dispatch.ws pend ran got pc]. repeat split.
  - apply Forall_forall. intros w Hw. apply repeat_spec in Hw. subst. constructor.
  - assert (E : flat_map intasks (repeat (@mkW T R [] [] false) n) = []).
    { induction n; simpl; auto. }
    rewrite E. simpl. rewrite app_nil_r. apply Permutation_refl.
  - assert (E : flat_map outb (repeat (@mkW T R [] [] false) n) = []).
    { induction n; simpl; auto. }
    rewrite E. constructor.
  - lia.
  - symmetry. apply nsum_busy_repeat.
  - intros _. apply nth_error_In in H. apply repeat_spec in H. exact H.
  - intros Hlt. lia.
  - intros _ [j [Hj _]]. lia.
Qed.

Lemma cons_app A (x : A) l : x :: l = [x] ++ l. Proof. reflexivity. Qed.
Lemma firstn_exact A (l1 l2 : list A) : firstn (length l1) (l1 ++ l2) = l1.
Proof. induction l1; simpl; [destruct l2; reflexivity | f_equal; auto]. Qed.
Lemma skipn_exact A (l1 l2 : list A) : skipn (length l1) (l1 ++ l2) = l2.
Proof. induction l1; simpl; auto. Qed.
Lemma firstn_exact_S A (l1 : list A) x l2 : firstn (S (length l1)) (l1 ++ x :: l2) = l1 ++ [x].
Proof. induction l1; simpl; [destruct l2; reflexivity | f_equal; auto]. Qed.
Lemma skipn_exact_S A (l1 : list A) x l2 : skipn (S (length l1)) (l1 ++ x :: l2) = l2.
Proof. induction l1; simpl; auto. Qed.
Lemma nsum_busy_mid l1 w l2 : nsum (map busy (l1 ++ w :: l2)) = nsum (map busy l1) + busy w + nsum (map busy l2).
Proof. rewrite map_app, nsum_app. simpl. lia. Qed.
Lemma fm_mid B (g : worker -> list B) l1 w l2 :
  flat_map g (l1 ++ w :: l2) = flat_map g l1 ++ g w ++ flat_map g l2.
Proof. rewrite flat_map_app. reflexivity. Qed.

Lemma shape_inv w : shape w ->
  (w = mkW [] [] false) \/ (exists t, w = mkW [Task t] [] false) \/ (exists x, w = mkW [] [x] false)
  \/ (w = mkW [EOQ] [] false) \/ (w = mkW [] [] true).
Proof. intros H; inversion H; eauto 10. Qed.

Ltac perm_solve :=
  repeat match goal with
  | |- context [?x :: ?l] => lazymatch l with nil => fail | _ => rewrite (cons_app x l) end
  end; aac_reflexivity.

Ltac busy_eval :=
  repeat match goal with
  | |- context [busy (mkW ?a ?b ?c)] =>
      let v := eval cbv in (busy (mkW a b c)) in change (busy (mkW a b c)) with v
  | H : context [busy (mkW ?a ?b ?c)] |- _ =>
      let v := eval cbv in (busy (mkW a b c)) in change (busy (mkW a b c)) with v in H
  end.

Ltac split7 := split; [|split; [|split; [|split; [|split; [|split]]]]].
Ltac split6 := split; [|split; [|split; [|split; [|split]]]].

Ltac split_ws Hn w' :=
  let l1 := fresh "l1" in let l2 := fresh "l2" in
  let E := fresh "E" in let E' := fresh "E'" in let Hl := fresh "Hl" in
  destruct (@upd_split _ _ _ _ w' Hn) as (l1 & l2 & E & E' & Hl); rewrite E' in *; clear E'; subst.


Lemma nth_mid A (l1 : list A) x l2 j y :
  nth_error (l1 ++ x :: l2) j = Some y ->
  (j = length l1 /\ y = x) \/ (j <> length l1 /\ forall x', nth_error (l1 ++ x' :: l2) j = Some y).
Proof.
  intros H. destruct (Nat.eq_dec j (length l1)) as [->|Hne].
  - left. split; auto. rewrite nth_error_app2 in H by lia. rewrite Nat.sub_diag in H. simpl in H. congruence.
  - right. split; auto. intros x'. destruct (Nat.lt_ge_cases j (length l1)).
    + rewrite nth_error_app1 in * by lia. exact H.
    + rewrite nth_error_app2 in * by lia.
      destruct (j - length l1) as [|m] eqn:Em; [lia|]. simpl in *. exact H.
Qed.

(* replacing a non-idle (or to-be-served) worker keeps [served] *)
Lemma served_upd k l1 w w' l2 :
  served k (l1 ++ w :: l2) -> ~ idle w' -> length l1 < k -> served k (l1 ++ w' :: l2).
Proof.
  intros Hs Hni Hlt j y Hy. destruct (nth_mid _ _ _ _ Hy) as [[-> ->]|[Hne Hall]].
  - split; [lia | auto].
  - apply (Hs j y). apply Hall.
Qed.

Lemma served_next l1 w w' l2 :
  served (length l1) (l1 ++ w :: l2) -> ~ idle w' -> served (S (length l1)) (l1 ++ w' :: l2).
Proof.
  intros Hs Hni j y Hy. destruct (nth_mid _ _ _ _ Hy) as [[-> ->]|[Hne Hall]].
  - split; [lia | auto].
  - destruct (Hs j y (Hall w)) as [Ha Hb]. split; intros; [apply Ha | apply Hb]; lia.
Qed.

Lemma served_at k l1 w l2 : served k (l1 ++ w :: l2) -> (k <= length l1 -> idle w) /\ (length l1 < k -> ~ idle w).
Proof.
  intros Hs. apply (Hs (length l1) w). rewrite nth_error_app2 by lia. rewrite Nat.sub_diag. reflexivity.
Qed.

Lemma Inv_step tasks s s' : Inv tasks s -> step s s' -> Inv tasks s'.
Proof.
  intros (Hsh & Hp1 & Hp2 & Hpc) Hst. unfold Inv, pc_inv in *.
  inversion Hst; subst; cbn [pc pend Dispatch.ws got ran] in *.
  - (* init_task *)
    destruct Hpc as (Hk & Ha & Hserved & Hact).
    split_ws H0 (mkW (inb w ++ [Task t]) (outb w) (fin w)).
    destruct (@served_at _ _ _ _ Hserved) as [Hid _]. specialize (Hid (le_n _)). red in Hid; subst w.
    cbn [inb outb fin app] in *.
    apply Forall_app in Hsh as [Hs1 Hs2]. inversion Hs2; subst.
    rewrite !fm_mid, ?nsum_busy_mid, ?app_length in *. cbn [intasks inb outb flat_map length] in *. busy_eval.
    split7.
    + apply Forall_app; split; auto. constructor; auto. constructor.
    + etransitivity; [exact Hp1|]. perm_solve.
    + exact Hp2.
    + lia.
    + lia.
    + eapply (@served_next _ _ _ _ Hserved). intros Hi; red in Hi; discriminate Hi.
    + intros _ _. lia.
  - (* init_eoq *)
    destruct Hpc as (Hk & Ha & Hserved & Hact).
    split_ws H0 (mkW (inb w ++ [EOQ]) (outb w) (fin w)).
    destruct (@served_at _ _ _ _ Hserved) as [Hid _]. specialize (Hid (le_n _)). red in Hid; subst w.
    cbn [inb outb fin app] in *.
    apply Forall_app in Hsh as [Hs1 Hs2]. inversion Hs2; subst.
    rewrite !fm_mid, ?nsum_busy_mid, ?app_length in *. cbn [intasks inb outb flat_map length] in *. busy_eval.
    split7.
    + apply Forall_app; split; auto. constructor; auto. constructor.
    + exact Hp1.
    + exact Hp2.
    + lia.
    + lia.
    + eapply (@served_next _ _ _ _ Hserved). intros Hi; red in Hi; discriminate Hi.
    + intros Hne [j [Hj Hal]]. destruct H as [Hna | Hnil]; [|contradiction].
      apply Hact; auto. exists j. split; auto.
      assert (j <> length l1) by (intros ->; congruence). lia.
  - (* init_done *)
    destruct Hpc as (Hk & Ha & Hserved & Hact). split6; auto.
  - (* recv_more *)
    destruct Hpc as (Ha & Hserved & Hact).
    split_ws H (mkW (inb w ++ [Task t]) xs (fin w)).
    apply Forall_app in Hsh as [Hs1 Hs2]. inversion Hs2 as [|? ? Hw Hs3]; subst.
    inversion Hw; subst; cbn [outb] in H0; try discriminate. injection H0 as -> <-.
    cbn [inb outb fin app] in *.
    rewrite !fm_mid, ?nsum_busy_mid, ?app_length in *. cbn [intasks inb outb flat_map length] in *. busy_eval.
    split6.
    + apply Forall_app; split; auto. constructor; auto. constructor.
    + etransitivity; [exact Hp1|]. perm_solve.
    + etransitivity; [exact Hp2|]. perm_solve.
    + lia.
    + eapply (@served_upd _ _ _ _ _ Hserved). intros Hi; red in Hi; discriminate Hi. simpl. lia.
    + intros _ _. lia.
  - (* recv_last *)
    destruct Hpc as (Ha & Hserved & Hact).
    split_ws H (mkW (inb w ++ [EOQ]) xs (fin w)).
    apply Forall_app in Hsh as [Hs1 Hs2]. inversion Hs2 as [|? ? Hw Hs3]; subst.
    inversion Hw; subst; cbn [outb] in H0; try discriminate. injection H0 as -> <-.
    cbn [inb outb fin app] in *.
    rewrite !fm_mid, ?nsum_busy_mid, ?app_length in *. cbn [intasks inb outb flat_map length] in *. busy_eval.
    split6.
    + apply Forall_app; split; auto. constructor; auto. constructor.
    + exact Hp1.
    + etransitivity; [exact Hp2|]. perm_solve.
    + lia.
    + eapply (@served_upd _ _ _ _ _ Hserved). intros Hi; red in Hi; discriminate Hi. simpl. lia.
    + intros Hne. contradiction.
  - (* exit *)
    destruct Hpc as (Ha & Hserved & Hact). split6; auto.
    intros [Hal|Hfb]; [|auto]. destruct p as [|t p]; auto. exfalso. assert (1 <= 0) by (apply Hact; [discriminate|auto]). lia.
  - (* fallback: the root runs a pending task itself *)
    destruct Hpc as (Ha & Hserved & Hact). rewrite map_app. cbn [map].
    split; [|split; [|split; [|split; [|split]]]]; auto.
    + etransitivity; [exact Hp1|]. perm_solve.
    + etransitivity; [apply Permutation_app_tail; exact Hp2|]. perm_solve.
    + intros _ Hal. apply Hact; [discriminate|exact Hal].
  - (* wtask *)
    split_ws H (mkW ms (outb w ++ [f t]) false).
    apply Forall_app in Hsh as [Hs1 Hs2]. inversion Hs2 as [|? ? Hw Hs3]; subst.
    inversion Hw; subst; cbn [inb] in H1; try discriminate. injection H1 as -> <-.
    cbn [inb outb fin app] in *.
    rewrite !fm_mid, ?nsum_busy_mid, ?app_length in *. cbn [intasks inb outb flat_map length] in *.
    rewrite ?map_app in *. cbn [map] in *. busy_eval.
    split; [|split; [|split]].
    + apply Forall_app; split; auto. constructor; auto. constructor.
    + etransitivity; [exact Hp1|]. perm_solve.
    + etransitivity; [apply Permutation_app_tail; exact Hp2|]. perm_solve.
    + assert (Hni : forall x, ~ idle (mkW [] [x] false)) by (intros x0 Hi; red in Hi; discriminate Hi).
      destruct c as [k a| a | |].
      * destruct Hpc as (Hk & Ha & Hserved & Hact). split; [|split; [|split]]; try lia; auto.
        eapply (@served_upd _ _ _ _ _ Hserved); auto.
        destruct (@served_at _ _ _ _ Hserved) as [Hid _].
        destruct (Nat.lt_ge_cases (length l1) k) as [Hlt|Hge]; auto.
        specialize (Hid Hge). red in Hid. discriminate Hid.
      * destruct Hpc as (Ha & Hserved & Hact). split; [|split]; try lia; auto.
        eapply (@served_upd _ _ _ _ _ Hserved); auto. simpl. lia.
      * destruct Hpc as (Ha & Hserved & Hact). lia.
      * destruct Hpc as (Ha & Hserved & Hact). lia.
  - (* weoq *)
    split_ws H (mkW ms (outb w) true).
    apply Forall_app in Hsh as [Hs1 Hs2]. inversion Hs2 as [|? ? Hw Hs3]; subst.
    inversion Hw; subst; cbn [inb] in H1; try discriminate. injection H1 as <-.
    cbn [inb outb fin app] in *.
    rewrite !fm_mid, ?nsum_busy_mid, ?app_length in *. cbn [intasks inb outb flat_map length] in *. busy_eval.
    split; [|split; [|split]].
    + apply Forall_app; split; auto. constructor; auto. constructor.
    + exact Hp1.
    + exact Hp2.
    + assert (Hni : ~ idle (mkW [] [] true)) by (intros Hi; red in Hi; discriminate Hi).
      destruct c as [k a| a | |].
      * destruct Hpc as (Hk & Ha & Hserved & Hact). split; [|split; [|split]]; try lia; auto.
        eapply (@served_upd _ _ _ _ _ Hserved); auto.
        destruct (@served_at _ _ _ _ Hserved) as [Hid _].
        destruct (Nat.lt_ge_cases (length l1) k) as [Hlt|Hge]; auto.
        specialize (Hid Hge). red in Hid. discriminate Hid.
      * destruct Hpc as (Ha & Hserved & Hact). split; [|split]; try lia; auto.
        eapply (@served_upd _ _ _ _ _ Hserved); auto. simpl. lia.
      * destruct Hpc as (Ha & Hserved & Hact). split; [|split]; try lia; auto.
        eapply (@served_upd _ _ _ _ _ Hserved); auto. simpl. lia.
      * destruct Hpc as (Ha & Hserved & Hact). split; [|split]; try lia; auto.
        eapply (@served_upd _ _ _ _ _ Hserved); auto. simpl. lia.
  - (* bar *)
    exact (conj Hsh (conj Hp1 (conj Hp2 Hpc))).
Qed.


Lemma Inv_reach tasks n s : reach (init tasks n) s -> Inv tasks s.
Proof. induction 1; [apply Inv_init | eapply Inv_step; eauto]. Qed.

Lemma busy0_fin_empty l :
  Forall shape l -> forallb fin l = true -> flat_map intasks l = [] /\ flat_map outb l = [].
Proof.
  induction 1 as [|w l Hw Hl IH]; simpl; auto. intros Hf. apply andb_true_iff in Hf as [Hfw Hfl].
  destruct (IH Hfl) as [E1 E2]. inversion Hw; subst; simpl in *; try discriminate. rewrite E1, E2. auto.
Qed.

(* a final state with nothing pending: every task was executed exactly once and the root
   yielded exactly the results *)
Lemma final_state tasks n s :
  reach (init tasks n) s -> pc s = RDone -> pend s = [] ->
  Permutation tasks (ran s) /\ Permutation (map f tasks) (got s).
Proof.
  intros Hr Hpc Hpe. destruct (Inv_reach Hr) as (Hsh & Hp1 & Hp2 & Hinv).
  unfold pc_inv in Hinv. rewrite Hpc in Hinv. destruct Hinv as (Hb & Hserved & Hpend).
  (* at RDone all workers are finished: RDone is only entered via s_bar *)
  assert (Hfin : forallb fin (ws s) = true).
  { clear - Hr Hpc. induction Hr; [discriminate|].
    inversion H; subst; cbn [pc] in *; try discriminate; auto.
    - match goal with Hc : ?c = RDone |- _ => subst c end. specialize (IHHr eq_refl). cbn [Dispatch.ws] in *.
      destruct (@upd_split _ _ _ _ (mkW ms (outb w ++ [f t]) false) H0) as (l1 & l2 & E & E' & Hl).
      rewrite E in IHHr. rewrite forallb_app in IHHr. simpl in IHHr. rewrite H1 in IHHr.
      rewrite andb_false_r in IHHr. discriminate.
    - match goal with Hc : ?c = RDone |- _ => subst c end. specialize (IHHr eq_refl). cbn [Dispatch.ws] in *.
      destruct (@upd_split _ _ _ _ (mkW ms (outb w) true) H0) as (l1 & l2 & E & E' & Hl).
      rewrite E in IHHr. rewrite forallb_app in IHHr. simpl in IHHr. rewrite H1 in IHHr.
      rewrite andb_false_r in IHHr. discriminate. }
  destruct (busy0_fin_empty Hsh Hfin) as [E1 E2]. rewrite E1 in Hp1. rewrite E2 in Hp2.
  rewrite Hpe in Hp1. simpl in Hp1. rewrite app_nil_r in Hp2.
  split; auto. etransitivity; [apply Permutation_map; exact Hp1 | exact Hp2].
Qed.

Lemma final_pend tasks n s :
  reach (init tasks n) s -> pc s = RDone ->
  has_allowed_below (length (ws s)) \/ fb = true -> pend s = [].
Proof.
  intros Hr Hpc Hor. destruct (Inv_reach Hr) as (_ & _ & _ & Hinv).
  unfold pc_inv in Hinv. rewrite Hpc in Hinv. destruct Hinv as (_ & _ & Hpend). auto.
Qed.

(* both algorithms (with and without root fallback): exactly once + root result, for every
   world size n, every rank set containing a worker, every schedule, both send modes *)
Theorem dispatch_exactly_once tasks n s :
  reach (init tasks n) s -> pc s = RDone -> has_allowed_below (length (ws s)) ->
  Permutation tasks (ran s) /\ Permutation (map f tasks) (got s).
Proof.
  intros Hr Hpc Hal. apply (final_state Hr Hpc). apply (final_pend Hr Hpc). left. exact Hal.
Qed.

Lemma noinb_false (l : list worker) :
  noinb l = false -> exists i w, nth_error l i = Some w /\ inb w <> [].
Proof.
  induction l as [|w l IH]; simpl; [discriminate|].
  destruct (inb w) eqn:E; simpl.
  - intros H. destruct (IH H) as (i & w' & Hi & Hw'). exists (S i), w'. auto.
  - intros _. exists 0, w. split; [reflexivity|]. rewrite E. discriminate.
Qed.

Lemma root_ok_of_noinb (l : list worker) : noinb l = true -> root_ok md l = true.
Proof. intros H. destruct md; simpl; auto. Qed.

(* deadlock freedom, for eager and for synchronous sends: every reachable state that is not
   RDone can step.  Synchronous case (lemma `recv_ready` of the design): while some message of
   the root is still untaken its receiver can take it (it is at its receive, not finished);
   once all are taken the root's moves are enabled exactly as in the eager case. *)
Theorem dispatch_progress tasks n s :
  reach (init tasks n) s -> pc s <> RDone -> exists s', step s s'.
Proof.
  intros Hr Hne. destruct (Inv_reach Hr) as (Hsh & Hp1 & Hp2 & Hinv).
  destruct s as [c p l g r]. cbn [pc pend Dispatch.ws got ran] in *. unfold pc_inv in Hinv. cbn [pc Dispatch.ws pend] in Hinv.
  destruct (noinb l) eqn:Hnb.
  2: { destruct (noinb_false _ Hnb) as (i & w & Hi & Hwne).
       assert (Hw : shape w). { eapply Forall_forall in Hsh; eauto. eapply nth_error_In; eauto. }
       inversion Hw; subst; cbn [inb] in Hwne; try congruence.
       - eexists. eapply s_wtask; eauto; reflexivity.
       - eexists. eapply s_weoq; eauto; reflexivity. }
  pose proof (root_ok_of_noinb _ Hnb) as Hok.
  destruct c as [k a|a| |]; [| | |congruence].
  - destruct Hinv as (Hk & Ha & Hserved & Hact).
    destruct (Nat.eq_dec k (length l)) as [->|Hn].
    + eexists. apply s_init_done; [reflexivity|exact Hok].
    + destruct (nth_error l k) as [w|] eqn:Hw; [|apply nth_error_None in Hw; lia].
      destruct p as [|t p].
      * eexists. eapply s_init_eoq; eauto.
      * destruct (allowed k) eqn:Hal.
        -- eexists. eapply s_init_task; eauto.
        -- eexists. eapply s_init_eoq; eauto.
  - destruct Hinv as (Ha & Hserved & Hact).
    destruct a as [|a].
    { destruct fb eqn:Hfb.
      - destruct p as [|t p].
        + eexists. apply s_exit; [exact Hok|reflexivity].
        + eexists. apply s_fallback; [reflexivity|exact Hok].
      - eexists. apply s_exit; [exact Hok|discriminate]. }
    (* some worker is busy *)
    assert (Hex : exists i w, nth_error l i = Some w /\ busy w <> 0).
    { clear - Ha. revert a Ha. induction l as [|w l IH]; simpl; intros a Ha; [lia|].
      destruct (busy w) eqn:Hb.
      - destruct (IH a) as (i & w' & Hi & Hw'); [simpl in Ha; lia|]. exists (S i), w'. auto.
      - exists 0, w. split; auto. lia. }
    destruct Hex as (i & w & Hi & Hb).
    assert (Hw : shape w). { eapply Forall_forall in Hsh; eauto. eapply nth_error_In; eauto. }
    inversion Hw; subst; cbv in Hb; try congruence.
    + eexists. eapply s_wtask; eauto; reflexivity.
    + destruct p as [|t' p].
      * eexists. eapply s_recv_last; eauto. reflexivity.
      * eexists. eapply s_recv_more; eauto. reflexivity.
  - destruct Hinv as (Hb & Hserved & Hpend).
    destruct (forallb fin l) eqn:Hf.
    + eexists. apply s_bar. exact Hf.
    + (* some worker not finished: it is not idle and not busy, so it holds the sentinel *)
      assert (Hex : exists i w, nth_error l i = Some w /\ fin w = false).
      { clear - Hf. induction l as [|w l IH]; simpl in *; [discriminate|].
        destruct (fin w) eqn:Hw.
        - destruct (IH Hf) as (i & w' & Hi & Hw'). exists (S i), w'. auto.
        - exists 0, w. auto. }
      destruct Hex as (i & w & Hi & Hfw).
      assert (Hw : shape w). { eapply Forall_forall in Hsh; eauto. eapply nth_error_In; eauto. }
      assert (Hbw : busy w = 0).
      { clear - Hb Hi. revert i Hi. induction l as [|x l IH]; intros [|i] Hi; simpl in *; try discriminate.
        - injection Hi as ->. lia.
        - eapply IH; eauto. lia. }
      destruct (Hserved i w Hi) as [_ Hni]. specialize (Hni (nth_error_lt _ _ Hi)).
      inversion Hw; subst; cbv in Hbw; try discriminate.
      * exfalso. apply Hni. reflexivity.
      * eexists. eapply s_weoq; eauto; reflexivity.
Qed.

(* ---------- termination ---------- *)
(* any execution from ANY state s (reachable or not) has at most [mu s] steps *)
Theorem dispatch_terminates k s s' : steps k s s' -> k + mu s' <= mu s.
Proof.
  induction 1 as [s|k s s1 s2 Hs _ IH]; [lia|].
  pose proof (step_decreases Hs). lia.
Qed.

Theorem dispatch_step_wf : well_founded (fun s' s : st => step s s').
Proof.
  apply (well_founded_lt_compat _ (fun s : st => mu s)). intros x y H. apply step_decreases. exact H.
Qed.

Lemma reach_trans s0 s1 s2 : reach s0 s1 -> reach s1 s2 -> reach s0 s2.
Proof. intros H1 H2. induction H2; [exact H1|]. eapply reach_step; eauto. Qed.

(* progress + termination: from every reachable state the protocol can run to completion, and
   (dispatch_terminates) it cannot run forever: all ranks return *)
Theorem dispatch_reaches_done tasks n s :
  reach (init tasks n) s -> exists s', reach s s' /\ pc s' = RDone.
Proof.
  remember (mu s) as k eqn:Ek. revert s Ek.
  induction k as [k IH] using lt_wf_ind. intros s Ek Hr.
  destruct (pc s) eqn:Hpc.
  4: { exists s. split; [constructor|exact Hpc]. }
  all: destruct (@dispatch_progress tasks n s Hr) as [s1 Hs1]; [congruence|];
       destruct (IH (mu s1) ltac:(subst k; apply step_decreases; exact Hs1) s1 eq_refl
                    ltac:(eapply reach_step; eauto)) as (s2 & Hr2 & Hd);
       exists s2; split; [|exact Hd];
       eapply reach_trans; [eapply reach_step; [constructor|exact Hs1]|exact Hr2].
Qed.

(* ---------- the executable step is the relation ---------- *)
Ltac dm :=
  match goal with
  | H : context [match ?x with _ => _ end] |- _ => destruct x eqn:?; try discriminate
  end.

Lemma is_nil_true A (l : list A) : is_nil l = true -> l = [].
Proof. destruct l; [reflexivity|discriminate]. Qed.

Lemma step_with_sound c s s' : step_with f allowed fb md c s = Some s' -> step s s'.
Proof.
  destruct s as [c0 p l g r]. unfold step_with; cbn [pc pend Dispatch.ws got ran]. intros H.
  destruct c; repeat dm; injection H as <-;
  repeat match goal with H : _ && _ = true |- _ => apply andb_true_iff in H as [? ?] end;
  repeat match goal with H : (_ =? _) = true |- _ => apply Nat.eqb_eq in H; subst end.
  - eapply s_init_task; eauto.
  - eapply s_init_eoq; eauto.
    match goal with H : _ || _ = true |- _ => apply orb_true_iff in H; destruct H as [Hx|Hx] end.
    + left. apply negb_true_iff. exact Hx.
    + right. apply is_nil_true. exact Hx.
  - eapply s_init_done; eauto.
  - eapply s_recv_more; eauto.
  - eapply s_recv_last; eauto.
  - eapply s_fallback; eauto.
  - eapply s_exit; eauto.
    intros ->. apply is_nil_true. simpl in *. assumption.
  - eapply s_wtask; eauto.
  - eapply s_weoq; eauto.
  - eapply s_bar; eauto.
Qed.

Lemma step_with_complete s s' : step s s' -> exists c, step_with f allowed fb md c s = Some s'.
Proof.
  intros H. inversion H; subst.
  - exists (CInitTask k). unfold step_with; cbn [pc pend Dispatch.ws got ran].
    rewrite H1, Nat.eqb_refl, H0, H2. reflexivity.
  - exists (CInitEoq k). unfold step_with; cbn [pc pend Dispatch.ws got ran].
    rewrite H1, Nat.eqb_refl, H2.
    destruct H0 as [-> | ->]; [reflexivity|]. rewrite orb_true_r. reflexivity.
  - exists CInitDone. unfold step_with; cbn [pc pend Dispatch.ws got ran].
    rewrite Nat.eqb_refl, H1. reflexivity.
  - exists (CRecvMore i). unfold step_with; cbn [pc pend Dispatch.ws got ran].
    rewrite H0, H1, H2. reflexivity.
  - exists (CRecvLast i). unfold step_with; cbn [pc pend Dispatch.ws got ran].
    rewrite H0, H1, H2. reflexivity.
  - exists CExit. unfold step_with; cbn [pc pend Dispatch.ws got ran].
    match goal with Hr : root_ok _ _ = true |- _ => rewrite Hr end.
    match goal with Hp : fb = true -> _ = [] |- _ => destruct fb; [rewrite (Hp eq_refl)|] end; reflexivity.
  - exists CFallback. unfold step_with; cbn [pc pend Dispatch.ws got ran].
    match goal with Hr : root_ok _ _ = true |- _ => rewrite Hr end. reflexivity.
  - exists (CWTask i). unfold step_with; cbn [pc pend Dispatch.ws got ran].
    rewrite H0, H1, H2. reflexivity.
  - exists (CWEoq i). unfold step_with; cbn [pc pend Dispatch.ws got ran].
    rewrite H0, H1, H2. reflexivity.
  - exists CBar. unfold step_with; cbn [pc pend Dispatch.ws got ran]. rewrite H0. reflexivity.
Qed.

Lemma run_sound cs s s' : run f allowed fb md cs s = Some s' -> reach s s'.
Proof.
  revert s. induction cs as [|c cs IH]; simpl; intros s H.
  - injection H as <-. constructor.
  - destruct (step_with f allowed fb md c s) as [s1|] eqn:E; [|discriminate].
    apply (reach_trans (s1 := s1)); [|apply IH; exact H].
    eapply reach_step; [apply reach_refl|]. eapply step_with_sound. exact E.
Qed.

(* ---------- no worker rank allowed (max_workers = 1): nothing is ever executed ---------- *)
Definition quiet (w : worker) : Prop := outb w = [] /\ forall t, ~ In (Task t) (inb w).
Definition Inv0 (tasks : list T) (s : st) : Prop :=
  got s = [] /\ ran s = [] /\ pend s = tasks /\ Forall quiet (ws s)
  /\ match pc s with RInit _ a => a = 0 | RLoop a => a = 0 | _ => True end.

Lemma Forall_upd (P : worker -> Prop) i (w w' : worker) l :
  nth_error l i = Some w -> Forall P l -> P w' -> Forall P (upd i w' l).
Proof.
  intros Hn Hl Hw'. destruct (@upd_split _ _ _ _ w' Hn) as (l1 & l2 & E & E' & _).
  rewrite E'. rewrite E in Hl. apply Forall_app in Hl as [H1 H2]. inversion H2; subst.
  apply Forall_app; split; auto.
Qed.

Lemma Forall_nth (P : worker -> Prop) i (w : worker) l : nth_error l i = Some w -> Forall P l -> P w.
Proof. intros Hn Hl. eapply Forall_forall in Hl; eauto. eapply nth_error_In; eauto. Qed.

Lemma Inv0_step tasks s s' :
  fb = false -> (forall k, allowed k = false) -> Inv0 tasks s -> step s s' -> Inv0 tasks s'.
Proof.
  intros Hfb Hna (Hg & Hr & Hp & Hq & Hpc) Hst. unfold Inv0 in *.
  inversion Hst; subst; cbn [pc pend Dispatch.ws got ran] in *; try discriminate.
  - rewrite Hna in H. discriminate.
  - repeat split; auto. eapply Forall_upd; eauto.
    destruct (Forall_nth _ H0 Hq) as [Ho Hi]. split; cbn [inb outb]; auto.
    intros t Hin. apply in_app_or in Hin as [Hin|[Hin|[]]]; [eapply Hi; eauto|discriminate].
  - repeat split; auto.
  - repeat split; auto.
  - exfalso. destruct (Forall_nth _ H Hq) as [_ Hi]. apply (Hi t). rewrite H1. left. reflexivity.
  - repeat split; auto. eapply Forall_upd; eauto.
    destruct (Forall_nth _ H Hq) as [Ho Hi]. split; cbn [inb outb]; auto.
    intros t Hin. apply (Hi t). rewrite H1. right. exact Hin.
  - repeat split; auto.
Qed.

(* for EVERY task list, world size, send mode and schedule: if no worker rank is in `ranks`
   the root yields nothing, nothing is executed and all tasks are still pending at the end *)
Theorem dispatch_no_worker_general tasks n s :
  fb = false -> (forall k, allowed k = false) -> reach (init tasks n) s ->
  got s = [] /\ ran s = [] /\ pend s = tasks.
Proof.
  intros Hfb Hna Hr.
  assert (H : Inv0 tasks s).
  { induction Hr; [|eapply Inv0_step; eauto].
    unfold Inv0, Dispatch.init; cbn [pc pend Dispatch.ws got ran]. repeat split; auto.
    apply Forall_forall. intros w Hw. apply repeat_spec in Hw. subst. split; cbn [inb outb]; auto. }
  destruct H as (Hg & Hr' & Hp & _). auto.
Qed.

(* ---------- the repaired algorithm (root fallback): TOTAL statement ---------- *)
(* for EVERY rank set `allowed` (also the empty one: max_workers = 1), every number of workers,
   both send modes, every schedule: a finished run executed every task exactly once and the
   root yielded exactly map f tasks.  (Termination and deadlock freedom: dispatch_terminates,
   dispatch_progress, dispatch_reaches_done hold for this algorithm as well.) *)
Theorem dispatch_exactly_once_total tasks n s :
  fb = true -> reach (init tasks n) s -> pc s = RDone ->
  Permutation tasks (ran s) /\ Permutation (map f tasks) (got s).
Proof.
  intros Hfb Hr Hpc. apply (final_state Hr Hpc). apply (final_pend Hr Hpc). right. exact Hfb.
Qed.

End DispatchP.

(* the two algorithms as instances: repaired (fb = true), pinned "_cur" (fb = false) *)
Corollary dispatch_exactly_once_total_repaired :
  forall (T R : Type) (f : T -> R) allowed md tasks n (s : st T R),
  reach f allowed true md (init tasks n) s -> pc s = RDone ->
  Permutation tasks (ran s) /\ Permutation (map f tasks) (got s).
Proof. intros T R f allowed md tasks n s. exact (@dispatch_exactly_once_total T R f allowed true md tasks n s eq_refl). Qed.

Corollary dispatch_no_worker_general_cur :
  forall (T R : Type) (f : T -> R) allowed md tasks n (s : st T R),
  (forall k, allowed k = false) -> reach f allowed false md (init tasks n) s ->
  got s = [] /\ ran s = [] /\ pend s = tasks.
Proof. intros T R f allowed md tasks n s. exact (@dispatch_no_worker_general T R f allowed false md tasks n s eq_refl). Qed.

(* ---------- F13a: max_workers = 1  =>  ranks = {0}  =>  no worker index is allowed ---------- *)
Lemma c06_allowed_root_only k : c06_allowed [0] k = false.
Proof. reflexivity. Qed.

Definition f13a_choices : list choice :=
  [CInitEoq 0; CWEoq 0; CInitEoq 1; CWEoq 1; CInitDone; CExit; CBar].

(* the PINNED algorithm (no root fallback, fb = false): a complete run (world size 3, three
   tasks) that ends with every rank returned, nothing executed, nothing yielded — the statement
   "the root gets map f tasks" is false of the faithful model of the pinned code when
   max_workers = 1, in both send modes.  Repaired by commit cd002ec (fb = true). *)
Theorem dispatch_no_worker_refuted :
  forall md, exists s : st nat nat,
    reach c06_f (c06_allowed [0]) false md (init [10; 20; 30] 2) s /\ pc s = RDone /\
    got s = [] /\ ran s = [] /\ pend s = [10; 20; 30] /\
    ~ Permutation (map c06_f [10; 20; 30]) (got s).
Proof.
  intros md.
  destruct (run c06_f (c06_allowed [0]) false md f13a_choices (init [10; 20; 30] 2)) as [s|] eqn:E;
    [|destruct md; vm_compute in E; discriminate].
  exists s. pose proof (run_sound _ _ _ _ _ _ E) as Hr.
  destruct md; vm_compute in E; injection E as <-; cbn [pc got ran pend];
    (repeat split; auto; intros HP; apply Permutation_length in HP; discriminate).
Qed.

(* the same world under the repaired algorithm: the root runs the three tasks itself *)
Definition f13a_choices_fixed : list choice :=
  [CInitEoq 0; CWEoq 0; CInitEoq 1; CWEoq 1; CInitDone; CFallback; CFallback; CFallback; CExit; CBar].

Lemma dispatch_no_worker_fixed_run :
  forall md, exists s : st nat nat,
    run c06_f (c06_allowed [0]) true md f13a_choices_fixed (init [10; 20; 30] 2) = Some s /\
    pc s = RDone /\ got s = [31; 61; 91] /\ ran s = [10; 20; 30] /\ pend s = [].
Proof. intros md. destruct md; eexists; vm_compute; repeat split; reflexivity. Qed.
