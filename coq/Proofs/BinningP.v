(* Proofs about redshift-bin membership (C10): np.digitize, build_trees, the histogram in its
   current and its repaired form, the per-bin weight sums of a measurement. *)
From Verif Require Import Prelude Binning.
Open Scope Q_scope.

(* ---------- generic list helpers ---------- *)
Lemma nth_map_seq {A} (f : nat -> A) n b d : (b < n)%nat -> nth b (map f (seq 0 n)) d = f b.
Proof.
  intros H. rewrite (nth_indep _ d (f 0%nat)) by (rewrite map_length, seq_length; exact H).
  rewrite map_nth, seq_nth by exact H. reflexivity.
Qed.

Lemma nth_map_default {A B} (f : A -> B) l p da db :
  (p < length l)%nat -> nth p (map f l) db = f (nth p l da).
Proof.
  intros H. rewrite (nth_indep _ db (f da)) by (rewrite map_length; exact H). apply map_nth.
Qed.

Lemma map_const_seq {A} (c : A) s n : map (fun _ => c) (seq s n) = repeat c n.
Proof. revert s; induction n as [|n IH]; intros s; simpl; [reflexivity|]. rewrite IH. reflexivity. Qed.

Lemma filter_filter {A} (f g : A -> bool) l :
  filter f (filter g l) = filter (fun x => g x && f x) l.
Proof.
  induction l as [|x l IH]; simpl; [reflexivity|].
  destruct (g x); simpl; [destruct (f x); rewrite IH; reflexivity | exact IH].
Qed.

Lemma filter_none {A} (f : A -> bool) l : (forall x, In x l -> f x = false) -> filter f l = [].
Proof.
  induction l as [|x l IH]; intros H; simpl; [reflexivity|].
  rewrite (H x (or_introl eq_refl)). apply IH. intros y Hy. apply H. right. exact Hy.
Qed.

(* ---------- edges ---------- *)
Lemma increasing_tail a r : increasing (a :: r) -> increasing r.
Proof. destruct r as [|b r]; simpl; [auto|tauto]. Qed.

Lemma increasingb_spec l : increasingb l = true <-> increasing l.
Proof.
  induction l as [|a l IH]; [simpl; tauto|].
  destruct l as [|b r]; [simpl; tauto|].
  change (Qltb a b && increasingb (b :: r) = true <-> a < b /\ increasing (b :: r)).
  rewrite andb_true_iff, Qltb_lt, IH. tauto.
Qed.

Lemma increasing_hd_lt a r j : increasing (a :: r) -> (j < length r)%nat -> a < nth j r 0.
Proof.
  revert a j. induction r as [|b r IH]; intros a j H Hj; simpl in Hj; [lia|].
  destruct H as [Hab H]. destruct j as [|j]; simpl; [exact Hab|].
  apply Qlt_trans with b; [exact Hab|]. apply IH; [exact H|lia].
Qed.

Lemma increasing_nth_lt l i j :
  increasing l -> (i < j)%nat -> (j < length l)%nat -> nth i l 0 < nth j l 0.
Proof.
  revert i j. induction l as [|a r IH]; intros i j H Hij Hj; simpl in Hj; [lia|].
  destruct j as [|j]; [lia|]. destruct i as [|i]; simpl.
  - apply increasing_hd_lt; [exact H|lia].
  - apply IH; [apply (increasing_tail a); exact H|lia|lia].
Qed.

(* ---------- one comparison of np.digitize ---------- *)
Lemma passb_true cr e z : passb cr e z = true <-> (if cr then e < z else e <= z).
Proof. unfold passb. destruct cr; [apply Qltb_lt|apply Qleb_le]. Qed.

Lemma passb_false cr e z : passb cr e z = false <-> (if cr then z <= e else z < e).
Proof.
  rewrite <- not_true_iff_false, passb_true. destruct cr; split; intro H.
  - apply Qnot_lt_le. exact H.
  - apply Qle_not_lt. exact H.
  - apply Qnot_le_lt. exact H.
  - apply Qlt_not_le. exact H.
Qed.

Lemma passb_mono cr e1 e2 z : e1 < e2 -> passb cr e2 z = true -> passb cr e1 z = true.
Proof.
  intros H. rewrite !passb_true. destruct cr; intro H2.
  - apply Qlt_trans with e2; assumption.
  - apply Qlt_le_weak. apply Qlt_le_trans with e2; assumption.
Qed.

Lemma member_pass cr edges b z :
  member cr edges b z <->
  (S b < length edges)%nat /\ passb cr (edge edges b) z = true /\ passb cr (edge edges (S b)) z = false.
Proof. unfold member. rewrite passb_true, passb_false. destruct cr; tauto. Qed.

Lemma memberb_spec cr edges b z : memberb cr edges b z = true <-> member cr edges b z.
Proof.
  unfold memberb, member. rewrite andb_true_iff, Nat.ltb_lt.
  destruct cr; rewrite andb_true_iff, Qltb_lt, Qleb_le; tauto.
Qed.

(* ---------- np.digitize: k < digitize  <->  edge k passes ---------- *)
Lemma digitize_le cr edges z : (digitize cr edges z <= length edges)%nat.
Proof. induction edges as [|e r IH]; simpl; [lia|]. destruct (passb cr e z); lia. Qed.

Lemma digitize_prefix cr edges z k :
  (k < digitize cr edges z)%nat -> passb cr (nth k edges 0) z = true.
Proof.
  revert k. induction edges as [|e r IH]; intros k; simpl; [lia|].
  destruct (passb cr e z) eqn:E; [|lia]. destruct k as [|k]; [intros _; exact E|].
  intro H. apply IH. lia.
Qed.

Lemma digitize_reach cr edges z k :
  increasing edges -> (k < length edges)%nat -> passb cr (nth k edges 0) z = true ->
  (k < digitize cr edges z)%nat.
Proof.
  revert k. induction edges as [|e r IH]; intros k Hinc Hk; simpl in Hk; [lia|].
  destruct k as [|k]; simpl.
  - intros E. rewrite E. lia.
  - intros Hp. assert (E : passb cr e z = true).
    { apply passb_mono with (nth k r 0); [|exact Hp]. apply increasing_hd_lt; [exact Hinc|lia]. }
    rewrite E. apply (IH k) in Hp; [lia|apply (increasing_tail e); exact Hinc|lia].
Qed.

Lemma digitize_lt_iff cr edges z k :
  increasing edges -> (k < length edges)%nat ->
  ((k < digitize cr edges z)%nat <-> passb cr (edge edges k) z = true).
Proof.
  intros Hinc Hk. split; [apply digitize_prefix|apply digitize_reach; assumption].
Qed.

(* on increasing edges the prefix length is the count of the numpy documentation *)
Lemma digitize_is_count cr edges z : increasing edges -> digitize cr edges z = digitize_count cr edges z.
Proof.
  unfold digitize_count. induction edges as [|e r IH]; intros Hinc; simpl; [reflexivity|].
  destruct (passb cr e z) eqn:E; simpl.
  - rewrite IH by (apply (increasing_tail e); exact Hinc). reflexivity.
  - symmetry. rewrite filter_none; [reflexivity|]. intros x Hx.
    destruct (In_nth _ _ 0 Hx) as [j [Hj Hn]]. subst x.
    destruct (passb cr (nth j r 0) z) eqn:E2; [|reflexivity].
    rewrite (passb_mono cr e (nth j r 0) z) in E; [discriminate| |exact E2].
    apply increasing_hd_lt; assumption.
Qed.

(* digitize returns b+1 iff member b; 0 below, nbins+1 (= number of edges) above *)
Theorem digitize_member cr edges z :
  increasing edges -> (2 <= length edges)%nat ->
  (forall b, member cr edges b z <-> digitize cr edges z = S b /\ (S b < length edges)%nat) /\
  (digitize cr edges z = 0%nat <-> below cr edges z) /\
  (digitize cr edges z = length edges <-> above cr edges z) /\
  (digitize cr edges z <= length edges)%nat.
Proof.
  intros Hinc Hlen. pose proof (digitize_le cr edges z) as Hle.
  split; [|split; [|split; [|exact Hle]]].
  - intros b. rewrite member_pass. split.
    + intros [Hb [H1 H2]].
      apply (digitize_lt_iff cr edges z b Hinc) in H1; [|lia].
      assert (~ (S b < digitize cr edges z)%nat).
      { intro C. apply (digitize_lt_iff cr edges z (S b) Hinc Hb) in C. congruence. }
      split; [lia|exact Hb].
    + intros [Hd Hb]. split; [exact Hb|]. split.
      * apply (digitize_lt_iff cr edges z b Hinc); lia.
      * apply not_true_iff_false. intro C.
        apply (digitize_lt_iff cr edges z (S b) Hinc Hb) in C. lia.
  - unfold below. rewrite <- (passb_false cr (ehd edges) z), <- not_true_iff_false.
    unfold ehd. rewrite <- (digitize_lt_iff cr edges z 0 Hinc) by lia. lia.
  - unfold above. rewrite <- (passb_true cr (elast edges) z).
    unfold elast. rewrite <- (digitize_lt_iff cr edges z (length edges - 1) Hinc) by lia. lia.
Qed.

(* the bins are disjoint, and nothing outside the binning is in a bin *)
Lemma member_unique cr edges z b b' :
  increasing edges -> (2 <= length edges)%nat ->
  member cr edges b z -> member cr edges b' z -> b = b'.
Proof.
  intros Hinc Hlen H1 H2. destruct (digitize_member cr edges z Hinc Hlen) as [Hm _].
  apply Hm in H1. apply Hm in H2. lia.
Qed.

Lemma outside_no_member cr edges z b :
  increasing edges -> (2 <= length edges)%nat ->
  below cr edges z \/ above cr edges z -> ~ member cr edges b z.
Proof.
  intros Hinc Hlen Hout Hm. destruct (digitize_member cr edges z Hinc Hlen) as [H1 [H2 [H3 _]]].
  apply H1 in Hm. destruct Hout as [Hb|Ha]; [apply H2 in Hb|apply H3 in Ha]; lia.
Qed.

Lemma digitize_eqb_member cr edges z b :
  increasing edges -> (S b < length edges)%nat ->
  (digitize cr edges z =? S b)%nat = memberb cr edges b z.
Proof.
  intros Hinc Hb. apply eq_true_iff_eq. rewrite Nat.eqb_eq, memberb_spec.
  destruct (digitize_member cr edges z Hinc) as [Hm _]; [lia|]. rewrite Hm. tauto.
Qed.

(* ---------- build_trees ---------- *)
Lemma group_member cr edges objs b :
  increasing edges -> (b < nbins edges)%nat -> group cr edges objs (S b) = spec_group cr edges objs b.
Proof.
  unfold nbins, group, spec_group. intros Hinc Hb. apply filter_ext. intros o.
  apply digitize_eqb_member; [exact Hinc|lia].
Qed.

Lemma wsum_nil hasw : wsum hasw [] = 0.
Proof. destruct hasw; reflexivity. Qed.

Lemma count_as_Q n : inject_Z (Z.of_nat (S n)) == 1 + inject_Z (Z.of_nat n).
Proof. rewrite Nat2Z.inj_succ. unfold Z.succ. rewrite inject_Z_plus. ring. Qed.

Lemma wsum_spec hasw g : wsum hasw g == qsumr (map (ow hasw) g).
Proof.
  rewrite qsumr_qsum. unfold wsum, ow. destruct hasw.
  - rewrite qsumr_qsum. reflexivity.
  - induction g as [|o g IH]; [reflexivity|].
    change (length (o :: g)) with (S (length g)). rewrite count_as_Q, IH. reflexivity.
Qed.

Lemma get_tree_spec hasw cr edges objs b :
  increasing edges -> (b < nbins edges)%nat ->
  get_tree hasw cr edges objs b = make_tree hasw (spec_group cr edges objs b).
Proof.
  intros Hinc Hb. unfold get_tree. rewrite group_member by assumption.
  assert (K : keep (nbins edges) (S b) = true).
  { unfold keep. apply andb_true_iff. split; [reflexivity|apply Nat.leb_le; lia]. }
  rewrite K. destruct (spec_group cr edges objs b); [|reflexivity].
  unfold make_tree, dummy_tree. rewrite wsum_nil. reflexivity.
Qed.

(* each object is counted in exactly the bin of `member`, outside the binning nowhere *)
Theorem trees_partition hasw cr edges objs :
  increasing edges -> (2 <= length edges)%nat ->
  length (build_trees_fix hasw cr edges objs) = nbins edges /\
  (forall b, (b < nbins edges)%nat ->
     group cr edges objs (S b) = filter (fun o => memberb cr edges b (oz o)) objs /\
     (forall o, In o (group cr edges objs (S b)) <-> In o objs /\ member cr edges b (oz o)) /\
     fst (nth b (build_trees_fix hasw cr edges objs) dummy_tree) = spec_count cr edges objs b /\
     snd (nth b (build_trees_fix hasw cr edges objs) dummy_tree) == spec_weight hasw cr edges objs b) /\
  (forall z b b', member cr edges b z -> member cr edges b' z -> b = b') /\
  (forall z b, below cr edges z \/ above cr edges z -> ~ member cr edges b z).
Proof.
  intros Hinc Hlen. split; [|split; [|split]].
  - unfold build_trees_fix. rewrite map_length, seq_length. reflexivity.
  - intros b Hb. pose proof (group_member cr edges objs b Hinc Hb) as G.
    split; [exact G|]. split.
    + intros o. rewrite G. unfold spec_group. rewrite filter_In, memberb_spec. tauto.
    + unfold build_trees_fix. rewrite nth_map_seq by exact Hb.
      rewrite get_tree_spec by assumption. unfold make_tree; simpl. split; [reflexivity|].
      apply wsum_spec.
  - intros z b b'. apply member_unique; assumption.
  - intros z b. apply outside_no_member; assumption.
Qed.

Lemma keep_iff nb i : keep nb i = true <-> exists b, i = S b /\ (b < nb)%nat.
Proof.
  unfold keep. rewrite andb_true_iff, Nat.ltb_lt, Nat.leb_le. split.
  - intros [H1 H2]. exists (i - 1)%nat. lia.
  - intros [b [H1 H2]]. lia.
Qed.

(* the current build_trees: the same trees, except that it raises when no object of the
   patch lies inside the binning *)
Theorem build_trees_cur_spec hasw cr edges objs :
  increasing edges -> (2 <= length edges)%nat ->
  (build_trees_cur hasw cr edges objs = None <->
     forall o, In o objs -> forall b, ~ member cr edges b (oz o)) /\
  (forall l, build_trees_cur hasw cr edges objs = Some l -> l = build_trees_fix hasw cr edges objs).
Proof.
  intros Hinc Hlen. unfold build_trees_cur.
  destruct (existsb (keep (nbins edges)) (bin_idx cr edges objs)) eqn:E.
  - split; [|intros l H; injection H as H; symmetry; exact H].
    split; [discriminate|]. intros H. exfalso.
    apply existsb_exists in E. destruct E as [i [Hi Hk]].
    unfold bin_idx in Hi. apply in_map_iff in Hi. destruct Hi as [o [Ho Hin]]. subst i.
    apply keep_iff in Hk. destruct Hk as [b [Hd Hb]]. unfold nbins in Hb.
    apply (H o Hin b). apply (digitize_member cr edges (oz o) Hinc Hlen). split; [exact Hd|lia].
  - split; [|discriminate]. split; [|reflexivity]. intros _ o Hin b Hm.
    apply (digitize_member cr edges (oz o) Hinc Hlen) in Hm. destruct Hm as [Hd Hb].
    assert (X : existsb (keep (nbins edges)) (bin_idx cr edges objs) = true).
    { apply existsb_exists. exists (digitize cr edges (oz o)). split.
      - unfold bin_idx. apply (in_map (fun o' => digitize cr edges (oz o')) objs o Hin).
      - apply keep_iff. exists b. unfold nbins. split; [exact Hd|lia]. }
    congruence.
Qed.

Theorem empty_patch_refuted :
  exists edges objs, increasing edges /\ (2 <= length edges)%nat /\ objs <> [] /\
    build_trees_cur true true edges objs = None /\
    build_trees_fix true true edges objs = [dummy_tree; dummy_tree].
Proof.
  exists [1; 2; 3], [(4, 1)]. split; [apply increasingb_spec; reflexivity|].
  split; [simpl; lia|]. split; [discriminate|]. split; reflexivity.
Qed.

(* ---------- histograms ---------- *)
(* the per-bin sums the spec prescribes, computed like a tree's sum_weights *)
Definition spec_wsums hasw cr edges objs : list Q :=
  map (fun b => wsum hasw (spec_group cr edges objs b)) (seq 0 (nbins edges)).

Lemma spec_wsums_weight hasw cr edges objs b :
  (b < nbins edges)%nat -> nth b (spec_wsums hasw cr edges objs) 0 == spec_weight hasw cr edges objs b.
Proof. intros Hb. unfold spec_wsums. rewrite nth_map_seq by exact Hb. apply wsum_spec. Qed.

(* repaired, digitize-based histogram: correct for both closed sides *)
Theorem hist_fix_member hasw cr edges objs :
  increasing edges -> (2 <= length edges)%nat ->
  hist_fix hasw cr edges objs = spec_wsums hasw cr edges objs /\
  (forall b, (b < nbins edges)%nat ->
     nth b (hist_fix hasw cr edges objs) 0 == spec_weight hasw cr edges objs b) /\
  hist_fix hasw cr edges objs = map snd (build_trees_fix hasw cr edges objs).
Proof.
  intros Hinc Hlen.
  assert (E : hist_fix hasw cr edges objs = spec_wsums hasw cr edges objs).
  { unfold hist_fix, spec_wsums. apply map_ext_in. intros b Hb. apply in_seq in Hb.
    rewrite group_member; [reflexivity|exact Hinc|lia]. }
  split; [exact E|]. split.
  - intros b Hb. rewrite E. apply spec_wsums_weight. exact Hb.
  - rewrite E. unfold spec_wsums, build_trees_fix. rewrite map_map. apply map_ext_in.
    intros b Hb. apply in_seq in Hb. rewrite get_tree_spec; [reflexivity|exact Hinc|lia].
Qed.

Lemma np_left_member edges k z :
  increasing edges -> (S k < length edges)%nat ->
  hist_mask false edges z && np_in_bin edges k z = memberb false edges k z.
Proof.
  intros Hinc Hk. unfold hist_mask, np_in_bin, memberb, elast, nbins.
  rewrite (proj2 (Nat.ltb_lt _ _) Hk). cbn [andb].
  destruct (Nat.eqb_spec (S k) (length edges - 1)) as [e|n].
  - rewrite <- e. destruct (Qltb z (edge edges (S k))) eqn:A.
    + assert (B : Qleb z (edge edges (S k)) = true).
      { apply Qleb_le. apply Qlt_le_weak. apply Qltb_lt. exact A. }
      rewrite B. simpl. reflexivity.
    + simpl. rewrite andb_false_r. reflexivity.
  - destruct (Qltb z (edge edges (S k))) eqn:A.
    + assert (B : Qltb z (edge edges (length edges - 1)) = true).
      { apply Qltb_lt. apply Qlt_trans with (edge edges (S k)); [apply Qltb_lt; exact A|].
        unfold edge. apply increasing_nth_lt; [exact Hinc|lia|lia]. }
      rewrite B. reflexivity.
    + rewrite !andb_false_r. reflexivity.
Qed.

(* the current histogram (mask + np.histogram) is correct for closed = left *)
Theorem hist_left_member hasw edges objs :
  increasing edges -> (2 <= length edges)%nat ->
  hist_cur hasw false edges objs = spec_wsums hasw false edges objs /\
  (forall b, (b < nbins edges)%nat ->
     nth b (hist_cur hasw false edges objs) 0 == spec_weight hasw false edges objs b) /\
  hist_cur hasw false edges objs = hist_fix hasw false edges objs.
Proof.
  intros Hinc Hlen.
  assert (E : hist_cur hasw false edges objs = spec_wsums hasw false edges objs).
  { unfold hist_cur, np_histogram, spec_wsums, spec_group. apply map_ext_in.
    intros k Hk. apply in_seq in Hk. unfold nbins in Hk. rewrite filter_filter. f_equal.
    apply filter_ext. intros o. apply np_left_member; [exact Hinc|lia]. }
  split; [exact E|]. split.
  - intros b Hb. rewrite E. apply spec_wsums_weight. exact Hb.
  - rewrite E. symmetry. apply hist_fix_member; assumption.
Qed.

(* ... and wrong for closed = right: a redshift on an inner edge lands in the upper bin *)
Theorem hist_right_refuted :
  exists edges z, increasing edges /\ (2 <= length edges)%nat /\
    member true edges 0 z /\ ~ member true edges 1 z /\
    qlist_eqb (hist_cur true true edges [(z, 1)]) [0; 1] = true /\
    qlist_eqb (hist_fix true true edges [(z, 1)]) [1; 0] = true /\
    trees_eqb (build_trees_fix true true edges [(z, 1)]) [(1%nat, 1); (0%nat, 0)] = true.
Proof.
  exists [1; 2; 3], 2. split; [apply increasingb_spec; reflexivity|].
  split; [simpl; lia|]. split; [apply memberb_spec; reflexivity|].
  split; [rewrite <- memberb_spec; discriminate|]. repeat split; reflexivity.
Qed.

(* the same for every binning: on every inner edge the current histogram selects the upper
   bin while the closed-right rule (and build_trees) selects the lower one *)
Theorem hist_right_inner_edge_upper edges k :
  increasing edges -> (S (S k) < length edges)%nat ->
  let z := edge edges (S k) in
  hist_mask true edges z && np_in_bin edges (S k) z = true /\
  hist_mask true edges z && np_in_bin edges k z = false /\
  memberb true edges (S k) z = false /\ memberb true edges k z = true.
Proof.
  intros Hinc Hk z. subst z.
  assert (L1 : edge edges k < edge edges (S k)) by (unfold edge; apply increasing_nth_lt; [exact Hinc|lia|lia]).
  assert (L2 : edge edges (S k) < edge edges (S (S k))) by (unfold edge; apply increasing_nth_lt; [exact Hinc|lia|lia]).
  assert (L0 : ehd edges < edge edges (S k)) by (unfold ehd, edge; apply increasing_nth_lt; [exact Hinc|lia|lia]).
  assert (R : Qleb (edge edges (S k)) (edge edges (S k)) = true) by (apply Qleb_le; apply Qle_refl).
  assert (I : Qltb (edge edges (S k)) (edge edges (S k)) = false).
  { apply not_true_iff_false. intro C. apply Qltb_lt in C. exact (Qlt_irrefl _ C). }
  unfold hist_mask, np_in_bin, memberb, nbins.
  rewrite (proj2 (Qltb_lt _ _) L0), R, I. cbn [andb].
  replace (S k =? length edges - 1)%nat with false by (symmetry; apply Nat.eqb_neq; lia).
  rewrite (proj2 (Nat.ltb_lt (S k) (length edges))) by lia.
  rewrite (proj2 (Qltb_lt _ _) L1). cbn [andb].
  split; [|split; [apply andb_false_r|split; [apply andb_false_r|reflexivity]]].
  destruct (S (S k) =? length edges - 1)%nat.
  - apply Qleb_le. apply Qlt_le_weak. exact L2.
  - apply Qltb_lt. exact L2.
Qed.

(* ---------- bins and patches without objects ---------- *)
Theorem empty_ok hasw cr edges :
  build_trees_fix hasw cr edges [] = repeat dummy_tree (nbins edges) /\
  hist_fix hasw cr edges [] = repeat 0 (nbins edges) /\
  hist_cur hasw cr edges [] = repeat 0 (nbins edges) /\
  (forall objs b, increasing edges -> (2 <= length edges)%nat -> (b < nbins edges)%nat ->
     (forall o, In o objs -> ~ member cr edges b (oz o)) ->
     nth b (build_trees_fix hasw cr edges objs) (1%nat, 1) = dummy_tree /\
     nth b (hist_fix hasw cr edges objs) 1 = 0).
Proof.
  split; [|split; [|split]].
  - unfold build_trees_fix. rewrite <- map_const_seq with (s := 0%nat). reflexivity.
  - unfold hist_fix. rewrite <- map_const_seq with (s := 0%nat). apply map_ext. intros b.
    apply wsum_nil.
  - unfold hist_cur, np_histogram. rewrite <- map_const_seq with (s := 0%nat). apply map_ext.
    intros b. apply wsum_nil.
  - intros objs b Hinc Hlen Hb Hno.
    assert (G : spec_group cr edges objs b = []).
    { unfold spec_group. apply filter_none. intros o Ho. apply not_true_iff_false.
      rewrite memberb_spec. apply Hno. exact Ho. }
    split.
    + unfold build_trees_fix. rewrite nth_map_seq by exact Hb.
      rewrite get_tree_spec by assumption. rewrite G. unfold make_tree. rewrite wsum_nil. reflexivity.
    + unfold hist_fix. rewrite nth_map_seq by exact Hb.
      rewrite group_member by assumption. rewrite G. apply wsum_nil.
Qed.

(* ---------- the catalog: all patches, the three consumers ---------- *)
Lemma spec_weight_app hasw cr edges l1 l2 b :
  spec_weight hasw cr edges (l1 ++ l2) b == spec_weight hasw cr edges l1 b + spec_weight hasw cr edges l2 b.
Proof.
  unfold spec_weight, spec_group. rewrite filter_app, map_app, !qsumr_qsum. apply qsum_app.
Qed.

Lemma spec_weight_concat hasw cr edges patches b :
  spec_weight hasw cr edges (concat patches) b ==
  qsum (map (fun p => spec_weight hasw cr edges p b) patches).
Proof.
  induction patches as [|p ps IH]; simpl; [reflexivity|].
  rewrite spec_weight_app, IH. reflexivity.
Qed.

Lemma qsum_map_ext {A} (f g : A -> Q) l : (forall x, In x l -> f x == g x) -> qsum (map f l) == qsum (map g l).
Proof.
  induction l as [|x l IH]; intros H; simpl; [reflexivity|].
  rewrite (H x (or_introl eq_refl)), IH; [reflexivity|]. intros y Hy. apply H. right. exact Hy.
Qed.

(* measurement: sum_weights[b, p] is the spec's weight sum of patch p in bin b *)
Theorem sum_weights_member hasw cr edges patches b p :
  increasing edges -> (2 <= length edges)%nat -> (b < nbins edges)%nat -> (p < length patches)%nat ->
  nth p (nth b (cat_sum_weights hasw cr edges patches) []) 0 ==
  spec_weight hasw cr edges (nth p patches []) b.
Proof.
  intros Hinc Hlen Hb Hp. unfold cat_sum_weights, sum_weights_of.
  rewrite nth_map_seq by exact Hb. rewrite map_map.
  rewrite (nth_map_default _ patches p [] 0) by exact Hp.
  apply (trees_partition hasw cr edges (nth p patches []) Hinc Hlen). exact Hb.
Qed.

(* histogram of the whole catalog = the spec evaluated on all objects: the repaired histogram
   for both closed sides, the current one for closed = left *)
Theorem cat_hist_member hasw cr edges patches b :
  increasing edges -> (2 <= length edges)%nat -> (b < nbins edges)%nat ->
  nth b (cat_hist_fix hasw cr edges patches) 0 == nth b (spec_hist hasw cr edges patches) 0 /\
  (cr = false -> nth b (cat_hist_cur hasw cr edges patches) 0 == nth b (spec_hist hasw cr edges patches) 0) /\
  (* ... = the sum over the patches of the trees' (= the measurement's) sum_weights *)
  nth b (spec_hist hasw cr edges patches) 0 == qsum (nth b (cat_sum_weights hasw cr edges patches) []).
Proof.
  intros Hinc Hlen Hb.
  assert (S1 : nth b (spec_hist hasw cr edges patches) 0 ==
               qsum (map (fun p => spec_weight hasw cr edges p b) patches)).
  { unfold spec_hist. rewrite nth_map_seq by exact Hb. apply spec_weight_concat. }
  split; [|split].
  - rewrite S1. unfold cat_hist_fix, total. rewrite nth_map_seq by exact Hb.
    rewrite qsumr_qsum, map_map. apply qsum_map_ext. intros p _.
    apply hist_fix_member; assumption.
  - intros ->. rewrite S1. unfold cat_hist_cur, total. rewrite nth_map_seq by exact Hb.
    rewrite qsumr_qsum, map_map. apply qsum_map_ext. intros p _.
    apply hist_left_member; assumption.
  - rewrite S1. unfold cat_sum_weights, sum_weights_of. rewrite nth_map_seq by exact Hb.
    rewrite map_map. apply qsum_map_ext. intros p _. symmetry.
    apply (trees_partition hasw cr edges p Hinc Hlen). exact Hb.
Qed.

(* ================= binnings that cross a process boundary (worker processes, copies) ================= *)
Require Import Lqa.

Lemma qlist_eqb_nth l1 l2 :
  qlist_eqb l1 l2 = true -> length l1 = length l2 /\ forall k, nth k l1 0 == nth k l2 0.
Proof.
  unfold qlist_eqb. revert l2. induction l1 as [|x l1 IH]; intros [|y l2]; simpl; try discriminate.
  - intros _. split; [reflexivity|]. intros [|k]; reflexivity.
  - rewrite andb_true_iff. intros [Hxy H]. apply IH in H. destruct H as [Hl Hn].
    split; [lia|]. intros [|k]; [apply Qeq_bool_iff; exact Hxy|apply Hn].
Qed.

(* what was sent and what arrived are equal: every redshift is put into the same bins *)
Theorem transport_sound cr e cr' e' :
  binning_eqb (cr, e) (cr', e') = true ->
  forall b z, member cr e b z <-> member cr' e' b z.
Proof.
  unfold binning_eqb. simpl. rewrite andb_true_iff. intros [Hc He] b z.
  apply Bool.eqb_prop in Hc. subst cr'. apply qlist_eqb_nth in He. destruct He as [Hl Hn].
  unfold member, edge. rewrite Hl. pose proof (Hn b) as H0. pose proof (Hn (S b)) as H1.
  destruct cr; split; intros [Hlen [A B]]; (split; [exact Hlen|]);
    first [rewrite <- H0, <- H1; split; assumption | rewrite H0, H1; split; assumption].
Qed.

(* one bin as a set of rationals determines its two edges ... *)
Lemma interval_determines (cr : bool) a0 a1 b0 b1 :
  a0 < a1 -> b0 < b1 ->
  (forall z, (if cr then a0 < z /\ z <= a1 else a0 <= z /\ z < a1) <->
             (if cr then b0 < z /\ z <= b1 else b0 <= z /\ z < b1)) ->
  a0 == b0 /\ a1 == b1.
Proof.
  intros Ha Hb H. destruct cr; simpl in H.
  - assert (P : b0 < a1 /\ a1 <= b1) by (apply H; split; lra).
    assert (P' : a0 < b1 /\ b1 <= a1) by (apply H; split; lra).
    split; [|lra].
    destruct (Qlt_le_dec a0 b0) as [L|L].
    + assert (b0 < b0 /\ b0 <= b1) by (apply H; split; lra). lra.
    + destruct (Qlt_le_dec b0 a0) as [L'|L']; [|lra].
      assert (a0 < a0 /\ a0 <= a1) by (apply H; split; lra). lra.
  - assert (P : b0 <= a0 /\ a0 < b1) by (apply H; split; lra).
    assert (P' : a0 <= b0 /\ b0 < a1) by (apply H; split; lra).
    split; [lra|].
    destruct (Qlt_le_dec a1 b1) as [L|L].
    + assert (a0 <= a1 /\ a1 < a1) by (apply H; split; lra). lra.
    + destruct (Qlt_le_dec b1 a1) as [L'|L']; [|lra].
      assert (b0 <= b1 /\ b1 < b1) by (apply H; split; lra). lra.
Qed.

(* ... and its closed side *)
Lemma interval_closed_side a0 a1 b0 b1 :
  a0 < a1 -> b0 < b1 ->
  ~ (forall z, (a0 < z /\ z <= a1) <-> (b0 <= z /\ z < b1)).
Proof.
  intros Ha Hb H.
  assert (P : b0 <= a1 /\ a1 < b1) by (apply H; split; lra).
  assert (P' : a0 < b0 /\ b0 <= a1) by (apply H; split; lra).
  assert (P'' : a0 < (a1 + b1) * (1#2) /\ (a1 + b1) * (1#2) <= a1) by (apply H; split; lra). lra.
Qed.

Lemma increasing_step e k : increasing e -> (S k < length e)%nat -> edge e k < edge e (S k).
Proof. intros H Hk. unfold edge. apply increasing_nth_lt; [exact H|lia|exact Hk]. Qed.

(* the membership relation of a binning determines the binning: a transport (pickling to a worker
   process, copying into a result) keeps the bin of every redshift exactly when the closed side and
   every edge arrive unchanged *)
Theorem member_determines_binning cr cr' e e' :
  increasing e -> increasing e' -> (2 <= length e)%nat -> (2 <= length e')%nat ->
  (forall b z, member cr e b z <-> member cr' e' b z) ->
  cr = cr' /\ length e = length e' /\ forall k, (k < length e)%nat -> edge e k == edge e' k.
Proof.
  intros Hi Hi' Hl Hl' H.
  (* a value inside bin b of one binning shows that the other has a bin b *)
  assert (Hin : forall c l b, increasing l -> (S b < length l)%nat ->
                 member c l b (if c then edge l (S b) else edge l b)).
  { intros c l b Hl0 Hb. pose proof (increasing_step l b Hl0 Hb). unfold member.
    split; [exact Hb|]. destruct c; split; lra. }
  assert (Hlen : length e = length e').
  { assert (length e <= length e')%nat.
    { pose proof (Hin cr e (length e - 2)%nat Hi ltac:(lia)) as M. apply H in M. destruct M as [M _]. lia. }
    assert (length e' <= length e)%nat.
    { pose proof (Hin cr' e' (length e' - 2)%nat Hi' ltac:(lia)) as M. apply H in M. destruct M as [M _]. lia. }
    lia. }
  (* bin b as an interval, on both sides *)
  assert (Hbin : forall b, (S b < length e)%nat -> forall z,
            (if cr then edge e b < z /\ z <= edge e (S b) else edge e b <= z /\ z < edge e (S b)) <->
            (if cr' then edge e' b < z /\ z <= edge e' (S b) else edge e' b <= z /\ z < edge e' (S b))).
  { intros b Hb z. specialize (H b z). unfold member in H. rewrite <- Hlen in H. tauto. }
  assert (Hc : cr = cr').
  { pose proof (increasing_step e 0 Hi ltac:(lia)) as A. pose proof (increasing_step e' 0 Hi' ltac:(lia)) as B.
    pose proof (Hbin 0%nat ltac:(lia)) as H0.
    destruct cr, cr'; try reflexivity; exfalso.
    - exact (interval_closed_side _ _ _ _ A B H0).
    - apply (interval_closed_side _ _ _ _ B A). intro z. symmetry. apply H0. }
  subst cr'. split; [reflexivity|]. split; [exact Hlen|].
  intros k Hk.
  assert (Hedges : forall b, (S b < length e)%nat -> edge e b == edge e' b /\ edge e (S b) == edge e' (S b)).
  { intros b Hb. apply (interval_determines cr).
    - apply increasing_step; assumption.
    - apply increasing_step; [assumption|lia].
    - apply Hbin; exact Hb. }
  destruct (Nat.eq_dec (S k) (length e)) as [E|E].
  - destruct k as [|k]; [lia|]. apply (Hedges k). lia.
  - apply (Hedges k). lia.
Qed.

(* flipping the closed side changes the bin of exactly the edge-valued redshifts: the upper edge of
   bin k belongs to bin k only under closed = right, the lower edge only under closed = left, and a
   redshift that is no edge lies in the same bins under both *)
Theorem closed_flip_on_edges e k :
  increasing e -> (S k < length e)%nat ->
  member true e k (edge e (S k)) /\ ~ member false e k (edge e (S k)) /\
  member false e k (edge e k) /\ ~ member true e k (edge e k) /\
  (forall z, ~ z == edge e k -> ~ z == edge e (S k) -> (member true e k z <-> member false e k z)).
Proof.
  intros Hi Hk. pose proof (increasing_step e k Hi Hk) as A. unfold member.
  split; [split; [exact Hk|split; lra]|].
  split; [intros [_ [_ B]]; lra|].
  split; [split; [exact Hk|split; lra]|].
  split; [intros [_ [B _]]; lra|].
  intros z N0 N1. split; intros [_ [B C]]; (split; [exact Hk|]); split.
  - lra.
  - destruct (Qlt_le_dec z (edge e (S k))) as [L|L]; [exact L|]. exfalso. apply N1. lra.
  - destruct (Qlt_le_dec (edge e k) z) as [L|L]; [exact L|]. exfalso. apply N0. lra.
  - lra.
Qed.

(* the checker evaluated by the harness on every observed transport is sound: code 0 means that the
   binning that arrived puts every redshift into the bins of the binning that was sent *)
Lemma code4_zero a b c d : code [a; b; c; d] = 0%nat -> a = true /\ b = true /\ c = true /\ d = true.
Proof. destruct a, b, c, d; vm_compute; intro H; try discriminate H; repeat split. Qed.

Theorem transport_case_sound cr e cr' e' :
  c10_transport_case cr e cr' e' = 0%nat ->
  increasing e /\ (2 <= length e)%nat /\ cr = cr' /\
  forall b z, member cr e b z <-> member cr' e' b z.
Proof.
  unfold c10_transport_case. intro H. apply code4_zero in H. destruct H as [Hc [He [_ Hh]]].
  apply andb_true_iff in Hh. destruct Hh as [Hi Hl].
  apply increasingb_spec in Hi. apply Nat.leb_le in Hl.
  split; [exact Hi|]. split; [exact Hl|]. split; [apply Bool.eqb_prop; exact Hc|].
  apply transport_sound. unfold binning_eqb. simpl. rewrite Hc, He. reflexivity.
Qed.

(* ---------- count_pairs over linked patch pairs: the per-bin sums of weights of a measurement ---------- *)
Lemma upd_length {A} (l : list A) k x : length (upd l k x) = length l.
Proof. revert k; induction l as [|a l IH]; intros [|k]; simpl; auto. Qed.

Lemma nth_upd {A} (l : list A) k x p d :
  (k < length l)%nat -> nth p (upd l k x) d = if (p =? k)%nat then x else nth p l d.
Proof.
  revert k p; induction l as [|a l IH]; intros k p Hk; simpl in Hk; [lia|].
  destruct k as [|k]; destruct p as [|p]; simpl; try reflexivity.
  apply IH. lia.
Qed.

Lemma upd_out {A} (l : list A) k x : (length l <= k)%nat -> upd l k x = l.
Proof.
  revert k; induction l as [|a l IH]; intros [|k] H; simpl in *; try reflexivity; try lia.
  rewrite IH by lia. reflexivity.
Qed.

Lemma map_combine_fst {A B C} (f : A -> C) (l1 : list A) (l2 : list B) :
  length l1 = length l2 -> map (fun tt => f (fst tt)) (combine l1 l2) = map f l1.
Proof.
  revert l2; induction l1 as [|a l1 IH]; intros [|b l2] H; simpl in *; try discriminate; [reflexivity|].
  rewrite IH by lia. reflexivity.
Qed.
Lemma map_combine_snd {A B C} (f : B -> C) (l1 : list A) (l2 : list B) :
  length l1 = length l2 -> map (fun tt => f (snd tt)) (combine l1 l2) = map f l2.
Proof.
  revert l2; induction l1 as [|a l1 IH]; intros [|b l2] H; simpl in *; try discriminate; [reflexivity|].
  rewrite IH by lia. reflexivity.
Qed.

Lemma pair_sums_indep t1 t2 : length t1 = length t2 ->
  pair_sums t1 t2 = (map snd t1, map snd t2).
Proof.
  intros H. unfold pair_sums. f_equal.
  - exact (map_combine_fst (@snd nat Q) t1 t2 H).
  - exact (map_combine_snd (@snd nat Q) t1 t2 H).
Qed.

Lemma nth_repeat_lt {A} (a d : A) n k : (k < n)%nat -> nth k (repeat a n) d = a.
Proof. revert k; induction n as [|n IH]; intros [|k] H; simpl; try lia; [reflexivity|]. apply IH. lia. Qed.

Lemma patch_trees_length binned hasw cr edges objs :
  increasing edges -> (2 <= length edges)%nat ->
  length (patch_trees binned hasw cr edges objs) = nbins edges.
Proof.
  intros Hi Hl. unfold patch_trees. destruct binned.
  - apply (trees_partition hasw cr edges objs Hi Hl).
  - apply repeat_length.
Qed.

Lemma cat_trees_length binned hasw cr edges patches : length (cat_trees binned hasw cr edges patches) = length patches.
Proof. apply map_length. Qed.

Lemma nth_cat_trees binned hasw cr edges patches p :
  (p < length patches)%nat ->
  nth p (cat_trees binned hasw cr edges patches) [] = patch_trees binned hasw cr edges (nth p patches []).
Proof. intros H. unfold cat_trees. apply (nth_map_default _ patches p [] []). exact H. Qed.

(* the fold: a column that was written at least once holds the value of its own patch, whatever
   the partners were and in whatever order the results arrived *)
Section Fold.
  Context (ps : list tree -> list tree -> list Q * list Q) (c1 c2 : list (list tree)).
  Context (col1 col2 : nat -> list Q).

  Lemma fold_lengths pairs st :
    length (fst (fold_left (pair_write ps c1 c2) pairs st)) = length (fst st) /\
    length (snd (fold_left (pair_write ps c1 c2) pairs st)) = length (snd st).
  Proof.
    revert st; induction pairs as [|ij pairs IH]; intros st; simpl; [tauto|].
    destruct (IH (pair_write ps c1 c2 st ij)) as [H1 H2]. rewrite H1, H2.
    unfold pair_write; simpl. rewrite !upd_length. tauto.
  Qed.

  Lemma fold_written1 pairs : forall st,
    (forall ij, In ij pairs -> fst (ps (nth (fst ij) c1 []) (nth (snd ij) c2 [])) = col1 (fst ij)) ->
    forall p d, (p < length (fst st))%nat ->
      (nth p (fst st) d = col1 p \/ exists j, In (p, j) pairs) ->
      nth p (fst (fold_left (pair_write ps c1 c2) pairs st)) d = col1 p.
  Proof.
    induction pairs as [|ij pairs IH]; intros st Hps p d Hp H; simpl.
    - destruct H as [H|[j []]]. exact H.
    - apply IH.
      + intros x Hx. apply Hps. right. exact Hx.
      + unfold pair_write; simpl. rewrite upd_length. exact Hp.
      + unfold pair_write; simpl.
        destruct (Nat.lt_ge_cases (fst ij) (length (fst st))) as [Hk|Hk].
        * rewrite (nth_upd _ _ _ _ _ Hk). destruct (p =? fst ij)%nat eqn:E.
          -- left. apply Nat.eqb_eq in E. subst p. apply Hps. left. reflexivity.
          -- destruct H as [H|[j [Hj|Hj]]].
             ++ left. exact H.
             ++ subst ij. simpl in E. rewrite Nat.eqb_refl in E. discriminate.
             ++ right. exists j. exact Hj.
        * destruct H as [H|[j [Hj|Hj]]].
          -- left. rewrite upd_out by exact Hk. exact H.
          -- subst ij. simpl in Hk. lia.
          -- right. exists j. exact Hj.
  Qed.

  Lemma fold_written2 pairs : forall st,
    (forall ij, In ij pairs -> snd (ps (nth (fst ij) c1 []) (nth (snd ij) c2 [])) = col2 (snd ij)) ->
    forall p d, (p < length (snd st))%nat ->
      (nth p (snd st) d = col2 p \/ exists i, In (i, p) pairs) ->
      nth p (snd (fold_left (pair_write ps c1 c2) pairs st)) d = col2 p.
  Proof.
    induction pairs as [|ij pairs IH]; intros st Hps p d Hp H; simpl.
    - destruct H as [H|[j []]]. exact H.
    - apply IH.
      + intros x Hx. apply Hps. right. exact Hx.
      + unfold pair_write; simpl. rewrite upd_length. exact Hp.
      + unfold pair_write; simpl.
        destruct (Nat.lt_ge_cases (snd ij) (length (snd st))) as [Hk|Hk].
        * rewrite (nth_upd _ _ _ _ _ Hk). destruct (p =? snd ij)%nat eqn:E.
          -- left. apply Nat.eqb_eq in E. subst p. apply Hps. left. reflexivity.
          -- destruct H as [H|[j [Hj|Hj]]].
             ++ left. exact H.
             ++ subst ij. simpl in E. rewrite Nat.eqb_refl in E. discriminate.
             ++ right. exists j. exact Hj.
        * destruct H as [H|[j [Hj|Hj]]].
          -- left. rewrite upd_out by exact Hk. exact H.
          -- subst ij. simpl in Hk. lia.
          -- right. exists j. exact Hj.
  Qed.
End Fold.

Lemma nth_cols_to_mat nb cols b p :
  (b < nb)%nat -> (p < length cols)%nat ->
  nth p (nth b (cols_to_mat nb cols) []) 0 = nth b (nth p cols []) 0.
Proof.
  intros Hb Hp. unfold cols_to_mat. rewrite nth_map_seq by exact Hb.
  apply (nth_map_default (fun c => nth b c 0) cols p [] 0). exact Hp.
Qed.

(* the value of one side: a binned sample follows `member`, a sample without binning reports the
   patch total in every bin *)
Lemma patch_trees_value binned hasw cr edges objs b :
  increasing edges -> (2 <= length edges)%nat -> (b < nbins edges)%nat ->
  nth b (map snd (patch_trees binned hasw cr edges objs)) 0 ==
  (if binned then spec_weight hasw cr edges objs b else wsum hasw objs).
Proof.
  intros Hi Hl Hb. change 0 with (snd dummy_tree) at 1. rewrite map_nth.
  unfold patch_trees. destruct binned.
  - apply (trees_partition hasw cr edges objs Hi Hl). exact Hb.
  - rewrite nth_repeat_lt by exact Hb. reflexivity.
Qed.

(* count_pairs: for EVERY sequence of patch pairs (every linkage, every order in which the pair
   results arrive) the per-bin sum of weights recorded for a patch that occurs in some pair is the
   closed-side rule applied to the objects of that patch alone: it does not depend on the partner
   patches, in particular not on whether a partner has objects in the bin *)
Theorem count_pairs_member cr edges binned1 hasw1 cat1 binned2 hasw2 cat2 pairs b p :
  increasing edges -> (2 <= length edges)%nat -> (b < nbins edges)%nat ->
  (forall ij, In ij pairs -> (fst ij < length cat1)%nat /\ (snd ij < length cat2)%nat) ->
  let m := count_pairs_sw cr edges binned1 hasw1 cat1 binned2 hasw2 cat2 pairs in
  ((p < length cat1)%nat -> (exists j, In (p, j) pairs) ->
     nth p (nth b (fst m) []) 0 ==
     (if binned1 then spec_weight hasw1 cr edges (nth p cat1 []) b else wsum hasw1 (nth p cat1 []))) /\
  ((p < length cat2)%nat -> (exists i, In (i, p) pairs) ->
     nth p (nth b (snd m) []) 0 ==
     (if binned2 then spec_weight hasw2 cr edges (nth p cat2 []) b else wsum hasw2 (nth p cat2 []))).
Proof.
  intros Hi Hl Hb Hrange m. subst m.
  unfold count_pairs_sw, count_pairs_with, count_pairs_gen. cbv zeta.
  set (c1 := cat_trees binned1 hasw1 cr edges cat1).
  set (c2 := cat_trees binned2 hasw2 cr edges cat2).
  set (st0 := sw_init (nbins edges) (length c1) (length c2)).
  assert (L1 : length (fst st0) = length cat1).
  { unfold st0, sw_init; simpl. rewrite repeat_length. apply cat_trees_length. }
  assert (L2 : length (snd st0) = length cat2).
  { unfold st0, sw_init; simpl. rewrite repeat_length. apply cat_trees_length. }
  assert (Hps : forall ij, In ij pairs ->
            pair_sums (nth (fst ij) c1 []) (nth (snd ij) c2 []) =
            (map snd (patch_trees binned1 hasw1 cr edges (nth (fst ij) cat1 [])),
             map snd (patch_trees binned2 hasw2 cr edges (nth (snd ij) cat2 [])))).
  { intros ij Hij. destruct (Hrange ij Hij) as [R1 R2]. unfold c1, c2.
    rewrite (nth_cat_trees _ _ _ _ _ _ R1), (nth_cat_trees _ _ _ _ _ _ R2).
    apply pair_sums_indep. rewrite !patch_trees_length by assumption. reflexivity. }
  destruct (fold_lengths pair_sums c1 c2 pairs st0) as [F1 F2].
  split; intros Hp Hex; cbn [fst snd].
  - rewrite nth_cols_to_mat; [|exact Hb|rewrite F1, L1; exact Hp].
    rewrite (fold_written1 pair_sums c1 c2
               (fun q => map snd (patch_trees binned1 hasw1 cr edges (nth q cat1 []))) pairs st0).
    + apply patch_trees_value; assumption.
    + intros ij Hij. rewrite (Hps ij Hij). reflexivity.
    + rewrite L1. exact Hp.
    + right. exact Hex.
  - rewrite nth_cols_to_mat; [|exact Hb|rewrite F2, L2; exact Hp].
    rewrite (fold_written2 pair_sums c1 c2
               (fun q => map snd (patch_trees binned2 hasw2 cr edges (nth q cat2 []))) pairs st0).
    + apply patch_trees_value; assumption.
    + intros ij Hij. rewrite (Hps ij Hij). reflexivity.
    + rewrite L2. exact Hp.
    + right. exact Hex.
Qed.

(* in particular: two pair sequences that cover the same patches give the same matrices entry by entry
   (the linkage and the schedule of the workers are invisible in sum_weights) *)
Corollary count_pairs_schedule_free cr edges binned1 hasw1 cat1 binned2 hasw2 cat2 pairs pairs' b p :
  increasing edges -> (2 <= length edges)%nat -> (b < nbins edges)%nat ->
  (forall ij, In ij pairs -> (fst ij < length cat1)%nat /\ (snd ij < length cat2)%nat) ->
  (forall ij, In ij pairs' -> (fst ij < length cat1)%nat /\ (snd ij < length cat2)%nat) ->
  (p < length cat1)%nat -> (exists j, In (p, j) pairs) -> (exists j, In (p, j) pairs') ->
  nth p (nth b (fst (count_pairs_sw cr edges binned1 hasw1 cat1 binned2 hasw2 cat2 pairs)) []) 0 ==
  nth p (nth b (fst (count_pairs_sw cr edges binned1 hasw1 cat1 binned2 hasw2 cat2 pairs')) []) 0.
Proof.
  intros Hi Hl Hb R R' Hp E E'.
  rewrite (proj1 (count_pairs_member cr edges binned1 hasw1 cat1 binned2 hasw2 cat2 pairs b p Hi Hl Hb R) Hp E).
  rewrite (proj1 (count_pairs_member cr edges binned1 hasw1 cat1 binned2 hasw2 cat2 pairs' b p Hi Hl Hb R') Hp E').
  reflexivity.
Qed.

(* the variant that skips a bin when one of the two trees is empty is NOT the rule: two patches,
   two bins, patch 0 has an object in bin 0 only, patch 1 in bin 1 only, pairs (0,0) (1,1) (0,1)
   (the sequence of an autocorrelation): the last result stored for patch 0 on side 1 and for
   patch 1 on side 2 comes from the pair (0,1), in which every bin has an empty side; the object of
   patch 0 vanishes from sum_weights1, the object of patch 1 from sum_weights2 *)
Theorem count_pairs_skip_refuted :
  exists edges cat pairs, increasing edges /\ (2 <= length edges)%nat /\
    pairs_ok (length cat) (length cat) pairs = true /\
    fst (count_pairs_sw true edges true true cat true true cat pairs) = [[1; 0]; [0; 2]] /\
    spec_sum_weights true true edges cat = [[1; 0]; [0; 2]] /\
    fst (count_pairs_sw_skip true edges true true cat true true cat pairs) = [[0; 0]; [0; 2]] /\
    snd (count_pairs_sw_skip true edges true true cat true true cat pairs) = [[1; 0]; [0; 0]].
Proof.
  exists [1#4; 1#2; 1], [[(3#8, 1)]; [(3#4, 2)]], [(0, 0); (1, 1); (0, 1)]%nat.
  split; [apply increasingb_spec; reflexivity|]. split; [simpl; lia|].
  repeat split; vm_compute; reflexivity.
Qed.

(* the checker is sound: code 0 means the observed matrices are the spec *)
Lemma qmat_eqb_true_nth (a b : list (list Q)) i j :
  qmat_eqb a b = true -> nth j (nth i a []) 0 == nth j (nth i b []) 0.
Proof.
  unfold qmat_eqb. revert b i; induction a as [|ra a IH]; intros [|rb b] i H; simpl in H; try discriminate.
  - reflexivity.
  - apply andb_true_iff in H. destruct H as [Hr Ha]. destruct i as [|i]; simpl.
    + clear -Hr. unfold qlist_eqb in Hr. revert rb j Hr; induction ra as [|x ra IHr]; intros [|y rb] j Hr; simpl in Hr; try discriminate.
      * reflexivity.
      * apply andb_true_iff in Hr. destruct Hr as [Hx Hr]. destruct j as [|j]; simpl.
        -- apply Qeq_bool_iff. exact Hx.
        -- apply IHr. exact Hr.
    + apply IH. exact Ha.
Qed.

Lemma pairs_ok_spec p1 p2 pairs : pairs_ok p1 p2 pairs = true ->
  (forall ij, In ij pairs -> (fst ij < p1)%nat /\ (snd ij < p2)%nat) /\
  (forall p, (p < p1)%nat -> exists j, In (p, j) pairs) /\
  (forall p, (p < p2)%nat -> exists i, In (i, p) pairs).
Proof.
  unfold pairs_ok. rewrite !andb_true_iff. intros [[H0 H1] H2].
  rewrite forallb_forall in H0, H1, H2. split; [|split].
  - intros ij Hij. specialize (H0 ij Hij). apply andb_true_iff in H0.
    rewrite !Nat.ltb_lt in H0. exact H0.
  - intros p Hp. assert (Hin : In p (seq 0 p1)) by (apply in_seq; lia).
    specialize (H1 p Hin). apply existsb_exists in H1. destruct H1 as [[i j] [Hij E]].
    simpl in E. apply Nat.eqb_eq in E. subst i. exists j. exact Hij.
  - intros p Hp. assert (Hin : In p (seq 0 p2)) by (apply in_seq; lia).
    specialize (H2 p Hin). apply existsb_exists in H2. destruct H2 as [[i j] [Hij E]].
    simpl in E. apply Nat.eqb_eq in E. subst j. exists i. exact Hij.
Qed.

Lemma code9_zero a b c d e f g h i : code [a; b; c; d; e; f; g; h; i] = 0%nat ->
  a = true /\ b = true /\ c = true /\ d = true /\ e = true.
Proof. destruct a, b, c, d, e, f, g, h, i; vm_compute; intro H; try discriminate H; repeat split. Qed.

(* the checker the harness evaluates on every observed pair-count container: code 0 means that every
   entry of the observed matrices is the closed-side rule applied to the patch of its column *)
Theorem count_case_sound cr edges binned1 hasw1 cat1 binned2 hasw2 cat2 pairs obs1 obs2 :
  c10_count_case cr edges binned1 hasw1 cat1 binned2 hasw2 cat2 pairs obs1 obs2 = 0%nat ->
  increasing edges /\ (2 <= length edges)%nat /\
  forall b p, (b < nbins edges)%nat ->
    ((p < length cat1)%nat -> nth p (nth b obs1 []) 0 ==
       (if binned1 then spec_weight hasw1 cr edges (nth p cat1 []) b else wsum hasw1 (nth p cat1 []))) /\
    ((p < length cat2)%nat -> nth p (nth b obs2 []) 0 ==
       (if binned2 then spec_weight hasw2 cr edges (nth p cat2 []) b else wsum hasw2 (nth p cat2 []))).
Proof.
  unfold c10_count_case. cbv zeta. intro H. apply code9_zero in H. destruct H as [H1 [H2 [_ [_ Hh]]]].
  rewrite !andb_true_iff in Hh. destruct Hh as [[Hi Hl] Hp].
  apply increasingb_spec in Hi. apply Nat.leb_le in Hl.
  destruct (pairs_ok_spec _ _ _ Hp) as [R [C1 C2]].
  split; [exact Hi|]. split; [exact Hl|]. intros b p Hb.
  pose proof (count_pairs_member cr edges binned1 hasw1 cat1 binned2 hasw2 cat2 pairs b p Hi Hl Hb R) as [M1 M2].
  split; intros Hlt.
  - rewrite (qmat_eqb_true_nth _ _ b p H1). apply M1; [exact Hlt|apply C1; exact Hlt].
  - rewrite (qmat_eqb_true_nth _ _ b p H2). apply M2; [exact Hlt|apply C2; exact Hlt].
Qed.

(* ---------- the tree cache of a catalog: every history of per-patch builds, complete and interrupted
              catalog-wide builds leaves a cache from which the next catalog-wide build yields, for EVERY
              patch, the trees of the requested binning ---------- *)
Lemma increasing_qeq l1 l2 :
  length l1 = length l2 -> (forall k, nth k l1 0 == nth k l2 0) -> increasing l1 -> increasing l2.
Proof.
  revert l2. induction l1 as [|a l1 IH]; intros [|b l2] Hl Hn Hi; simpl in Hl; try discriminate; [exact I|].
  destruct l1 as [|a' l1]; destruct l2 as [|b' l2]; simpl in Hl; try discriminate; [exact I|].
  destruct Hi as [Hab Hi]. split.
  - pose proof (Hn 0%nat) as H0. pose proof (Hn 1%nat) as H1. simpl in H0, H1. rewrite <- H0, <- H1. exact Hab.
  - apply IH; [simpl; lia| |exact Hi]. intro k. exact (Hn (S k)).
Qed.

Lemma binning_eqb_props cr' e' cr e :
  binning_eqb (cr', e') (cr, e) = true ->
  cr' = cr /\ length e' = length e /\ forall k, nth k e' 0 == nth k e 0.
Proof.
  unfold binning_eqb. simpl. rewrite andb_true_iff. intros [Hc He].
  apply Bool.eqb_prop in Hc. apply qlist_eqb_nth in He. destruct He as [Hl Hn]. auto.
Qed.

Lemma binning_eqb_refl x : binning_eqb x x = true.
Proof.
  unfold binning_eqb. rewrite Bool.eqb_reflx. simpl. unfold qlist_eqb. apply list_eqb_refl.
  intro q. apply Qeq_bool_iff. reflexivity.
Qed.

Lemma bkey_eqb_refl k : bkey_eqb k k = true.
Proof. destruct k as [x|]; simpl; [apply binning_eqb_refl|reflexivity]. Qed.

Lemma spec_group_eqb cr' e' cr e objs b :
  binning_eqb (cr', e') (cr, e) = true -> spec_group cr' e' objs b = spec_group cr e objs b.
Proof.
  intro H. unfold spec_group. apply filter_ext. intro o.
  apply Bool.eq_iff_eq_true. rewrite !memberb_spec. apply transport_sound. exact H.
Qed.

(* trees stored with a binning that EQUALS the requested one are the trees of the requested one *)
Lemma trees_for_spec hasw k cr e objs :
  increasing e -> (2 <= length e)%nat -> bkey_eqb k (Some (cr, e)) = true ->
  length (trees_for hasw k objs) = nbins e /\
  forall b, (b < nbins e)%nat ->
    fst (nth b (trees_for hasw k objs) dummy_tree) = spec_count cr e objs b /\
    snd (nth b (trees_for hasw k objs) dummy_tree) == spec_weight hasw cr e objs b.
Proof.
  intros Hi Hl Hk. destruct k as [[cr' e']|]; simpl in Hk; [|discriminate].
  pose proof (binning_eqb_props _ _ _ _ Hk) as [Hc [Hlen Hn]].
  assert (Hi' : increasing e').
  { apply (increasing_qeq e e'); [lia| |exact Hi]. intro j. symmetry. apply Hn. }
  assert (Hl' : (2 <= length e')%nat) by lia.
  assert (Hnb : nbins e' = nbins e) by (unfold nbins; lia).
  pose proof (trees_partition hasw cr' e' objs Hi' Hl') as [HL [HB _]].
  simpl. split; [rewrite HL; exact Hnb|].
  intros b Hb. rewrite <- Hnb in Hb. destruct (HB b Hb) as [_ [_ [Hf Hs]]].
  unfold spec_count, spec_weight in *. rewrite (spec_group_eqb _ _ _ _ objs b Hk) in Hf, Hs.
  split; assumption.
Qed.

(* ----- generic Forall2 helpers ----- *)
Lemma forall2_nth {A B} (R : A -> B -> Prop) l1 l2 p d1 d2 :
  Forall2 R l1 l2 -> (p < length l1)%nat -> R (nth p l1 d1) (nth p l2 d2).
Proof.
  intro H. revert p. induction H as [|x y l1 l2 Hxy H IH]; intros p Hp; simpl in Hp; [lia|].
  destruct p as [|p]; simpl; [exact Hxy|]. apply IH. lia.
Qed.

Lemma forall2_length {A B} (R : A -> B -> Prop) l1 l2 : Forall2 R l1 l2 -> length l1 = length l2.
Proof. intro H. induction H; simpl; [reflexivity|]. rewrite IHForall2. reflexivity. Qed.

Lemma forall2_upd {A B} (R : A -> B -> Prop) l1 l2 k x d1 :
  Forall2 R l1 l2 -> ((k < length l1)%nat -> R (nth k l1 d1) x) -> Forall2 R l1 (upd l2 k x).
Proof.
  intro H. revert k. induction H as [|a b l1 l2 Hab H IH]; intros k Hk; simpl; [constructor|].
  destruct k as [|k]; simpl.
  - constructor; [apply Hk; simpl; lia|exact H].
  - constructor; [exact Hab|]. apply IH. intro Hlt. apply Hk. simpl. lia.
Qed.

(* ----- the invariant ----- *)
Lemma patch_build_valid hasw force k objs c :
  entry_valid hasw objs c -> entry_valid hasw objs (patch_build hasw force k objs c).
Proof. intro H. unfold patch_build. destruct (needs_rebuild force k c); simpl; [reflexivity|exact H]. Qed.

Lemma cache_init_valid hasw patches : cache_valid hasw patches (cache_init (length patches)).
Proof. unfold cache_valid, cache_init. induction patches as [|o ps IH]; simpl; constructor; [exact I|exact IH]. Qed.

Lemma cat_build_valid hasw force k patches c :
  cache_valid hasw patches c -> cache_valid hasw patches (cat_build hasw force k patches c).
Proof.
  unfold cache_valid. intro H. induction H as [|o e ps cs Hoe H IH]; simpl; constructor; [|exact IH].
  apply patch_build_valid. exact Hoe.
Qed.

Lemma cat_build_intr_valid hasw force k patches c fuel :
  cache_valid hasw patches c -> cache_valid hasw patches (cat_build_intr hasw force k patches c fuel).
Proof.
  unfold cache_valid. intro H. revert fuel. induction H as [|o e ps cs Hoe H IH]; intro fuel; simpl; [constructor|].
  destruct (needs_rebuild force k e).
  - destruct fuel as [|f]; constructor; simpl; auto.
  - constructor; [exact Hoe|apply IH].
Qed.

Lemma patches_build_valid hasw force k patches c ids :
  cache_valid hasw patches c -> cache_valid hasw patches (patches_build hasw force k patches c ids).
Proof.
  unfold cache_valid, patches_build. revert c. induction ids as [|p ids IH]; intros c H; simpl; [exact H|].
  apply IH. apply (forall2_upd _ _ _ _ _ []); [exact H|]. intro Hp.
  apply patch_build_valid. apply forall2_nth; assumption.
Qed.

Lemma hstep_valid hasw patches c s :
  cache_valid hasw patches c -> cache_valid hasw patches (hstep_apply hasw patches c s).
Proof.
  intro H. destruct s as [ids force k|force k|fuel force k]; simpl.
  - apply patches_build_valid; exact H.
  - apply cat_build_valid; exact H.
  - apply cat_build_intr_valid; exact H.
Qed.

Theorem run_history_valid hasw patches hist c :
  cache_valid hasw patches c -> cache_valid hasw patches (run_history hasw patches hist c).
Proof.
  unfold run_history. revert c. induction hist as [|s hist IH]; intros c H; simpl; [exact H|].
  apply IH. apply hstep_valid. exact H.
Qed.

(* ----- a catalog-wide build on a valid cache: every patch ends with the requested binning ----- *)
Definition entry_final (hasw : bool) (k : bkey) (objs : list obj) (e : centry) : Prop :=
  exists k' t, e = Some (k', t) /\ bkey_eqb k' k = true /\ t = trees_for hasw k' objs.

Lemma cat_build_final hasw force k patches c :
  cache_valid hasw patches c -> Forall2 (entry_final hasw k) patches (cat_build hasw force k patches c).
Proof.
  unfold cache_valid. intro H. induction H as [|o e ps cs Hoe H IH]; simpl; constructor; [|exact IH].
  unfold patch_build. destruct (needs_rebuild force k e) eqn:E.
  - exists k, (trees_for hasw k o). split; [reflexivity|]. split; [apply bkey_eqb_refl|reflexivity].
  - destruct e as [[k' t]|]; simpl in E; [|discriminate].
    apply orb_false_iff in E. destruct E as [_ E]. apply negb_false_iff in E.
    exists k', t. split; [reflexivity|]. split; [exact E|exact Hoe].
Qed.

(* THE statement: whatever the history of the cache (any sequence of per-patch builds on any patches,
   complete and interrupted catalog-wide builds, with any binnings, closed sides, force flags), after
   Catalog.build_trees(edges, closed) every patch holds trees in which each object sits in exactly
   the bin of `member` for the REQUESTED edges and closed side *)
Theorem cache_history_member hasw patches c0 hist force cr edges :
  increasing edges -> (2 <= length edges)%nat -> cache_valid hasw patches c0 ->
  let c := cat_build hasw force (Some (cr, edges)) patches (run_history hasw patches hist c0) in
  length c = length patches /\
  forall p, (p < length patches)%nat ->
    exists k t, nth p c None = Some (k, t) /\ bkey_eqb k (Some (cr, edges)) = true /\
      length t = nbins edges /\
      forall b, (b < nbins edges)%nat ->
        fst (nth b t dummy_tree) = spec_count cr edges (nth p patches []) b /\
        snd (nth b t dummy_tree) == spec_weight hasw cr edges (nth p patches []) b.
Proof.
  intros Hi Hl Hv c.
  pose proof (cat_build_final hasw force (Some (cr, edges)) patches _ (run_history_valid hasw patches hist c0 Hv)) as HF.
  fold c in HF. split; [symmetry; exact (forall2_length _ _ _ HF)|].
  intros p Hp. pose proof (forall2_nth _ _ _ p [] None HF Hp) as [k [t [E [Hk Ht]]]].
  exists k, t. split; [exact E|]. split; [exact Hk|]. subst t.
  apply trees_for_spec; assumption.
Qed.

(* the same for a build without binning (unknown sample of a cross-correlation): one tree over all
   objects of the patch, whatever binned trees the patch held before *)
Theorem cache_history_unbinned hasw patches c0 hist force :
  cache_valid hasw patches c0 ->
  let c := cat_build hasw force None patches (run_history hasw patches hist c0) in
  length c = length patches /\
  forall p, (p < length patches)%nat -> nth p c None = Some (None, [make_tree hasw (nth p patches [])]).
Proof.
  intros Hv c.
  pose proof (cat_build_final hasw force None patches _ (run_history_valid hasw patches hist c0 Hv)) as HF.
  fold c in HF. split; [symmetry; exact (forall2_length _ _ _ HF)|].
  intros p Hp. pose proof (forall2_nth _ _ _ p [] None HF Hp) as [k [t [E [Hk Ht]]]].
  destruct k as [x|]; simpl in Hk; [discriminate|]. subst t. exact E.
Qed.

(* the measurement reads these trees: sum_weights[b, p] is the spec's weight sum, after every history *)
Corollary cache_history_sum_weights hasw patches c0 hist force cr edges b p :
  increasing edges -> (2 <= length edges)%nat -> cache_valid hasw patches c0 ->
  (b < nbins edges)%nat -> (p < length patches)%nat ->
  let c := cat_build hasw force (Some (cr, edges)) patches (run_history hasw patches hist c0) in
  nth p (nth b (sum_weights_of (nbins edges) (cache_trees c)) []) 0 ==
  spec_weight hasw cr edges (nth p patches []) b.
Proof.
  intros Hi Hl Hv Hb Hp c.
  pose proof (cache_history_member hasw patches c0 hist force cr edges Hi Hl Hv) as [HL HP]. fold c in HL, HP.
  destruct (HP p Hp) as [k [t [E [_ [_ HB]]]]].
  unfold sum_weights_of, cache_trees. rewrite nth_map_seq by exact Hb. rewrite map_map.
  rewrite (nth_map_default _ c p None 0) by (rewrite HL; exact Hp).
  rewrite E. apply (HB b Hb).
Qed.

(* the statement has content: a build that trusts the binning stored with the FIRST patch keeps, after
   a rebuild that reached only that patch, the old closed side in the other patches; a redshift on
   an inner edge then sits in the wrong bin *)
Theorem cache_first_patch_refuted :
  exists patches hist edges,
    increasing edges /\ (2 <= length edges)%nat /\
    let k := Some (false, edges) in
    let pre := run_history true patches hist (cache_init (length patches)) in
    (* the interrupted rebuild: patch 0 rebuilt, patch 1 hit while written, patch 2 not reached *)
    map (option_map fst) pre = [Some k; None; Some (Some (true, edges))] /\
    nth 2 (cat_build_first true false k patches pre) None = Some (Some (true, edges), [(1%nat, 1); (0%nat, 0)]) /\
    nth 2 (cat_build true false k patches pre) None = Some (k, [(0%nat, 0); (1%nat, 1)]) /\
    spec_trees true false edges (nth 2 patches []) = [(0%nat, 0); (1%nat, 1)].
Proof.
  exists [[(1#2, 1)]; [(3#4, 1)]; [(1#2, 1)]],
         [HCatalog false (Some (true, [1#4; 1#2; 1])); HInterrupted 1 false (Some (false, [1#4; 1#2; 1]))],
         [1#4; 1#2; 1].
  split; [simpl; repeat split; reflexivity|]. split; [simpl; lia|].
  vm_compute. repeat split; reflexivity.
Qed.

(* ----- soundness of the checker ----- *)
Lemma code_from_zero w flags : (0 < w)%nat -> code_from w flags = 0%nat -> forallb (fun b : bool => b) flags = true.
Proof.
  revert w. induction flags as [|f r IH]; intros w Hw H; [reflexivity|].
  destruct f.
  - simpl. apply (IH (2 * w)%nat); [lia|]. exact H.
  - exfalso. change (code_from w (false :: r)) with (w + code_from (2 * w) r)%nat in H. lia.
Qed.

Lemma list_eqb_nth {A} (eqb : A -> A -> bool) l1 l2 d1 d2 :
  list_eqb eqb l1 l2 = true ->
  length l1 = length l2 /\ forall p, (p < length l1)%nat -> eqb (nth p l1 d1) (nth p l2 d2) = true.
Proof.
  revert l2. induction l1 as [|x l1 IH]; intros [|y l2] H; simpl in H; try discriminate.
  - split; [reflexivity|]. intros p Hp. simpl in Hp. lia.
  - apply andb_true_iff in H. destruct H as [Hxy H]. destruct (IH _ H) as [Hl Hn].
    split; [simpl; lia|]. intros [|p] Hp; simpl in *; [exact Hxy|apply Hn; lia].
Qed.

Theorem cache_case_sound hasw patches hist force cr edges obs_pre obs_post ih im :
  c10_cache_case hasw patches hist force (Some (cr, edges)) edges obs_pre obs_post ih im = 0%nat ->
  increasing edges /\ (2 <= length edges)%nat /\ length obs_post = length patches /\
  forall p, (p < length patches)%nat ->
    exists k t, nth p obs_post None = Some (k, t) /\ bkey_eqb k (Some (cr, edges)) = true /\
      forall b, (b < nbins edges)%nat ->
        fst (nth b t dummy_tree) = spec_count cr edges (nth p patches []) b /\
        snd (nth b t dummy_tree) == spec_weight hasw cr edges (nth p patches []) b.
Proof.
  unfold c10_cache_case. cbv zeta. intro H. apply code_from_zero in H; [|lia].
  cbn [forallb] in H. rewrite !andb_true_iff in H.
  destruct H as [_ [H1 [[H2 H2l] [_ [_ [_ [_ [_ [[[[[_ _] Hi] Hl] _] _]]]]]]]]].
  apply increasingb_spec in Hi. apply Nat.leb_le in Hl. apply Nat.eqb_eq in H2l.
  split; [exact Hi|]. split; [exact Hl|]. split; [exact H2l|].
  intros p Hp.
  destruct (list_eqb_nth _ _ _ None None H1) as [_ HN].
  assert (Hp' : (p < length (map entry_trees obs_post))%nat) by (rewrite map_length, H2l; exact Hp).
  specialize (HN p Hp').
  rewrite (nth_map_default entry_trees obs_post p None None) in HN by (rewrite H2l; exact Hp).
  rewrite (nth_map_default _ patches p [] None) in HN by exact Hp.
  rewrite forallb_forall in H2.
  assert (Hin : In (nth p obs_post None) obs_post) by (apply nth_In; rewrite H2l; exact Hp).
  specialize (H2 _ Hin).
  destruct (nth p obs_post None) as [[k t]|] eqn:E; simpl in H2; [|discriminate].
  exists k, t. split; [reflexivity|]. split; [exact H2|].
  intros b Hb. simpl in HN. unfold trees_eqb in HN.
  destruct (list_eqb_nth _ _ _ dummy_tree dummy_tree HN) as [HL HB].
  assert (Hlen : length (spec_trees hasw cr edges (nth p patches [])) = nbins edges)
    by (unfold spec_trees; rewrite map_length, seq_length; reflexivity).
  assert (Hb' : (b < length t)%nat) by (rewrite HL, Hlen; exact Hb).
  specialize (HB b Hb'). unfold spec_trees in HB. rewrite nth_map_seq in HB by exact Hb.
  unfold tree_eqb in HB. simpl in HB. apply andb_true_iff in HB. destruct HB as [Hf Hs].
  apply Nat.eqb_eq in Hf. apply Qeq_bool_iff in Hs. split; assumption.
Qed.

(* ================= extreme binnings: edges from segments, sparse observations ================= *)

(* ----- seg_edges is a valid binning with segs_count bins ----- *)
Lemma increasing_cons_all a l : increasing l -> (forall x, In x l -> a < x) -> increasing (a :: l).
Proof. intros Hl Ha. destruct l as [|b t]; simpl; [exact I|]. split; [apply Ha; left; reflexivity|exact Hl]. Qed.

Lemma increasing_in_gt a l x : increasing (a :: l) -> In x l -> a < x.
Proof.
  intros Hinc Hin. destruct (In_nth l x 0 Hin) as [j [Hj Hx]]. rewrite <- Hx.
  apply increasing_hd_lt; assumption.
Qed.

Lemma increasing_app l1 l2 :
  increasing l1 -> increasing l2 -> (forall x y, In x l1 -> In y l2 -> x < y) -> increasing (l1 ++ l2).
Proof.
  induction l1 as [|a l1 IH]; intros H1 H2 H12; [exact H2|].
  change ((a :: l1) ++ l2) with (a :: (l1 ++ l2)). apply increasing_cons_all.
  - apply IH; [eapply increasing_tail; exact H1|exact H2|].
    intros x y Hx Hy. apply H12; [right; exact Hx|exact Hy].
  - intros x Hx. apply in_app_or in Hx. destruct Hx as [Hx|Hx].
    + eapply increasing_in_gt; eassumption.
    + apply H12; [left; reflexivity|exact Hx].
Qed.

Lemma inject_Z_nonneg n : 0 <= inject_Z (Z.of_nat n).
Proof. unfold Qle, inject_Z; simpl. lia. Qed.

Lemma seg_run_length start step k n : length (seg_run start step k n) = n.
Proof. revert k. induction n as [|n IH]; intros k; simpl; [reflexivity|]. rewrite IH. reflexivity. Qed.

Lemma seg_run_props start step : 0 < step -> forall n k,
  increasing (seg_run start step k n) /\
  forall x, In x (seg_run start step k n) ->
    start + inject_Z k * step <= x /\ x <= start + (inject_Z k + inject_Z (Z.of_nat n) - 1) * step.
Proof.
  intros Hs. induction n as [|n IH]; intros k; [split; [exact I|intros x []]|].
  destruct (IH (k + 1)%Z) as [Hi Hb]. cbn [seg_run].
  assert (E1 : inject_Z (k + 1) == inject_Z k + 1) by (rewrite inject_Z_plus; reflexivity).
  assert (E2 : inject_Z (Z.of_nat (S n)) == inject_Z (Z.of_nat n) + 1).
  { rewrite Nat2Z.inj_succ. unfold Z.succ. rewrite inject_Z_plus. reflexivity. }
  pose proof (inject_Z_nonneg n) as Hn.
  assert (Hm : 0 <= inject_Z (Z.of_nat n) * step) by (apply Qmult_le_0_compat; [exact Hn|apply Qlt_le_weak; exact Hs]).
  split.
  - apply increasing_cons_all; [exact Hi|]. intros x Hx. destruct (Hb x Hx) as [Hlo _].
    rewrite E1 in Hlo. nra.
  - intros x [Hx|Hx].
    + rewrite <- Hx. rewrite E2. split; nra.
    + destruct (Hb x Hx) as [Hlo Hhi]. rewrite E1 in Hlo, Hhi. rewrite E2. split; nra.
Qed.

Lemma seg_edges_from_props segs : (forall s, In s segs -> 0 < fst s) -> forall start,
  increasing (seg_edges_from start segs) /\ forall x, In x (seg_edges_from start segs) -> start < x.
Proof.
  induction segs as [|[step n] r IH]; intros Hpos start; [split; [exact I|intros x []]|].
  assert (Hs : 0 < step) by (apply (Hpos (step, n)); left; reflexivity).
  assert (Hr : forall s, In s r -> 0 < fst s) by (intros s Hin; apply Hpos; right; exact Hin).
  cbn [seg_edges_from].
  set (start' := Qred (start + inject_Z (Z.of_nat n) * step)).
  assert (E : start' == start + inject_Z (Z.of_nat n) * step) by apply Qred_correct.
  destruct (IH Hr start') as [Hi Hgt]. destruct (seg_run_props start step Hs n 1%Z) as [Hri Hrb].
  pose proof (inject_Z_nonneg n) as Hn.
  assert (Hm : 0 <= inject_Z (Z.of_nat n) * step) by (apply Qmult_le_0_compat; [exact Hn|apply Qlt_le_weak; exact Hs]).
  change (inject_Z 1) with 1 in Hrb.
  split.
  - apply increasing_app; [exact Hri|exact Hi|]. intros x y Hx Hy.
    destruct (Hrb x Hx) as [_ Hhi]. specialize (Hgt y Hy). rewrite E in Hgt. nra.
  - intros x Hx. apply in_app_or in Hx. destruct Hx as [Hx|Hx].
    + destruct (Hrb x Hx) as [Hlo _]. nra.
    + specialize (Hgt x Hx). rewrite E in Hgt. nra.
Qed.

Lemma seg_edges_from_length segs start : length (seg_edges_from start segs) = segs_count segs.
Proof.
  revert start. induction segs as [|[step n] r IH]; intros start; [reflexivity|].
  cbn [seg_edges_from segs_count fold_right snd]. rewrite app_length, seg_run_length, IH. reflexivity.
Qed.

Theorem seg_edges_valid lo segs : segs_ok segs = true ->
  increasing (seg_edges lo segs) /\ (2 <= length (seg_edges lo segs))%nat /\
  nbins (seg_edges lo segs) = segs_count segs.
Proof.
  unfold segs_ok. rewrite andb_true_iff, forallb_forall, negb_true_iff, Nat.eqb_neq. intros [Hall Hne].
  assert (Hpos : forall s, In s segs -> 0 < fst s /\ (0 < snd s)%nat).
  { intros s Hin. specialize (Hall s Hin). apply andb_true_iff in Hall. destruct Hall as [H1 H2].
    apply Qltb_lt in H1. apply Nat.ltb_lt in H2. split; assumption. }
  destruct (seg_edges_from_props segs (fun s Hin => proj1 (Hpos s Hin)) lo) as [Hi Hgt].
  unfold seg_edges, nbins. cbn [length]. rewrite seg_edges_from_length. split; [|split].
  - apply increasing_cons_all; [exact Hi|]. intros x Hx. rewrite (Qred_correct lo). apply Hgt. exact Hx.
  - destruct segs as [|s r]; [exfalso; apply Hne; reflexivity|].
    destruct (Hpos s (or_introl eq_refl)) as [_ Hc]. cbn [segs_count fold_right]. lia.
  - lia.
Qed.

(* ----- the binary index and the chunked search are np.digitize ----- *)
Lemma digitize_z_eq cr edges z acc : digitize_z cr edges z acc = (acc + Z.of_nat (digitize cr edges z))%Z.
Proof.
  revert acc. induction edges as [|e r IH]; intros acc; simpl; [lia|].
  destruct (passb cr e z); [|lia]. rewrite IH. lia.
Qed.

Lemma digitize_z_app_stop cr c e t z acc :
  passb cr e z = false -> digitize_z cr (c ++ e :: t) z acc = digitize_z cr c z acc.
Proof.
  intros He. revert acc. induction c as [|x c IH]; intros acc; simpl; [rewrite He; reflexivity|].
  destruct (passb cr x z); [apply IH|reflexivity].
Qed.

Lemma digitize_z_app_all cr c t z acc :
  (forall x, In x c -> passb cr x z = true) ->
  digitize_z cr (c ++ t) z acc = digitize_z cr t z (acc + Z.of_nat (length c))%Z.
Proof.
  revert acc. induction c as [|x c IH]; intros acc Hall; simpl app.
  - simpl. f_equal. lia.
  - cbn [digitize_z]. rewrite (Hall x (or_introl eq_refl)). rewrite IH by (intros y Hy; apply Hall; right; exact Hy).
    f_equal. cbn [length]. lia.
Qed.

Lemma increasing_app_lt l1 l2 x y : increasing (l1 ++ l2) -> In x l1 -> In y l2 -> x < y.
Proof.
  induction l1 as [|a l1 IH]; intros Hinc Hx Hy; [destruct Hx|].
  change ((a :: l1) ++ l2) with (a :: (l1 ++ l2)) in Hinc. destruct Hx as [Hx|Hx].
  - subst a. eapply increasing_in_gt; [exact Hinc|]. apply in_or_app. right. exact Hy.
  - apply IH; [eapply increasing_tail; exact Hinc|exact Hx|exact Hy].
Qed.

Lemma digitize_ch_eq cr chunks z acc :
  increasing (concat chunks) -> digitize_ch cr chunks z acc = digitize_z cr (concat chunks) z acc.
Proof.
  revert acc. induction chunks as [|c r IH]; intros acc Hinc; [reflexivity|].
  cbn [digitize_ch]. destruct r as [|[|e' c'] r']; [reflexivity|reflexivity|].
  set (rest := (e' :: c') :: r') in *.
  assert (Ec : concat (c :: rest) = c ++ concat rest) by reflexivity.
  assert (Er : concat rest = e' :: (c' ++ concat r')) by reflexivity.
  destruct (passb cr e' z) eqn:He.
  - rewrite IH.
    + rewrite Ec. symmetry. apply digitize_z_app_all. intros x Hx.
      apply (passb_mono cr x e' z); [|exact He].
      rewrite Ec in Hinc. apply (increasing_app_lt c (concat rest)); [exact Hinc|exact Hx|].
      rewrite Er. left. reflexivity.
    + rewrite Ec in Hinc. clear -Hinc. induction c as [|a c IHc]; [exact Hinc|].
      apply IHc. eapply increasing_tail. exact Hinc.
  - rewrite Ec, Er. symmetry. apply digitize_z_app_stop. exact He.
Qed.

Lemma chunks_of_concat k l : forall i acc, concat (chunks_of k i acc l) = rev acc ++ l.
Proof.
  induction l as [|x r IH]; intros i acc.
  - cbn [chunks_of concat]. rewrite rev_append_rev, !app_nil_r. reflexivity.
  - cbn [chunks_of]. destruct i as [|i'].
    + cbn [concat]. rewrite IH, rev_append_rev, app_nil_r. reflexivity.
    + rewrite IH. cbn [rev]. rewrite <- app_assoc. reflexivity.
Qed.

Lemma ixz_eq cr edges objs k :
  increasing edges ->
  ixz cr (chunks_of k k [] edges) objs = map (fun o => Z.of_nat (digitize cr edges (oz o))) objs.
Proof.
  intros Hinc. unfold ixz. apply map_ext. intros o.
  rewrite digitize_ch_eq by (rewrite chunks_of_concat; exact Hinc).
  rewrite chunks_of_concat. cbn [rev app]. rewrite digitize_z_eq. reflexivity.
Qed.

Lemma group_z_eq (f : obj -> nat) objs i :
  group_z (map (fun o => Z.of_nat (f o)) objs) objs (Z.of_nat i) = filter (fun o => (f o =? i)%nat) objs.
Proof.
  unfold group_z. induction objs as [|o objs IH]; [reflexivity|].
  cbn [map combine filter fst].
  assert (E : (Z.of_nat (f o) =? Z.of_nat i)%Z = (f o =? i)%nat).
  { apply eq_true_iff_eq. rewrite Z.eqb_eq, Nat.eqb_eq. lia. }
  rewrite E. destruct (f o =? i)%nat; cbn [map snd]; rewrite IH; reflexivity.
Qed.

Lemma tree_z_eq hasw cr edges objs b :
  tree_z hasw (Z.of_nat (nbins edges)) (map (fun o => Z.of_nat (digitize cr edges (oz o))) objs) objs (Z.of_nat b) =
  get_tree hasw cr edges objs b.
Proof.
  unfold tree_z, get_tree.
  replace (Z.of_nat b + 1)%Z with (Z.of_nat (S b)) by lia.
  rewrite (group_z_eq (fun o => digitize cr edges (oz o)) objs (S b)). fold (group cr edges objs (S b)).
  assert (K : keep_z (Z.of_nat (nbins edges)) (Z.of_nat (S b)) = keep (nbins edges) (S b)).
  { unfold keep_z, keep.
    assert (A1 : (0 <? Z.of_nat (S b))%Z = (0 <? S b)%nat)
      by (apply eq_true_iff_eq; rewrite Z.ltb_lt, Nat.ltb_lt; lia).
    assert (A2 : (Z.of_nat (S b) <=? Z.of_nat (nbins edges))%Z = (S b <=? nbins edges)%nat)
      by (apply eq_true_iff_eq; rewrite Z.leb_le, Nat.leb_le; lia).
    rewrite A1, A2. reflexivity. }
  rewrite K. reflexivity.
Qed.

(* ----- sparse observations: the listed bins and the bins objects are sent to fix all bins ----- *)
Lemma zlookup_cases {A} (d : A) b s : zlookup d b s = d \/ In (b, zlookup d b s) s.
Proof.
  induction s as [|[k t] r IH]; [left; reflexivity|]. cbn [zlookup fst snd].
  destruct (k =? b)%Z eqn:E.
  - apply Z.eqb_eq in E. subst k. right. left. reflexivity.
  - destruct IH as [IH|IH]; [left; exact IH|right; right; exact IH].
Qed.

Lemma sparse_ok_sound {A} (eqb : A -> A -> bool) d f ix s b :
  sparse_ok eqb d f ix s = true -> eqb d d = true -> (~ In (b + 1)%Z ix -> f b = d) ->
  eqb (zlookup d b s) (f b) = true.
Proof.
  unfold sparse_ok. rewrite andb_true_iff, !forallb_forall. intros [H1 H2] Hd Hf.
  destruct (in_dec Z.eq_dec (b + 1)%Z ix) as [Hin|Hnin].
  - specialize (H2 _ Hin). replace (b + 1 - 1)%Z with b in H2 by lia. exact H2.
  - destruct (zlookup_cases d b s) as [E|Hin].
    + rewrite E, (Hf Hnin). exact Hd.
    + exact (H1 _ Hin).
Qed.

Lemma group_z_nil ix objs i : ~ In i ix -> group_z ix objs i = [].
Proof.
  unfold group_z. revert objs. induction ix as [|k ix IH]; intros objs Hn; [reflexivity|].
  destruct objs as [|o objs]; [reflexivity|]. cbn [combine filter fst].
  destruct (k =? i)%Z eqn:E.
  - apply Z.eqb_eq in E. exfalso. apply Hn. left. exact E.
  - apply IH. intros Hin. apply Hn. right. exact Hin.
Qed.

Lemma tree_z_absent hasw nb ix objs b : ~ In (b + 1)%Z ix -> tree_z hasw nb ix objs b = dummy_tree.
Proof. intros Hn. unfold tree_z. rewrite group_z_nil by exact Hn. reflexivity. Qed.

Lemma tree_eqb_spec (a b : tree) : tree_eqb a b = true -> fst a = fst b /\ snd a == snd b.
Proof.
  unfold tree_eqb. rewrite andb_true_iff, Nat.eqb_eq. intros [H1 H2]. split; [exact H1|].
  apply Qeq_bool_iff. exact H2.
Qed.

(* the trees of one patch *)
Lemma strees_ok_sound hasw cr edges objs k o :
  increasing edges -> (2 <= length edges)%nat ->
  strees_ok hasw (Z.of_nat (nbins edges)) (ixz cr (chunks_of k k [] edges) objs) objs o = true ->
  fst o = Z.of_nat (nbins edges) /\
  forall b, (b < nbins edges)%nat ->
    fst (zlookup dummy_tree (Z.of_nat b) (snd o)) = spec_count cr edges objs b /\
    snd (zlookup dummy_tree (Z.of_nat b) (snd o)) == spec_weight hasw cr edges objs b.
Proof.
  intros Hinc Hlen. unfold strees_ok. rewrite andb_true_iff, Z.eqb_eq. intros [Hn Hs].
  split; [exact Hn|]. intros b Hb. rewrite ixz_eq in Hs by exact Hinc.
  pose proof (sparse_ok_sound tree_eqb dummy_tree _ _ _ (Z.of_nat b) Hs eq_refl
                (tree_z_absent hasw _ _ objs (Z.of_nat b))) as H.
  rewrite tree_z_eq in H. apply tree_eqb_spec in H. destruct H as [Hf Hw].
  destruct (trees_partition hasw cr edges objs Hinc Hlen) as [_ [HP _]].
  destruct (HP b Hb) as [_ [_ [Pf Pw]]].
  unfold build_trees_fix in Pf, Pw. rewrite nth_map_seq in Pf, Pw by exact Hb.
  split; [rewrite Hf; exact Pf|rewrite Hw; exact Pw].
Qed.

(* per-bin weight sums of one set of objects (histogram of the catalog, one column of sum_weights) *)
Lemma swsums_ok_sound hasw cr edges objs k o :
  increasing edges -> (2 <= length edges)%nat ->
  swsums_ok hasw (Z.of_nat (nbins edges)) (ixz cr (chunks_of k k [] edges) objs) objs o = true ->
  fst o = Z.of_nat (nbins edges) /\
  forall b, (b < nbins edges)%nat -> zlookup 0 (Z.of_nat b) (snd o) == spec_weight hasw cr edges objs b.
Proof.
  intros Hinc Hlen. unfold swsums_ok. rewrite andb_true_iff, Z.eqb_eq. intros [Hn Hs].
  split; [exact Hn|]. intros b Hb. rewrite ixz_eq in Hs by exact Hinc.
  assert (Habs : ~ In (Z.of_nat b + 1)%Z (map (fun o0 => Z.of_nat (digitize cr edges (oz o0))) objs) ->
                 wsum_z hasw (Z.of_nat (nbins edges)) (map (fun o0 => Z.of_nat (digitize cr edges (oz o0))) objs) objs (Z.of_nat b) = 0).
  { intros Hnin. unfold wsum_z. rewrite tree_z_absent by exact Hnin. reflexivity. }
  pose proof (sparse_ok_sound Qeqb 0 _ _ _ (Z.of_nat b) Hs eq_refl Habs) as H.
  unfold wsum_z in H. rewrite tree_z_eq in H. apply Qeq_bool_iff in H.
  destruct (trees_partition hasw cr edges objs Hinc Hlen) as [_ [HP _]].
  destruct (HP b Hb) as [_ [_ [_ Pw]]].
  unfold build_trees_fix in Pw. rewrite nth_map_seq in Pw by exact Hb.
  rewrite H. exact Pw.
Qed.

Lemma ixz_concat cr chunks patches : concat (map (ixz cr chunks) patches) = ixz cr chunks (concat patches).
Proof. unfold ixz. rewrite <- concat_map. reflexivity. Qed.

Lemma all2b_nth {A B} (p : A -> B -> bool) l1 l2 d1 d2 :
  all2b p l1 l2 = true -> length l1 = length l2 /\ forall i, (i < length l2)%nat -> p (nth i l1 d1) (nth i l2 d2) = true.
Proof.
  unfold all2b. rewrite andb_true_iff, Nat.eqb_eq, forallb_forall. intros [Hl Hall].
  split; [exact Hl|]. intros i Hi.
  assert (Hin : In (nth i l1 d1, nth i l2 d2) (combine l1 l2)).
  { rewrite <- combine_nth by exact Hl. apply nth_In. rewrite combine_length. lia. }
  exact (Hall _ Hin).
Qed.

Lemma code7_zero a b c d e f g : code [a; b; c; d; e; f; g] = 0%nat ->
  a = true /\ b = true /\ c = true /\ d = true /\ e = true /\ f = true /\ g = true.
Proof. destruct a, b, c, d, e, f, g; vm_compute; intros H; try discriminate H; repeat split. Qed.

(* the checker the harness evaluates on every case of the 'large' family: code 0 means that ALL bins of the
   binning (those listed and the 10^5 that are not) hold, in every consumer, what the closed-side rule says *)
Theorem big_case_sound cr hasw lo segs nbz patches trees hist meas :
  c10_big_case cr hasw lo segs nbz patches trees hist meas = 0%nat ->
  let edges := seg_edges lo segs in
  increasing edges /\ (2 <= length edges)%nat /\ Z.of_nat (nbins edges) = nbz /\ nbins edges = segs_count segs /\
  length trees = length patches /\
  (forall p, (p < length patches)%nat ->
     exists s, nth p trees None = Some (nbz, s) /\
       forall b, (b < nbins edges)%nat ->
         fst (zlookup dummy_tree (Z.of_nat b) s) = spec_count cr edges (nth p patches []) b /\
         snd (zlookup dummy_tree (Z.of_nat b) s) == spec_weight hasw cr edges (nth p patches []) b) /\
  (exists s, hist = Some (nbz, s) /\
     forall b, (b < nbins edges)%nat -> zlookup 0 (Z.of_nat b) s == nth b (spec_hist hasw cr edges patches) 0) /\
  (forall m, meas = Some m -> length m = length patches /\
     forall p, (p < length patches)%nat ->
       exists s, nth p m (0%Z, []) = (nbz, s) /\
         forall b, (b < nbins edges)%nat ->
           zlookup 0 (Z.of_nat b) s == spec_weight hasw cr edges (nth p patches []) b).
Proof.
  unfold c10_big_case. cbv zeta. intro H. apply code7_zero in H.
  destruct H as [H0 [_ [H2 [_ [H4 [_ H6]]]]]].
  apply andb_true_iff in H6. destruct H6 as [Hsegs Hnb]. apply Z.eqb_eq in Hnb.
  destruct (seg_edges_valid lo segs Hsegs) as [Hinc [Hlen Hcount]].
  set (edges := seg_edges lo segs) in *.
  set (chunks := chunks_of chunk_size chunk_size [] edges) in *.
  assert (Lpix : length (combine (map (ixz cr chunks) patches) patches) = length patches)
    by (rewrite combine_length, map_length; lia).
  assert (Npix : forall p, (p < length patches)%nat ->
            nth p (combine (map (ixz cr chunks) patches) patches) ([], []) = (ixz cr chunks (nth p patches []), nth p patches [])).
  { intros p Hp. rewrite combine_nth by (rewrite map_length; reflexivity).
    rewrite (nth_map_default (ixz cr chunks) patches p [] []) by exact Hp. reflexivity. }
  split; [exact Hinc|]. split; [exact Hlen|]. split; [exact Hnb|]. split; [exact Hcount|].
  destruct (all2b_nth _ _ _ None ([], []) H0) as [L0 N0]. rewrite Lpix in L0, N0.
  split; [exact L0|]. split; [|split].
  - intros p Hp. specialize (N0 p Hp). rewrite (Npix p Hp) in N0. cbn [fst snd] in N0.
    destruct (nth p trees None) as [o|]; [|discriminate N0].
    destruct (strees_ok_sound hasw cr edges _ _ o Hinc Hlen N0) as [Hn Hb].
    exists (snd o). split; [rewrite <- Hnb, <- Hn; destruct o; reflexivity|exact Hb].
  - destruct hist as [o|]; [|discriminate H2]. rewrite ixz_concat in H2.
    destruct (swsums_ok_sound hasw cr edges _ _ o Hinc Hlen H2) as [Hn Hb].
    exists (snd o). split; [rewrite <- Hnb, <- Hn; destruct o; reflexivity|].
    intros b Hbb. rewrite (Hb b Hbb). unfold spec_hist. rewrite nth_map_seq by exact Hbb. reflexivity.
  - intros m Hm. subst meas.
    destruct (all2b_nth _ _ _ (0%Z, []) ([], []) H4) as [L4 N4]. rewrite Lpix in L4, N4.
    split; [exact L4|]. intros p Hp. specialize (N4 p Hp). rewrite (Npix p Hp) in N4. cbn [fst snd] in N4.
    destruct (swsums_ok_sound hasw cr edges _ _ _ Hinc Hlen N4) as [Hn Hb].
    exists (snd (nth p m (0%Z, []))). split; [rewrite <- Hnb, <- Hn; apply surjective_pairing|exact Hb].
Qed.
