From Verif Require Import Prelude Schedule.
From Coq Require Import Permutation.
Open Scope nat_scope.

Section KeyedP.
  Context {V : Type}.
  Implicit Types (rs : list (nat * V)) (st : @store V).

  Lemma run_writes_notin rs st q : ~ In q (map fst rs) -> run_writes rs st q = st q.
  Proof.
    unfold run_writes. revert st. induction rs as [|[k v] rs IH]; intros st H; simpl; [reflexivity|].
    rewrite IH by (intro C; apply H; right; exact C).
    unfold write; simpl. destruct (Nat.eqb_spec q k); [exfalso; apply H; left; auto|reflexivity].
  Qed.

  (* distinct keys: the value found under q is the one written for q *)
  Lemma run_writes_in rs st q v :
    NoDup (map fst rs) -> In (q, v) rs -> run_writes rs st q = Some v.
  Proof.
    unfold run_writes. revert st. induction rs as [|[k w] rs IH]; intros st Hnd Hin; simpl in *; [contradiction|].
    inversion Hnd as [|? ? Hk Hnd']; subst. destruct Hin as [E|Hin].
    - inversion E; subst. fold (run_writes rs (write st (q, v))).
      rewrite run_writes_notin by exact Hk. unfold write; simpl. rewrite Nat.eqb_refl. reflexivity.
    - apply IH; assumption.
  Qed.

  (* duplicate keys carrying equal values (a function of the key): same conclusion *)
  Lemma run_writes_fun rs st q (g : nat -> V) :
    (forall k v, In (k, v) rs -> v = g k) -> In q (map fst rs) -> run_writes rs st q = Some (g q).
  Proof.
    unfold run_writes. revert st. induction rs as [|[k w] rs IH]; intros st Hg Hin; simpl in *; [contradiction|].
    destruct (in_dec Nat.eq_dec q (map fst rs)) as [Hq|Hq].
    - apply IH; [intros; apply Hg; right; assumption|exact Hq].
    - fold (run_writes rs (write st (k, w))). rewrite run_writes_notin by exact Hq.
      destruct Hin as [E|Hin]; [|contradiction]. subst. unfold write; simpl. rewrite Nat.eqb_refl.
      f_equal. apply Hg. left. reflexivity.
  Qed.

  (* C05 core: keyed accumulation does not depend on the arrival order *)
  Theorem keyed_fold_perm rs rs' st :
    NoDup (map fst rs) -> Permutation rs rs' -> forall q, run_writes rs st q = run_writes rs' st q.
  Proof.
    intros Hnd Hp q.
    assert (Hnd' : NoDup (map fst rs')) by (eapply Permutation_NoDup; [apply Permutation_map; exact Hp|exact Hnd]).
    destruct (in_dec Nat.eq_dec q (map fst rs)) as [Hq|Hq].
    - apply in_map_iff in Hq as [[k v] [E Hin]]. simpl in E; subst k.
      rewrite (run_writes_in rs st q v Hnd Hin).
      symmetry. apply run_writes_in; [exact Hnd'|]. eapply Permutation_in; eassumption.
    - rewrite run_writes_notin by exact Hq. symmetry. apply run_writes_notin.
      intro C. apply Hq. eapply Permutation_in; [apply Permutation_sym, Permutation_map; exact Hp|exact C].
  Qed.

  Theorem keyed_fold_perm_fun rs rs' st (g : nat -> V) :
    (forall k v, In (k, v) rs -> v = g k) -> Permutation rs rs' ->
    forall q, run_writes rs st q = run_writes rs' st q.
  Proof.
    intros Hg Hp q.
    assert (Hg' : forall k v, In (k, v) rs' -> v = g k).
    { intros k v H. apply Hg. eapply Permutation_in; [apply Permutation_sym; exact Hp|exact H]. }
    destruct (in_dec Nat.eq_dec q (map fst rs)) as [Hq|Hq].
    - rewrite (run_writes_fun rs st q g Hg Hq). symmetry. apply run_writes_fun; [exact Hg'|].
      eapply Permutation_in; [apply Permutation_map; exact Hp|exact Hq].
    - rewrite run_writes_notin by exact Hq. symmetry. apply run_writes_notin.
      intro C. apply Hq. eapply Permutation_in; [apply Permutation_sym, Permutation_map; exact Hp|exact C].
  Qed.
End KeyedP.

(* count_pairs: cells are keyed by the patch pair, each pair is processed once
   (C01_pairs_once), the weight-sum columns are functions of the patch *)
Theorem count_pairs_schedule_free auto n (rs rs' : list ppc) (g1 g2 : nat -> list Q) :
  NoDup (map (fun r => pair_key n (id1 r) (id2 r)) rs) ->
  (forall r, In r rs -> sw1 r = g1 (id1 r) /\ sw2 r = g2 (id2 r)) ->
  Permutation rs rs' ->
  (forall q, consume_cells auto n rs q = consume_cells auto n rs' q) /\
  (forall q, consume_sw1 rs q = consume_sw1 rs' q) /\
  (forall q, consume_sw2 rs q = consume_sw2 rs' q).
Proof.
  intros Hnd Hsw Hp. unfold consume_cells, consume_sw1, consume_sw2. repeat split; intro q.
  - apply keyed_fold_perm; [rewrite map_map; simpl; exact Hnd|apply Permutation_map; exact Hp].
  - apply (keyed_fold_perm_fun _ _ _ g1); [|apply Permutation_map; exact Hp].
    intros k v H. apply in_map_iff in H as [r [E Hr]]. inversion E; subst. apply (Hsw r Hr).
  - apply (keyed_fold_perm_fun _ _ _ g2); [|apply Permutation_map; exact Hp].
    intros k v H. apply in_map_iff in H as [r [E Hr]]. inversion E; subst. apply (Hsw r Hr).
Qed.

(* load_patches: a dictionary keyed by distinct patch ids *)
Theorem load_patches_schedule_free {V} (ps ps' : list (nat * V)) :
  NoDup (map fst ps) -> Permutation ps ps' ->
  forall q, run_writes ps empty_store q = run_writes ps' empty_store q.
Proof. intros; apply keyed_fold_perm; assumption. Qed.

(* repaired histogram: rows keyed by the carried patch index *)
Theorem hist_rows_schedule_free n (arr arr' : list (nat * list Q)) :
  NoDup (map fst arr) -> Permutation arr arr' -> hist_rows_fix n arr = hist_rows_fix n arr'.
Proof.
  intros Hnd Hp. unfold hist_rows_fix. apply map_ext. intro q. apply keyed_fold_perm; assumption.
Qed.

(* pinned histogram: rows in arrival order depend on the schedule *)
Theorem hist_rows_arrival_refuted :
  exists (arr arr' : list (nat * list Q)),
    Permutation arr arr' /\ NoDup (map fst arr) /\ hist_rows_cur arr <> hist_rows_cur arr'.
Proof.
  exists [(0, [1%Q]); (1, [2%Q])], [(1, [2%Q]); (0, [1%Q])]. repeat split.
  - apply perm_swap.
  - repeat constructor; simpl; intuition discriminate.
  - unfold hist_rows_cur; simpl. intro H. inversion H.
Qed.
