From Verif Require Import Prelude Chunks ChunksP Writer.
From Coq Require Import Permutation Sorted.
Open Scope nat_scope.

Section WP.
  Context {A : Type}.
  Implicit Types (w : pw A) (c : cw A).

  (* what a writer holds in total: bytes on disk followed by the buffered shards *)
  Definition content w : list A := file w ++ concat (shards w).

  Lemma flush_content w : content (flush w) = content w.
  Proof.
    unfold flush, content. destruct (shards w) eqn:E; [rewrite E; reflexivity|].
    simpl. rewrite app_nil_r. reflexivity.
  Qed.
  Lemma flush_shards w : shards (flush w) = [].
  Proof. unfold flush. destruct (shards w) eqn:E; [exact E|reflexivity]. Qed.
  Lemma flush_processed w :
    processed w = length (file w) -> processed (flush w) = length (file (flush w)).
  Proof.
    unfold flush. destruct (shards w) eqn:E; [auto|]. simpl. intros ->. rewrite !app_length. reflexivity.
  Qed.

  Lemma process_chunk_content bs w d : content (process_chunk bs w d) = content w ++ d.
  Proof.
    unfold process_chunk.
    match goal with |- context [if ?b then _ else _] => destruct b end;
      [rewrite flush_content|]; unfold content; simpl; rewrite concat_app; simpl;
      rewrite app_nil_r, app_assoc; reflexivity.
  Qed.
  Lemma process_chunk_processed bs w d :
    processed w = length (file w) -> processed (process_chunk bs w d) = length (file (process_chunk bs w d)).
  Proof.
    intros H. unfold process_chunk.
    match goal with |- context [if ?b then _ else _] => destruct b end; [apply flush_processed|]; exact H.
  Qed.

  (* PatchWriter alone: any buffer size, any shard sequence *)
  Theorem writer_no_loss (bs : Z) (ds : list (list A)) :
    let w := close (fold_left (process_chunk bs) ds pw_init) in
    file w = concat ds /\ shards w = [] /\ processed w = length (concat ds).
  Proof.
    assert (G : forall ds w0, processed w0 = length (file w0) ->
       content (fold_left (process_chunk bs) ds w0) = content w0 ++ concat ds /\
       processed (fold_left (process_chunk bs) ds w0) = length (file (fold_left (process_chunk bs) ds w0))).
    { clear ds. induction ds as [|d ds IH]; intros w0 H0; simpl.
      - rewrite app_nil_r. auto.
      - destruct (IH (process_chunk bs w0 d) (process_chunk_processed bs w0 d H0)) as [E1 E2].
        rewrite E1, process_chunk_content, <- app_assoc. auto. }
    destruct (G ds pw_init eq_refl) as [E1 E2]. simpl.
    set (wf := fold_left (process_chunk bs) ds pw_init) in *.
    pose proof (flush_content wf) as Fc. pose proof (flush_shards wf) as Fs.
    pose proof (flush_processed wf E2) as Fp.
    unfold close. unfold content in Fc, E1. rewrite Fs in Fc. simpl in Fc. rewrite app_nil_r in Fc.
    simpl in E1. split; [congruence|]. split; [exact Fs|]. rewrite Fp. congruence.
  Qed.

  (* CatalogWriter: the content of writer p after a dictionary is its content plus the
     dictionary's entries for p (in order) *)
  Fixpoint entries (p : nat) (m : list (nat * list A)) : list A :=
    match m with
    | [] => []
    | (k, v) :: r => if k =? p then v ++ entries p r else entries p r
    end.

  Lemma process_patches_content bs m : forall c p,
    content (writers (process_patches bs c m) p) = content (writers c p) ++ entries p m.
  Proof.
    unfold process_patches. induction m as [|[k v] m IH]; intros c p; simpl.
    - rewrite app_nil_r. reflexivity.
    - rewrite IH. simpl. unfold upd. rewrite Nat.eqb_sym.
      destruct (Nat.eqb_spec k p) as [->|Hne].
      + rewrite process_chunk_content, <- app_assoc. reflexivity.
      + reflexivity.
  Qed.

  Lemma fold_process_content bs ms : forall c p,
    content (writers (fold_left (process_patches bs) ms c) p) =
    content (writers c p) ++ concat (map (entries p) ms).
  Proof.
    induction ms as [|m ms IH]; intros c p; simpl.
    - rewrite app_nil_r. reflexivity.
    - rewrite IH, process_patches_content, <- app_assoc. reflexivity.
  Qed.

  Theorem catalog_writer_no_loss bs ms p :
    stored (run_writer bs ms) p = concat (map (entries p) ms).
  Proof.
    unfold stored, run_writer, finalize. simpl. unfold close.
    pose proof (flush_content (writers (fold_left (process_patches bs) ms cw_init) p)) as Fc.
    pose proof (flush_shards (writers (fold_left (process_patches bs) ms cw_init) p)) as Fs.
    rewrite fold_process_content in Fc. unfold content in Fc at 1. rewrite Fs in Fc.
    simpl in Fc. rewrite app_nil_r in Fc. exact Fc.
  Qed.

  (* entries of a groupby dictionary = the elements with that key; keys are distinct so the
     first match is the only one *)
  Lemma entries_map p (F : nat -> list A) ks :
    NoDup ks ->
    entries p (map (fun k => (k, F k)) ks) = if existsb (fun k => k =? p) ks then F p else [].
  Proof.
    induction 1 as [|k ks Hk Hnd IH]; simpl; [reflexivity|].
    destruct (Nat.eqb_spec k p) as [->|Hne]; simpl.
    - rewrite IH. destruct (existsb (fun k => k =? p) ks) eqn:E; [|apply app_nil_r].
      exfalso. apply existsb_exists in E as [x [Hx Hxp]]. apply Nat.eqb_eq in Hxp. subst. contradiction.
    - exact IH.
  Qed.

  Lemma insert_key_SS k l : StronglySorted lt l -> StronglySorted lt (insert_key k l).
  Proof.
    induction 1 as [|y l Hss IH Hall]; simpl.
    - constructor; constructor.
    - destruct (Nat.ltb_spec k y) as [Hlt|Hge].
      + constructor; [constructor; assumption|]. constructor; [exact Hlt|].
        eapply Forall_impl; [|exact Hall]. intros a Ha. simpl in Ha. lia.
      + destruct (Nat.eqb_spec k y) as [->|Hne]; [constructor; assumption|].
        constructor; [exact IH|]. apply Forall_forall. intros x Hx.
        apply insert_key_in in Hx as [->|Hx]; [lia|].
        apply (proj1 (Forall_forall _ _) Hall x Hx).
  Qed.

  Lemma sorted_keys_SS ks : StronglySorted lt (sorted_keys ks).
  Proof. induction ks as [|k ks IH]; simpl; [constructor|]. apply insert_key_SS. exact IH. Qed.

  Lemma SS_NoDup l : StronglySorted lt l -> NoDup l.
  Proof.
    induction 1 as [|y l Hss IH Hall]; constructor; [|exact IH].
    intro Hin. pose proof (proj1 (Forall_forall _ _) Hall y Hin). lia.
  Qed.

  Theorem entries_groupby (key : A -> nat) p (l : list A) :
    entries p (groupby key l) = filter (fun x => key x =? p) l.
  Proof.
    unfold groupby. rewrite entries_map by (apply SS_NoDup, sorted_keys_SS).
    pose proof (lookup_groupby key p l) as L. unfold groupby in L. rewrite lookup_map in L. exact L.
  Qed.

  Lemma filter_concat (f : A -> bool) (ls : list (list A)) :
    filter f (concat ls) = concat (map (filter f) ls).
  Proof. induction ls as [|l ls IH]; simpl; [reflexivity|]. rewrite filter_app, IH. reflexivity. Qed.

  (* identity schedule: what is stored for patch p is exactly the sub-list of the input with
     key p, for every chunk size, worker count and buffer size *)
  Lemma messages_entries (key : A -> nat) cs workers (input : list A) p :
    1 <= cs -> 1 <= workers ->
    concat (map (entries p) (messages key cs workers input)) = filter (fun x => key x =? p) input.
  Proof.
    intros Hcs Hw. unfold messages.
    rewrite <- (chunks_concat cs input Hcs) at 2.
    rewrite filter_concat. generalize (chunks cs input) as cks. intros cks.
    induction cks as [|c cks IH]; simpl; [reflexivity|].
    rewrite map_app, concat_app, IH. f_equal.
    rewrite <- (array_split_concat workers c Hw) at 2.
    rewrite filter_concat, map_map. f_equal.
    apply map_ext. intros s. apply entries_groupby.
  Qed.

  Lemma messages_seq_entries (key : A -> nat) cs (input : list A) p :
    1 <= cs ->
    concat (map (entries p) (messages_seq key cs input)) = filter (fun x => key x =? p) input.
  Proof.
    intros Hcs. unfold messages_seq.
    rewrite <- (chunks_concat cs input Hcs) at 2.
    rewrite filter_concat, map_map. f_equal. apply map_ext. intros s. apply entries_groupby.
  Qed.

  Lemma concat_map_perm {B} (f : B -> list A) l1 l2 :
    Permutation l1 l2 -> Permutation (concat (map f l1)) (concat (map f l2)).
  Proof.
    induction 1; simpl.
    - constructor.
    - apply Permutation_app_head. assumption.
    - rewrite !app_assoc. apply Permutation_app_tail. apply Permutation_app_comm.
    - etransitivity; eassumption.
  Qed.

  (* C02 core: for EVERY order pi in which the per-split dictionaries reach the writer
     (= every scheduling of the workers), every chunk size >= 1, every worker count >= 1 and
     every buffer size (any integer), each patch stores exactly the records assigned to it *)
  Theorem pipeline_any_schedule (key : A -> nat) cs workers (bs : Z) (input : list A) pi p :
    1 <= cs -> 1 <= workers ->
    Permutation pi (messages key cs workers input) ->
    Permutation (stored (run_writer bs pi) p) (filter (fun x => key x =? p) input).
  Proof.
    intros Hcs Hw Hpi. rewrite catalog_writer_no_loss.
    rewrite <- (messages_entries key cs workers input p Hcs Hw).
    apply concat_map_perm. exact Hpi.
  Qed.

  Theorem pipeline_sequential (key : A -> nat) cs (bs : Z) (input : list A) p :
    1 <= cs ->
    stored (run_writer bs (messages_seq key cs input)) p = filter (fun x => key x =? p) input.
  Proof. intros Hcs. rewrite catalog_writer_no_loss. apply messages_seq_entries. exact Hcs. Qed.

  (* every record is stored in exactly one patch: the per-patch lists over all keys that
     occur form a permutation of the input *)
  Lemma filter_partition (key : A -> nat) (ks : list nat) (input : list A) :
    NoDup ks -> (forall x, In x input -> In (key x) ks) ->
    Permutation (concat (map (fun p => filter (fun x => key x =? p) input) ks)) input.
  Proof.
    intros Hnd. revert input. induction Hnd as [|k ks Hk Hnd IH]; intros input Hin; simpl.
    - destruct input as [|x input]; [constructor|]. destruct (Hin x (or_introl eq_refl)).
    - (* split input into key = k and key <> k *)
      assert (E : forall l, (forall x, In x l -> key x <> k) ->
                  map (fun p => filter (fun x => key x =? p) input) ks =
                  map (fun p => filter (fun x => key x =? p) (filter (fun x => negb (key x =? k)) input)) ks).
      { intros _ _. apply map_ext_in. intros p Hp.
        induction input as [|x input IHi]; simpl; [reflexivity|].
        destruct (Nat.eqb_spec (key x) k) as [Hxk|Hxk]; simpl.
        - destruct (Nat.eqb_spec (key x) p) as [Hxp|Hxp]; [exfalso; apply Hk; congruence|].
          apply IHi. intros y Hy. apply Hin. right. exact Hy.
        - destruct (Nat.eqb_spec (key x) p); [f_equal|]; apply IHi; intros y Hy; apply Hin; right; exact Hy. }
      rewrite (E [] (fun _ F => match F with end)).
      rewrite IH.
      + clear. induction input as [|x input IHi]; simpl; [constructor|].
        destruct (key x =? k); simpl; [constructor; exact IHi|].
        apply Permutation_sym, Permutation_cons_app, Permutation_sym. exact IHi.
      + intros x Hx. apply filter_In in Hx as [Hx Hne].
        destruct (Hin x Hx) as [Hxk|Hxk]; [|exact Hxk].
        rewrite <- Hxk, Nat.eqb_refl in Hne. discriminate.
  Qed.
End WP.

(* ---------- patch-mode precedence and independence of the execution ---------- *)
Section ModeP.
  Context {A : Type}.
  Implicit Types (near : option (A -> nat)) (input chunk : list (A * option nat)).

  (* what patch p is to hold: the records whose deciding key is p, index column dropped *)
  Definition selected near (p : nat) input : list A :=
    map fst (filter (fun r => mode_key near r =? p) input).

  Lemma entries_drop_column p (g : list (nat * list (A * option nat))) :
    entries p (map (fun kv => (fst kv, map fst (snd kv))) g) = map fst (entries p g).
  Proof.
    induction g as [|[k v] g IH]; simpl; [reflexivity|].
    destruct (k =? p); [rewrite map_app, IH|]; auto.
  Qed.

  Lemma filter_map_fst (f : A -> bool) chunk :
    filter f (map fst chunk) = map fst (filter (fun r => f (fst r)) chunk).
  Proof.
    induction chunk as [|r l IH]; simpl; [reflexivity|].
    destruct (f (fst r)); simpl; rewrite IH; reflexivity.
  Qed.

  (* split_into_patches gives patch p exactly the selected records of the chunk, in order *)
  Lemma split_rows_entries near p chunk : entries p (split_rows near chunk) = selected near p chunk.
  Proof.
    unfold split_rows, selected. destruct near as [f|]; simpl.
    - rewrite entries_groupby, filter_map_fst. reflexivity.
    - rewrite entries_drop_column, entries_groupby. reflexivity.
  Qed.

  Lemma selected_concat near p (ls : list (list (A * option nat))) :
    selected near p (concat ls) = concat (map (selected near p) ls).
  Proof.
    unfold selected. induction ls as [|l ls IH]; simpl; [reflexivity|].
    rewrite filter_app, map_app, IH. reflexivity.
  Qed.

  Lemma messages_mode_entries near cs workers input p :
    1 <= cs -> 1 <= workers ->
    concat (map (entries p) (messages_mode near cs workers input)) = selected near p input.
  Proof.
    intros Hcs Hw. unfold messages_mode.
    rewrite <- (chunks_concat cs input Hcs) at 2.
    rewrite selected_concat. generalize (chunks cs input) as cks. intros cks.
    induction cks as [|c cks IH]; simpl; [reflexivity|].
    rewrite map_app, concat_app, IH. f_equal.
    rewrite <- (array_split_concat workers c Hw) at 2.
    rewrite selected_concat, map_map. f_equal.
    apply map_ext. intros s. apply split_rows_entries.
  Qed.

  Lemma messages_mode_seq_entries near cs input p :
    1 <= cs ->
    concat (map (entries p) (messages_mode_seq near cs input)) = selected near p input.
  Proof.
    intros Hcs. unfold messages_mode_seq.
    rewrite <- (chunks_concat cs input Hcs) at 2.
    rewrite selected_concat, map_map. f_equal. apply map_ext. intros s. apply split_rows_entries.
  Qed.

  (* every execution (sequential, or a pool of any size delivering in any order), any chunk size,
     any buffer size: patch p stores the records selected by the deciding key *)
  Theorem execution_stores_selected near cs workers (bs : Z) input pi p :
    1 <= cs -> is_execution near cs workers input pi ->
    Permutation (stored (run_writer bs pi) p) (selected near p input).
  Proof.
    intros Hcs Hex. rewrite catalog_writer_no_loss. destruct workers as [|w]; simpl in Hex.
    - subst pi. rewrite messages_mode_seq_entries by exact Hcs. apply Permutation_refl.
    - rewrite <- (messages_mode_entries near cs (S w) input p Hcs) by lia.
      apply concat_map_perm. exact Hex.
  Qed.

  (* the per-patch multisets do not depend on chunk size, buffer size, number of workers or
     the delivery order: any two executions of the same call on the same input agree *)
  Theorem executions_agree near cs cs' workers workers' (bs bs' : Z) input pi pi' p :
    1 <= cs -> 1 <= cs' ->
    is_execution near cs workers input pi -> is_execution near cs' workers' input pi' ->
    Permutation (stored (run_writer bs pi) p) (stored (run_writer bs' pi') p).
  Proof.
    intros Hcs Hcs' H H'.
    etransitivity; [apply (execution_stores_selected near cs workers bs input pi p Hcs H)|].
    apply Permutation_sym. apply (execution_stores_selected near cs' workers' bs' input pi' p Hcs' H').
  Qed.

  (* documented precedence: with centres the nearest centre decides, whatever the index column
     holds and whether or not there is one *)
  Theorem centres_take_precedence (f : A -> nat) cs workers (bs : Z) input pi p :
    1 <= cs -> is_execution (Some f) cs workers input pi ->
    Permutation (stored (run_writer bs pi) p) (filter (fun x => f x =? p) (map fst input)).
  Proof.
    intros Hcs Hex. rewrite filter_map_fst.
    apply (execution_stores_selected (Some f) cs workers bs input pi p Hcs Hex).
  Qed.

  (* ... so that replacing or removing the index column changes nothing *)
  Theorem index_column_ignored_with_centres (f : A -> nat) cs cs' workers workers' (bs bs' : Z)
          input input' pi pi' p :
    1 <= cs -> 1 <= cs' -> map fst input = map fst input' ->
    is_execution (Some f) cs workers input pi -> is_execution (Some f) cs' workers' input' pi' ->
    Permutation (stored (run_writer bs pi) p) (stored (run_writer bs' pi') p).
  Proof.
    intros Hcs Hcs' E H H'.
    etransitivity; [apply (centres_take_precedence f cs workers bs input pi p Hcs H)|].
    rewrite E. apply Permutation_sym. apply (centres_take_precedence f cs' workers' bs' input' pi' p Hcs' H').
  Qed.

  (* without centres the index column names the patch *)
  Theorem index_column_names_patch (col : A -> nat) cs workers (bs : Z) (xs : list A) pi p :
    1 <= cs -> is_execution None cs workers (map (fun x => (x, Some (col x))) xs) pi ->
    Permutation (stored (run_writer bs pi) p) (filter (fun x => col x =? p) xs).
  Proof.
    intros Hcs Hex.
    pose proof (execution_stores_selected None cs workers bs _ pi p Hcs Hex) as H.
    eapply Permutation_trans; [exact H|]. clear H Hex.
    unfold selected. induction xs as [|x xs IH]; simpl; [constructor|].
    unfold col_key at 1. simpl. destruct (col x =? p); simpl; [constructor|]; exact IH.
  Qed.
End ModeP.
