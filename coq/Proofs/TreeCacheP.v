From Coq Require Import Qround.
From Verif Require Import Prelude TreeCache.
Open Scope Q_scope.

(* ---------- the reuse decision is sound: equal binnings have the same trees ---------- *)
Lemma qlist_eqb_canon e1 e2 : qlist_eqb e1 e2 = true -> map Qred e1 = map Qred e2.
Proof.
  unfold qlist_eqb. revert e2. induction e1 as [|x e1 IH]; intros [|y e2]; simpl; try discriminate.
  - reflexivity.
  - intros H. apply andb_true_iff in H as [Hx He]. unfold Qeqb in Hx.
    apply Qeq_bool_iff in Hx. apply Qred_complete in Hx. rewrite Hx, (IH e2 He). reflexivity.
Qed.

Lemma binning_eqb_canon b1 b2 : binning_eqb b1 b2 = true -> canon b1 = canon b2.
Proof.
  unfold binning_eqb, canon. intros H. apply andb_true_iff in H as [He Hc].
  apply qlist_eqb_canon in He. apply Bool.eqb_prop in Hc. rewrite He, Hc. reflexivity.
Qed.

(* a reuse decision is sound when it only accepts a stored binning whose trees are the requested ones *)
Definition sound (eq : obinning -> obinning -> bool) : Prop :=
  forall stored req, eq stored req = true -> built_for stored = built_for req.

Lemma binning_equal_sound : sound binning_equal.
Proof.
  intros [b1|] [b2|]; simpl; try discriminate; [|reflexivity].
  intros H. unfold built_for. simpl. rewrite (binning_eqb_canon b1 b2 H). reflexivity.
Qed.

(* ---------- the file codec ---------- *)
Lemma valid_edges_nonempty e : valid_edges e = true -> e <> [].
Proof. intros H ->. discriminate. Qed.

Lemma binning_codec_roundtrip_nonempty (b : obinning) :
  match b with Some ([], _) => False | _ => True end -> decode (encode b) = b.
Proof.
  destruct b as [[e c]|]; simpl; [|reflexivity].
  destruct e as [|x e]; [intros []|]. intros _. unfold decode. simpl. destruct c; reflexivity.
Qed.

Theorem binning_codec_roundtrip (b : obinning) : valid_ob b = true -> decode (encode b) = b.
Proof.
  intros H. apply binning_codec_roundtrip_nonempty.
  destruct b as [[[|x e] c]|]; simpl in *; [discriminate|exact I|exact I].
Qed.

(* a file without edges is read as "unbinned", whatever its first byte *)
Lemma decode_empty_unbinned byte : decode (byte, []) = None.
Proof. reflexivity. Qed.

(* ---------- the invariant ---------- *)
Definition Inv (s : st) : Prop := forall b, bfile s = Some b -> tfile s = built_for b.

Lemma inv_fresh : Inv s_fresh.
Proof. intros b H. discriminate. Qed.

Lemma rebuild_inv b s : valid_ob b = true -> Inv (rebuild b s).
Proof.
  intros Hv b' H. unfold rebuild, write_binning, write_trees in *. simpl in *.
  rewrite (binning_codec_roundtrip b Hv) in H. injection H as <-. reflexivity.
Qed.

Lemma rebuild_trees b s : trees_used (rebuild b s) = built_for b.
Proof. reflexivity. Qed.

Section AnyDecision.
  Context (eq : obinning -> obinning -> bool).

  Lemma build_with_preserves_inv b force s :
    valid_ob b = true -> Inv s -> Inv (build_with eq b force s).
  Proof.
    intros Hv HI. unfold build_with. destruct force; [apply rebuild_inv; exact Hv|].
    destruct (bfile s) as [stored|] eqn:E; [|apply rebuild_inv; exact Hv].
    destruct (eq stored b); [exact HI|apply rebuild_inv; exact Hv].
  Qed.

  Lemma step_with_preserves_inv s o : Inv s -> Inv (step_with eq s o).
  Proof.
    intros HI. destruct o as [b f|c r|]; unfold step_with; [| |exact HI].
    - destruct (valid_ob b) eqn:Hv; [apply build_with_preserves_inv; assumption|exact HI].
    - destruct (valid_edges (c_edges c)) eqn:Hv; [|exact HI].
      apply build_with_preserves_inv; [|exact HI]. destruct r; simpl; [exact Hv|reflexivity].
  Qed.

  Lemma run_with_preserves_inv h : forall s, Inv s -> Inv (run_with eq h s).
  Proof.
    unfold run_with. induction h as [|o h IH]; intros s HI; simpl; [exact HI|].
    apply IH. apply step_with_preserves_inv. exact HI.
  Qed.

  (* with a sound reuse decision an (unforced or forced) build leaves exactly the trees of the
     requested binning, whatever the cache held before *)
  Lemma build_with_trees b force s :
    sound eq -> Inv s -> trees_used (build_with eq b force s) = built_for b.
  Proof.
    intros Hs HI. unfold build_with. destruct force; [apply rebuild_trees|].
    destruct (bfile s) as [stored|] eqn:E; [|apply rebuild_trees].
    destruct (eq stored b) eqn:Heq; [|apply rebuild_trees].
    unfold trees_used. rewrite (HI stored E). apply Hs. exact Heq.
  Qed.

  Lemma run_with_app h1 h2 s : run_with eq (h1 ++ h2) s = run_with eq h2 (run_with eq h1 s).
  Proof. unfold run_with. apply fold_left_app. Qed.

  Theorem history_independent_with :
    sound eq -> forall h b s0, valid_ob b = true -> Inv s0 ->
    trees_used (run_with eq (h ++ [Build b false]) s0) = built_for b.
  Proof.
    intros Hs h b s0 Hv HI. rewrite run_with_app. unfold run_with at 1. cbn [fold_left step_with]. rewrite Hv.
    apply build_with_trees; [exact Hs|]. apply run_with_preserves_inv. exact HI.
  Qed.
End AnyDecision.

(* ---------- the implemented decision ---------- *)
Theorem build_preserves_inv b force s : valid_ob b = true -> Inv s -> Inv (build b force s).
Proof. apply build_with_preserves_inv. Qed.

Theorem step_preserves_inv s o : Inv s -> Inv (step s o).
Proof. apply step_with_preserves_inv. Qed.

Theorem run_preserves_inv h s : Inv s -> Inv (run h s).
Proof. apply run_with_preserves_inv. Qed.

(* C07 core: after ANY finite history of builds (any edges, bin counts, closed sides, binned or
   unbinned, forced or not, invalid requests that raise), measurements and reopenings, the
   unforced build that a measurement performs leaves the trees of the requested binning *)
Theorem history_independent h b s0 :
  valid_ob b = true -> Inv s0 -> trees_used (run (h ++ [Build b false]) s0) = built_for b.
Proof. apply history_independent_with. exact binning_equal_sound. Qed.

(* ... which are the trees obtained on a freshly created cache (or on any other consistent cache) *)
Corollary history_independent_fresh h b s0 :
  valid_ob b = true -> Inv s0 ->
  trees_used (run (h ++ [Build b false]) s0) = trees_used (run [Build b false] s_fresh).
Proof.
  intros Hv HI. rewrite (history_independent h b s0 Hv HI).
  symmetry. apply (history_independent [] b s_fresh Hv inv_fresh).
Qed.

(* the same, phrased for the operation a measurement is: any role, any valid configuration *)
Corollary measurement_history_independent h c r s0 :
  valid_edges (c_edges c) = true -> Inv s0 ->
  trees_used (run (h ++ [Measure c r]) s0) = built_for (role_binning c r) /\
  trees_used (run (h ++ [Measure c r]) s0) = trees_used (run [Measure c r] s_fresh).
Proof.
  intros Hv HI.
  assert (G : forall h s, Inv s -> trees_used (run (h ++ [Measure c r]) s) = built_for (role_binning c r)).
  { intros h' s Hs. unfold run. rewrite run_with_app. unfold run_with at 1. cbn [fold_left step_with]. rewrite Hv.
    apply build_with_trees; [exact binning_equal_sound|]. apply run_with_preserves_inv. exact Hs. }
  split; [apply G; exact HI|]. rewrite (G h s0 HI). symmetry. apply (G [] s_fresh inv_fresh).
Qed.

(* the scales of a configuration never reach the cache *)
Lemma scales_irrelevant e cl sc1 sc2 r s :
  step s (Measure {| c_edges := e; c_closed := cl; c_scales := sc1 |} r) =
  step s (Measure {| c_edges := e; c_closed := cl; c_scales := sc2 |} r).
Proof. destruct r; reflexivity. Qed.

(* forcing changes which files are rewritten, never which trees are used afterwards *)
Lemma force_irrelevant b s :
  Inv s -> trees_used (build b true s) = trees_used (build b false s).
Proof.
  intros HI. unfold build. rewrite !build_with_trees by (exact binning_equal_sound || exact HI). reflexivity.
Qed.

(* after a build the binning file denotes the requested binning *)
Lemma build_bfile b force s :
  valid_ob b = true ->
  exists b', bfile (build b force s) = Some b' /\ binning_equal b' b = true.
Proof.
  intros Hv.
  assert (R : exists b', bfile (rebuild b s) = Some b' /\ binning_equal b' b = true).
  { exists b. split; [simpl; rewrite (binning_codec_roundtrip b Hv); reflexivity|].
    destruct b as [[e c]|]; simpl; [|reflexivity]. unfold binning_eqb. simpl.
    rewrite Bool.eqb_reflx, andb_true_r. apply list_eqb_refl. intros x. apply Qeq_bool_iff. reflexivity. }
  unfold build, build_with. destruct force; [exact R|].
  destruct (bfile s) as [stored|] eqn:E; [|exact R].
  destruct (binning_equal stored b) eqn:Heq; [|exact R].
  exists stored. split; [exact E|exact Heq].
Qed.

(* ---------- the tag determines what can be observed of the trees ---------- *)
Lemma Qleb_compat x x' y y' : x == x' -> y == y' -> Qleb x y = Qleb x' y'.
Proof.
  intros Hx Hy. apply Bool.eq_true_iff_eq. unfold Qleb. rewrite !Qle_bool_iff, Hx, Hy. reflexivity.
Qed.
Lemma Qltb_compat x x' y y' : x == x' -> y == y' -> Qltb x y = Qltb x' y'.
Proof. intros Hx Hy. unfold Qltb. f_equal. apply Qleb_compat; assumption. Qed.

Lemma in_bin_red c lo hi z : in_bin c (Qred lo) (Qred hi) z = in_bin c lo hi z.
Proof.
  unfold in_bin. destruct c.
  - rewrite (Qleb_compat (Qred lo) lo z z), (Qltb_compat z z (Qred hi) hi);
      try reflexivity; apply Qred_correct.
  - rewrite (Qltb_compat (Qred lo) lo z z), (Qleb_compat z z (Qred hi) hi);
      try reflexivity; apply Qred_correct.
Qed.

Lemma bin_counts_canon c e zs : bin_counts c (map Qred e) zs = bin_counts c e zs.
Proof.
  induction e as [|lo [|hi r] IH]; simpl; try reflexivity.
  simpl in IH. rewrite IH. f_equal. unfold count_if. f_equal.
  apply filter_ext. intros z. apply in_bin_red.
Qed.

Theorem tree_counts_canon b zs :
  tree_counts (option_map canon b) zs = tree_counts b zs.
Proof.
  destruct b as [[e c]|]; simpl; [|reflexivity]. rewrite bin_counts_canon. reflexivity.
Qed.

(* ---------- the invariant is not vacuous: a decision that forgets an attribute breaks it ---------- *)
Definition e12 : list Q := [1; 2].

(* forgetting the closed side: build [1,2) then ask for (1,2] -> the left-closed trees are used;
   a record with z = 1 is in the bin of the stale trees and outside the bin of the right ones *)
Theorem binning_equal_ignoring_closed_unsound :
  exists h b, valid_ob b = true /\ Inv s_fresh /\
    trees_used (run_with binning_equal_ignoring_closed (h ++ [Build b false]) s_fresh) <> built_for b /\
    exists zs, option_map (fun t => tree_counts t zs)
                 (trees_used (run_with binning_equal_ignoring_closed (h ++ [Build b false]) s_fresh))
               <> Some (tree_counts b zs).
Proof.
  exists [Build (Some (e12, true)) false], (Some (e12, false)).
  split; [reflexivity|]. split; [exact inv_fresh|]. split.
  - vm_compute. discriminate.
  - exists [1]. vm_compute. discriminate.
Qed.

(* comparing only the number of edges: [1,2] then [1,3/2], same closed side *)
Theorem binning_equal_len_only_unsound :
  exists h b, valid_ob b = true /\ Inv s_fresh /\
    trees_used (run_with binning_equal_len_only (h ++ [Build b false]) s_fresh) <> built_for b /\
    exists zs, option_map (fun t => tree_counts t zs)
                 (trees_used (run_with binning_equal_len_only (h ++ [Build b false]) s_fresh))
               <> Some (tree_counts b zs).
Proof.
  exists [Build (Some (e12, false)) false], (Some ([1; 3 # 2], false)).
  split; [reflexivity|]. split; [exact inv_fresh|]. split.
  - vm_compute. discriminate.
  - exists [2]. vm_compute. discriminate.
Qed.

(* neither broken decision is sound, so history_independent_with does not apply to them *)
Lemma ignoring_closed_not_sound : ~ sound binning_equal_ignoring_closed.
Proof.
  intros H. specialize (H (Some (e12, true)) (Some (e12, false)) eq_refl). vm_compute in H. discriminate.
Qed.

(* ---------- catalogs: a vector of per-patch states ---------- *)
Lemma nth_error_upd_nth {A} (f : A -> A) : forall (l : list A) q p,
  nth_error (upd_nth q f l) p = option_map (fun x => if (q =? p)%nat then f x else x) (nth_error l p).
Proof.
  induction l as [|x l IH]; intros q p; simpl.
  - destruct p; reflexivity.
  - destruct q as [|q], p as [|p]; simpl; try reflexivity.
    + destruct (nth_error l p); reflexivity.
    + apply IH.
Qed.

Lemma upd_nth_length {A} (f : A -> A) : forall (l : list A) q, length (upd_nth q f l) = length l.
Proof. induction l as [|x l IH]; intros [|q]; simpl; try reflexivity. rewrite IH. reflexivity. Qed.

Section AnyDecisionC.
  Context (eq : obinning -> obinning -> bool).

  (* every patch goes through its own projection of a catalog-level operation *)
  Lemma cstep_with_nth cs o p :
    nth_error (cstep_with eq cs o) p = option_map (fun s => step_with eq s (proj p o)) (nth_error cs p).
  Proof.
    destruct o as [o|q b f]; unfold cstep_with, proj.
    - apply nth_error_map.
    - rewrite nth_error_upd_nth. destruct (nth_error cs p) as [s|]; [|reflexivity]. simpl.
      destruct (q =? p)%nat; reflexivity.
  Qed.

  Lemma crun_with_nth h : forall cs p,
    nth_error (crun_with eq h cs) p = option_map (run_with eq (map (proj p) h)) (nth_error cs p).
  Proof.
    unfold crun_with, run_with. induction h as [|o h IH]; intros cs p; simpl.
    - destruct (nth_error cs p); reflexivity.
    - rewrite IH, cstep_with_nth. destruct (nth_error cs p); reflexivity.
  Qed.

  Lemma cstep_with_length cs o : length (cstep_with eq cs o) = length cs.
  Proof. destruct o; simpl; [apply map_length|apply upd_nth_length]. Qed.

  Lemma crun_with_length h : forall cs, length (crun_with eq h cs) = length cs.
  Proof.
    unfold crun_with. induction h as [|o h IH]; intros cs; simpl; [reflexivity|].
    rewrite IH. apply cstep_with_length.
  Qed.

  Lemma crun_with_preserves_inv h cs : Forall Inv cs -> Forall Inv (crun_with eq h cs).
  Proof.
    intros HI. apply Forall_forall. intros s Hin. apply In_nth_error in Hin as [p Hp].
    rewrite crun_with_nth in Hp. destruct (nth_error cs p) as [s0|] eqn:E; [|discriminate].
    simpl in Hp. injection Hp as <-. apply run_with_preserves_inv.
    apply (proj1 (Forall_forall _ _) HI). eapply nth_error_In. exact E.
  Qed.

  (* after ANY catalog-level history, including builds of single patches that leave the patches
     of one catalog with trees for DIFFERENT binnings, a catalog-wide unforced request [o]
     (a build or a measurement) leaves in EVERY patch the trees of the requested binning *)
  Lemma catalog_request_with o b :
    sound eq -> (forall s, step_with eq s o = build_with eq b false s) ->
    forall h cs, Forall Inv cs ->
    Forall (fun s => trees_used s = built_for b) (crun_with eq (h ++ [All o]) cs).
  Proof.
    intros Hs Hstep h cs HI. apply Forall_forall. intros s Hin.
    apply In_nth_error in Hin as [p Hp]. rewrite crun_with_nth in Hp.
    destruct (nth_error cs p) as [s0|] eqn:E; [|discriminate]. simpl in Hp. injection Hp as <-.
    rewrite map_app, run_with_app. simpl map. unfold run_with at 1. cbn [fold_left].
    rewrite Hstep.
    apply build_with_trees; [exact Hs|]. apply run_with_preserves_inv.
    apply (proj1 (Forall_forall _ _) HI). eapply nth_error_In. exact E.
  Qed.

  Theorem catalog_history_independent_with :
    sound eq -> forall h b cs, valid_ob b = true -> Forall Inv cs ->
    Forall (fun s => trees_used s = built_for b) (crun_with eq (h ++ [All (Build b false)]) cs).
  Proof.
    intros Hs h b cs Hv HI. apply (catalog_request_with (Build b false) b Hs); [|exact HI].
    intros s. unfold step_with. rewrite Hv. reflexivity.
  Qed.
End AnyDecisionC.

Theorem crun_nth h cs p :
  nth_error (crun h cs) p = option_map (run (map (proj p) h)) (nth_error cs p).
Proof. apply crun_with_nth. Qed.

Theorem crun_length h cs : length (crun h cs) = length cs.
Proof. apply crun_with_length. Qed.

Theorem crun_preserves_inv h cs : Forall Inv cs -> Forall Inv (crun h cs).
Proof. apply crun_with_preserves_inv. Qed.

Lemma inv_c_fresh n : Forall Inv (c_fresh n).
Proof. apply Forall_forall. intros s H. apply repeat_spec in H. subst. exact inv_fresh. Qed.

Theorem catalog_history_independent h b cs :
  valid_ob b = true -> Forall Inv cs ->
  Forall (fun s => trees_used s = built_for b) (crun (h ++ [All (Build b false)]) cs).
Proof. apply catalog_history_independent_with. exact binning_equal_sound. Qed.

Theorem catalog_measurement_history_independent h c r cs :
  valid_edges (c_edges c) = true -> Forall Inv cs ->
  Forall (fun s => trees_used s = built_for (role_binning c r)) (crun (h ++ [All (Measure c r)]) cs).
Proof.
  intros Hv HI.
  apply (catalog_request_with binning_equal (Measure c r) (role_binning c r) binning_equal_sound);
    [| exact HI].
  intros s. unfold step_with. rewrite Hv. reflexivity.
Qed.

Lemma map_const_repeat {A B} (f : A -> B) c (l : list A) :
  Forall (fun x => f x = c) l -> map f l = repeat c (length l).
Proof. induction 1 as [|x l Hx _ IH]; simpl; [reflexivity|]. rewrite Hx, IH. reflexivity. Qed.

(* ... patch by patch the trees of a freshly created catalog cache with as many patches *)
Corollary catalog_history_independent_fresh h b cs :
  valid_ob b = true -> Forall Inv cs ->
  map trees_used (crun (h ++ [All (Build b false)]) cs) =
  map trees_used (crun [All (Build b false)] (c_fresh (length cs))).
Proof.
  intros Hv HI.
  rewrite (map_const_repeat trees_used (built_for b) _ (catalog_history_independent h b cs Hv HI)).
  pose proof (catalog_history_independent [] b (c_fresh (length cs)) Hv (inv_c_fresh _)) as F.
  simpl app in F. rewrite (map_const_repeat trees_used (built_for b) _ F).
  rewrite !crun_length. unfold c_fresh. rewrite repeat_length. reflexivity.
Qed.

(* not vacuous at catalog level: the first-patch shortcut.  Both patches hold (1,2]; patch 0 alone
   is rebuilt for (1,3/2]; the catalog-wide unforced build for (1,3/2] then sees a matching first
   patch and leaves patch 1 with the trees for (1,2] (a record at z = 2 is in the stale bin only) *)
Theorem first_patch_shortcut_unsound :
  exists h b cs, valid_ob b = true /\ Forall Inv cs /\
    exists s, In s (fold_left cstep_first_patch_shortcut (h ++ [All (Build b false)]) cs) /\
      trees_used s <> built_for b /\
      exists zs, option_map (fun t => tree_counts t zs) (trees_used s) <> Some (tree_counts b zs).
Proof.
  exists [All (Build (Some (e12, false)) false); One 0 (Some ([1; 3 # 2], false)) false],
         (Some ([1; 3 # 2], false)), (c_fresh 2).
  split; [reflexivity|]. split; [apply inv_c_fresh|].
  eexists. split; [vm_compute; right; left; reflexivity|]. split.
  - vm_compute. discriminate.
  - exists [2]. vm_compute. discriminate.
Qed.

(* ---------- processes: who executes a step, what a process remembers ---------- *)
Lemma prun_app pol h a ps : prun pol (h ++ [a]) ps = pstep pol (fst (prun pol h ps)) a.
Proof. unfold prun. rewrite fold_left_app. reflexivity. Qed.

Lemma pstep_disk pol ps a : disk (fst (pstep pol ps a)) = step (disk ps) (erase a).
Proof. destruct a as [x o|]; reflexivity. Qed.

(* the files evolve as in the unlabelled history: neither the executor of a step nor the memory
   policy reaches the cache directory *)
Lemma prun_disk_gen pol h : forall ps g,
  disk (fst (fold_left (fun acc a => pstep pol (fst acc) a) h (ps, g))) = run (map erase h) (disk ps).
Proof.
  induction h as [|a h IH]; intros ps g; [reflexivity|].
  cbn [fold_left map fst]. destruct (pstep pol ps a) as [ps' g'] eqn:E. rewrite IH.
  replace (disk ps') with (step (disk ps) (erase a)) by (rewrite <- pstep_disk with (pol := pol), E; reflexivity).
  reflexivity.
Qed.

Theorem prun_disk pol h ps : disk (fst (prun pol h ps)) = run (map erase h) (disk ps).
Proof. apply prun_disk_gen. Qed.

Lemma load_nomemo m s : load NoMemo m s = match bfile s with None => None | Some _ => tfile s end.
Proof. unfold load. destruct (bfile s), m; reflexivity. Qed.

Lemma role_binning_valid c r : valid_edges (c_edges c) = true -> valid_ob (role_binning c r) = true.
Proof. intros Hv. destruct r; simpl; [exact Hv|reflexivity]. Qed.

Lemma measure_step c r s :
  valid_edges (c_edges c) = true -> step s (Measure c r) = build (role_binning c r) false s.
Proof. intros Hv. unfold step, step_with. rewrite Hv. reflexivity. Qed.

(* after the unforced build of a measurement the cache holds a binning file and the requested trees *)
Lemma measure_step_files c r s :
  valid_edges (c_edges c) = true -> Inv s ->
  (exists b', bfile (step s (Measure c r)) = Some b') /\
  tfile (step s (Measure c r)) = built_for (role_binning c r).
Proof.
  intros Hv HI. rewrite (measure_step c r s Hv). split.
  - destruct (build_bfile (role_binning c r) false s (role_binning_valid c r Hv)) as [b' [Hb _]].
    exists b'. exact Hb.
  - apply (build_with_trees binning_equal (role_binning c r) false s binning_equal_sound HI).
Qed.

Lemma rebuilds_false_step s o : rebuilds s o = false -> step s o = s.
Proof.
  unfold rebuilds, step, step_with, op_request. destruct o as [b f|c r|]; [| |reflexivity].
  - destruct (valid_ob b); [|reflexivity]. unfold build_with. destruct f; [discriminate|].
    destruct (bfile s) as [stored|]; [|discriminate].
    destruct (binning_equal stored b); [reflexivity|discriminate].
  - destruct (valid_edges (c_edges c)); [|reflexivity]. unfold build_with.
    destruct (bfile s) as [stored|]; [|discriminate].
    destruct (binning_equal stored (role_binning c r)); [reflexivity|discriminate].
Qed.

(* what the measuring process holds in memory is what the trees file holds *)
Definition PInv (ps : pst) : Prop :=
  Inv (disk ps) /\ forall t, mem ps = Some t -> tfile (disk ps) = Some t.

Lemma pinv_fresh : PInv p_fresh.
Proof. split; [exact inv_fresh|]. intros t H. discriminate. Qed.

Lemma keep_load_pinv pol m s :
  (forall t, m = Some t -> tfile s = Some t) ->
  forall t, keep pol (load pol m s) m = Some t -> tfile s = Some t.
Proof.
  intros Hm t. unfold keep, load. destruct pol; [discriminate|].
  destruct (bfile s) as [b|]; [|apply Hm].
  destruct m as [t0|].
  - intros H. injection H as <-. apply Hm. reflexivity.
  - destruct (tfile s) as [t1|]; [intros H; exact H|discriminate].
Qed.

(* a step executed by the measuring process itself keeps memory and files together *)
Lemma pstep_self_pinv pol ps a :
  match a with Do Self _ | Peek => True | _ => False end -> PInv ps -> PInv (fst (pstep pol ps a)).
Proof.
  intros Ha [HI Hm]. destruct a as [x o|].
  - destruct x; try contradiction. unfold pstep. cbn [fst disk mem]. split.
    + apply step_preserves_inv. exact HI.
    + destruct (rebuilds (disk ps) o) eqn:R.
      * destruct (reads o); [apply keep_load_pinv; discriminate|]. destruct pol; discriminate.
      * rewrite (rebuilds_false_step _ _ R).
        destruct (reads o); [apply keep_load_pinv; exact Hm|]. destruct pol; [discriminate|exact Hm].
  - unfold pstep. cbn [fst disk mem]. split; [exact HI|]. apply keep_load_pinv. exact Hm.
Qed.

(* a step executed by forked processes leaves the parent's memory as it was *)
Lemma pstep_forked_mem pol ps x o : x <> Self -> mem (fst (pstep pol ps (Do x o))) = mem ps.
Proof. intros Hx. destruct x; [contradiction| |]; reflexivity. Qed.

(* the measurement step itself: with memory and files together it works with the requested trees
   unless a pool's counting workers inherit something (they inherit nothing when mem = None) *)
Lemma measure_used pol q x c r :
  valid_edges (c_edges c) = true -> PInv q -> (x = Pool -> mem q = None) ->
  snd (pstep pol q (Do x (Measure c r))) = built_for (role_binning c r).
Proof.
  intros Hv [HI Hm] Hx. unfold pstep. cbn [snd]. unfold reads. rewrite Hv.
  destruct (measure_step_files c r (disk q) Hv HI) as [[b' Hb] Ht].
  assert (L : forall m, (forall t, m = Some t -> tfile (step (disk q) (Measure c r)) = Some t) ->
              load pol m (step (disk q) (Measure c r)) = built_for (role_binning c r)).
  { intros m Hm'. unfold load. rewrite Hb. destruct pol; [destruct m; exact Ht|].
    destruct m as [t|]; [|exact Ht]. rewrite <- Ht. symmetry. apply Hm'. reflexivity. }
  assert (L1 : forall t, (if rebuilds (disk q) (Measure c r) then None else mem q) = Some t ->
               tfile (step (disk q) (Measure c r)) = Some t).
  { intros t. destruct (rebuilds (disk q) (Measure c r)) eqn:R; [discriminate|].
    rewrite (rebuilds_false_step _ _ R). apply Hm. }
  destruct x; [apply L; exact L1| |apply L; exact L1].
  apply L. rewrite (Hx eq_refl). discriminate.
Qed.

(* C07 for the code's policy (nothing kept in memory): whoever executed the earlier steps and
   whoever executes the measurement, it works with the trees of the requested binning *)
Theorem process_independent h x c r ps :
  valid_edges (c_edges c) = true -> Inv (disk ps) ->
  pused NoMemo (h ++ [Do x (Measure c r)]) ps = built_for (role_binning c r).
Proof.
  intros Hv HI. unfold pused. rewrite prun_app.
  set (q := fst (prun NoMemo h ps)).
  assert (HIq : Inv (disk q)) by (unfold q; rewrite prun_disk; apply run_preserves_inv; exact HI).
  unfold pstep. cbn [snd]. unfold reads. rewrite Hv, load_nomemo.
  destruct (measure_step_files c r (disk q) Hv HIq) as [[b' Hb] Ht]. rewrite Hb. exact Ht.
Qed.

(* ... which are the trees the same measurement works with on a freshly created cache, executed
   by the measuring process itself *)
Corollary process_independent_fresh h x c r ps :
  valid_edges (c_edges c) = true -> Inv (disk ps) ->
  pused NoMemo (h ++ [Do x (Measure c r)]) ps = pused NoMemo [Do Self (Measure c r)] p_fresh.
Proof.
  intros Hv HI. rewrite (process_independent h x c r ps Hv HI).
  symmetry. apply (process_independent [] Self c r p_fresh Hv inv_fresh).
Qed.

(* a peek of the measuring process returns the trees file, after any labelled history *)
Theorem peek_nomemo h ps :
  pused NoMemo (h ++ [Peek]) ps =
  match bfile (run (map erase h) (disk ps)) with
  | None => None
  | Some _ => tfile (run (map erase h) (disk ps))
  end.
Proof. unfold pused. rewrite prun_app. unfold pstep. cbn [snd]. rewrite load_nomemo, prun_disk. reflexivity. Qed.

(* keeping the unpickled trees in memory is harmless as long as ONE process executes everything *)
Lemma prun_self_pinv pol h : forall ps, all_self h = true -> PInv ps -> PInv (fst (prun pol h ps)).
Proof.
  induction h as [|a h IH] using rev_ind; intros ps Ha HP; [exact HP|].
  rewrite prun_app. unfold all_self in Ha. rewrite forallb_app in Ha. apply andb_true_iff in Ha as [Hh Ha].
  simpl in Ha. rewrite andb_true_r in Ha. apply pstep_self_pinv; [|apply IH; assumption].
  destruct a as [[| |] o|]; try discriminate; exact I.
Qed.

Theorem memo_same_process_sound h c r ps :
  all_self h = true -> valid_edges (c_edges c) = true -> PInv ps ->
  pused MemoOwnInvalidate (h ++ [Do Self (Measure c r)]) ps = built_for (role_binning c r).
Proof.
  intros Ha Hv HP. unfold pused. rewrite prun_app.
  apply measure_used; [exact Hv|apply prun_self_pinv; assumption|discriminate].
Qed.

(* ... and as long as the measuring process never executes anything itself *)
Lemma prun_forked_mem pol h : forall ps, all_forked h = true -> mem (fst (prun pol h ps)) = mem ps.
Proof.
  induction h as [|a h IH] using rev_ind; intros ps Ha; [reflexivity|].
  rewrite prun_app. unfold all_forked in Ha. rewrite forallb_app in Ha. apply andb_true_iff in Ha as [Hh Ha].
  simpl in Ha. rewrite andb_true_r in Ha.
  destruct a as [[| |] o|]; try discriminate; (rewrite pstep_forked_mem by discriminate); apply IH; exact Hh.
Qed.

Theorem memo_all_forked_sound h x c r ps :
  all_forked h = true -> valid_edges (c_edges c) = true -> Inv (disk ps) -> mem ps = None ->
  pused MemoOwnInvalidate (h ++ [Do x (Measure c r)]) ps = built_for (role_binning c r).
Proof.
  intros Ha Hv HI Hm. unfold pused. rewrite prun_app.
  assert (M : mem (fst (prun MemoOwnInvalidate h ps)) = None) by (rewrite prun_forked_mem; assumption).
  apply measure_used; [exact Hv| |intros _; exact M].
  split; [rewrite prun_disk; apply run_preserves_inv; exact HI|]. rewrite M. discriminate.
Qed.

(* but it is refuted by histories that MIX executors.  (1,2] by the measuring process, then (1,3/2]
   by a child process (which rebuilds and forgets ITS copy), then (1,3/2] by the measuring process:
   no rebuild, nothing forgotten, the pairs are counted on the trees for (1,2]; a record at z = 2
   is in the stale bin only *)
Definition cfg_12 : cfg := {| c_edges := e12; c_closed := false; c_scales := [] |}.
Definition cfg_132 : cfg := {| c_edges := [1; 3 # 2]; c_closed := false; c_scales := [] |}.

Theorem memo_own_invalidate_refuted :
  exists h x c r, valid_edges (c_edges c) = true /\ PInv p_fresh /\
    pused MemoOwnInvalidate (h ++ [Do x (Measure c r)]) p_fresh <> built_for (role_binning c r) /\
    exists zs, option_map (fun t => tree_counts t zs) (pused MemoOwnInvalidate (h ++ [Do x (Measure c r)]) p_fresh)
               <> Some (tree_counts (role_binning c r) zs).
Proof.
  exists [Do Self (Measure cfg_12 Reference); Do Child (Measure cfg_132 Reference)], Self, cfg_132, Reference.
  split; [reflexivity|]. split; [exact pinv_fresh|]. split.
  - vm_compute. discriminate.
  - exists [2]. vm_compute. discriminate.
Qed.

(* two steps suffice when the second one uses a pool: its building workers rebuild, its counting
   workers are forked from the measuring process and inherit the trees for (1,2] *)
Theorem memo_own_invalidate_refuted_in_pool :
  exists h c r, valid_edges (c_edges c) = true /\ PInv p_fresh /\
    pused MemoOwnInvalidate (h ++ [Do Pool (Measure c r)]) p_fresh <> built_for (role_binning c r) /\
    exists zs, option_map (fun t => tree_counts t zs) (pused MemoOwnInvalidate (h ++ [Do Pool (Measure c r)]) p_fresh)
               <> Some (tree_counts (role_binning c r) zs).
Proof.
  exists [Do Self (Measure cfg_12 Reference)], cfg_132, Reference.
  split; [reflexivity|]. split; [exact pinv_fresh|]. split.
  - vm_compute. discriminate.
  - exists [2]. vm_compute. discriminate.
Qed.

(* the same policy also serves a stale peek: build (1,2], peek, forced rebuild for (1,3/2] by a child, peek *)
Theorem memo_own_invalidate_stale_peek :
  exists h zs, option_map (fun t => tree_counts t zs) (pused MemoOwnInvalidate (h ++ [Peek]) p_fresh)
               <> option_map (fun t => tree_counts t zs) (pused NoMemo (h ++ [Peek]) p_fresh).
Proof.
  exists [Do Self (Build (Some (e12, false)) false); Peek; Do Child (Build (Some ([1; 3 # 2], false)) true)], [2].
  vm_compute. discriminate.
Qed.

(* ---------- patch metadata: written once, read back by every reopening ---------- *)
Lemma mstep_file {M} (s : @mst M) o : mfile (mstep s o) = mfile s.
Proof. destruct o as [[| |]|]; reflexivity. Qed.

Lemma mrun_file {M} h (s : @mst M) : mfile (mrun h s) = mfile s.
Proof.
  revert s. induction h as [|o h IH]; intros s; [reflexivity|].
  unfold mrun in *. simpl. rewrite IH. apply mstep_file.
Qed.

Lemma mrun_obj {M} h (s : @mst M) :
  mobj (mrun h s) = if existsb is_reopen h then mfile s else mobj s.
Proof.
  revert s. induction h as [|o h IH]; intros s; [reflexivity|].
  unfold mrun in *. simpl. rewrite IH.
  destruct o as [[| |]|]; simpl; try reflexivity.
  destruct (existsb is_reopen h); reflexivity.
Qed.

Theorem meta_after_history {M} (enc : M -> M) h ms :
  mobj (mrun h (m_create enc ms)) = if existsb is_reopen h then map enc ms else ms.
Proof. rewrite mrun_obj. reflexivity. Qed.

(* a writer that reproduces the values of this catalog: the object in use after ANY history holds
   what the creating object computed from the records *)
Theorem meta_history_independent {M} (enc : M -> M) h ms :
  (forall m, In m ms -> enc m = m) -> mobj (mrun h (m_create enc ms)) = ms.
Proof.
  intros H. rewrite meta_after_history. destruct (existsb is_reopen h); [|reflexivity].
  rewrite (map_ext_in enc (fun m => m) ms H). apply map_id.
Qed.

Lemma mstates_length {M} h (s : @mst M) : length (mstates h s) = length h.
Proof. revert s. induction h as [|o h IH]; intros s; simpl; [reflexivity|]. rewrite IH. reflexivity. Qed.

(* ---------- the patch linkage skips only patch pairs without counted pairs ---------- *)
Section LinkageP.
  Context {P : Type} (d : P -> P -> Q) (counted : P -> P -> bool) (th : Q).
  Context (d_sym : forall a b, d a b == d b a)
          (d_tri : forall a b c, d a c <= d a b + d b c)
          (counted_close : forall p q, counted p q = true -> d p q <= th).

  Lemma linked_complete a b pa pb p q :
    covers d a pa -> covers d b pb -> In p pa -> In q pb -> counted p q = true ->
    linked d th a b = true.
  Proof.
    intros Ha Hb Hp Hq Hc. unfold linked, Qleb. apply Qle_bool_iff.
    specialize (Ha p Hp). specialize (Hb q Hq). apply counted_close in Hc.
    eapply Qle_trans; [apply (d_tri _ p _)|].
    eapply Qle_trans; [apply Qplus_le_r; apply (d_tri _ q _)|].
    rewrite (d_sym q (fst b)).
    setoid_replace (snd a + snd b + th) with (snd a + (th + snd b)) by ring.
    apply Qplus_le_compat; [exact Ha|]. apply Qplus_le_compat; assumption.
  Qed.

  Lemma count_if_none {A} (f : A -> bool) l : (forall x, In x l -> f x = false) -> count_if f l = O.
  Proof.
    unfold count_if. induction l as [|x l IH]; intros H; simpl; [reflexivity|].
    rewrite (H x (or_introl eq_refl)). apply IH. intros y Hy. apply H. right. exact Hy.
  Qed.

  Lemma pairs_unlinked a b pa pb :
    covers d a pa -> covers d b pb -> linked d th a b = false -> pairs counted pa pb = O.
  Proof.
    intros Ha Hb Hl. unfold pairs.
    assert (H : forall p, In p pa -> count_if (counted p) pb = O).
    { intros p Hp. apply count_if_none. intros q Hq.
      destruct (counted p q) eqn:Hc; [|reflexivity].
      rewrite (linked_complete a b pa pb p q Ha Hb Hp Hq Hc) in Hl. discriminate. }
    clear Ha. induction pa as [|p pa IH]; simpl; [reflexivity|].
    rewrite (H p (or_introl eq_refl)). simpl. apply IH. intros p' Hp'. apply H. right. exact Hp'.
  Qed.

  (* radii that contain the records: visiting the linked patch pairs only counts every pair *)
  Theorem count_linked_all ms c1 c2 :
    covers_all d ms c1 -> covers_all d ms c2 ->
    count_linked d counted th ms c1 c2 = count_all counted ms c1 c2.
  Proof.
    intros H1 H2. unfold count_linked, count_all, count_with, covers_all in *.
    rewrite Forall_forall in H1, H2.
    f_equal. apply map_ext_in. intros x Hx. f_equal. apply map_ext_in. intros y Hy.
    destruct (linked d th (fst x) (fst y)) eqn:Hl; [reflexivity|].
    symmetry. apply (pairs_unlinked (fst x) (fst y)); auto.
  Qed.

  Lemma map_snd_combine_len {A B C} (l1 : list A) (l2 : list B) (c : list C) :
    length l1 = length l2 -> map snd (combine l1 c) = map snd (combine l2 c).
  Proof.
    revert l2 c. induction l1 as [|x l1 IH]; intros [|y l2] c H; simpl in *; try discriminate; [reflexivity|].
    destruct c as [|z c]; simpl; [reflexivity|]. f_equal. apply IH. congruence.
  Qed.

  Lemma count_all_length ms ms' c1 c2 :
    length ms = length ms' -> count_all counted ms c1 c2 = count_all counted ms' c1 c2.
  Proof.
    intros H. unfold count_all, count_with.
    assert (E : forall m,
      list_sum (map (fun x : pmeta P * list P =>
                  list_sum (map (fun y : pmeta P * list P => pairs counted (snd x) (snd y)) (combine m c2)))
                 (combine m c1)) =
      list_sum (map (fun pa => list_sum (map (fun pb => pairs counted pa pb) (map snd (combine m c2))))
                    (map snd (combine m c1)))).
    { intros m. rewrite map_map. f_equal. apply map_ext. intros x. rewrite map_map. reflexivity. }
    rewrite (E ms), (E ms').
    rewrite (map_snd_combine_len ms ms' c1 H), (map_snd_combine_len ms ms' c2 H). reflexivity.
  Qed.

  (* two descriptions of the same patches that both contain the records give the same counts *)
  Theorem count_linked_any_cover ms ms' c1 c2 :
    length ms = length ms' ->
    covers_all d ms c1 -> covers_all d ms c2 -> covers_all d ms' c1 -> covers_all d ms' c2 ->
    count_linked d counted th ms c1 c2 = count_linked d counted th ms' c1 c2.
  Proof.
    intros L A1 A2 B1 B2. rewrite (count_linked_all ms), (count_linked_all ms') by assumption.
    apply count_all_length. exact L.
  Qed.

  (* the counts of a measurement after ANY history (reopenings included) are those of the creating
     object, (a) when the writer reproduces the values ... *)
  Theorem linked_counts_history_independent enc h ms c1 c2 :
    (forall m, In m ms -> enc m = m) ->
    count_linked d counted th (mobj (mrun h (m_create enc ms))) c1 c2 = count_linked d counted th ms c1 c2.
  Proof. intros H. rewrite (meta_history_independent enc h ms H). reflexivity. Qed.

  (* ... (b) or when what it writes still contains the records (e.g. radii rounded UP) *)
  Theorem linked_counts_history_independent_cover enc h ms c1 c2 :
    covers_all d ms c1 -> covers_all d ms c2 ->
    covers_all d (map enc ms) c1 -> covers_all d (map enc ms) c2 ->
    count_linked d counted th (mobj (mrun h (m_create enc ms))) c1 c2 = count_linked d counted th ms c1 c2.
  Proof.
    intros A1 A2 B1 B2. rewrite meta_after_history. destruct (existsb is_reopen h); [|reflexivity].
    apply count_linked_any_cover; try assumption. apply map_length.
  Qed.
End LinkageP.

(* ---------- the line as an instance; writers that round ---------- *)
Lemma dline_sym a b : dline a b == dline b a.
Proof. unfold dline. rewrite (Qabs_Qminus a b). apply Qeq_refl. Qed.

Lemma dline_tri a b c : dline a c <= dline a b + dline b c.
Proof.
  unfold dline. setoid_replace (a - c) with ((a - b) + (b - c)) by ring. apply Qabs_triangle.
Qed.

Definition close_line (th : Q) (p q : Q) : bool := Qleb (dline p q) th.
Lemma close_line_close th p q : close_line th p q = true -> dline p q <= th.
Proof. unfold close_line, Qleb. apply Qle_bool_iff. Qed.

Lemma round_up_ge k r : r <= Qceiling (r * (Zpos k # 1)) # k.
Proof.
  rewrite (Qmake_Qdiv (Qceiling (r * (Zpos k # 1))) k).
  assert (Hk : 0 < inject_Z (Zpos k)) by reflexivity.
  apply Qle_shift_div_l; [exact Hk|]. apply Qle_ceiling.
Qed.

Lemma enc_up_covers k m pts : covers dline m pts -> covers dline (enc_up k m) pts.
Proof.
  intros H p Hp. unfold enc_up. simpl. eapply Qle_trans; [apply (H p Hp)|]. apply round_up_ge.
Qed.

Lemma enc_up_covers_all k ms cat : covers_all dline ms cat -> covers_all dline (map (enc_up k) ms) cat.
Proof.
  unfold covers_all. revert cat. induction ms as [|m ms IH]; intros cat H; simpl; [constructor|].
  destruct cat as [|pts cat]; simpl in *; [constructor|].
  inversion H as [|? ? Hm Hr]; subst. constructor; [apply enc_up_covers; exact Hm|apply IH; exact Hr].
Qed.

(* rounding the radii up is harmless after any history *)
Theorem round_up_history_independent k th h ms c1 c2 :
  covers_all dline ms c1 -> covers_all dline ms c2 ->
  count_linked dline (close_line th) th (mobj (mrun h (m_create (enc_up k) ms))) c1 c2 =
  count_linked dline (close_line th) th ms c1 c2.
Proof.
  intros A1 A2.
  apply (linked_counts_history_independent_cover dline (close_line th) th dline_sym dline_tri (close_line_close th));
    try assumption; apply enc_up_covers_all; assumption.
Qed.

(* rounding to the nearest 1e-8 is not: two patches whose facing records are as far apart as the
   largest counted separation, radii 0.010000004 -> 0.01: the creating object counts the pair,
   a reopened catalog does not *)
Theorem round_nearest_refuted :
  exists k th ms c1 c2 h,
    covers_all dline ms c1 /\ covers_all dline ms c2 /\
    count_linked dline (close_line th) th ms c1 c2 = count_all (close_line th) ms c1 c2 /\
    count_linked dline (close_line th) th (mobj (mrun h (m_create (enc_round k) ms))) c1 c2 <>
    count_linked dline (close_line th) th ms c1 c2.
Proof.
  exists 100000000%positive, (4999992 # 1000000000),
         [(1 # 10, 10000004 # 1000000000); (1 # 8, 10000004 # 1000000000)],
         [[(1 # 10) + (10000004 # 1000000000); 9 # 100]; [(1 # 8) - (10000004 # 1000000000); 13 # 100]],
         [[(1 # 10) + (10000004 # 1000000000)]; [(1 # 8) - (10000004 # 1000000000)]],
         [All (Measure {| c_edges := [1 # 4; 1]; c_closed := false; c_scales := [] |} Reference); All Reopen].
  split; [|split; [|split]].
  - repeat constructor; intros p Hp; simpl in Hp;
      repeat (destruct Hp as [<-|Hp]; [apply Qle_bool_iff; vm_compute; reflexivity|]); destruct Hp.
  - repeat constructor; intros p Hp; simpl in Hp;
      repeat (destruct Hp as [<-|Hp]; [apply Qle_bool_iff; vm_compute; reflexivity|]); destruct Hp.
  - vm_compute. reflexivity.
  - vm_compute. discriminate.
Qed.
