From Verif Require Import Prelude TreeCache.
Open Scope Q_scope.

(* ---------- the reuse decision is sound: equal binnings have the same trees ---------- *)
Lemma qlist_eqb_canon e1 e2 : qlist_eqb e1 e2 = true -> map Qred e1 = map Qred e2.
Proof.
  unfold qlist_eqb. revert e2. induction e1 as [|x e1 IH]; intros [|y e2]; simpl; try discriminate.
  - reflexivity.
  - intros H. apply andb_true_iff in H as [Hx He]. unfold Qeqb in Hx.
    apply Qeq_bool_iff in Hx. apply Qred_complete in Hx. rewrite Hx, (IH e2 He). reflexivity.
Qed.

Lemma binning_eqb_canon b1 b2 : binning_eqb b1 b2 = true -> canon b1 = canon b2.
Proof.
  unfold binning_eqb, canon. intros H. apply andb_true_iff in H as [He Hc].
  apply qlist_eqb_canon in He. apply Bool.eqb_prop in Hc. rewrite He, Hc. reflexivity.
Qed.

(* a reuse decision is sound when it only accepts a stored binning whose trees are the requested ones *)
Definition sound (eq : obinning -> obinning -> bool) : Prop :=
  forall stored req, eq stored req = true -> built_for stored = built_for req.

Lemma binning_equal_sound : sound binning_equal.
Proof.
  intros [b1|] [b2|]; simpl; try discriminate; [|reflexivity].
  intros H. unfold built_for. simpl. rewrite (binning_eqb_canon b1 b2 H). reflexivity.
Qed.

(* ---------- the file codec ---------- *)
Lemma valid_edges_nonempty e : valid_edges e = true -> e <> [].
Proof. intros H ->. discriminate. Qed.

Lemma binning_codec_roundtrip_nonempty (b : obinning) :
  match b with Some ([], _) => False | _ => True end -> decode (encode b) = b.
Proof.
  destruct b as [[e c]|]; simpl; [|reflexivity].
  destruct e as [|x e]; [intros []|]. intros _. unfold decode. simpl. destruct c; reflexivity.
Qed.

Theorem binning_codec_roundtrip (b : obinning) : valid_ob b = true -> decode (encode b) = b.
Proof.
  intros H. apply binning_codec_roundtrip_nonempty.
  destruct b as [[[|x e] c]|]; simpl in *; [discriminate|exact I|exact I].
Qed.

(* a file without edges is read as "unbinned", whatever its first byte *)
Lemma decode_empty_unbinned byte : decode (byte, []) = None.
Proof. reflexivity. Qed.

(* ---------- the invariant ---------- *)
Definition Inv (s : st) : Prop := forall b, bfile s = Some b -> tfile s = built_for b.

Lemma inv_fresh : Inv s_fresh.
Proof. intros b H. discriminate. Qed.

Lemma rebuild_inv b s : valid_ob b = true -> Inv (rebuild b s).
Proof.
  intros Hv b' H. unfold rebuild, write_binning, write_trees in *. simpl in *.
  rewrite (binning_codec_roundtrip b Hv) in H. injection H as <-. reflexivity.
Qed.

Lemma rebuild_trees b s : trees_used (rebuild b s) = built_for b.
Proof. reflexivity. Qed.

Section AnyDecision.
  Context (eq : obinning -> obinning -> bool).

  Lemma build_with_preserves_inv b force s :
    valid_ob b = true -> Inv s -> Inv (build_with eq b force s).
  Proof.
    intros Hv HI. unfold build_with. destruct force; [apply rebuild_inv; exact Hv|].
    destruct (bfile s) as [stored|] eqn:E; [|apply rebuild_inv; exact Hv].
    destruct (eq stored b); [exact HI|apply rebuild_inv; exact Hv].
  Qed.

  Lemma step_with_preserves_inv s o : Inv s -> Inv (step_with eq s o).
  Proof.
    intros HI. destruct o as [b f|c r|]; unfold step_with; [| |exact HI].
    - destruct (valid_ob b) eqn:Hv; [apply build_with_preserves_inv; assumption|exact HI].
    - destruct (valid_edges (c_edges c)) eqn:Hv; [|exact HI].
      apply build_with_preserves_inv; [|exact HI]. destruct r; simpl; [exact Hv|reflexivity].
  Qed.

  Lemma run_with_preserves_inv h : forall s, Inv s -> Inv (run_with eq h s).
  Proof.
    unfold run_with. induction h as [|o h IH]; intros s HI; simpl; [exact HI|].
    apply IH. apply step_with_preserves_inv. exact HI.
  Qed.

  (* with a sound reuse decision an (unforced or forced) build leaves exactly the trees of the
     requested binning, whatever the cache held before *)
  Lemma build_with_trees b force s :
    sound eq -> Inv s -> trees_used (build_with eq b force s) = built_for b.
  Proof.
    intros Hs HI. unfold build_with. destruct force; [apply rebuild_trees|].
    destruct (bfile s) as [stored|] eqn:E; [|apply rebuild_trees].
    destruct (eq stored b) eqn:Heq; [|apply rebuild_trees].
    unfold trees_used. rewrite (HI stored E). apply Hs. exact Heq.
  Qed.

  Lemma run_with_app h1 h2 s : run_with eq (h1 ++ h2) s = run_with eq h2 (run_with eq h1 s).
  Proof. unfold run_with. apply fold_left_app. Qed.

  Theorem history_independent_with :
    sound eq -> forall h b s0, valid_ob b = true -> Inv s0 ->
    trees_used (run_with eq (h ++ [Build b false]) s0) = built_for b.
  Proof.
    intros Hs h b s0 Hv HI. rewrite run_with_app. unfold run_with at 1. cbn [fold_left step_with]. rewrite Hv.
    apply build_with_trees; [exact Hs|]. apply run_with_preserves_inv. exact HI.
  Qed.
End AnyDecision.

(* ---------- the implemented decision ---------- *)
Theorem build_preserves_inv b force s : valid_ob b = true -> Inv s -> Inv (build b force s).
Proof. apply build_with_preserves_inv. Qed.

Theorem step_preserves_inv s o : Inv s -> Inv (step s o).
Proof. apply step_with_preserves_inv. Qed.

Theorem run_preserves_inv h s : Inv s -> Inv (run h s).
Proof. apply run_with_preserves_inv. Qed.

(* C07 core: after ANY finite history of builds (any edges, bin counts, closed sides, binned or
   unbinned, forced or not, invalid requests that raise), measurements and reopenings, the
   unforced build that a measurement performs leaves the trees of the requested binning *)
Theorem history_independent h b s0 :
  valid_ob b = true -> Inv s0 -> trees_used (run (h ++ [Build b false]) s0) = built_for b.
Proof. apply history_independent_with. exact binning_equal_sound. Qed.

(* ... which are the trees obtained on a freshly created cache (or on any other consistent cache) *)
Corollary history_independent_fresh h b s0 :
  valid_ob b = true -> Inv s0 ->
  trees_used (run (h ++ [Build b false]) s0) = trees_used (run [Build b false] s_fresh).
Proof.
  intros Hv HI. rewrite (history_independent h b s0 Hv HI).
  symmetry. apply (history_independent [] b s_fresh Hv inv_fresh).
Qed.

(* the same, phrased for the operation a measurement is: any role, any valid configuration *)
Corollary measurement_history_independent h c r s0 :
  valid_edges (c_edges c) = true -> Inv s0 ->
  trees_used (run (h ++ [Measure c r]) s0) = built_for (role_binning c r) /\
  trees_used (run (h ++ [Measure c r]) s0) = trees_used (run [Measure c r] s_fresh).
Proof.
  intros Hv HI.
  assert (G : forall h s, Inv s -> trees_used (run (h ++ [Measure c r]) s) = built_for (role_binning c r)).
  { intros h' s Hs. unfold run. rewrite run_with_app. unfold run_with at 1. cbn [fold_left step_with]. rewrite Hv.
    apply build_with_trees; [exact binning_equal_sound|]. apply run_with_preserves_inv. exact Hs. }
  split; [apply G; exact HI|]. rewrite (G h s0 HI). symmetry. apply (G [] s_fresh inv_fresh).
Qed.

(* the scales of a configuration never reach the cache *)
Lemma scales_irrelevant e cl sc1 sc2 r s :
  step s (Measure {| c_edges := e; c_closed := cl; c_scales := sc1 |} r) =
  step s (Measure {| c_edges := e; c_closed := cl; c_scales := sc2 |} r).
Proof. destruct r; reflexivity. Qed.

(* forcing changes which files are rewritten, never which trees are used afterwards *)
Lemma force_irrelevant b s :
  Inv s -> trees_used (build b true s) = trees_used (build b false s).
Proof.
  intros HI. unfold build. rewrite !build_with_trees by (exact binning_equal_sound || exact HI). reflexivity.
Qed.

(* after a build the binning file denotes the requested binning *)
Lemma build_bfile b force s :
  valid_ob b = true ->
  exists b', bfile (build b force s) = Some b' /\ binning_equal b' b = true.
Proof.
  intros Hv.
  assert (R : exists b', bfile (rebuild b s) = Some b' /\ binning_equal b' b = true).
  { exists b. split; [simpl; rewrite (binning_codec_roundtrip b Hv); reflexivity|].
    destruct b as [[e c]|]; simpl; [|reflexivity]. unfold binning_eqb. simpl.
    rewrite Bool.eqb_reflx, andb_true_r. apply list_eqb_refl. intros x. apply Qeq_bool_iff. reflexivity. }
  unfold build, build_with. destruct force; [exact R|].
  destruct (bfile s) as [stored|] eqn:E; [|exact R].
  destruct (binning_equal stored b) eqn:Heq; [|exact R].
  exists stored. split; [exact E|exact Heq].
Qed.

(* ---------- the tag determines what can be observed of the trees ---------- *)
Lemma Qleb_compat x x' y y' : x == x' -> y == y' -> Qleb x y = Qleb x' y'.
Proof.
  intros Hx Hy. apply Bool.eq_true_iff_eq. unfold Qleb. rewrite !Qle_bool_iff, Hx, Hy. reflexivity.
Qed.
Lemma Qltb_compat x x' y y' : x == x' -> y == y' -> Qltb x y = Qltb x' y'.
Proof. intros Hx Hy. unfold Qltb. f_equal. apply Qleb_compat; assumption. Qed.

Lemma in_bin_red c lo hi z : in_bin c (Qred lo) (Qred hi) z = in_bin c lo hi z.
Proof.
  unfold in_bin. destruct c.
  - rewrite (Qleb_compat (Qred lo) lo z z), (Qltb_compat z z (Qred hi) hi);
      try reflexivity; apply Qred_correct.
  - rewrite (Qltb_compat (Qred lo) lo z z), (Qleb_compat z z (Qred hi) hi);
      try reflexivity; apply Qred_correct.
Qed.

Lemma bin_counts_canon c e zs : bin_counts c (map Qred e) zs = bin_counts c e zs.
Proof.
  induction e as [|lo [|hi r] IH]; simpl; try reflexivity.
  simpl in IH. rewrite IH. f_equal. unfold count_if. f_equal.
  apply filter_ext. intros z. apply in_bin_red.
Qed.

Theorem tree_counts_canon b zs :
  tree_counts (option_map canon b) zs = tree_counts b zs.
Proof.
  destruct b as [[e c]|]; simpl; [|reflexivity]. rewrite bin_counts_canon. reflexivity.
Qed.

(* ---------- the invariant is not vacuous: a decision that forgets an attribute breaks it ---------- *)
Definition e12 : list Q := [1; 2].

(* forgetting the closed side: build [1,2) then ask for (1,2] -> the left-closed trees are used;
   a record with z = 1 is in the bin of the stale trees and outside the bin of the right ones *)
Theorem binning_equal_ignoring_closed_unsound :
  exists h b, valid_ob b = true /\ Inv s_fresh /\
    trees_used (run_with binning_equal_ignoring_closed (h ++ [Build b false]) s_fresh) <> built_for b /\
    exists zs, option_map (fun t => tree_counts t zs)
                 (trees_used (run_with binning_equal_ignoring_closed (h ++ [Build b false]) s_fresh))
               <> Some (tree_counts b zs).
Proof.
  exists [Build (Some (e12, true)) false], (Some (e12, false)).
  split; [reflexivity|]. split; [exact inv_fresh|]. split.
  - vm_compute. discriminate.
  - exists [1]. vm_compute. discriminate.
Qed.

(* comparing only the number of edges: [1,2] then [1,3/2], same closed side *)
Theorem binning_equal_len_only_unsound :
  exists h b, valid_ob b = true /\ Inv s_fresh /\
    trees_used (run_with binning_equal_len_only (h ++ [Build b false]) s_fresh) <> built_for b /\
    exists zs, option_map (fun t => tree_counts t zs)
                 (trees_used (run_with binning_equal_len_only (h ++ [Build b false]) s_fresh))
               <> Some (tree_counts b zs).
Proof.
  exists [Build (Some (e12, false)) false], (Some ([1; 3 # 2], false)).
  split; [reflexivity|]. split; [exact inv_fresh|]. split.
  - vm_compute. discriminate.
  - exists [2]. vm_compute. discriminate.
Qed.

(* neither broken decision is sound, so history_independent_with does not apply to them *)
Lemma ignoring_closed_not_sound : ~ sound binning_equal_ignoring_closed.
Proof.
  intros H. specialize (H (Some (e12, true)) (Some (e12, false)) eq_refl). vm_compute in H. discriminate.
Qed.

(* ---------- catalogs: a vector of per-patch states ---------- *)
Lemma nth_error_upd_nth {A} (f : A -> A) : forall (l : list A) q p,
  nth_error (upd_nth q f l) p = option_map (fun x => if (q =? p)%nat then f x else x) (nth_error l p).
Proof.
  induction l as [|x l IH]; intros q p; simpl.
  - destruct p; reflexivity.
  - destruct q as [|q], p as [|p]; simpl; try reflexivity.
    + destruct (nth_error l p); reflexivity.
    + apply IH.
Qed.

Lemma upd_nth_length {A} (f : A -> A) : forall (l : list A) q, length (upd_nth q f l) = length l.
Proof. induction l as [|x l IH]; intros [|q]; simpl; try reflexivity. rewrite IH. reflexivity. Qed.

Section AnyDecisionC.
  Context (eq : obinning -> obinning -> bool).

  (* every patch goes through its own projection of a catalog-level operation *)
  Lemma cstep_with_nth cs o p :
    nth_error (cstep_with eq cs o) p = option_map (fun s => step_with eq s (proj p o)) (nth_error cs p).
  Proof.
    destruct o as [o|q b f]; unfold cstep_with, proj.
    - apply nth_error_map.
    - rewrite nth_error_upd_nth. destruct (nth_error cs p) as [s|]; [|reflexivity]. simpl.
      destruct (q =? p)%nat; reflexivity.
  Qed.

  Lemma crun_with_nth h : forall cs p,
    nth_error (crun_with eq h cs) p = option_map (run_with eq (map (proj p) h)) (nth_error cs p).
  Proof.
    unfold crun_with, run_with. induction h as [|o h IH]; intros cs p; simpl.
    - destruct (nth_error cs p); reflexivity.
    - rewrite IH, cstep_with_nth. destruct (nth_error cs p); reflexivity.
  Qed.

  Lemma cstep_with_length cs o : length (cstep_with eq cs o) = length cs.
  Proof. destruct o; simpl; [apply map_length|apply upd_nth_length]. Qed.

  Lemma crun_with_length h : forall cs, length (crun_with eq h cs) = length cs.
  Proof.
    unfold crun_with. induction h as [|o h IH]; intros cs; simpl; [reflexivity|].
    rewrite IH. apply cstep_with_length.
  Qed.

  Lemma crun_with_preserves_inv h cs : Forall Inv cs -> Forall Inv (crun_with eq h cs).
  Proof.
    intros HI. apply Forall_forall. intros s Hin. apply In_nth_error in Hin as [p Hp].
    rewrite crun_with_nth in Hp. destruct (nth_error cs p) as [s0|] eqn:E; [|discriminate].
    simpl in Hp. injection Hp as <-. apply run_with_preserves_inv.
    apply (proj1 (Forall_forall _ _) HI). eapply nth_error_In. exact E.
  Qed.

  (* after ANY catalog-level history, including builds of single patches that leave the patches
     of one catalog with trees for DIFFERENT binnings, a catalog-wide unforced request [o]
     (a build or a measurement) leaves in EVERY patch the trees of the requested binning *)
  Lemma catalog_request_with o b :
    sound eq -> (forall s, step_with eq s o = build_with eq b false s) ->
    forall h cs, Forall Inv cs ->
    Forall (fun s => trees_used s = built_for b) (crun_with eq (h ++ [All o]) cs).
  Proof.
    intros Hs Hstep h cs HI. apply Forall_forall. intros s Hin.
    apply In_nth_error in Hin as [p Hp]. rewrite crun_with_nth in Hp.
    destruct (nth_error cs p) as [s0|] eqn:E; [|discriminate]. simpl in Hp. injection Hp as <-.
    rewrite map_app, run_with_app. simpl map. unfold run_with at 1. cbn [fold_left].
    rewrite Hstep.
    apply build_with_trees; [exact Hs|]. apply run_with_preserves_inv.
    apply (proj1 (Forall_forall _ _) HI). eapply nth_error_In. exact E.
  Qed.

  Theorem catalog_history_independent_with :
    sound eq -> forall h b cs, valid_ob b = true -> Forall Inv cs ->
    Forall (fun s => trees_used s = built_for b) (crun_with eq (h ++ [All (Build b false)]) cs).
  Proof.
    intros Hs h b cs Hv HI. apply (catalog_request_with (Build b false) b Hs); [|exact HI].
    intros s. unfold step_with. rewrite Hv. reflexivity.
  Qed.
End AnyDecisionC.

Theorem crun_nth h cs p :
  nth_error (crun h cs) p = option_map (run (map (proj p) h)) (nth_error cs p).
Proof. apply crun_with_nth. Qed.

Theorem crun_length h cs : length (crun h cs) = length cs.
Proof. apply crun_with_length. Qed.

Theorem crun_preserves_inv h cs : Forall Inv cs -> Forall Inv (crun h cs).
Proof. apply crun_with_preserves_inv. Qed.

Lemma inv_c_fresh n : Forall Inv (c_fresh n).
Proof. apply Forall_forall. intros s H. apply repeat_spec in H. subst. exact inv_fresh. Qed.

Theorem catalog_history_independent h b cs :
  valid_ob b = true -> Forall Inv cs ->
  Forall (fun s => trees_used s = built_for b) (crun (h ++ [All (Build b false)]) cs).
Proof. apply catalog_history_independent_with. exact binning_equal_sound. Qed.

Theorem catalog_measurement_history_independent h c r cs :
  valid_edges (c_edges c) = true -> Forall Inv cs ->
  Forall (fun s => trees_used s = built_for (role_binning c r)) (crun (h ++ [All (Measure c r)]) cs).
Proof.
  intros Hv HI.
  apply (catalog_request_with binning_equal (Measure c r) (role_binning c r) binning_equal_sound);
    [| exact HI].
  intros s. unfold step_with. rewrite Hv. reflexivity.
Qed.

Lemma map_const_repeat {A B} (f : A -> B) c (l : list A) :
  Forall (fun x => f x = c) l -> map f l = repeat c (length l).
Proof. induction 1 as [|x l Hx _ IH]; simpl; [reflexivity|]. rewrite Hx, IH. reflexivity. Qed.

(* ... patch by patch the trees of a freshly created catalog cache with as many patches *)
Corollary catalog_history_independent_fresh h b cs :
  valid_ob b = true -> Forall Inv cs ->
  map trees_used (crun (h ++ [All (Build b false)]) cs) =
  map trees_used (crun [All (Build b false)] (c_fresh (length cs))).
Proof.
  intros Hv HI.
  rewrite (map_const_repeat trees_used (built_for b) _ (catalog_history_independent h b cs Hv HI)).
  pose proof (catalog_history_independent [] b (c_fresh (length cs)) Hv (inv_c_fresh _)) as F.
  simpl app in F. rewrite (map_const_repeat trees_used (built_for b) _ F).
  rewrite !crun_length. unfold c_fresh. rewrite repeat_length. reflexivity.
Qed.

(* not vacuous at catalog level: the first-patch shortcut.  Both patches hold (1,2]; patch 0 alone
   is rebuilt for (1,3/2]; the catalog-wide unforced build for (1,3/2] then sees a matching first
   patch and leaves patch 1 with the trees for (1,2] (a record at z = 2 is in the stale bin only) *)
Theorem first_patch_shortcut_unsound :
  exists h b cs, valid_ob b = true /\ Forall Inv cs /\
    exists s, In s (fold_left cstep_first_patch_shortcut (h ++ [All (Build b false)]) cs) /\
      trees_used s <> built_for b /\
      exists zs, option_map (fun t => tree_counts t zs) (trees_used s) <> Some (tree_counts b zs).
Proof.
  exists [All (Build (Some (e12, false)) false); One 0 (Some ([1; 3 # 2], false)) false],
         (Some ([1; 3 # 2], false)), (c_fresh 2).
  split; [reflexivity|]. split; [apply inv_c_fresh|].
  eexists. split; [vm_compute; right; left; reflexivity|]. split.
  - vm_compute. discriminate.
  - exists [2]. vm_compute. discriminate.
Qed.
