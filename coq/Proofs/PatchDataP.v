(* proofs about Model/PatchData.v *)
From Verif Require Import PatchData.
From Coq Require Import List NArith Bool Lia Arith.
Import ListNotations.
Open Scope N_scope.

(* ---------- header byte ---------- *)
Theorem info_roundtrip i : info_of_byte (info_byte i) = i.
Proof. destruct i as [[] [] []]; reflexivity. Qed.

(* the byte of every info is one of 3, 7, 11, 15, 19, 23, 27, 31: bits 0 and 1 always set *)
Theorem info_byte_range i : 3 <= info_byte i < 32 /\ N.testbit (info_byte i) 0 = true /\ N.testbit (info_byte i) 1 = true.
Proof. destruct i as [[] [] []]; vm_compute; repeat split; congruence. Qed.

(* ---------- little endian words ---------- *)
Lemma le_bytes_S k x : le_bytes (S k) x = (x mod 256) :: le_bytes k (x / 256).
Proof. reflexivity. Qed.

Lemma le_bytes_length k x : length (le_bytes k x) = k.
Proof. revert x. induction k as [|k IH]; intro x; [reflexivity|]. rewrite le_bytes_S. simpl. rewrite IH. reflexivity. Qed.

Lemma le_bytes_byte k x b : In b (le_bytes k x) -> b < 256.
Proof.
  revert x. induction k as [|k IH]; intros x H; [contradiction|]. rewrite le_bytes_S in H.
  destruct H as [H|H]; [subst; apply N.mod_lt; discriminate|eapply IH; exact H].
Qed.

Lemma le_roundtrip k x : x < 256 ^ (N.of_nat k) -> le_value (le_bytes k x) = x.
Proof.
  revert x. induction k as [|k IH]; intros x H.
  - simpl in *. lia.
  - rewrite le_bytes_S. cbn [le_value]. rewrite IH.
    + rewrite N.add_comm, N.mul_comm. symmetry. rewrite N.mul_comm. apply N.div_mod. discriminate.
    + rewrite Nat2N.inj_succ, N.pow_succ_r' in H. apply N.div_lt_upper_bound; [discriminate|exact H].
Qed.

Lemma word_roundtrip x : word_ok x = true -> le_value (le_bytes 8 x) = x.
Proof. intro H. apply le_roundtrip. unfold word_ok in H. apply N.ltb_lt in H. exact H. Qed.

Lemma firstn_app_len {A} (a b : list A) n : length a = n -> firstn n (a ++ b) = a.
Proof. intros <-. rewrite firstn_app, Nat.sub_diag, firstn_all. simpl. apply app_nil_r. Qed.
Lemma skipn_app_len {A} (a b : list A) n : length a = n -> skipn n (a ++ b) = b.
Proof. intros <-. rewrite skipn_app, Nat.sub_diag, skipn_all. reflexivity. Qed.

(* ---------- reading words ---------- *)
Lemma take_words_cons f b t :
  take_words (S f) (b :: t) =
  if Nat.ltb (length (b :: t)) 8 then None
  else option_map (cons (le_value (firstn 8 (b :: t)))) (take_words f (skipn 8 (b :: t))).
Proof. reflexivity. Qed.

Lemma take_words_nil f : take_words f [] = Some [].
Proof. destruct f; reflexivity. Qed.

Definition words_bytes (ws : list N) : list N := flat_map (le_bytes 8) ws.

Lemma words_bytes_length ws : length (words_bytes ws) = (8 * length ws)%nat.
Proof.
  induction ws as [|w t IH]; [reflexivity|]. unfold words_bytes in *. cbn [flat_map].
  rewrite app_length, le_bytes_length, IH. simpl length. lia.
Qed.

Lemma take_words_body ws fuel :
  forallb word_ok ws = true -> (length (words_bytes ws) <= fuel)%nat -> take_words fuel (words_bytes ws) = Some ws.
Proof.
  revert fuel. induction ws as [|w t IH]; intros fuel Hok Hf; [apply take_words_nil|].
  cbn [forallb] in Hok. apply andb_true_iff in Hok as [Hw Ht].
  unfold words_bytes in *. cbn [flat_map] in *.
  assert (Hl : length (le_bytes 8 w) = 8%nat) by apply le_bytes_length.
  rewrite app_length, Hl in Hf.
  destruct fuel as [|f]; [lia|].
  destruct (le_bytes 8 w ++ flat_map (le_bytes 8) t) as [|b r] eqn:E.
  { apply (f_equal (@length N)) in E. rewrite app_length, Hl in E. simpl in E. lia. }
  rewrite take_words_cons, <- E.
  assert (Hge : Nat.ltb (length (le_bytes 8 w ++ flat_map (le_bytes 8) t)) 8 = false).
  { apply Nat.ltb_ge. rewrite app_length, Hl. lia. }
  rewrite Hge.
  rewrite (firstn_app_len _ _ _ Hl), (skipn_app_len _ _ _ Hl).
  rewrite (IH f Ht) by lia. rewrite (word_roundtrip w Hw). reflexivity.
Qed.

Lemma take_words_length fuel bs ws : take_words fuel bs = Some ws -> length bs = (8 * length ws)%nat.
Proof.
  revert bs ws. induction fuel as [|f IH]; intros bs ws H.
  - destruct bs; simpl in H; [injection H as H; subst; reflexivity|discriminate].
  - destruct bs as [|b t]; [simpl in H; injection H as H; subst; reflexivity|].
    rewrite take_words_cons in H. destruct (Nat.ltb (length (b :: t)) 8) eqn:E; [discriminate|].
    apply Nat.ltb_ge in E.
    destruct (take_words f (skipn 8 (b :: t))) as [ws'|] eqn:R; simpl in H; [|discriminate].
    injection H as H. subst ws. apply IH in R. rewrite skipn_length in R. simpl length in *. lia.
Qed.

(* ---------- grouping into records ---------- *)
Lemma group_cons f n w t :
  group (S f) n (w :: t) =
  if Nat.ltb (length (w :: t)) n then None else option_map (cons (firstn n (w :: t))) (group f n (skipn n (w :: t))).
Proof. reflexivity. Qed.

Lemma group_nil f n : group f n [] = Some [].
Proof. destruct f; reflexivity. Qed.

Lemma group_concat n recs fuel :
  (0 < n)%nat -> Forall (fun r => length r = n) recs -> (length (concat recs) <= fuel)%nat ->
  group fuel n (concat recs) = Some recs.
Proof.
  intros Hn Hall. revert fuel. induction Hall as [|r t Hr Ht IH]; intros fuel Hf; [apply group_nil|].
  cbn [concat] in *. rewrite app_length, Hr in Hf.
  destruct fuel as [|f]; [lia|].
  destruct (r ++ concat t) as [|w u] eqn:E.
  { apply (f_equal (@length N)) in E. rewrite app_length, Hr in E. simpl in E. lia. }
  rewrite group_cons, <- E.
  assert (Hge : Nat.ltb (length (r ++ concat t)) n = false) by (apply Nat.ltb_ge; rewrite app_length, Hr; lia).
  rewrite Hge.
  rewrite (firstn_app_len _ _ _ Hr), (skipn_app_len _ _ _ Hr).
  rewrite IH by lia. reflexivity.
Qed.

Lemma group_length fuel n ws recs : group fuel n ws = Some recs -> length ws = (n * length recs)%nat /\ Forall (fun r => length r = n) recs.
Proof.
  revert ws recs. induction fuel as [|f IH]; intros ws recs H.
  - destruct ws; simpl in H; [injection H as H; subst; split; [simpl; lia|constructor]|discriminate].
  - destruct ws as [|w t]; [simpl in H; injection H as H; subst; split; [simpl; lia|constructor]|].
    rewrite group_cons in H. destruct (Nat.ltb (length (w :: t)) n) eqn:E; [discriminate|].
    apply Nat.ltb_ge in E.
    destruct (group f n (skipn n (w :: t))) as [rs|] eqn:R; simpl in H; [|discriminate].
    injection H as H. subst recs. apply IH in R as [Hl Hall]. rewrite skipn_length in Hl. split.
    + simpl length in *. lia.
    + constructor; [apply firstn_length_le; exact E|exact Hall].
Qed.

(* ---------- the file ---------- *)
Lemma body_words recs : body recs = words_bytes (concat recs).
Proof.
  induction recs as [|r t IH]; [reflexivity|].
  change (body (r :: t)) with (flat_map (le_bytes 8) r ++ body t).
  change (concat (r :: t)) with (r ++ concat t).
  unfold words_bytes in *. rewrite flat_map_app, IH. reflexivity.
Qed.

Lemma recs_ok_split i recs :
  forallb (rec_ok i) recs = true -> Forall (fun r => length r = nfields i) recs /\ forallb word_ok (concat recs) = true.
Proof.
  induction recs as [|r t IH]; intro H; [split; [constructor|reflexivity]|].
  cbn [forallb] in H. apply andb_true_iff in H as [Hr Ht]. destruct (IH Ht) as [Ha Hb].
  unfold rec_ok in Hr. apply andb_true_iff in Hr as [Hl Hw]. apply Nat.eqb_eq in Hl. split.
  - constructor; assumption.
  - cbn [concat]. rewrite forallb_app, Hw, Hb. reflexivity.
Qed.

Lemma nfields_pos i : (2 <= nfields i)%nat.
Proof. unfold nfields. lia. Qed.

(* whatever was written is read back: the same flags, the same records, bit for bit, in the same order *)
Theorem read_roundtrip i recs : forallb (rec_ok i) recs = true -> read_file (file_of i recs) = Some (i, recs).
Proof.
  intro H. destruct (recs_ok_split i recs H) as [Hlen Hw].
  unfold read_file, file_of. rewrite info_roundtrip, body_words.
  rewrite take_words_body by (exact Hw || apply le_n).
  rewrite group_concat; [reflexivity| pose proof (nfields_pos i); lia | exact Hlen | apply le_n].
Qed.

(* the writer appends: a file written in any number of flushes is the file of the concatenated records *)
Theorem file_append i r1 r2 : file_of i (r1 ++ r2) = file_of i r1 ++ body r2.
Proof. unfold file_of, body. rewrite flat_map_app. reflexivity. Qed.

Theorem file_flushes i (chunks : list (list record)) :
  file_of i (concat chunks) = info_byte i :: concat (map body chunks).
Proof.
  unfold file_of. f_equal. induction chunks as [|c t IH]; [reflexivity|].
  change (concat (c :: t)) with (c ++ concat t).
  change (map body (c :: t)) with (body c :: map body t).
  change (concat (body c :: map body t)) with (body c ++ concat (map body t)).
  rewrite <- IH. unfold body. apply flat_map_app.
Qed.

Lemma body_length i recs : forallb (rec_ok i) recs = true -> length (body recs) = (8 * nfields i * length recs)%nat.
Proof.
  intro H. destruct (recs_ok_split i recs H) as [Hlen _]. rewrite body_words, words_bytes_length.
  assert (E : length (concat recs) = (nfields i * length recs)%nat).
  { clear H. induction Hlen as [|r t Hr Ht IH]; [simpl; lia|]. cbn [concat]. rewrite app_length, Hr, IH. simpl length. lia. }
  rewrite E. lia.
Qed.

(* a file cut at a record boundary (a crash between two flushes, or within one at such a point) reads back as the
   records before the cut - silently shorter *)
Theorem truncated_at_record_boundary i r1 r2 :
  forallb (rec_ok i) r1 = true ->
  read_file (firstn (1 + 8 * nfields i * length r1) (file_of i (r1 ++ r2))) = Some (i, r1).
Proof.
  intro H. rewrite file_append.
  replace (1 + 8 * nfields i * length r1)%nat with (length (file_of i r1)).
  2:{ unfold file_of. simpl length. rewrite (body_length i r1 H). reflexivity. }
  rewrite (firstn_app_len _ _ _ eq_refl). apply read_roundtrip. exact H.
Qed.

(* every non-empty byte string that reads back at all has a whole number of records after its header byte:
   a cut anywhere else raises *)
Theorem read_needs_whole_records h rest i recs :
  read_file (h :: rest) = Some (i, recs) -> length rest = (8 * nfields i * length recs)%nat /\ i = info_of_byte h.
Proof.
  unfold read_file. intro H.
  destruct (take_words (length rest) rest) as [ws|] eqn:T; [|discriminate].
  destruct (group (length ws) (nfields (info_of_byte h)) ws) as [rs|] eqn:G; simpl in H; [|discriminate].
  injection H as Hi Hr. subst. apply take_words_length in T. apply group_length in G as [G _]. split; [lia|reflexivity].
Qed.

Corollary cut_inside_a_record_raises h rest :
  (length rest mod (8 * nfields (info_of_byte h)) <> 0)%nat -> read_file (h :: rest) = None.
Proof.
  intro Hm. destruct (read_file (h :: rest)) as [[i recs]|] eqn:R; [|reflexivity]. exfalso.
  apply read_needs_whole_records in R as [Hl Hi]. subst i. apply Hm. rewrite Hl.
  rewrite Nat.mul_comm. apply Nat.mod_mul. pose proof (nfields_pos (info_of_byte h)). lia.
Qed.
