(* The rational test of Model/Deg2Rad.v implies the real statement: the stored value is x * PI / 180
   up to a relative error of 2^-51 + 1e-36 (uses the proven enclosure pi_lo < PI < pi_hi; the numeric side
   facts are closed by the interval tactic, which brings in the standard library's primitive-integer axioms). *)
From Verif Require Import Prelude Sphere SphereP Deg2Rad.
From Coq Require Import Reals Lra Lia Qreals.
From Interval Require Import Tactic.
Open Scope R_scope.
Lemma code1_zero b : code [b] = 0%nat -> b = true.
Proof. destruct b; cbv; intro H; [reflexivity|discriminate]. Qed.

Lemma d2r_core (k a b c s e w : R) :
  0 <= k -> 0 <= w -> a <= c <= b -> b - a <= k * w -> 3 * k <= c -> 0 < e < 1 ->
  a * (1 - e) <= s <= b * (1 + e) -> 2 * w <= 3 * (1 / 10 ^ 36) ->
  Rabs (s - c) <= (e + 1 / 10 ^ 36) * c.
Proof.
  intros Hk Hw0 [Hac Hcb] Hw Hc [He0 He1] [H1 H2] Hd.
  assert (Hcw : k * w <= c * (w / 3)) by (replace (c * (w / 3)) with ((c / 3) * w) by field; apply Rmult_le_compat_r; lra).
  assert (Hae : a * e <= c * e) by nra.
  assert (Hbe : b * e <= (c + k * w) * e) by nra.
  assert (Hkwe : k * w * e <= k * w) by nra.
  apply Rabs_le. split; nra.
Qed.

Ltac q2r H := repeat first [rewrite Q2R_mult in H | rewrite Q2R_div in H by (intro C; discriminate) | rewrite Q2R_plus in H | rewrite Q2R_minus in H].

Theorem deg2rad_case_sound (x s : Q) :
  c02_deg2rad_case x s = 0%nat ->
  Rabs (Q2R s - Q2R x * PI / 180) <= (Q2R eps51 + 1 / 10 ^ 36) * (Rabs (Q2R x) * PI / 180).
Proof.
  unfold c02_deg2rad_case. intro H. apply code1_zero in H. apply andb_true_iff in H as [H1 H2].
  apply Qleb_le in H1, H2. apply Qle_Rle in H1, H2.
  destruct pi_enclosure as [PL PH].
  assert (Hw : Q2R pi_hi - Q2R pi_lo <= 2 / 10 ^ 37) by (unfold Q2R, pi_hi, pi_lo; simpl; interval with (i_prec 200)).
  assert (He : 0 < Q2R eps51 < 1) by (unfold Q2R, eps51; simpl; split; interval with (i_prec 60)).
  assert (Hpi : 3 < PI < 4) by (split; interval with (i_prec 60)).
  assert (Hd : 2 * (2 / 10 ^ 37) <= 3 * (1 / 10 ^ 36)) by lra.
  assert (Q0 : Q2R 0 = 0) by (unfold Q2R; simpl; field).
  assert (Q1 : Q2R 1 = 1) by (unfold Q2R; simpl; field).
  assert (Q180 : Q2R 180 = 180) by (unfold Q2R; simpl; field).
  unfold d2r_lo, d2r_hi in *. destruct (Qleb 0 x) eqn:E.
  - apply Qleb_le in E. apply Qle_Rle in E. rewrite Q0 in E.
    q2r H1; q2r H2; rewrite Q1, Q180 in H1, H2.
    rewrite (Rabs_right (Q2R x)) by lra.
    replace (Q2R x * PI / 180) with (Q2R x / 180 * PI) by field.
    apply (d2r_core (Q2R x / 180) (Q2R x / 180 * Q2R pi_lo) (Q2R x / 180 * Q2R pi_hi) _ _ _ (2 / 10 ^ 37)); try lra.
    + split; apply Rmult_le_compat_l; lra.
    + replace (Q2R x / 180 * Q2R pi_hi - Q2R x / 180 * Q2R pi_lo) with (Q2R x / 180 * (Q2R pi_hi - Q2R pi_lo)) by ring.
      apply Rmult_le_compat_l; lra.
    + nra.
  - assert (E' : Q2R x < 0).
    { apply Rnot_le_lt. intro C. assert (T : Qleb 0 x = true).
      { apply Qleb_le. apply Rle_Qle. rewrite Q0. exact C. } congruence. }
    q2r H1; q2r H2; rewrite Q1, Q180 in H1, H2.
    rewrite (Rabs_left (Q2R x)) by lra.
    (* mirror: apply the core lemma to -s and -x *)
    replace (Q2R s - Q2R x * PI / 180) with (- ((- Q2R s) - (- Q2R x) / 180 * PI)) by field.
    rewrite Rabs_Ropp. replace (- Q2R x * PI / 180) with (- Q2R x / 180 * PI) by field.
    apply (d2r_core (- Q2R x / 180) (- Q2R x / 180 * Q2R pi_lo) (- Q2R x / 180 * Q2R pi_hi) _ _ _ (2 / 10 ^ 37)); try lra.
    all: try (split; apply Rmult_le_compat_l; lra).
    all: try (replace (- Q2R x / 180 * Q2R pi_hi - - Q2R x / 180 * Q2R pi_lo) with (- Q2R x / 180 * (Q2R pi_hi - Q2R pi_lo)) by ring;
              apply Rmult_le_compat_l; lra).
    all: try nra.
    all: split; [replace (- Q2R x / 180 * Q2R pi_lo * (1 - Q2R eps51)) with (- (Q2R x * Q2R pi_lo / 180 * (1 - Q2R eps51))) by field; lra
                |replace (- Q2R x / 180 * Q2R pi_hi * (1 + Q2R eps51)) with (- (Q2R x * Q2R pi_hi / 180 * (1 + Q2R eps51))) by field; lra].
Qed.
