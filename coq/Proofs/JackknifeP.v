(* Proofs for Model/Jackknife.v (C03).  Everything is over Q with setoid equality [==];
   no axioms. *)
From Verif Require Import Prelude Jackknife.
From Coq Require Import Setoid Morphisms Lqa Permutation.
Open Scope Q_scope.

(* ================================================================== generic list facts *)
Lemma remove_nth_map {A B} (f : A -> B) k l : map f (remove_nth k l) = remove_nth k (map f l).
Proof.
  revert k; induction l as [|x l IH]; intros k; simpl; [destruct k; reflexivity|].
  destruct k; simpl; [reflexivity|]. rewrite IH. reflexivity.
Qed.

Lemma length_remove_nth {A} k (l : list A) : (k < length l)%nat -> length (remove_nth k l) = (length l - 1)%nat.
Proof.
  revert k; induction l as [|x l IH]; intros k Hk; simpl in *; [lia|].
  destruct k; simpl; [lia|]. rewrite IH by lia. lia.
Qed.

Lemma Forall_remove_nth {A} (P : A -> Prop) k l : Forall P l -> Forall P (remove_nth k l).
Proof.
  intros H; revert k; induction H as [|x l Hx Hl IH]; intros k.
  - destruct k; constructor.
  - destruct k; simpl; [exact Hl | constructor; auto].
Qed.

Lemma map_nth_seq {A} (l : list A) d : map (fun i => nth i l d) (seq 0 (length l)) = l.
Proof.
  induction l as [|x l IH]; simpl; [reflexivity|].
  rewrite <- seq_shift, map_map. simpl. rewrite IH. reflexivity.
Qed.

Lemma take_remove {A} (l : list A) d k :
  map (fun i => nth i l d) (remove_nth k (seq 0 (length l))) = remove_nth k l.
Proof. rewrite remove_nth_map, map_nth_seq. reflexivity. Qed.

(* ================================================================== sums *)
Lemma qsum_ext {A} (f g : A -> Q) l : (forall x, In x l -> f x == g x) -> qsum (map f l) == qsum (map g l).
Proof.
  induction l as [|x l IH]; intros H; simpl; [reflexivity|].
  rewrite (H x) by (left; reflexivity). rewrite IH; [reflexivity|]. intros y Hy. apply H. right. exact Hy.
Qed.

Lemma qsum_scal {A} (c : Q) (f : A -> Q) l : c * qsum (map f l) == qsum (map (fun x => c * f x) l).
Proof. induction l as [|x l IH]; simpl; [ring|]. rewrite <- IH. ring. Qed.

Lemma qsum_plus {A} (f g : A -> Q) l : qsum (map (fun x => f x + g x) l) == qsum (map f l) + qsum (map g l).
Proof. induction l as [|x l IH]; simpl; [ring|]. rewrite IH. ring. Qed.

Lemma qsum_zero {A} (l : list A) : qsum (map (fun _ => 0) l) == 0.
Proof. induction l as [|x l IH]; simpl; [reflexivity|]. rewrite IH. ring. Qed.

Lemma qsum_swap {A B} (f : A -> B -> Q) l1 l2 :
  qsum (map (fun x => qsum (map (fun y => f x y) l2)) l1) == qsum (map (fun y => qsum (map (fun x => f x y) l1)) l2).
Proof.
  induction l1 as [|x l1 IH]; simpl.
  - symmetry. apply qsum_zero.
  - rewrite IH. symmetry. apply (qsum_plus (fun y => f x y) (fun y => qsum (map (fun x0 => f x0 y) l1))).
Qed.

Lemma qsum_nonneg {A} (f : A -> Q) l : (forall x, 0 <= f x) -> 0 <= qsum (map f l).
Proof.
  intros H; induction l as [|x l IH]; simpl; [apply Qle_refl|].
  specialize (H x). lra.
Qed.

Lemma qsum_remove (l : list Q) k : (k < length l)%nat -> qsum l == nth k l 0 + qsum (remove_nth k l).
Proof.
  revert k; induction l as [|x l IH]; intros k Hk; simpl in Hk; [lia|].
  destruct k as [|k]; simpl.
  - ring.
  - rewrite (IH k) by lia. ring.
Qed.

(* ================================================================== total - row - col + diag *)
Lemma total_remove_row (M : mat) k :
  (k < length M)%nat -> total M == rowsum M k + total (remove_nth k M).
Proof.
  unfold total, rowsum. revert k; induction M as [|r M IH]; intros k Hk; simpl in Hk; [lia|].
  destruct k as [|k]; simpl.
  - ring.
  - rewrite (IH k) by lia. ring.
Qed.

Lemma total_remove_col (M : mat) k :
  Forall (fun r => (k < length r)%nat) M ->
  total M == colsum M k + total (map (remove_nth k) M).
Proof.
  unfold total, colsum. induction 1 as [|r M Hr HM IH]; simpl.
  - ring.
  - rewrite (qsum_remove r k Hr). rewrite IH. ring.
Qed.

Lemma colsum_remove_row (M : mat) k :
  (k < length M)%nat -> colsum M k == diag M k + colsum (remove_nth k M) k.
Proof.
  unfold colsum, diag.
  assert (G : forall c k, (k < length M)%nat ->
     qsum (map (fun r => nth c r 0) M) == nth c (nth k M []) 0 + qsum (map (fun r => nth c r 0) (remove_nth k M))).
  { intros c. induction M as [|r M IH]; intros j Hj; simpl in Hj; [lia|].
    destruct j as [|j]; simpl; [ring|]. rewrite (IH j) by lia. ring. }
  intros Hk. apply G. exact Hk.
Qed.

(* C03 core: every matrix whose rows are longer than k, every patch count *)
Theorem sample_is_loo (M : mat) k :
  (k < length M)%nat -> Forall (fun r => (k < length r)%nat) M -> sample M k == loo M k.
Proof.
  intros Hk Hrows. unfold sample, loo, del.
  rewrite (total_remove_row M k Hk).
  rewrite (total_remove_col (remove_nth k M) k) by (apply Forall_remove_nth; exact Hrows).
  rewrite (colsum_remove_row M k Hk). ring.
Qed.

(* square N x N matrices *)
Definition square (N : nat) (M : mat) : Prop := length M = N /\ Forall (fun r => length r = N) M.

Corollary sample_is_loo_square N (M : mat) k : square N M -> (k < N)%nat -> sample M k == loo M k.
Proof.
  intros [HL HR] Hk. apply sample_is_loo; [lia|].
  eapply Forall_impl; [|exact HR]. simpl. intros r Hr. lia.
Qed.

(* ================================================================== weight-product matrices *)
Lemma qsum_scal_id (c : Q) l : qsum (map (fun x => c * x) l) == c * qsum l.
Proof. induction l as [|x l IH]; simpl; [ring|]. rewrite IH. ring. Qed.

Lemma total_outer u v : total (outer u v) == qsum u * qsum v.
Proof.
  unfold total, outer. induction u as [|a u IH]; simpl; [ring|].
  rewrite IH, qsum_scal_id. ring.
Qed.

Lemma del_outer k u v : del k (outer u v) = outer (remove_nth k u) (remove_nth k v).
Proof.
  unfold del, outer. rewrite <- remove_nth_map, map_map.
  apply map_ext. intros a. rewrite remove_nth_map. reflexivity.
Qed.

Lemma outer_square u v : length (outer u v) = length u /\ Forall (fun r => length r = length v) (outer u v).
Proof.
  unfold outer. split; [apply map_length|].
  apply Forall_forall. intros r Hr. apply in_map_iff in Hr. destruct Hr as [a [<- _]]. apply map_length.
Qed.

(* cross-correlation normalisation: sample k = (sum_{i<>k} u_i) (sum_{j<>k} v_j) *)
Theorem weights_loo_cross u v k :
  (k < length u)%nat -> (k < length v)%nat ->
  sample (weights_array false u v) k == qsum (remove_nth k u) * qsum (remove_nth k v).
Proof.
  intros Hu Hv. simpl. destruct (outer_square u v) as [HL HR].
  rewrite sample_is_loo.
  - unfold loo. rewrite del_outer. apply total_outer.
  - lia.
  - eapply Forall_impl; [|exact HR]. simpl. intros r Hr. lia.
Qed.

(* ---- index-wise maps ---- *)
Lemma mapi_from_length {A B} s (f : nat -> A -> B) l : length (mapi_from s f l) = length l.
Proof. revert s; induction l as [|x l IH]; intros s; simpl; [reflexivity|]. rewrite IH. reflexivity. Qed.

Lemma mapi_from_ext_ge {A B} s (f g : nat -> A -> B) l :
  (forall i x, (s <= i)%nat -> f i x = g i x) -> mapi_from s f l = mapi_from s g l.
Proof.
  revert s; induction l as [|x l IH]; intros s H; simpl; [reflexivity|].
  rewrite (H s x) by lia. rewrite (IH (S s)); [reflexivity|]. intros i y Hi. apply H. lia.
Qed.

Lemma mapi_from_shift {A B} s (f : nat -> A -> B) l : mapi_from (S s) f l = mapi_from s (fun i => f (S i)) l.
Proof. revert s; induction l as [|x l IH]; intros s; simpl; [reflexivity|]. rewrite IH. reflexivity. Qed.

Lemma mapi_from_compose {A B C} s (f : nat -> B -> C) (h : nat -> A -> B) l :
  mapi_from s f (mapi_from s h l) = mapi_from s (fun i x => f i (h i x)) l.
Proof. revert s; induction l as [|x l IH]; intros s; simpl; [reflexivity|]. rewrite IH. reflexivity. Qed.

Definition up (k i : nat) : nat := if (i <? k)%nat then i else S i.

Lemma remove_nth_mapi {A B} s (f : nat -> A -> B) k l :
  remove_nth k (mapi_from s f l) = mapi_from s (fun i => f (if (i <? s + k)%nat then i else S i)) (remove_nth k l).
Proof.
  revert s k; induction l as [|x l IH]; intros s k; simpl; [destruct k; reflexivity|].
  destruct k as [|k]; simpl.
  - rewrite mapi_from_shift. apply mapi_from_ext_ge. intros i y Hi.
    destruct (Nat.ltb_spec i (s + 0)); [lia|reflexivity].
  - destruct (Nat.ltb_spec s (s + S k)); [|lia]. f_equal.
    rewrite IH. apply mapi_from_ext_ge. intros i y Hi.
    replace (S s + k)%nat with (s + S k)%nat by lia. reflexivity.
Qed.

(* halve_diag (triu M) as one index-wise map *)
Definition gT (i j : nat) (x : Q) : Q := half_g i j (triu_g i j x).
Definition T (M : mat) : mat := mapi2 gT M.

Lemma halve_triu M : halve_diag (triu M) = T M.
Proof.
  unfold halve_diag, triu, T, mapi2. rewrite mapi_from_compose.
  apply mapi_from_ext_ge. intros i r _. rewrite mapi_from_compose. reflexivity.
Qed.

Lemma gT_up k i j x : gT (up k i) (up k j) x = gT i j x.
Proof.
  unfold gT, half_g, triu_g, up.
  destruct (Nat.ltb_spec i k), (Nat.ltb_spec j k);
    repeat match goal with
    | |- context [(?a <? ?b)%nat] => destruct (Nat.ltb_spec a b)
    | |- context [(?a =? ?b)%nat] => destruct (Nat.eqb_spec a b)
    end; try reflexivity; lia.
Qed.

(* deleting patch k commutes with "upper triangle, halved diagonal" *)
Lemma del_T k M : del k (T M) = T (del k M).
Proof.
  unfold del, T, mapi2. rewrite remove_nth_mapi.
  set (M' := remove_nth k M). clearbody M'.
  assert (G : forall s (L : mat),
     map (remove_nth k) (mapi_from s (fun i r => mapi_from 0 (gT (if (i <? 0 + k)%nat then i else S i)) r) L)
     = mapi_from s (fun i r => mapi_from 0 (gT i) r) (map (remove_nth k) L)).
  { intros s L; revert s; induction L as [|r L IH]; intros s; simpl; [reflexivity|].
    rewrite IH. f_equal. rewrite remove_nth_mapi.
    apply mapi_from_ext_ge. intros j x _. apply (gT_up k s j x). }
  apply G.
Qed.

Lemma total_cons0 (M : mat) : total (map (cons 0) M) == total M.
Proof. unfold total. induction M as [|r M IH]; simpl; [reflexivity|]. rewrite IH. ring. Qed.

Lemma T_rows_shift s (l : list (Q * list Q)) :
  mapi_from (S s) (fun i r => mapi_from 0 (gT i) r) (map (fun p => fst p :: snd p) l)
  = map (cons 0) (mapi_from s (fun i r => mapi_from 0 (gT i) r) (map snd l)).
Proof.
  revert s; induction l as [|[c r] l IH]; intros s; simpl; [reflexivity|].
  rewrite IH. f_equal. f_equal.
  rewrite mapi_from_shift. apply mapi_from_ext_ge. intros j x _.
  unfold gT, half_g, triu_g. simpl.
  destruct (Nat.ltb_spec (S j) (S s)), (Nat.ltb_spec j s); try lia;
  destruct (Nat.eqb_spec s j); reflexivity.
Qed.

Lemma T_first_row (r : list Q) : mapi_from 1 (gT 0) r = r.
Proof.
  assert (G : forall s, (1 <= s)%nat -> mapi_from s (gT 0) r = r).
  { induction r as [|x r IH]; intros s Hs; simpl; [reflexivity|].
    rewrite IH by lia. unfold gT, half_g, triu_g.
    destruct (Nat.ltb_spec s 0); [lia|]. destruct (Nat.eqb_spec 0 s); [lia|reflexivity]. }
  apply G. lia.
Qed.

Lemma upper_half_sum_nil_r u : upper_half_sum u [] = 0.
Proof. destruct u; reflexivity. Qed.

Lemma total_T_outer u v : total (T (outer u v)) == upper_half_sum u v.
Proof.
  revert v; induction u as [|a u IH]; intros v; [reflexivity|].
  destruct v as [|b v].
  - rewrite upper_half_sum_nil_r. unfold T, mapi2, outer, total. simpl.
    assert (G : forall s (l : list Q), qsum (map qsum (mapi_from s (fun i r => mapi_from 0 (gT i) r) (map (fun _ => []) l))) == 0).
    { intros s l; revert s; induction l as [|x l IHl]; intros s; simpl; [reflexivity|]. rewrite IHl. ring. }
    rewrite G. ring.
  - specialize (IH v). unfold T, mapi2 in *. unfold outer. simpl map.
    change (mapi_from 0 (fun i r => mapi_from 0 (gT i) r)
              ((a * b :: map (fun y1 => a * y1) v) :: map (fun z => z * b :: map (fun y => z * y) v) u))
      with (mapi_from 0 (gT 0) (a * b :: map (fun y => a * y) v)
            :: mapi_from 1 (fun i r => mapi_from 0 (gT i) r) (map (fun z => z * b :: map (fun y => z * y) v) u)).
    replace (map (fun z => z * b :: map (fun y => z * y) v) u)
      with (map (fun p : Q * list Q => fst p :: snd p) (map (fun z => (z * b, map (fun y => z * y) v)) u))
      by (rewrite map_map; reflexivity).
    rewrite T_rows_shift. rewrite map_map. simpl snd.
    change (mapi_from 0 (gT 0) (a * b :: map (fun y => a * y) v))
      with (gT 0 0 (a * b) :: mapi_from 1 (gT 0) (map (fun y => a * y) v)).
    rewrite T_first_row.
    unfold total at 1. simpl map. simpl qsum.
    fold (total (map (cons 0) (mapi_from 0 (fun i r => mapi_from 0 (gT i) r) (map (fun z => map (fun y => z * y) v) u)))).
    rewrite total_cons0. unfold outer in IH. rewrite IH.
    rewrite qsum_scal_id. unfold gT, half_g, triu_g. simpl. ring.
Qed.

Lemma upper_half_sum_sq w : upper_half_sum w w == (1 # 2) * (qsum w * qsum w).
Proof. induction w as [|a w IH]; simpl; [ring|]. rewrite IH. ring. Qed.

Lemma T_square (M : mat) n : Forall (fun r => length r = n) M -> Forall (fun r => length r = n) (T M).
Proof.
  intros H. unfold T, mapi2. generalize 0%nat at 1. induction H as [|r M Hr HM IH]; intros s; simpl; constructor.
  - rewrite mapi_from_length. exact Hr.
  - apply IH.
Qed.

(* autocorrelation normalisation (upper triangle, halved diagonal):
   sample k = sum_{i<j; i,j<>k} u_i v_j + 1/2 sum_{i<>k} u_i v_i *)
Theorem weights_loo_auto_gen u v k :
  (k < length u)%nat -> (k < length v)%nat ->
  sample (weights_array true u v) k == upper_half_sum (remove_nth k u) (remove_nth k v).
Proof.
  intros Hu Hv. simpl. rewrite halve_triu. destruct (outer_square u v) as [HL HR].
  rewrite sample_is_loo.
  - unfold loo. rewrite del_T, del_outer. apply total_T_outer.
  - unfold T, mapi2. rewrite mapi_from_length. lia.
  - apply T_square in HR. eapply Forall_impl; [|exact HR]. simpl. intros r Hr. lia.
Qed.

(* ... which for the one weight vector of an autocorrelation is half the squared total *)
Theorem weights_loo_auto w k :
  (k < length w)%nat ->
  sample (weights_array true w w) k == upper_half_sum (remove_nth k w) (remove_nth k w)
  /\ upper_half_sum (remove_nth k w) (remove_nth k w)
     == (1 # 2) * (qsum (remove_nth k w) * qsum (remove_nth k w)).
Proof.
  intros Hk. split; [apply weights_loo_auto_gen; exact Hk | apply upper_half_sum_sq].
Qed.

(* totals (the value, no patch removed) *)
Theorem weights_total auto u v : total (weights_array auto u v) == norm_denominator auto u v.
Proof.
  destruct auto; simpl.
  - rewrite halve_triu. apply total_T_outer.
  - apply total_outer.
Qed.

Theorem weights_sample auto u v k :
  (k < length u)%nat -> (k < length v)%nat ->
  sample (weights_array auto u v) k == norm_denominator auto (remove_nth k u) (remove_nth k v).
Proof.
  intros Hu Hv. destruct auto; [apply weights_loo_auto_gen | apply weights_loo_cross]; assumption.
Qed.

(* ================================================================== list-level statements *)
Lemma Forall2_map_in {A B} (R : B -> B -> Prop) (f g : A -> B) l :
  (forall x, In x l -> R (f x) (g x)) -> Forall2 R (map f l) (map g l).
Proof.
  induction l as [|x l IH]; intros H; simpl; constructor.
  - apply H. left. reflexivity.
  - apply IH. intros y Hy. apply H. right. exact Hy.
Qed.

Definition qlist_eq := Forall2 Qeq.
Definition qmat_eq := Forall2 qlist_eq.

(* sample_patch_sum of any (bins, N, N) array: samples[k][b] = loo of bin b without patch k *)
Theorem sps_samples_is_loo N (A : list mat) :
  Forall (square N) A -> qmat_eq (sps_samples N A) (loo_samples N A).
Proof.
  intros HA. unfold sps_samples, loo_samples. apply Forall2_map_in. intros k Hk.
  apply in_seq in Hk. apply Forall2_map_in. intros M HM.
  rewrite Forall_forall in HA. apply (sample_is_loo_square N); [apply HA; exact HM | lia].
Qed.

(* NormalisedCounts, one bin: sample k = the statistic recomputed from the arrays with row and
   column k deleted from the counts and entry k deleted from both weight vectors *)
Theorem normalised_sample_is_recount N auto (M : mat) u v k :
  square N M -> length u = N -> length v = N -> (k < N)%nat ->
  sample M k / sample (weights_array auto u v) k
  == nc_stat auto (del k M) (remove_nth k u) (remove_nth k v).
Proof.
  intros HM Hu Hv Hk. unfold nc_stat.
  rewrite (sample_is_loo_square N M k HM Hk).
  rewrite (weights_sample auto u v k) by lia. reflexivity.
Qed.

Theorem normalised_data_is_doc auto (M : mat) u v :
  total M / total (weights_array auto u v) == nc_stat auto M u v.
Proof. unfold nc_stat. rewrite weights_total. reflexivity. Qed.

Lemma map2_map_same {A B C D} (f : B -> C -> D) (g : A -> B) (h : A -> C) l :
  map2 f (map g l) (map h l) = map (fun x => f (g x) (h x)) l.
Proof. induction l as [|x l IH]; simpl; [reflexivity|]. rewrite IH. reflexivity. Qed.

(* all bins, all patches *)
Theorem nc_samples_is_recount N auto (C : list mat) (U V : list (list Q)) :
  Forall (square N) C -> Forall (fun u => length u = N) U -> Forall (fun v => length v = N) V ->
  qmat_eq (nc_samples N auto C U V) (nc_recount N auto C U V).
Proof.
  intros HC HU HV. unfold nc_samples, nc_recount, sps_samples. rewrite map2_map_same.
  apply Forall2_map_in. intros k Hk. apply in_seq in Hk.
  unfold weights_arrays. clear -HC HU HV Hk.
  revert U V HU HV. induction HC as [|M C HM HC IH]; intros U V HU HV; [destruct U, V; constructor|].
  destruct HU as [|u U Hu HU]; [constructor|]. destruct HV as [|v V Hv HV]; [constructor|].
  simpl. constructor.
  - apply (normalised_sample_is_recount N); auto; lia.
  - apply IH; assumption.
Qed.

(* ================================================================== covariance *)
Lemma qsum_ext_all {A} (f g : A -> Q) l : (forall x, f x == g x) -> qsum (map f l) == qsum (map g l).
Proof. intros H. apply qsum_ext. intros x _. apply H. Qed.

Lemma qsum_mul {A B} (f : A -> Q) (g : B -> Q) l1 l2 :
  qsum (map f l1) * qsum (map g l2) == qsum (map (fun x => qsum (map (fun y => f x * g y) l2)) l1).
Proof.
  induction l1 as [|x l1 IH]; simpl; [ring|].
  rewrite <- IH. rewrite <- qsum_scal. ring.
Qed.

Theorem cov_code_is_spec X i j : cov_code X i j == cov_spec X i j.
Proof. unfold cov_code, cov_spec, Qdiv. ring. Qed.

(* the reducing evaluation used by the checker is the same rational *)
Lemma mean_r_plain X i : mean_r X i == mean_col X i.
Proof. unfold mean_r, mean_col. rewrite Qred_correct, qsumr_qsum. reflexivity. Qed.

Lemma dev_r_plain X r i : dev_r X r i == dev X r i.
Proof. unfold dev_r, dev. rewrite Qred_correct, mean_r_plain. reflexivity. Qed.

Lemma sumprod_r_plain X i j : sumprod_r X i j == sumprod X i j.
Proof.
  unfold sumprod_r, sumprod. rewrite qsumr_qsum. apply qsum_ext_all. intros r.
  rewrite Qred_correct, !dev_r_plain. reflexivity.
Qed.

Theorem cov_eval_is_code X i j : cov_eval X i j == cov_code X i j.
Proof. unfold cov_eval, cov_code. rewrite Qred_correct, sumprod_r_plain. reflexivity. Qed.

Lemma sumprod_sym X i j : sumprod X i j == sumprod X j i.
Proof. unfold sumprod. apply qsum_ext_all. intros r. ring. Qed.

Theorem cov_symmetric X i j : cov_code X i j == cov_code X j i.
Proof. unfold cov_code. rewrite (sumprod_sym X i j). reflexivity. Qed.

(* Gram form: v^T G v = sum_r (v . d_r)^2 *)
Lemma gram_quad {A} (B : nat) (v : list Q) (d : A -> nat -> Q) (l : list A) :
  quad B v (fun i j => qsum (map (fun r => d r i * d r j) l))
  == qsum (map (fun r => dotv B v (d r) * dotv B v (d r)) l).
Proof.
  unfold quad, dotv.
  transitivity (qsum (map (fun r => qsum (map (fun i => qsum (map (fun j =>
                  (nth i v 0 * d r i) * (nth j v 0 * d r j)) (seq 0 B))) (seq 0 B))) l)).
  - rewrite (qsum_swap (fun r i => qsum (map (fun j => (nth i v 0 * d r i) * (nth j v 0 * d r j)) (seq 0 B)))).
    apply qsum_ext_all. intros i.
    rewrite (qsum_swap (fun r j => (nth i v 0 * d r i) * (nth j v 0 * d r j))).
    apply qsum_ext_all. intros j.
    transitivity ((nth i v 0 * nth j v 0) * qsum (map (fun r => d r i * d r j) l)); [ring|].
    rewrite qsum_scal. apply qsum_ext_all. intros r. ring.
  - apply qsum_ext_all. intros r. symmetry.
    apply (qsum_mul (fun i => nth i v 0 * d r i) (fun j => nth j v 0 * d r j)).
Qed.

Lemma quad_scal B v c (G : nat -> nat -> Q) : quad B v (fun i j => c * G i j) == c * quad B v G.
Proof.
  unfold quad. rewrite qsum_scal. apply qsum_ext_all. intros i.
  rewrite qsum_scal. apply qsum_ext_all. intros j. ring.
Qed.

Lemma qn_nonneg n : 0 <= qn n.
Proof. unfold qn. change 0 with (inject_Z 0). rewrite <- Zle_Qle. lia. Qed.

Lemma jack_factor_nonneg N : 0 <= qn (N - 1) / qn N.
Proof.
  unfold Qdiv. apply Qmult_le_0_compat; [apply qn_nonneg|].
  apply Qinv_le_0_compat. apply qn_nonneg.
Qed.

Lemma sq_nonneg (x : Q) : 0 <= x * x.
Proof. nra. Qed.

(* positive semi-definite: v^T C v = (N-1)/N * sum_k (v . (x_k - mean))^2 >= 0, any v *)
Theorem cov_psd X v :
  let B := ncols X in
  quad B v (cov_spec X)
  == (qn (length X - 1) / qn (length X)) * qsum (map (fun r => dotv B v (dev X r) * dotv B v (dev X r)) X)
  /\ 0 <= quad B v (cov_spec X).
Proof.
  intros B.
  assert (E : quad B v (cov_spec X)
              == (qn (length X - 1) / qn (length X)) * qsum (map (fun r => dotv B v (dev X r) * dotv B v (dev X r)) X)).
  { unfold cov_spec, sumprod. rewrite quad_scal. rewrite (gram_quad B v (dev X) X). reflexivity. }
  split; [exact E|]. rewrite E.
  apply Qmult_le_0_compat; [apply jack_factor_nonneg|].
  apply (qsum_nonneg (fun r => dotv B v (dev X r) * dotv B v (dev X r))). intros r. apply sq_nonneg.
Qed.

Lemma cov_diag_nonneg X i : 0 <= cov_spec X i i.
Proof.
  unfold cov_spec, sumprod. apply Qmult_le_0_compat; [apply jack_factor_nonneg|].
  apply (qsum_nonneg (fun r => dev X r i * dev X r i)). intros r. apply sq_nonneg.
Qed.

Lemma nonneg_root_unique (c e e' : Q) : 0 <= e -> 0 <= e' -> e * e == c -> e' * e' == c -> e == e'.
Proof.
  intros He He' H H'.
  assert (P : (e - e') * (e + e') == 0) by (rewrite <- H' in H; lra).
  apply Qmult_integral in P. destruct P as [P|P]; [lra|].
  assert (e == 0) by lra. assert (e' == 0) by lra. lra.
Qed.

(* the error: the diagonal of the covariance is non-negative and its non-negative root is unique,
   so "error >= 0 and error^2 = C_ii" (what the checker evaluates) determines the error *)
Theorem err_sq_is_diag X i :
  0 <= cov_code X i i /\
  forall e e', 0 <= e -> 0 <= e' -> e * e == cov_code X i i -> e' * e' == cov_code X i i -> e == e'.
Proof.
  split.
  - rewrite cov_code_is_spec. apply cov_diag_nonneg.
  - intros e e'. apply nonneg_root_unique.
Qed.

(* ================================================================== resample_jackknife *)
Open Scope nat_scope.

Lemma tile_S {A} (l : list A) m : tile l (S m) = l ++ tile l m.
Proof. reflexivity. Qed.

Lemma tile_length {A} (l : list A) m : length (tile l m) = m * length l.
Proof. induction m as [|m IH]; [reflexivity|]. rewrite tile_S, app_length, IH. simpl. lia. Qed.

Lemma nth_tile N m i : i < N * m -> nth i (tile (seq 0 N) m) 0 = i mod N.
Proof.
  revert i; induction m as [|m IH]; intros i Hi; [lia|].
  assert (HN : N <> 0) by lia.
  rewrite tile_S. destruct (Nat.lt_ge_cases i N) as [Hlt|Hge].
  - rewrite app_nth1 by (rewrite seq_length; exact Hlt).
    rewrite seq_nth by exact Hlt. rewrite Nat.mod_small by exact Hlt. reflexivity.
  - rewrite app_nth2 by (rewrite seq_length; exact Hge). rewrite seq_length.
    rewrite IH by nia.
    replace i with ((i - N) + 1 * N) at 2 by lia. rewrite Nat.mod_add by exact HN. reflexivity.
Qed.

(* np.delete *)
Lemma delete_none {A} s ps (l : list A) :
  (forall j, j < length l -> existsb (Nat.eqb (s + j)) ps = false) -> delete_from s ps l = l.
Proof.
  revert s; induction l as [|x l IH]; intros s H; simpl; [reflexivity|].
  pose proof (H 0 ltac:(simpl; lia)) as H0. rewrite Nat.add_0_r in H0. rewrite H0.
  f_equal. apply IH. intros j Hj. specialize (H (S j) ltac:(simpl; lia)).
  replace (S s + j) with (s + S j) by lia. exact H.
Qed.

Lemma delete_one {A} (l : list A) s i ps :
  (forall j, j < length l -> existsb (Nat.eqb (s + j)) ps = (j =? i)) -> i < length l ->
  delete_from s ps l = remove_nth i l.
Proof.
  revert s i; induction l as [|x l IH]; intros s i H Hi; simpl in Hi; [lia|].
  simpl. pose proof (H 0 ltac:(simpl; lia)) as H0. rewrite Nat.add_0_r in H0. rewrite H0.
  destruct i as [|i]; simpl.
  - apply delete_none. intros j Hj. specialize (H (S j) ltac:(simpl; lia)).
    replace (S s + j) with (s + S j) by lia. exact H.
  - f_equal. apply IH; [|lia]. intros j Hj. specialize (H (S j) ltac:(simpl; lia)).
    replace (S s + j) with (s + S j) by lia. exact H.
Qed.

Lemma delete_app {A} s ps (l1 l2 : list A) :
  delete_from s ps (l1 ++ l2) = delete_from s ps l1 ++ delete_from (s + length l1) ps l2.
Proof.
  revert s; induction l1 as [|x l1 IH]; intros s; simpl.
  - rewrite Nat.add_0_r. reflexivity.
  - rewrite IH. replace (S s + length l1) with (s + S (length l1)) by lia.
    destruct (existsb (Nat.eqb s) ps); reflexivity.
Qed.

Lemma delete_tile {A} s ps (blk : list A) m :
  delete_from s ps (tile blk m)
  = concat (map (fun t => delete_from (s + t * length blk) ps blk) (seq 0 m)).
Proof.
  revert s; induction m as [|m IH]; intros s; [reflexivity|].
  rewrite tile_S, delete_app, IH. change (seq 0 (S m)) with (0 :: seq 1 m).
  rewrite <- seq_shift. simpl. rewrite map_map.
  rewrite Nat.add_0_r. f_equal. f_equal. apply map_ext. intros t. f_equal. lia.
Qed.

Lemma existsb_eqb_in x ps : existsb (Nat.eqb x) ps = true <-> In x ps.
Proof.
  rewrite existsb_exists. split.
  - intros [y [Hy E]]. apply Nat.eqb_eq in E. subst. exact Hy.
  - intros H. exists x. split; [exact H|apply Nat.eqb_refl].
Qed.

(* deleting the first n positions *)
Lemma delete_prefix {A} n s (l : list A) : delete_from s (seq s n) l = skipn n l.
Proof.
  destruct (Nat.le_gt_cases n (length l)) as [Hle|Hgt].
  - rewrite <- (firstn_skipn n l) at 1. rewrite delete_app.
    assert (E1 : delete_from s (seq s n) (firstn n l) = []).
    { assert (G : forall (l0 : list A) s0, (forall j, j < length l0 -> In (s0 + j) (seq s n)) ->
                  delete_from s0 (seq s n) l0 = []).
      { induction l0 as [|x l0 IH0]; intros s0 H; simpl; [reflexivity|].
        pose proof (H 0 ltac:(simpl; lia)) as H0. rewrite Nat.add_0_r in H0.
        apply existsb_eqb_in in H0. rewrite H0. apply IH0. intros j Hj.
        specialize (H (S j) ltac:(simpl; lia)). replace (S s0 + j) with (s0 + S j) by lia. exact H. }
      apply G. intros j Hj. rewrite firstn_length in Hj. apply in_seq. lia. }
    rewrite E1. simpl. apply delete_none. intros j Hj.
    rewrite firstn_length. destruct (existsb (Nat.eqb (s + Nat.min n (length l) + j)) (seq s n)) eqn:E; [|reflexivity].
    apply existsb_eqb_in in E. apply in_seq in E. lia.
  - rewrite skipn_all2 by lia.
    assert (G : forall (l0 : list A) s0, (forall j, j < length l0 -> In (s0 + j) (seq s n)) ->
                delete_from s0 (seq s n) l0 = []).
    { induction l0 as [|x l0 IH0]; intros s0 H; simpl; [reflexivity|].
      pose proof (H 0 ltac:(simpl; lia)) as H0. rewrite Nat.add_0_r in H0.
      apply existsb_eqb_in in H0. rewrite H0. apply IH0. intros j Hj.
      specialize (H (S j) ltac:(simpl; lia)). replace (S s0 + j) with (s0 + S j) by lia. exact H. }
    apply G. intros j Hj. apply in_seq. lia.
Qed.

(* reshape *)
Lemma nth_skipn {A} s t (l : list A) d : nth t (skipn s l) d = nth (s + t) l d.
Proof.
  revert l; induction s as [|s IH]; intros l; [reflexivity|].
  destruct l as [|x l]; simpl; [destruct t; reflexivity|]. apply IH.
Qed.

Lemma firstn_as_map {A} w (l : list A) d : w <= length l -> firstn w l = map (fun t => nth t l d) (seq 0 w).
Proof.
  revert l; induction w as [|w IH]; intros l Hw; [reflexivity|].
  destruct l as [|x l]; simpl in Hw; [lia|].
  simpl. rewrite <- seq_shift, map_map. rewrite (IH l) by lia. reflexivity.
Qed.

Lemma row_as_map {A} s w (l : list A) d :
  s + w <= length l -> firstn w (skipn s l) = map (fun t => nth (s + t) l d) (seq 0 w).
Proof.
  intros H. rewrite (firstn_as_map w (skipn s l) d) by (rewrite skipn_length; lia).
  apply map_ext. intros t. apply nth_skipn.
Qed.

Lemma firstn_app_exact {A} (b r : list A) : firstn (length b) (b ++ r) = b.
Proof. induction b as [|x b IH]; simpl; [destruct r; reflexivity|]. rewrite IH. reflexivity. Qed.

Lemma skipn_app_exact {A} (b r : list A) n : skipn (length b + n) (b ++ r) = skipn n r.
Proof. induction b as [|x b IH]; simpl; [reflexivity|]. exact IH. Qed.

Lemma reshape_block {A} (blocks : list (list A)) w k :
  Forall (fun b => length b = w) blocks -> k < length blocks ->
  firstn w (skipn (k * w) (concat blocks)) = nth k blocks [].
Proof.
  intros H; revert k; induction H as [|b blocks Hb HB IH]; intros k Hk; simpl in Hk; [lia|].
  destruct k as [|k]; simpl.
  - rewrite <- Hb. apply firstn_app_exact.
  - replace (w + k * w) with (length b + k * w) by (rewrite Hb; reflexivity).
    rewrite skipn_app_exact. apply IH. lia.
Qed.

Lemma concat_length_blocks {A} (blocks : list (list A)) w :
  Forall (fun b => length b = w) blocks -> length (concat blocks) = length blocks * w.
Proof. induction 1 as [|b blocks Hb HB IH]; simpl; [reflexivity|]. rewrite app_length, IH, Hb. reflexivity. Qed.

(* ---- the repaired index array: row k = all patches but k, in order ---- *)
Lemma fix_positions N i j : i < N -> j < N ->
  existsb (Nat.eqb (i * N + j)) (map (fun k => k * (N + 1)) (seq 0 N)) = (j =? i).
Proof.
  intros Hi Hj. apply Bool.eq_iff_eq_true. rewrite existsb_eqb_in, in_map_iff, Nat.eqb_eq. split.
  - intros [k [E Hk]]. apply in_seq in Hk.
    assert (k = i); [|subst k; nia].
    destruct (Nat.lt_trichotomy k i) as [L|[L|L]]; [exfalso|exact L|exfalso].
    + assert (k * N + N <= i * N) by nia. nia.
    + assert (i * N + N <= k * N) by nia. nia.
  - intros ->. exists i. split; [lia|]. apply in_seq. lia.
Qed.

Theorem idx_jackknife_fix_rows N : idx_jackknife_fix N = map (fun k => remove_nth k (seq 0 N)) (seq 0 N).
Proof.
  destruct N as [|n]; [reflexivity|]. set (N := S n).
  unfold idx_jackknife_fix, np_delete, reshape_rows.
  rewrite delete_tile. rewrite seq_length. simpl (0 + _).
  set (blocks := map (fun t => delete_from (t * N) (map (fun k => k * (N + 1)) (seq 0 N)) (seq 0 N)) (seq 0 N)).
  assert (EB : blocks = map (fun t => remove_nth t (seq 0 N)) (seq 0 N)).
  { unfold blocks. apply map_ext_in. intros t Ht. apply in_seq in Ht.
    apply delete_one; [|rewrite seq_length; lia].
    intros j Hj. rewrite seq_length in Hj. apply fix_positions; lia. }
  assert (FB : Forall (fun b => length b = N - 1) blocks).
  { rewrite EB. apply Forall_forall. intros b Hb. apply in_map_iff in Hb. destruct Hb as [t [<- Ht]].
    apply in_seq in Ht. rewrite length_remove_nth by (rewrite seq_length; lia). rewrite seq_length. reflexivity. }
  assert (LB : length blocks = N) by (unfold blocks; rewrite map_length, seq_length; reflexivity).
  rewrite (concat_length_blocks blocks (N - 1) FB), LB.
  replace (N * (N - 1) / N) with (N - 1) by (rewrite Nat.mul_comm, Nat.div_mul; lia).
  transitivity (map (fun k => nth k blocks []) (seq 0 N)).
  - apply map_ext_in. intros k Hk. apply in_seq in Hk. apply reshape_block; [exact FB|lia].
  - rewrite <- LB at 1. rewrite map_nth_seq. exact EB.
Qed.

(* ---- the current index array: row k = (k (N-1) + t) mod N, t < N-1 ---- *)
Lemma skipn_tile {A} (l : list A) m : skipn (length l) (tile l (S m)) = tile l m.
Proof. rewrite tile_S. rewrite <- (Nat.add_0_r (length l)). rewrite skipn_app_exact. reflexivity. Qed.

Lemma cur_flat N : delete_from 0 (seq 0 N) (tile (seq 0 N) N) = tile (seq 0 N) (N - 1).
Proof.
  rewrite delete_prefix. destruct N as [|n]; [reflexivity|].
  replace (S n - 1) with n by lia.
  pose proof (skipn_tile (seq 0 (S n)) n) as H. rewrite seq_length in H. exact H.
Qed.

Theorem idx_jackknife_cur_rows N :
  idx_jackknife_cur N = map (fun k => map (fun t => (k * (N - 1) + t) mod N) (seq 0 (N - 1))) (seq 0 N).
Proof.
  destruct N as [|n]; [reflexivity|]. remember (S n) as N eqn:EN.
  unfold idx_jackknife_cur, np_delete, reshape_rows.
  rewrite cur_flat. rewrite tile_length, seq_length.
  replace ((N - 1) * N / N) with (N - 1) by (rewrite Nat.div_mul; lia).
  apply map_ext_in. intros k Hk. apply in_seq in Hk.
  rewrite (row_as_map (k * (N - 1)) (N - 1) _ 0) by (rewrite tile_length, seq_length; nia).
  apply map_ext_in. intros t Ht. apply in_seq in Ht. apply nth_tile. nia.
Qed.

Open Scope Q_scope.

(* a cyclic shift does not change a sum over all residues *)
Lemma qsum_rotate (f : nat -> Q) N s : (0 < N)%nat ->
  qsum (map (fun t => f ((s + t) mod N)%nat) (seq 0 N)) == qsum (map f (seq 0 N)).
Proof.
  intros HN. induction s as [|s IH].
  - apply qsum_ext. intros t Ht. apply in_seq in Ht. simpl. rewrite Nat.mod_small by lia. reflexivity.
  - rewrite <- IH. destruct N as [|n]; [lia|].
    (* left: t = 0..n of f((S s + t) mod N) = t' = 1..n+1 of f((s + t') mod N) *)
    transitivity (qsum (map (fun t => f ((s + t) mod S n)%nat) (seq 1 (S n)))).
    + rewrite <- seq_shift, map_map. apply qsum_ext_all. intros t.
      replace (S s + t)%nat with (s + S t)%nat by lia. reflexivity.
    + remember (fun t => f ((s + t) mod S n)%nat) as g eqn:Eg.
      assert (E : g (S n) == g 0%nat).
      { rewrite Eg. rewrite Nat.add_0_r. replace (s + S n)%nat with (s + 1 * S n)%nat by lia.
        rewrite Nat.mod_add by lia. reflexivity. }
      rewrite seq_S. rewrite map_app, qsum_app.
      change (seq 0 (S n)) with (0%nat :: seq 1 n). cbn [map qsum plus]. rewrite E. ring.
Qed.

Lemma cur_missing N k : (k < N)%nat -> ((k * (N - 1) + (N - 1)) mod N = N - 1 - k)%nat.
Proof.
  intros Hk. replace (k * (N - 1) + (N - 1))%nat with ((N - 1 - k) + k * N)%nat by nia.
  rewrite Nat.mod_add by lia. apply Nat.mod_small. lia.
Qed.

Lemma qsum_seq_last (g : nat -> Q) m : qsum (map g (seq 0 (S m))) == qsum (map g (seq 0 m)) + g m.
Proof. rewrite seq_S, map_app, qsum_app. cbn [map qsum plus]. ring. Qed.

(* sum over row k of the current index array = sum over all patches but N-1-k *)
Lemma cur_row_sum (f : nat -> Q) N k : (k < N)%nat ->
  qsum (map f (nth k (idx_jackknife_cur N) []))
  == qsum (map f (remove_nth (N - 1 - k) (seq 0 N))).
Proof.
  intros Hk. rewrite idx_jackknife_cur_rows.
  rewrite (nth_indep _ [] (map (fun t => ((k * (N - 1) + t) mod N)%nat) (seq 0 (N - 1))))
    by (rewrite map_length, seq_length; exact Hk).
  rewrite (map_nth (fun k0 => map (fun t => ((k0 * (N - 1) + t) mod N)%nat) (seq 0 (N - 1))) (seq 0 N) k k).
  rewrite seq_nth by exact Hk. cbn [plus]. rewrite map_map.
  pose proof (qsum_rotate f N (k * (N - 1)) ltac:(lia)) as R.
  pose proof (cur_missing N k Hk) as Mi.
  pose proof (qsum_remove (map f (seq 0 N)) (N - 1 - k) ltac:(rewrite map_length, seq_length; lia)) as D.
  rewrite <- remove_nth_map in D.
  rewrite (nth_indep _ 0 (f 0%nat)) in D by (rewrite map_length, seq_length; lia).
  rewrite map_nth, seq_nth in D by lia. cbn [plus] in D.
  destruct N as [|m]; [lia|]. replace (S m - 1)%nat with m in * by lia.
  rewrite (qsum_seq_last (fun t => f ((k * m + t) mod S m)%nat) m) in R.
  cbv beta in R. rewrite Mi in R. lra.
Qed.

Lemma vsum_take B obs (row : list nat) :
  vsum B (take_rows obs row) = map (fun b => qsum (map (fun i => nth b (nth i obs []) 0) row)) (seq 0 B).
Proof. unfold vsum, take_rows. apply map_ext. intros b. rewrite map_map. reflexivity. Qed.

(* the current code: row k of the samples is the histogram WITHOUT PATCH N-1-k *)
Theorem hist_resample_cur_order B obs k :
  (k < length obs)%nat ->
  qlist_eq (nth k (hist_samples_cur B obs) []) (vsum B (remove_nth (length obs - 1 - k) obs)).
Proof.
  intros Hk. set (N := length obs). unfold hist_samples_cur, resample. fold N.
  assert (LN : length (idx_jackknife_cur N) = N) by (rewrite idx_jackknife_cur_rows, map_length, seq_length; reflexivity).
  rewrite (nth_indep _ [] (vsum B (take_rows obs []))) by (rewrite map_length, LN; exact Hk).
  rewrite (map_nth (fun row => vsum B (take_rows obs row))).
  rewrite vsum_take. rewrite <- (take_remove obs [] (N - 1 - k)). fold N.
  change (map (fun i : nat => nth i obs []) (remove_nth (N - 1 - k) (seq 0 N)))
    with (take_rows obs (remove_nth (N - 1 - k) (seq 0 N))).
  rewrite (vsum_take B obs (remove_nth (N - 1 - k) (seq 0 N))).
  apply Forall2_map_in. intros b _.
  apply (cur_row_sum (fun i => nth b (nth i obs []) 0) N k Hk).
Qed.

(* ... so the property "row k leaves out patch k" is false of the current code *)
Theorem hist_resample_is_loo_refuted :
  exists B obs k, (k < length obs)%nat /\
    ~ qlist_eq (nth k (hist_samples_cur B obs) []) (nth k (hist_loo B obs) []).
Proof.
  exists 1%nat, [[1]; [2]; [4]], 0%nat. split; [simpl; lia|].
  vm_compute. intros H. inversion H as [|x y l l' E]. subst. vm_compute in E. discriminate.
Qed.

(* the repaired index array gives exactly the leave-one-out histograms, in patch order *)
Theorem hist_resample_fix_is_loo B obs : hist_samples_fix B obs = hist_loo B obs.
Proof.
  unfold hist_samples_fix, hist_loo, resample. rewrite idx_jackknife_fix_rows, map_map.
  apply map_ext. intros k. unfold take_rows. rewrite take_remove. reflexivity.
Qed.

Lemma nth_vsum B rows b : (b < B)%nat -> nth b (vsum B rows) 0 = qsum (map (fun r => nth b r 0) rows).
Proof.
  intros Hb. unfold vsum.
  set (F := fun b0 : nat => qsum (map (fun r : list Q => nth b0 r 0) rows)).
  rewrite (nth_indep (map F (seq 0 B)) 0 (F 0%nat)) by (rewrite map_length, seq_length; exact Hb).
  rewrite (map_nth F). rewrite seq_nth by exact Hb. reflexivity.
Qed.

(* the histogram value is the sum over patches; deleting a patch subtracts its row *)
Theorem hist_loo_is_data_minus_row B obs k b :
  (k < length obs)%nat -> (b < B)%nat ->
  nth b (vsum B (remove_nth k obs)) 0 == nth b (hist_data B obs) 0 - nth b (nth k obs []) 0.
Proof.
  intros Hk Hb. unfold hist_data. rewrite !nth_vsum by exact Hb.
  rewrite remove_nth_map.
  rewrite (qsum_remove (map (fun r => nth b r 0) obs) k) by (rewrite map_length; exact Hk).
  set (G := fun r : list Q => nth b r 0).
  rewrite (nth_indep (map G obs) 0 (G [])) by (rewrite map_length; exact Hk).
  rewrite (map_nth G). unfold G. ring.
Qed.

(* ================================================================== covariance of samples with undefined entries *)
Local Open Scope Q_scope.

Lemma length_col (X : list (list Q)) i : length (col X i) = length X.
Proof. unfold col. apply map_length. Qed.

(* the sum of products of deviations, written on the two columns alone *)
Fixpoint sp2 (mi mj : Q) (ci cj : list Q) : Q :=
  match ci, cj with
  | a :: ci', b :: cj' => (a - mi) * (b - mj) + sp2 mi mj ci' cj'
  | _, _ => 0
  end.

Lemma sumprod_cols_gen (X : list (list Q)) i j mi mj :
  qsum (map (fun r => (nth i r 0 - mi) * (nth j r 0 - mj)) X) == sp2 mi mj (col X i) (col X j).
Proof. induction X as [|r X IH]; simpl; [reflexivity|]. rewrite IH. reflexivity. Qed.

(* entry (i,j) of the covariance is a function of columns i and j of the samples only: whatever
   the other bins hold (in particular something undefined) cannot change it *)
Theorem cov_code_columns (X Y : list (list Q)) i j :
  col X i = col Y i -> col X j = col Y j -> cov_code X i j == cov_code Y i j.
Proof.
  intros Hi Hj.
  assert (L : length X = length Y) by (rewrite <- (length_col X i), Hi; apply length_col).
  unfold cov_code, sumprod, dev, mean_col.
  rewrite (sumprod_cols_gen X), (sumprod_cols_gen Y). rewrite Hi, Hj, L. reflexivity.
Qed.

Lemma col_fill (X : list (list oq)) i : col (fill X) i = map unsome1 (ocol X i).
Proof.
  unfold col, fill, ocol. rewrite !map_map. apply map_ext. intros r.
  exact (map_nth unsome1 r None i).
Qed.

(* where both bins are defined in all samples: the delete-one covariance over ALL samples *)
Theorem cov_opt_defined (X : list (list oq)) i j :
  col_defined X i = true -> col_defined X j = true ->
  exists c, cov_opt X i j = Some c /\ c == cov_spec (fill X) i j.
Proof.
  intros Hi Hj. unfold cov_opt. rewrite Hi, Hj. simpl. eexists. split; [reflexivity|].
  rewrite cov_eval_is_code. apply cov_code_is_spec.
Qed.

(* where one of the two bins has an undefined sample: no value *)
Theorem cov_opt_undefined (X : list (list oq)) i j :
  col_defined X i = false \/ col_defined X j = false -> cov_opt X i j = None.
Proof.
  intros [H|H]; unfold cov_opt; rewrite H; [reflexivity|]. rewrite Bool.andb_false_r. reflexivity.
Qed.

(* two sets of samples that agree in bins i and j have the same entry (i,j), defined or not *)
Theorem cov_opt_columns (X Y : list (list oq)) i j :
  ocol X i = ocol Y i -> ocol X j = ocol Y j ->
  match cov_opt X i j, cov_opt Y i j with
  | Some c, Some c' => c == c'
  | None, None => True
  | _, _ => False
  end.
Proof.
  intros Hi Hj. unfold cov_opt, col_defined. rewrite Hi, Hj.
  destruct (forallb is_some (ocol Y i) && forallb is_some (ocol Y j)); [|exact I].
  rewrite !cov_eval_is_code. apply cov_code_columns; rewrite !col_fill; congruence.
Qed.

(* estimating from the complete samples only is a different matrix, also on the bins that are
   defined in every sample *)
Theorem cov_drop_refuted :
  exists (X : list (list oq)) i j, col_defined X i = true /\ col_defined X j = true /\
    ~ cov_drop X i j == cov_code (fill X) i j.
Proof.
  exists [[Some 1; Some 2; Some 3]; [Some 2; None; Some 5]; [Some 4; Some 1; Some 1]; [Some 0; Some 0; Some 7]],
         0%nat, 2%nat.
  split; [reflexivity|]. split; [reflexivity|]. vm_compute. discriminate.
Qed.

(* positive semi-definite on the defined bins *)
Lemma quad_masked B v (G G' : nat -> nat -> Q) :
  (forall i j, ~ nth i v 0 == 0 -> ~ nth j v 0 == 0 -> G i j == G' i j) -> quad B v G == quad B v G'.
Proof.
  intros H. unfold quad. apply qsum_ext_all. intros i. apply qsum_ext_all. intros j.
  destruct (Qeq_dec (nth i v 0) 0) as [E|E]; [rewrite E; ring|].
  destruct (Qeq_dec (nth j v 0) 0) as [E'|E']; [rewrite E'; ring|].
  rewrite (H i j E E'). reflexivity.
Qed.

Theorem cov_opt_psd (X : list (list oq)) v :
  (forall i, col_defined X i = false -> nth i v 0 == 0) ->
  quad (ncols (fill X)) v (cov_opt0 X) == quad (ncols (fill X)) v (cov_spec (fill X))
  /\ 0 <= quad (ncols (fill X)) v (cov_opt0 X).
Proof.
  intros Hs.
  assert (E : quad (ncols (fill X)) v (cov_opt0 X) == quad (ncols (fill X)) v (cov_spec (fill X))).
  { apply quad_masked. intros i j Hi Hj. unfold cov_opt0.
    destruct (col_defined X i) eqn:Di; [|exfalso; apply Hi, Hs, Di].
    destruct (col_defined X j) eqn:Dj; [|exfalso; apply Hj, Hs, Dj].
    destruct (cov_opt_defined X i j Di Dj) as [c [Ec Hc]]. rewrite Ec. exact Hc. }
  split; [exact E|]. rewrite E.
  pose proof (cov_psd (fill X) v) as P. cbv zeta in P. exact (proj2 P).
Qed.

Lemma mask_from_support (X : list (list oq)) v : forall s i,
  col_defined X (s + i)%nat = false ->
  nth i (mapi_from s (fun k x => if col_defined X k then x else 0) v) 0 == 0.
Proof.
  induction v as [|x v IH]; intros s i H; simpl.
  - destruct i; reflexivity.
  - destruct i; simpl.
    + rewrite Nat.add_0_r in H. rewrite H. reflexivity.
    + apply IH. rewrite <- H. f_equal. lia.
Qed.

(* the probe vectors of the checker are supported on the defined bins *)
Theorem mask_probe_support (X : list (list oq)) v i :
  col_defined X i = false -> nth i (mask_probe X v) 0 == 0.
Proof. intros H. unfold mask_probe. apply mask_from_support. exact H. Qed.

(* ================================================================== magnitudes
   homogeneity of the leave-one-out recount (counts, weights, normalised statistic, histograms,
   covariance) and the refutation of a thresholded variant *)
Lemma qsum_vscale c l : qsum (vscale c l) == c * qsum l.
Proof. unfold vscale. induction l as [|x l IH]; simpl; [ring|]. rewrite IH. ring. Qed.

Lemma nth_vscale c l k : nth k (vscale c l) 0 == c * nth k l 0.
Proof.
  unfold vscale. revert k; induction l as [|x l IH]; intros k; simpl.
  - destruct k; ring.
  - destruct k; [reflexivity | apply IH].
Qed.

Lemma nth_mscale c (M : mat) k : nth k (mscale c M) [] = vscale c (nth k M []).
Proof. unfold mscale. change (@nil Q) with (vscale c []) at 1. apply map_nth. Qed.

Lemma remove_nth_vscale c k l : remove_nth k (vscale c l) = vscale c (remove_nth k l).
Proof. unfold vscale. symmetry. apply remove_nth_map. Qed.

Lemma total_mscale c (M : mat) : total (mscale c M) == c * total M.
Proof.
  unfold total, mscale. induction M as [|r M IH]; simpl; [ring|].
  rewrite IH, qsum_vscale. ring.
Qed.

Lemma del_mscale c k (M : mat) : del k (mscale c M) = mscale c (del k M).
Proof.
  unfold del, mscale. rewrite <- remove_nth_map. rewrite !map_map.
  apply map_ext. intros r. apply remove_nth_vscale.
Qed.

Lemma rowsum_mscale c (M : mat) k : rowsum (mscale c M) k == c * rowsum M k.
Proof. unfold rowsum. rewrite nth_mscale. apply qsum_vscale. Qed.

Lemma colsum_mscale c (M : mat) k : colsum (mscale c M) k == c * colsum M k.
Proof.
  unfold colsum, mscale. induction M as [|r M IH]; simpl; [ring|].
  rewrite IH, nth_vscale. ring.
Qed.

Lemma diag_mscale c (M : mat) k : diag (mscale c M) k == c * diag M k.
Proof. unfold diag. rewrite nth_mscale. apply nth_vscale. Qed.

(* the specification is homogeneous: every matrix, every k *)
Theorem loo_scale c (M : mat) k : loo (mscale c M) k == c * loo M k.
Proof. unfold loo. rewrite del_mscale. apply total_mscale. Qed.

(* and so is the code's total - row - column + diagonal *)
Theorem sample_scale c (M : mat) k : sample (mscale c M) k == c * sample M k.
Proof.
  unfold sample. rewrite total_mscale, colsum_mscale, rowsum_mscale, diag_mscale. ring.
Qed.

Lemma upper_half_sum_scale a b u v :
  upper_half_sum (vscale a u) (vscale b v) == a * b * upper_half_sum u v.
Proof.
  revert v; induction u as [|x u IH]; intros v; simpl; [ring|].
  destruct v as [|y v]; simpl; [ring|].
  fold (vscale a u). fold (vscale b v). rewrite IH, qsum_vscale. ring.
Qed.

(* the normalisation: weights of the first catalog times a, of the second times b *)
Theorem norm_denominator_scale auto a b u v :
  norm_denominator auto (vscale a u) (vscale b v) == a * b * norm_denominator auto u v.
Proof.
  destruct auto; simpl; [apply upper_half_sum_scale|].
  rewrite !qsum_vscale. ring.
Qed.

Lemma length_vscale c l : length (vscale c l) = length l.
Proof. unfold vscale. apply map_length. Qed.

Theorem weights_sample_scale auto a b u v k :
  (k < length u)%nat -> (k < length v)%nat ->
  sample (weights_array auto (vscale a u) (vscale b v)) k == a * b * sample (weights_array auto u v) k.
Proof.
  intros Hu Hv.
  rewrite (weights_sample auto (vscale a u) (vscale b v) k) by (rewrite length_vscale; assumption).
  rewrite (weights_sample auto u v k Hu Hv).
  rewrite !remove_nth_vscale. apply norm_denominator_scale.
Qed.

Lemma Qdiv_scale (c d t n : Q) : ~ d == 0 -> (c * t) / (d * n) == (c / d) * (t / n).
Proof.
  intros Hd. destruct (Qeq_dec n 0) as [Hn|Hn].
  - rewrite Hn. unfold Qdiv. setoid_replace (d * 0) with 0 by ring.
    change (/ 0) with 0. ring.
  - field. split; assumption.
Qed.

(* the statistic: counts times c, weights times a and b *)
Theorem nc_stat_scale auto c a b (M : mat) u v :
  ~ a * b == 0 ->
  nc_stat auto (mscale c M) (vscale a u) (vscale b v) == (c / (a * b)) * nc_stat auto M u v.
Proof.
  intros H. unfold nc_stat. rewrite total_mscale, norm_denominator_scale. apply Qdiv_scale. exact H.
Qed.

(* object weights times a resp. b: pair counts are sums of products of weights *)
Corollary nc_stat_weight_invariant auto a b (M : mat) u v :
  ~ a * b == 0 ->
  nc_stat auto (mscale (a * b) M) (vscale a u) (vscale b v) == nc_stat auto M u v.
Proof.
  intros H. rewrite nc_stat_scale by exact H. unfold Qdiv at 1. rewrite (Qmult_inv_r _ H). ring.
Qed.

Theorem nc_sample_scale auto c a b (M : mat) u v k :
  (k < length u)%nat -> (k < length v)%nat -> ~ a * b == 0 ->
  nc_sample auto (mscale c M) (vscale a u) (vscale b v) k == (c / (a * b)) * nc_sample auto M u v k.
Proof.
  intros Hu Hv H. unfold nc_sample. rewrite sample_scale, weights_sample_scale by assumption.
  apply Qdiv_scale. exact H.
Qed.

Corollary nc_sample_weight_invariant auto a b (M : mat) u v k :
  (k < length u)%nat -> (k < length v)%nat -> ~ a * b == 0 ->
  nc_sample auto (mscale (a * b) M) (vscale a u) (vscale b v) k == nc_sample auto M u v k.
Proof.
  intros Hu Hv H. rewrite nc_sample_scale by assumption.
  unfold Qdiv at 1. rewrite (Qmult_inv_r _ H). ring.
Qed.

(* ---- the thresholded variant *)
Lemma snap_above eps x : eps < Qabs x -> snap eps x = x.
Proof.
  intros H. unfold snap. destruct (Qleb (Qabs x) eps) eqn:E; [|reflexivity].
  apply Qleb_le in E. exfalso. apply (Qlt_not_le _ _ H E).
Qed.

Lemma snap_below eps x : Qabs x <= eps -> snap eps x = 0.
Proof. intros H. unfold snap. apply Qleb_le in H. rewrite H. reflexivity. Qed.

(* invisible while the leave-one-out sums are larger than the threshold ... *)
Theorem sample_thr_above eps (M : mat) k : eps < Qabs (sample M k) -> sample_thr eps M k == sample M k.
Proof. intros H. unfold sample_thr. rewrite (snap_above _ _ H). reflexivity. Qed.

(* ... but for every positive threshold not the leave-one-out sum *)
Theorem sample_thr_not_loo eps : 0 < eps ->
  exists (M : mat) k, square 2 M /\ (k < 2)%nat /\ ~ sample_thr eps M k == loo M k.
Proof.
  intros He. exists [[eps; 0]; [0; eps]], 0%nat.
  split; [split; [reflexivity | repeat constructor]|]. split; [lia|].
  assert (S : sample [[eps; 0]; [0; eps]] 0 == eps) by (unfold sample, total, colsum, rowsum, diag; simpl; ring).
  assert (L : loo [[eps; 0]; [0; eps]] 0 == eps) by (unfold loo, del, total; simpl; ring).
  unfold sample_thr. rewrite snap_below.
  - rewrite L. intros C. rewrite <- C in He. apply (Qlt_irrefl 0 He).
  - rewrite S. rewrite Qabs_pos by (apply Qlt_le_weak; exact He). apply Qle_refl.
Qed.

(* not homogeneous: the same counts in other units give other samples *)
Theorem sample_thr_not_homogeneous :
  exists eps (M : mat) k c, 0 < eps /\ 0 < c /\ ~ sample_thr eps (mscale c M) k == c * sample_thr eps M k.
Proof.
  exists (1 # 100000000), [[3; 1]; [2; 5]], 0%nat, (1 # 1099511627776).
  split; [reflexivity|]. split; [reflexivity|]. vm_compute. discriminate.
Qed.

(* the normalised count is not invariant under a rescaling of the object weights *)
Theorem nc_sample_thr_weight_refuted :
  exists eps auto (M : mat) u v k a, 0 < eps /\ 0 < a /\
    ~ nc_sample_thr eps auto (mscale (a * a) M) (vscale a u) (vscale a v) k == nc_sample_thr eps auto M u v k.
Proof.
  exists (1 # 100000000), false, [[3; 1; 0]; [2; 5; 1]; [0; 4; 2]], [2; 3; 1], [1; 1; 4], 1%nat, (1 # 1048576).
  split; [reflexivity|]. split; [reflexivity|]. vm_compute. discriminate.
Qed.

(* ---- histograms and the covariance *)
Lemma nth_vsum_all B rows b : nth b (vsum B rows) 0 == (if (b <? B)%nat then qsum (map (fun r => nth b r 0) rows) else 0).
Proof.
  destruct (b <? B)%nat eqn:E.
  - apply Nat.ltb_lt in E. rewrite nth_vsum by exact E. reflexivity.
  - apply Nat.ltb_ge in E. unfold vsum. rewrite nth_overflow; [reflexivity|]. rewrite map_length, seq_length. exact E.
Qed.

Lemma qsum_col_mscale c (X : list (list Q)) b :
  qsum (map (fun r => nth b r 0) (mscale c X)) == c * qsum (map (fun r => nth b r 0) X).
Proof.
  unfold mscale. induction X as [|r X IH]; simpl; [ring|]. rewrite IH, nth_vscale. ring.
Qed.

Theorem hist_loo_scale c B obs k b :
  nth b (vsum B (remove_nth k (mscale c obs))) 0 == c * nth b (vsum B (remove_nth k obs)) 0.
Proof.
  unfold mscale. rewrite <- remove_nth_map. fold (mscale c (remove_nth k obs)).
  rewrite !nth_vsum_all. destruct (b <? B)%nat; [apply qsum_col_mscale | ring].
Qed.

Lemma length_mscale c (X : list (list Q)) : length (mscale c X) = length X.
Proof. unfold mscale. apply map_length. Qed.

Lemma mean_col_mscale c X i : mean_col (mscale c X) i == c * mean_col X i.
Proof.
  unfold mean_col, col. rewrite length_mscale, qsum_col_mscale. unfold Qdiv. ring.
Qed.

Lemma sumprod_mscale c X i j : sumprod (mscale c X) i j == c * c * sumprod X i j.
Proof.
  unfold sumprod.
  assert (E : forall f : list Q -> Q, map f (mscale c X) = map (fun r => f (vscale c r)) X)
    by (intros f; unfold mscale; apply map_map).
  rewrite E. rewrite (qsum_scal (c * c)). apply qsum_ext_all. intros r. unfold dev.
  rewrite !mean_col_mscale, !nth_vscale. ring.
Qed.

(* samples times c: covariance times c^2 (errors times |c|) *)
Theorem cov_code_scale c X i j : cov_code (mscale c X) i j == c * c * cov_code X i j.
Proof. unfold cov_code. rewrite sumprod_mscale, length_mscale. ring. Qed.

(* ================================================================== derived containers
   (.patches[I], .bins[J], +, * scalar before sample_patch_sum / CorrFunc.sample) *)
Lemma remove_nth_vsel I u k : remove_nth k (vsel I u) = vsel (remove_nth k I) u.
Proof. unfold vsel. symmetry. apply remove_nth_map. Qed.

(* leaving out the k-th patch of a selection = selecting without the k-th entry of the index list:
   any index list (any order, repetitions, out of range), any matrix *)
Theorem del_msel I (M : mat) k : del k (msel I M) = msel (remove_nth k I) M.
Proof.
  unfold del, msel. rewrite <- remove_nth_map. rewrite map_map. apply map_ext.
  intros i. apply remove_nth_vsel.
Qed.

Theorem loo_msel I (M : mat) k : loo (msel I M) k = total (msel (remove_nth k I) M).
Proof. unfold loo. rewrite del_msel. reflexivity. Qed.

Lemma length_vsel I u : length (vsel I u) = length I.
Proof. unfold vsel. apply map_length. Qed.

Lemma msel_square I (M : mat) : square (length I) (msel I M).
Proof.
  unfold square, msel. split; [apply map_length|]. apply Forall_forall. intros r Hr.
  apply in_map_iff in Hr. destruct Hr as [i [<- _]]. apply length_vsel.
Qed.

(* sample_patch_sum of the selected container: total - row - column + diagonal of the sub-matrix
   is the total over the selected patches without the k-th selected one *)
Theorem sample_msel I (M : mat) k :
  (k < length I)%nat -> sample (msel I M) k == total (msel (remove_nth k I) M).
Proof.
  intros Hk. rewrite <- loo_msel. apply (sample_is_loo_square (length I)); [apply msel_square | exact Hk].
Qed.

(* NormalisedCounts.patches[I], one bin: sample k is the normalised count of the original data
   restricted to the selection without its k-th entry - counts and both weight vectors alike *)
Theorem nc_sample_sel_is_recount auto I (M : mat) u v k :
  (k < length I)%nat ->
  nc_sample_sel auto I M u v k == nc_stat_sel auto (remove_nth k I) M u v.
Proof.
  intros Hk. unfold nc_sample_sel, nc_sample, nc_stat_sel.
  etransitivity.
  - apply (normalised_sample_is_recount (length I)); [apply msel_square | apply length_vsel | apply length_vsel | exact Hk].
  - rewrite del_msel, !remove_nth_vsel. reflexivity.
Qed.

(* a selection of a selection is the selection by the composed index list *)
Lemma nth_map_lt {A B} (f : A -> B) l d d' j : (j < length l)%nat -> nth j (map f l) d' = f (nth j l d).
Proof.
  intros Hj. rewrite (nth_indep _ d' (f d)) by (rewrite map_length; exact Hj). apply map_nth.
Qed.

Lemma vsel_vsel I J u : Forall (fun j => (j < length I)%nat) J -> vsel J (vsel I u) = vsel (isel I J) u.
Proof.
  intros H. unfold vsel at 1 3. unfold isel. rewrite map_map. apply map_ext_in. intros j Hj.
  rewrite Forall_forall in H. unfold vsel. apply (nth_map_lt (fun i => nth i u 0) I 0%nat). apply H. exact Hj.
Qed.

Theorem msel_msel I J (M : mat) :
  Forall (fun j => (j < length I)%nat) J -> msel J (msel I M) = msel (isel I J) M.
Proof.
  intros H. unfold msel at 1 3. unfold isel at 2. rewrite map_map. apply map_ext_in. intros j Hj.
  assert (Hlt : (j < length I)%nat) by (rewrite Forall_forall in H; apply H; exact Hj).
  unfold msel. rewrite (nth_map_lt (fun i => vsel I (nth i M [])) I 0%nat [] j Hlt).
  apply vsel_vsel. exact H.
Qed.

(* selecting the pair counts by the ascending patch ids and the sums of weights by the caller's
   index list: the totals agree (the same patches), the jackknife samples are not the statistic
   without the k-th selected patch *)
Theorem nc_sample_sel_mixed_refuted :
  exists auto I (M : mat) u v k, (k < length I)%nat /\
    total (msel (sort_nat I) M) == total (msel I M) /\
    ~ nc_sample_sel_mixed auto I M u v k == nc_stat_sel auto (remove_nth k I) M u v.
Proof.
  exists false, [1%nat; 0%nat], [[1; 2]; [3; 4]], [1; 2], [1; 1], 0%nat.
  split; [simpl; lia|]. split; [reflexivity|]. vm_compute. discriminate.
Qed.

(* repeated application, all bins, counts and both sums of weights *)
Theorem derive_patches_twice I J (a : arrs) :
  Forall (fun j => (j < length I)%nat) J ->
  derive [D_patches I; D_patches J] a = derive [D_patches (isel I J)] a.
Proof.
  intros H. destruct a as [[C U] V]. unfold derive. simpl. rewrite !map_map.
  f_equal; [f_equal|]; apply map_ext; intros x; [apply msel_msel | apply vsel_vsel | apply vsel_vsel]; exact H.
Qed.
