(* proofs about Model/PatchPath.v : the patch folder name round-trips to its id for EVERY cache directory string *)
From Verif Require Import PatchPath.
From Coq Require Import String Ascii List Arith DecimalString DecimalNat DecimalFacts Decimal Bool Lia.
Import ListNotations.
Open Scope string_scope.

(* ---------- decimal digits ---------- *)
Definition is_digit (c : ascii) : bool := andb (Nat.leb 48 (nat_of_ascii c)) (Nat.leb (nat_of_ascii c) 57).
Fixpoint all_chars (P : ascii -> bool) (s : string) : bool :=
  match s with EmptyString => true | String c t => P c && all_chars P t end.

Lemma uint_digits d : all_chars is_digit (NilEmpty.string_of_uint d) = true.
Proof. induction d; simpl; try reflexivity; exact IHd. Qed.

Lemma to_uint_nonnil n : Nat.to_uint n <> Nil.
Proof.
  rewrite <- (Unsigned.of_to n) at 1. rewrite Unsigned.to_of. unfold unorm.
  destruct (nzhead (Nat.to_uint n)); discriminate.
Qed.

Lemma dec_digits n : all_chars is_digit (dec n) = true.
Proof. apply uint_digits. Qed.

Lemma dec_nonempty n : dec n <> "".
Proof.
  unfold dec. intro H. apply (to_uint_nonnil n).
  destruct (Nat.to_uint n); simpl in H; try discriminate. reflexivity.
Qed.

Lemma parse_dec n : parse_nat (dec n) = Some n.
Proof.
  unfold parse_nat. destruct (dec n) eqn:E; [exfalso; exact (dec_nonempty n E)|].
  rewrite <- E. unfold dec. rewrite NilEmpty.usu. simpl. rewrite Unsigned.of_to. reflexivity.
Qed.

(* ---------- strings ---------- *)
Lemma sapp_nil_r s : s ++ "" = s.
Proof. induction s as [|c t IH]; simpl; [reflexivity|rewrite IH; reflexivity]. Qed.
Lemma sapp_assoc a b c : (a ++ b) ++ c = a ++ b ++ c.
Proof. induction a as [|x t IH]; simpl; [reflexivity|rewrite IH; reflexivity]. Qed.

Lemma all_chars_impl (P Q : ascii -> bool) s :
  (forall c, P c = true -> Q c = true) -> all_chars P s = true -> all_chars Q s = true.
Proof.
  intro H. induction s as [|c t IH]; simpl; [reflexivity|]. intro Hs.
  apply andb_true_iff in Hs as [Hc Ht]. rewrite (H c Hc), (IH Ht). reflexivity.
Qed.

Lemma all_chars_app P a b : all_chars P (a ++ b) = all_chars P a && all_chars P b.
Proof. induction a as [|c t IH]; simpl; [reflexivity|rewrite IH, andb_assoc; reflexivity]. Qed.

Lemma digit_not c x : is_digit x = false -> is_digit c = true -> negb (Ascii.eqb c x) = true.
Proof.
  intros Hx Hc. apply negb_true_iff. destruct (Ascii.eqb c x) eqn:E; [|reflexivity].
  apply Ascii.eqb_eq in E. subst. congruence.
Qed.

(* ---------- split and basename on strings without the separator ---------- *)
Lemma split_acc_nosep s cur :
  all_chars (fun c => negb (Ascii.eqb c "_")) s = true -> split_acc s cur = [cur ++ s].
Proof.
  revert cur. induction s as [|c t IH]; simpl; intros cur H.
  - rewrite sapp_nil_r. reflexivity.
  - apply andb_true_iff in H as [Hc Ht]. apply negb_true_iff in Hc. rewrite Hc.
    rewrite IH by exact Ht. rewrite sapp_assoc. reflexivity.
Qed.

Lemma basename_acc_nosep s cur :
  all_chars (fun c => negb (Ascii.eqb c "/")) s = true -> basename_acc s cur = cur ++ s.
Proof.
  revert cur. induction s as [|c t IH]; simpl; intros cur H.
  - rewrite sapp_nil_r. reflexivity.
  - apply andb_true_iff in H as [Hc Ht]. apply negb_true_iff in Hc. rewrite Hc.
    rewrite IH by exact Ht. rewrite sapp_assoc. reflexivity.
Qed.

Lemma basename_acc_app a b cur : basename_acc (a ++ b) cur = basename_acc b (basename_acc a cur).
Proof.
  revert cur. induction a as [|c t IH]; simpl; intro cur; [reflexivity|].
  destruct (Ascii.eqb c "/"); apply IH.
Qed.

(* ---------- the round trip ---------- *)
Lemma split_patch_name n : split_us (patch_name n) = ["patch"; dec n].
Proof.
  unfold split_us, patch_name. simpl. rewrite split_acc_nosep; [reflexivity|].
  eapply all_chars_impl; [|apply dec_digits]. intros c Hc. apply digit_not; [reflexivity|exact Hc].
Qed.

Theorem id_of_patch_name n : id_of_name (patch_name n) = Some n.
Proof. unfold id_of_name. rewrite split_patch_name. apply parse_dec. Qed.

Lemma patch_name_noslash n : all_chars (fun c => negb (Ascii.eqb c "/")) (patch_name n) = true.
Proof.
  unfold patch_name. rewrite all_chars_app. apply andb_true_iff. split; [reflexivity|].
  eapply all_chars_impl; [|apply dec_digits]. intros c Hc. apply digit_not; [reflexivity|exact Hc].
Qed.

Theorem basename_patch_path dir n : basename (patch_path dir n) = patch_name n.
Proof.
  unfold basename, patch_path. rewrite basename_acc_app. simpl.
  rewrite basename_acc_nosep by apply patch_name_noslash. reflexivity.
Qed.

(* for EVERY cache directory string and every id *)
Theorem id_roundtrip dir n : id_of_path (patch_path dir n) = Some n.
Proof. unfold id_of_path. rewrite basename_patch_path. apply id_of_patch_name. Qed.

(* distinct patches of one catalog never share a folder, and two ids never read as one *)
Theorem patch_path_inj dir i j : patch_path dir i = patch_path dir j -> i = j.
Proof.
  intro H. assert (E : id_of_path (patch_path dir i) = id_of_path (patch_path dir j)) by (rewrite H; reflexivity).
  rewrite !id_roundtrip in E. injection E as E. exact E.
Qed.

(* the dictionary load_patches builds, {id_of_path p : Patch(p)} over the paths of the stored ids, has exactly the
   stored ids as keys, in the same order *)
Theorem load_keys dir ids : map (fun p => id_of_path p) (map (patch_path dir) ids) = map Some ids.
Proof. rewrite map_map. apply map_ext. intro n. apply id_roundtrip. Qed.

(* a search over the whole path string is wrong as soon as a parent folder looks like a patch folder *)
Theorem id_search_refuted : exists dir n, id_of_path_search (patch_path dir n) <> Some n.
Proof. exists "/data/npatch_8/reference", 12. vm_compute. discriminate. Qed.
