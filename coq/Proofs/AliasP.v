From Verif Require Import Alias.
From Coq Require Import List Arith Bool.
Import ListNotations.

Section AliasP.
  Context {V : Type}.

  Theorem copy_update_keeps_store (f : list V -> list V) (s : @store V) p :
    fst (caller_update f s (get_copy s p)) = s.
  Proof. reflexivity. Qed.

  Theorem copy_update_keeps_metadata (f : list V -> list V) (meta : list V -> nat) (m : nat -> nat) (s : @store V) p :
    describes meta m s -> describes meta m (fst (caller_update f s (get_copy s p))).
  Proof. intro H. exact H. Qed.

  Theorem view_update_reaches_store (f : list V -> list V) (s : @store V) p :
    fst (caller_update f s (get_view s p)) p = f (s p).
  Proof. unfold caller_update, get_view. simpl. rewrite Nat.eqb_refl. reflexivity. Qed.
End AliasP.

Theorem view_update_breaks_metadata_refuted :
  exists (f : list nat -> list nat) (meta : list nat -> nat) (m : nat -> nat) (s : @store nat) p,
    describes meta m s /\ ~ describes meta m (fst (caller_update f s (get_view s p))).
Proof.
  exists (map (fun x => 2 * x)), (fun l => fold_right Nat.add 0 l), (fun _ => 6), (fun _ => [1; 2; 3]), 0.
  split; [intro p; reflexivity|]. intro H. specialize (H 0). vm_compute in H. discriminate.
Qed.
