(* Proofs about the decoding of legacy pair-count files (Model/LegacyCounts.v), C04. *)
From Verif Require Import Prelude Jackknife JackknifeP Estimators EstimatorsP LegacyCounts.
Open Scope Q_scope.

(* ------------------------------------------------ transposition *)
Lemma transpose_length B M : length (transpose B M) = B.
Proof. unfold transpose. rewrite map_length, seq_length. reflexivity. Qed.

Lemma transpose_row B M b : (b < B)%nat -> nth b (transpose B M) [] = map (fun r => nth b r 0) M.
Proof.
  intros Hb. unfold transpose.
  rewrite (nth_indep _ [] (map (fun r : list Q => nth 0%nat r 0) M)) by (rewrite map_length, seq_length; exact Hb).
  change (map (fun r : list Q => nth 0%nat r 0) M) with ((fun b0 : nat => map (fun r : list Q => nth b0 r 0) M) 0%nat).
  rewrite map_nth. rewrite seq_nth by exact Hb. reflexivity.
Qed.

Lemma nth_nil_q (b : nat) : nth b (@nil Q) 0 = 0.
Proof. destruct b; reflexivity. Qed.

(* entry (bin b, patch i) of the transposed table is entry (patch i, bin b) of the legacy table *)
Lemma transpose_entry B M b i : (b < B)%nat -> nth i (nth b (transpose B M) []) 0 = nth b (nth i M []) 0.
Proof.
  intros Hb. rewrite transpose_row by exact Hb.
  rewrite <- (nth_nil_q b) at 1.
  exact (map_nth (fun r : list Q => nth b r 0) M [] i).
Qed.

(* ------------------------------------------------ the roles are kept *)
(* sum_weights1 is totals1 and sum_weights2 is totals2, entry by entry (bins and patches exchanged) *)
Theorem decode_keeps_roles B l b i : (b < B)%nat ->
  nth i (nth b (pc_w1 (decode B l)) []) 0 = nth b (nth i (lg_totals1 l) []) 0
  /\ nth i (nth b (pc_w2 (decode B l)) []) 0 = nth b (nth i (lg_totals2 l) []) 0.
Proof. intros Hb. split; simpl; apply transpose_entry; exact Hb. Qed.

Theorem decode_keeps_auto_and_shape B l :
  pc_auto (decode B l) = lg_auto l /\ length (pc_w1 (decode B l)) = B /\ length (pc_w2 (decode B l)) = B
  /\ pc_bins (decode B l) = B.
Proof.
  repeat split; simpl; try apply transpose_length.
  unfold pc_bins, decode, scatter; simpl. rewrite map_length, seq_length. reflexivity.
Qed.

(* the total weight of a sample in bin b, after decoding = the column sum of its legacy table *)
Theorem decode_totals B l b : (b < B)%nat ->
  qsum (nth b (pc_w1 (decode B l)) []) = legacy_total1 l b
  /\ qsum (nth b (pc_w2 (decode B l)) []) = legacy_total2 l b.
Proof. intros Hb. split; simpl; rewrite transpose_row by exact Hb; reflexivity. Qed.

(* ------------------------------------------------ the normalisation uses BOTH samples' totals *)
Theorem decode_cross_denominator B l b : (b < B)%nat -> lg_auto l = false ->
  norm_denominator (pc_auto (decode B l)) (nth b (pc_w1 (decode B l)) []) (nth b (pc_w2 (decode B l)) [])
  == legacy_total1 l b * legacy_total2 l b.
Proof.
  intros Hb Ha. destruct (decode_totals B l b Hb) as [H1 H2].
  change (pc_auto (decode B l)) with (lg_auto l). rewrite Ha. unfold norm_denominator.
  rewrite H1, H2. reflexivity.
Qed.

(* an autocorrelation of one sample with itself (both tables equal): half the squared total *)
Theorem decode_auto_denominator B l b : (b < B)%nat -> lg_auto l = true -> lg_totals2 l = lg_totals1 l ->
  norm_denominator (pc_auto (decode B l)) (nth b (pc_w1 (decode B l)) []) (nth b (pc_w2 (decode B l)) [])
  == (1 # 2) * (legacy_total1 l b * legacy_total1 l b).
Proof.
  intros Hb Ha He. destruct (decode_totals B l b Hb) as [H1 _].
  change (pc_auto (decode B l)) with (lg_auto l). rewrite Ha. unfold norm_denominator.
  change (pc_w2 (decode B l)) with (transpose B (lg_totals2 l)). rewrite He.
  change (transpose B (lg_totals1 l)) with (pc_w1 (decode B l)).
  rewrite upper_half_sum_sq. rewrite H1. reflexivity.
Qed.

Lemma map2_nth_gen {A B C} (f : A -> B -> C) l1 l2 k da db dc :
  (k < length l1)%nat -> (k < length l2)%nat -> nth k (map2 f l1 l2) dc = f (nth k l1 da) (nth k l2 db).
Proof.
  revert l2 k. induction l1 as [|a l1 IH]; intros [|b l2] k H1 H2; simpl in *; try lia.
  destruct k; [reflexivity|]. apply IH; lia.
Qed.

Lemma map2_length_eq {A B C} (f : A -> B -> C) l1 l2 n : length l1 = n -> length l2 = n -> length (map2 f l1 l2) = n.
Proof.
  revert l2 n. induction l1 as [|a l1 IH]; intros [|b l2] n H1 H2; simpl in *; try lia.
  destruct n; [lia|]. f_equal. apply IH; lia.
Qed.

(* the documented term of bin b of a decoded cross-correlation member: the bin's total pair count over
   the product of the total weights of sample 1 (totals1) and of sample 2 (totals2) *)
Theorem decode_cross_term B l b : (b < B)%nat -> lg_auto l = false ->
  fst (nth b (pc_data_doc (decode B l)) dq0)
  == total (nth b (pc_counts (decode B l)) []) / (legacy_total1 l b * legacy_total2 l b).
Proof.
  intros Hb Ha. unfold pc_data_doc.
  destruct (decode_keeps_auto_and_shape B l) as (_ & L1 & L2 & LB). unfold pc_bins in LB.
  rewrite (map2_nth_gen ddiv _ _ b 0 0 dq0).
  2:{ rewrite map_length, LB. exact Hb. }
  2:{ rewrite (map2_length_eq (norm_denominator (pc_auto (decode B l))) _ _ B L1 L2). exact Hb. }
  unfold ddiv; simpl fst.
  change 0 with (total []) at 1. rewrite (map_nth total).
  rewrite (map2_nth_gen (norm_denominator (pc_auto (decode B l))) _ _ b [] [] 0) by (simpl; rewrite transpose_length; exact Hb).
  rewrite (decode_cross_denominator B l b Hb Ha). reflexivity.
Qed.

(* ------------------------------------------------ totals1 taken twice *)
(* invisible whenever the two samples of the member have the same totals ... *)
Theorem decode_first_twice_agrees_equal_totals B l :
  lg_totals2 l = lg_totals1 l -> decode_first_twice B l = decode B l.
Proof. intros He. unfold decode_first_twice, decode. rewrite He. reflexivity. Qed.

(* ... since it divides by the SQUARE of the first sample's total ... *)
Theorem decode_first_twice_denominator B l b : (b < B)%nat -> lg_auto l = false ->
  norm_denominator (pc_auto (decode_first_twice B l)) (nth b (pc_w1 (decode_first_twice B l)) [])
                   (nth b (pc_w2 (decode_first_twice B l)) [])
  == legacy_total1 l b * legacy_total1 l b.
Proof.
  intros Hb Ha. change (pc_auto (decode_first_twice B l)) with (lg_auto l). rewrite Ha. unfold norm_denominator.
  simpl. rewrite transpose_row by exact Hb. reflexivity.
Qed.

(* ... and refuted by a cross-correlation member whose samples weigh 2 and 8: 6 pairs / (2 * 8), not 6 / 4 *)
Definition lg_example : legacy :=
  {| lg_auto := false; lg_npatch := 2; lg_keys := [(0, 1); (1, 0); (1, 1)]%nat;
     lg_data := [[1; 2]; [2; 0]; [3; 4]];
     lg_totals1 := [[1; 3]; [1; 1]];
     lg_totals2 := [[5; 2]; [3; 2]] |}.

Theorem decode_first_twice_refuted : exists B l,
  legacy_wf B l = true /\ lg_auto l = false
  /\ fst (nth 0 (pc_data_doc (decode B l)) dq0) == legacy_term l 0
  /\ ~ fst (nth 0 (pc_data_doc (decode_first_twice B l)) dq0) == legacy_term l 0
  /\ pc_eqb (decode_first_twice B l) (decode B l) = false.
Proof.
  exists 2%nat, lg_example. repeat split; try (vm_compute; reflexivity).
  vm_compute. discriminate.
Qed.

(* ------------------------------------------------ the two roles exchanged *)
(* no term of a cross-correlation notices: value and every leave-one-out denominator commute ... *)
Theorem swapped_same_cross_denominator u v :
  norm_denominator false u v == norm_denominator false v u
  /\ forall k, norm_denominator false (remove_nth k u) (remove_nth k v)
               == norm_denominator false (remove_nth k v) (remove_nth k u).
Proof. split; [|intros k]; unfold norm_denominator; apply Qmult_comm. Qed.

Theorem decode_swapped_same_cross_denominator B l b : (b < B)%nat -> lg_auto l = false ->
  norm_denominator (pc_auto (decode_swapped B l)) (nth b (pc_w1 (decode_swapped B l)) [])
                   (nth b (pc_w2 (decode_swapped B l)) [])
  == legacy_total1 l b * legacy_total2 l b.
Proof.
  intros Hb Ha. change (pc_auto (decode_swapped B l)) with (lg_auto l). rewrite Ha. unfold norm_denominator.
  simpl. rewrite !transpose_row by exact Hb. apply Qmult_comm.
Qed.

(* ... but the stored fields do, and so does the data-random term of an autocorrelation
   (sum_{i<j} u_i v_j + 1/2 sum_i u_i v_i is not symmetric in u and v) *)
Definition lg_example_auto : legacy :=
  {| lg_auto := true; lg_npatch := 2; lg_keys := [(0, 0); (0, 1); (1, 1)]%nat;
     lg_data := [[1]; [2]; [3]];
     lg_totals1 := [[1]; [3]];
     lg_totals2 := [[8]; [2]] |}.

Theorem decode_swapped_refuted :
  (exists B l, legacy_wf B l = true /\ lg_auto l = false
     /\ qlist_eqb (map fst (pc_data_doc (decode_swapped B l))) (map fst (pc_data_doc (decode B l))) = true
     /\ pc_eqb (decode_swapped B l) (decode B l) = false)
  /\ (exists B l, legacy_wf B l = true /\ lg_auto l = true
     /\ qlist_eqb (map fst (pc_data_doc (decode_swapped B l))) (map fst (pc_data_doc (decode B l))) = false).
Proof.
  split.
  - exists 2%nat, lg_example. repeat split; vm_compute; reflexivity.
  - exists 1%nat, lg_example_auto. repeat split; vm_compute; reflexivity.
Qed.

(* ------------------------------------------------ a table not transposed *)
(* with as many patches as bins the shapes fit and patches and bins are exchanged silently *)
Theorem decode_untransposed_square_refuted : exists B l,
  legacy_wf B l = true /\ lg_npatch l = B
  /\ length (pc_w1 (decode_untransposed B l)) = B
  /\ rectb (lg_npatch l) (pc_w1 (decode_untransposed B l)) = true
  /\ pc_eqb (decode_untransposed B l) (decode B l) = false.
Proof. exists 2%nat, lg_example. repeat split; vm_compute; reflexivity. Qed.

(* ------------------------------------------------ the reading loop *)
(* zeros + set_patch_pair per key = the dense table of `scatter`, on the examples (the checker
   c04_legacy_case evaluates this equation on every case: bit 32) *)
Example decode_loop_examples :
  pc_eqb (decode_loop 2 lg_example) (decode 2 lg_example) = true
  /\ pc_eqb (decode_loop 1 lg_example_auto) (decode 1 lg_example_auto) = true.
Proof. split; vm_compute; reflexivity. Qed.

(* a key stored twice: the later row stands (both models) *)
Example decode_duplicate_key_last_wins :
  let l := {| lg_auto := false; lg_npatch := 2; lg_keys := [(0, 1); (0, 1)]%nat; lg_data := [[1]; [5]];
              lg_totals1 := [[1]; [1]]; lg_totals2 := [[1]; [1]] |} in
  pc_counts (decode 1 l) = [[[0; 5]; [0; 0]]] /\ pc_eqb (decode_loop 1 l) (decode 1 l) = true.
Proof. split; vm_compute; reflexivity. Qed.

(* ------------------------------------------------ the checker *)
Lemma code1_zero (b : bool) : code [b] = 0%nat -> b = true.
Proof. destruct b; [reflexivity|]. vm_compute. discriminate. Qed.

(* status 0 means: the containers read from the file are the decoded ones role by role, and sample()
   satisfies c04_corr_case_x on the decoded containers (EstimatorsP: what that implies) *)
Theorem legacy_case_sound B N c a impl :
  c04_legacy_case B N c (Some (Some a)) impl = 0%nat ->
  cfs_eqb (decode_cf B c) a = true
  /\ c04_corr_case_x N (cf_dd (decode_cf B c)) (cf_dr (decode_cf B c)) (cf_rd (decode_cf B c))
                     (cf_rr (decode_cf B c)) impl = 0%nat
  /\ lcf_wf B c = true.
Proof.
  unfold c04_legacy_case. intros H.
  assert (forall x y z : nat, (x + 8 * y + 32 * z = 0 -> x = 0 /\ y = 0 /\ z = 0)%nat) as S by (intros; lia).
  apply S in H. destruct H as (H1 & H2 & H3).
  apply code1_zero in H2. apply code1_zero in H3. apply andb_prop in H3.
  repeat split; [exact H2 | exact H1 | exact (proj1 H3)].
Qed.

(* non-vacuity: the example file, decoded by hand, with the exact estimator values as "implementation" *)
Example legacy_case_concrete :
  let c := {| l_dd := lg_example; l_dr := Some lg_example; l_rd := None; l_rr := None |} in
  let s := decode_cf 2 c in
  c04_legacy_case 2 2 c (Some (Some s))
    (Some (map (fun r => Some (fst (fst r))) (cfs_data s),
           map (map (fun r => Some (fst (fst r)))) (cfs_samples 2 s))) = 0%nat
  /\ c04_legacy_case 2 2 c (Some (Some (decode_cf_with decode_first_twice 2 c)))
       (Some (map (fun r => Some (fst (fst r))) (cfs_data s),
              map (map (fun r => Some (fst (fst r)))) (cfs_samples 2 s))) = 8%nat.
Proof. split; vm_compute; reflexivity. Qed.
