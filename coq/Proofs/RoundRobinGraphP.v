(* C13 — the job list under a relabelling of the patches, and the loop that stops when a single key is left
   (Model/RoundRobinGraph.v). *)
From Verif Require Import Prelude RoundRobin RoundRobinP RoundRobinGraph.
From Coq Require Import Permutation.
Open Scope nat_scope.

Definition injective (pi : nat -> nat) : Prop := forall a b, pi a = pi b -> a = b.

Lemma eqb_inj pi a b : injective pi -> (pi a =? pi b) = (a =? b).
Proof.
  intro Hi. destruct (Nat.eqb_spec a b) as [E|E]; [subst; apply Nat.eqb_refl|].
  apply Nat.eqb_neq. intro H. apply E, Hi, H.
Qed.

Lemma nodup_map_inj pi l : injective pi -> NoDup l -> NoDup (map pi l).
Proof.
  intros Hi Hn. induction Hn as [|x t Hx Hn IH]; [constructor|]. cbn [map]. constructor; [|exact IH].
  intro H. apply in_map_iff in H as [y [E Hy]]. apply Hi in E. subst y. contradiction.
Qed.

(* ---------- the specification commutes with a relabelling (cross-correlation: ordered pairs) ---------- *)
Lemma jobs_spec_relabel_cross pi st :
  injective pi -> jobs_spec false (relabel_st pi st) = map (pmap pi) (jobs_spec false st).
Proof.
  intro Hi. unfold jobs_spec, relabel_st. rewrite map_app. f_equal.
  - rewrite !map_map. apply map_ext. intros [i l]. reflexivity.
  - induction st as [|[i l] r IH]; [reflexivity|]. cbn [map flat_map relabel_entry fst snd]. rewrite map_app, IH. f_equal.
    clear IH. induction l as [|x t IHl]; [reflexivity|]. cbn [map filter].
    rewrite (eqb_inj pi x i Hi). destruct (negb (x =? i) && (negb false || (i <? x))) eqn:E.
    + assert (E' : negb (x =? i) && (negb false || (pi i <? pi x)) = true).
      { destruct (x =? i); [discriminate|reflexivity]. }
      rewrite E'. cbn [map]. rewrite IHl. reflexivity.
    + assert (E' : negb (x =? i) && (negb false || (pi i <? pi x)) = false).
      { destruct (x =? i); [reflexivity|discriminate]. }
      rewrite E'. exact IHl.
Qed.

(* the order in which the dictionary holds its keys does not matter to the specification *)
Lemma jobs_spec_perm_entries auto st st2 : Permutation st st2 -> Permutation (jobs_spec auto st) (jobs_spec auto st2).
Proof.
  intro Hp. unfold jobs_spec. apply Permutation_app; [apply Permutation_map; exact Hp|].
  induction Hp as [|x l l' Hp IH|x y l|l l' l'' H1 IH1 H2 IH2]; cbn [flat_map].
  - constructor.
  - apply Permutation_app_head. exact IH.
  - rewrite !app_assoc. apply Permutation_app_tail. apply Permutation_app_comm.
  - etransitivity; eassumption.
Qed.

Lemma relabel_nodup pi st :
  injective pi -> (forall e, In e st -> NoDup (snd e)) -> forall e, In e (relabel_st pi st) -> NoDup (snd e).
Proof.
  intros Hi Hn e He. unfold relabel_st in He. apply in_map_iff in He as [e0 [E He0]]. subst e.
  cbn [relabel_entry snd]. apply nodup_map_inj; [exact Hi|apply Hn; exact He0].
Qed.

(* The patches relabelled by pi: the new dictionary holds the relabelled entries in some order (st2a), its sets hand their
   elements out in some order (st2).  The jobs of the cross-correlation are the relabelled jobs, each once. *)
Theorem rr_jobs_relabel_cross pi st st2a st2 ys ys2 :
  injective pi -> (forall e, In e st -> NoDup (snd e)) ->
  Permutation (relabel_st pi st) st2a -> Forall2 same_sets st2a st2 ->
  iter_pairs false st = Some ys -> iter_pairs false st2 = Some ys2 ->
  Permutation ys2 (map (pmap pi) ys).
Proof.
  intros Hi Hn Hp Hs H1 H2.
  assert (Hn2a : forall e, In e st2a -> NoDup (snd e)).
  { intros e He. apply (relabel_nodup pi st Hi Hn). eapply Permutation_in; [symmetry; exact Hp|exact He]. }
  etransitivity; [apply rr_jobs_spec; [eapply same_sets_nodup; eassumption|exact H2]|].
  etransitivity; [symmetry; apply jobs_spec_perm; exact Hs|].
  etransitivity; [symmetry; apply jobs_spec_perm_entries; exact Hp|].
  rewrite (jobs_spec_relabel_cross pi st Hi). apply Permutation_map. symmetry. apply rr_jobs_spec; assumption.
Qed.

(* ---------- autocorrelation: a job is an unordered pair, listed under (lower label, higher label) ---------- *)
Definition linked_in (st : rr_state) (a b : nat) : Prop := exists l, In (a, l) st /\ In b l.
Definition symmetric_st (st : rr_state) : Prop := forall a b, linked_in st a b -> linked_in st b a.

Lemma jobs_spec_cross_part_in auto st a b :
  a <> b ->
  (In (a, b) (jobs_spec auto st) <-> linked_in st a b /\ (auto = false \/ a < b)).
Proof.
  intro Hab. unfold jobs_spec. rewrite in_app_iff. split.
  - intros [H|H].
    + apply in_map_iff in H as [e [E _]]. injection E as E1 E2. congruence.
    + apply in_flat_map in H as [[i l] [He H]]. cbn [fst snd] in H. apply in_map_iff in H as [j [E Hj]].
      injection E as E1 E2. subst i j. apply filter_In in Hj as [Hj Hf]. split; [exists l; split; assumption|].
      apply andb_true_iff in Hf as [_ Hf]. destruct auto; [right|left; reflexivity].
      cbn in Hf. apply Nat.ltb_lt. exact Hf.
  - intros [[l [He Hb]] Ho]. right. apply in_flat_map. exists (a, l). split; [exact He|]. cbn [fst snd].
    apply in_map. apply filter_In. split; [exact Hb|]. apply andb_true_iff. split.
    + apply negb_true_iff. apply Nat.eqb_neq. congruence.
    + destruct Ho as [Ho|Ho]; [subst auto; reflexivity|]. apply orb_true_iff. right. apply Nat.ltb_lt. exact Ho.
Qed.

(* with symmetric links (what from_catalogs builds) the autocorrelation lists a pair of distinct patches, in one of its two
   orders, exactly when the two are linked *)
Lemma auto_jobs_unordered st a b :
  symmetric_st st -> a <> b ->
  (In (a, b) (jobs_spec true st) \/ In (b, a) (jobs_spec true st) <-> linked_in st a b).
Proof.
  intros Hs Hab. split.
  - intros [H|H].
    + apply jobs_spec_cross_part_in in H; [tauto|exact Hab].
    + apply jobs_spec_cross_part_in in H; [apply Hs; tauto|congruence].
  - intro H. destruct (Nat.lt_ge_cases a b) as [L|L].
    + left. apply jobs_spec_cross_part_in; [exact Hab|]. split; [exact H|right; exact L].
    + right. apply jobs_spec_cross_part_in; [congruence|]. split; [apply Hs; exact H|right; lia].
Qed.

Lemma linked_relabel pi st a b : injective pi -> (linked_in (relabel_st pi st) (pi a) (pi b) <-> linked_in st a b).
Proof.
  intro Hi. unfold linked_in, relabel_st. split.
  - intros [l [He Hb]]. apply in_map_iff in He as [[i l0] [E He]]. cbn [relabel_entry fst snd] in E. injection E as E1 E2.
    apply Hi in E1. subst i l. apply in_map_iff in Hb as [y [E Hy]]. apply Hi in E. subst y. exists l0. split; assumption.
  - intros [l [He Hb]]. exists (map pi l). split; [|apply in_map; exact Hb].
    apply in_map_iff. exists (a, l). split; [reflexivity|exact He].
Qed.

Lemma symmetric_relabel pi st : injective pi -> symmetric_st st -> symmetric_st (relabel_st pi st).
Proof.
  intros Hi Hs x y [l [He Hb]].
  unfold relabel_st in He. apply in_map_iff in He as [[i l0] [E He]]. cbn [relabel_entry fst snd] in E. injection E as E1 E2. subst x l.
  apply in_map_iff in Hb as [j [E Hj]]. subst y.
  apply (linked_relabel pi st j i Hi). apply Hs. exists l0. split; assumption.
Qed.

(* The autocorrelation of the relabelled patches lists the pair {pi a, pi b} (under one of its two orders) exactly when the
   original run lists {a, b}: which of the two labels is the lower one changes, the set of unordered jobs does not.  (That
   no job is listed twice is rr_no_job_twice.) *)
Theorem rr_jobs_relabel_auto_members pi st ys ys2 a b :
  injective pi -> symmetric_st st -> (forall e, In e st -> NoDup (snd e)) -> a <> b ->
  iter_pairs true st = Some ys -> iter_pairs true (relabel_st pi st) = Some ys2 ->
  (In (a, b) ys \/ In (b, a) ys <-> In (pi a, pi b) ys2 \/ In (pi b, pi a) ys2).
Proof.
  intros Hi Hs Hn Hab H1 H2.
  assert (P1 := rr_jobs_spec true st ys Hn H1).
  assert (P2 := rr_jobs_spec true (relabel_st pi st) ys2 (relabel_nodup pi st Hi Hn) H2).
  assert (Hpab : pi a <> pi b) by (intro E; apply Hab, Hi, E).
  assert (M1 : forall x, In x ys <-> In x (jobs_spec true st)).
  { intro x. split; intro H; [eapply Permutation_in; [exact P1|exact H]|eapply Permutation_in; [symmetry; exact P1|exact H]]. }
  assert (M2 : forall x, In x ys2 <-> In x (jobs_spec true (relabel_st pi st))).
  { intro x. split; intro H; [eapply Permutation_in; [exact P2|exact H]|eapply Permutation_in; [symmetry; exact P2|exact H]]. }
  rewrite !M1, !M2.
  rewrite (auto_jobs_unordered st a b Hs Hab).
  rewrite (auto_jobs_unordered (relabel_st pi st) (pi a) (pi b) (symmetric_relabel pi st Hi Hs) Hpab).
  symmetry. apply linked_relabel. exact Hi.
Qed.

(* ---------- the loop that stops when one key is left: a star loses jobs ---------- *)
Lemma phase1_leaves hub L :
  phase1 (map (leaf_entry hub) L) = Some (map (fun l => (l, l)) L, map (fun l => (l, [hub])) L).
Proof.
  induction L as [|l t IH]; [reflexivity|]. cbn [map leaf_entry phase1 remove_first]. rewrite Nat.eqb_refl, IH. reflexivity.
Qed.

Lemma phase1_star hub L :
  phase1 (star_st hub L) = Some ((hub, hub) :: map (fun l => (l, l)) L, (hub, L) :: map (fun l => (l, [hub])) L).
Proof.
  unfold star_st. cbn [phase1 remove_first]. rewrite Nat.eqb_refl, phase1_leaves. reflexivity.
Qed.

Lemma sweep_out_leaves1 hub L : sweep_out false (map (fun l => (l, [hub])) L) = map (fun l => (l, hub)) L.
Proof. induction L as [|l t IH]; [reflexivity|]. unfold sweep_out in *. simpl in *. f_equal. exact IH. Qed.
Lemma sweep_next_leaves1 hub L : sweep_next (map (fun l => (l, [hub])) L) = map (fun l => (l, @nil nat)) L.
Proof. induction L as [|l t IH]; [reflexivity|]. unfold sweep_next in *. simpl in *. f_equal. exact IH. Qed.
Lemma sweep_out_leaves0 auto L : sweep_out auto (map (fun l => (l, @nil nat)) L) = [].
Proof. induction L as [|l t IH]; [reflexivity|]. unfold sweep_out in *. simpl in *. exact IH. Qed.
Lemma sweep_next_leaves0 L : sweep_next (map (fun l => (l, @nil nat)) L) = [].
Proof. induction L as [|l t IH]; [reflexivity|]. unfold sweep_next in *. simpl in *. exact IH. Qed.

Lemma sweeps1_star hub a b c rest fuel :
  2 <= fuel ->
  sweeps1 fuel false ((hub, a :: b :: c :: rest) :: map (fun l => (l, [hub])) (a :: b :: c :: rest))
  = Some (((hub, a) :: map (fun l => (l, hub)) (a :: b :: c :: rest)) ++ [(hub, b)]).
Proof.
  intro Hf. destruct fuel as [|[|f]]; [lia|lia|].
  set (L := a :: b :: c :: rest).
  assert (S1 : sweep_next ((hub, L) :: map (fun l => (l, [hub])) L) = (hub, b :: c :: rest) :: map (fun l => (l, @nil nat)) L).
  { unfold sweep_next. cbn [flat_map fst snd L app]. f_equal. exact (sweep_next_leaves1 hub (a :: b :: c :: rest)). }
  assert (O1 : sweep_out false ((hub, L) :: map (fun l => (l, [hub])) L) = (hub, a) :: map (fun l => (l, hub)) L).
  { unfold sweep_out. cbn [flat_map fst snd L yield_of negb orb app]. f_equal. exact (sweep_out_leaves1 hub (a :: b :: c :: rest)). }
  assert (S2 : sweep_next ((hub, b :: c :: rest) :: map (fun l => (l, @nil nat)) L) = [(hub, c :: rest)]).
  { unfold sweep_next. cbn [flat_map fst snd app]. f_equal. exact (sweep_next_leaves0 L). }
  assert (O2 : sweep_out false ((hub, b :: c :: rest) :: map (fun l => (l, @nil nat)) L) = [(hub, b)]).
  { unfold sweep_out. cbn [flat_map fst snd yield_of negb orb app]. f_equal. exact (sweep_out_leaves0 false L). }
  change (sweeps1 (S (S f)) false ((hub, L) :: (a, [hub]) :: map (fun l => (l, [hub])) (b :: c :: rest))
          = Some (((hub, a) :: map (fun l => (l, hub)) L) ++ [(hub, b)])).
  cbn [sweeps1].
  change ((hub, L) :: (a, [hub]) :: map (fun l => (l, [hub])) (b :: c :: rest)) with ((hub, L) :: map (fun l => (l, [hub])) L).
  rewrite S1, O1.
  change (map (fun l => (l, @nil nat)) L) with ((a, @nil nat) :: map (fun l => (l, @nil nat)) (b :: c :: rest)).
  cbn [sweeps1].
  change ((a, @nil nat) :: map (fun l => (l, @nil nat)) (b :: c :: rest)) with (map (fun l => (l, @nil nat)) L).
  rewrite S2, O2. destruct f; reflexivity.
Qed.

(* A star with three or more leaves: the hub's set hands out a, then b; after two sweeps the hub is the only key left and
   the loop  while len(patch_links) > 1  ends.  The jobs (hub, a) and (hub, b) are listed, the jobs of the hub with every
   other leaf - c and all of rest - are documented jobs that are never listed.  Which leaves are the first two is the pop
   order of the hub's set, i.e. a matter of the labels. *)
Theorem rr_stop_at_one_key_star_loses hub a b c rest :
  NoDup (hub :: a :: b :: c :: rest) ->
  exists ys, iter_pairs1 false (star_st hub (a :: b :: c :: rest)) = Some ys /\
    In (hub, a) ys /\ In (hub, b) ys /\
    (forall l, In l (c :: rest) -> In (hub, l) (jobs_spec false (star_st hub (a :: b :: c :: rest))) /\ ~ In (hub, l) ys) /\
    ~ Permutation ys (jobs_spec false (star_st hub (a :: b :: c :: rest))).
Proof.
  intro Hn. set (L := a :: b :: c :: rest).
  set (ys := ((hub, hub) :: map (fun l => (l, l)) L) ++ ((hub, a) :: map (fun l => (l, hub)) L) ++ [(hub, b)]).
  assert (HL : ~ In hub L) by (inversion Hn; assumption).
  assert (HnL : NoDup L) by (inversion Hn; assumption).
  assert (Hlost : forall l, In l (c :: rest) -> In (hub, l) (jobs_spec false (star_st hub L)) /\ ~ In (hub, l) ys).
  { intros l Hl.
    assert (HlL : In l L) by (right; right; exact Hl).
    assert (Hlh : l <> hub) by (intro E; subst l; contradiction).
    assert (Hla : l <> a).
    { intro E; subst l. inversion HnL as [|? ? Ha _]. apply Ha. right. exact Hl. }
    assert (Hlb : l <> b).
    { intro E; subst l. inversion HnL as [|? ? _ Hn1]. inversion Hn1 as [|? ? Hb _]. apply Hb. exact Hl. }
    split.
    - unfold jobs_spec. apply in_or_app. right. unfold star_st. cbn [flat_map fst snd]. apply in_or_app. left.
      apply in_map. apply filter_In. split; [right; exact HlL|].
      apply andb_true_iff. split; [apply negb_true_iff, Nat.eqb_neq; exact Hlh|reflexivity].
    - unfold ys. rewrite !in_app_iff. intros [H|[H|H]].
      + destruct H as [H|H]; [injection H as H; congruence|]. apply in_map_iff in H as [x [E Hx]]. injection E as E1 E2. subst x. contradiction.
      + destruct H as [H|H]; [injection H as H; congruence|]. apply in_map_iff in H as [x [E Hx]]. injection E as E1 E2. subst x. contradiction.
      + destruct H as [H|[]]. injection H as H. congruence. }
  exists ys. split; [|split; [|split; [|split]]].
  - unfold iter_pairs1. rewrite phase1_star. fold L.
    rewrite (sweeps1_star hub a b c rest).
    + cbn [option_map]. unfold ys. reflexivity.
    + unfold rr_size, L. simpl. lia.
  - unfold ys. rewrite !in_app_iff. right. left. left. reflexivity.
  - unfold ys. rewrite !in_app_iff. right. right. left. reflexivity.
  - exact Hlost.
  - intro HP. destruct (Hlost c (or_introl eq_refl)) as [Hin Hnot]. apply Hnot.
    eapply Permutation_in; [symmetry; exact HP|exact Hin].
Qed.

(* ... so the result of that loop is not invariant under a relabelling: the hypotheses of rr_jobs_relabel_cross, the
   conclusion false.  Hub 0 with the leaves 1, 2, 3, sets handing out the lower label first (CPython, small integers): the
   job (0, 3) is lost.  Exchange the labels 1 and 3: the dictionary and its sets are, sorted, the same as before, (0, 3) is
   lost again - but that is now the job of the hub with the patch formerly called 1. *)
Definition swap13 (n : nat) : nat := if n =? 1 then 3 else if n =? 3 then 1 else n.

Lemma swap13_injective : injective swap13.
Proof.
  intros x y. unfold swap13.
  destruct (Nat.eqb_spec x 1), (Nat.eqb_spec x 3), (Nat.eqb_spec y 1), (Nat.eqb_spec y 3); subst; intro H; try lia; try congruence.
Qed.

Theorem rr_stop_at_one_key_label_dependent :
  exists pi st st2a st2 ys ys2,
    injective pi /\ (forall e, In e st -> NoDup (snd e)) /\
    Permutation (relabel_st pi st) st2a /\ Forall2 same_sets st2a st2 /\
    iter_pairs1 false st = Some ys /\ iter_pairs1 false st2 = Some ys2 /\
    ~ Permutation ys2 (map (pmap pi) ys).
Proof.
  exists swap13, (star_st 0 [1; 2; 3]), [(0, [0; 3; 2; 1]); (1, [1; 0]); (2, [2; 0]); (3, [3; 0])], (star_st 0 [1; 2; 3]).
  eexists. eexists.
  split; [exact swap13_injective|]. split.
  { intros e He. cbn in He. repeat (destruct He as [He|He]; [subst e; cbn [snd]; repeat constructor; cbn; intuition discriminate|]). contradiction. }
  split.
  { vm_compute. apply perm_skip. apply (Permutation_rev [(3, [3; 0]); (2, [2; 0]); (1, [1; 0])]). }
  split.
  { unfold star_st. cbn [map leaf_entry].
    constructor; [split; [reflexivity|cbn [snd]; apply perm_skip; apply (Permutation_rev [3; 2; 1])]|].
    repeat (constructor; [split; [reflexivity|apply Permutation_refl]|]). constructor. }
  split; [vm_compute; reflexivity|]. split; [vm_compute; reflexivity|].
  intro HP. apply (Permutation_in (0, 1)) in HP; [|vm_compute; tauto].
  vm_compute in HP. repeat (destruct HP as [HP|HP]; [discriminate|]). contradiction.
Qed.
