(* Proofs for Model/ContainersWide.v (property C17): selection on containers with many patches / bins given as
   functions of the position is the selection of Model/Containers.v; position codes are injective; gathering
   through the flattened patch-pair axis is exact over unbounded integers and for P * P <= 2^(w-1), and loses
   positions in int16 from 182 patches on.  No axioms, no admits. *)
From Verif Require Import Prelude Containers ContainersP ContainersWide.
From Coq Require Import Setoid Morphisms Zdiv.
Open Scope Q_scope.

(* ------------------------------------------------------------------ *)
(* selection on functions = selection on the materialised container    *)
(* ------------------------------------------------------------------ *)
Lemma pc_of_fun_np bin auto nb P f : (1 <= nb)%nat -> pc_np (pc_of_fun bin auto nb P f) = P.
Proof. intros H. unfold pc_np, pc_of_fun. cbn. rewrite nth_tab by lia. apply tab_length. Qed.
Lemma pc_of_fun_nb bin auto nb P f : pc_nb (pc_of_fun bin auto nb P f) = nb.
Proof. unfold pc_nb, pc_of_fun. cbn. apply tab_length. Qed.

Lemma submat_tab P (F : nat -> nat -> Q) I :
  all_lt P I = true -> submat (tab P (fun i => tab P (F i))) I = map (fun i => map (F i) I) I.
Proof.
  intros H. unfold submat. rewrite sel_tab by exact H. rewrite map_map.
  apply map_ext. intros i. apply sel_tab. exact H.
Qed.

Theorem fpc_select_patches_model bin auto nb P f I :
  (1 <= nb)%nat ->
  fpc_select_patches bin auto nb P f I = pc_select_patches (pc_of_fun bin auto nb P f) I.
Proof.
  intros Hnb. unfold fpc_select_patches, pc_select_patches. rewrite pc_of_fun_np by exact Hnb.
  destruct (all_lt P I) eqn:E; [|reflexivity]. f_equal. unfold pc_of_fun. cbn. f_equal.
  rewrite map_tab. apply tab_ext. intros b _. symmetry. apply (submat_tab P (f b) I E).
Qed.

Theorem fpc_select_bins_model bin auto nb P f I :
  fpc_select_bins bin auto nb P f I = pc_select_bins (pc_of_fun bin auto nb P f) I.
Proof.
  unfold fpc_select_bins, pc_select_bins. rewrite pc_of_fun_nb. cbn [pc_of_fun pc_bin].
  destruct (bin_select bin I); [|reflexivity]. cbn [obind].
  destruct (all_lt nb I) eqn:E; [|reflexivity]. f_equal. cbn. f_equal.
  symmetry. apply sel_tab. exact E.
Qed.

Lemma sw_of_fun_np bin auto nb P g1 g2 : (1 <= nb)%nat -> sw_np (sw_of_fun bin auto nb P g1 g2) = P.
Proof. intros H. unfold sw_np, sw_of_fun. cbn. rewrite nth_tab by lia. apply tab_length. Qed.

Theorem fsw_select_patches_model bin auto nb P g1 g2 I :
  (1 <= nb)%nat ->
  fsw_select_patches bin auto nb P g1 g2 I = sw_select_patches (sw_of_fun bin auto nb P g1 g2) I.
Proof.
  intros Hnb. unfold fsw_select_patches, sw_select_patches. rewrite sw_of_fun_np by exact Hnb.
  destruct (all_lt P I) eqn:E; [|reflexivity]. f_equal. unfold sw_of_fun. cbn.
  f_equal; rewrite map_tab; apply tab_ext; intros b _; symmetry; apply sel_tab; exact E.
Qed.

Theorem fsw_select_bins_model bin auto nb P g1 g2 I :
  fsw_select_bins bin auto nb P g1 g2 I = sw_select_bins (sw_of_fun bin auto nb P g1 g2) I.
Proof.
  unfold fsw_select_bins, sw_select_bins. unfold sw_nb. cbn [sw_of_fun sw_bin sw1]. rewrite tab_length.
  destruct (bin_select bin I); [|reflexivity]. cbn [obind].
  destruct (all_lt nb I) eqn:E; [|reflexivity]. f_equal. cbn.
  f_equal; symmetry; apply sel_tab; exact E.
Qed.

Theorem fsd_select_model bin nb M d s I :
  fsd_select bin nb M d s I = sd_select (sd_of_fun bin nb M d s) I.
Proof.
  unfold fsd_select, sd_select. cbn [sd_of_fun sd_bin sd_data]. rewrite tab_length.
  destruct (bin_select bin I); [|reflexivity]. cbn [obind].
  destruct (all_lt nb I) eqn:E; [|reflexivity]. f_equal. cbn. f_equal.
  - symmetry. apply sel_tab. exact E.
  - rewrite map_tab. apply tab_ext. intros m _. symmetry. apply sel_tab. exact E.
Qed.

(* the statement of the property for containers of any size: entry (a, c) of the selection is entry
   (I_a, I_c) of the original container, in every bin *)
Theorem wide_patches_entry bin auto nb P f I r :
  fpc_select_patches bin auto nb P f I = Some r ->
  pc_bin r = bin /\ pc_auto r = auto /\ pc_nb r = nb /\ all_lt P I = true /\
  forall b a c, (b < nb)%nat -> (a < length I)%nat -> (c < length I)%nat ->
    nth3 (pc_counts r) b a c = f b (nth a I 0%nat) (nth c I 0%nat).
Proof.
  unfold fpc_select_patches. destruct (all_lt P I) eqn:E; [|discriminate].
  intros H. inversion H; subst r; clear H. cbn. unfold pc_nb. cbn. rewrite tab_length. repeat split.
  intros b a c Hb Ha Hc. unfold nth3. rewrite nth_tab by exact Hb.
  rewrite (nth_mapI (fun i => map (fun j => f b i j) I) I 0%nat) by exact Ha.
  rewrite (nth_mapI (fun j => f b (nth a I 0%nat) j) I 0%nat) by exact Hc. reflexivity.
Qed.

Theorem wide_patches_weights bin auto nb P g1 g2 I r :
  fsw_select_patches bin auto nb P g1 g2 I = Some r ->
  sw_bin r = bin /\ sw_auto r = auto /\ all_lt P I = true /\
  forall b a, (b < nb)%nat -> (a < length I)%nat ->
    nth a (nth b (sw1 r) []) 0 = g1 b (nth a I 0%nat) /\ nth a (nth b (sw2 r) []) 0 = g2 b (nth a I 0%nat).
Proof.
  unfold fsw_select_patches. destruct (all_lt P I) eqn:E; [|discriminate].
  intros H. inversion H; subst r; clear H. cbn. repeat split;
    rewrite nth_tab by assumption; apply (nth_mapI _ I 0%nat); assumption.
Qed.

(* counts and sum of weights of a NormalisedCounts selected by the same index list describe the SAME
   sub-catalogue: entry (a, c) of the counts belongs to the patches whose weights are entries a and c *)
Theorem wide_same_subcatalogue bin auto nb P f g1 g2 I rc rs :
  fpc_select_patches bin auto nb P f I = Some rc ->
  fsw_select_patches bin auto nb P g1 g2 I = Some rs ->
  forall b a c, (b < nb)%nat -> (a < length I)%nat -> (c < length I)%nat ->
    exists p q, p = nth a I 0%nat /\ q = nth c I 0%nat /\ (p < P)%nat /\ (q < P)%nat /\
      nth3 (pc_counts rc) b a c = f b p q /\
      nth a (nth b (sw1 rs) []) 0 = g1 b p /\ nth c (nth b (sw2 rs) []) 0 = g2 b q.
Proof.
  intros Hc Hs b a c Hb Ha Hcc.
  destruct (wide_patches_entry _ _ _ _ _ _ _ Hc) as (_ & _ & _ & EL & Hn).
  destruct (wide_patches_weights _ _ _ _ _ _ _ _ Hs) as (_ & _ & _ & Hw).
  exists (nth a I 0%nat), (nth c I 0%nat). repeat split.
  - apply all_lt_nth; assumption.
  - apply all_lt_nth; assumption.
  - apply Hn; assumption.
  - apply (Hw b a Hb Ha).
  - apply (Hw b c Hb Hcc).
Qed.

(* ------------------------------------------------------------------ *)
(* boolean masks                                                       *)
(* ------------------------------------------------------------------ *)
Lemma mask_from_spec m : forall k i, In i (mask_from k m) <-> (k <= i)%nat /\ nth (i - k) m false = true.
Proof.
  induction m as [|b m IH]; intros k i; cbn [mask_from].
  - split; [intros []|]. intros [_ H]. destruct (i - k)%nat; discriminate.
  - rewrite in_app_iff, IH. split.
    + intros [H|[H1 H2]].
      * destruct b; [|destruct H]. destruct H as [<-|[]]. split; [lia|]. rewrite Nat.sub_diag. reflexivity.
      * split; [lia|]. replace (i - k)%nat with (S (i - S k)) by lia. exact H2.
    + intros [H1 H2]. destruct (Nat.eq_dec i k) as [->|Hne].
      * left. rewrite Nat.sub_diag in H2. cbn in H2. subst b. left. reflexivity.
      * right. split; [lia|]. replace (i - k)%nat with (S (i - S k)) in H2 by lia. exact H2.
Qed.

(* a mask of the length of the axis selects exactly the positions where it is True, all of them on the axis *)
Theorem wide_mask_positions n m I :
  wresolve n (WMask m) = Some I ->
  length m = n /\ all_lt n I = true /\ forall i, In i I <-> nth i m false = true.
Proof.
  unfold wresolve. destruct (length m =? n)%nat eqn:E; [|discriminate].
  apply Nat.eqb_eq in E. intros H. inversion H; subst I; clear H.
  assert (S : forall i, In i (mask_from 0 m) <-> nth i m false = true).
  { intros i. rewrite mask_from_spec, Nat.sub_0_r. split; [intros [_ H]; exact H|intros H; split; [lia|exact H]]. }
  split; [exact E|]. split; [|exact S].
  apply all_lt_spec. intros i Hi. apply S in Hi.
  destruct (Nat.lt_ge_cases i (length m)) as [L|G]; [lia|]. rewrite nth_overflow in Hi by exact G. discriminate.
Qed.
Theorem wide_mask_wrong_length_rejected n m : length m <> n -> wresolve n (WMask m) = None.
Proof. intros H. unfold wresolve. apply Nat.eqb_neq in H. rewrite H. reflexivity. Qed.

(* ------------------------------------------------------------------ *)
(* position codes name their position                                  *)
(* ------------------------------------------------------------------ *)
Lemma inject_Z_inj a b : inject_Z a == inject_Z b -> a = b.
Proof. unfold Qeq, inject_Z. cbn. rewrite !Z.mul_1_r. tauto. Qed.

Theorem code3_injective off P b i j b' i' j' :
  (i < P)%nat -> (j < P)%nat -> (i' < P)%nat -> (j' < P)%nat ->
  code3 off P b i j == code3 off P b' i' j' -> b = b' /\ i = i' /\ j = j'.
Proof.
  intros Hi Hj Hi' Hj' H. unfold code3 in H. apply inject_Z_inj in H.
  assert (E : ((b * P + i) * P + j = (b' * P + i') * P + j')%nat).
  { apply Nat2Z.inj. rewrite !Nat2Z.inj_add, !Nat2Z.inj_mul, !Nat2Z.inj_add, !Nat2Z.inj_mul. lia. }
  destruct (Nat.div_mod_unique P (b * P + i) (b' * P + i') j j' Hj Hj') as [E1 E2]; [lia|].
  destruct (Nat.div_mod_unique P b b' i i' Hi Hi') as [E3 E4]; [lia|].
  repeat split; assumption.
Qed.
Theorem code2_injective off P b i b' i' :
  (i < P)%nat -> (i' < P)%nat -> code2 off P b i == code2 off P b' i' -> b = b' /\ i = i'.
Proof.
  intros Hi Hi' H. unfold code2 in H. apply inject_Z_inj in H.
  assert (E : (b * P + i = b' * P + i')%nat).
  { apply Nat2Z.inj. rewrite !Nat2Z.inj_add, !Nat2Z.inj_mul. lia. }
  destruct (Nat.div_mod_unique P b b' i i' Hi Hi') as [E3 E4]; [lia|]. split; assumption.
Qed.

(* ------------------------------------------------------------------ *)
(* the checker                                                         *)
(* ------------------------------------------------------------------ *)
Lemma code3_flags a b c : code [a; b; c] = 0%nat -> a = true /\ b = true /\ c = true.
Proof. destruct a, b, c; cbn; intros H; try discriminate; repeat split. Qed.

Theorem wide_case_sound strict leaf c ax w impl :
  c17_wide_case strict leaf c ax w impl = 0%nat ->
  (wobs_eqb impl (wmodel leaf c ax w) = true \/ (strict = false /\ impl = WErr)) /\
  w_wf c = true /\ wobs_wfb impl = true /\
  (wmodel leaf c ax w = WErr -> impl = WErr).
Proof.
  unfold c17_wide_case. intros H. apply code3_flags in H. destruct H as (H0 & H1 & H2).
  apply andb_true_iff in H1. destruct H1 as [H1a H1b]. repeat split; try assumption.
  - apply orb_true_iff in H0. destruct H0 as [H0|H0]; [left; exact H0|right].
    apply andb_true_iff in H0. destruct H0 as [S E]. split; [destruct strict; [discriminate|reflexivity]|].
    destruct impl; try discriminate. reflexivity.
  - intros M. rewrite M in H2. cbn in H2. destruct impl; try discriminate. reflexivity.
Qed.

(* the coded PatchedCounts judged by the checker is the container of Model/Containers.v and the judged
   selection is pc_patches of that model *)
Theorem wide_model_is_pc_patches c s :
  w_wf c = true ->
  wmodel LPC c WPatches (WSel s)
  = wlift WPC (pc_patches (pc_of_fun (w_bin c) (w_auto c) (w_nb c) (w_np c) (w_counts c)) s).
Proof.
  intros W. unfold w_wf in W. apply andb_true_iff in W. destruct W as [_ W]. apply Nat.leb_le in W.
  unfold wmodel, pc_patches, wresolve. rewrite pc_of_fun_np by exact W. f_equal.
  destruct (resolve (w_np c) s); [|reflexivity]. cbn [obind]. apply fpc_select_patches_model. exact W.
Qed.

(* ------------------------------------------------------------------ *)
(* gathering through the flattened axis                                *)
(* ------------------------------------------------------------------ *)
Open Scope Z_scope.

Lemma np_index_in n k : 0 <= k < n -> np_index n k = Some k.
Proof.
  intros H. unfold np_index. destruct (k <? 0) eqn:E; [apply Z.ltb_lt in E; lia|].
  replace (0 <=? k) with true by (symmetry; apply Z.leb_le; lia).
  replace (k <? n) with true by (symmetry; apply Z.ltb_lt; lia). reflexivity.
Qed.

Lemma flat_bound P i j : 0 <= i < P -> 0 <= j < P -> 0 <= i * P + j < P * P.
Proof. intros Hi Hj. split; nia. Qed.

Theorem unflat_flat P i j : 0 <= j < P -> unflat P (i * P + j) = (i, j).
Proof.
  intros Hj. unfold unflat. f_equal.
  - rewrite Z.div_add_l by lia. rewrite Z.div_small by exact Hj. lia.
  - rewrite Z.add_comm, Z.mod_add by lia. apply Z.mod_small. exact Hj.
Qed.

Theorem flat_index_unbounded P i j :
  0 <= i < P -> 0 <= j < P -> flat_index IUnbounded P i j = Some (i * P + j).
Proof. intros Hi Hj. unfold flat_index, wrap. apply np_index_in. apply flat_bound; assumption. Qed.

Lemma wrap_signed_small w z : 0 < w -> 0 <= z < 2 ^ (w - 1) -> wrap (ISigned w) z = z.
Proof.
  intros Hw Hz. unfold wrap.
  assert (E : 2 ^ w = 2 * 2 ^ (w - 1)).
  { replace w with (Z.succ (w - 1)) at 1 by lia. apply Z.pow_succ_r. lia. }
  rewrite E. rewrite Z.mod_small by lia. lia.
Qed.
Lemma wrap_unsigned_small w z : 0 <= z < 2 ^ w -> wrap (IUnsigned w) z = z.
Proof. intros Hz. unfold wrap. apply Z.mod_small. exact Hz. Qed.

(* exact as long as every position of the P x P matrix fits into the type *)
Theorem flat_index_signed_exact w P i j :
  0 < w -> P * P <= 2 ^ (w - 1) -> 0 <= i < P -> 0 <= j < P ->
  flat_index (ISigned w) P i j = Some (i * P + j).
Proof.
  intros Hw HP Hi Hj. pose proof (flat_bound P i j Hi Hj) as B. unfold flat_index.
  rewrite (wrap_signed_small w (i * P)) by (try exact Hw; nia).
  rewrite (wrap_signed_small w (i * P + j)) by (try exact Hw; lia).
  apply np_index_in. exact B.
Qed.
Theorem flat_index_unsigned_exact w P i j :
  P * P <= 2 ^ w -> 0 <= i < P -> 0 <= j < P ->
  flat_index (IUnsigned w) P i j = Some (i * P + j).
Proof.
  intros HP Hi Hj. pose proof (flat_bound P i j Hi Hj) as B. unfold flat_index.
  rewrite (wrap_unsigned_small w (i * P)) by nia.
  rewrite (wrap_unsigned_small w (i * P + j)) by lia.
  apply np_index_in. exact B.
Qed.
Corollary flat_index_int16_exact_upto_181 P i j :
  P <= 181 -> 0 <= i < P -> 0 <= j < P -> flat_index (ISigned 16) P i j = Some (i * P + j).
Proof.
  intros HP Hi Hj. apply flat_index_signed_exact; try assumption; [lia|].
  change (2 ^ (16 - 1)) with 32768. nia.
Qed.

(* over unbounded integers the gather is the sub-matrix *)
Close Scope Z_scope.
Lemma oseq_map_some {A B} (f : A -> option B) (g : A -> B) l :
  (forall x, In x l -> f x = Some (g x)) -> oseq (map f l) = Some (map g l).
Proof.
  induction l as [|x l IH]; intros H; cbn; [reflexivity|].
  rewrite (H x) by (left; reflexivity). rewrite IH by (intros y Hy; apply H; right; exact Hy). reflexivity.
Qed.

Lemma flat_entry_unbounded P M i j :
  (i < P)%nat -> (j < P)%nat -> flat_entry IUnbounded P M i j = Some (M i j).
Proof.
  intros Hi Hj. unfold flat_entry. rewrite flat_index_unbounded by lia. cbn [omap].
  rewrite unflat_flat by lia. cbn [fst snd]. rewrite !Nat2Z.id. reflexivity.
Qed.
Theorem flat_gather_unbounded P M I :
  all_lt P I = true -> flat_gather IUnbounded P M I = Some (map (fun i => map (M i) I) I).
Proof.
  intros H. unfold flat_gather. apply oseq_map_some. intros i Hi.
  apply oseq_map_some. intros j Hj. apply flat_entry_unbounded; apply (proj1 (all_lt_spec P I) H); assumption.
Qed.
Theorem flat_select_unbounded_is_selection bin auto nb P f I :
  fpc_select_patches_flat IUnbounded bin auto nb P f I = fpc_select_patches bin auto nb P f I.
Proof.
  unfold fpc_select_patches_flat, fpc_select_patches. destruct (all_lt P I) eqn:E; [|reflexivity].
  rewrite (oseq_tab_some nb _ (fun b => map (fun i => map (f b i) I) I)).
  - reflexivity.
  - intros b _. apply flat_gather_unbounded. exact E.
Qed.
(* ... and so is the gather in any type wide enough for P * P positions *)
Lemma flat_entry_signed w P M i j :
  (0 < w)%Z -> (Z.of_nat P * Z.of_nat P <= 2 ^ (w - 1))%Z -> (i < P)%nat -> (j < P)%nat ->
  flat_entry (ISigned w) P M i j = Some (M i j).
Proof.
  intros Hw HP Hi Hj. unfold flat_entry. rewrite flat_index_signed_exact by (try assumption; lia). cbn [omap].
  rewrite unflat_flat by lia. cbn [fst snd]. rewrite !Nat2Z.id. reflexivity.
Qed.
Theorem flat_select_signed_wide_enough w bin auto nb P f I :
  (0 < w)%Z -> (Z.of_nat P * Z.of_nat P <= 2 ^ (w - 1))%Z ->
  fpc_select_patches_flat (ISigned w) bin auto nb P f I = fpc_select_patches bin auto nb P f I.
Proof.
  intros Hw HP. unfold fpc_select_patches_flat, fpc_select_patches. destruct (all_lt P I) eqn:E; [|reflexivity].
  rewrite (oseq_tab_some nb _ (fun b => map (fun i => map (f b i) I) I)).
  - reflexivity.
  - intros b _. unfold flat_gather. apply oseq_map_some. intros i Hi.
    apply oseq_map_some. intros j Hj.
    apply flat_entry_signed; try assumption; apply (proj1 (all_lt_spec P I) E); assumption.
Qed.

(* ------------------------------------------------------------------ *)
(* int16 (the library's patch-id dtype): wrong from 182 patches on     *)
(* ------------------------------------------------------------------ *)
Open Scope Z_scope.
Lemma wrap16 z : wrap (ISigned 16) z = (z + 32768) mod 65536 - 32768.
Proof. reflexivity. Qed.

(* 182 patches, selecting patch 181: the first entry of its row is read from row 2, column 166 *)
Theorem flat_int16_refuted_182 :
  flat_index (ISigned 16) 182 181 0 = Some 530 /\ unflat 182 530 = (2, 166) /\
  flat_index IUnbounded 182 181 0 = Some 32942 /\ unflat 182 32942 = (181, 0).
Proof. repeat split; reflexivity. Qed.

(* every patch count from 182 up to 32768 other than 256 has a row whose first entry is lost *)
Theorem flat_int16_wrong_from_182 P :
  182 <= P <= 32768 -> P <> 256 ->
  0 <= int16_witness P < P /\
  flat_index (ISigned 16) P (int16_witness P) 0 <> Some (int16_witness P * P).
Proof.
  intros HP H256. unfold int16_witness.
  pose proof (Z.mul_div_le 32767 P ltac:(lia)) as L1.
  pose proof (Z.mul_succ_div_gt 32767 P ltac:(lia)) as L2.
  pose proof (Z.div_pos 32767 P ltac:(lia) ltac:(lia)) as L0.
  set (q := 32767 / P) in *.
  assert (Hq : q + 1 < P) by nia.
  split; [lia|].
  unfold flat_index. rewrite !wrap16.
  set (x := (q + 1) * P).
  assert (Hx : 32768 <= x <= 65535) by (unfold x; nia).
  assert (E1 : (x + 32768) mod 65536 = x - 32768).
  { symmetry. apply (Zmod_unique (x + 32768) 65536 1); lia. }
  rewrite E1.
  assert (E2 : (x - 32768 - 32768 + 0 + 32768) mod 65536 = x - 32768).
  { symmetry. apply (Zmod_unique _ 65536 0); lia. }
  rewrite E2. unfold np_index.
  replace (x - 32768 - 32768 <? 0) with true by (symmetry; apply Z.ltb_lt; lia).
  destruct ((0 <=? x - 32768 - 32768 + P * P) && (x - 32768 - 32768 + P * P <? P * P))%bool; [|discriminate].
  intros C. inversion C as [C']. assert (P * P = 65536) by lia. nia.
Qed.

(* 256 patches is the one size at which wrapping modulo 2^16 and numpy's negative positions cancel: a check at
   that size alone would see nothing *)
Theorem flat_int16_256_exact : flat_exact_b (ISigned 16) 256 = true.
Proof. vm_compute. reflexivity. Qed.
Theorem flat_int16_exact_b_181_182 :
  flat_exact_b (ISigned 16) 181 = true /\ flat_exact_b (ISigned 16) 182 = false.
Proof. split; vm_compute; reflexivity. Qed.
(* the narrow types of small catalogues *)
Theorem flat_int8_uint8_thresholds :
  flat_exact_b (ISigned 8) 11 = true /\ flat_exact_b (ISigned 8) 12 = false /\
  flat_exact_b (IUnsigned 8) 16 = true /\ flat_exact_b (IUnsigned 8) 17 = false.
Proof. repeat split; vm_compute; reflexivity. Qed.
Close Scope Z_scope.

(* on a position-coded container of 200 patches the int16 gather of patches [150; 199; 181] returns entries of
   other patch pairs; the checker accepts the sub-matrix and flags the gathered matrix *)
Definition wide_example : wcoded :=
  {| w_bin := {| edges := [0; 1 # 2; 1]; closed_right := true |}; w_auto := false;
     w_nb := 2; w_np := 200; w_off := 0; w_off2 := 1000000 |}.
Definition wide_example_sel : wsel := WSel (SList [150; (-1); 181]%Z).
Theorem wide_example_refuted :
  (exists r, fpc_select_patches (w_bin wide_example) false 2 200 (w_counts wide_example) [150; 199; 181]%nat = Some r
     /\ nth 0 (pc_counts r) [] = [[30150; 30199; 30181]; [39950; 39999; 39981]; [36350; 36399; 36381]]
     /\ c17_wide_case true LPC wide_example WPatches wide_example_sel (WPC r) = 0%nat)
  /\ (exists r, fpc_select_patches_flat (ISigned 16) (w_bin wide_example) false 2 200 (w_counts wide_example)
                  [150; 199; 181]%nat = Some r
     /\ nth 0 (pc_counts r) [] = [[30150; 30199; 30181]; [14414; 14463; 14445]; [10814; 10863; 10845]]
     /\ c17_wide_case true LPC wide_example WPatches wide_example_sel (WPC r) = 1%nat)
  /\ c17_wide_case true LPC wide_example WPatches wide_example_sel WErr = 1%nat
  /\ c17_wide_case false LPC wide_example WPatches (WSel (SInt 199)) WErr = 0%nat
  /\ c17_wide_case true LPC wide_example WPatches (WSel (SList [200]%Z))
       (WPC (pc_of_fun (w_bin wide_example) false 2 1 (fun _ _ _ => 0))) = 5%nat.
Proof.
  split; [|split; [|split; [|split]]].
  - eexists. split; [vm_compute; reflexivity|]. split; vm_compute; reflexivity.
  - eexists. split; [vm_compute; reflexivity|]. split; vm_compute; reflexivity.
  - vm_compute. reflexivity.
  - vm_compute. reflexivity.
  - vm_compute. reflexivity.
Qed.
