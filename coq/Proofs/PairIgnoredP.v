(* C01 - columns and values a measurement ignores: proofs for Model/PairIgnored.v.
   1. the unbinned selection, the pair list, every cell and the stored weight sums of the second
      (unbinned) sample depend on the CORE of its objects only (position, weight with 1 for an absent
      weight column, patch): not on its redshift column (present or not, any values), not on the edges
      and the closed side, not on further columns;
   2. an absent weight column is a column of ones;
   3. a binned selection depends on the redshift column through bin membership only: values below
      the first / above the last edge are in no bin, and replacing one outside value by another
      changes nothing;
   4. refutation: dropping objects by ANY test on the redshift column that rejects some value
      changes weight sums and pair counts of the unbinned sample.
   No axioms. *)
From Verif Require Import Prelude PairCount PairCountP PairIgnored.
Open Scope Q_scope.

(* ---------- stripping the bin index ---------- *)
Lemma strip_to_obj e r e' r' o o' : core o = core o' -> strip (to_obj e r o) = strip (to_obj e' r' o').
Proof.
  unfold core, strip, to_obj. simpl. intro H. injection H as H1 H2 H3 H4 H5.
  rewrite H1, H2, H3, H4, H5. reflexivity.
Qed.

Lemma classify_strip e r e' r' C : forall C',
  map core C = map core C' -> map strip (classify e r C) = map strip (classify e' r' C').
Proof.
  induction C as [|o C IH]; intros [|o' C'] H; try discriminate H; [reflexivity|].
  cbn [map] in H. pose proof (f_equal (hd (core o)) H) as H1. pose proof (f_equal (@tl _) H) as H2.
  cbn [hd tl] in H1, H2. cbn [classify map]. fold (classify e r C). fold (classify e' r' C').
  rewrite (strip_to_obj e r e' r' o o' H1), (IH C' H2). reflexivity.
Qed.

Lemma strip_patch o o' : strip o = strip o' -> opatch o = opatch o'.
Proof. intro H. apply (f_equal opatch) in H. exact H. Qed.

Lemma sel_None_strip C p : forall C',
  map strip C = map strip C' -> map strip (sel C p None) = map strip (sel C' p None).
Proof.
  unfold sel. induction C as [|o C IH]; intros [|o' C'] H; try discriminate H; [reflexivity|].
  cbn [map] in H. pose proof (f_equal (hd (strip o)) H) as H1. pose proof (f_equal (@tl _) H) as H2.
  cbn [hd tl] in H1, H2. cbn [filter]. rewrite <- (strip_patch o o' H1).
  destruct (opatch o =? p)%nat; cbn [andb map]; [rewrite H1, (IH C' H2)|rewrite (IH C' H2)]; reflexivity.
Qed.

Lemma mkpairs_strip A B : mkpairs (map strip A) (map strip B) = mkpairs A B.
Proof.
  unfold mkpairs. induction A as [|a A IH]; simpl; [reflexivity|].
  rewrite IH, map_map. reflexivity.
Qed.

Lemma mkpairs_strip_eq A A' B B' :
  map strip A = map strip A' -> map strip B = map strip B' -> mkpairs A B = mkpairs A' B'.
Proof. intros HA HB. rewrite <- (mkpairs_strip A B), <- (mkpairs_strip A' B'), HA, HB. reflexivity. Qed.

Lemma sumw_strip A : sumw (map strip A) = sumw A.
Proof. unfold sumw. rewrite map_map. reflexivity. Qed.

Lemma sumw_strip_eq A A' : map strip A = map strip A' -> sumw A = sumw A'.
Proof. intro H. rewrite <- (sumw_strip A), <- (sumw_strip A'), H. reflexivity. Qed.

Lemma length_strip_eq (A A' : list obj) : map strip A = map strip A' -> length A = length A'.
Proof. intro H. apply (f_equal (@length obj)) in H. rewrite !map_length in H. exact H. Qed.

(* ---------- 1. the unbinned sample ---------- *)
Theorem unbinned_sel_ignores_columns e r e' r' (C C' : list aobj) p :
  map core C = map core C' ->
  map strip (asel e r C p None) = map strip (asel e' r' C' p None).
Proof. intro H. unfold asel. apply sel_None_strip, classify_strip, H. Qed.

Theorem unbinned_tree_ignores_columns e r e' r' (C C' : list aobj) p (A : list obj) :
  map core C = map core C' ->
  mkpairs A (asel e r C p None) = mkpairs A (asel e' r' C' p None) /\
  sumw (asel e r C p None) = sumw (asel e' r' C' p None) /\
  length (asel e r C p None) = length (asel e' r' C' p None).
Proof.
  intro H. pose proof (unbinned_sel_ignores_columns e r e' r' C C' p H) as Hs.
  split; [|split].
  - apply mkpairs_strip_eq; [reflexivity|exact Hs].
  - apply sumw_strip_eq, Hs.
  - apply length_strip_eq, Hs.
Qed.

Theorem unbinned_counts_ignore_columns e r e' r' (C2 C2' : list aobj)
        (auto : bool) (cfgs : list bincfg) (C1 : list obj) prs (s b i j : nat) :
  map core C2 = map core C2' ->
  count_cell auto cfgs C1 (classify e r C2) false prs s b i j
    = count_cell auto cfgs C1 (classify e' r' C2') false prs s b i j /\
  spec_cell auto cfgs C1 (classify e r C2) false s b i j
    = spec_cell auto cfgs C1 (classify e' r' C2') false s b i j /\
  sumw (sel (classify e r C2) j None) = sumw (sel (classify e' r' C2') j None).
Proof.
  intro H.
  pose proof (unbinned_tree_ignores_columns e r e' r' C2 C2' j (sel C1 i (Some b)) H) as [Hp [Hw _]].
  unfold asel in Hp, Hw.
  split; [|split; [|exact Hw]].
  - unfold count_cell, cell_value, ppp. simpl. rewrite Hp. reflexivity.
  - unfold spec_cell, ppp_spec. simpl. rewrite Hp. reflexivity.
Qed.

(* ---------- 2. no weight column = a column of ones ---------- *)
Definition with_ones (o : aobj) : aobj :=
  {| ax := ax o; ay := ay o; az := az o; aw := Some (weight_of (aw o)); ared := ared o;
     apatch := apatch o; aextra := aextra o |}.
Theorem absent_weights_are_ones (C : list aobj) : map core (map with_ones C) = map core C.
Proof. rewrite map_map. apply map_ext. intro o. reflexivity. Qed.

(* ---------- 3. the binned sample: membership only ---------- *)
Lemma digit_below (rt : bool) (e0 : Q) rest z :
  (if rt then z <= e0 else z < e0) -> digit rt (e0 :: rest) z = 0%nat.
Proof.
  intro H. simpl. destruct rt; simpl.
  - destruct (Qltb e0 z) eqn:E; [|reflexivity]. apply Qltb_lt in E. exfalso. apply (Qlt_not_le _ _ E H).
  - destruct (Qleb e0 z) eqn:E; [|reflexivity]. apply Qleb_le in E. exfalso. apply (Qlt_not_le _ _ H E).
Qed.

Lemma digit_above (rt : bool) (edges : list Q) z :
  (forall x, In x edges -> if rt then x < z else x <= z) -> digit rt edges z = length edges.
Proof.
  induction edges as [|e0 rest IH]; intro H; simpl; [reflexivity|].
  assert (Hp : passes rt e0 z = true).
  { specialize (H e0 (or_introl eq_refl)). destruct rt; simpl; [apply Qltb_lt|apply Qleb_le]; exact H. }
  rewrite Hp, IH; [reflexivity|]. intros x Hx. apply H. right. exact Hx.
Qed.

Theorem outside_in_no_bin (rt : bool) (e0 : Q) rest z b :
  (S b < length (e0 :: rest))%nat ->
  (if rt then z <= e0 else z < e0) \/
  (forall x, In x (e0 :: rest) -> if rt then x < z else x <= z) ->
  (bin_of (e0 :: rest) rt (Some z) =? S b)%nat = false.
Proof.
  intros Hb [H|H]; unfold bin_of; apply Nat.eqb_neq.
  - rewrite (digit_below rt e0 rest z H). discriminate.
  - rewrite (digit_above rt (e0 :: rest) z H). lia.
Qed.

Theorem binned_sel_membership_only e r (C C' : list aobj) p b :
  Forall2 (fun o o' => core o = core o' /\
                       (bin_of e r (ared o) =? S b)%nat = (bin_of e r (ared o') =? S b)%nat) C C' ->
  map strip (asel e r C p (Some b)) = map strip (asel e r C' p (Some b)).
Proof.
  unfold asel, classify, sel. induction 1 as [|o o' C C' [Hc Hm] _ IH]; simpl; [reflexivity|].
  pose proof (strip_to_obj e r e r o o' Hc) as Hs.
  assert (Hpatch : apatch o = apatch o') by (unfold core in Hc; congruence).
  rewrite Hm, Hpatch.
  destruct ((apatch o' =? p)%nat && (bin_of e r (ared o') =? S b)%nat); simpl;
    [rewrite Hs, IH|rewrite IH]; reflexivity.
Qed.

(* the cells of a measurement whose FIRST (binned) sample differs in redshifts outside the
   binning only *)
Theorem binned_counts_membership_only e r (C1 C1' : list aobj)
        (auto : bool) (cfgs : list bincfg) (C2 : list obj) prs (s b i j : nat) :
  Forall2 (fun o o' => core o = core o' /\
                       (bin_of e r (ared o) =? S b)%nat = (bin_of e r (ared o') =? S b)%nat) C1 C1' ->
  count_cell auto cfgs (classify e r C1) C2 false prs s b i j
    = count_cell auto cfgs (classify e r C1') C2 false prs s b i j /\
  spec_cell auto cfgs (classify e r C1) C2 false s b i j
    = spec_cell auto cfgs (classify e r C1') C2 false s b i j /\
  sumw (sel (classify e r C1) i (Some b)) = sumw (sel (classify e r C1') i (Some b)).
Proof.
  intro H. pose proof (binned_sel_membership_only e r C1 C1' i b H) as Hs. unfold asel in Hs.
  assert (Hp : mkpairs (sel (classify e r C1) i (Some b)) (sel C2 j None)
             = mkpairs (sel (classify e r C1') i (Some b)) (sel C2 j None))
    by (apply mkpairs_strip_eq; [exact Hs|reflexivity]).
  split; [|split].
  - unfold count_cell, cell_value, ppp. simpl. rewrite Hp. reflexivity.
  - unfold spec_cell, ppp_spec. simpl. rewrite Hp. reflexivity.
  - apply sumw_strip_eq, Hs.
Qed.

(* ---------- 4. refutation: a filter on the ignored column ---------- *)
Theorem filter_on_ignored_refuted (keep : option Q -> bool) (z0 : Q) e r :
  keep (Some z0) = false ->
  exists (C : list aobj) (A : list obj) lo hi,
    ~ sumw (selk keep e r C 0 None) == sumw (asel e r C 0 None) /\
    ~ w_in lo hi (mkpairs A (selk keep e r C 0 None)) == w_in lo hi (mkpairs A (asel e r C 0 None)).
Proof.
  intro Hk.
  exists [ {| ax := 1; ay := 0; az := 0; aw := None; ared := Some z0; apatch := 0; aextra := [] |} ],
         [ {| ox := 0; oy := 0; oz := 0; ow := 1; obin := 1; opatch := 0 |} ], 0, 1.
  unfold selk, asel. simpl. rewrite Hk. simpl. split; intro H; vm_compute in H; discriminate.
Qed.

(* the instance behind "a negative redshift flags an object without estimate": *)
Definition keep_nonneg (r : option Q) : bool := match r with Some z => Qleb 0 z | None => true end.
Corollary negative_flag_filter_refuted e r :
  exists (C : list aobj) (A : list obj) lo hi,
    ~ sumw (selk keep_nonneg e r C 0 None) == sumw (asel e r C 0 None) /\
    ~ w_in lo hi (mkpairs A (selk keep_nonneg e r C 0 None)) == w_in lo hi (mkpairs A (asel e r C 0 None)).
Proof. exact (filter_on_ignored_refuted keep_nonneg (-99) e r eq_refl). Qed.

(* ---------- the tree checker is what it claims ---------- *)
Lemma code_from_zero flags : forall w, (0 < w)%nat -> code_from w flags = 0%nat -> forallb (fun b => b) flags = true.
Proof.
  induction flags as [|f flags IH]; intros w Hw H; [reflexivity|].
  cbn [code_from] in H. cbn [forallb]. destruct f; cbn [andb].
  - apply (IH (2 * w)%nat); [lia|]. exact H.
  - exfalso. lia.
Qed.

Theorem ign_tree_case_sound edges rt C p bin D q bin' cfg impl nrec nrec' sw sw' :
  c01_ign_tree_case edges rt C p bin D q bin' cfg impl nrec nrec' sw sw' = 0%nat ->
  balpha cfg = None ->
  let A := asel edges rt C p bin in let B := asel edges rt D q bin' in
  qlist_eqb (ppp_spec cfg A B) impl = true /\ length A = nrec /\ length B = nrec' /\
  sumw A == sw /\ sumw B == sw'.
Proof.
  unfold c01_ign_tree_case, code. intros H Ha. rewrite Ha in H.
  apply code_from_zero in H; [|lia]. simpl in H.
  repeat rewrite andb_true_iff in H. destruct H as [_ [Hs [[Hn Hn'] [[Hw Hw'] _]]]].
  unfold qlist_ok in Hs. simpl.
  repeat split; [exact Hs|apply Nat.eqb_eq, Hn|apply Nat.eqb_eq, Hn'|apply Qeq_bool_iff, Hw|apply Qeq_bool_iff, Hw'].
Qed.

(* ---------- non-vacuity ---------- *)
(* reference: two objects in bin (1/10, 1/2] plus one flagged -99, one at 0, one far above; the
   unknown patch carries a redshift column full of flags and out-of-range values and an extra
   column: all three unknown objects are counted *)
Example ignored_concrete :
  let e := [1#10; 1#2; 1] in
  let mk := fun x w z p ex => {| ax := x; ay := 0; az := 0; aw := w; ared := z; apatch := p; aextra := ex |} in
  let ref := [mk 0%Z None (Some (3#10)) 0%nat []; mk 1%Z (Some 2) (Some (1#2)) 0%nat [];
              mk 2%Z None (Some (-99)) 0%nat []; mk 3%Z None (Some 0) 0%nat []; mk 4%Z None (Some 1000) 0%nat []] in
  let unk := [mk 2%Z None (Some (-99)) 0%nat [7]; mk 3%Z (Some 1) (Some 0) 0%nat [8]; mk 5%Z None (Some (10^30)) 0%nat []] in
  let bare := [mk 2%Z None None 0%nat []; mk 3%Z None None 0%nat []; mk 5%Z None None 0%nat []] in
  length (asel e true unk 0 None) = 3%nat /\ sumw (asel e true unk 0 None) == 3 /\
  length (asel e true ref 0 (Some 0%nat)) = 2%nat /\ sumw (asel e true ref 0 (Some 0%nat)) == 3 /\
  length (asel e true ref 0 (Some 1%nat)) = 0%nat /\
  (* pairs with squared separation in (0, 9]: (0,2) (0,3) (1,2)x2 (1,3)x2 = 6; (0,5)=25 and (1,5)=16 are outside *)
  w_in 0 9 (mkpairs (asel e true ref 0 (Some 0%nat)) (asel e true unk 0 None)) == 6 /\
  map core unk = map core bare /\
  length (selk keep_nonneg e true unk 0 None) = 2%nat.
Proof. vm_compute. repeat split; try reflexivity; intro H; discriminate. Qed.
