From Verif Require Import Prelude Dispatch DispatchP DispatchE_scratch.
From Coq Require Import Permutation.
From AAC_tactics Require Import AAC.
From AAC_tactics Require Instances.
Import Instances.Lists.
Open Scope nat_scope.
Set Implicit Arguments.
(* ==== BEGIN APPEND ==== *)

(* ======================================================================================
   Jobs may fail: proofs about the extended protocol of Model/Dispatch.v (estep).
   For every number of workers, rank set, task list, [fails] predicate, send mode and schedule.
   No axioms. *)
Section DispatchEP.
Context {T R : Type}.
Context (f : T -> R) (fails : T -> bool).
Context (allowed : nat -> bool).
Context (md : mode).

Local Notation msg := (Dispatch.msg T).
Local Notation eworker := (eworker T R).
Local Notation est := (est T R).
Local Notation res := (res T R).
Local Notation job := (job f fails).
Local Notation einit := (@einit T R).

Lemma ensum_upd (g : eworker -> nat) i w w' l :
  nth_error l i = Some w ->
  nsum (map g (upd i w' l)) + g w = nsum (map g l) + g w'.
Proof.
  intros H. pose proof (nth_error_split' _ _ H) as E.
  rewrite E at 2. unfold upd. rewrite !map_app, !nsum_app. simpl. lia.
Qed.

Lemma ewm_def (w : eworker) :
  ewm w = 3 * nsum (map is_task (einb w)) + 2 * length (eoutb w) + nsum (map is_eoq (einb w)).
Proof. reflexivity. Qed.

Ltac euse_upd :=
  match goal with
  | Hn : nth_error ?l ?i = Some ?w |- context [upd ?i ?w' ?l] =>
      let Hlt := fresh "Hlt" in let Hs := fresh "Hs" in
      pose proof (@nth_error_lt _ l i w Hn) as Hlt;
      pose proof (@ensum_upd ewm i w w' l Hn) as Hs;
      try rewrite (@upd_length _ i w' l Hlt);
      rewrite (ewm_def w'), (ewm_def w) in Hs; cbn [einb eoutb] in Hs;
      repeat match goal with Hx : eoutb w = _ |- _ => rewrite Hx in Hs end;
      repeat match goal with Hx : einb w = _ |- _ => rewrite Hx in Hs end;
      rewrite ?map_app, ?nsum_app, ?app_length in Hs;
      cbn [map nsum is_task is_eoq length] in Hs
  end.

(* ---------- (a) termination: for the repaired AND the pinned worker ---------- *)
Section AnyWorker.
Context (wcatch : bool).
Local Notation estep := (estep f fails allowed wcatch md).
Local Notation esteps := (esteps f fails allowed wcatch md).

Theorem estep_decreases s s' : estep s s' -> emu s' < emu s.
Proof.
  intros H. inversion H; subst; unfold emu; cbn [epc epend ews pcw length];
  try euse_upd; lia.
Qed.

Theorem edispatch_terminates k s s' : esteps k s s' -> k + emu s' <= emu s.
Proof.
  induction 1 as [s|k s s1 s2 Hs _ IH]; [lia|].
  pose proof (estep_decreases Hs). lia.
Qed.

Theorem edispatch_step_wf : well_founded (fun s' s : est => estep s s').
Proof.
  apply (well_founded_lt_compat _ (fun s : est => emu s)). intros x y H. apply estep_decreases. exact H.
Qed.

(* once the root has received an error it hands out nothing more and keeps that error *)
Lemma eerr_frozen s s' e :
  estep s s' -> eerr s = Some e -> eerr s' = Some e /\ epend s' = epend s /\ egot s' = egot s.
Proof.
  intros H He. inversion H; subst; cbn [eerr epend egot] in *; try discriminate; auto.
Qed.
End AnyWorker.

(* ---------- the repaired worker (wcatch = true): invariant ---------- *)
Local Notation estep := (estep f fails allowed true md).
Local Notation ereach := (ereach f fails allowed true md).

Inductive eshape : eworker -> Prop :=
| esh_idle : eshape (@mkEW T R [] [] false 0)
| esh_task t : eshape (mkEW [Task t] [] false 0)
| esh_res y : eshape (mkEW [] [y] false 0)
| esh_eoq : eshape (mkEW [EOQ] [] false 0)
| esh_fin : eshape (mkEW [] [] true 1).

Definition eidle (w : eworker) : Prop := w = mkEW [] [] false 0.
Definition ebusy (w : eworker) : nat := nsum (map is_task (einb w)) + length (eoutb w).
Definition eintasks (w : eworker) : list T :=
  flat_map (fun m => match m with Task t => [t] | EOQ => [] end) (einb w).
Definition eserved (k : nat) (l : list eworker) : Prop :=
  forall j w, nth_error l j = Some w -> (k <= j -> eidle w) /\ (j < k -> ~ eidle w).

Definition epc_inv (s : est) : Prop :=
  match epc s with
  | RInit k a => k <= length (ews s) /\ a = nsum (map ebusy (ews s)) /\ eserved k (ews s) /\ eerr s = None
  | RLoop a => a = nsum (map ebusy (ews s)) /\ eserved (length (ews s)) (ews s)
  | RBar | RDone => nsum (map ebusy (ews s)) = 0 /\ eserved (length (ews s)) (ews s)
                 /\ (eerr s = None -> epend s = [])
                 /\ (epc s = RDone -> forallb efin (ews s) = true /\ eout s = repeat (eerr s) (S (length (ews s))))
  end.

(* h = the tasks handed out so far (to a worker or run by the root); d = the results the root
   received and did not yield (the first error and everything after it) *)
Definition EInv (tasks : list T) (s : est) : Prop :=
  Forall eshape (ews s)
  /\ (exists h, tasks = h ++ epend s /\ Permutation h (flat_map eintasks (ews s) ++ eran s))
  /\ (exists d, Permutation (map job (eran s)) (map (@Ok T R) (egot s) ++ flat_map eoutb (ews s) ++ d)
                /\ (eerr s = None -> d = []))
  /\ (forall t, eerr s = Some t -> fails t = true /\ In t (eran s))
  /\ epc_inv s.

Lemma ensum_busy_repeat n : nsum (map ebusy (repeat (@mkEW T R [] [] false 0) n)) = 0.
Proof. induction n; simpl; auto. Qed.

Lemma EInv_init tasks n : EInv tasks (einit tasks n).
Proof.
  unfold EInv, DispatchE_scratch.einit, epc_inv; cbn [ews epend eran egot epc eerr eout].
  assert (E1 : flat_map eintasks (repeat (@mkEW T R [] [] false 0) n) = []) by (induction n; simpl; auto).
  assert (E2 : flat_map eoutb (repeat (@mkEW T R [] [] false 0) n) = []) by (induction n; simpl; auto).
  split; [|split; [|split; [|split]]].
  - apply Forall_forall. intros w Hw. apply repeat_spec in Hw. subst. constructor.
  - exists []. rewrite E1. split; [reflexivity|constructor].
  - exists []. rewrite E2. split; [constructor|auto].
  - intros t Ht. discriminate.
  - split; [lia|]. split; [symmetry; apply ensum_busy_repeat|]. split; [|reflexivity].
    intros j w Hj. split.
    + intros _. apply nth_error_In in Hj. apply repeat_spec in Hj. exact Hj.
    + intros Hlt. lia.
Qed.

Lemma ensum_busy_mid l1 w l2 : nsum (map ebusy (l1 ++ w :: l2)) = nsum (map ebusy l1) + ebusy w + nsum (map ebusy l2).
Proof. rewrite map_app, nsum_app. simpl. lia. Qed.
Lemma efm_mid B (g : eworker -> list B) l1 w l2 :
  flat_map g (l1 ++ w :: l2) = flat_map g l1 ++ g w ++ flat_map g l2.
Proof. rewrite flat_map_app. reflexivity. Qed.

Ltac eperm_solve :=
  repeat match goal with
  | |- context [?x :: ?l] => lazymatch l with nil => fail | _ => rewrite (cons_app x l) end
  end; aac_reflexivity.

Ltac ebusy_eval :=
  repeat match goal with
  | |- context [ebusy (mkEW ?a ?b ?c ?d)] =>
      let v := eval cbv in (ebusy (mkEW a b c d)) in change (ebusy (mkEW a b c d)) with v
  | H : context [ebusy (mkEW ?a ?b ?c ?d)] |- _ =>
      let v := eval cbv in (ebusy (mkEW a b c d)) in change (ebusy (mkEW a b c d)) with v in H
  end.

Ltac esplit_ws Hn w' :=
  let l1 := fresh "l1" in let l2 := fresh "l2" in
  let E := fresh "E" in let E' := fresh "E'" in let Hl := fresh "Hl" in
  destruct (@upd_split _ _ _ _ w' Hn) as (l1 & l2 & E & E' & Hl); rewrite E' in *; clear E'; subst.

Lemma eserved_upd k l1 w w' l2 :
  eserved k (l1 ++ w :: l2) -> ~ eidle w' -> length l1 < k -> eserved k (l1 ++ w' :: l2).
Proof.
  intros Hs Hni Hlt j y Hy. destruct (nth_mid _ _ _ _ Hy) as [[-> ->]|[Hne Hall]].
  - split; [lia | auto].
  - apply (Hs j y). apply Hall.
Qed.

Lemma eserved_next l1 w w' l2 :
  eserved (length l1) (l1 ++ w :: l2) -> ~ eidle w' -> eserved (S (length l1)) (l1 ++ w' :: l2).
Proof.
  intros Hs Hni j y Hy. destruct (nth_mid _ _ _ _ Hy) as [[-> ->]|[Hne Hall]].
  - split; [lia | auto].
  - destruct (Hs j y (Hall w)) as [Ha Hb]. split; intros; [apply Ha | apply Hb]; lia.
Qed.

Lemma eserved_at k l1 w l2 : eserved k (l1 ++ w :: l2) -> (k <= length l1 -> eidle w) /\ (length l1 < k -> ~ eidle w).
Proof.
  intros Hs. apply (Hs (length l1) w). rewrite nth_error_app2 by lia. rewrite Nat.sub_diag. reflexivity.
Qed.

Lemma job_ok t : fails t = false -> job t = Ok (f t).
Proof. unfold DispatchE_scratch.job. intros ->. reflexivity. Qed.
Lemma job_err t : fails t = true -> job t = Err t.
Proof. unfold DispatchE_scratch.job. intros ->. reflexivity. Qed.
Lemma job_err_inv t t' : job t = Err t' -> t = t' /\ fails t' = true.
Proof. unfold DispatchE_scratch.job. destruct (fails t) eqn:E; intros H; [|discriminate]. injection H as <-. auto. Qed.
Lemma job_ok_inv t x : job t = Ok x -> fails t = false /\ x = f t.
Proof. unfold DispatchE_scratch.job. destruct (fails t) eqn:E; intros H; [discriminate|]. injection H as <-. auto. Qed.

(* an error message in flight is the error of an executed, failing task *)
Lemma err_in_flight (ran : list T) (rest : list res) t :
  Permutation (map job ran) rest -> In (Err t) rest -> fails t = true /\ In t ran.
Proof.
  intros HP Hin. apply Permutation_sym in HP. pose proof (Permutation_in _ HP Hin) as Hm.
  apply in_map_iff in Hm as (t0 & Hj & Ht0). apply job_err_inv in Hj as [-> Hf]. auto.
Qed.

Lemma forallb_nth A (p : A -> bool) l i x : forallb p l = true -> nth_error l i = Some x -> p x = true.
Proof. intros Hf Hn. rewrite forallb_forall in Hf. apply Hf. eapply nth_error_In; eauto. Qed.

Ltac eni := let Hi := fresh in intros Hi; red in Hi; discriminate Hi.


Ltac split5 := split; [|split; [|split; [|split]]].
Ltac ein_ran Herr := let t0 := fresh "t0" in let Ht0 := fresh "Ht0" in
  intros t0 Ht0; destruct (Herr t0 Ht0); split; auto; apply in_or_app; auto.

Lemma EInv_step tasks s s' : EInv tasks s -> estep s s' -> EInv tasks s'.
Proof.
  intros (Hsh & (h & Eh & Hp1) & (d & Hp2 & Hd) & Herr & Hpc) Hst. unfold EInv, epc_inv in *.
  inversion Hst; subst; cbn [epc epend ews egot eran eerr eout] in *.
  - (* init_task *)
    destruct Hpc as (Hk & Ha & Hserved & _).
    esplit_ws H0 (mkEW (einb w ++ [Task t]) (eoutb w) (efin w) (eoqn w)).
    destruct (@eserved_at _ _ _ _ Hserved) as [Hid _]. specialize (Hid (le_n _)). red in Hid; subst w.
    cbn [einb eoutb efin eoqn app] in *.
    apply Forall_app in Hsh as [Hs1 Hs2]. inversion Hs2; subst.
    rewrite !efm_mid, ?ensum_busy_mid, ?app_length in *. cbn [eintasks einb eoutb flat_map length] in *. ebusy_eval.
    split5.
    + apply Forall_app; split; auto. constructor; auto. constructor.
    + exists (h ++ [t]). split; [rewrite <- app_assoc; reflexivity|].
      etransitivity; [apply Permutation_app_tail; exact Hp1|]. eperm_solve.
    + exists d. split; auto.
    + exact Herr.
    + split; [lia|]. split; [lia|]. split; [|reflexivity]. eapply (@eserved_next _ _ _ _ Hserved). eni.
  - (* init_eoq *)
    destruct Hpc as (Hk & Ha & Hserved & _).
    esplit_ws H0 (mkEW (einb w ++ [EOQ]) (eoutb w) (efin w) (eoqn w)).
    destruct (@eserved_at _ _ _ _ Hserved) as [Hid _]. specialize (Hid (le_n _)). red in Hid; subst w.
    cbn [einb eoutb efin eoqn app] in *.
    apply Forall_app in Hsh as [Hs1 Hs2]. inversion Hs2; subst.
    rewrite !efm_mid, ?ensum_busy_mid, ?app_length in *. cbn [eintasks einb eoutb flat_map length] in *. ebusy_eval.
    split5.
    + apply Forall_app; split; auto. constructor; auto. constructor.
    + exists h. split; auto.
    + exists d. split; auto.
    + exact Herr.
    + split; [lia|]. split; [lia|]. split; [|reflexivity]. eapply (@eserved_next _ _ _ _ Hserved). eni.
  - (* init_done *)
    destruct Hpc as (Hk & Ha & Hserved & _). split5; eauto.
  - (* recv_more *)
    destruct Hpc as (Ha & Hserved).
    esplit_ws H (mkEW (einb w ++ [Task t]) xs (efin w) (eoqn w)).
    apply Forall_app in Hsh as [Hs1 Hs2]. inversion Hs2 as [|? ? Hw Hs3]; subst.
    inversion Hw; subst; cbn [eoutb] in H0; try discriminate. injection H0 as -> <-.
    cbn [einb eoutb efin eoqn app] in *.
    rewrite !efm_mid, ?ensum_busy_mid, ?app_length in *. cbn [eintasks einb eoutb flat_map length] in *. ebusy_eval.
    rewrite ?map_app in *. cbn [map] in *.
    split5.
    + apply Forall_app; split; auto. constructor; auto. constructor.
    + exists (h ++ [t]). split; [rewrite <- app_assoc; reflexivity|].
      etransitivity; [apply Permutation_app_tail; exact Hp1|]. eperm_solve.
    + exists d. split; auto. etransitivity; [exact Hp2|]. eperm_solve.
    + exact Herr.
    + split; [lia|]. eapply (@eserved_upd _ _ _ _ _ Hserved). eni. simpl. lia.
  - (* recv_last *)
    destruct Hpc as (Ha & Hserved).
    esplit_ws H (mkEW (einb w ++ [EOQ]) xs (efin w) (eoqn w)).
    apply Forall_app in Hsh as [Hs1 Hs2]. inversion Hs2 as [|? ? Hw Hs3]; subst.
    inversion Hw; subst; cbn [eoutb] in H0; try discriminate. injection H0 as -> <-.
    cbn [einb eoutb efin eoqn app] in *.
    rewrite !efm_mid, ?ensum_busy_mid, ?app_length in *. cbn [eintasks einb eoutb flat_map length] in *. ebusy_eval.
    rewrite ?map_app in *. cbn [map] in *.
    split5.
    + apply Forall_app; split; auto. constructor; auto. constructor.
    + exists h. split; auto.
    + exists d. split; auto. etransitivity; [exact Hp2|]. eperm_solve.
    + exact Herr.
    + split; [lia|]. eapply (@eserved_upd _ _ _ _ _ Hserved). eni. simpl. lia.
  - (* recv_err: the first error *)
    destruct Hpc as (Ha & Hserved). rewrite (Hd eq_refl) in *. clear Hd.
    esplit_ws H (mkEW (einb w ++ [EOQ]) xs (efin w) (eoqn w)).
    apply Forall_app in Hsh as [Hs1 Hs2]. inversion Hs2 as [|? ? Hw Hs3]; subst.
    inversion Hw; subst; cbn [eoutb] in H0; try discriminate. injection H0 as -> <-.
    cbn [einb eoutb efin eoqn app] in *.
    rewrite !efm_mid, ?ensum_busy_mid, ?app_length in *. cbn [eintasks einb eoutb flat_map length] in *. ebusy_eval.
    split5.
    + apply Forall_app; split; auto. constructor; auto. constructor.
    + exists h. split; auto.
    + exists [Err t']. split; [|intros; discriminate]. etransitivity; [exact Hp2|]. eperm_solve.
    + intros t0 Ht0. injection Ht0 as <-.
      eapply err_in_flight; [exact Hp2|]. apply in_or_app. right. apply in_or_app. left.
      apply in_or_app. right. left. reflexivity.
    + split; [lia|]. eapply (@eserved_upd _ _ _ _ _ Hserved). eni. simpl. lia.
  - (* recv_drain: after the first error *)
    destruct Hpc as (Ha & Hserved). clear Hd.
    esplit_ws H (mkEW (einb w ++ [EOQ]) xs (efin w) (eoqn w)).
    apply Forall_app in Hsh as [Hs1 Hs2]. inversion Hs2 as [|? ? Hw Hs3]; subst.
    inversion Hw; subst; cbn [eoutb] in H0; try discriminate. injection H0 as -> <-.
    cbn [einb eoutb efin eoqn app] in *.
    rewrite !efm_mid, ?ensum_busy_mid, ?app_length in *. cbn [eintasks einb eoutb flat_map length] in *. ebusy_eval.
    split5.
    + apply Forall_app; split; auto. constructor; auto. constructor.
    + exists h. split; auto.
    + exists (d ++ [y]). split; [|intros; discriminate]. etransitivity; [exact Hp2|]. eperm_solve.
    + exact Herr.
    + split; [lia|]. eapply (@eserved_upd _ _ _ _ _ Hserved). eni. simpl. lia.
  - (* exit *)
    destruct Hpc as (Ha & Hserved). split5; eauto.
    split; [auto|]. split; [auto|]. split; [auto|]. intros; discriminate.
  - (* fallback: the root runs a pending task itself *)
    destruct Hpc as (Ha & Hserved). rewrite (Hd eq_refl) in *. clear Hd.
    rewrite ?map_app in *. cbn [map] in *. rewrite (job_ok H0).
    split5; auto.
    + exists (h ++ [t]). split; [rewrite <- app_assoc; reflexivity|].
      etransitivity; [apply Permutation_app_tail; exact Hp1|]. eperm_solve.
    + exists []. split; auto. etransitivity; [apply Permutation_app_tail; exact Hp2|]. eperm_solve.
    + intros; discriminate.
  - (* fallback_err: the job raises on the root *)
    destruct Hpc as (Ha & Hserved). rewrite (Hd eq_refl) in *. clear Hd.
    rewrite ?map_app in *. cbn [map] in *. rewrite (job_err H0).
    split5; auto.
    + exists (h ++ [t]). split; [rewrite <- app_assoc; reflexivity|].
      etransitivity; [apply Permutation_app_tail; exact Hp1|]. eperm_solve.
    + exists [Err t]. split; [|intros; discriminate]. etransitivity; [apply Permutation_app_tail; exact Hp2|]. eperm_solve.
    + intros t0 Ht0. injection Ht0 as <-. split; auto. apply in_or_app. right. left. reflexivity.
  - (* wtask *)
    esplit_ws H (mkEW ms (eoutb w ++ [job t]) false (eoqn w)).
    apply Forall_app in Hsh as [Hs1 Hs2]. inversion Hs2 as [|? ? Hw Hs3]; subst.
    inversion Hw; subst; cbn [einb] in H1; try discriminate. injection H1 as -> <-.
    cbn [einb eoutb efin eoqn app] in *.
    rewrite !efm_mid, ?ensum_busy_mid, ?app_length in *. cbn [eintasks einb eoutb flat_map length] in *.
    rewrite ?map_app in *. cbn [map] in *. ebusy_eval.
    split5.
    + apply Forall_app; split; auto. constructor; auto. constructor.
    + exists h. split; auto. etransitivity; [exact Hp1|]. eperm_solve.
    + exists d. split; auto. etransitivity; [apply Permutation_app_tail; exact Hp2|]. eperm_solve.
    + ein_ran Herr.
    + assert (Hni : forall x, ~ eidle (mkEW [] [x] false 0)) by (intros x0; eni).
      destruct c as [k a| a | |].
      * destruct Hpc as (Hk & Ha & Hserved & He). split; [|split; [|split]]; try lia; auto.
        eapply (@eserved_upd _ _ _ _ _ Hserved); auto.
        destruct (@eserved_at _ _ _ _ Hserved) as [Hid _].
        destruct (Nat.lt_ge_cases (length l1) k) as [Hlt|Hge]; auto.
        specialize (Hid Hge). red in Hid. discriminate Hid.
      * destruct Hpc as (Ha & Hserved). split; try lia; auto.
        eapply (@eserved_upd _ _ _ _ _ Hserved); auto. simpl. lia.
      * destruct Hpc as (Ha & _). lia.
      * destruct Hpc as (Ha & _). lia.
  - (* wescape: not the repaired worker *)
    discriminate.
  - (* weoq *)
    esplit_ws H (mkEW ms (eoutb w) true (S (eoqn w))).
    apply Forall_app in Hsh as [Hs1 Hs2]. inversion Hs2 as [|? ? Hw Hs3]; subst.
    inversion Hw; subst; cbn [einb] in H1; try discriminate. injection H1 as <-.
    cbn [einb eoutb efin eoqn app] in *.
    rewrite !efm_mid, ?ensum_busy_mid, ?app_length in *. cbn [eintasks einb eoutb flat_map length] in *. ebusy_eval.
    split5.
    + apply Forall_app; split; auto. constructor; auto. constructor.
    + exists h. split; auto.
    + exists d. split; auto.
    + exact Herr.
    + assert (Hni : ~ eidle (mkEW [] [] true 1)) by eni.
      destruct c as [k a| a | |].
      * destruct Hpc as (Hk & Ha & Hserved & He). split; [|split; [|split]]; try lia; auto.
        eapply (@eserved_upd _ _ _ _ _ Hserved); auto.
        destruct (@eserved_at _ _ _ _ Hserved) as [Hid _].
        destruct (Nat.lt_ge_cases (length l1) k) as [Hlt|Hge]; auto.
        specialize (Hid Hge). red in Hid. discriminate Hid.
      * destruct Hpc as (Ha & Hserved). split; try lia; auto.
        eapply (@eserved_upd _ _ _ _ _ Hserved); auto. simpl. lia.
      * destruct Hpc as (Ha & Hserved & Hpe & _). split; [|split; [|split]]; try lia; auto.
        -- eapply (@eserved_upd _ _ _ _ _ Hserved); auto. simpl. lia.
        -- intros; discriminate.
      * destruct Hpc as (_ & _ & _ & Hfin). destruct (Hfin eq_refl) as [Hf _].
        rewrite forallb_app in Hf. simpl in Hf. rewrite andb_false_r in Hf. discriminate.
  - (* bar: the closing broadcast *)
    destruct Hpc as (Ha & Hserved & Hpe & _). split5; eauto.
Qed.


Lemma EInv_reach tasks n s : ereach (einit tasks n) s -> EInv tasks s.
Proof. induction 1; [apply EInv_init | eapply EInv_step; eauto]. Qed.

Lemma estep_length s s' : estep s s' -> length (ews s') = length (ews s).
Proof.
  intros H. inversion H; subst; cbn [ews]; auto;
  match goal with Hn : nth_error ?l ?i = Some _ |- _ => apply upd_length; eapply nth_error_lt; exact Hn end.
Qed.

Lemma ereach_length tasks n s : ereach (einit tasks n) s -> length (ews s) = n.
Proof.
  induction 1; [apply repeat_length|]. rewrite (estep_length H0). exact IHereach.
Qed.

Lemma enoinb_false (l : list eworker) :
  enoinb l = false -> exists i w, nth_error l i = Some w /\ einb w <> [].
Proof.
  induction l as [|w l IH]; simpl; [discriminate|].
  destruct (einb w) eqn:E; simpl.
  - intros H. destruct (IH H) as (i & w' & Hi & Hw'). exists (S i), w'. auto.
  - intros _. exists 0, w. split; [reflexivity|]. rewrite E. discriminate.
Qed.

Lemma eroot_ok_of_noinb (l : list eworker) : enoinb l = true -> eroot_ok md l = true.
Proof. intros H. destruct md; simpl; auto. Qed.

(* ---------- (a) no deadlock, eager and synchronous sends, whatever fails ---------- *)
Theorem edispatch_progress tasks n s :
  ereach (einit tasks n) s -> epc s <> RDone -> exists s', estep s s'.
Proof.
  intros Hr Hne. destruct (EInv_reach Hr) as (Hsh & _ & _ & _ & Hinv).
  destruct s as [c p l g r e o]. cbn [epc epend ews egot eran eerr eout] in *. unfold epc_inv in Hinv.
  cbn [epc ews epend eerr eout] in Hinv.
  destruct (enoinb l) eqn:Hnb.
  2: { destruct (enoinb_false _ Hnb) as (i & w & Hi & Hwne).
       assert (Hw : eshape w). { eapply Forall_forall in Hsh; eauto. eapply nth_error_In; eauto. }
       inversion Hw; subst; cbn [einb] in Hwne; try congruence.
       - eexists. eapply e_wtask; eauto; reflexivity.
       - eexists. eapply e_weoq; eauto; reflexivity. }
  pose proof (eroot_ok_of_noinb _ Hnb) as Hok.
  destruct c as [k a|a| |]; [| | |congruence].
  - destruct Hinv as (Hk & Ha & Hserved & ->).
    destruct (Nat.eq_dec k (length l)) as [->|Hn].
    + eexists. apply e_init_done; [reflexivity|exact Hok].
    + destruct (nth_error l k) as [w|] eqn:Hw; [|apply nth_error_None in Hw; lia].
      destruct p as [|t p].
      * eexists. eapply e_init_eoq; eauto.
      * destruct (allowed k) eqn:Hal.
        -- eexists. eapply e_init_task; eauto.
        -- eexists. eapply e_init_eoq; eauto.
  - destruct Hinv as (Ha & Hserved).
    destruct a as [|a].
    { destruct e as [e|].
      - eexists. apply e_exit; [exact Hok|intros; discriminate].
      - destruct p as [|t p].
        + eexists. apply e_exit; [exact Hok|reflexivity].
        + destruct (fails t) eqn:Hf.
          * eexists. apply e_fallback_err; [exact Hok|exact Hf].
          * eexists. apply e_fallback; [exact Hok|exact Hf]. }
    (* some worker is busy *)
    assert (Hex : exists i w, nth_error l i = Some w /\ ebusy w <> 0).
    { clear - Ha. revert a Ha. induction l as [|w l IH]; simpl; intros a Ha; [lia|].
      destruct (ebusy w) eqn:Hb.
      - destruct (IH a) as (i & w' & Hi & Hw'); [simpl in Ha; lia|]. exists (S i), w'. auto.
      - exists 0, w. split; auto. lia. }
    destruct Hex as (i & w & Hi & Hb).
    assert (Hw : eshape w). { eapply Forall_forall in Hsh; eauto. eapply nth_error_In; eauto. }
    inversion Hw; subst; cbv in Hb; try congruence.
    + eexists. eapply e_wtask; eauto; reflexivity.
    + destruct e as [e|].
      * eexists. eapply e_recv_drain; eauto. reflexivity.
      * destruct y as [x|t'].
        -- destruct p as [|t' p].
           ++ eexists. eapply e_recv_last; eauto. reflexivity.
           ++ eexists. eapply e_recv_more; eauto. reflexivity.
        -- eexists. eapply e_recv_err; eauto. reflexivity.
  - destruct Hinv as (Hb & Hserved & Hpend & _).
    destruct (forallb efin l) eqn:Hf.
    + eexists. apply e_bar. exact Hf.
    + assert (Hex : exists i w, nth_error l i = Some w /\ efin w = false).
      { clear - Hf. induction l as [|w l IH]; simpl in *; [discriminate|].
        destruct (efin w) eqn:Hw.
        - destruct (IH Hf) as (i & w' & Hi & Hw'). exists (S i), w'. auto.
        - exists 0, w. auto. }
      destruct Hex as (i & w & Hi & Hfw).
      assert (Hw : eshape w). { eapply Forall_forall in Hsh; eauto. eapply nth_error_In; eauto. }
      assert (Hbw : ebusy w = 0).
      { clear - Hb Hi. revert i Hi. induction l as [|x l IH]; intros [|i] Hi; simpl in *; try discriminate.
        - injection Hi as ->. lia.
        - eapply IH; eauto. lia. }
      destruct (Hserved i w Hi) as [_ Hni]. specialize (Hni (nth_error_lt _ _ Hi)).
      inversion Hw; subst; cbv in Hbw; try discriminate.
      * exfalso. apply Hni. reflexivity.
      * eexists. eapply e_weoq; eauto; reflexivity.
Qed.

Lemma ereach_trans s0 s1 s2 : ereach s0 s1 -> ereach s1 s2 -> ereach s0 s2.
Proof. intros H1 H2. induction H2; [exact H1|]. eapply ereach_step; eauto. Qed.

(* progress + termination: every partial run can be completed, all ranks pass the broadcast *)
Theorem edispatch_reaches_done tasks n s :
  ereach (einit tasks n) s -> exists s', ereach s s' /\ epc s' = RDone.
Proof.
  remember (emu s) as k eqn:Ek. revert s Ek.
  induction k as [k IH] using lt_wf_ind. intros s Ek Hr.
  destruct (epc s) eqn:Hpc.
  4: { exists s. split; [constructor|exact Hpc]. }
  all: destruct (@edispatch_progress tasks n s Hr) as [s1 Hs1]; [congruence|];
       destruct (IH (emu s1) ltac:(subst k; eapply estep_decreases; exact Hs1) s1 eq_refl
                    ltac:(eapply ereach_step; eauto)) as (s2 & Hr2 & Hd);
       exists s2; split; [|exact Hd];
       eapply ereach_trans; [eapply ereach_step; [constructor|exact Hs1]|exact Hr2].
Qed.

(* ---------- the end of a run ---------- *)
Definition wdone (w : eworker) : Prop := w = mkEW [] [] true 1.

Lemma efin_all_done l : Forall eshape l -> forallb efin l = true -> Forall wdone l.
Proof.
  induction 1 as [|w l Hw Hl IH]; simpl; auto. intros Hf. apply andb_true_iff in Hf as [Hfw Hfl].
  constructor; auto. inversion Hw; subst; simpl in *; try discriminate. reflexivity.
Qed.

Lemma wdone_empty l : Forall wdone l -> flat_map eintasks l = [] /\ flat_map eoutb l = [].
Proof.
  induction 1 as [|w l Hw Hl [E1 E2]]; simpl; auto. red in Hw. subst w. simpl. auto.
Qed.

Lemma map_Ok_inj (a b : list R) : map (@Ok T R) a = map (@Ok T R) b -> a = b.
Proof.
  revert b; induction a as [|x a IH]; intros [|y b] H; simpl in *; try discriminate; auto.
  injection H as -> H. f_equal. auto.
Qed.

Lemma Permutation_map_Ok_inv (a b : list R) : Permutation (map (@Ok T R) a) (map (@Ok T R) b) -> Permutation a b.
Proof.
  intros H. apply Permutation_map_inv in H as (l3 & E & HP). apply map_Ok_inj in E. subst l3.
  apply Permutation_sym. exact HP.
Qed.

Section AtDone.
Context (tasks : list T) (n : nat) (s : est).
Context (Hr : ereach (einit tasks n) s).
Context (Hdone : epc s = RDone).

Lemma edone_facts :
  Forall wdone (ews s) /\ eout s = repeat (eerr s) (S n) /\ (eerr s = None -> epend s = [])
  /\ (exists h, tasks = h ++ epend s /\ Permutation h (eran s))
  /\ (exists d, Permutation (map job (eran s)) (map (@Ok T R) (egot s) ++ d) /\ (eerr s = None -> d = []))
  /\ (forall t, eerr s = Some t -> fails t = true /\ In t (eran s)).
Proof.
  destruct (EInv_reach Hr) as (Hsh & (h & Eh & Hp1) & (d & Hp2 & Hd) & Herr & Hpc).
  unfold epc_inv in Hpc. rewrite Hdone in Hpc. destruct Hpc as (_ & _ & Hpe & Hfin).
  destruct (Hfin eq_refl) as [Hf Ho].
  pose proof (efin_all_done Hsh Hf) as Hall. destruct (wdone_empty Hall) as [E1 E2].
  rewrite E1 in Hp1. rewrite E2 in Hp2. simpl in Hp1, Hp2.
  rewrite (ereach_length Hr) in Ho.
  split; [exact Hall|]. split; [exact Ho|]. split; [exact Hpe|].
  split; [exists h; auto|]. split; [exists d; auto|]. exact Herr.
Qed.

(* (b) every worker has received exactly one sentinel, holds no message and is out of its loop *)
Theorem edispatch_workers_end : length (ews s) = n /\ Forall wdone (ews s).
Proof. split; [apply (ereach_length Hr)|apply edone_facts]. Qed.

(* (c) every task is executed at most once; the tasks handed out (all but the suffix that is
   still pending - nothing is handed out after the first error, eerr_frozen) exactly once *)
Theorem edispatch_at_most_once :
  exists h, tasks = h ++ epend s /\ Permutation h (eran s).
Proof. apply edone_facts. Qed.

(* (d) the error flag is set iff some executed task fails; it is the error of an executed
   failing task; every rank leaves the broadcast with the root's flag: all raise or none *)
Theorem edispatch_error_iff :
  (eerr s <> None <-> exists t, In t (eran s) /\ fails t = true)
  /\ (forall t, eerr s = Some t -> fails t = true /\ In t (eran s))
  /\ eout s = repeat (eerr s) (S n).
Proof.
  destruct edone_facts as (_ & Ho & _ & _ & (d & Hp2 & Hd) & Herr).
  split; [|split; auto]. split.
  - destruct (eerr s) as [t|] eqn:E; [|congruence]. intros _. exists t. destruct (Herr t eq_refl). auto.
  - intros (t & Hin & Hf) Hnone. rewrite (Hd Hnone), app_nil_r in Hp2.
    assert (Hm : In (Err t) (map job (eran s))).
    { apply in_map_iff. exists t. split; auto. apply job_err. exact Hf. }
    pose proof (Permutation_in _ Hp2 Hm) as Hm'. apply in_map_iff in Hm' as (x & Hx & _). discriminate.
Qed.

Corollary edispatch_all_ranks_same r1 r2 o1 o2 :
  nth_error (eout s) r1 = Some o1 -> nth_error (eout s) r2 = Some o2 -> o1 = eerr s /\ o2 = eerr s.
Proof.
  destruct edispatch_error_iff as (_ & _ & ->). intros H1 H2.
  apply nth_error_In in H1, H2. apply repeat_spec in H1, H2. auto.
Qed.

(* what the root yielded are results of distinct executed tasks that did not fail *)
Theorem edispatch_yielded_sound :
  exists d, Permutation (map job (eran s)) (map (@Ok T R) (egot s) ++ d).
Proof. destruct edone_facts as (_ & _ & _ & _ & (d & Hp2 & _) & _). eauto. Qed.

(* (e) a run that ends without the error flag executed every task exactly once and the root
   yielded exactly map f tasks - the statement of the error-free theorem *)
Theorem edispatch_no_error_result :
  eerr s = None -> Permutation tasks (eran s) /\ Permutation (map f tasks) (egot s).
Proof.
  intros Hnone. destruct edone_facts as (_ & _ & Hpe & (h & Eh & Hp1) & (d & Hp2 & Hd) & _).
  rewrite (Hpe Hnone), app_nil_r in Eh. subst h. rewrite (Hd Hnone), app_nil_r in Hp2.
  split; auto.
  assert (Hnf : forall t, In t (eran s) -> fails t = false).
  { intros t Hin. destruct (fails t) eqn:Hf; auto. exfalso.
    destruct edispatch_error_iff as ([_ Hx] & _). apply Hx; eauto. }
  assert (E : map job (eran s) = map (@Ok T R) (map f (eran s))).
  { rewrite map_map. apply map_ext_in. intros t Hin. apply job_ok. auto. }
  rewrite E in Hp2. apply Permutation_map_Ok_inv in Hp2.
  etransitivity; [apply Permutation_map; exact Hp1|exact Hp2].
Qed.

Corollary edispatch_no_failing_task :
  (forall t, In t tasks -> fails t = false) ->
  eerr s = None /\ eout s = repeat None (S n) /\ Permutation tasks (eran s) /\ Permutation (map f tasks) (egot s).
Proof.
  intros Hnf. assert (Hnone : eerr s = None).
  { destruct (eerr s) as [t|] eqn:E; auto. exfalso.
    destruct edone_facts as (_ & _ & _ & (h & Eh & Hp1) & _ & Herr).
    destruct (Herr t E) as [Hf Hin]. apply Permutation_sym in Hp1. pose proof (Permutation_in _ Hp1 Hin) as Hh.
    rewrite (Hnf t) in Hf; [discriminate|]. rewrite Eh. apply in_or_app. auto. }
  destruct edispatch_error_iff as (_ & _ & Ho). rewrite Hnone in Ho.
  destruct (edispatch_no_error_result Hnone). auto.
Qed.
End AtDone.


(* ---------- root fallback: no worker rank allowed (max_workers = 1) ---------- *)
(* the root runs the tasks itself, in order; the first failing task raises, the rest is not
   run; then the broadcast: the run is the single-process run [seqrun] *)
Definition equiet (w : eworker) : Prop := eoutb w = [] /\ forall t, ~ In (Task t) (einb w).
Definition EInv0 (tasks : list T) (s : est) : Prop :=
  Forall equiet (ews s)
  /\ match epc s with RInit _ a => a = 0 | RLoop a => a = 0 | _ => True end
  /\ match eerr s with
     | None => seqrun f fails (eran s) (egot s) (epend s) = seqrun f fails [] [] tasks
     | Some t => (eran s, egot s, Some t, epend s) = seqrun f fails [] [] tasks
     end.

Lemma eForall_upd (P : eworker -> Prop) i (w w' : eworker) l :
  nth_error l i = Some w -> Forall P l -> P w' -> Forall P (upd i w' l).
Proof.
  intros Hn Hl Hw'. destruct (@upd_split _ _ _ _ w' Hn) as (l1 & l2 & E & E' & _).
  rewrite E'. rewrite E in Hl. apply Forall_app in Hl as [H1 H2]. inversion H2; subst.
  apply Forall_app; split; auto.
Qed.

Lemma eForall_nth (P : eworker -> Prop) i (w : eworker) l : nth_error l i = Some w -> Forall P l -> P w.
Proof. intros Hn Hl. eapply Forall_forall in Hl; eauto. eapply nth_error_In; eauto. Qed.

Lemma EInv0_step tasks s s' :
  (forall k, allowed k = false) -> EInv0 tasks s -> estep s s' -> EInv0 tasks s'.
Proof.
  intros Hna (Hq & Hpc & Hseq) Hst. unfold EInv0 in *.
  inversion Hst; subst; cbn [epc epend ews egot eran eerr eout] in *; try discriminate.
  - rewrite Hna in H. discriminate.
  - repeat split; auto. eapply eForall_upd; eauto.
    destruct (eForall_nth _ H0 Hq) as [Ho Hi]. split; cbn [einb eoutb]; auto.
    intros t Hin. apply in_app_or in Hin as [Hin|[Hin|[]]]; [eapply Hi; eauto|discriminate].
  - repeat split; auto.
  - repeat split; auto.
  - split; [auto|]. split; [auto|]. rewrite <- Hseq. simpl. rewrite H0. reflexivity.
  - split; [auto|]. split; [auto|]. rewrite <- Hseq. simpl. rewrite H0. reflexivity.
  - exfalso. destruct (eForall_nth _ H Hq) as [_ Hi]. apply (Hi t). rewrite H1. left. reflexivity.
  - split; [|split; auto]. eapply eForall_upd; eauto.
    destruct (eForall_nth _ H Hq) as [Ho Hi]. split; cbn [einb eoutb]; auto.
    intros t Hin. apply (Hi t). rewrite H1. right. exact Hin.
  - repeat split; auto.
Qed.

Theorem edispatch_root_fallback tasks n s :
  (forall k, allowed k = false) -> ereach (einit tasks n) s -> epc s = RDone ->
  (eran s, egot s, eerr s, epend s) = seqrun f fails [] [] tasks /\ eout s = repeat (eerr s) (S n).
Proof.
  intros Hna Hr Hd.
  assert (H : EInv0 tasks s).
  { clear Hd. induction Hr; [|eapply EInv0_step; eauto].
    unfold EInv0, DispatchE_scratch.einit; cbn [epc epend ews egot eran eerr]. repeat split; auto.
    apply Forall_forall. intros w Hw. apply repeat_spec in Hw. subst. split; cbn [einb eoutb]; auto. }
  destruct H as (_ & _ & Hseq). destruct (edone_facts Hr Hd) as (_ & Ho & Hpe & _).
  split; auto. destruct (eerr s) as [t|] eqn:E; auto.
  rewrite <- Hseq. rewrite (Hpe eq_refl). reflexivity.
Qed.

End DispatchEP.

(* ---------- the executable step is the relation (repaired and pinned worker) ---------- *)
Section EStepWith.
Context {T R : Type}.
Context (f : T -> R) (fails : T -> bool) (allowed : nat -> bool) (wcatch : bool) (md : mode).
Local Notation estep := (estep f fails allowed wcatch md).
Local Notation estep_with := (estep_with f fails allowed wcatch md).
Local Notation ereach := (ereach f fails allowed wcatch md).

Ltac edm :=
  match goal with
  | H : context [match ?x with _ => _ end] |- _ => destruct x eqn:?; try discriminate
  end.

Lemma estep_with_sound c s s' : estep_with c s = Some s' -> estep s s'.
Proof.
  destruct s as [c0 p l g r e o]. unfold DispatchE_scratch.estep_with, eset; cbn [epc epend ews egot eran eerr eout]. intros H.
  destruct c; repeat edm; injection H as <-;
  repeat match goal with H : _ && _ = true |- _ => apply andb_true_iff in H as [? ?] end;
  repeat match goal with H : (_ =? _) = true |- _ => apply Nat.eqb_eq in H; subst end.
  - eapply e_init_task; eauto.
  - eapply e_init_eoq; eauto.
    match goal with H : _ || _ = true |- _ => apply orb_true_iff in H; destruct H as [Hx|Hx] end.
    + left. apply negb_true_iff. exact Hx.
    + right. apply is_nil_true. exact Hx.
  - eapply e_init_done; eauto.
  - eapply e_recv_more; eauto.
  - eapply e_recv_last; eauto.
  - eapply e_recv_err; eauto.
  - eapply e_recv_drain; eauto.
  - eapply e_fallback; eauto. apply negb_true_iff. assumption.
  - eapply e_fallback_err; eauto.
  - eapply e_exit; eauto. intros; discriminate.
  - eapply e_exit; eauto. intros _. apply is_nil_true. assumption.
  - eapply e_wtask; eauto.
    match goal with H : _ || _ = true |- _ => apply orb_true_iff in H; destruct H as [Hx|Hx] end.
    + left. exact Hx.
    + right. apply negb_true_iff. exact Hx.
  - eapply e_wescape; eauto. apply negb_true_iff. assumption.
  - eapply e_weoq; eauto.
  - eapply e_bar; eauto.
Qed.

Lemma estep_with_complete s s' : estep s s' -> exists c, estep_with c s = Some s'.
Proof.
  intros H. inversion H; subst.
  - exists (EInitTask k). unfold DispatchE_scratch.estep_with, eset; cbn [epc epend ews egot eran eerr eout].
    rewrite H1, Nat.eqb_refl, H0, H2. reflexivity.
  - exists (EInitEoq k). unfold DispatchE_scratch.estep_with, eset; cbn [epc epend ews egot eran eerr eout].
    rewrite H1, Nat.eqb_refl, H2.
    destruct H0 as [-> | ->]; [reflexivity|]. rewrite orb_true_r. reflexivity.
  - exists EInitDone. unfold DispatchE_scratch.estep_with, eset; cbn [epc epend ews egot eran eerr eout].
    rewrite Nat.eqb_refl, H1. reflexivity.
  - exists (ERecvMore i). unfold DispatchE_scratch.estep_with, eset; cbn [epc epend ews egot eran eerr eout].
    rewrite H0, H1, H2. reflexivity.
  - exists (ERecvLast i). unfold DispatchE_scratch.estep_with, eset; cbn [epc epend ews egot eran eerr eout].
    rewrite H0, H1, H2. reflexivity.
  - exists (ERecvErr i). unfold DispatchE_scratch.estep_with, eset; cbn [epc epend ews egot eran eerr eout].
    rewrite H0, H1, H2. reflexivity.
  - exists (ERecvDrain i). unfold DispatchE_scratch.estep_with, eset; cbn [epc epend ews egot eran eerr eout].
    rewrite H0, H1, H2. reflexivity.
  - exists EExit. unfold DispatchE_scratch.estep_with, eset; cbn [epc epend ews egot eran eerr eout].
    rewrite H0. destruct e; [reflexivity|]. rewrite (H1 eq_refl). reflexivity.
  - exists EFallback. unfold DispatchE_scratch.estep_with, eset; cbn [epc epend ews egot eran eerr eout].
    rewrite H0, H1. reflexivity.
  - exists EFallbackErr. unfold DispatchE_scratch.estep_with, eset; cbn [epc epend ews egot eran eerr eout].
    rewrite H0, H1. reflexivity.
  - exists (EWTask i). unfold DispatchE_scratch.estep_with, eset; cbn [epc epend ews egot eran eerr eout].
    rewrite H0, H1, H2. destruct H3 as [-> | ->]; [reflexivity|]. rewrite orb_true_r. reflexivity.
  - exists (EWEscape i). unfold DispatchE_scratch.estep_with, eset; cbn [epc epend ews egot eran eerr eout].
    rewrite H0, H1, H2, H4. reflexivity.
  - exists (EWEoq i). unfold DispatchE_scratch.estep_with, eset; cbn [epc epend ews egot eran eerr eout].
    rewrite H0, H1, H2. reflexivity.
  - exists EBar. unfold DispatchE_scratch.estep_with, eset; cbn [epc epend ews egot eran eerr eout]. rewrite H0. reflexivity.
Qed.

Lemma erun_sound cs s s' : erun f fails allowed wcatch md cs s = Some s' -> ereach s s'.
Proof.
  revert s. induction cs as [|c cs IH]; simpl; intros s H.
  - injection H as <-. constructor.
  - destruct (estep_with c s) as [s1|] eqn:E; [|discriminate].
    assert (Hs : estep s s1) by (eapply estep_with_sound; exact E).
    specialize (IH _ H). clear - Hs IH. induction IH; [eapply ereach_step; [constructor|exact Hs]|eapply ereach_step; eauto].
Qed.

(* a choice with a worker index outside the world is never enabled; hence the boolean test
   [enone_enabled] decides that NO step is possible *)
Lemma estep_with_oob c s :
  ~ In c (echoices (length (ews s))) -> estep_with c s = None.
Proof.
  intros Hnin.
  assert (Hidx : forall i (mk : nat -> echoice),
             In (mk i) [EInitTask i; EInitEoq i; ERecvMore i; ERecvLast i; ERecvErr i; ERecvDrain i; EWTask i; EWEscape i; EWEoq i] ->
             ~ In (mk i) (echoices (length (ews s))) -> nth_error (ews s) i = None).
  { intros i mk Hin Hn. apply nth_error_None. destruct (Nat.lt_ge_cases i (length (ews s))) as [Hlt|]; auto.
    exfalso. apply Hn. unfold echoices. apply in_or_app. right. apply in_flat_map. exists i. split; auto.
    apply in_seq. lia. }
  unfold DispatchE_scratch.estep_with.
  destruct c;
    try (exfalso; apply Hnin; unfold echoices; apply in_or_app; left; simpl; tauto);
    match goal with
    | |- context [nth_error (ews s) ?i] =>
        rewrite (Hidx i (fun _ => _) ltac:(simpl; tauto) Hnin)
    end;
    repeat match goal with |- context [match ?x with _ => _ end] => destruct x; try reflexivity end.
Qed.

Lemma enone_enabled_stuck s :
  epc s <> RDone -> enone_enabled f fails allowed wcatch md s = true -> estuck f fails allowed wcatch md s.
Proof.
  intros Hpc Hn. split; auto. intros s' Hst. apply estep_with_complete in Hst as [c Hc].
  unfold enone_enabled in Hn. rewrite forallb_forall in Hn.
  destruct (in_dec (fun a b : echoice => ltac:(decide equality; apply Nat.eq_dec) : {a = b} + {a <> b}) c (echoices (length (ews s)))) as [Hin|Hnin].
  - specialize (Hn c Hin). rewrite Hc in Hn. discriminate.
  - rewrite (estep_with_oob _ _ Hnin) in Hc. discriminate.
Qed.
End EStepWith.
