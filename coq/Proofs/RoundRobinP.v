(* proofs about Model/RoundRobin.v : the job iterator terminates, yields exactly the documented set of jobs, each once,
   whatever order set.pop() hands the elements out in *)
From Verif Require Import Prelude RoundRobin PairCount PairCountP.
From Coq Require Import Permutation.
Open Scope nat_scope.

(* ---------- set.remove ---------- *)
Lemma filter_notin i l : ~ In i l -> filter (fun j => negb (j =? i)) l = l.
Proof.
  induction l as [|x t IH]; simpl; intro H; [reflexivity|].
  destruct (x =? i) eqn:E.
  - apply Nat.eqb_eq in E. exfalso. apply H. left. exact E.
  - simpl. f_equal. apply IH. intro Hin. apply H. right. exact Hin.
Qed.

Lemma remove_first_filter i l l' :
  remove_first i l = Some l' -> NoDup l -> l' = filter (fun j => negb (j =? i)) l.
Proof.
  revert l'. induction l as [|x t IH]; simpl; intros l' H Hn; [discriminate|].
  inversion Hn as [|? ? Hx Ht]; subst.
  destruct (x =? i) eqn:E.
  - injection H as H. subst l'. simpl. apply Nat.eqb_eq in E. subst x. symmetry. apply filter_notin. exact Hx.
  - simpl. destruct (remove_first i t) as [t'|] eqn:R; simpl in H; [|discriminate].
    injection H as H. subst l'. f_equal. apply IH; [reflexivity|exact Ht].
Qed.

Lemma remove_first_some i l : In i l -> exists l', remove_first i l = Some l'.
Proof.
  induction l as [|x t IH]; simpl; intro H; [contradiction|].
  destruct (x =? i) eqn:E; [eexists; reflexivity|].
  destruct H as [H|H]; [apply Nat.eqb_neq in E; contradiction|].
  destruct (IH H) as [t' Ht]. rewrite Ht. eexists; reflexivity.
Qed.

Lemma remove_first_some_inv i l l' : remove_first i l = Some l' -> In i l.
Proof.
  revert l'. induction l as [|x t IH]; simpl; intros l' H; [discriminate|].
  destruct (x =? i) eqn:E; [left; apply Nat.eqb_eq; exact E|].
  destruct (remove_first i t) as [t'|]; simpl in H; [|discriminate]. right. eapply IH. reflexivity.
Qed.

Lemma remove_first_none i l : remove_first i l = None -> ~ In i l.
Proof.
  intros H Hin. destruct (remove_first_some i l Hin) as [l' E]. congruence.
Qed.

Lemma remove_first_length i l l' : remove_first i l = Some l' -> length l = S (length l').
Proof.
  revert l'. induction l as [|x t IH]; simpl; intros l' H; [discriminate|].
  destruct (x =? i); [injection H as H; subst; reflexivity|].
  destruct (remove_first i t) as [t'|]; simpl in H; [|discriminate].
  injection H as H. subst l'. simpl. f_equal. apply IH. reflexivity.
Qed.

(* ---------- phase 1 ---------- *)
Definition key_rel (e e' : nat * list nat) : Prop :=
  fst e = fst e' /\ remove_first (fst e) (snd e) = Some (snd e').

Lemma phase1_spec st ys st' :
  phase1 st = Some (ys, st') -> ys = map (fun e => (fst e, fst e)) st /\ Forall2 key_rel st st'.
Proof.
  revert ys st'. induction st as [|[i l] rest IH]; simpl; intros ys st' H.
  - injection H as H1 H2. subst. split; [reflexivity|constructor].
  - destruct (remove_first i l) as [l'|] eqn:R; [|discriminate].
    destruct (phase1 rest) as [[ys0 rest']|] eqn:P; [|discriminate].
    injection H as H1 H2. subst. destruct (IH _ _ eq_refl) as [Hy Hf]. split.
    + simpl. f_equal. exact Hy.
    + constructor; [split; [reflexivity|exact R]|exact Hf].
Qed.

Lemma phase1_defined st :
  (forall e, In e st -> In (fst e) (snd e)) -> exists ys st', phase1 st = Some (ys, st').
Proof.
  induction st as [|[i l] rest IH]; simpl; intro H; [eexists; eexists; reflexivity|].
  destruct (remove_first_some i l (H (i, l) (or_introl eq_refl))) as [l' R]. rewrite R.
  destruct IH as [ys [st' P]]; [intros e He; apply H; right; exact He|]. rewrite P.
  eexists; eexists; reflexivity.
Qed.

Lemma phase1_keyerror st :
  phase1 st = None -> exists e, In e st /\ ~ In (fst e) (snd e).
Proof.
  induction st as [|[i l] rest IH]; simpl; intro H; [discriminate|].
  destruct (remove_first i l) as [l'|] eqn:R.
  - destruct (phase1 rest) as [[ys0 rest']|] eqn:P; [discriminate|].
    destruct (IH eq_refl) as [e [He Hn]]. exists e. split; [right; exact He|exact Hn].
  - exists (i, l). split; [left; reflexivity|apply remove_first_none; exact R].
Qed.

(* ---------- the sweeps ---------- *)
Definition all_yields (auto : bool) (e : nat * list nat) : list (nat * nat) :=
  flat_map (yield_of auto (fst e)) (snd e).

Lemma sweep_split auto st :
  Permutation (flat_map (all_yields auto) st) (sweep_out auto st ++ flat_map (all_yields auto) (sweep_next st)).
Proof.
  induction st as [|[i l] rest IH]; [constructor|].
  destruct l as [|j t].
  - unfold sweep_out, sweep_next in *. simpl. exact IH.
  - unfold sweep_out, sweep_next in *. cbn [flat_map fst snd app].
    set (G := all_yields auto) in *.
    assert (HG : G (i, j :: t) = yield_of auto i j ++ G (i, t)) by reflexivity.
    rewrite HG. rewrite <- !app_assoc. apply Permutation_app_head.
    etransitivity; [apply Permutation_app_head; exact IH|].
    apply Permutation_app_swap_app.
Qed.

Lemma sweeps_perm auto fuel st ys :
  sweeps fuel auto st = Some ys -> Permutation ys (flat_map (all_yields auto) st).
Proof.
  revert st ys. induction fuel as [|f IH]; intros st ys H.
  - destruct st; simpl in H; [injection H as H; subst; constructor|discriminate].
  - destruct st as [|e rest]; [simpl in H; injection H as H; subst; constructor|].
    cbn [sweeps] in H. destruct (sweeps f auto (sweep_next (e :: rest))) as [zs|] eqn:S; simpl in H; [|discriminate].
    injection H as H. subst ys. symmetry. etransitivity; [apply sweep_split|].
    apply Permutation_app_head. symmetry. apply IH. exact S.
Qed.

Lemma rr_size_next st : st <> [] -> rr_size (sweep_next st) < rr_size st.
Proof.
  induction st as [|[i l] rest IH]; [congruence|]. intros _.
  assert (Hle : rr_size (sweep_next rest) <= rr_size rest).
  { destruct rest as [|e r]; [simpl; lia|]. assert (e :: r <> []) by congruence. specialize (IH H). lia. }
  unfold sweep_next in *. destruct l as [|j t]; simpl in *; lia.
Qed.

Lemma sweeps_defined auto fuel st : rr_size st <= fuel -> exists ys, sweeps fuel auto st = Some ys.
Proof.
  revert st. induction fuel as [|f IH]; intros st H.
  - destruct st as [|[i l] r]; [eexists; reflexivity|simpl in H; lia].
  - destruct st as [|e r]; [eexists; reflexivity|].
    cbn [sweeps]. assert (Hlt : rr_size (sweep_next (e :: r)) < rr_size (e :: r)) by (apply rr_size_next; congruence).
    destruct (IH (sweep_next (e :: r))) as [zs Hz]; [lia|]. rewrite Hz. eexists; reflexivity.
Qed.

(* ---------- the iterator ---------- *)
(* the while loop ends for every dictionary; the only way not to get a job list is the KeyError of phase 1 *)
Theorem rr_defined auto st :
  (forall e, In e st -> In (fst e) (snd e)) -> exists ys, iter_pairs auto st = Some ys.
Proof.
  intro H. unfold iter_pairs. destruct (phase1_defined st H) as [ys [st' P]]. rewrite P.
  destruct (sweeps_defined auto (rr_size st') st' (le_n _)) as [zs Hz]. rewrite Hz. eexists; reflexivity.
Qed.

Theorem rr_keyerror auto st :
  iter_pairs auto st = None <-> exists e, In e st /\ ~ In (fst e) (snd e).
Proof.
  split.
  - unfold iter_pairs. destruct (phase1 st) as [[ys st']|] eqn:P.
    + destruct (sweeps_defined auto (rr_size st') st' (le_n _)) as [zs Hz]. rewrite Hz. discriminate.
    + intros _. apply phase1_keyerror. exact P.
  - intros [e [He Hn]]. destruct (iter_pairs auto st) as [ys|] eqn:E; [|reflexivity]. exfalso.
    unfold iter_pairs in E. destruct (phase1 st) as [[ys0 st']|] eqn:P; [|discriminate].
    apply phase1_spec in P as [_ Hf]. clear E.
    induction Hf as [|a a' l l' Hr Hf IH]; [contradiction|].
    destruct He as [He|He]; [subst a; destruct Hr as [_ Hr]; apply remove_first_some_inv in Hr; contradiction|exact (IH He)].
Qed.

(* ---------- what is yielded ---------- *)
Lemma yields_filter auto i l :
  flat_map (yield_of auto i) (filter (fun j => negb (j =? i)) l)
  = map (pair i) (filter (fun j => negb (j =? i) && (negb auto || (i <? j))) l).
Proof.
  induction l as [|x t IH]; [reflexivity|]. cbn [filter].
  destruct (x =? i) eqn:E; cbn [negb andb]; [exact IH|].
  cbn [flat_map]. rewrite IH. unfold yield_of. destruct (negb auto || (i <? x)); reflexivity.
Qed.

Lemma cross_part auto st st' :
  Forall2 key_rel st st' -> (forall e, In e st -> NoDup (snd e)) ->
  flat_map (all_yields auto) st'
  = flat_map (fun e => map (pair (fst e))
       (filter (fun j => negb (j =? fst e) && (negb auto || (fst e <? j))) (snd e))) st.
Proof.
  induction 1 as [|e e' r r' [Hk Hr] Hf IH]; intro Hn; [reflexivity|].
  cbn [flat_map]. rewrite IH by (intros x Hx; apply Hn; right; exact Hx). f_equal.
  unfold all_yields. rewrite <- Hk.
  rewrite (remove_first_filter _ _ _ Hr (Hn e (or_introl eq_refl))). apply yields_filter.
Qed.

(* whatever order the sets hand their elements out in, the jobs are the documented ones, each once *)
Theorem rr_jobs_spec auto st ys :
  (forall e, In e st -> NoDup (snd e)) -> iter_pairs auto st = Some ys -> Permutation ys (jobs_spec auto st).
Proof.
  intros Hn H. unfold iter_pairs in H. destruct (phase1 st) as [[ys0 st']|] eqn:P; [|discriminate].
  destruct (sweeps (rr_size st') auto st') as [zs|] eqn:S; simpl in H; [|discriminate].
  injection H as H. subst ys. apply phase1_spec in P as [Hy Hf]. subst ys0. unfold jobs_spec.
  apply Permutation_app_head. rewrite <- (cross_part auto st st' Hf Hn). eapply sweeps_perm. exact S.
Qed.

(* the dictionary built by from_catalogs: keys ids, set of key i = lk i *)
Definition dict_of (lk : nat -> list nat) (ids : list nat) : rr_state := map (fun i => (i, lk i)) ids.

Lemma jobs_spec_id_pairs auto lk ids : jobs_spec auto (dict_of lk ids) = id_pairs auto lk ids.
Proof.
  unfold jobs_spec, id_pairs, dict_of. rewrite map_map. cbn [fst snd]. f_equal.
  induction ids as [|i r IH]; [reflexivity|]. cbn [map flat_map fst snd]. rewrite IH. reflexivity.
Qed.

Theorem rr_refines_id_pairs auto lk ids ys :
  (forall i, NoDup (lk i)) -> iter_pairs auto (dict_of lk ids) = Some ys -> Permutation ys (id_pairs auto lk ids).
Proof.
  intros Hn H. rewrite <- jobs_spec_id_pairs. apply rr_jobs_spec; [|exact H].
  intros e He. unfold dict_of in He. apply in_map_iff in He as [i [E _]]. subst e. apply Hn.
Qed.

Theorem rr_no_job_twice auto lk ids ys :
  NoDup ids -> (forall i, NoDup (lk i)) -> iter_pairs auto (dict_of lk ids) = Some ys -> NoDup ys.
Proof.
  intros Hi Hn H. eapply Permutation_NoDup; [symmetry; eapply rr_refines_id_pairs; eassumption|].
  apply pairs_once; assumption.
Qed.

(* two runs whose sets hand out their elements in different orders (another interpreter, another hash seed,
   another insertion history) produce the same jobs up to order *)
Definition same_sets (e e2 : nat * list nat) : Prop := fst e = fst e2 /\ Permutation (snd e) (snd e2).

Lemma jobs_spec_perm auto st st2 : Forall2 same_sets st st2 -> Permutation (jobs_spec auto st) (jobs_spec auto st2).
Proof.
  intro Hf. unfold jobs_spec. apply Permutation_app.
  - induction Hf as [|e e2 r r2 [Hk _] Hf IH]; [constructor|]. cbn [map]. rewrite Hk. constructor. exact IH.
  - induction Hf as [|e e2 r r2 [Hk Hp] Hf IH]; [constructor|]. cbn [flat_map]. apply Permutation_app; [|exact IH].
    rewrite Hk. apply Permutation_map.
    clear -Hp. induction Hp as [|x l l' Hp IH|x y l|l l' l'' H1 IH1 H2 IH2]; cbn [filter].
    + constructor.
    + destruct (negb (x =? fst e2) && (negb auto || (fst e2 <? x))); [constructor|]; exact IH.
    + destruct (negb (x =? fst e2) && (negb auto || (fst e2 <? x))), (negb (y =? fst e2) && (negb auto || (fst e2 <? y)));
        try constructor; apply Permutation_refl.
    + etransitivity; eassumption.
Qed.

Lemma same_sets_nodup st st2 :
  Forall2 same_sets st st2 -> (forall e, In e st -> NoDup (snd e)) -> forall e, In e st2 -> NoDup (snd e).
Proof.
  induction 1 as [|e e2 r r2 [_ Hp] Hf IH]; intros Hn x Hx; [contradiction|].
  destruct Hx as [Hx|Hx].
  - subst x. eapply Permutation_NoDup; [exact Hp|]. apply Hn. left. reflexivity.
  - apply IH; [intros y Hy; apply Hn; right; exact Hy|exact Hx].
Qed.

Theorem rr_pop_order_free auto st st2 ys ys2 :
  Forall2 same_sets st st2 -> (forall e, In e st -> NoDup (snd e)) ->
  iter_pairs auto st = Some ys -> iter_pairs auto st2 = Some ys2 -> Permutation ys ys2.
Proof.
  intros Hf Hn H1 H2.
  etransitivity; [apply rr_jobs_spec; eassumption|].
  etransitivity; [apply jobs_spec_perm; exact Hf|].
  symmetry. apply rr_jobs_spec; [|exact H2]. eapply same_sets_nodup; eassumption.
Qed.

(* a cross-correlation has exactly num_links jobs: the total shown by the progress indicator, len(patch_pairs) *)
Lemma all_yields_cross_length st : length (flat_map (all_yields false) st) = num_links st.
Proof.
  induction st as [|[i l] r IH]; [reflexivity|]. cbn [flat_map num_links fold_right]. rewrite app_length.
  fold (num_links r). rewrite IH. f_equal. unfold all_yields. cbn [fst snd].
  induction l as [|x t IHl]; [reflexivity|]. cbn [flat_map]. rewrite app_length, IHl. reflexivity.
Qed.

Lemma num_links_phase1 st st' : Forall2 key_rel st st' -> num_links st = length st + num_links st'.
Proof.
  induction 1 as [|e e' r r' [_ Hr] Hf IH]; [reflexivity|].
  cbn [num_links fold_right length]. fold (num_links r). fold (num_links r').
  rewrite (remove_first_length _ _ _ Hr), IH. lia.
Qed.

Theorem rr_cross_job_count st ys : iter_pairs false st = Some ys -> length ys = num_links st.
Proof.
  intro H. unfold iter_pairs in H. destruct (phase1 st) as [[ys0 st']|] eqn:P; [|discriminate].
  destruct (sweeps (rr_size st') false st') as [zs|] eqn:S; simpl in H; [|discriminate].
  injection H as H. subst ys. apply phase1_spec in P as [Hy Hf]. subst ys0.
  rewrite app_length, map_length, (num_links_phase1 _ _ Hf). f_equal.
  rewrite (Permutation_length (sweeps_perm _ _ _ _ S)). apply all_yields_cross_length.
Qed.
