From Verif Require Import StartMethod.
From Coq Require Import List Arith Bool.

Section StartMethodP.
  Context {C : Type} (default : C).

  (* pickled by value: every worker count and every start method see the configured field *)
  Theorem by_value_worker_count_free (w w' : nat) (m m' : start) (c : C) :
    seen_by_value w m c = seen_by_value w' m' c.
  Proof. reflexivity. Qed.

  (* pickled by key: fine while the workers are forked after the key was registered ... *)
  Theorem by_key_ok_under_fork (w : nat) (parent : registry) (key : nat) (c : C) :
    parent key = Some c -> seen_by_key default w Fork parent key c = c.
  Proof.
    intro H. unfold seen_by_key. destruct (w <=? 1); [reflexivity|].
    unfold receive_by_key, worker_registry. rewrite H. reflexivity.
  Qed.

  (* ... and the default for every worker that did not inherit the parent's memory *)
  Theorem by_key_default_under_spawn (w : nat) (parent : registry) (key : nat) (c : C) :
    1 < w -> seen_by_key default w Spawn parent key c = default.
  Proof.
    intro H. unfold seen_by_key. destruct (w <=? 1) eqn:E; [apply Nat.leb_le in E; exfalso; apply (Nat.lt_irrefl 1); eapply Nat.lt_le_trans; eassumption|].
    reflexivity.
  Qed.
End StartMethodP.

Theorem by_key_worker_count_refuted :
  exists (parent : @registry nat) key c,
    parent key = Some c /\ seen_by_key 0 1 Spawn parent key c <> seen_by_key 0 2 Spawn parent key c
    /\ seen_by_key 0 1 Fork parent key c = seen_by_key 0 2 Fork parent key c.
Proof. exists (fun k => if Nat.eqb k 7 then Some 42 else None), 7, 42. vm_compute. repeat split; discriminate. Qed.
