(* Proofs about Model/DispatchRetry.v: every task is executed exactly once by the worker of
   utils/parallel.py whatever the outcome of the executions (transient failures included), the
   ranks raise iff some execution failed, the outcome is the single-process one when failing is a
   property of the task; a worker that re-runs a job after a "transient" failure breaks all three. *)
From Verif Require Import Prelude Dispatch DispatchRetry.
From Coq Require Import Permutation.
Open Scope nat_scope.

Section XGeneric.
  Context {T R : Type}.
  Context (f : T -> R).
  Context (pol : wpolicy) (transient : T -> bool).
  Context (allowed : nat -> bool) (n : nat).

  Notation xstep_with := (xstep_with f pol transient allowed n).
  Notation xrun := (xrun f pol transient allowed n).

  Lemma xtake_perm i (l : list (nat * xw T R)) x r : xtake i l = Some (x, r) -> Permutation l ((i, x) :: r).
  Proof.
    revert x r; induction l as [|[j y] l IH]; intros x r H; simpl in H; [discriminate|].
    destruct (j =? i) eqn:E.
    - apply Nat.eqb_eq in E; subst j. inversion H; subst. apply Permutation_refl.
    - destruct (xtake i l) as [[y' r']|] eqn:E2; [|discriminate]. inversion H; subst.
      eapply perm_trans; [apply perm_skip, (IH _ _ eq_refl)|]. apply perm_swap.
  Qed.

  Lemma xtake_head i (x : xw T R) r : xtake i ((i, x) :: r) = Some (x, r).
  Proof. simpl. rewrite Nat.eqb_refl. reflexivity. Qed.

  Lemma nsum_perm a b : Permutation a b -> nsum a = nsum b.
  Proof. induction 1; simpl; lia. Qed.

  Lemma xwt_take i (l : list (nat * xw T R)) x r :
    xtake i l = Some (x, r) -> nsum (map (@xwt T R) l) = xwt (i, x) + nsum (map (@xwt T R) r).
  Proof. intro H. apply xtake_perm in H. rewrite (nsum_perm _ _ (Permutation_map _ H)). reflexivity. Qed.

  (* ---- every run is finite: each step decreases the measure (both workers) ---- *)
  Theorem xstep_decreases c s s' : xstep_with c s = Some s' -> xmu s' < xmu s.
  Proof.
    unfold DispatchRetry.xstep_with, xmu. destruct (xdone s) eqn:D; [discriminate|].
    destruct c as [i|i fl|i|fl|]; intro H.
    - destruct (xerr s); [discriminate|]. destruct (xpend s) as [|t p]; [discriminate|].
      destruct (xtake i (xfl s)); [discriminate|].
      destruct ((i <? n) && allowed i); [|discriminate]. inversion H; subst; simpl. lia.
    - destruct (xtake i (xfl s)) as [[[t|t|y] r]|] eqn:E; try discriminate;
        inversion H; subst; simpl; rewrite (xwt_take _ _ _ _ E); unfold xwt; simpl.
      + destruct (retry_now pol transient t fl); simpl; lia.
      + lia.
    - destruct (xtake i (xfl s)) as [[[t|t|y] r]|] eqn:E; try discriminate.
      rewrite (xwt_take _ _ _ _ E). change (xwt (i, XOut y)) with 1.
      destruct (xerr s); [|destruct y]; inversion H; subst; simpl; lia.
    - destruct (xerr s); [discriminate|]. destruct (xpend s) as [|t p]; [discriminate|].
      destruct (xfl s); [|discriminate]. destruct (no_worker allowed n); [|discriminate].
      destruct fl; inversion H; subst; simpl; lia.
    - destruct (xfl s); [|discriminate].
      destruct (match xerr s with Some _ => true | None => is_nil (xpend s) end); [|discriminate].
      inversion H; subst; simpl. lia.
  Qed.

  Theorem xrun_bounded cs s s' : xrun cs s = Some s' -> length cs + xmu s' <= xmu s.
  Proof.
    revert s; induction cs as [|c cs IH]; intros s H; simpl in H.
    - inversion H; subst. simpl. lia.
    - destruct (xstep_with c s) as [s1|] eqn:E; [|discriminate].
      apply xstep_decreases in E. apply IH in H. simpl. lia.
  Qed.

  (* ---- no deadlock: a state before the closing broadcast always has a successor (both workers) ---- *)
  Theorem xprogress s : xdone s = false -> exists c s', xstep_with c s = Some s'.
  Proof.
    intro D. unfold DispatchRetry.xstep_with. rewrite D.
    destruct (xfl s) as [|[i x] r] eqn:F.
    - destruct (xerr s) as [e|] eqn:E.
      + exists XFinish. eexists; reflexivity.
      + destruct (xpend s) as [|t p] eqn:P.
        * exists XFinish. simpl. eexists; reflexivity.
        * destruct (find allowed (seq 0 n)) as [i|] eqn:FA.
          -- pose proof (find_some _ _ FA) as [IN AL]. apply in_seq in IN.
             exists (XHand i). simpl.
             assert (L : (i <? n) = true) by (apply Nat.ltb_lt; lia). rewrite L, AL. simpl. eexists; reflexivity.
          -- exists (XFallback false). unfold no_worker, first_allowed. rewrite FA.
             eexists; reflexivity.
    - destruct x as [t|t|y].
      + exists (XExec i false). rewrite xtake_head. eexists; reflexivity.
      + exists (XExec i false). rewrite xtake_head. eexists; reflexivity.
      + exists (XReport i). rewrite xtake_head. destruct (xerr s); [|destruct y]; eexists; reflexivity.
  Qed.

  (* a finished run stays finished *)
  Lemma xdone_final c s : xdone s = true -> xstep_with c s = None.
  Proof. intro D. unfold DispatchRetry.xstep_with. rewrite D. reflexivity. Qed.
End XGeneric.

(* ================================================================================================
   the worker of utils/parallel.py: ONE execution per task received
   ================================================================================================ *)
Section XOnce.
  Context {T R : Type}.
  Context (f : T -> R).
  Context (transient : T -> bool).
  Context (allowed : nat -> bool) (n : nat).

  Notation xstep_with := (xstep_with f POnce transient allowed n).
  Notation xrun := (xrun f POnce transient allowed n).
  Notation eres := (eres f).
  Notation held := (@held T R).
  Notation outs := (@outs T R).
  Notation noagain := (@noagain T R).

  Lemma held_perm a b : Permutation a b -> Permutation (held a) (held b).
  Proof.
    induction 1 as [|[i x] a b H IH|[i x] [j y] a|a b c H1 IH1 H2 IH2]; simpl.
    - constructor.
    - destruct x; auto.
    - destruct x, y; auto using Permutation_refl, perm_swap.
    - eapply perm_trans; eauto.
  Qed.
  Lemma outs_perm a b : Permutation a b -> Permutation (outs a) (outs b).
  Proof.
    induction 1 as [|[i x] a b H IH|[i x] [j y] a|a b c H1 IH1 H2 IH2]; simpl.
    - constructor.
    - destruct x; auto.
    - destruct x, y; auto using Permutation_refl, perm_swap.
    - eapply perm_trans; eauto.
  Qed.
  Lemma noagain_perm a b : Permutation a b -> noagain a = noagain b.
  Proof.
    induction 1 as [|[i x] a b H IH|[i x] [j y] a|a b c H1 IH1 H2 IH2]; simpl.
    - reflexivity.
    - destruct x; auto.
    - destruct x, y; auto.
    - congruence.
  Qed.

  Lemma map_Ok_inj' (a b : list R) : map (@Ok T R) a = map (@Ok T R) b -> a = b.
  Proof.
    revert b; induction a as [|x a IH]; intros [|y b] H; simpl in H; try discriminate; [reflexivity|].
    inversion H; subst. f_equal. auto.
  Qed.
  Lemma Permutation_map_Ok_inv' (a b : list R) : Permutation (map (@Ok T R) a) (map (@Ok T R) b) -> Permutation a b.
  Proof.
    intro H. apply Permutation_sym, Permutation_map_inv in H. destruct H as [c [E P]].
    apply map_Ok_inj' in E. subst c. exact P.
  Qed.

  Lemma eres_err_inv (e : xentry T) t : eres e = Err t -> exists w, e = (t, w, true).
  Proof.
    destruct e as [[t' w] b]. unfold DispatchRetry.eres, result_of, etask, efail. simpl.
    destruct b; intro H; inversion H; subst. exists w. reflexivity.
  Qed.

  Lemma map_etask_app (l : list (xentry T)) e : map (@etask T) (l ++ [e]) = map (@etask T) l ++ [etask e].
  Proof. rewrite map_app. reflexivity. Qed.
  Lemma map_eres_app (l : list (xentry T)) e : map eres (l ++ [e]) = map eres l ++ [eres e].
  Proof. rewrite map_app. reflexivity. Qed.

  (* the invariant of every run of the once-worker *)
  Record XInv (tasks : list T) (s : xst T R) : Prop := {
    XI_h : exists h, tasks = h ++ xpend s /\ Permutation h (map (@etask T) (xlog s) ++ held (xfl s));
    XI_na : noagain (xfl s) = true;
    XI_res : xerr s = None -> Permutation (map eres (xlog s)) (map (@Ok T R) (xgot s) ++ outs (xfl s));
    XI_err : forall t, xerr s = Some t -> exists w, In (t, w, true) (xlog s);
    XI_done : xdone s = true ->
              xfl s = [] /\ xout s = repeat (xerr s) (S n) /\ (xerr s = None -> xpend s = [])
  }.

  Lemma XInv_init tasks : XInv tasks (xinit tasks).
  Proof.
    constructor; simpl; try discriminate; try reflexivity.
    exists []. split; [reflexivity|constructor].
  Qed.

  Lemma perm_snoc_mid (A : Type) (h a b : list A) (t : A) :
    Permutation h (a ++ b) -> Permutation (h ++ [t]) (a ++ t :: b).
  Proof.
    intro H. eapply perm_trans; [apply Permutation_sym, Permutation_cons_append|].
    eapply perm_trans; [apply perm_skip, H|]. apply Permutation_middle.
  Qed.

  Lemma XInv_step tasks c s s' : XInv tasks s -> xstep_with c s = Some s' -> XInv tasks s'.
  Proof.
    intros [[h [Hh Hp]] Hna Hres Herr Hdone]. unfold DispatchRetry.xstep_with.
    destruct (xdone s) eqn:D; [discriminate|].
    destruct c as [i|i fl|i|fl|]; intro H.
    - (* XHand *)
      destruct (xerr s) eqn:E; [discriminate|]. destruct (xpend s) as [|t p] eqn:P; [discriminate|].
      destruct (xtake i (xfl s)); [discriminate|].
      destruct ((i <? n) && allowed i); [|discriminate]. injection H as H; subst s'.
      constructor; simpl; try discriminate.
      + exists (h ++ [t]). split; [rewrite <- app_assoc; exact Hh|]. apply perm_snoc_mid. exact Hp.
      + exact Hna.
      + intros _. apply Hres. reflexivity.
    - (* XExec *)
      destruct (xtake i (xfl s)) as [[[t|t|y] r]|] eqn:TK; try discriminate.
      + apply xtake_perm in TK. simpl in H. injection H as H; subst s'.
        pose proof (held_perm _ _ TK) as HP. pose proof (outs_perm _ _ TK) as OP.
        pose proof (noagain_perm _ _ TK) as NP. simpl in HP, OP, NP.
        constructor; simpl; try discriminate.
        * exists h. split; [exact Hh|]. rewrite map_etask_app. unfold etask at 2; simpl.
          rewrite <- app_assoc. simpl.
          eapply perm_trans; [exact Hp|]. apply Permutation_app_head. exact HP.
        * rewrite <- NP. exact Hna.
        * intro E. rewrite map_eres_app.
          eapply perm_trans; [apply Permutation_app_tail, (Hres E)|].
          rewrite <- app_assoc. apply Permutation_app_head.
          eapply perm_trans; [apply Permutation_app_comm|]. simpl.
          unfold DispatchRetry.eres, etask, efail; simpl. apply perm_skip. exact OP.
        * intros t' E. destruct (Herr _ E) as [w IN]. exists w. apply in_or_app. left. exact IN.
      + apply xtake_perm in TK. pose proof (noagain_perm _ _ TK) as NP. simpl in NP. congruence.
    - (* XReport *)
      destruct (xtake i (xfl s)) as [[[t|t|y] r]|] eqn:TK; try discriminate.
      apply xtake_perm in TK.
      pose proof (held_perm _ _ TK) as HP. pose proof (outs_perm _ _ TK) as OP.
      pose proof (noagain_perm _ _ TK) as NP. simpl in HP, OP, NP.
      assert (HH : exists h, tasks = h ++ xpend s /\ Permutation h (map (@etask T) (xlog s) ++ held r)).
      { exists h. split; [exact Hh|]. eapply perm_trans; [exact Hp|]. apply Permutation_app_head. exact HP. }
      destruct (xerr s) as [e|] eqn:E.
      + injection H as H; subst s'. constructor; simpl; try discriminate; auto.
        rewrite <- NP; exact Hna.
      + destruct y as [x|t]; injection H as H; subst s'; constructor; simpl; try discriminate; auto.
        * rewrite <- NP; exact Hna.
        * intros _. eapply perm_trans; [apply (Hres eq_refl)|].
          rewrite map_app, <- app_assoc. simpl. apply Permutation_app_head. exact OP.
        * rewrite <- NP; exact Hna.
        * intros t' E'. inversion E'; subst t'.
          pose proof (Hres eq_refl) as PR.
          assert (IN : In (@Err T R t) (map eres (xlog s))).
          { eapply Permutation_in; [apply Permutation_sym, PR|]. apply in_or_app. right.
            eapply Permutation_in; [apply Permutation_sym, OP|]. left. reflexivity. }
          apply in_map_iff in IN. destruct IN as [e [EQ IN]].
          destruct (eres_err_inv _ _ EQ) as [w EW]. subst e. exists w. exact IN.
    - (* XFallback *)
      destruct (xerr s) eqn:E; [discriminate|]. destruct (xpend s) as [|t p] eqn:P; [discriminate|].
      destruct (xfl s) eqn:F; [|discriminate]. destruct (no_worker allowed n); [|discriminate].
      simpl in Hp. rewrite app_nil_r in Hp. pose proof (Hres eq_refl) as PR. simpl in PR. rewrite app_nil_r in PR.
      destruct fl; injection H as H; subst s'; constructor; simpl; try discriminate; auto.
      + exists (h ++ [t]). split; [rewrite <- app_assoc; exact Hh|]. rewrite app_nil_r, map_etask_app.
        unfold etask at 2; simpl. apply Permutation_app_tail. exact Hp.
      + intros t' E'. inversion E'; subst t'. exists 0. apply in_or_app. right. left. reflexivity.
      + exists (h ++ [t]). split; [rewrite <- app_assoc; exact Hh|]. rewrite app_nil_r, map_etask_app.
        unfold etask at 2; simpl. apply Permutation_app_tail. exact Hp.
      + intros _. rewrite app_nil_r, map_eres_app, map_app. simpl.
        unfold DispatchRetry.eres at 2, etask, efail; simpl. apply Permutation_app_tail. exact PR.
    - (* XFinish *)
      destruct (xfl s) eqn:F; [|discriminate].
      destruct (xerr s) as [e|] eqn:E.
      + injection H as H; subst s'. constructor; simpl; auto.
        * exists h. split; [exact Hh|exact Hp].
        * intros _. repeat split. discriminate.
      + destruct (is_nil (xpend s)) eqn:NIL; [|discriminate]. injection H as H; subst s'.
        constructor; simpl; auto.
        * exists h. split; [exact Hh|exact Hp].
        * intros _. repeat split. intros _. destruct (xpend s); [reflexivity|discriminate].
  Qed.

  Lemma XInv_run tasks cs s s' : XInv tasks s -> xrun cs s = Some s' -> XInv tasks s'.
  Proof.
    revert s; induction cs as [|c cs IH]; intros s I H; simpl in H.
    - inversion H; subst. exact I.
    - destruct (xstep_with c s) as [s1|] eqn:E; [|discriminate].
      eapply IH; [eapply XInv_step; eauto|exact H].
  Qed.

  Section Finished.
    Context (tasks : list T) (cs : list xchoice) (s : xst T R).
    Context (RUN : xrun cs (xinit tasks) = Some s) (DONE : xdone s = true).

    Lemma xfin_inv : XInv tasks s.
    Proof. eapply XInv_run; [apply XInv_init|exact RUN]. Qed.

    (* every terminating run, failing or not: the tasks handed out - all but the suffix still
       pending when the first error arrived - occur in the execution log exactly once, the
       others not at all *)
    Theorem xonce_executed_exactly_once :
      exists h, tasks = h ++ xpend s /\ Permutation h (map (@etask T) (xlog s)).
    Proof.
      destruct xfin_inv as [[h [Hh Hp]] _ _ _ Hd]. destruct (Hd DONE) as [F _]. rewrite F in Hp.
      simpl in Hp. rewrite app_nil_r in Hp. exists h. split; assumption.
    Qed.

    Lemma xonce_no_error_log : xerr s = None -> Permutation (map eres (xlog s)) (map (@Ok T R) (xgot s)).
    Proof.
      intro E. destruct xfin_inv as [_ _ Hres _ Hd]. destruct (Hd DONE) as [F _].
      pose proof (Hres E) as P. rewrite F in P. simpl in P. rewrite app_nil_r in P. exact P.
    Qed.

    (* the ranks raise iff some execution failed; the error is that of a failed execution; every
       rank gets the root's flag *)
    Theorem xonce_error_iff :
      (xerr s <> None <-> exists e, In e (xlog s) /\ efail e = true)
      /\ (forall t, xerr s = Some t -> exists w, In (t, w, true) (xlog s))
      /\ xout s = repeat (xerr s) (S n).
    Proof.
      destruct xfin_inv as [_ _ _ Herr Hd]. destruct (Hd DONE) as [F [O _]].
      split; [|split; [exact Herr|exact O]]. split.
      - intro NE. destruct (xerr s) as [t|] eqn:E; [|congruence].
        destruct (Herr _ eq_refl) as [w IN]. exists (t, w, true). split; [exact IN|reflexivity].
      - intros [e [IN FL]] E. pose proof (xonce_no_error_log E) as P.
        assert (IN2 : In (eres e) (map (@Ok T R) (xgot s))).
        { eapply Permutation_in; [exact P|]. apply in_map. exact IN. }
        apply in_map_iff in IN2. destruct IN2 as [x [EQ _]].
        unfold DispatchRetry.eres, result_of in EQ. rewrite FL in EQ. discriminate.
    Qed.

    (* a run that ends without the error flag executed EVERY task exactly once, no execution
       failed, and the root yielded map f tasks *)
    Theorem xonce_no_error_result :
      xerr s = None ->
      Permutation tasks (map (@etask T) (xlog s)) /\ Permutation (map f tasks) (xgot s)
      /\ Forall (fun e => efail e = false) (xlog s).
    Proof.
      intro E. destruct xonce_executed_exactly_once as [h [Hh Hp]].
      destruct xfin_inv as [_ _ _ _ Hd]. destruct (Hd DONE) as [_ [_ PE]]. rewrite (PE E), app_nil_r in Hh. subst h.
      assert (ALL : Forall (fun e => efail e = false) (xlog s)).
      { apply Forall_forall. intros e IN. destruct (efail e) eqn:FL; [|reflexivity].
        exfalso. destruct xonce_error_iff as [[_ B] _]. apply B; [|exact E]. exists e. split; assumption. }
      split; [exact Hp|split; [|exact ALL]].
      pose proof (xonce_no_error_log E) as P.
      assert (EQ : map eres (xlog s) = map (@Ok T R) (map f (map (@etask T) (xlog s)))).
      { rewrite !map_map. apply map_ext_in. intros e IN. rewrite Forall_forall in ALL.
        unfold DispatchRetry.eres, result_of. rewrite (ALL _ IN). reflexivity. }
      rewrite EQ in P. apply Permutation_map_Ok_inv' in P.
      eapply perm_trans; [apply Permutation_map, Hp|exact P].
    Qed.

    (* when failing is a property of the task ([bad]; in particular "fails on its first execution"
       for a worker that executes once): the ranks raise iff the single-process run raises *)
    Theorem xonce_agrees_with_single_process (bad : T -> bool) :
      (forall e, In e (xlog s) -> efail e = bad (etask e)) ->
      (xerr s <> None <-> xseq bad tasks <> None).
    Proof.
      intro ST.
      assert (SEQ : forall l, xseq bad l <> None <-> exists t, In t l /\ bad t = true).
      { induction l as [|t l IH]; simpl.
        - split; [congruence|intros [t [[] _]]].
        - destruct (bad t) eqn:B.
          + split; [intros _; exists t; auto|congruence].
          + rewrite IH. split; intros [t' [IN B']]; exists t'; split; auto.
            destruct IN as [EQ|IN]; [congruence|exact IN]. }
      rewrite SEQ. destruct xonce_executed_exactly_once as [h [Hh Hp]]. split.
      - intro NE. destruct (xerr s) as [t|] eqn:E; [|congruence].
        destruct xonce_error_iff as [_ [B _]]. destruct (B _ E) as [w IN].
        exists t. split.
        + rewrite Hh. apply in_or_app. left. eapply Permutation_in; [apply Permutation_sym, Hp|].
          apply in_map_iff. exists (t, w, true). split; [reflexivity|exact IN].
        + pose proof (ST _ IN) as X. unfold efail, etask in X. simpl in X. congruence.
      - intros [t [IN B]] E. destruct (xonce_no_error_result E) as [P [_ ALL]].
        assert (IN2 : In t (map (@etask T) (xlog s))) by (eapply Permutation_in; eauto).
        apply in_map_iff in IN2. destruct IN2 as [e [EQ IN3]]. rewrite Forall_forall in ALL.
        pose proof (ALL _ IN3) as X. rewrite (ST _ IN3), EQ in X. congruence.
    Qed.
  End Finished.

  Lemma NoDup_app_l (A : Type) (a b : list A) : NoDup (a ++ b) -> NoDup a.
  Proof.
    induction a as [|x a IH]; simpl; intro H; [constructor|].
    inversion H; subst. constructor; [|auto]. intro IN. apply H2. apply in_or_app. left. exact IN.
  Qed.

  (* the execution log as a multiset: with pairwise distinct tasks no task occurs twice in the
     log of ANY terminating run, and exactly once in a run that ends without the error flag *)
  Theorem xonce_count_occ (eq_dec : forall x y : T, {x = y} + {x <> y}) tasks cs s :
    NoDup tasks -> xrun cs (xinit tasks) = Some s -> xdone s = true ->
    forall t, count_occ eq_dec (map (@etask T) (xlog s)) t <= 1
              /\ (xerr s = None -> In t tasks -> count_occ eq_dec (map (@etask T) (xlog s)) t = 1).
  Proof.
    intros ND RUN DONE t.
    destruct (xonce_executed_exactly_once _ _ _ RUN DONE) as [h [Hh Hp]].
    assert (NDh : NoDup h) by (rewrite Hh in ND; eapply NoDup_app_l; exact ND).
    rewrite <- (proj1 (Permutation_count_occ eq_dec _ _) Hp t). split.
    - apply (proj1 (NoDup_count_occ eq_dec h) NDh).
    - intros E IN. destruct (xonce_no_error_result _ _ _ RUN DONE E) as [P _].
      assert (INh : In t h).
      { eapply Permutation_in; [apply Permutation_sym, Hp|]. eapply Permutation_in; eauto. }
      pose proof (proj1 (NoDup_count_occ eq_dec h) NDh t) as LE.
      pose proof (proj1 (count_occ_In eq_dec h t) INh). lia.
  Qed.
End XOnce.

(* ================================================================================================
   a worker that runs a job AGAIN after a "transient" failure
   ================================================================================================ *)

(* ... cannot be told from the worker above as long as nothing it considers transient fails -
   which is why no test without a failing job sees it *)
Theorem xretry_invisible_without_transient_errors (T R : Type) (f : T -> R) tr allowed n c (s : xst T R) :
  xstep_with f PRetry (fun _ => false) allowed n c s = xstep_with f POnce tr allowed n c s.
Proof.
  unfold xstep_with, retry_now. destruct (xdone s); [reflexivity|].
  destruct c; try reflexivity.
  destruct (xtake i (xfl s)) as [[[t|t|y] r]|]; try reflexivity.
  rewrite andb_false_r. reflexivity.
Qed.

(* whenever a worker holds a task whose first execution fails transiently and whose second one
   succeeds: the task is in the execution log TWICE and what goes to the root is a result *)
Theorem xretry_executes_twice (T R : Type) (f : T -> R) tr allowed n i t r (s : xst T R) :
  xdone s = false -> xtake i (xfl s) = Some (XHas t, r) -> tr t = true ->
  exists s', xrun f PRetry tr allowed n [XExec i true; XExec i false] s = Some s'
             /\ xlog s' = xlog s ++ [(t, S i, true); (t, S i, false)]
             /\ xfl s' = (i, XOut (Ok (f t))) :: r /\ xerr s' = xerr s.
Proof.
  intros D TK TR. unfold xrun, xstep_with at 1. rewrite D, TK. unfold retry_now. rewrite TR. simpl.
  unfold xstep_with. simpl. rewrite Nat.eqb_refl. simpl.
  eexists. split; [reflexivity|]. simpl. rewrite <- app_assoc. repeat split.
Qed.

(* refutation: 3 ranks, tasks 10 11 12, the job fails with a "transient" error on the FIRST
   execution of task 11 only.  The single-process run raises that error.  With the retrying worker:
   a complete run, every rank returns, nobody raises, the root has all three results - and task 11
   was executed twice *)
Definition xretry_run : list xchoice :=
  [XHand 0; XHand 1; XExec 0 false; XExec 1 true; XExec 1 false; XReport 0; XHand 0; XReport 1;
   XExec 0 false; XReport 0; XFinish].

Theorem xretry_refuted :
  exists s : xst nat nat,
    xrun c06_f PRetry (fun _ => true) (c06_allowed [0; 1; 2]) 2 xretry_run (xinit [10; 11; 12]) = Some s /\
    xdone s = true /\ xerr s = None /\ xout s = [None; None; None] /\
    xgot s = [31; 34; 37] /\ xgot s = map c06_f [10; 11; 12] /\
    xlog s = [(10, 1, false); (11, 2, true); (11, 2, false); (12, 1, false)] /\
    count_occ Nat.eq_dec (map (@etask nat) (xlog s)) 11 = 2 /\
    xseq (c06_fails [11]) [10; 11; 12] = Some 11 /\
    ~ Permutation [10; 11; 12] (map (@etask nat) (xlog s)).
Proof.
  eexists. split; [vm_compute; reflexivity|]. simpl.
  repeat split; try reflexivity.
  intro P. apply Permutation_length in P. simpl in P. discriminate.
Qed.

(* the same events are NOT a run of the once-worker: its second execution is not enabled *)
Theorem xretry_run_not_once :
  xrun c06_f POnce (fun _ => true) (c06_allowed [0; 1; 2]) 2 xretry_run (xinit [10; 11; 12]) = None
  /\ xfirst_disabled c06_f POnce (fun _ => true) (c06_allowed [0; 1; 2]) 2 xretry_run (xinit [10; 11; 12]) = 4.
Proof. split; vm_compute; reflexivity. Qed.

(* ---------- the checker of the harness ---------- *)
Lemma code_from_zero w flags : 0 < w -> code_from w flags = 0 -> forallb (fun b => b) flags = true.
Proof.
  revert w; induction flags as [|b r IH]; intros w W H; [reflexivity|].
  cbn [code_from] in H. cbn [forallb]. destruct b.
  - simpl. apply (IH (2 * w)); [lia|exact H].
  - lia.
Qed.

Lemma nsubm_nil_r a : nsubm a [] = true -> a = [].
Proof. destruct a; simpl; [reflexivity|discriminate]. Qed.

(* code 0 = the observation satisfies the statement of the property: no task executed twice,
   the ranks end alike, they raise iff an execution failed (the error of a failed execution, with
   the class the job raised), without an error every task was executed and - when it is defined -
   the outcome is the single-process one *)
Theorem xdispatch_case_sound nw ranks tasks cs ex got log out cls bad0 :
  c06_xdispatch_case nw ranks tasks cs ex got log out cls bad0 = 0 ->
  nsubm (map (fun e => fst (fst e)) log) tasks = true
  /\ (length out =? S nw) && forallb (onn_eqb (match out with o :: _ => o | [] => None end)) out = true
  /\ match (match out with o :: _ => o | [] => None end) with
     | None => forallb (fun e => negb (snd e)) log = true
               /\ nlist_eqb (nsort (map (fun e => fst (fst e)) log)) (nsort tasks) = true
     | Some (t, c) => existsb (fun e => (fst (fst e) =? t) && snd e) log = true /\ nlookup t cls = Some c
     end
  /\ match bad0 with
     | None => True
     | Some l => is_some (match out with o :: _ => o | [] => None end) = is_some (xseq (c06_fails l) tasks)
     end.
Proof.
  unfold c06_xdispatch_case. intro H.
  assert (H0 : code [match xrun c06_f POnce (fun _ => false) (c06_allowed ranks) nw cs (xinit tasks) with
                     | Some s => xdone s && (if ex then nlist_eqb (xgot s) got else length (xgot s) =? length got)
                                 && list_eqb xe_eqb (xlog s) log && list_eqb onat_eqb (xout s) (map (option_map fst) out)
                     | None => false end;
                     (length out =? S nw) && forallb (onn_eqb (match out with o :: _ => o | [] => None end)) out;
                     match (match out with o :: _ => o | [] => None end) with
                     | None => forallb (fun e => negb (snd e)) log
                     | Some (t, _) => existsb (fun e => (fst (fst e) =? t) && snd e) log end;
                     nsubm (map (fun e => fst (fst e)) log) tasks;
                     (if ex then nsubm got (map c06_f (map (fun e => fst (fst e)) (filter (fun e => negb (snd e)) log)))
                      else length got <=? length (map c06_f (map (fun e => fst (fst e)) (filter (fun e => negb (snd e)) log))));
                     match (match out with o :: _ => o | [] => None end) with
                     | None => nlist_eqb (nsort (map (fun e => fst (fst e)) log)) (nsort tasks)
                               && (if ex then nlist_eqb (nsort got) (nsort (map c06_f tasks)) else length got =? length tasks)
                     | Some _ => true end;
                     match bad0 with
                     | None => true
                     | Some l => Bool.eqb (is_some (match out with o :: _ => o | [] => None end)) (is_some (xseq (c06_fails l) tasks)) end;
                     match (match out with o :: _ => o | [] => None end) with
                     | None => true
                     | Some (t, c) => match nlookup t cls with Some c' => c =? c' | None => false end end] = 0) by lia.
  clear H. unfold code in H0. apply code_from_zero in H0; [|lia].
  simpl in H0. rewrite !andb_true_iff in H0.
  destruct H0 as [_ [F1 [F2 [F3 [_ [F5 [F6 [F7 _]]]]]]]].
  split; [exact F3|]. split; [apply andb_true_iff; exact F1|]. split.
  - destruct (match out with o :: _ => o | [] => None end) as [[t c]|].
    + split; [exact F2|]. destruct (nlookup t cls) as [c'|]; [|discriminate].
      apply Nat.eqb_eq in F7. congruence.
    + split; [exact F2|]. apply andb_true_iff in F5. tauto.
  - destruct bad0 as [l|]; [|exact I]. apply Bool.eqb_prop. exact F6.
Qed.
