From Verif Require Import SmallVariants.
From Coq Require Import List Arith Bool Lia.
Import ListNotations.

(* C16 *)
Theorem reseed_takes_every_seed own s : reseed own (Some s) = s.
Proof. reflexivity. Qed.
Theorem reseed_or_agrees_nonzero own s : s <> 0 -> reseed_or own (Some s) = reseed own (Some s).
Proof. intro H. unfold reseed_or. destruct (Nat.eqb_spec s 0); [contradiction|reflexivity]. Qed.
Theorem reseed_or_refuted : exists own, reseed_or own (Some 0) <> reseed own (Some 0).
Proof. exists 7. discriminate. Qed.

(* C18 *)
Theorem fits_pass_is_the_table tables hdu : fits_pass tables hdu = nth hdu tables [].
Proof. unfold fits_pass, fits_len. apply firstn_all. Qed.
Theorem fits_pass_len1_ok_if_same_length tables hdu :
  fits_len tables 1 = fits_len tables hdu -> fits_pass_len1 tables hdu = nth hdu tables [].
Proof. intro H. unfold fits_pass_len1. rewrite H. apply firstn_all. Qed.
Theorem fits_pass_len1_refuted :
  exists tables hdu, fits_pass_len1 tables hdu <> nth hdu tables [] /\ length (fits_pass_len1 tables hdu) < fits_len tables hdu.
Proof. exists [[]; [7]; [1; 2; 3; 4]], 2. vm_compute. split; [discriminate|repeat constructor]. Qed.

(* C09 *)
Theorem after_cast_refuses_every_missing c : has_missing c = true -> refuses_after_cast c = true.
Proof. intro H. exact H. Qed.
Theorem after_cast_accepts_complete c : has_missing c = false -> refuses_after_cast c = false.
Proof. intro H. exact H. Qed.
Theorem raw_check_agrees_on_typed l : refuses_raw (Typed, l) = refuses_after_cast (Typed, l).
Proof. reflexivity. Qed.
Theorem raw_check_refuted : exists c, has_missing c = true /\ refuses_raw c = false.
Proof. exists (Objects, [Some 1; None; Some 3]). split; reflexivity. Qed.

(* C10 *)
Theorem count_members_size_free right_closed lo hi zs zs' :
  count_members right_closed lo hi (zs ++ zs') = count_members right_closed lo hi zs + count_members right_closed lo hi zs'.
Proof. unfold count_members. rewrite filter_app, app_length. reflexivity. Qed.
Lemma none_left_closed n : filter (member false 1 2) (repeat 2 n) = [].
Proof. induction n as [|n IH]; [reflexivity|]. simpl repeat. simpl filter. exact IH. Qed.
Lemma all_right_closed n : filter (member true 1 2) (repeat 2 n) = repeat 2 n.
Proof. induction n as [|n IH]; [reflexivity|]. simpl repeat. simpl filter. f_equal. exact IH. Qed.

Theorem count_members_sized_refuted threshold :
  exists zs, threshold < length zs /\ count_members_sized threshold true 1 2 zs <> count_members true 1 2 zs.
Proof.
  exists (repeat 2 (S threshold)). rewrite repeat_length. split; [lia|].
  unfold count_members_sized. rewrite repeat_length.
  assert (E : (threshold <? S threshold) = true) by (apply Nat.ltb_lt; lia). rewrite E.
  unfold count_members. simpl negb. rewrite none_left_closed, all_right_closed, repeat_length. simpl. discriminate.
Qed.
