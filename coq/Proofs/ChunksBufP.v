From Verif Require Import Prelude Chunks ChunksP ChunksBuf.

(* _load_groups reads a prefix of the remaining row groups, in order, each once, and stops as soon as
   a full chunk is buffered (it never reads ahead) *)
Lemma load_groups_prefix {A} cs (file cache : list (list A)) :
  let '(c1, f1) := load_groups cs cache file in
  exists k, k <= length file /\ c1 = cache ++ firstn k file /\ f1 = skipn k file /\
            (k = 0 \/ cache_size (cache ++ firstn (k - 1) file) < cs).
Proof.
  revert cache. induction file as [|g rest IH]; intros cache; cbn [load_groups].
  - exists 0. rewrite app_nil_r. repeat split; auto.
  - destruct (Nat.ltb_spec (cache_size cache) cs) as [Hlt|Hge].
    + specialize (IH (cache ++ [g])). destruct (load_groups cs (cache ++ [g]) rest) as [c1 f1].
      destruct IH as (k & Hk & Hc & Hf & Hmin). exists (S k). cbn [length firstn skipn].
      split; [lia|]. split; [rewrite Hc, <- app_assoc; reflexivity|]. split; [exact Hf|].
      right. replace (S k - 1) with k by lia.
      destruct Hmin as [->|Hmin]; [cbn [firstn]; rewrite app_nil_r; exact Hlt|].
      destruct k as [|k']; [cbn [firstn]; rewrite app_nil_r; exact Hlt|].
      cbn [firstn]. replace (S k' - 1) with k' in Hmin by lia.
      rewrite <- app_assoc in Hmin. exact Hmin.
    + exists 0. cbn [firstn skipn]. rewrite app_nil_r. repeat split; auto. lia.
Qed.

Lemma in_skipn' {A} (x : A) k : forall l, In x (skipn k l) -> In x l.
Proof.
  induction k as [|k IH]; intros l H; [exact H|]. destruct l as [|y t]; [exact H|].
  right. apply IH. exact H.
Qed.

(* buffer bound of one load: never more than a chunk plus one row group *)
Lemma load_groups_bound {A} cs m (file cache : list (list A)) :
  Forall (fun g => length g <= m) file -> cache_size cache < cs + m ->
  cache_size (fst (load_groups cs cache file)) < cs + m.
Proof.
  revert cache. induction file as [|g rest IH]; intros cache Hm Hc; cbn [load_groups]; [exact Hc|].
  inversion Hm as [|g' r' Hg Hr]; subst.
  destruct (Nat.ltb_spec (cache_size cache) cs) as [Hlt|Hge]; [|exact Hc].
  apply IH; [exact Hr|]. unfold cache_size in *. rewrite concat_app, app_length. cbn [concat].
  rewrite app_nil_r. lia.
Qed.

Lemma extract_chunk_rest_size {A} cs (cache : list (list A)) :
  cache_size (snd (extract_chunk cs cache)) = cache_size cache - cs.
Proof.
  pose proof (extract_chunk_spec cs cache [] (or_intror eq_refl)) as X.
  destruct (extract_chunk cs cache) as [chunk c2]. destruct X as [_ X2].
  rewrite !app_nil_r in X2. cbn [snd]. unfold cache_size. rewrite X2, skipn_length. reflexivity.
Qed.

Lemma parquet_peaks_bound {A} m fuel : forall s n cs (cache file : list (list A)),
  1 <= cs -> Forall (fun g => length g <= m) file -> cache_size cache < cs + m ->
  Forall (fun p => p < cs + m) (parquet_peaks fuel s n cs cache file).
Proof.
  induction fuel as [|f IH]; intros s n cs cache file Hcs Hm Hc; cbn [parquet_peaks]; [constructor|].
  destruct (n <=? s); [constructor|].
  pose proof (load_groups_bound cs m file cache Hm Hc) as B.
  pose proof (load_groups_prefix cs file cache) as P.
  destruct (load_groups cs cache file) as [c1 f1]. cbn [fst] in B.
  destruct P as (k & _ & _ & Hf & _).
  pose proof (extract_chunk_rest_size cs c1) as R.
  destruct (extract_chunk cs c1) as [chunk c2]. cbn [snd] in R.
  constructor; [exact B|]. apply IH; [exact Hcs| |lia].
  subst f1. rewrite Forall_forall in *. intros g Hg. apply Hm. eapply in_skipn'. exact Hg.
Qed.

(* the reader never buffers more than one chunk plus one row group, whatever the row-group layout *)
Theorem parquet_buffer_bound {A} cs m (groups : list (list A)) :
  1 <= cs -> Forall (fun g => length g <= m) groups ->
  Forall (fun p => p < cs + m) (parquet_buffer_trace cs groups).
Proof.
  intros Hcs Hm. unfold parquet_buffer_trace. apply parquet_peaks_bound; [exact Hcs|exact Hm|].
  unfold cache_size. cbn. lia.
Qed.

Lemma parquet_loads_total {A} fuel : forall s n cs (cache file : list (list A)),
  fold_right Nat.add 0 (parquet_loads fuel s n cs cache file) <= length file.
Proof.
  induction fuel as [|f IH]; intros s n cs cache file; cbn [parquet_loads]; [cbn; lia|].
  destruct (n <=? s); [cbn; lia|].
  pose proof (load_groups_prefix cs file cache) as P.
  destruct (load_groups cs cache file) as [c1 f1]. destruct P as (k & Hk & _ & Hf & _).
  destruct (extract_chunk cs c1) as [chunk c2]. cbn [fold_right].
  specialize (IH (s + cs) n cs c2 f1). subst f1. rewrite skipn_length in *. lia.
Qed.

(* every row group is requested at most once over the whole pass *)
Theorem parquet_each_group_once {A} cs (groups : list (list A)) :
  fold_right Nat.add 0 (parquet_load_trace cs groups) <= length groups.
Proof. apply parquet_loads_total. Qed.

Lemma parquet_reqs_consecutive {A} fuel : forall s n cs off (cache file : list (list A)),
  concat (parquet_reqs fuel s n cs off cache file)
  = seq off (fold_right Nat.add 0 (parquet_loads fuel s n cs cache file)).
Proof.
  induction fuel as [|f IH]; intros s n cs off cache file; cbn [parquet_reqs parquet_loads]; [reflexivity|].
  destruct (n <=? s); [reflexivity|].
  destruct (load_groups cs cache file) as [c1 f1]. destruct (extract_chunk cs c1) as [chunk c2].
  cbn [concat fold_right]. rewrite IH, <- seq_app. reflexivity.
Qed.

(* over the whole pass the requested row-group indices are 0, 1, 2, ... in order, none twice, none skipped,
   at most the groups of the file *)
Theorem parquet_requests_in_order {A} cs (groups : list (list A)) :
  exists k, k <= length groups /\ concat (parquet_request_trace cs groups) = seq 0 k.
Proof.
  exists (fold_right Nat.add 0 (parquet_load_trace cs groups)). split.
  - apply parquet_each_group_once.
  - unfold parquet_request_trace, parquet_load_trace. apply parquet_reqs_consecutive.
Qed.

(* a step requests nothing when a full chunk is already buffered, and otherwise stops at the first group
   that fills the chunk: no read-ahead *)
Theorem parquet_no_read_ahead {A} cs (file cache : list (list A)) :
  let '(c1, f1) := load_groups cs cache file in
  let k := length file - length f1 in
  c1 = cache ++ firstn k file /\ f1 = skipn k file /\
  (k = 0 \/ cache_size (cache ++ firstn (k - 1) file) < cs).
Proof.
  pose proof (load_groups_prefix cs file cache) as P.
  destruct (load_groups cs cache file) as [c1 f1]. destruct P as (k & Hk & Hc & Hf & Hmin).
  assert (E : length file - length f1 = k) by (subst f1; rewrite skipn_length; lia).
  cbv zeta. rewrite E. auto.
Qed.

(* ---------- the multiprocessing write loop: what the source is asked for does not depend on the pool ---------- *)
Theorem pool_requests_worker_independent w n cs : map fst (pool_steps w n cs) = slices n cs.
Proof. unfold pool_steps. rewrite map_map. cbn [fst]. apply map_id. Qed.

Lemma array_split_sizes_length n k : length (array_split_sizes n k) = k.
Proof. unfold array_split_sizes. rewrite map_length, seq_length. reflexivity. Qed.

Theorem pool_tasks_partition w n cs : 1 <= w ->
  Forall (fun st => length (snd st) = w /\ fold_right Nat.add 0 (snd st) = slice_len (fst st))
         (pool_steps w n cs).
Proof.
  intros Hw. unfold pool_steps. apply Forall_forall. intros st Hin.
  apply in_map_iff in Hin. destruct Hin as (se & <- & _). cbn [fst snd].
  split; [apply array_split_sizes_length|apply array_split_sizes_sum; exact Hw].
Qed.

Theorem pool_requests_spec w n cs : 1 <= cs ->
  concat (map range (map fst (pool_steps w n cs))) = seq 0 n /\
  Forall (fun se => 1 <= slice_len se <= cs /\ snd se <= n) (map fst (pool_steps w n cs)).
Proof.
  intros Hcs. rewrite pool_requests_worker_independent.
  split; [apply slices_cover|apply slices_bound]; exact Hcs.
Qed.

Lemma slices_first n cs : 1 <= n -> exists r, slices n cs = (0, Nat.min cs n) :: r.
Proof.
  intros Hn. unfold slices. destruct n as [|m]; [lia|]. cbn [slices_from].
  destruct (Nat.leb_spec (S m) 0); [lia|]. eexists. reflexivity.
Qed.

Theorem larger_chunk_refuted n cs cs' : cs < cs' -> cs < n ->
  exists se, In se (slices n cs') /\ cs < slice_len se.
Proof.
  intros Hc Hn. destruct (slices_first n cs' ltac:(lia)) as (r & ->).
  exists (0, Nat.min cs' n). split; [left; reflexivity|]. unfold slice_len. cbn [fst snd]. lia.
Qed.

Theorem smaller_chunk_ok n cs cs' : 1 <= cs' <= cs ->
  concat (map range (slices n cs')) = seq 0 n /\
  Forall (fun se => 1 <= slice_len se <= cs /\ snd se <= n) (slices n cs').
Proof.
  intros H. split; [apply slices_cover; lia|].
  eapply Forall_impl; [|apply slices_bound; lia]. cbn beta. intros se Hse. lia.
Qed.

Lemma round_up_spec cs w : 1 <= w ->
  (round_up cs w) mod w = 0 /\ cs <= round_up cs w < cs + w.
Proof.
  intros Hw. unfold round_up.
  pose proof (Nat.mod_upper_bound cs w ltac:(lia)) as Hr.
  pose proof (Nat.div_mod cs w ltac:(lia)) as Hd.
  destruct (Nat.eq_dec (cs mod w) 0) as [Hz|Hnz].
  - rewrite Hz, Nat.sub_0_r, Nat.mod_same by lia. rewrite Nat.add_0_r. split; [exact Hz|lia].
  - rewrite (Nat.mod_small (w - cs mod w) w) by lia. split; [|lia].
    replace (cs + (w - cs mod w)) with ((cs / w + 1) * w) by nia.
    apply Nat.mod_mul. lia.
Qed.

Lemma round_up_fix cs w : 1 <= w -> cs mod w = 0 -> round_up cs w = cs.
Proof. intros Hw Hz. unfold round_up. rewrite Hz, Nat.sub_0_r, Nat.mod_same by lia. lia. Qed.

Lemma round_up_gt cs w : 1 <= w -> cs mod w <> 0 -> cs < round_up cs w.
Proof.
  intros Hw Hnz. unfold round_up. pose proof (Nat.mod_upper_bound cs w ltac:(lia)).
  rewrite (Nat.mod_small (w - cs mod w) w) by lia. lia.
Qed.

Theorem pool_rounded_same w n cs : 1 <= w -> cs mod w = 0 ->
  pool_steps_rounded w n cs = pool_steps w n cs.
Proof. intros Hw Hz. unfold pool_steps_rounded. rewrite round_up_fix by assumption. reflexivity. Qed.

Theorem pool_rounded_refuted w n cs : 1 <= w -> cs mod w <> 0 -> cs < n ->
  exists st, In st (pool_steps_rounded w n cs) /\ cs < slice_len (fst st).
Proof.
  intros Hw Hnz Hn. pose proof (round_up_gt cs w Hw Hnz) as Hgt.
  destruct (larger_chunk_refuted n cs (round_up cs w) Hgt Hn) as (se & Hin & Hlen).
  exists (se, array_split_sizes (slice_len se) w). split; [|exact Hlen].
  unfold pool_steps_rounded, pool_steps. apply in_map_iff. exists se. split; [reflexivity|exact Hin].
Qed.
