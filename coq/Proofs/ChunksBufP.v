From Verif Require Import Prelude Chunks ChunksP ChunksBuf.

(* _load_groups reads a prefix of the remaining row groups, in order, each once, and stops as soon as
   a full chunk is buffered (it never reads ahead) *)
Lemma load_groups_prefix {A} cs (file cache : list (list A)) :
  let '(c1, f1) := load_groups cs cache file in
  exists k, k <= length file /\ c1 = cache ++ firstn k file /\ f1 = skipn k file /\
            (k = 0 \/ cache_size (cache ++ firstn (k - 1) file) < cs).
Proof.
  revert cache. induction file as [|g rest IH]; intros cache; cbn [load_groups].
  - exists 0. rewrite app_nil_r. repeat split; auto.
  - destruct (Nat.ltb_spec (cache_size cache) cs) as [Hlt|Hge].
    + specialize (IH (cache ++ [g])). destruct (load_groups cs (cache ++ [g]) rest) as [c1 f1].
      destruct IH as (k & Hk & Hc & Hf & Hmin). exists (S k). cbn [length firstn skipn].
      split; [lia|]. split; [rewrite Hc, <- app_assoc; reflexivity|]. split; [exact Hf|].
      right. replace (S k - 1) with k by lia.
      destruct Hmin as [->|Hmin]; [cbn [firstn]; rewrite app_nil_r; exact Hlt|].
      destruct k as [|k']; [cbn [firstn]; rewrite app_nil_r; exact Hlt|].
      cbn [firstn]. replace (S k' - 1) with k' in Hmin by lia.
      rewrite <- app_assoc in Hmin. exact Hmin.
    + exists 0. cbn [firstn skipn]. rewrite app_nil_r. repeat split; auto. lia.
Qed.

Lemma in_skipn' {A} (x : A) k : forall l, In x (skipn k l) -> In x l.
Proof.
  induction k as [|k IH]; intros l H; [exact H|]. destruct l as [|y t]; [exact H|].
  right. apply IH. exact H.
Qed.

(* buffer bound of one load: never more than a chunk plus one row group *)
Lemma load_groups_bound {A} cs m (file cache : list (list A)) :
  Forall (fun g => length g <= m) file -> cache_size cache < cs + m ->
  cache_size (fst (load_groups cs cache file)) < cs + m.
Proof.
  revert cache. induction file as [|g rest IH]; intros cache Hm Hc; cbn [load_groups]; [exact Hc|].
  inversion Hm as [|g' r' Hg Hr]; subst.
  destruct (Nat.ltb_spec (cache_size cache) cs) as [Hlt|Hge]; [|exact Hc].
  apply IH; [exact Hr|]. unfold cache_size in *. rewrite concat_app, app_length. cbn [concat].
  rewrite app_nil_r. lia.
Qed.

Lemma extract_chunk_rest_size {A} cs (cache : list (list A)) :
  cache_size (snd (extract_chunk cs cache)) = cache_size cache - cs.
Proof.
  pose proof (extract_chunk_spec cs cache [] (or_intror eq_refl)) as X.
  destruct (extract_chunk cs cache) as [chunk c2]. destruct X as [_ X2].
  rewrite !app_nil_r in X2. cbn [snd]. unfold cache_size. rewrite X2, skipn_length. reflexivity.
Qed.

Lemma parquet_peaks_bound {A} m fuel : forall s n cs (cache file : list (list A)),
  1 <= cs -> Forall (fun g => length g <= m) file -> cache_size cache < cs + m ->
  Forall (fun p => p < cs + m) (parquet_peaks fuel s n cs cache file).
Proof.
  induction fuel as [|f IH]; intros s n cs cache file Hcs Hm Hc; cbn [parquet_peaks]; [constructor|].
  destruct (n <=? s); [constructor|].
  pose proof (load_groups_bound cs m file cache Hm Hc) as B.
  pose proof (load_groups_prefix cs file cache) as P.
  destruct (load_groups cs cache file) as [c1 f1]. cbn [fst] in B.
  destruct P as (k & _ & _ & Hf & _).
  pose proof (extract_chunk_rest_size cs c1) as R.
  destruct (extract_chunk cs c1) as [chunk c2]. cbn [snd] in R.
  constructor; [exact B|]. apply IH; [exact Hcs| |lia].
  subst f1. rewrite Forall_forall in *. intros g Hg. apply Hm. eapply in_skipn'. exact Hg.
Qed.

(* the reader never buffers more than one chunk plus one row group, whatever the row-group layout *)
Theorem parquet_buffer_bound {A} cs m (groups : list (list A)) :
  1 <= cs -> Forall (fun g => length g <= m) groups ->
  Forall (fun p => p < cs + m) (parquet_buffer_trace cs groups).
Proof.
  intros Hcs Hm. unfold parquet_buffer_trace. apply parquet_peaks_bound; [exact Hcs|exact Hm|].
  unfold cache_size. cbn. lia.
Qed.

Lemma parquet_loads_total {A} fuel : forall s n cs (cache file : list (list A)),
  fold_right Nat.add 0 (parquet_loads fuel s n cs cache file) <= length file.
Proof.
  induction fuel as [|f IH]; intros s n cs cache file; cbn [parquet_loads]; [cbn; lia|].
  destruct (n <=? s); [cbn; lia|].
  pose proof (load_groups_prefix cs file cache) as P.
  destruct (load_groups cs cache file) as [c1 f1]. destruct P as (k & Hk & _ & Hf & _).
  destruct (extract_chunk cs c1) as [chunk c2]. cbn [fold_right].
  specialize (IH (s + cs) n cs c2 f1). subst f1. rewrite skipn_length in *. lia.
Qed.

(* every row group is requested at most once over the whole pass *)
Theorem parquet_each_group_once {A} cs (groups : list (list A)) :
  fold_right Nat.add 0 (parquet_load_trace cs groups) <= length groups.
Proof. apply parquet_loads_total. Qed.

Lemma parquet_reqs_consecutive {A} fuel : forall s n cs off (cache file : list (list A)),
  concat (parquet_reqs fuel s n cs off cache file)
  = seq off (fold_right Nat.add 0 (parquet_loads fuel s n cs cache file)).
Proof.
  induction fuel as [|f IH]; intros s n cs off cache file; cbn [parquet_reqs parquet_loads]; [reflexivity|].
  destruct (n <=? s); [reflexivity|].
  destruct (load_groups cs cache file) as [c1 f1]. destruct (extract_chunk cs c1) as [chunk c2].
  cbn [concat fold_right]. rewrite IH, <- seq_app. reflexivity.
Qed.

(* over the whole pass the requested row-group indices are 0, 1, 2, ... in order, none twice, none skipped,
   at most the groups of the file *)
Theorem parquet_requests_in_order {A} cs (groups : list (list A)) :
  exists k, k <= length groups /\ concat (parquet_request_trace cs groups) = seq 0 k.
Proof.
  exists (fold_right Nat.add 0 (parquet_load_trace cs groups)). split.
  - apply parquet_each_group_once.
  - unfold parquet_request_trace, parquet_load_trace. apply parquet_reqs_consecutive.
Qed.

(* a step requests nothing when a full chunk is already buffered, and otherwise stops at the first group
   that fills the chunk: no read-ahead *)
Theorem parquet_no_read_ahead {A} cs (file cache : list (list A)) :
  let '(c1, f1) := load_groups cs cache file in
  let k := length file - length f1 in
  c1 = cache ++ firstn k file /\ f1 = skipn k file /\
  (k = 0 \/ cache_size (cache ++ firstn (k - 1) file) < cs).
Proof.
  pose proof (load_groups_prefix cs file cache) as P.
  destruct (load_groups cs cache file) as [c1 f1]. destruct P as (k & Hk & Hc & Hf & Hmin).
  assert (E : length file - length f1 = k) by (subst f1; rewrite skipn_length; lia).
  cbv zeta. rewrite E. auto.
Qed.

(* ---------- the multiprocessing write loop: what the source is asked for does not depend on the pool ---------- *)
Theorem pool_requests_worker_independent w n cs : map fst (pool_steps w n cs) = slices n cs.
Proof. unfold pool_steps. rewrite map_map. cbn [fst]. apply map_id. Qed.

Lemma array_split_sizes_length n k : length (array_split_sizes n k) = k.
Proof. unfold array_split_sizes. rewrite map_length, seq_length. reflexivity. Qed.

Theorem pool_tasks_partition w n cs : 1 <= w ->
  Forall (fun st => length (snd st) = w /\ fold_right Nat.add 0 (snd st) = slice_len (fst st))
         (pool_steps w n cs).
Proof.
  intros Hw. unfold pool_steps. apply Forall_forall. intros st Hin.
  apply in_map_iff in Hin. destruct Hin as (se & <- & _). cbn [fst snd].
  split; [apply array_split_sizes_length|apply array_split_sizes_sum; exact Hw].
Qed.

Theorem pool_requests_spec w n cs : 1 <= cs ->
  concat (map range (map fst (pool_steps w n cs))) = seq 0 n /\
  Forall (fun se => 1 <= slice_len se <= cs /\ snd se <= n) (map fst (pool_steps w n cs)).
Proof.
  intros Hcs. rewrite pool_requests_worker_independent.
  split; [apply slices_cover|apply slices_bound]; exact Hcs.
Qed.

Lemma slices_first n cs : 1 <= n -> exists r, slices n cs = (0, Nat.min cs n) :: r.
Proof.
  intros Hn. unfold slices. destruct n as [|m]; [lia|]. cbn [slices_from].
  destruct (Nat.leb_spec (S m) 0); [lia|]. eexists. reflexivity.
Qed.

Theorem larger_chunk_refuted n cs cs' : cs < cs' -> cs < n ->
  exists se, In se (slices n cs') /\ cs < slice_len se.
Proof.
  intros Hc Hn. destruct (slices_first n cs' ltac:(lia)) as (r & ->).
  exists (0, Nat.min cs' n). split; [left; reflexivity|]. unfold slice_len. cbn [fst snd]. lia.
Qed.

Theorem smaller_chunk_ok n cs cs' : 1 <= cs' <= cs ->
  concat (map range (slices n cs')) = seq 0 n /\
  Forall (fun se => 1 <= slice_len se <= cs /\ snd se <= n) (slices n cs').
Proof.
  intros H. split; [apply slices_cover; lia|].
  eapply Forall_impl; [|apply slices_bound; lia]. cbn beta. intros se Hse. lia.
Qed.

Lemma round_up_spec cs w : 1 <= w ->
  (round_up cs w) mod w = 0 /\ cs <= round_up cs w < cs + w.
Proof.
  intros Hw. unfold round_up.
  pose proof (Nat.mod_upper_bound cs w ltac:(lia)) as Hr.
  pose proof (Nat.div_mod cs w ltac:(lia)) as Hd.
  destruct (Nat.eq_dec (cs mod w) 0) as [Hz|Hnz].
  - rewrite Hz, Nat.sub_0_r, Nat.mod_same by lia. rewrite Nat.add_0_r. split; [exact Hz|lia].
  - rewrite (Nat.mod_small (w - cs mod w) w) by lia. split; [|lia].
    replace (cs + (w - cs mod w)) with ((cs / w + 1) * w) by nia.
    apply Nat.mod_mul. lia.
Qed.

Lemma round_up_fix cs w : 1 <= w -> cs mod w = 0 -> round_up cs w = cs.
Proof. intros Hw Hz. unfold round_up. rewrite Hz, Nat.sub_0_r, Nat.mod_same by lia. lia. Qed.

Lemma round_up_gt cs w : 1 <= w -> cs mod w <> 0 -> cs < round_up cs w.
Proof.
  intros Hw Hnz. unfold round_up. pose proof (Nat.mod_upper_bound cs w ltac:(lia)).
  rewrite (Nat.mod_small (w - cs mod w) w) by lia. lia.
Qed.

Theorem pool_rounded_same w n cs : 1 <= w -> cs mod w = 0 ->
  pool_steps_rounded w n cs = pool_steps w n cs.
Proof. intros Hw Hz. unfold pool_steps_rounded. rewrite round_up_fix by assumption. reflexivity. Qed.

Theorem pool_rounded_refuted w n cs : 1 <= w -> cs mod w <> 0 -> cs < n ->
  exists st, In st (pool_steps_rounded w n cs) /\ cs < slice_len (fst st).
Proof.
  intros Hw Hnz Hn. pose proof (round_up_gt cs w Hw Hnz) as Hgt.
  destruct (larger_chunk_refuted n cs (round_up cs w) Hgt Hn) as (se & Hin & Hlen).
  exists (se, array_split_sizes (slice_len se) w). split; [|exact Hlen].
  unfold pool_steps_rounded, pool_steps. apply in_map_iff. exists se. split; [reflexivity|exact Hin].
Qed.

(* ---------- reader history ---------- *)
Section ReaderHistoryP.
  Context {St Rq : Type}.
  Context (init : St) (next : St -> option (St * Rq)) (rewinds : St -> bool).

  Lemma rd_trace_app fuel : forall h st ops,
    rd_trace init next rewinds fuel st (h ++ ops)
    = rd_trace init next rewinds fuel st h
      ++ rd_trace init next rewinds fuel (rd_state init next rewinds fuel st h) ops.
  Proof.
    induction h as [|op h IH]; intros st ops; cbn [app rd_trace rd_state]; [reflexivity|].
    destruct (rd_step init next rewinds fuel st op) as [st1 q] eqn:E. cbn [fst app].
    rewrite IH. reflexivity.
  Qed.
End ReaderHistoryP.

(* with the code's policy a pass forgets the state it starts from *)
Lemma rd_pass_always {St Rq} (init : St) (next : St -> option (St * Rq)) fuel st :
  rd_step init next rewinds_always fuel st RdPass = rd_nexts next fuel init.
Proof. reflexivity. Qed.

Lemma off_nexts_slices n cs fuel : forall off,
  snd (rd_nexts (off_next n cs) fuel off) = slices_from fuel off n cs.
Proof.
  induction fuel as [|f IH]; intros off; cbn [rd_nexts slices_from]; [reflexivity|].
  unfold off_next at 1. destruct (n <=? off); [reflexivity|].
  specialize (IH (off + cs)). destruct (rd_nexts (off_next n cs) f (off + cs)) as [st2 rs].
  cbn [snd] in *. rewrite IH. reflexivity.
Qed.

(* from ANY state (reachable or not) a complete pass requests exactly the model's slices *)
Theorem off_pass_any_state n cs st :
  snd (rd_step 0 (off_next n cs) rewinds_always n st RdPass) = slices n cs.
Proof. rewrite rd_pass_always. apply off_nexts_slices. Qed.

(* every pass after any history requests slices n cs *)
Theorem history_pass_requests n cs h :
  off_trace n cs (h ++ [RdPass]) = off_trace n cs h ++ [slices n cs].
Proof.
  unfold off_trace. rewrite rd_trace_app. f_equal. cbn [rd_trace].
  pose proof (off_pass_any_state n cs (rd_state 0 (off_next n cs) rewinds_always n 0 h)) as P.
  destruct (rd_step 0 (off_next n cs) rewinds_always n _ RdPass) as [st1 q]. cbn [snd] in P.
  rewrite P. reflexivity.
Qed.

(* ... and so does every pass INSIDE a history, wherever it stands *)
Theorem history_every_pass n cs : forall ops st,
  Forall2 (fun op q => op = RdPass -> q = slices n cs) ops
          (rd_trace 0 (off_next n cs) rewinds_always n st ops).
Proof.
  induction ops as [|op ops IH]; intros st; cbn [rd_trace]; [constructor|].
  pose proof (off_pass_any_state n cs st) as P.
  destruct (rd_step 0 (off_next n cs) rewinds_always n st op) as [st1 q] eqn:E.
  constructor; [|apply IH]. intros ->. rewrite E in P. exact P.
Qed.

Corollary history_pass_covers n cs h : 1 <= cs ->
  let q := last (off_trace n cs (h ++ [RdPass])) [] in
  concat (map range q) = seq 0 n /\ Forall (fun se => 1 <= slice_len se <= cs /\ snd se <= n) q.
Proof.
  intros Hcs. rewrite history_pass_requests, last_last. cbv zeta.
  split; [apply slices_cover|apply slices_bound]; exact Hcs.
Qed.

(* a complete pass leaves the reader exhausted *)
Lemma off_nexts_final n cs : 1 <= cs -> forall fuel off, n <= off + fuel ->
  n <= fst (rd_nexts (off_next n cs) fuel off).
Proof.
  intros Hcs. induction fuel as [|f IH]; intros off H; cbn [rd_nexts]; [cbn [fst]; lia|].
  unfold off_next at 1. destruct (Nat.leb_spec n off) as [Hle|Hgt]; [cbn [fst]; exact Hle|].
  specialize (IH (off + cs) ltac:(lia)). destruct (rd_nexts (off_next n cs) f (off + cs)) as [st2 rs].
  cbn [fst] in *. exact IH.
Qed.

(* the policy `rewind only when exhausted` cannot be told from the code's by histories that consist of complete
   passes only (fresh readers, get_probe, the Catalog.from_* routes): the two request the same, step by step *)
Lemma lazy_same_from n cs : 1 <= cs -> forall ops st, (st = 0 \/ n <= st) -> Forall (fun op => op = RdPass) ops ->
  rd_trace 0 (off_next n cs) (off_rewinds_exhausted n) n st ops
  = rd_trace 0 (off_next n cs) rewinds_always n st ops.
Proof.
  intros Hcs. induction ops as [|op ops IH]; intros st Hst Hall; [reflexivity|].
  inversion Hall as [|op' r' Hop Hr]; subst. cbn [rd_trace rd_step].
  assert (E : rd_iter 0 (off_rewinds_exhausted n) st = 0).
  { unfold rd_iter, off_rewinds_exhausted. destruct (Nat.leb_spec n st); [reflexivity|lia]. }
  rewrite E. unfold rd_iter at 1, rewinds_always at 1.
  pose proof (off_nexts_final n cs Hcs n 0 ltac:(lia)) as F.
  destruct (rd_nexts (off_next n cs) n 0) as [st1 q]. cbn [fst] in F.
  f_equal. apply IH; [right; exact F|exact Hr].
Qed.

Theorem lazy_same_on_complete_passes n cs ops : 1 <= cs -> Forall (fun op => op = RdPass) ops ->
  off_trace_lazy n cs ops = off_trace n cs ops.
Proof. intros Hcs Hall. unfold off_trace_lazy, off_trace. apply lazy_same_from; auto. Qed.

Lemma slices_from_ge fuel : forall s n cs x,
  In x (concat (map range (slices_from fuel s n cs))) -> s <= x.
Proof.
  induction fuel as [|f IH]; intros s n cs x H; cbn [slices_from] in H; [destruct H|].
  destruct (n <=? s); [destruct H|]. cbn [map concat] in H. apply in_app_or in H.
  destruct H as [H|H].
  - unfold range in H. cbn [fst snd] in H. apply in_seq in H. lia.
  - apply IH in H. lia.
Qed.

(* ... but it is wrong as soon as a pass was abandoned: from any partially consumed state the next pass never
   requests the first record *)
Theorem lazy_pass_misses_start n cs st : 0 < st -> st < n ->
  ~ In 0 (concat (map range (snd (rd_step 0 (off_next n cs) (off_rewinds_exhausted n) n st RdPass)))).
Proof.
  intros H0 Hn. cbn [rd_step]. unfold rd_iter, off_rewinds_exhausted.
  destruct (Nat.leb_spec n st); [lia|]. rewrite off_nexts_slices. intros Hin.
  apply slices_from_ge in Hin. lia.
Qed.

(* the peek next(iter(reader)) is such a history whenever the source is longer than a chunk *)
Theorem lazy_refuted n cs : 1 <= cs -> cs < n ->
  exists q, off_trace_lazy n cs [RdIter; RdNext 1; RdPass] = [[]; [(0, cs)]; q]
            /\ ~ In 0 (concat (map range q)) /\ q <> slices n cs.
Proof.
  intros Hcs Hn. unfold off_trace_lazy. cbn [rd_trace rd_step].
  assert (E0 : rd_iter 0 (off_rewinds_exhausted n) 0 = 0).
  { unfold rd_iter. destruct (off_rewinds_exhausted n 0); reflexivity. }
  rewrite E0. cbn [rd_nexts]. unfold off_next at 1. destruct (Nat.leb_spec n 0); [lia|].
  cbn [Nat.add]. rewrite Nat.min_l by lia.
  pose proof (lazy_pass_misses_start n cs cs ltac:(lia) Hn) as M. cbn [rd_step] in M.
  destruct (rd_nexts (off_next n cs) n (rd_iter 0 (off_rewinds_exhausted n) cs)) as [st2 q].
  cbn [snd] in M. exists q. split; [reflexivity|]. split; [exact M|].
  intros ->. apply M. rewrite slices_cover by exact Hcs. apply in_seq. lia.
Qed.

(* ---------- Parquet: the same for the row-group reader ---------- *)
Lemma pq_next_eq {A} n cs s off (cache file : list (list A)) :
  pq_next n cs (s, off, cache, file)
  = if n <=? s then None else
      let '(cache1, file1) := load_groups cs cache file in
      let '(chunk, cache2) := extract_chunk cs cache1 in
      let k := length file - length file1 in
      Some ((s + cs, off + k, cache2, file1), (seq off k, chunk)).
Proof. reflexivity. Qed.

Lemma pq_nexts_model {A} n cs fuel : forall s off (cache file : list (list A)),
  map fst (snd (rd_nexts (pq_next n cs) fuel (s, off, cache, file))) = parquet_reqs fuel s n cs off cache file /\
  map snd (snd (rd_nexts (pq_next n cs) fuel (s, off, cache, file))) = parquet_from fuel s n cs cache file.
Proof.
  induction fuel as [|f IH]; intros s off cache file; cbn [rd_nexts parquet_reqs parquet_from];
    [split; reflexivity|].
  rewrite pq_next_eq. destruct (n <=? s); [split; reflexivity|].
  destruct (load_groups cs cache file) as [c1 f1]. destruct (extract_chunk cs c1) as [chunk c2].
  cbv beta iota zeta.
  match goal with |- context [let '(_, _) := ?p in _] =>
    pose proof (IH (s + cs) (off + (length file - length f1)) c2 f1
                : map fst (snd p) = _ /\ map snd (snd p) = _) as I;
    destruct p as [st2 rs]
  end.
  cbn [snd] in I. destruct I as [I1 I2]. cbn [snd map fst]. rewrite I1, I2. split; reflexivity.
Qed.

(* from any state of cursor and cache a complete pass requests the row groups and delivers the chunks of a
   fresh reader *)
Theorem pq_pass_any_state {A} cs (groups : list (list A)) (st : pq_state A) :
  let n := length (concat groups) in
  let q := snd (rd_step (pq_init groups) (pq_next n cs) rewinds_always n st RdPass) in
  map fst q = parquet_request_trace cs groups /\ map snd q = parquet_chunks cs groups.
Proof. cbv zeta. rewrite rd_pass_always. apply pq_nexts_model. Qed.

Theorem pq_history_every_pass {A} cs (groups : list (list A)) : forall ops st,
  let n := length (concat groups) in
  Forall2 (fun op q => op = RdPass ->
             map fst q = parquet_request_trace cs groups /\ map snd q = chunks cs (concat groups)) ops
          (rd_trace (pq_init groups) (pq_next n cs) rewinds_always n st ops).
Proof.
  cbv zeta. induction ops as [|op ops IH]; intros st; cbn [rd_trace]; [constructor|].
  pose proof (pq_pass_any_state cs groups st) as P. cbv zeta in P.
  destruct (rd_step (pq_init groups) (pq_next (length (concat groups)) cs) rewinds_always _ st op) as [st1 q] eqn:E.
  constructor; [|apply IH]. intros ->. rewrite E in P. cbn [snd] in P.
  rewrite <- parquet_chunks_eq. exact P.
Qed.

(* ---------- the parameter that configures the chunk size ---------- *)
Lemma slices_single n cs : 1 <= n -> n <= cs -> slices n cs = [(0, n)].
Proof.
  intros Hn Hc. unfold slices. destruct n as [|m]; [lia|]. cbn [slices_from].
  destruct (Nat.leb_spec (S m) 0); [lia|]. rewrite Nat.add_0_l, (Nat.min_r cs (S m)) by lia.
  f_equal. destruct m as [|k]; [reflexivity|]. cbn [slices_from].
  destruct (Nat.leb_spec (S (S k)) cs); [reflexivity|lia].
Qed.

(* an input that is no longer than the chunk is requested in the same single slice whatever the chunk size *)
Theorem slices_capped n cs cs' : n <= cs -> n <= cs' -> slices n cs = slices n cs'.
Proof.
  intros H1 H2. destruct n as [|m]; [reflexivity|]. rewrite !slices_single by lia. reflexivity.
Qed.

Lemma configured_cs_pos dflt p : 1 <= dflt -> 1 <= configured_cs dflt p.
Proof. intros H. destruct p as [[|v]|]; cbn [configured_cs]; lia. Qed.

(* the requests of a pass are a function of the VALUE handed over (the checkers' capped_cs stands for the default) *)
Theorem param_requests_by_value dflt n p : n <= dflt -> param_slices dflt n p = slices n (capped_cs n p).
Proof.
  intros H. unfold param_slices. destruct p as [[|v]|]; cbn [configured_cs capped_cs]; try reflexivity;
    apply slices_capped; lia.
Qed.

Theorem param_requests_spec dflt n p : 1 <= dflt ->
  concat (map range (param_slices dflt n p)) = seq 0 n /\
  Forall (fun se => 1 <= slice_len se <= configured_cs dflt p /\ snd se <= n) (param_slices dflt n p).
Proof.
  intros H. pose proof (configured_cs_pos dflt p H) as Hc. unfold param_slices.
  split; [apply slices_cover|apply slices_bound]; exact Hc.
Qed.

(* nothing handed over (or a falsy value): one request, allowed because the input is not larger than the chunk *)
Theorem param_default_single dflt n : 1 <= n <= dflt ->
  param_slices dflt n None = [(0, n)] /\ param_slices dflt n (Some 0) = [(0, n)].
Proof. intros H. unfold param_slices. cbn [configured_cs]. split; apply slices_single; lia. Qed.

(* a test on the type that keeps the parameter changes nothing; one that discards it requests more than the configured
   chunk as soon as the input is longer than it - and is invisible on inputs that fit into one chunk *)
Theorem typed_keep_same dflt p : configured_cs_typed true dflt p = configured_cs dflt p.
Proof. reflexivity. Qed.

Theorem typed_discard_refuted dflt n v : 1 <= v -> v < n -> v < dflt ->
  exists se, In se (slices n (configured_cs_typed false dflt (Some v))) /\ v < slice_len se.
Proof. intros Hv Hn Hd. cbn [configured_cs_typed]. apply larger_chunk_refuted; assumption. Qed.

Theorem typed_discard_invisible dflt n v : n <= v -> n <= dflt ->
  slices n (configured_cs_typed false dflt (Some v)) = slices n v.
Proof. intros Hv Hd. cbn [configured_cs_typed]. apply slices_capped; assumption. Qed.

(* ---------- scaling: slices (k n) (k cs) = k * slices n cs ---------- *)
Lemma slices_from_fuel_cs f1 : forall f2 s n cs, 1 <= cs -> n - s <= f1 * cs -> n - s <= f2 * cs ->
  slices_from f1 s n cs = slices_from f2 s n cs.
Proof.
  induction f1 as [|f IH]; intros f2 s n cs Hcs H1 H2.
  - cbn [slices_from]. destruct f2 as [|g]; [reflexivity|]. cbn [slices_from].
    destruct (Nat.leb_spec n s); [reflexivity|]. cbn in H1. lia.
  - destruct f2 as [|g].
    + cbn [slices_from]. destruct (Nat.leb_spec n s); [reflexivity|]. cbn in H2. lia.
    + cbn [slices_from]. destruct (Nat.leb_spec n s); [reflexivity|]. f_equal.
      cbn [Nat.mul] in H1, H2. apply IH; lia.
Qed.

Lemma slices_from_scale k f : 1 <= k -> forall s n cs,
  slices_from f (k * s) (k * n) (k * cs) = map (scale_slice k) (slices_from f s n cs).
Proof.
  intros Hk. induction f as [|g IH]; intros s n cs; cbn [slices_from]; [reflexivity|].
  assert (E : (k * n <=? k * s) = (n <=? s)).
  { destruct (Nat.leb_spec n s) as [H|H].
    - apply Nat.leb_le. apply Nat.mul_le_mono_l. exact H.
    - apply Nat.leb_gt. apply Nat.mul_lt_mono_pos_l; lia. }
  rewrite E. destruct (n <=? s); [reflexivity|]. cbn [map]. unfold scale_slice at 1. cbn [fst snd].
  rewrite <- Nat.mul_add_distr_l, Nat.mul_min_distr_l, IH. reflexivity.
Qed.

Theorem slices_scale k n cs : 1 <= k -> 1 <= cs ->
  slices (k * n) (k * cs) = map (scale_slice k) (slices n cs).
Proof.
  intros Hk Hcs. unfold slices.
  rewrite (slices_from_fuel_cs (k * n) n 0 (k * n) (k * cs)).
  - pose proof (slices_from_scale k n Hk 0 n cs) as E. rewrite Nat.mul_0_r in E. exact E.
  - change 1 with (1 * 1). apply Nat.mul_le_mono; assumption.
  - rewrite Nat.sub_0_r. rewrite <- (Nat.mul_1_r (k * n)) at 1. apply Nat.mul_le_mono_l.
    change 1 with (1 * 1). apply Nat.mul_le_mono; assumption.
  - rewrite Nat.sub_0_r. replace (n * (k * cs)) with (k * n * cs) by ring.
    rewrite <- (Nat.mul_1_r (k * n)) at 1. apply Nat.mul_le_mono_l. exact Hcs.
Qed.


(* ---------- several readers alive at the same time ---------- *)
Lemma upd_length {A} (x : A) : forall l k, length (upd k x l) = length l.
Proof. induction l as [|y l IH]; intros [|k]; cbn; auto. Qed.

Lemma nth_error_upd_same {A} (x : A) : forall l k y, nth_error l k = Some y -> nth_error (upd k x l) k = Some x.
Proof. induction l as [|z l IH]; intros [|k] y; cbn; try discriminate; auto. apply IH. Qed.

Lemma nth_error_upd_other {A} (x : A) : forall l j k, j <> k -> nth_error (upd j x l) k = nth_error l k.
Proof.
  induction l as [|z l IH]; intros [|j] [|k] H; cbn; try reflexivity; try congruence.
  apply IH. congruence.
Qed.

Section WorldP.
  Context {St Rq : Type}.
  Context (init : nat -> St) (next : nat -> St -> option (St * Rq)) (rewinds : nat -> St -> bool) (fuel : nat -> nat).
  Notation wstep := (w_step init next rewinds fuel).
  Notation wtrace := (w_trace init next rewinds fuel).
  Notation wstate := (w_state init next rewinds fuel).
  Notation sstep := (slot_step init next rewinds fuel).
  Notation strace := (slot_trace init next rewinds fuel).
  Notation sstate := (slot_state init next rewinds fuel).

  (* frame: an operation on another reader leaves reader k as it is *)
  Theorem w_step_other w o k : fst o <> k -> nth_error (fst (wstep w o)) k = nth_error w k.
  Proof.
    intros H. unfold w_step. destruct (nth_error w (fst o)) as [s|]; [|reflexivity].
    destruct (sstep (fst o) s (snd o)) as [s1 q]. cbn [fst]. apply nth_error_upd_other. exact H.
  Qed.

  (* an operation on reader k is the step of reader k alone *)
  Theorem w_step_same w o s : nth_error w (fst o) = Some s ->
    nth_error (fst (wstep w o)) (fst o) = Some (fst (sstep (fst o) s (snd o)))
    /\ snd (wstep w o) = snd (sstep (fst o) s (snd o)).
  Proof.
    intros H. unfold w_step. rewrite H. destruct (sstep (fst o) s (snd o)) as [s1 q]. cbn [fst snd].
    split; [|reflexivity]. eapply nth_error_upd_same. exact H.
  Qed.

  (* non-interference: whatever the interleaving, what reader k delivers is what it delivers when run alone on the
     operations addressed to it - and it ends in the same state *)
  Theorem world_stream_alone k : forall ops w s, nth_error w k = Some s ->
    outs_of k ops (wtrace w ops) = strace k s (proj k ops)
    /\ nth_error (wstate w ops) k = Some (sstate k s (proj k ops)).
  Proof.
    induction ops as [|o ops IH]; intros w s H; [split; [reflexivity|exact H]|].
    unfold outs_of, proj in *. cbn [w_trace w_state].
    destruct (wstep w o) as [w1 q] eqn:E. cbn [fst combine filter map].
    destruct (Nat.eqb_spec (fst o) k) as [<-|N].
    - destruct (w_step_same w o s H) as [S1 S2]. rewrite E in S1, S2. cbn [fst snd] in S1, S2.
      cbn [map snd slot_trace slot_state].
      destruct (sstep (fst o) s (snd o)) as [s1 q1] eqn:E1. cbn [fst snd] in *. subst q1.
      destruct (IH w1 s1 S1) as [I1 I2]. split; [f_equal; exact I1|exact I2].
    - pose proof (w_step_other w o k N) as F. rewrite E in F. cbn [fst] in F.
      apply IH. rewrite F. exact H.
  Qed.
End WorldP.

(* --- the readers of the library in a world --- *)
Lemma skipn_seq' a : forall s n, skipn a (seq s n) = seq (s + a) (n - a).
Proof.
  induction a as [|a IH]; intros s n; [rewrite Nat.add_0_r, Nat.sub_0_r; reflexivity|].
  destruct n as [|n]; [reflexivity|]. cbn [seq skipn]. rewrite IH. f_equal; lia.
Qed.
Lemma firstn_seq' k : forall s n, k <= n -> firstn k (seq s n) = seq s k.
Proof.
  induction k as [|k IH]; intros s n H; [reflexivity|].
  destruct n as [|n]; [lia|]. cbn [seq firstn]. rewrite IH by lia. reflexivity.
Qed.
Lemma sub_seq a b n : a <= b -> b <= n -> sub (a, b) (seq 0 n) = seq a (b - a).
Proof.
  intros H1 H2. unfold sub. cbn [fst snd]. rewrite skipn_seq', firstn_seq' by lia. reflexivity.
Qed.

Lemma chunks_seq n cs : 1 <= cs -> chunks cs (seq 0 n) = map range (slices n cs).
Proof.
  intros Hcs. unfold chunks. rewrite seq_length. apply map_ext_in. intros [a b] Hin.
  pose proof (slices_bound n cs Hcs) as B. rewrite Forall_forall in B. specialize (B _ Hin).
  unfold slice_len in B. cbn [fst snd] in B. unfold range. cbn [fst snd]. apply sub_seq; lia.
Qed.

Lemma u_off_nexts ids n cs fuel : forall s a (b c : list (list nat)),
  map snd (snd (rd_nexts (u_next (COff ids n cs)) fuel (s, a, b, c))) = map range (slices_from fuel s n cs)
  /\ map fst (snd (rd_nexts (u_next (COff ids n cs)) fuel (s, a, b, c))) = map (fun _ => []) (slices_from fuel s n cs).
Proof.
  induction fuel as [|f IH]; intros s a b c; cbn [rd_nexts slices_from]; [split; reflexivity|].
  cbn [u_next]. unfold off_next. destruct (n <=? s); [split; reflexivity|].
  specialize (IH (s + cs) 0 [] []).
  destruct (rd_nexts (u_next (COff ids n cs)) f (s + cs, 0, [], [])) as [st2 rs].
  cbn [snd map fst] in *. destruct IH as [I1 I2]. rewrite I1, I2. split; reflexivity.
Qed.

(* from ANY state a complete pass of a reader delivers the chunks of its own source, whatever its kind *)
Theorem u_pass_any_state c st : 1 <= u_cs c ->
  map snd (snd (rd_step (u_init c) (u_next c) rewinds_always (u_n c) st RdPass)) = chunks (u_cs c) (u_rows c).
Proof.
  intros Hcs. rewrite rd_pass_always. destruct c as [ids n cs|cs g]; cbn [u_init u_n u_cs u_rows] in *.
  - rewrite chunks_seq by exact Hcs. apply u_off_nexts.
  - cbn [u_next]. unfold pq_init. rewrite <- parquet_chunks_eq. apply pq_nexts_model.
Qed.

(* one reader through its life (opened, used, closed, opened again): every complete pass delivers exactly the chunks of
   its source (a closed reader delivers nothing) *)
Theorem u_slot_every_pass c : 1 <= u_cs c -> forall ops s,
  Forall2 (fun o q => o = LDo RdPass -> q = [] \/ map snd q = chunks (u_cs c) (u_rows c)) ops
          (slot_trace (fun _ => u_init c) (fun _ => u_next c) (fun _ : nat => rewinds_always) (fun _ => u_n c) 0 s ops).
Proof.
  intros Hcs. induction ops as [|o ops IH]; intros s; cbn [slot_trace]; [constructor|].
  destruct (slot_step _ _ _ _ 0 s o) as [s1 q] eqn:E. constructor; [|apply IH].
  intros ->. destruct s as [st|]; cbn [slot_step] in E.
  - pose proof (u_pass_any_state c st Hcs) as P.
    destruct (rd_step (u_init c) (u_next c) rewinds_always (u_n c) st RdPass) as [st1 q1].
    cbn [snd] in P. inversion E; subst. right. exact P.
  - inversion E. left. reflexivity.
Qed.

(* the same machine, whichever index it has in the world *)
Lemma slot_trace_ext {St Rq} (i1 i2 : nat -> St) (n1 n2 : nat -> St -> option (St * Rq)) r1 r2 f1 f2 k1 k2 :
  i1 k1 = i2 k2 -> (forall st, n1 k1 st = n2 k2 st) -> (forall st, r1 k1 st = r2 k2 st) -> f1 k1 = f2 k2 ->
  forall ops s, slot_trace i1 n1 r1 f1 k1 s ops = slot_trace i2 n2 r2 f2 k2 s ops.
Proof.
  intros Hi Hn Hr Hf. assert (N : forall j st, rd_nexts (n1 k1) j st = rd_nexts (n2 k2) j st).
  { induction j as [|j IH]; intros st; cbn [rd_nexts]; [reflexivity|]. rewrite Hn.
    destruct (n2 k2 st) as [[st1 r]|]; [|reflexivity]. rewrite IH. reflexivity. }
  assert (S : forall s o, slot_step i1 n1 r1 f1 k1 s o = slot_step i2 n2 r2 f2 k2 s o).
  { intros s o. destruct o as [| |op]; cbn [slot_step]; [rewrite Hi; reflexivity|reflexivity|].
    destruct s as [st|]; [|reflexivity].
    destruct op as [|j|]; cbn [rd_step]; unfold rd_iter; rewrite ?Hr, ?Hi, ?Hf, ?N; reflexivity. }
  induction ops as [|o ops IH]; intros s; cbn [slot_trace]; [reflexivity|].
  rewrite S. destruct (slot_step i2 n2 r2 f2 k2 s o) as [s1 q]. rewrite IH. reflexivity.
Qed.

Lemma Forall2_weaken {A B} (P Q : A -> B -> Prop) : (forall a b, P a b -> Q a b) ->
  forall l1 l2, Forall2 P l1 l2 -> Forall2 Q l1 l2.
Proof. intros H l1 l2 F. induction F; constructor; auto. Qed.

(* THE statement for several readers: under ANY interleaving of operations on the readers of a world, the stream of
   reader k is its stream when run alone *)
Theorem world_reader_alone cfgs k : forall ops w s, nth_error w k = Some s ->
  outs_of k ops (uw_trace cfgs w ops) = u_slot_trace (cfg_at cfgs k) s (proj k ops).
Proof.
  intros ops w s H. unfold uw_trace, u_slot_trace.
  rewrite (proj1 (world_stream_alone _ _ _ _ k ops w s H)).
  apply slot_trace_ext; reflexivity.
Qed.

(* ... hence every complete pass of every reader delivers every record of its own source once, in order, in chunks of at
   most its own chunk size - whatever the other readers do in between *)
Theorem world_every_pass cfgs k : 1 <= u_cs (cfg_at cfgs k) -> forall ops w s, nth_error w k = Some s ->
  Forall2 (fun o q => o = LDo RdPass ->
             q = [] \/ (concat (map snd q) = u_rows (cfg_at cfgs k)
                        /\ Forall (fun ch => length ch <= u_cs (cfg_at cfgs k)) (map snd q)))
          (proj k ops) (outs_of k ops (uw_trace cfgs w ops)).
Proof.
  intros Hcs ops w s H. rewrite (world_reader_alone cfgs k ops w s H).
  eapply Forall2_weaken; [|apply u_slot_every_pass; exact Hcs].
  intros o q P E. destruct (P E) as [->|Q]; [left; reflexivity|right]. rewrite Q. split.
  - apply chunks_concat. exact Hcs.
  - eapply Forall_impl; [|apply chunks_bound; exact Hcs]. intros ch B. apply B.
Qed.

(* ---------- the variant with ONE row-group cache for all Parquet readers ---------- *)
(* while only ONE reader is used (any history of peeks, restarts, partial and complete passes) the variant cannot be told
   from the code: the shared cache is then that reader's own cache *)
Section SharedP.
  Context {A : Type} (cfg : nat -> nat * list (list A)) (k : nat).
  Notation n := (sh_n cfg k).
  Notation cs := (fst (cfg k)).
  Notation groups := (snd (cfg k)).

  Definition sh_rel (w : sh_world A) (st : pq_state A) : Prop :=
    exists s off file, st = (s, off, fst w, file) /\ nth_error (snd w) k = Some (s, off, file).

  Lemma sh_nexts_sim : forall j w st, sh_rel w st ->
    snd (rd_nexts (sh_next cfg k) j w) = snd (rd_nexts (pq_next n cs) j st)
    /\ sh_rel (fst (rd_nexts (sh_next cfg k) j w)) (fst (rd_nexts (pq_next n cs) j st)).
  Proof.
    induction j as [|j IH]; intros w st R; cbn [rd_nexts]; [split; [reflexivity|exact R]|].
    destruct R as (s & off & file & -> & H). unfold sh_next at 1 3. rewrite H.
    destruct (pq_next n cs (s, off, fst w, file)) as [[[[[s1 off1] cache1] file1] out]|] eqn:E.
    - assert (R1 : sh_rel (cache1, upd k (s1, off1, file1) (snd w)) (s1, off1, cache1, file1)).
      { exists s1, off1, file1. split; [reflexivity|]. cbn [snd]. eapply nth_error_upd_same. exact H. }
      destruct (IH _ _ R1) as [I1 I2].
      destruct (rd_nexts (sh_next cfg k) j (cache1, upd k (s1, off1, file1) (snd w))) as [w2 rs].
      destruct (rd_nexts (pq_next n cs) j (s1, off1, cache1, file1)) as [st2 rs'].
      cbn [fst snd] in *. subst rs'. split; [reflexivity|exact I2].
    - cbn [fst snd]. split; [reflexivity|]. exists s, off, file. split; [reflexivity|exact H].
  Qed.

  Lemma sh_rewind_rel w st : sh_rel w st -> sh_rel (sh_rewind cfg k w) (pq_init groups).
  Proof.
    intros (s & off & file & _ & H). exists 0, 0, groups. split; [reflexivity|].
    unfold sh_rewind. cbn [snd]. eapply nth_error_upd_same. exact H.
  Qed.

  Lemma sh_step_sim w st op : sh_rel w st ->
    snd (sh_step cfg w (k, op)) = snd (rd_step (pq_init groups) (pq_next n cs) rewinds_always n st op)
    /\ sh_rel (fst (sh_step cfg w (k, op))) (fst (rd_step (pq_init groups) (pq_next n cs) rewinds_always n st op)).
  Proof.
    intros R. destruct op as [|j|]; unfold sh_step; cbn [fst snd rd_step]; unfold rd_iter, rewinds_always.
    - split; [reflexivity|]. eapply sh_rewind_rel. exact R.
    - apply sh_nexts_sim. exact R.
    - apply sh_nexts_sim. eapply sh_rewind_rel. exact R.
  Qed.

  Theorem shared_alone_same : forall ops w st, sh_rel w st -> Forall (fun o => fst o = k) ops ->
    sh_trace cfg w ops = rd_trace (pq_init groups) (pq_next n cs) rewinds_always n st (map snd ops).
  Proof.
    induction ops as [|[k' op] ops IH]; intros w st R F; [reflexivity|].
    inversion F as [|? ? Hk F']; subst. cbn [fst] in Hk. subst k'.
    cbn [sh_trace map snd rd_trace].
    destruct (sh_step_sim w st op R) as [S1 S2].
    destruct (sh_step cfg w (k, op)) as [w1 q]. 
    destruct (rd_step (pq_init groups) (pq_next n cs) rewinds_always n st op) as [st1 q'].
    cbn [fst snd] in *. subst q'. f_equal. apply IH; assumption.
  Qed.
End SharedP.

(* ... but with two readers in lock-step it is false: each reader, asked alone, delivers its file; interleaved, reader 1
   receives records of file 0 and reader 0 never delivers them *)
Theorem shared_buffer_refuted :
  exists ops : list (nat * rd_op),
    sh_stream 0 (ops_of 0 ops) = concat (snd (sh_example 0)) /\ sh_stream 1 (ops_of 1 ops) = concat (snd (sh_example 1))
    /\ In 4 (sh_stream 1 ops) /\ ~ In 4 (sh_stream 0 ops) /\ length (sh_stream 0 ops) < 10.
Proof.
  exists [(0, RdNext 1); (1, RdNext 1); (0, RdNext 1); (1, RdNext 1); (0, RdNext 1); (1, RdNext 1)].
  vm_compute. repeat split; try reflexivity; lia.
Qed.

(* and merely restarting (or constructing) another reader while reader 0 is in the middle of a pass loses the records
   reader 0 had requested and not yet delivered *)
Theorem shared_buffer_restart_refuted :
  exists ops : list (nat * rd_op),
    Forall (fun o => fst o = 0 \/ snd o = RdIter) ops
    /\ sh_stream 0 (ops_of 0 ops) = concat (snd (sh_example 0))
    /\ ~ In 4 (sh_stream 0 ops) /\ ~ In 5 (sh_stream 0 ops).
Proof.
  exists [(0, RdNext 1); (1, RdIter); (0, RdNext 2)].
  split; [constructor; [left; reflexivity|constructor; [right; reflexivity|constructor; [left; reflexivity|constructor]]]|].
  vm_compute. repeat split; try reflexivity; lia.
Qed.

Corollary shared_alone_same_pq {A} (cfg : nat -> nat * list (list A)) k ops w s off file :
  nth_error (snd w) k = Some (s, off, file) -> Forall (fun o => fst o = k) ops ->
  sh_trace cfg w ops
  = rd_trace (pq_init (snd (cfg k))) (pq_next (sh_n cfg k) (fst (cfg k))) rewinds_always (sh_n cfg k)
             (s, off, fst w, file) (map snd ops).
Proof.
  intros H F. apply shared_alone_same; [|exact F]. exists s, off, file. split; [reflexivity|exact H].
Qed.


(* ---------- a pass in which loads fail ---------- *)
Lemma f_out_cons {Rq} (x : Rq) r : f_out (f_cons x r) = x :: f_out r.
Proof. destruct r; reflexivity. Qed.
Lemma f_cons_done {Rq} (x : Rq) r o : f_cons x r = FDone o -> exists o', r = FDone o'.
Proof. destruct r; cbn; intros H; inversion H. eexists; reflexivity. Qed.
Lemma f_cons_raised {Rq} (x : Rq) r : f_raised (f_cons x r) = f_raised r.
Proof. destruct r; reflexivity. Qed.

Section FaultyPassP.
  Context {St Rq : Type} (next : St -> option (St * Rq)).

  (* whatever fails and whatever the policy: what a pass delivered is what k healthy next() calls deliver, and a
     pass that ENDED left the reader exhausted *)
  Lemma f_pass_sound fails : forall fuel b st a,
    exists k st', rd_nexts next k st = (st', f_out (f_pass next fails fuel b st a))
                  /\ ((exists o, f_pass next fails fuel b st a = FDone o) -> next st' = None).
  Proof.
    induction fuel as [|f IH]; intros b st a; cbn [f_pass].
    - destruct (next st) as [[st1 r]|] eqn:E; exists 0, st; cbn [rd_nexts f_out]; (split; [reflexivity|]).
      + intros [o H]. discriminate H.
      + intros _. exact E.
    - destruct (next st) as [[st1 r]|] eqn:E.
      + destruct (fails a).
        * destruct b as [|b'].
          -- exists 0, st. cbn [rd_nexts f_out]. split; [reflexivity|]. intros [o H]. discriminate H.
          -- apply IH.
        * destruct (IH b st1 (S a)) as (k & st' & Hk & Hd). exists (S k), st'.
          cbn [rd_nexts]. rewrite E, Hk, f_out_cons. split; [reflexivity|].
          intros [o H]. apply f_cons_done in H. exact (Hd H).
      + exists 0, st. cbn [rd_nexts f_out]. split; [reflexivity|]. intros _. exact E.
  Qed.

  (* more fuel than an exhausting run needs changes nothing; less fuel delivers a prefix *)
  Lemma rd_nexts_stable : forall k st st' out, rd_nexts next k st = (st', out) -> next st' = None ->
    forall m, k <= m -> rd_nexts next m st = (st', out).
  Proof.
    induction k as [|k IH]; intros st st' out H Hn m Hm.
    - cbn [rd_nexts] in H. inversion H; subst. destruct m; cbn [rd_nexts]; [reflexivity|]. rewrite Hn. reflexivity.
    - destruct m as [|m]; [lia|]. cbn [rd_nexts] in *. destruct (next st) as [[st1 r]|]; [|exact H].
      destruct (rd_nexts next k st1) as [st2 rs] eqn:E. inversion H; subst.
      rewrite (IH st1 st' rs E Hn m ltac:(lia)). reflexivity.
  Qed.
  Lemma rd_nexts_le_prefix : forall k st m, k <= m ->
    exists rest, snd (rd_nexts next m st) = snd (rd_nexts next k st) ++ rest.
  Proof.
    induction k as [|k IH]; intros st m Hm.
    - exists (snd (rd_nexts next m st)). reflexivity.
    - destruct m as [|m]; [lia|]. cbn [rd_nexts]. destruct (next st) as [[st1 r]|]; [|exists []; reflexivity].
      destruct (IH st1 m ltac:(lia)) as [rest Hr].
      destruct (rd_nexts next m st1) as [s2 r2]. destruct (rd_nexts next k st1) as [s3 r3]. cbn [snd] in *.
      exists rest. rewrite Hr. reflexivity.
  Qed.

  (* hence: against a healthy run that exhausts the reader, a pass with failing loads delivered a prefix, and a pass that
     ENDED delivered all of it - under propagation (b = 0) and under `the same request again` (b > 0) alike *)
  Theorem f_pass_vs_healthy fails fuel b st a m stm outm :
    rd_nexts next m st = (stm, outm) -> next stm = None ->
    (exists rest, outm = f_out (f_pass next fails fuel b st a) ++ rest)
    /\ (forall o, f_pass next fails fuel b st a = FDone o -> o = outm).
  Proof.
    intros Hm Hnone. destruct (f_pass_sound fails fuel b st a) as (k & st' & Hk & Hd).
    destruct (Nat.le_gt_cases k m) as [Hle|Hgt].
    - split.
      + destruct (rd_nexts_le_prefix k st m Hle) as [rest Hr]. rewrite Hm, Hk in Hr. cbn [snd] in Hr.
        exists rest. exact Hr.
      + intros o Ho. assert (Hn : next st' = None) by (apply Hd; exists o; exact Ho).
        rewrite (rd_nexts_stable k st st' _ Hk Hn m Hle) in Hm. inversion Hm; subst.
        rewrite Ho. reflexivity.
    - rewrite (rd_nexts_stable m st stm outm Hm Hnone k ltac:(lia)) in Hk. inversion Hk; subst.
      split; [exists []; rewrite app_nil_r; congruence|].
      intros o Ho. rewrite Ho in *. cbn [f_out] in *. congruence.
  Qed.

  (* `the same request again` does complete when the loads that fail are not more than the retries allowed: one failing
     load, one retry *)
  Lemma f_pass_retry_never_raises fails j : (forall i, fails i = true -> i = j) ->
    forall fuel b st a, (a <= j -> 1 <= b) -> f_raised (f_pass next fails fuel b st a) = false.
  Proof.
    intros Hj. induction fuel as [|f IH]; intros b st a Hb; cbn [f_pass].
    - destruct (next st) as [[? ?]|]; reflexivity.
    - destruct (next st) as [[st1 r]|]; [|reflexivity].
      destruct (fails a) eqn:Fa.
      + apply Hj in Fa. subst a. destruct b as [|b']; [specialize (Hb (Nat.le_refl _)); lia|].
        apply IH. intros H. lia.
      + rewrite f_cons_raised. apply IH. intros H. apply Hb. lia.
  Qed.
End FaultyPassP.

(* ---------- the readers of the library ---------- *)
Definition s_of {A} (st : pq_state A) : nat := let '(s, _, _, _) := st in s.

Lemma u_next_none c st : u_n c <= s_of st -> u_next c st = None.
Proof.
  destruct st as [[[s o] ca] fi]. cbn [s_of]. intros H. destruct c as [ids n cs|cs g]; cbn [u_next u_n] in *.
  - unfold off_next. destruct (Nat.leb_spec n s); [reflexivity|lia].
  - rewrite pq_next_eq. destruct (Nat.leb_spec (length (concat g)) s); [reflexivity|lia].
Qed.
Lemma u_next_advances c st st1 r : u_next c st = Some (st1, r) -> s_of st1 = s_of st + u_cs c.
Proof.
  destruct st as [[[s o] ca] fi]. destruct c as [ids n cs|cs g]; cbn [u_next u_cs s_of].
  - unfold off_next. destruct (n <=? s); intros H; inversion H. reflexivity.
  - rewrite pq_next_eq. destruct (length (concat g) <=? s); [discriminate|].
    destruct (load_groups cs ca fi) as [c1 f1]. destruct (extract_chunk cs c1) as [ch c2].
    intros H. inversion H. reflexivity.
Qed.
(* a healthy complete pass leaves every reader exhausted *)
Lemma u_nexts_exhausted c : 1 <= u_cs c -> forall fuel st, u_n c <= s_of st + fuel ->
  u_next c (fst (rd_nexts (u_next c) fuel st)) = None.
Proof.
  intros Hcs. induction fuel as [|f IH]; intros st H; cbn [rd_nexts].
  - cbn [fst]. apply u_next_none. lia.
  - destruct (u_next c st) as [[st1 r]|] eqn:E; [|cbn [fst]; exact E].
    pose proof (u_next_advances c st st1 r E) as A.
    specialize (IH st1 ltac:(lia)). destruct (rd_nexts (u_next c) f st1) as [st2 rs]. cbn [fst] in *. exact IH.
Qed.

(* THE STATEMENT under failing loads, for every kind of reader, every set of failing loads, both policies: a pass that
   ended delivered exactly the chunks of the source - every record once, in order, in chunks of at most cs - and a pass
   whose exception reached the caller delivered a prefix of them *)
Theorem fault_pass_exactly_once c fails fuel b : 1 <= u_cs c ->
  let r := f_pass (u_next c) fails fuel b (u_init c) 0 in
  (forall out, r = FDone out ->
     map snd out = chunks (u_cs c) (u_rows c) /\ concat (map snd out) = u_rows c
     /\ Forall (fun ch => 1 <= length ch <= u_cs c) (map snd out))
  /\ (exists rest, chunks (u_cs c) (u_rows c) = map snd (f_out r) ++ rest).
Proof.
  intros Hcs r.
  pose proof (u_pass_any_state c (u_init c) Hcs) as P. rewrite rd_pass_always in P.
  pose proof (u_nexts_exhausted c Hcs (u_n c) (u_init c) ltac:(lia)) as X.
  destruct (rd_nexts (u_next c) (u_n c) (u_init c)) as [stm outm] eqn:E. cbn [fst snd] in *.
  destruct (f_pass_vs_healthy (u_next c) fails fuel b (u_init c) 0 (u_n c) stm outm E X) as [[rest Hp] Hd].
  split.
  - intros out Ho. apply Hd in Ho. subst out. rewrite P. split; [reflexivity|].
    split; [apply chunks_concat; exact Hcs|apply chunks_bound; exact Hcs].
  - exists (map snd rest). rewrite <- P, Hp, map_app. reflexivity.
Qed.

(* one failing load and one retry: the pass does not raise (and, ending, delivers everything by the theorem above) *)
Theorem fault_retry_once_completes c j fuel : forall out,
  f_pass (u_next c) (fun i => i =? j) fuel 1 (u_init c) 0 <> FRaised out.
Proof.
  intros out H.
  pose proof (f_pass_retry_never_raises (u_next c) (fun i => i =? j) j
                (fun i Hi => proj1 (Nat.eqb_eq i j) Hi) fuel 1 (u_init c) 0 (fun _ => Nat.le_refl 1)) as R.
  rewrite H in R. discriminate R.
Qed.

(* ---------- the variant `halve the chunk size and rewind by the NEW size` ---------- *)
Lemma halve_ge fails : forall fuel n cs off a x,
  In x (concat (map range (f_out (f_pass_halve fails fuel n cs off a)))) -> off <= x.
Proof.
  induction fuel as [|f IH]; intros n cs off a x H; cbn [f_pass_halve] in H.
  - destruct (n <=? off); destruct H.
  - destruct (n <=? off); [destruct H|]. destruct (fails a).
    + destruct (cs <=? 1) eqn:C; [destruct H|]. apply IH in H. apply Nat.leb_gt in C.
      assert (Nat.max 1 (cs / 2) <= cs).
      { apply Nat.max_lub; [lia|]. apply Nat.div_le_upper_bound; lia. }
      lia.
    + rewrite f_out_cons in H. cbn [map concat] in H. apply in_app_or in H. destruct H as [H|H].
      * unfold range in H. cbn [fst snd] in H. apply in_seq in H. lia.
      * apply IH in H. lia.
Qed.

(* one failing load (attempt j = the j-th chunk), chunk size >= 2: the first record of the failed chunk is never
   requested, although ... *)
Theorem halve_rewind_loses_records n cs j : 2 <= cs ->
  forall fuel off a, a <= j ->
    ~ In (off + (j - a) * cs) (concat (map range (f_out (f_pass_halve (fun i => i =? j) fuel n cs off a)))).
Proof.
  intros Hcs. induction fuel as [|f IH]; intros off a Ha H; cbn [f_pass_halve] in H.
  - destruct (n <=? off); destruct H.
  - destruct (n <=? off); [destruct H|]. destruct (Nat.eqb_spec a j) as [->|Hne].
    + destruct (Nat.leb_spec cs 1); [lia|]. apply halve_ge in H.
      assert (Nat.max 1 (cs / 2) < cs).
      { apply Nat.max_lub_lt; [lia|]. apply Nat.div_lt; lia. }
      rewrite Nat.sub_diag in H. lia.
    + rewrite f_out_cons in H. cbn [map concat] in H. apply in_app_or in H. destruct H as [H|H].
      * unfold range in H. cbn [fst snd] in H. apply in_seq in H.
        assert (1 <= j - a) by lia. nia.
      * replace (off + (j - a) * cs) with ((off + cs) + (j - S a) * cs) in H
          by (replace (j - a) with (S (j - S a)) by lia; lia).
        apply (IH (off + cs) (S a)); [lia|exact H].
Qed.
(* ... the pass does not raise: nothing tells the caller *)
Theorem halve_rewind_silent n cs j : 2 <= cs ->
  forall fuel off a, f_raised (f_pass_halve (fun i => i =? j) fuel n cs off a) = false.
Proof.
  intros Hcs fuel. revert cs Hcs.
  assert (G : forall fuel cs off a, (a <= j -> 2 <= cs) ->
              f_raised (f_pass_halve (fun i => i =? j) fuel n cs off a) = false).
  { induction fuel0 as [|f IH]; intros cs off a Hc; cbn [f_pass_halve].
    - destruct (n <=? off); reflexivity.
    - destruct (n <=? off); [reflexivity|]. destruct (Nat.eqb_spec a j) as [->|Hne].
      + specialize (Hc (Nat.le_refl _)). destruct (Nat.leb_spec cs 1); [lia|]. apply IH. intros; lia.
      + rewrite f_cons_raised. apply IH. intros; apply Hc; lia. }
  intros cs Hcs off a. apply G. intros _. exact Hcs.
Qed.

(* the variant refuted: one failing load (the j-th chunk, any j with a record in it), chunk size >= 2 - the pass does not
   raise, and record j * cs, a record of the source, is in no request it makes *)
Theorem halve_rewind_refuted n cs j fuel : 2 <= cs -> j * cs < n ->
  let r := f_pass_halve (fun i => i =? j) fuel n cs 0 0 in
  f_raised r = false /\ In (j * cs) (seq 0 n) /\ ~ In (j * cs) (concat (map range (f_out r))).
Proof.
  intros Hcs Hj r. split; [apply halve_rewind_silent; exact Hcs|]. split; [apply in_seq; lia|].
  pose proof (halve_rewind_loses_records n cs j Hcs fuel 0 0 (Nat.le_0_l j)) as L.
  rewrite Nat.sub_0_r in L. exact L.
Qed.
