From Verif Require Import Prelude Chunks ChunksP ChunksBuf.

(* _load_groups reads a prefix of the remaining row groups, in order, each once, and stops as soon as
   a full chunk is buffered (it never reads ahead) *)
Lemma load_groups_prefix {A} cs (file cache : list (list A)) :
  let '(c1, f1) := load_groups cs cache file in
  exists k, k <= length file /\ c1 = cache ++ firstn k file /\ f1 = skipn k file /\
            (k = 0 \/ cache_size (cache ++ firstn (k - 1) file) < cs).
Proof.
  revert cache. induction file as [|g rest IH]; intros cache; cbn [load_groups].
  - exists 0. rewrite app_nil_r. repeat split; auto.
  - destruct (Nat.ltb_spec (cache_size cache) cs) as [Hlt|Hge].
    + specialize (IH (cache ++ [g])). destruct (load_groups cs (cache ++ [g]) rest) as [c1 f1].
      destruct IH as (k & Hk & Hc & Hf & Hmin). exists (S k). cbn [length firstn skipn].
      split; [lia|]. split; [rewrite Hc, <- app_assoc; reflexivity|]. split; [exact Hf|].
      right. replace (S k - 1) with k by lia.
      destruct Hmin as [->|Hmin]; [cbn [firstn]; rewrite app_nil_r; exact Hlt|].
      destruct k as [|k']; [cbn [firstn]; rewrite app_nil_r; exact Hlt|].
      cbn [firstn]. replace (S k' - 1) with k' in Hmin by lia.
      rewrite <- app_assoc in Hmin. exact Hmin.
    + exists 0. cbn [firstn skipn]. rewrite app_nil_r. repeat split; auto. lia.
Qed.

Lemma in_skipn' {A} (x : A) k : forall l, In x (skipn k l) -> In x l.
Proof.
  induction k as [|k IH]; intros l H; [exact H|]. destruct l as [|y t]; [exact H|].
  right. apply IH. exact H.
Qed.

(* buffer bound of one load: never more than a chunk plus one row group *)
Lemma load_groups_bound {A} cs m (file cache : list (list A)) :
  Forall (fun g => length g <= m) file -> cache_size cache < cs + m ->
  cache_size (fst (load_groups cs cache file)) < cs + m.
Proof.
  revert cache. induction file as [|g rest IH]; intros cache Hm Hc; cbn [load_groups]; [exact Hc|].
  inversion Hm as [|g' r' Hg Hr]; subst.
  destruct (Nat.ltb_spec (cache_size cache) cs) as [Hlt|Hge]; [|exact Hc].
  apply IH; [exact Hr|]. unfold cache_size in *. rewrite concat_app, app_length. cbn [concat].
  rewrite app_nil_r. lia.
Qed.

Lemma extract_chunk_rest_size {A} cs (cache : list (list A)) :
  cache_size (snd (extract_chunk cs cache)) = cache_size cache - cs.
Proof.
  pose proof (extract_chunk_spec cs cache [] (or_intror eq_refl)) as X.
  destruct (extract_chunk cs cache) as [chunk c2]. destruct X as [_ X2].
  rewrite !app_nil_r in X2. cbn [snd]. unfold cache_size. rewrite X2, skipn_length. reflexivity.
Qed.

Lemma parquet_peaks_bound {A} m fuel : forall s n cs (cache file : list (list A)),
  1 <= cs -> Forall (fun g => length g <= m) file -> cache_size cache < cs + m ->
  Forall (fun p => p < cs + m) (parquet_peaks fuel s n cs cache file).
Proof.
  induction fuel as [|f IH]; intros s n cs cache file Hcs Hm Hc; cbn [parquet_peaks]; [constructor|].
  destruct (n <=? s); [constructor|].
  pose proof (load_groups_bound cs m file cache Hm Hc) as B.
  pose proof (load_groups_prefix cs file cache) as P.
  destruct (load_groups cs cache file) as [c1 f1]. cbn [fst] in B.
  destruct P as (k & _ & _ & Hf & _).
  pose proof (extract_chunk_rest_size cs c1) as R.
  destruct (extract_chunk cs c1) as [chunk c2]. cbn [snd] in R.
  constructor; [exact B|]. apply IH; [exact Hcs| |lia].
  subst f1. rewrite Forall_forall in *. intros g Hg. apply Hm. eapply in_skipn'. exact Hg.
Qed.

(* the reader never buffers more than one chunk plus one row group, whatever the row-group layout *)
Theorem parquet_buffer_bound {A} cs m (groups : list (list A)) :
  1 <= cs -> Forall (fun g => length g <= m) groups ->
  Forall (fun p => p < cs + m) (parquet_buffer_trace cs groups).
Proof.
  intros Hcs Hm. unfold parquet_buffer_trace. apply parquet_peaks_bound; [exact Hcs|exact Hm|].
  unfold cache_size. cbn. lia.
Qed.

Lemma parquet_loads_total {A} fuel : forall s n cs (cache file : list (list A)),
  fold_right Nat.add 0 (parquet_loads fuel s n cs cache file) <= length file.
Proof.
  induction fuel as [|f IH]; intros s n cs cache file; cbn [parquet_loads]; [cbn; lia|].
  destruct (n <=? s); [cbn; lia|].
  pose proof (load_groups_prefix cs file cache) as P.
  destruct (load_groups cs cache file) as [c1 f1]. destruct P as (k & Hk & _ & Hf & _).
  destruct (extract_chunk cs c1) as [chunk c2]. cbn [fold_right].
  specialize (IH (s + cs) n cs c2 f1). subst f1. rewrite skipn_length in *. lia.
Qed.

(* every row group is requested at most once over the whole pass *)
Theorem parquet_each_group_once {A} cs (groups : list (list A)) :
  fold_right Nat.add 0 (parquet_load_trace cs groups) <= length groups.
Proof. apply parquet_loads_total. Qed.

Lemma parquet_reqs_consecutive {A} fuel : forall s n cs off (cache file : list (list A)),
  concat (parquet_reqs fuel s n cs off cache file)
  = seq off (fold_right Nat.add 0 (parquet_loads fuel s n cs cache file)).
Proof.
  induction fuel as [|f IH]; intros s n cs off cache file; cbn [parquet_reqs parquet_loads]; [reflexivity|].
  destruct (n <=? s); [reflexivity|].
  destruct (load_groups cs cache file) as [c1 f1]. destruct (extract_chunk cs c1) as [chunk c2].
  cbn [concat fold_right]. rewrite IH, <- seq_app. reflexivity.
Qed.

(* over the whole pass the requested row-group indices are 0, 1, 2, ... in order, none twice, none skipped,
   at most the groups of the file *)
Theorem parquet_requests_in_order {A} cs (groups : list (list A)) :
  exists k, k <= length groups /\ concat (parquet_request_trace cs groups) = seq 0 k.
Proof.
  exists (fold_right Nat.add 0 (parquet_load_trace cs groups)). split.
  - apply parquet_each_group_once.
  - unfold parquet_request_trace, parquet_load_trace. apply parquet_reqs_consecutive.
Qed.

(* a step requests nothing when a full chunk is already buffered, and otherwise stops at the first group
   that fills the chunk: no read-ahead *)
Theorem parquet_no_read_ahead {A} cs (file cache : list (list A)) :
  let '(c1, f1) := load_groups cs cache file in
  let k := length file - length f1 in
  c1 = cache ++ firstn k file /\ f1 = skipn k file /\
  (k = 0 \/ cache_size (cache ++ firstn (k - 1) file) < cs).
Proof.
  pose proof (load_groups_prefix cs file cache) as P.
  destruct (load_groups cs cache file) as [c1 f1]. destruct P as (k & Hk & Hc & Hf & Hmin).
  assert (E : length file - length f1 = k) by (subst f1; rewrite skipn_length; lia).
  cbv zeta. rewrite E. auto.
Qed.
