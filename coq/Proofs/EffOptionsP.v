(* C07 — effective options of a measurement in a long-lived process: proofs for Model/EffOptions.v *)
From Verif Require Import Prelude EffOptions.
Set Implicit Arguments.

Section SlotsP.
  Variable V : Type.
  Notation conf := (conf V).

  Lemma fill_length : forall (r : list V) (c : conf), length (fill r c) = length r.
  Proof.
    induction r as [|d r IH]; intros c; simpl; [reflexivity|].
    destruct c as [|o c]; simpl; [reflexivity|]. now rewrite IH.
  Qed.

  Lemma fill_nil : forall r : list V, fill r [] = r.
  Proof. destruct r; reflexivity. Qed.

  (* updating twice with the same options is updating once *)
  Lemma fill_idem : forall (r : list V) (c : conf), fill (fill r c) c = fill r c.
  Proof.
    induction r as [|d r IH]; intros c; simpl; [reflexivity|].
    destruct c as [|o c]; simpl; [reflexivity|].
    rewrite IH. destruct o; reflexivity.
  Qed.

  (* a configuration that sets every slot overrides whatever the record held *)
  Lemma fill_all_set : forall (r r' : list V) (c : conf),
    all_set c = true -> length r = length r' -> (length r <= length c)%nat -> fill r c = fill r' c.
  Proof.
    induction r as [|d r IH]; intros r' c Hs Hl Hc.
    - destruct r'; [reflexivity|discriminate].
    - destruct r' as [|d' r']; [discriminate|].
      destruct c as [|o c]; simpl in *; [lia|].
      apply andb_true_iff in Hs. destruct Hs as [Ho Hs].
      destruct o as [v|]; [|discriminate]. simpl.
      f_equal. apply IH; [assumption|lia|lia].
  Qed.

  (* ---- any process whose output is a function of the configuration ---- *)
  Theorem function_of_conf_history_independent :
    forall (St : Type) (stp : St -> conf -> St * list V) (f : conf -> list V),
      (forall s c, snd (stp s c) = f c) ->
      forall s0 h c, gused stp s0 h c = f c /\ gused stp s0 h c = gused stp s0 [] c.
  Proof.
    intros St stp f H s0 h c. unfold gused. split.
    - apply H.
    - simpl. now rewrite !H.
  Qed.

  (* ---- NewRecord ---- *)
  Theorem new_record_history_independent : forall (ds : list V) h c,
    used NewRecord ds h c = fill ds c.
  Proof. reflexivity. Qed.

  (* ---- CopyShared: the shared record is never written ---- *)
  Lemma copy_shared_invariant : forall (ds s : list V) h, run CopyShared ds s h = s.
  Proof. intros ds s h. revert s. induction h as [|c t IH]; intros s; simpl; [reflexivity|apply IH]. Qed.

  Theorem copy_shared_history_independent : forall (ds : list V) h c,
    used CopyShared ds h c = fill ds c.
  Proof. intros. unfold used. rewrite copy_shared_invariant. reflexivity. Qed.

  (* both: what is used after any history is what a process that has done nothing else uses *)
  Theorem effective_options_history_independent : forall p (ds : list V) h c,
    p <> AliasShared -> used p ds h c = fill ds c /\ used p ds h c = used_fresh p ds c.
  Proof.
    intros p ds h c Hp. unfold used_fresh. destruct p.
    - rewrite !new_record_history_independent. split; reflexivity.
    - rewrite !copy_shared_history_independent. split; reflexivity.
    - congruence.
  Qed.

  (* hence any result computed from the options used *)
  Theorem measurement_options_history_independent :
    forall (R : Type) (count : list V -> R) p (ds : list V) h c,
      p <> AliasShared -> count (used p ds h c) = count (used_fresh p ds c).
  Proof. intros. f_equal. now apply effective_options_history_independent. Qed.

  (* ---- AliasShared ---- *)
  Lemma alias_run_fold : forall (ds s : list V) h, run AliasShared ds s h = fold_left (@fill V) h s.
  Proof. intros ds s h. revert s. induction h as [|c t IH]; intros s; simpl; [reflexivity|apply IH]. Qed.

  (* every slot holds the last value any measurement set, the default only if none ever did *)
  Theorem alias_used_fold : forall (ds : list V) h c,
    used AliasShared ds h c = fill (fold_left (@fill V) h ds) c.
  Proof. intros. unfold used. rewrite alias_run_fold. reflexivity. Qed.

  Lemma fold_fill_length : forall h (s : list V), length (fold_left (@fill V) h s) = length s.
  Proof. induction h as [|c t IH]; intros s; simpl; [reflexivity|]. rewrite IH. apply fill_length. Qed.

  (* invisible to a measurement that sets every option ... *)
  Theorem alias_all_set_independent : forall (ds : list V) h c,
    all_set c = true -> (length ds <= length c)%nat -> used AliasShared ds h c = fill ds c.
  Proof.
    intros ds h c Hs Hl. rewrite alias_used_fold.
    apply fill_all_set; [assumption|apply fold_fill_length|rewrite fold_fill_length; assumption].
  Qed.

  (* ... and to histories whose measurements all carry the same options *)
  Lemma fold_fill_same : forall h (s : list V) c,
    Forall (eq c) h -> fill (fold_left (@fill V) h s) c = fill s c.
  Proof.
    induction h as [|c' t IH]; intros s c HF; simpl; [reflexivity|].
    inversion HF as [|x l Hx Ht]; subst. rewrite IH by assumption. apply fill_idem.
  Qed.

  Theorem alias_same_options_invisible : forall (ds : list V) h c,
    Forall (eq c) h -> used AliasShared ds h c = fill ds c.
  Proof. intros. rewrite alias_used_fold. now apply fold_fill_same. Qed.
End SlotsP.

(* the two-step history: explicit value, then None *)
Theorem alias_shared_refuted :
  exists (ds : list nat) (h : list (conf nat)) (c : conf nat),
    used AliasShared ds h c <> used_fresh AliasShared ds c /\ used AliasShared ds h c <> fill ds c.
Proof.
  exists [50%nat], [[Some 12%nat]], [None]. vm_compute. split; intro H; discriminate H.
Qed.

(* the same on the tied instance: weighting on, resolution 12 and then unset - the result key differs from the one
   of the configuration *)
Theorem alias_shared_refuted_key :
  exists (h : list (conf oval)) (c : conf oval),
    key_eqb (result_key (used AliasShared c07_defaults h c)) (conf_key c) = false /\
    key_eqb (result_key (used NewRecord c07_defaults h c)) (conf_key c) = true /\
    key_eqb (result_key (used CopyShared c07_defaults h c)) (conf_key c) = true.
Proof.
  exists [[Some (Some ((-1) # 1)); Some (Some (12 # 1))]], [Some (Some ((-1) # 1)); None].
  vm_compute. repeat split.
Qed.

(* the result key is a function of the configuration under the two sound policies *)
Theorem result_key_history_independent : forall p h c,
  p <> AliasShared -> result_key (used p c07_defaults h c) = conf_key c.
Proof.
  intros p h c Hp. unfold conf_key. f_equal. now apply effective_options_history_independent.
Qed.

(* the exposure function of the model file marks exactly the steps at which AliasShared uses another key *)
Lemma alias_exposed_from_spec : forall h s,
  alias_exposed_from s h =
  (fix go (s : list oval) (h : list (conf oval)) : list bool :=
     match h with
     | [] => []
     | c :: t => negb (key_eqb (result_key (snd (step AliasShared c07_defaults s c))) (conf_key c))
                 :: go (fst (step AliasShared c07_defaults s c)) t
     end) s h.
Proof. induction h as [|c t IH]; intros s; simpl; [reflexivity|]. now rewrite IH. Qed.
