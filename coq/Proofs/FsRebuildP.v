(* C08 — proofs about Model/FsRebuild.v: a rebuild of a tree cache over an already valid older state, the process
   dying after ANY number of system calls, a later measurement asking for ANY binning.
   Positive: with the order "invalidate the marker, write the trees, write the marker" — for forced and for implicit
   rebuilds alike — every crash prefix is safe for every later request, from every valid older state, also through a
   CHAIN of crashed rebuilds, and the complete run leaves a cache valid for the requested binning.
   Negative, for ALL binnings X <> Y with bins: a rebuild that leaves the old marker in place while it rewrites the
   trees has a crash point after which the request X silently uses trees of Y; a rebuild that writes the marker before
   the trees has one after which the request Y silently uses trees of X. *)
From Verif Require Import Prelude FsCrash FsCrashP FsRebuild.
Open Scope nat_scope.
Local Arguments Nat.eqb : simpl never.

(* ------------------------------------------------------------------ the two fixed forms are disciplines *)
Lemma rebuild_seq_safe had i b e : rebuild_seq safe_order had i b e = build_fix had i b e.
Proof. unfold rebuild_seq, safe_order, build_fix, build_cur. simpl. rewrite app_nil_r. reflexivity. Qed.

Lemma rebuild_seq_keep had i b e : rebuild_seq keep_marker_order had i b e = build_cur i b e.
Proof. unfold rebuild_seq, keep_marker_order, build_cur. simpl. rewrite app_nil_r. reflexivity. Qed.

Lemma flat_map_ext_all {A B} (f g : A -> list B) l : (forall x, f x = g x) -> flat_map f l = flat_map g l.
Proof. intro H. induction l as [|x l IH]; simpl; [reflexivity|]. rewrite H, IH. reflexivity. Qed.

Theorem rebuild_safe_order_eq (d : discipline) s ies b force :
  d force = safe_order -> ops_rebuild d s ies b force = ops_build true s ies b force.
Proof.
  intro Hd. unfold ops_rebuild, ops_build. apply flat_map_ext_all. intro ie.
  unfold ops_rebuild_patch, ops_build_patch. rewrite Hd, rebuild_seq_safe. reflexivity.
Qed.

Theorem rebuild_keep_marker_eq (d : discipline) s ies b force :
  d force = keep_marker_order -> ops_rebuild d s ies b force = ops_build false s ies b force.
Proof.
  intro Hd. unfold ops_rebuild, ops_build. apply flat_map_ext_all. intro ie.
  unfold ops_rebuild_patch, ops_build_patch. rewrite Hd, rebuild_seq_keep. reflexivity.
Qed.

(* ------------------------------------------------------------------ the valid older state is a consistent cache *)
Lemma valid_patch_inv s x i : valid_patch_b s x i = true ->
  s (PBin i) = Some (marker_of x) /\ s (PTrees i) = Some (TreesF (Some x)).
Proof.
  unfold valid_patch_b. intro H. apply andb_true_iff in H. destruct H as [H1 H2].
  apply ocontent_beq_eq in H1. apply ocontent_beq_eq in H2. auto.
Qed.

Lemma decode_marker_of x : decode (Some (marker_of x)) = Some x.
Proof. unfold marker_of. destruct (x =? 0) eqn:E; simpl; [apply Nat.eqb_eq in E; subst|]; reflexivity. Qed.

Lemma valid_patch_consistent s x i : valid_patch_b s x i = true -> consistent_b s i = true.
Proof.
  intro H. apply valid_patch_inv in H. destruct H as [Hb Ht]. unfold consistent_b.
  rewrite Hb, decode_marker_of, Ht. apply Nat.eqb_refl.
Qed.

Lemma no_trees_consistent s i : no_trees_b s i = true -> consistent_b s i = true.
Proof.
  unfold no_trees_b, consistent_b. intro H. apply andb_true_iff in H. destruct H as [H _].
  destruct (s (PBin i)); [discriminate|reflexivity].
Qed.

Lemma earlier_state_consistent s ids earlier :
  earlier_state_b s ids earlier = true -> forallb (consistent_b s) ids = true.
Proof.
  unfold earlier_state_b. intro H. apply forallb_forall. intros i Hi.
  destruct earlier as [x|]; rewrite forallb_forall in H; specialize (H i Hi);
    [eapply valid_patch_consistent; exact H|apply no_trees_consistent; exact H].
Qed.

(* ------------------------------------------------------------------ safe: invalidate first, trees, marker last *)
(* per patch, for every later request: a loud failure or trees built for that request *)
Theorem rebuild_safe (d : discipline) s0 ies b force k i :
  d force = safe_order -> NoDup (map fst ies) -> consistent_b s0 i = true ->
  forall b', let s := apply (firstn k (ops_rebuild d s0 ies b force)) s0 in
             use_trees s i b' = UErr \/ use_trees s i b' = Used b'.
Proof. intros Hd Hnd Hc b'. rewrite (rebuild_safe_order_eq d s0 ies b force Hd). apply crash_safe_fix; assumption. Qed.

(* the statement of the property: the older state holds (trees X, marker X) on every patch (or no trees at all), the
   rebuild asks for Y, forced or not; after a crash at ANY point a measurement with ANY binning b' — X again, Y, or a
   third — fails loudly or uses, on every patch, trees built for b' *)
Theorem rebuild_over_valid_safe (d : discipline) s0 ids ies (earlier : option nat) Y force k b' :
  d force = safe_order -> NoDup (map fst ies) -> earlier_state_b s0 ids earlier = true ->
  let s := apply (firstn k (ops_rebuild d s0 ies Y force)) s0 in
  measure s ids b' = Err \/ measure s ids b' = Ok (map (fun _ => b') ids).
Proof.
  intros Hd Hnd He. rewrite (rebuild_safe_order_eq d s0 ies Y force Hd).
  apply crash_safe_fix_measure; [assumption|]. eapply earlier_state_consistent; exact He.
Qed.

(* ------------------------------------------------------------------ recovery that knows the bin counts *)
Lemma use_trees_n_refines nb s i b :
  use_trees s i b = UErr \/ use_trees s i b = Used b -> use_trees_n nb s i b = use_trees s i b.
Proof.
  unfold use_trees, use_trees_n. destruct (decode (s (PBin i))) as [b'|]; [|reflexivity].
  destruct (b' =? b); [|reflexivity]. destruct (s (PTrees i)) as [[]|]; try reflexivity.
  destruct t as [bt|]; [|reflexivity]. destruct (bt =? b) eqn:E; [reflexivity|].
  destruct ((bt =? 0) || (b =? 0)); [reflexivity|]. intros [H|H]; [discriminate|].
  injection H as H. subst. rewrite Nat.eqb_refl in E. discriminate.
Qed.

Lemma measure_n_refines nb s ids b :
  (forall i, In i ids -> use_trees s i b = UErr \/ use_trees s i b = Used b) -> measure_n nb s ids b = measure s ids b.
Proof.
  intro H. unfold measure_n, measure.
  assert (E : map (fun i => use_trees_n nb s i b) ids = map (fun i => use_trees s i b) ids).
  { apply map_ext_in. intros i Hi. apply use_trees_n_refines. apply H. exact Hi. }
  rewrite E. reflexivity.
Qed.

Theorem rebuild_over_valid_safe_n nb (d : discipline) s0 ids ies (earlier : option nat) Y force k b' :
  d force = safe_order -> NoDup (map fst ies) -> earlier_state_b s0 ids earlier = true ->
  let s := apply (firstn k (ops_rebuild d s0 ies Y force)) s0 in
  measure_n nb s ids b' = Err \/ measure_n nb s ids b' = Ok (map (fun _ => b') ids).
Proof.
  intros Hd Hnd He s. rewrite measure_n_refines.
  - apply rebuild_over_valid_safe with (earlier := earlier); assumption.
  - intros i Hi. apply rebuild_safe; [assumption|assumption|].
    pose proof (earlier_state_consistent s0 ids earlier He) as Hc. rewrite forallb_forall in Hc. apply Hc. exact Hi.
Qed.

(* what the harness evaluates: with the repaired model no crash point of any rebuild workload, under any later
   request and any table of bin counts, is of class 1 (class 0 = error, class 4 = the result of a fresh cache) *)
Lemma code3_zero a b c : code [a; b; c] = 0 -> a = true /\ b = true /\ c = true.
Proof. destruct a, b, c; unfold code; simpl; intro H; try discriminate; auto. Qed.

Lemma nodup_b_spec l : nodup_b l = true -> NoDup l.
Proof.
  induction l as [|x l IH]; simpl; intro H; [constructor|]. apply andb_true_iff in H. destruct H as [H1 H2].
  constructor; [|apply IH; exact H2]. intro Hin. apply negb_true_iff in H1.
  assert (existsb (Nat.eqb x) l = true) by (apply existsb_exists; exists x; split; [exact Hin|apply Nat.eqb_refl]).
  congruence.
Qed.

Lemma nlist_eqb_refl l : nlist_eqb l l = true.
Proof. apply nlist_eqb_eq. reflexivity. Qed.

Theorem rebuild_class_safe nb l ies b force (earlier : option nat) k req :
  c08_rebuild_hyp (WBuild l ies b force) earlier = 0 ->
  rebuild_class true nb (WBuild l ies b force) k req = 0 \/ rebuild_class true nb (WBuild l ies b force) k req = 4.
Proof.
  intro H. unfold c08_rebuild_hyp in H. apply code3_zero in H. destruct H as [He [Hnd _]]. apply nodup_b_spec in Hnd.
  unfold rebuild_class. simpl w_s0. simpl w_ops.
  rewrite <- (rebuild_safe_order_eq d_always (fs_of l) ies b force eq_refl).
  destruct (rebuild_over_valid_safe_n nb d_always (fs_of l) (ids_of (fs_of l)) ies earlier b force k req eq_refl Hnd He) as [E|E];
    rewrite E; unfold classify; [left; reflexivity|right]. rewrite nlist_eqb_refl. reflexivity.
Qed.

(* ------------------------------------------------------------------ the complete run leaves a valid cache *)
Lemma rebuild_patch_touch d s b force ie :
  Forall (fun o => op_path o = PBin (fst ie) \/ op_path o = PTrees (fst ie)) (ops_rebuild_patch d s b force ie).
Proof.
  unfold ops_rebuild_patch. destruct (needs_build s (fst ie) b force); [|constructor].
  unfold rebuild_seq. induction (d force) as [|ph r IH]; simpl; [constructor|]. apply Forall_app. split; [|exact IH].
  destruct ph; simpl.
  - destruct (present (s (PBin (fst ie)))); repeat constructor.
  - eapply Forall_impl; [|apply trees_ops_touch]. simpl. auto.
  - eapply Forall_impl; [|apply marker_ops_touch]. simpl. auto.
Qed.

Lemma rebuild_rest_untouched d s0 b force i : forall ies, ~ In i (map fst ies) -> forall s,
  apply (ops_rebuild d s0 ies b force) s (PBin i) = s (PBin i) /\ apply (ops_rebuild d s0 ies b force) s (PTrees i) = s (PTrees i).
Proof.
  intros ies Hni s. split; apply apply_untouched; apply Forall_forall; intros o Ho;
    apply in_flat_map in Ho; destruct Ho as [[j e] [Hin Ho]];
    pose proof (rebuild_patch_touch d s0 b force (j, e)) as Ht; rewrite Forall_forall in Ht;
    assert (j <> i) by (intro; subst; apply Hni; apply in_map_iff; exists (i, e); auto);
    destruct (Ht o Ho) as [E|E]; rewrite E; simpl; congruence.
Qed.

(* seen from patch i, the catalog-wide rebuild is patch i's own operation list *)
Lemma rebuild_full_patch d s0 b force i e : forall ies, NoDup (map fst ies) -> In (i, e) ies -> forall s,
  apply (ops_rebuild d s0 ies b force) s (PBin i) = apply (ops_rebuild_patch d s0 b force (i, e)) s (PBin i) /\
  apply (ops_rebuild d s0 ies b force) s (PTrees i) = apply (ops_rebuild_patch d s0 b force (i, e)) s (PTrees i).
Proof.
  induction ies as [|[j e'] ies IH]; intros Hnd Hin s; [contradiction|].
  simpl map in Hnd. inversion Hnd as [|? ? Hnotin Hnd']; subst.
  change (ops_rebuild d s0 ((j, e') :: ies) b force) with (ops_rebuild_patch d s0 b force (j, e') ++ ops_rebuild d s0 ies b force).
  rewrite apply_app. destruct Hin as [Heq|Hin].
  - injection Heq as -> ->. apply rebuild_rest_untouched. exact Hnotin.
  - assert (Hne : j <> i) by (intro; subst; apply Hnotin; apply in_map_iff; exists (i, e); auto).
    destruct (IH Hnd' Hin (apply (ops_rebuild_patch d s0 b force (j, e')) s)) as [E1 E2]. rewrite E1, E2.
    pose proof (rebuild_patch_touch d s0 b force (j, e')) as Ht. simpl fst in Ht.
    assert (U : forall q, (q = PBin i \/ q = PTrees i) -> apply (ops_rebuild_patch d s0 b force (j, e')) s q = s q).
    { intros q Hq. apply apply_untouched. eapply Forall_impl; [|exact Ht]. simpl. intros o [E|E]; rewrite E; destruct Hq; subst; congruence. }
    split; apply apply_cong; apply U; auto.
Qed.

Lemma marker_ops_result i b s : apply (marker_ops i b) s (PBin i) = Some (marker_of b).
Proof.
  unfold marker_ops, marker_of. destruct (b =? 0); simpl; rewrite Nat.eqb_refl; reflexivity.
Qed.

Lemma safe_patch_final had i b e s :
  let s' := apply (build_fix had i b e) s in
  s' (PBin i) = Some (marker_of b) /\ s' (PTrees i) = Some (TreesF (Some b)).
Proof.
  unfold build_fix, build_cur. rewrite !apply_app. split.
  - apply marker_ops_result.
  - rewrite apply_untouched; [apply trees_ops_result|]. apply (touch_other _ (PBin i)); [discriminate|apply marker_ops_touch].
Qed.

Theorem rebuild_complete (d : discipline) s0 ies b force i e :
  d force = safe_order -> NoDup (map fst ies) -> In (i, e) ies -> consistent_b s0 i = true ->
  let s := apply (ops_rebuild d s0 ies b force) s0 in
  decode (s (PBin i)) = Some b /\ s (PTrees i) = Some (TreesF (Some b)).
Proof.
  intros Hd Hnd Hin Hc. destruct (rebuild_full_patch d s0 b force i e ies Hnd Hin s0) as [E1 E2].
  cbv zeta. rewrite E1, E2. unfold ops_rebuild_patch. simpl fst. simpl snd. rewrite Hd, rebuild_seq_safe.
  destruct (needs_build s0 i b force) eqn:En.
  - destruct (safe_patch_final (present (s0 (PBin i))) i b e s0) as [F1 F2]. rewrite F1, F2, decode_marker_of. auto.
  - simpl. unfold needs_build in En. apply orb_false_iff in En. destruct En as [_ En].
    apply consistent_b_spec in Hc. unfold consistent in Hc.
    destruct (decode (s0 (PBin i))) as [b'|]; [|discriminate].
    apply negb_false_iff, Nat.eqb_eq in En. subst. auto.
Qed.

(* ... and the next measurement with the requested binning uses it, on every patch *)
Theorem rebuild_complete_measure (d : discipline) s0 ies b force :
  d force = safe_order -> NoDup (map fst ies) -> forallb (consistent_b s0) (map fst ies) = true ->
  measure (apply (ops_rebuild d s0 ies b force) s0) (map fst ies) b = Ok (map (fun _ => b) (map fst ies)).
Proof.
  intros Hd Hnd Hc. set (s := apply (ops_rebuild d s0 ies b force) s0).
  assert (U : forall i, In i (map fst ies) -> use_trees s i b = Used b).
  { intros i Hi. apply in_map_iff in Hi. destruct Hi as [[i' e] [Hfst Hin]]. simpl in Hfst. subst i'.
    rewrite forallb_forall in Hc.
    destruct (rebuild_complete d s0 ies b force i e Hd Hnd Hin (Hc i (in_map fst _ _ Hin))) as [F1 F2]. fold s in F1, F2.
    unfold use_trees. rewrite F1, Nat.eqb_refl, F2, Nat.eqb_refl. reflexivity. }
  unfold measure. revert U. generalize (map fst ies) as ids. induction ids as [|i ids IH]; intro U; [reflexivity|].
  simpl map. simpl existsb. rewrite (U i (or_introl eq_refl)). simpl.
  assert (U' : forall j, In j ids -> use_trees s j b = Used b) by (intros j Hj; apply U; right; exact Hj).
  specialize (IH U'). destruct (existsb _ _); [discriminate|]. injection IH as IH. rewrite IH. reflexivity.
Qed.

(* ------------------------------------------------------------------ a chain of crashed rebuilds *)
Lemma good_ext s s' i : s (PBin i) = s' (PBin i) -> s (PTrees i) = s' (PTrees i) -> good s i -> good s' i.
Proof. unfold good. intros -> ->. auto. Qed.

(* like FsCrashP.fix_patch_good, from a state that is only `good` (what an earlier crash may have left) *)
Lemma fix_patch_good_from_good s0 i b e k :
  good s0 i -> good (apply (firstn k (build_fix (present (s0 (PBin i))) i b e)) s0) i.
Proof.
  intro H0. unfold build_fix. destruct (s0 (PBin i)) as [c|] eqn:Hc; simpl present; cbv iota.
  - destruct k as [|k]; [simpl; exact H0|].
    change (firstn (S k) ([Del (PBin i)] ++ build_cur i b e)) with (Del (PBin i) :: firstn k (build_cur i b e)).
    change (apply (Del (PBin i) :: firstn k (build_cur i b e)) s0) with (apply (firstn k (build_cur i b e)) (apply1 s0 (Del (PBin i)))).
    apply cur_from_nomarker. simpl. rewrite Nat.eqb_refl. reflexivity.
  - simpl app. apply cur_from_nomarker. exact Hc.
Qed.

Lemma crashed_rebuild_keeps_good s0 ies b force k i :
  NoDup (map fst ies) -> good s0 i -> good (apply (firstn k (ops_build true s0 ies b force)) s0) i.
Proof.
  intros Hnd Hg. destruct (build_lift true s0 b force i ies Hnd k s0) as [l' [Hl' [Hb Ht]]].
  unfold ops_build. apply (good_ext (apply l' s0)); [symmetry; exact Hb|symmetry; exact Ht|].
  destruct Hl' as [->|[e [k' [_ ->]]]]; [exact Hg|].
  unfold ops_build_patch. simpl fst. simpl snd. destruct (needs_build s0 i b force).
  - apply fix_patch_good_from_good. exact Hg.
  - destruct k'; simpl; exact Hg.
Qed.

(* any number of rebuilds, each for its own binning, forced or not, each dying after any number of system calls,
   each starting from what the previous one left: still every later request fails loudly or uses its own trees *)
Theorem rebuild_chain_safe (d : discipline) ies s0 i (l : list attempt) :
  (forall force, d force = safe_order) -> NoDup (map fst ies) -> consistent_b s0 i = true ->
  forall b', use_trees (run_attempts d ies s0 l) i b' = UErr \/ use_trees (run_attempts d ies s0 l) i b' = Used b'.
Proof.
  intros Hd Hnd Hc. apply consistent_b_spec, consistent_good in Hc.
  assert (G : good (run_attempts d ies s0 l) i).
  { revert s0 Hc. induction l as [|[[b force] k] l IH]; intros s0 Hg; [exact Hg|].
    simpl. apply IH. rewrite (rebuild_safe_order_eq d s0 ies b force (Hd force)).
    apply crashed_rebuild_keeps_good; assumption. }
  apply good_safe. exact G.
Qed.

(* ------------------------------------------------------------------ unsafe: the old marker stays while the trees are rewritten *)
(* for ALL binnings X <> Y with bins, any patch valid for X, any number of write calls of the pickle, forced or implicit,
   whatever follows: the crash right after the last write of trees.pkl leaves marker X over trees Y, and the request X
   uses them without an error *)
Theorem keep_marker_stale (d : discipline) (s0 : fs) (X Y i e : nat) (force : bool) (rest : list (nat * nat)) :
  X <> 0 -> Y <> 0 -> X <> Y -> valid_patch_b s0 X i = true -> d force = keep_marker_order ->
  let ops := ops_rebuild d s0 ((i, e) :: rest) Y force in
  use_trees (apply (firstn (S (S e)) ops) s0) i X = Used Y.
Proof.
  intros HX HY HXY Hv Hd. apply valid_patch_inv in Hv. destruct Hv as [Hb Ht].
  assert (Em : marker_of X = BinF (BWhole X)).
  { unfold marker_of. destruct (X =? 0) eqn:E; [apply Nat.eqb_eq in E; contradiction|reflexivity]. }
  rewrite Em in Hb.
  cbv zeta.
  change (ops_rebuild d s0 ((i, e) :: rest) Y force) with (ops_rebuild_patch d s0 Y force (i, e) ++ ops_rebuild d s0 rest Y force).
  unfold ops_rebuild_patch. simpl fst. simpl snd.
  assert (En : needs_build s0 i Y force = true).
  { unfold needs_build. rewrite Hb. simpl. apply orb_true_iff. right. apply negb_true_iff. apply Nat.eqb_neq. exact HXY. }
  rewrite En, Hd, rebuild_seq_keep. unfold build_cur. rewrite <- app_assoc.
  assert (Hl : length (trees_ops i Y e) = S (S e)).
  { unfold trees_ops. rewrite app_length, repeat_length. simpl. lia. }
  rewrite firstn_app, Hl, Nat.sub_diag. simpl firstn at 2. rewrite app_nil_r, <- Hl, firstn_all.
  unfold use_trees. rewrite apply_untouched by (apply (touch_other _ (PTrees i)); [discriminate|apply trees_ops_touch]).
  rewrite Hb. simpl decode. cbv iota beta. rewrite Nat.eqb_refl, trees_ops_result.
  destruct (Y =? X) eqn:E1; [apply Nat.eqb_eq in E1; congruence|].
  destruct (Y =? 0) eqn:E2; [apply Nat.eqb_eq in E2; congruence|].
  destruct (X =? 0) eqn:E3; [apply Nat.eqb_eq in E3; congruence|]. reflexivity.
Qed.

(* the marker written before the trees (even after an invalidation): the crash right after the marker is complete
   leaves marker Y over trees X, and the request Y uses them *)
Theorem marker_before_trees_stale (d : discipline) (s0 : fs) (X Y i e : nat) (force : bool) (rest : list (nat * nat)) :
  X <> 0 -> Y <> 0 -> X <> Y -> valid_patch_b s0 X i = true -> d force = [PhInval; PhMarker; PhTrees] ->
  let ops := ops_rebuild d s0 ((i, e) :: rest) Y force in
  use_trees (apply (firstn 4 ops) s0) i Y = Used X.
Proof.
  intros HX HY HXY Hv Hd. apply valid_patch_inv in Hv. destruct Hv as [Hb Ht].
  assert (Em : marker_of X = BinF (BWhole X)).
  { unfold marker_of. destruct (X =? 0) eqn:E; [apply Nat.eqb_eq in E; contradiction|reflexivity]. }
  rewrite Em in Hb. cbv zeta.
  change (ops_rebuild d s0 ((i, e) :: rest) Y force) with (ops_rebuild_patch d s0 Y force (i, e) ++ ops_rebuild d s0 rest Y force).
  unfold ops_rebuild_patch. simpl fst. simpl snd.
  assert (En : needs_build s0 i Y force = true).
  { unfold needs_build. rewrite Hb. simpl. apply orb_true_iff. right. apply negb_true_iff. apply Nat.eqb_neq. exact HXY. }
  rewrite En, Hd. unfold rebuild_seq. simpl flat_map. rewrite Hb. simpl present. cbv iota.
  unfold marker_ops. destruct (Y =? 0) eqn:E2; [apply Nat.eqb_eq in E2; congruence|].
  simpl. unfold use_trees. simpl. rewrite !Nat.eqb_refl. simpl. rewrite Nat.eqb_refl, Ht.
  destruct (X =? Y) eqn:E1; [apply Nat.eqb_eq in E1; congruence|].
  destruct (X =? 0) eqn:E3; [apply Nat.eqb_eq in E3; congruence|]. rewrite E2. reflexivity.
Qed.

(* ------------------------------------------------------------------ witnesses, by computation *)
(* the marker is invalidated only where the stored binning is compared (not when forced): the FORCED rebuild for
   binning 2 over a cache valid for binning 1 dies after the pickle of patch 0 is complete: marker 1 over trees 2; the
   later measurement for binning 1 succeeds on both patches and uses trees of binning 2 on patch 0; the same
   discipline is safe at every crash point of the IMPLICIT rebuild, and the forced rebuild for the SAME binning is too *)
Definition all_safe_b (ops : list fop) (s0 : fs) (ids reqs : list nat) : bool :=
  forallb (fun k => forallb (fun r => forallb (fun i => is_safe_use (use_trees (apply (firstn k ops) s0) i r) r) ids) reqs)
          (seq 0 (S (length ops))).

Theorem forced_rebuild_stale_refuted :
  let s0 := fs_of s_old_trees in
  let ies := [(0, 0); (1, 0)] in
  earlier_state_b s0 [0; 1] (Some 1) = true /\
  (let s := apply (firstn 2 (ops_rebuild d_unforced_only s0 ies 2 true)) s0 in
   use_trees s 0 1 = Used 2 /\ measure s [0; 1] 1 = Ok [2; 1]) /\
  all_safe_b (ops_rebuild d_unforced_only s0 ies 2 false) s0 [0; 1] [0; 1; 2; 3] = true /\
  all_safe_b (ops_rebuild d_unforced_only s0 ies 1 true) s0 [0; 1] [0; 1; 2; 3] = true /\
  all_safe_b (ops_rebuild d_always s0 ies 2 true) s0 [0; 1] [0; 1; 2; 3] = true /\
  all_safe_b (ops_rebuild d_unforced_only s0 ies 2 true) s0 [0; 1] [0; 1; 2; 3] = false.
Proof. vm_compute. repeat split. Qed.

(* all orders of the three phases (and the two without an invalidation), one patch valid for binning 1 rebuilt for
   binning 2 with one extra write call, later requests 1, 2, 3 and unbinned: exactly ONE order is safe at every
   crash point (second list: which orders leave a cache valid for binning 2 when they run to the end - five do, so an
   uninterrupted run cannot tell them apart) *)
Theorem phase_orders_classified :
  map (fun o => order_safe_b o 1 2 1 [0; 1; 2; 3]) all_orders = [true; false; false; false; false; false; false; false] /\
  map (fun o => order_complete_b o 1 2 1) all_orders = [true; true; true; false; false; false; true; true].
Proof. vm_compute. split; reflexivity. Qed.

(* with other bin counts a stale pair is loud in one direction only: trees of a 3-bin binning (id 5) under the marker
   of a 2-bin binning (id 1) raise, trees of the 2-bin binning under the marker of the 3-bin binning are used *)
Theorem bin_count_mismatch_one_way :
  let nb := [(1, 2); (5, 3)] in
  use_trees_n nb (fs_of [(PBin 0, BinF (BWhole 1)); (PTrees 0, TreesF (Some 5))]) 0 1 = UErr /\
  use_trees_n nb (fs_of [(PBin 0, BinF (BWhole 5)); (PTrees 0, TreesF (Some 1))]) 0 5 = Used 1.
Proof. vm_compute. split; reflexivity. Qed.
