(* Proofs about Model/Containers.v (C17): algebra of +, * scalar, ==; index / slice / list
   selections of bins and patches; commutation with summation and jackknife sampling;
   the iteration protocol; and the refutations for the pinned code. *)
From Verif Require Import Prelude Containers.
From Coq Require Import Setoid Morphisms Qfield.
Open Scope Q_scope.

(* ================================================================== *)
(* 1. lists                                                            *)
(* ================================================================== *)
Lemma map2_length {A B C} (f : A -> B -> C) l1 : forall l2,
  length l1 = length l2 -> length (map2 f l1 l2) = length l1.
Proof. induction l1 as [|x l1 IH]; intros [|y l2] H; simpl in *; try discriminate; auto. Qed.

Lemma nth_map2 {A B C} (f : A -> B -> C) d1 d2 d l1 : forall l2 i,
  (i < length l1)%nat -> (i < length l2)%nat ->
  nth i (map2 f l1 l2) d = f (nth i l1 d1) (nth i l2 d2).
Proof.
  induction l1 as [|x l1 IH]; intros [|y l2] i H1 H2; simpl in *; try lia.
  destruct i; [reflexivity|]. apply IH; lia.
Qed.

Lemma tab_length {A} n (f : nat -> A) : length (tab n f) = n.
Proof. unfold tab. rewrite map_length, seq_length. reflexivity. Qed.

Lemma nth_tab {A} n (f : nat -> A) d i : (i < n)%nat -> nth i (tab n f) d = f i.
Proof.
  intros H. unfold tab. rewrite (nth_indep _ d (f 0%nat)) by (rewrite map_length, seq_length; exact H).
  rewrite map_nth, seq_nth by exact H. reflexivity.
Qed.

Lemma tab_ext {A} n (f g : nat -> A) : (forall i, (i < n)%nat -> f i = g i) -> tab n f = tab n g.
Proof. intros H. unfold tab. apply map_ext_in. intros i Hi. apply in_seq in Hi. apply H. lia. Qed.

Lemma map_as_tab {A B} (f : A -> B) d l : map f l = tab (length l) (fun i => f (nth i l d)).
Proof.
  apply (nth_ext _ _ (f d) (f d)).
  - rewrite map_length, tab_length. reflexivity.
  - intros i Hi. rewrite map_length in Hi. rewrite map_nth, nth_tab by exact Hi. reflexivity.
Qed.

Lemma map2_as_tab {A B C} (f : A -> B -> C) d1 d2 l1 l2 :
  length l1 = length l2 ->
  map2 f l1 l2 = tab (length l1) (fun i => f (nth i l1 d1) (nth i l2 d2)).
Proof.
  intros H. apply (nth_ext _ _ (f d1 d2) (f d1 d2)).
  - rewrite map2_length, tab_length by exact H. reflexivity.
  - intros i Hi. rewrite map2_length in Hi by exact H.
    rewrite (nth_map2 f d1 d2), nth_tab by (try exact Hi; rewrite <- H; exact Hi). reflexivity.
Qed.

Lemma nth_mapI {A B} (g : A -> B) (I : list A) d0 d j :
  (j < length I)%nat -> nth j (map g I) d = g (nth j I d0).
Proof.
  intros H. rewrite (nth_indep _ d (g d0)) by (rewrite map_length; exact H). apply map_nth.
Qed.

Lemma nth_sel {A} (d d' : A) l I j :
  (j < length I)%nat -> nth j (sel d l I) d' = nth (nth j I 0%nat) l d.
Proof. intros H. unfold sel. apply (nth_mapI (fun i => nth i l d)). exact H. Qed.

Lemma sel_length {A} (d : A) l I : length (sel d l I) = length I.
Proof. unfold sel. apply map_length. Qed.

Lemma all_lt_spec n I : all_lt n I = true <-> forall i, In i I -> (i < n)%nat.
Proof.
  unfold all_lt. rewrite forallb_forall. split; intros H i Hi; specialize (H i Hi).
  - apply Nat.ltb_lt. exact H.
  - apply Nat.ltb_lt. exact H.
Qed.

Lemma all_lt_nth n I j : all_lt n I = true -> (j < length I)%nat -> (nth j I 0 < n)%nat.
Proof. intros H Hj. apply (proj1 (all_lt_spec n I) H). apply nth_In. exact Hj. Qed.

Lemma sel_tab {A} (d : A) n f I : all_lt n I = true -> sel d (tab n f) I = map f I.
Proof.
  intros H. unfold sel. apply map_ext_in. intros i Hi. apply nth_tab.
  apply (proj1 (all_lt_spec n I) H). exact Hi.
Qed.

Lemma tab_nth_map {A B} (f : A -> B) (I : list A) d :
  tab (length I) (fun j => f (nth j I d)) = map f I.
Proof. symmetry. apply map_as_tab. Qed.

Lemma remove_nth_map {A B} (f : A -> B) k l : remove_nth k (map f l) = map f (remove_nth k l).
Proof.
  revert k. induction l as [|x l IH]; intros k; simpl; [destruct k; reflexivity|].
  destruct k; simpl; [reflexivity|]. rewrite IH. reflexivity.
Qed.

Lemma remove_nth_length {A} k (l : list A) : (k < length l)%nat -> length (remove_nth k l) = pred (length l).
Proof.
  revert k. induction l as [|x l IH]; intros k H; simpl in *; [lia|].
  destruct k; simpl; [reflexivity|]. rewrite IH by lia. destruct l; simpl in *; lia.
Qed.

Lemma Forall2_refl {A} (R : A -> A -> Prop) : (forall x, R x x) -> forall l, Forall2 R l l.
Proof. intros H l. induction l; constructor; auto. Qed.

Lemma Forall2_tab {A} (R : A -> A -> Prop) n f g :
  (forall i, (i < n)%nat -> R (f i) (g i)) -> Forall2 R (tab n f) (tab n g).
Proof.
  intros H. unfold tab.
  assert (G : forall l, (forall i, In i l -> (i < n)%nat) -> Forall2 R (map f l) (map g l)).
  { induction l as [|x l IH]; intros Hl; simpl; constructor.
    - apply H, Hl. left. reflexivity.
    - apply IH. intros i Hi. apply Hl. right. exact Hi. }
  apply G. intros i Hi. apply in_seq in Hi. lia.
Qed.

Lemma Forall2_map_r {A B} (R : A -> B -> Prop) (g : A -> B) l :
  (forall x, R x (g x)) -> Forall2 R l (map g l).
Proof. intros H. induction l; simpl; constructor; auto. Qed.

Lemma list_eqb_Forall2 {A} (eqb : A -> A -> bool) (R : A -> A -> Prop) :
  (forall x y, eqb x y = true -> R x y) ->
  forall l1 l2, list_eqb eqb l1 l2 = true -> Forall2 R l1 l2.
Proof.
  intros H. induction l1 as [|x l1 IH]; intros [|y l2] E; simpl in E; try discriminate; constructor.
  - apply andb_true_iff in E. apply H. tauto.
  - apply andb_true_iff in E. apply IH. tauto.
Qed.

Lemma list_eqb_length {A} (eqb : A -> A -> bool) l1 : forall l2,
  list_eqb eqb l1 l2 = true -> length l1 = length l2.
Proof.
  induction l1 as [|x l1 IH]; intros [|y l2] E; simpl in *; try discriminate; auto.
  apply andb_true_iff in E. f_equal. apply IH. tauto.
Qed.

Lemma list_eqb_sym {A} (eqb : A -> A -> bool) :
  (forall x y, eqb x y = true -> eqb y x = true) ->
  forall l1 l2, list_eqb eqb l1 l2 = true -> list_eqb eqb l2 l1 = true.
Proof.
  intros H. induction l1 as [|x l1 IH]; intros [|y l2] E; simpl in *; try discriminate; auto.
  apply andb_true_iff in E. destruct E as [E1 E2]. rewrite (H _ _ E1), (IH _ E2). reflexivity.
Qed.

Lemma list_eqb_trans {A} (eqb : A -> A -> bool) :
  (forall x y z, eqb x y = true -> eqb y z = true -> eqb x z = true) ->
  forall l1 l2 l3, list_eqb eqb l1 l2 = true -> list_eqb eqb l2 l3 = true -> list_eqb eqb l1 l3 = true.
Proof.
  intros H. induction l1 as [|x l1 IH]; intros [|y l2] [|z l3] E1 E2; simpl in *; try discriminate; auto.
  apply andb_true_iff in E1. apply andb_true_iff in E2. destruct E1 as [A1 A2], E2 as [B1 B2].
  rewrite (H _ _ _ A1 B1), (IH _ _ A2 B2). reflexivity.
Qed.


Lemma map2_comm_F2 {A} (R : A -> A -> Prop) (f : A -> A -> A) :
  (forall x y, R (f x y) (f y x)) -> forall l1 l2, Forall2 R (map2 f l1 l2) (map2 f l2 l1).
Proof. intros H. induction l1 as [|x l1 IH]; intros [|y l2]; simpl; constructor; auto. Qed.

Lemma map2_assoc_F2 {A} (R : A -> A -> Prop) (f : A -> A -> A) :
  (forall x y z, R (f (f x y) z) (f x (f y z))) ->
  forall l1 l2 l3, Forall2 R (map2 f (map2 f l1 l2) l3) (map2 f l1 (map2 f l2 l3)).
Proof.
  intros H. induction l1 as [|x l1 IH]; intros [|y l2] [|z l3]; simpl; try constructor; auto.
Qed.

(* ================================================================== *)
(* 2. equality: reflexive and structural                               *)
(* ================================================================== *)
Lemma bin_eqb_refl b : bin_eqb b b = true.
Proof.
  unfold bin_eqb, qlist_eqb. rewrite (list_eqb_refl Qeqb) by apply Qeq_bool_refl.
  rewrite eqb_reflx. reflexivity.
Qed.
Lemma qmat_eqb_refl m : qmat_eqb m m = true.
Proof. apply list_eqb_refl. intros r. apply list_eqb_refl. apply Qeq_bool_refl. Qed.
Lemma pc_eqb_refl c : pc_eqb c c = true.
Proof.
  unfold pc_eqb. rewrite bin_eqb_refl, eqb_reflx, (list_eqb_refl qmat_eqb) by apply qmat_eqb_refl. reflexivity.
Qed.
Lemma sw_eqb_refl s : sw_eqb s s = true.
Proof. unfold sw_eqb. rewrite bin_eqb_refl, !qmat_eqb_refl, eqb_reflx. reflexivity. Qed.
Lemma nc_eqb_refl n : nc_eqb n n = true.
Proof. unfold nc_eqb. rewrite pc_eqb_refl, sw_eqb_refl. reflexivity. Qed.
Lemma opt_nc_eqb_refl o : opt_eqb nc_eqb o o = true.
Proof. destruct o; simpl; [apply nc_eqb_refl|reflexivity]. Qed.
Lemma cf_eqb_refl f : cf_eqb f f = true.
Proof. unfold cf_eqb. rewrite nc_eqb_refl, !opt_nc_eqb_refl. reflexivity. Qed.
Lemma sd_eqb_refl d : sd_eqb d d = true.
Proof.
  unfold sd_eqb, qlist_eqb. rewrite bin_eqb_refl, qmat_eqb_refl, (list_eqb_refl Qeqb) by apply Qeq_bool_refl.
  reflexivity.
Qed.

(* x == x for every container of the five classes *)
Theorem eq_refl_all x : run x (OEq x) = Flag true.
Proof.
  destruct x; simpl; f_equal;
    [apply pc_eqb_refl|apply sw_eqb_refl|apply nc_eqb_refl|apply cf_eqb_refl|apply sd_eqb_refl].
Qed.

Lemma qlist_eqb_qeq1 l1 l2 : qlist_eqb l1 l2 = true -> qeq1 l1 l2.
Proof. apply list_eqb_Forall2. intros x y. apply Qeq_bool_eq. Qed.
Lemma qmat_eqb_qeq2 l1 l2 : qmat_eqb l1 l2 = true -> qeq2 l1 l2.
Proof. apply list_eqb_Forall2. apply qlist_eqb_qeq1. Qed.

Lemma bin_eqb_struct a b :
  bin_eqb a b = true -> qeq1 (edges a) (edges b) /\ closed_right a = closed_right b.
Proof.
  unfold bin_eqb. intros H. apply andb_true_iff in H. destruct H as [H1 H2].
  split; [apply qlist_eqb_qeq1; exact H1|apply eqb_prop; exact H2].
Qed.

(* == is structural: equal binning, equal entries, equal auto flag *)
Theorem pc_eqb_struct a b :
  pc_eqb a b = true ->
  qeq1 (edges (pc_bin a)) (edges (pc_bin b)) /\ closed_right (pc_bin a) = closed_right (pc_bin b)
  /\ qeq3 (pc_counts a) (pc_counts b) /\ pc_auto a = pc_auto b.
Proof.
  unfold pc_eqb. intros H. apply andb_true_iff in H. destruct H as [H H3].
  apply andb_true_iff in H. destruct H as [H1 H2].
  destruct (bin_eqb_struct _ _ H1) as [E1 E2]. repeat split; auto.
  - revert H2. apply list_eqb_Forall2. apply qmat_eqb_qeq2.
  - apply eqb_prop. exact H3.
Qed.

Lemma Qeqb_sym x y : Qeqb x y = true -> Qeqb y x = true.
Proof. apply Qeq_bool_sym. Qed.
Lemma bin_eqb_sym a b : bin_eqb a b = true -> bin_eqb b a = true.
Proof.
  unfold bin_eqb, qlist_eqb. intros H. apply andb_true_iff in H. destruct H as [H1 H2].
  rewrite (list_eqb_sym Qeqb Qeqb_sym _ _ H1). apply eqb_prop in H2. rewrite H2, eqb_reflx. reflexivity.
Qed.
Lemma bin_eqb_trans a b c : bin_eqb a b = true -> bin_eqb b c = true -> bin_eqb a c = true.
Proof.
  unfold bin_eqb, qlist_eqb. intros H1 H2.
  apply andb_true_iff in H1. apply andb_true_iff in H2. destruct H1 as [A1 A2], H2 as [B1 B2].
  rewrite (list_eqb_trans Qeqb Qeq_bool_trans _ _ _ A1 B1).
  apply eqb_prop in A2. apply eqb_prop in B2. rewrite A2, B2, eqb_reflx. reflexivity.
Qed.
Lemma bin_eqb_nbins a b : bin_eqb a b = true -> nbins a = nbins b.
Proof.
  unfold bin_eqb, qlist_eqb, nbins. intros H. apply andb_true_iff in H. destruct H as [H _].
  rewrite (list_eqb_length _ _ _ H). reflexivity.
Qed.

(* ================================================================== *)
(* 3. well-formedness facts                                            *)
(* ================================================================== *)
Lemma mat_shape_spec P M :
  mat_shape_b P M = true -> length M = P /\ forall i, (i < P)%nat -> length (nth i M []) = P.
Proof.
  unfold mat_shape_b. intros H. apply andb_true_iff in H. destruct H as [H1 H2].
  apply Nat.eqb_eq in H1. split; [exact H1|]. intros i Hi.
  rewrite forallb_forall in H2. apply Nat.eqb_eq. apply H2. apply nth_In. lia.
Qed.

Lemma bin_ok_nbins b : bin_ok b = true -> (1 <= nbins b)%nat.
Proof.
  unfold bin_ok, nbins. intros H. apply andb_true_iff in H. destruct H as [H _].
  apply Nat.leb_le in H. lia.
Qed.

Record pc_wf (c : pcounts) : Prop := {
  pcw_bin : bin_ok (pc_bin c) = true;
  pcw_nb : pc_nb c = nbins (pc_bin c);
  pcw_mat : forall b, (b < pc_nb c)%nat -> length (nth b (pc_counts c) []) = pc_np c;
  pcw_row : forall b i, (b < pc_nb c)%nat -> (i < pc_np c)%nat ->
            length (nth i (nth b (pc_counts c) []) []) = pc_np c }.

Lemma pc_wfb_wf c : pc_wfb c = true -> pc_wf c.
Proof.
  unfold pc_wfb. intros H. apply andb_true_iff in H. destruct H as [H H3].
  apply andb_true_iff in H. destruct H as [H1 H2]. apply Nat.eqb_eq in H2.
  rewrite forallb_forall in H3.
  assert (G : forall b, (b < pc_nb c)%nat -> mat_shape_b (pc_np c) (nth b (pc_counts c) []) = true).
  { intros b Hb. apply H3. apply nth_In. exact Hb. }
  constructor; auto.
  - intros b Hb. apply (mat_shape_spec _ _ (G b Hb)).
  - intros b i Hb Hi. apply (mat_shape_spec _ _ (G b Hb)). exact Hi.
Qed.

Lemma pc_wf_nb_pos c : pc_wf c -> (1 <= pc_nb c)%nat.
Proof. intros W. rewrite (pcw_nb _ W). apply bin_ok_nbins. apply (pcw_bin _ W). Qed.

(* ================================================================== *)
(* 4. addition                                                         *)
(* ================================================================== *)
Lemma pc_compat_sym a b : pc_compat a b = true -> pc_compat b a = true.
Proof.
  unfold pc_compat. intros H. apply andb_true_iff in H. destruct H as [H1 H2].
  rewrite (bin_eqb_sym _ _ H1). apply Nat.eqb_eq in H2. rewrite H2, Nat.eqb_refl. reflexivity.
Qed.

Lemma pc_compat_shapes a b :
  pc_wf a -> pc_wf b -> pc_compat a b = true -> pc_nb a = pc_nb b /\ pc_np a = pc_np b.
Proof.
  intros Wa Wb H. unfold pc_compat in H. apply andb_true_iff in H. destruct H as [H1 H2].
  apply Nat.eqb_eq in H2. split; [|exact H2].
  rewrite (pcw_nb _ Wa), (pcw_nb _ Wb). apply bin_eqb_nbins. exact H1.
Qed.

(* the zip-based sum is the index-wise sum *)
Theorem pc_add_is_spec a b : pc_wf a -> pc_wf b -> pc_add a b = pc_add_spec a b.
Proof.
  intros Wa Wb. unfold pc_add, pc_add_spec. destruct (pc_compat a b) eqn:E; [|reflexivity].
  destruct (pc_compat_shapes a b Wa Wb E) as [Enb Enp].
  f_equal. f_equal.
  rewrite (map2_as_tab _ [] []) by exact Enb. fold (pc_nb a).
  apply tab_ext. intros bi Hb.
  assert (Hb' : (bi < pc_nb b)%nat) by (rewrite <- Enb; exact Hb).
  rewrite (map2_as_tab _ [] [])
    by (rewrite (pcw_mat _ Wa bi Hb), (pcw_mat _ Wb bi Hb'); exact Enp).
  rewrite (pcw_mat _ Wa bi Hb).
  apply tab_ext. intros i Hi.
  assert (Hi' : (i < pc_np b)%nat) by (rewrite <- Enp; exact Hi).
  rewrite (map2_as_tab _ 0 0)
    by (rewrite (pcw_row _ Wa bi i Hb Hi), (pcw_row _ Wb bi i Hb' Hi'); exact Enp).
  rewrite (pcw_row _ Wa bi i Hb Hi). reflexivity.
Qed.

(* a + b: binning and auto flag of a, same shape, every entry is the sum of the entries *)
Theorem add_counts a b r :
  pc_wf a -> pc_wf b -> pc_add a b = Some r ->
  pc_bin r = pc_bin a /\ pc_auto r = pc_auto a /\ pc_nb r = pc_nb a /\ pc_np r = pc_np a /\
  forall bi i j, (bi < pc_nb a)%nat -> (i < pc_np a)%nat -> (j < pc_np a)%nat ->
    nth3 (pc_counts r) bi i j = nth3 (pc_counts a) bi i j + nth3 (pc_counts b) bi i j.
Proof.
  intros Wa Wb H. rewrite (pc_add_is_spec a b Wa Wb) in H. unfold pc_add_spec in H.
  destruct (pc_compat a b); [|discriminate]. inversion H; subst r; clear H. simpl.
  pose proof (pc_wf_nb_pos a Wa) as Hpos.
  repeat split.
  - unfold pc_nb. simpl. apply tab_length.
  - unfold pc_np at 1. simpl. rewrite nth_tab by lia. apply tab_length.
  - intros bi i j Hb Hi Hj. unfold nth3 at 1. rewrite !nth_tab by assumption. reflexivity.
Qed.


Theorem add_comm a b r :
  pc_add a b = Some r -> exists r', pc_add b a = Some r' /\ pc_equiv r r'.
Proof.
  unfold pc_add. destruct (pc_compat a b) eqn:E; [|discriminate]. intros H. inversion H; subst r; clear H.
  rewrite (pc_compat_sym _ _ E). eexists. split; [reflexivity|]. split; simpl.
  - unfold pc_compat in E. apply andb_true_iff in E. tauto.
  - apply map2_comm_F2. intros M1 M2. apply map2_comm_F2. intros r1 r2. apply map2_comm_F2.
    intros x y. apply Qplus_comm.
Qed.

Lemma pc_add_np a b r : pc_wf a -> pc_wf b -> pc_add a b = Some r -> pc_np r = pc_np a /\ pc_bin r = pc_bin a.
Proof. intros Wa Wb H. destruct (add_counts a b r Wa Wb H) as (H1 & _ & _ & H4 & _). auto. Qed.

Theorem add_assoc a b c ab r :
  pc_wf a -> pc_wf b -> pc_wf c ->
  pc_add a b = Some ab -> pc_add ab c = Some r ->
  exists bc r', pc_add b c = Some bc /\ pc_add a bc = Some r' /\ pc_equiv r r'.
Proof.
  intros Wa Wb Wc Hab Hr.
  destruct (pc_add_np a b ab Wa Wb Hab) as [Pab Bab].
  unfold pc_add in Hab. destruct (pc_compat a b) eqn:Eab; [|discriminate].
  unfold pc_add in Hr. destruct (pc_compat ab c) eqn:Eabc; [|discriminate].
  unfold pc_compat in Eab, Eabc. apply andb_true_iff in Eab. apply andb_true_iff in Eabc.
  destruct Eab as [B1 P1], Eabc as [B2 P2]. apply Nat.eqb_eq in P1. apply Nat.eqb_eq in P2.
  rewrite Bab in B2. rewrite Pab in P2.
  assert (Ebc : pc_compat b c = true).
  { unfold pc_compat. rewrite (bin_eqb_trans _ _ _ (bin_eqb_sym _ _ B1) B2).
    rewrite <- P1, P2, Nat.eqb_refl. reflexivity. }
  destruct (pc_add b c) as [bc|] eqn:Hbc; [|unfold pc_add in Hbc; rewrite Ebc in Hbc; discriminate].
  destruct (pc_add_np b c bc Wb Wc Hbc) as [Pbc Bbc].
  assert (Eabc' : pc_compat a bc = true).
  { unfold pc_compat. rewrite Bbc, B1, Pbc, P1, Nat.eqb_refl. reflexivity. }
  exists bc. unfold pc_add at 1. rewrite Eabc'. eexists. split; [reflexivity|]. split; [reflexivity|].
  inversion Hab; subst ab; clear Hab. inversion Hr; subst r; clear Hr.
  unfold pc_add in Hbc. rewrite Ebc in Hbc. inversion Hbc; subst bc; clear Hbc.
  split; simpl.
  - apply bin_eqb_refl.
  - apply map2_assoc_F2. intros M1 M2 M3. apply map2_assoc_F2. intros r1 r2 r3. apply map2_assoc_F2.
    intros x y z. symmetry. apply Qplus_assoc.
Qed.

(* + requires equal binning (edges and closed side) and equal number of patches *)
Theorem add_requires_compat a b r :
  pc_add a b = Some r -> bin_eqb (pc_bin a) (pc_bin b) = true /\ pc_np a = pc_np b.
Proof.
  unfold pc_add, pc_compat. intros H.
  destruct (bin_eqb (pc_bin a) (pc_bin b)); simpl in H; [|discriminate].
  destruct (Nat.eqb_spec (pc_np a) (pc_np b)); [auto|discriminate].
Qed.
Theorem incompatible_rejected a b : pc_compat a b = false -> pc_add a b = None.
Proof. unfold pc_add. intros ->. reflexivity. Qed.

Theorem nc_add_requires a b r :
  nc_add a b = Some r ->
  sw_eqb (nc_sumw a) (nc_sumw b) = true /\ pc_compat (nc_counts a) (nc_counts b) = true
  /\ nc_sumw r = nc_sumw a /\ pc_add (nc_counts a) (nc_counts b) = Some (nc_counts r).
Proof.
  unfold nc_add. destruct (sw_eqb (nc_sumw a) (nc_sumw b)); [|discriminate].
  destruct (pc_add (nc_counts a) (nc_counts b)) as [c|] eqn:E; simpl; [|discriminate].
  unfold nc_make. destruct (_ && _)%bool; [|discriminate]. intros H. inversion H; subst r; simpl.
  repeat split. unfold pc_add in E. destruct (pc_compat _ _); [reflexivity|discriminate].
Qed.

(* CorrFunc: + is defined only for operands with the same optional members, and then both
   orders are defined or both rejected on the member level *)
Theorem cf_add_requires a b r :
  cf_add a b = Some r ->
  cf_compat a b = true /\ is_some (cf_dr a) = is_some (cf_dr b)
  /\ is_some (cf_rd a) = is_some (cf_rd b) /\ is_some (cf_rr a) = is_some (cf_rr b).
Proof.
  unfold cf_add, cf_add_gen. destruct (cf_compat a b); [|discriminate].
  destruct (nc_add (cf_dd a) (cf_dd b)); simpl; [|discriminate].
  destruct (cf_dr a), (cf_dr b); simpl; try discriminate;
  destruct (cf_rd a), (cf_rd b); simpl; try discriminate;
  destruct (cf_rr a), (cf_rr b); simpl; try discriminate; auto;
  repeat match goal with |- context [nc_add ?x ?y] => destruct (nc_add x y); simpl; try discriminate end; auto.
Qed.

Theorem sd_add_requires a b r :
  sd_add a b = Some r -> bin_eqb (sd_bin a) (sd_bin b) = true /\ sd_nsamples a = sd_nsamples b.
Proof.
  unfold sd_add, sd_binop, sd_compat. intros H.
  destruct (bin_eqb (sd_bin a) (sd_bin b)); simpl in H; [|discriminate].
  destruct (Nat.eqb_spec (sd_nsamples a) (sd_nsamples b)); [auto|discriminate].
Qed.

Theorem sd_binop_data f a b r i :
  sd_binop f a b = Some r -> (i < length (sd_data a))%nat -> (i < length (sd_data b))%nat ->
  nth i (sd_data r) 0 = f (nth i (sd_data a) 0) (nth i (sd_data b) 0).
Proof.
  unfold sd_binop. destruct (sd_compat a b); [|discriminate]. intros H; inversion H; subst r; simpl.
  intros H1 H2. apply (nth_map2 f 0 0); assumption.
Qed.

(* ================================================================== *)
(* 5. scalar multiplication                                            *)
(* ================================================================== *)
Lemma nth_map_scale k r j : nth j (map (Qmult k) r) 0 == k * nth j r 0.
Proof.
  revert j. induction r as [|x r IH]; intros [|j]; simpl; try ring. apply IH.
Qed.

Lemma nth_map_nil {A B} (g : list A -> list B) l b :
  g [] = [] -> nth b (map g l) [] = g (nth b l []).
Proof. intros H. rewrite <- H at 1. apply map_nth. Qed.

Theorem mul_scales_counts k a bi i j :
  nth3 (pc_counts (pc_mul k a)) bi i j == k * nth3 (pc_counts a) bi i j.
Proof.
  unfold nth3, pc_mul. cbn [pc_counts].
  rewrite (nth_map_nil (map (map (Qmult k)))) by reflexivity.
  rewrite (nth_map_nil (map (Qmult k))) by reflexivity.
  apply nth_map_scale.
Qed.

Lemma pc_mul_shape k a : pc_nb (pc_mul k a) = pc_nb a /\ pc_np (pc_mul k a) = pc_np a
  /\ pc_bin (pc_mul k a) = pc_bin a /\ pc_auto (pc_mul k a) = pc_auto a.
Proof.
  unfold pc_nb, pc_np, pc_mul. cbn [pc_counts pc_bin pc_auto]. rewrite map_length. repeat split.
  rewrite (nth_map_nil (map (map (Qmult k)))) by reflexivity. apply map_length.
Qed.

Theorem pc_mul_is_spec k a : pc_wf a -> pc_mul k a = pc_mul_spec k a.
Proof.
  intros Wa. unfold pc_mul, pc_mul_spec. f_equal.
  rewrite (map_as_tab _ []). fold (pc_nb a). apply tab_ext. intros bi Hb.
  rewrite (map_as_tab _ []). rewrite (pcw_mat _ Wa bi Hb). apply tab_ext. intros i Hi.
  rewrite (map_as_tab _ 0). rewrite (pcw_row _ Wa bi i Hb Hi). reflexivity.
Qed.

(* ================================================================== *)
(* 6. totals and jackknife samples: linearity, leave-one-out           *)
(* ================================================================== *)
Lemma qsum_scale k l : qsum (map (Qmult k) l) == k * qsum l.
Proof. induction l as [|x l IH]; simpl; [ring|]. rewrite IH. ring. Qed.
Lemma mtotal_scale k M : mtotal (map (map (Qmult k)) M) == k * mtotal M.
Proof. unfold mtotal. induction M as [|r M IH]; simpl; [ring|]. rewrite qsum_scale, IH. ring. Qed.
Lemma mrow_scale k M i : mrow (map (map (Qmult k)) M) i == k * mrow M i.
Proof. unfold mrow. rewrite (nth_map_nil (map (Qmult k))) by reflexivity. apply qsum_scale. Qed.
Lemma mcol_scale k M i : mcol (map (map (Qmult k)) M) i == k * mcol M i.
Proof. unfold mcol. induction M as [|r M IH]; simpl; [ring|]. rewrite nth_map_scale, IH. ring. Qed.
Lemma mdiag_scale k M i : mdiag (map (map (Qmult k)) M) i == k * mdiag M i.
Proof. unfold mdiag. rewrite (nth_map_nil (map (Qmult k))) by reflexivity. apply nth_map_scale. Qed.
Lemma mjack_scale k M i : mjack (map (map (Qmult k)) M) i == k * mjack M i.
Proof. unfold mjack. rewrite mtotal_scale, mrow_scale, mcol_scale, mdiag_scale. ring. Qed.

(* leave-one-out: total - row - column + diagonal = total with patch k removed from both
   catalogs (as in design_probes/Jack.v) *)
Definition mloo (M : list (list Q)) (k : nat) : Q := mtotal (map (remove_nth k) (remove_nth k M)).

Lemma qsum_remove (l : list Q) k : (k < length l)%nat -> qsum l == nth k l 0 + qsum (remove_nth k l).
Proof.
  revert k; induction l as [|x l IH]; intros k Hk; simpl in Hk; [lia|].
  destruct k as [|k]; simpl; [ring|]. rewrite (IH k) by lia. ring.
Qed.
Lemma mtotal_remove_row M k : (k < length M)%nat -> mtotal M == mrow M k + mtotal (remove_nth k M).
Proof.
  unfold mtotal, mrow. revert k; induction M as [|r M IH]; intros k Hk; simpl in Hk; [lia|].
  destruct k as [|k]; simpl; [ring|]. rewrite (IH k) by lia. ring.
Qed.
Lemma mtotal_remove_col M k :
  Forall (fun r => (k < length r)%nat) M -> mtotal M == mcol M k + mtotal (map (remove_nth k) M).
Proof.
  unfold mtotal, mcol. induction 1 as [|r M Hr HM IH]; simpl; [ring|].
  rewrite (qsum_remove r k Hr). rewrite IH. ring.
Qed.
Lemma mcol_remove_row M k : (k < length M)%nat -> mcol M k == mdiag M k + mcol (remove_nth k M) k.
Proof.
  unfold mcol, mdiag.
  assert (G : forall c k, (k < length M)%nat ->
     qsum (map (fun r => nth c r 0) M) == nth c (nth k M []) 0 + qsum (map (fun r => nth c r 0) (remove_nth k M))).
  { intros c. induction M as [|r M IH]; intros k' Hk; simpl in Hk; [lia|].
    destruct k' as [|k']; simpl; [ring|]. rewrite (IH k') by lia. ring. }
  intros Hk. apply G. exact Hk.
Qed.
Lemma Forall_remove_nth {A} (P : A -> Prop) k l : Forall P l -> Forall P (remove_nth k l).
Proof.
  intros H; revert k; induction H as [|x l Hx Hl IH]; intros k.
  - destruct k; constructor.
  - destruct k; simpl; [exact Hl | constructor; auto].
Qed.
Theorem mjack_is_loo M k :
  (k < length M)%nat -> Forall (fun r => (k < length r)%nat) M -> mjack M k == mloo M k.
Proof.
  intros Hk Hrows. unfold mjack, mloo.
  rewrite (mtotal_remove_row M k Hk).
  rewrite (mtotal_remove_col (remove_nth k M) k) by (apply Forall_remove_nth; exact Hrows).
  rewrite (mcol_remove_row M k Hk). ring.
Qed.

(* ---- samples as tables ---- *)
Definition mk_sample (bin : binning) (nb P : nat) (tot : nat -> Q) (jk : nat -> nat -> Q) : sdata :=
  {| sd_bin := bin; sd_data := tab nb tot; sd_samples := tab P (fun k => tab nb (jk k)) |}.

Lemma mk_sample_equiv bin nb P tot jk tot' jk' :
  (forall b, (b < nb)%nat -> tot b == tot' b) ->
  (forall k b, (k < P)%nat -> (b < nb)%nat -> jk k b == jk' k b) ->
  sd_equiv (mk_sample bin nb P tot jk) (mk_sample bin nb P tot' jk').
Proof.
  intros H1 H2. split; [reflexivity|]. split; simpl.
  - apply Forall2_tab. exact H1.
  - apply Forall2_tab. intros k Hk. apply Forall2_tab. intros b Hb. apply H2; assumption.
Qed.

Lemma sd_scale_mk k bin nb P tot jk :
  sd_scale k (mk_sample bin nb P tot jk) = mk_sample bin nb P (fun b => k * tot b) (fun m b => k * jk m b).
Proof.
  unfold sd_scale, mk_sample, tab. simpl. f_equal.
  - rewrite map_map. reflexivity.
  - rewrite map_map. apply map_ext. intros m. rewrite map_map. reflexivity.
Qed.

Lemma pc_total_mul k c b : pc_total_at (pc_mul k c) b == k * pc_total_at c b.
Proof.
  unfold pc_total_at, pc_mul. cbn [pc_counts].
  rewrite (nth_map_nil (map (map (Qmult k)))) by reflexivity. apply mtotal_scale.
Qed.
Lemma pc_jack_mul k c m b : pc_jack_at (pc_mul k c) m b == k * pc_jack_at c m b.
Proof.
  unfold pc_jack_at, pc_mul. cbn [pc_counts].
  rewrite (nth_map_nil (map (map (Qmult k)))) by reflexivity. apply mjack_scale.
Qed.

(* (c * k).sample_patch_sum() = k * c.sample_patch_sum(), every entry *)
Theorem pc_sample_mul k c : sd_equiv (pc_sample (pc_mul k c)) (sd_scale k (pc_sample c)).
Proof.
  destruct (pc_mul_shape k c) as (E1 & E2 & E3 & E4).
  unfold pc_sample. rewrite E1, E2, E3.
  change (sd_equiv (mk_sample (pc_bin c) (pc_nb c) (pc_np c) (pc_total_at (pc_mul k c)) (pc_jack_at (pc_mul k c)))
                   (sd_scale k (mk_sample (pc_bin c) (pc_nb c) (pc_np c) (pc_total_at c) (pc_jack_at c)))).
  rewrite sd_scale_mk. apply mk_sample_equiv; intros; [apply pc_total_mul|apply pc_jack_mul].
Qed.

Lemma nc_total_mul k n b : nc_total_at (nc_mul k n) b == k * nc_total_at n b.
Proof. unfold nc_total_at, nc_mul. cbn [nc_counts nc_sumw]. rewrite pc_total_mul. unfold Qdiv. ring. Qed.
Lemma nc_jack_mul k n m b : nc_jack_at (nc_mul k n) m b == k * nc_jack_at n m b.
Proof. unfold nc_jack_at, nc_mul. cbn [nc_counts nc_sumw]. rewrite pc_jack_mul. unfold Qdiv. ring. Qed.

(* normalised counts scale with k (the sums of weights are not scaled) *)
Theorem nc_sample_mul k n : sd_equiv (nc_sample (nc_mul k n)) (sd_scale k (nc_sample n)).
Proof.
  destruct (pc_mul_shape k (nc_counts n)) as (E1 & E2 & E3 & E4).
  unfold nc_sample. cbn [nc_mul nc_counts]. rewrite E1, E2, E3.
  change (sd_equiv (mk_sample (pc_bin (nc_counts n)) (pc_nb (nc_counts n)) (pc_np (nc_counts n))
                      (nc_total_at (nc_mul k n)) (nc_jack_at (nc_mul k n)))
                   (sd_scale k (mk_sample (pc_bin (nc_counts n)) (pc_nb (nc_counts n)) (pc_np (nc_counts n))
                      (nc_total_at n) (nc_jack_at n)))).
  rewrite sd_scale_mk. apply mk_sample_equiv; intros; [apply nc_total_mul|apply nc_jack_mul].
Qed.

Lemma Qdiv_scale k x y : ~ k == 0 -> (k * x) / (k * y) == x / y.
Proof.
  intros Hk. destruct (Qeq_dec y 0) as [E|E].
  - rewrite E. setoid_replace (k * 0) with 0 by ring. unfold Qdiv. change (/ 0) with 0. ring.
  - field. split; assumption.
Qed.
Lemma DP_scale k a b : ~ k == 0 -> (k * a - k * b) / (k * b) == (a - b) / b.
Proof. intros Hk. setoid_replace (k * a - k * b) with (k * (a - b)) by ring. apply Qdiv_scale. exact Hk. Qed.
Lemma LS_scale k a b c d : ~ k == 0 ->
  ((k * a - k * b) + (k * c - k * d)) / (k * c) == ((a - b) + (c - d)) / c.
Proof.
  intros Hk. setoid_replace ((k * a - k * b) + (k * c - k * d)) with (k * ((a - b) + (c - d))) by ring.
  apply Qdiv_scale. exact Hk.
Qed.

Lemma cf_est_mul k f (g : ncounts -> Q) :
  ~ k == 0 -> (forall n, g (nc_mul k n) == k * g n) -> cf_est (cf_mul k f) g == cf_est f g.
Proof.
  intros Hk Hg. destruct f as [dd dr rd rr]. unfold cf_est, cf_mul. cbn [cf_dd cf_dr cf_rd cf_rr].
  destruct rr as [rr|], dr as [dr|], rd as [rd|]; cbn [omap]; rewrite ?Hg;
    try reflexivity; try (apply LS_scale; exact Hk); try (apply DP_scale; exact Hk).
Qed.

Lemma cf_mul_defined k f : cf_est_defined (cf_mul k f) = cf_est_defined f.
Proof. destruct f as [dd [|] [|] [|]]; reflexivity. Qed.

(* CorrFunc * k with k <> 0: every pair-count member is scaled, the correlation estimate
   and all its jackknife samples are unchanged.  (At a zero normalisation both sides read
   x / 0, which is 0 in Q and nan in float64 on both sides.) *)
Theorem sample_mul_invariant k f s :
  ~ k == 0 -> cf_sample f = Some s ->
  exists s', cf_sample (cf_mul k f) = Some s' /\ sd_equiv s' s.
Proof.
  intros Hk. unfold cf_sample. rewrite cf_mul_defined. destruct (cf_est_defined f); [|discriminate].
  intros H. inversion H; subst s; clear H. eexists. split; [reflexivity|].
  destruct (pc_mul_shape k (nc_counts (cf_dd f))) as (E1 & E2 & E3 & E4).
  change (nc_counts (cf_dd (cf_mul k f))) with (pc_mul k (nc_counts (cf_dd f))).
  rewrite E1, E2, E3.
  apply (mk_sample_equiv (pc_bin (nc_counts (cf_dd f))) (pc_nb (nc_counts (cf_dd f))) (pc_np (nc_counts (cf_dd f)))
           (fun b => cf_est (cf_mul k f) (fun n => nc_total_at n b))
           (fun m b => cf_est (cf_mul k f) (fun n => nc_jack_at n m b))
           (fun b => cf_est f (fun n => nc_total_at n b))
           (fun m b => cf_est f (fun n => nc_jack_at n m b))).
  - intros b _. apply cf_est_mul; [exact Hk|]. intros n. apply nc_total_mul.
  - intros m b _ _. apply cf_est_mul; [exact Hk|]. intros n. apply nc_jack_mul.
Qed.

(* ================================================================== *)
(* 7. index expressions                                                *)
(* ================================================================== *)
Lemma resolve_int n i : (i < n)%nat -> resolve n (SInt (Z.of_nat i)) = Some [i].
Proof.
  intros H. unfold resolve, norm_index.
  destruct (Z.ltb_spec (Z.of_nat i) 0); [lia|].
  destruct (Z.leb_spec 0 (Z.of_nat i)); [|lia].
  destruct (Z.ltb_spec (Z.of_nat i) (Z.of_nat n)); [|lia].
  simpl. rewrite Nat2Z.id. reflexivity.
Qed.
Lemma resolve_int_out n i : (n <= i)%nat -> resolve n (SInt (Z.of_nat i)) = None.
Proof.
  intros H. unfold resolve, norm_index.
  destruct (Z.ltb_spec (Z.of_nat i) 0); [lia|].
  destruct (Z.leb_spec 0 (Z.of_nat i)); [|lia].
  destruct (Z.ltb_spec (Z.of_nat i) (Z.of_nat n)); [lia|]. reflexivity.
Qed.
(* python's negative indices count from the end *)
Lemma resolve_int_neg n k : (1 <= k <= n)%nat -> resolve n (SInt (- Z.of_nat k)) = Some [(n - k)%nat].
Proof.
  intros H. unfold resolve, norm_index.
  destruct (Z.ltb_spec (- Z.of_nat k) 0); [|lia].
  destruct (Z.leb_spec 0 (- Z.of_nat k + Z.of_nat n)); [|lia].
  destruct (Z.ltb_spec (- Z.of_nat k + Z.of_nat n) (Z.of_nat n)); [|lia].
  simpl. do 2 f_equal. lia.
Qed.
Lemma map_affine_seq a m : forall s, map (fun k => a + k * 1)%nat (seq s m) = seq (a + s) m.
Proof.
  induction m as [|m IH]; intros s; simpl; [reflexivity|].
  rewrite IH. f_equal; [lia|]. f_equal. lia.
Qed.
(* start:stop selects start, start+1, ..., stop-1 *)
Lemma resolve_slice n a b : (a <= b <= n)%nat ->
  resolve n (SSlice (Some (Z.of_nat a)) (Some (Z.of_nat b)) 1) = Some (seq a (b - a)).
Proof.
  intros H. unfold resolve, slice_indices, clamp. simpl (1 =? 0)%nat. cbv iota.
  destruct (Z.ltb_spec (Z.of_nat a) 0); [lia|]. destruct (Z.ltb_spec (Z.of_nat b) 0); [lia|].
  rewrite !Z.min_l by lia. rewrite !Nat2Z.id. rewrite Nat.div_1_r.
  replace (b - a + 1 - 1)%nat with (b - a)%nat by lia.
  rewrite map_affine_seq. rewrite Nat.add_0_r. reflexivity.
Qed.
Lemma resolve_slice_all n : resolve n (SSlice None None 1) = Some (seq 0 n).
Proof.
  unfold resolve, slice_indices, clamp. simpl (1 =? 0)%nat. cbv iota.
  rewrite Nat.div_1_r. replace (n - 0 + 1 - 1)%nat with n by lia.
  rewrite map_affine_seq. reflexivity.
Qed.

(* ================================================================== *)
(* 8. selections of bins and patches                                   *)
(* ================================================================== *)
(* Binning[I]: bin j of the result starts at the left edge of bin I_j; the last bin ends at
   the right edge of the last selected bin; closedness is kept *)
Theorem bin_select_spec b I b' :
  bin_select b I = Some b' ->
  closed_right b' = closed_right b /\ nbins b' = length I /\ all_lt (nbins b) I = true /\ I <> [] /\
  (forall j, (j < length I)%nat -> nth j (edges b') 0 = nth (nth j I 0%nat) (edges b) 0) /\
  nth (length I) (edges b') 0 = nth (S (last I 0%nat)) (edges b) 0.
Proof.
  unfold bin_select. destruct I as [|i0 I'] eqn:EI; [discriminate|]. rewrite <- EI.
  destruct (all_lt (nbins b) I) eqn:EL; [|discriminate].
  destruct (strictly_inc _); [|discriminate]. intros H. inversion H; subst b'; clear H.
  unfold nbins. simpl. rewrite app_length, sel_length. simpl.
  repeat split.
  - lia.
  - rewrite EI. discriminate.
  - intros j Hj. rewrite app_nth1 by (rewrite sel_length; exact Hj). apply nth_sel. exact Hj.
  - rewrite app_nth2 by (rewrite sel_length; lia). rewrite sel_length, Nat.sub_diag. reflexivity.
Qed.

(* c.bins[I]: the counts of bin j are the counts of bin I_j, with the binning above *)
Theorem bins_slice_spec c I r :
  pc_select_bins c I = Some r ->
  bin_select (pc_bin c) I = Some (pc_bin r) /\ pc_auto r = pc_auto c /\ pc_nb r = length I
  /\ all_lt (pc_nb c) I = true
  /\ forall j, (j < length I)%nat -> nth j (pc_counts r) [] = nth (nth j I 0%nat) (pc_counts c) [].
Proof.
  unfold pc_select_bins. destruct (bin_select (pc_bin c) I) as [b'|]; [|discriminate]. cbn [obind].
  destruct (all_lt (pc_nb c) I) eqn:EL; [|discriminate]. intros H. inversion H; subst r; clear H.
  cbn. unfold pc_nb. cbn. rewrite sel_length. repeat split.
  intros j Hj. apply nth_sel. exact Hj.
Qed.

Lemma pc_select_bins_np c I r : pc_wf c -> pc_select_bins c I = Some r -> pc_np r = pc_np c.
Proof.
  intros W H. destruct (bins_slice_spec c I r H) as (Hb & _ & _ & HL & Hn).
  destruct (bin_select_spec _ _ _ Hb) as (_ & _ & _ & Hne & _).
  assert (H0 : (0 < length I)%nat) by (destruct I; [congruence|simpl; lia]).
  unfold pc_np at 1. rewrite (Hn 0%nat H0). apply (pcw_mat _ W). apply all_lt_nth; assumption.
Qed.

Lemma submat_nth M I i j :
  (i < length I)%nat -> (j < length I)%nat ->
  nth j (nth i (submat M I) []) 0 = nth (nth j I 0%nat) (nth (nth i I 0%nat) M []) 0.
Proof.
  intros Hi Hj. unfold submat.
  rewrite (nth_mapI (fun r => sel 0 r I) _ []) by (rewrite sel_length; exact Hi).
  rewrite nth_sel by exact Hj. rewrite nth_sel by exact Hi. reflexivity.
Qed.
Lemma submat_shape M I : length (submat M I) = length I /\ forall i, (i < length I)%nat -> length (nth i (submat M I) []) = length I.
Proof.
  unfold submat. split; [rewrite map_length; apply sel_length|].
  intros i Hi. rewrite (nth_mapI (fun r => sel 0 r I) _ []) by (rewrite sel_length; exact Hi). apply sel_length.
Qed.

(* c.patches[I]: the sub-matrix [I x I] of every bin (not the diagonal pairs) *)
Theorem patches_slice_spec c I r :
  pc_select_patches c I = Some r ->
  pc_bin r = pc_bin c /\ pc_auto r = pc_auto c /\ pc_nb r = pc_nb c /\ all_lt (pc_np c) I = true /\
  forall b i j, (b < pc_nb c)%nat -> (i < length I)%nat -> (j < length I)%nat ->
    nth3 (pc_counts r) b i j = nth3 (pc_counts c) b (nth i I 0%nat) (nth j I 0%nat).
Proof.
  unfold pc_select_patches. destruct (all_lt (pc_np c) I) eqn:EL; [|discriminate].
  intros H. inversion H; subst r; clear H. cbn. unfold pc_nb. cbn. rewrite map_length. repeat split.
  intros b i j Hb Hi Hj. unfold nth3.
  rewrite (nth_mapI (fun M => submat M I) _ []) by exact Hb. apply submat_nth; assumption.
Qed.
Lemma pc_select_patches_np c I r : (1 <= pc_nb c)%nat -> pc_select_patches c I = Some r -> pc_np r = length I.
Proof.
  unfold pc_select_patches. destruct (all_lt (pc_np c) I); [|discriminate].
  intros Hb H. inversion H; subst r; clear H. unfold pc_np. cbn.
  rewrite (nth_mapI (fun M => submat M I) _ []) by exact Hb. apply submat_shape.
Qed.

(* ---- selection commutes with summation ---- *)
Theorem slice_commutes_sum_bins c I r j :
  pc_select_bins c I = Some r -> (j < length I)%nat -> pc_total_at r j = pc_total_at c (nth j I 0%nat).
Proof.
  intros H Hj. destruct (bins_slice_spec c I r H) as (_ & _ & _ & _ & Hn).
  unfold pc_total_at. rewrite (Hn j Hj). reflexivity.
Qed.
Lemma slice_jack_bins c I r k j :
  pc_select_bins c I = Some r -> (j < length I)%nat -> pc_jack_at r k j = pc_jack_at c k (nth j I 0%nat).
Proof.
  intros H Hj. destruct (bins_slice_spec c I r H) as (_ & _ & _ & _ & Hn).
  unfold pc_jack_at. rewrite (Hn j Hj). reflexivity.
Qed.
Lemma mtotal_submat M I :
  mtotal (submat M I) = qsum (map (fun i => qsum (map (fun j => nth j (nth i M []) 0) I)) I).
Proof. unfold mtotal, submat, sel. rewrite !map_map. reflexivity. Qed.
Theorem slice_commutes_sum_patches c I r b :
  pc_select_patches c I = Some r -> (b < pc_nb c)%nat ->
  pc_total_at r b = qsum (map (fun i => qsum (map (fun j => nth3 (pc_counts c) b i j) I)) I).
Proof.
  unfold pc_select_patches. destruct (all_lt (pc_np c) I); [|discriminate].
  intros H Hb. inversion H; subst r; clear H. unfold pc_total_at. cbn [pc_counts].
  rewrite (nth_mapI (fun M => submat M I) _ []) by exact Hb. apply mtotal_submat.
Qed.

(* ---- selection of bins commutes with sampling ---- *)
Lemma map_tab {A B} (g : A -> B) n f : map g (tab n f) = tab n (fun i => g (f i)).
Proof. unfold tab. apply map_map. Qed.

Lemma mk_sample_select bin bin' nb P tot jk tot' jk' I :
  bin_select bin I = Some bin' -> all_lt nb I = true ->
  (forall j, (j < length I)%nat -> tot' j = tot (nth j I 0%nat)) ->
  (forall k j, (k < P)%nat -> (j < length I)%nat -> jk' k j = jk k (nth j I 0%nat)) ->
  sd_select (mk_sample bin nb P tot jk) I = Some (mk_sample bin' (length I) P tot' jk').
Proof.
  intros Hb HL Ht Hj. unfold sd_select, mk_sample. cbn [sd_bin sd_data sd_samples]. rewrite Hb. cbn [obind].
  rewrite tab_length, HL. f_equal. f_equal.
  - rewrite (sel_tab 0 nb tot I HL). rewrite <- (tab_nth_map tot I 0%nat). apply tab_ext.
    intros j Hj'. symmetry. apply Ht. exact Hj'.
  - rewrite map_tab. apply tab_ext. intros k Hk.
    rewrite (sel_tab 0 nb (jk k) I HL). rewrite <- (tab_nth_map (jk k) I 0%nat). apply tab_ext.
    intros j Hj'. symmetry. apply Hj; assumption.
Qed.

Theorem slice_commutes_sample_bins c I r :
  pc_wf c -> pc_select_bins c I = Some r -> sd_select (pc_sample c) I = Some (pc_sample r).
Proof.
  intros W H. destruct (bins_slice_spec c I r H) as (Hb & _ & Hnb & HL & _).
  unfold pc_sample at 2. rewrite Hnb, (pc_select_bins_np c I r W H).
  apply (mk_sample_select (pc_bin c) (pc_bin r) (pc_nb c) (pc_np c) (pc_total_at c) (pc_jack_at c)); auto.
  - intros j Hj. apply (slice_commutes_sum_bins c I r j H Hj).
  - intros k j _ Hj. apply (slice_jack_bins c I r k j H Hj).
Qed.

(* PatchedSumWeights *)
Record sw_wf (s : psumw) : Prop := {
  sww_bin : bin_ok (sw_bin s) = true;
  sww_nb : sw_nb s = nbins (sw_bin s);
  sww_nb2 : length (sw2 s) = sw_nb s;
  sww_r1 : forall b, (b < sw_nb s)%nat -> length (nth b (sw1 s) []) = sw_np s;
  sww_r2 : forall b, (b < sw_nb s)%nat -> length (nth b (sw2 s) []) = sw_np s }.
Lemma sw_wfb_wf s : sw_wfb s = true -> sw_wf s.
Proof.
  unfold sw_wfb. intros H.
  apply andb_true_iff in H. destruct H as [H E5].
  apply andb_true_iff in H. destruct H as [H E4].
  apply andb_true_iff in H. destruct H as [H E3].
  apply andb_true_iff in H. destruct H as [E1 E2].
  apply Nat.eqb_eq in E2. apply Nat.eqb_eq in E3. rewrite forallb_forall in E4, E5.
  constructor; auto.
  - intros b Hb. apply Nat.eqb_eq. apply E4. apply nth_In. exact Hb.
  - intros b Hb. apply Nat.eqb_eq. apply E5. apply nth_In. rewrite E3. exact Hb.
Qed.

Lemma sw_bins_spec s I r :
  sw_select_bins s I = Some r ->
  bin_select (sw_bin s) I = Some (sw_bin r) /\ sw_auto r = sw_auto s /\ sw_nb r = length I
  /\ all_lt (sw_nb s) I = true
  /\ forall j, (j < length I)%nat ->
       nth j (sw1 r) [] = nth (nth j I 0%nat) (sw1 s) [] /\ nth j (sw2 r) [] = nth (nth j I 0%nat) (sw2 s) [].
Proof.
  unfold sw_select_bins. destruct (bin_select (sw_bin s) I) as [b'|]; [|discriminate]. cbn [obind].
  destruct (all_lt (sw_nb s) I) eqn:EL; [|discriminate]. intros H. inversion H; subst r; clear H.
  cbn. unfold sw_nb. cbn. rewrite sel_length. repeat split; apply nth_sel; assumption.
Qed.
Lemma sw_array_bins s I r j :
  sw_select_bins s I = Some r -> (j < length I)%nat -> sw_array_at r j = sw_array_at s (nth j I 0%nat).
Proof.
  intros H Hj. destruct (sw_bins_spec s I r H) as (_ & Ha & _ & _ & Hn). destruct (Hn j Hj) as [E1 E2].
  unfold sw_array_at. rewrite Ha, E1, E2. reflexivity.
Qed.
Lemma sw_select_bins_np s I r : sw_wf s -> sw_select_bins s I = Some r -> sw_np r = sw_np s.
Proof.
  intros W H. destruct (sw_bins_spec s I r H) as (Hb & _ & _ & HL & Hn).
  destruct (bin_select_spec _ _ _ Hb) as (_ & _ & _ & Hne & _).
  assert (H0 : (0 < length I)%nat) by (destruct I; [congruence|simpl; lia]).
  unfold sw_np at 1. rewrite (proj1 (Hn 0%nat H0)). apply (sww_r1 _ W). apply all_lt_nth; assumption.
Qed.
Theorem sw_slice_commutes_sample_bins s I r :
  sw_wf s -> sw_select_bins s I = Some r -> sd_select (sw_sample s) I = Some (sw_sample r).
Proof.
  intros W H. destruct (sw_bins_spec s I r H) as (Hb & _ & Hnb & HL & _).
  unfold sw_sample at 2. rewrite Hnb, (sw_select_bins_np s I r W H).
  apply (mk_sample_select (sw_bin s) (sw_bin r) (sw_nb s) (sw_np s) (sw_total_at s) (sw_jack_at s)); auto.
  - intros j Hj. unfold sw_total_at. rewrite (sw_array_bins s I r j H Hj). reflexivity.
  - intros k j _ Hj. unfold sw_jack_at. rewrite (sw_array_bins s I r j H Hj). reflexivity.
Qed.

(* NormalisedCounts *)
Lemma nc_select_bins_inv n I r :
  nc_select_bins n I = Some r ->
  pc_select_bins (nc_counts n) I = Some (nc_counts r) /\ sw_select_bins (nc_sumw n) I = Some (nc_sumw r).
Proof.
  unfold nc_select_bins. destruct (pc_select_bins (nc_counts n) I) as [c|]; [|discriminate]. cbn [obind].
  destruct (sw_select_bins (nc_sumw n) I) as [s|]; [|discriminate]. cbn [obind].
  unfold nc_make. destruct (_ && _)%bool; [|discriminate]. intros H. inversion H. auto.
Qed.
Lemma nc_total_bins n I r j :
  nc_select_bins n I = Some r -> (j < length I)%nat -> nc_total_at r j = nc_total_at n (nth j I 0%nat).
Proof.
  intros H Hj. destruct (nc_select_bins_inv n I r H) as [Hc Hs]. unfold nc_total_at, sw_total_at.
  rewrite (slice_commutes_sum_bins _ I _ j Hc Hj), (sw_array_bins _ I _ j Hs Hj). reflexivity.
Qed.
Lemma nc_jack_bins n I r k j :
  nc_select_bins n I = Some r -> (j < length I)%nat -> nc_jack_at r k j = nc_jack_at n k (nth j I 0%nat).
Proof.
  intros H Hj. destruct (nc_select_bins_inv n I r H) as [Hc Hs]. unfold nc_jack_at, sw_jack_at.
  rewrite (slice_jack_bins _ I _ k j Hc Hj), (sw_array_bins _ I _ j Hs Hj). reflexivity.
Qed.
Theorem nc_slice_commutes_sample_bins n I r :
  pc_wf (nc_counts n) -> nc_select_bins n I = Some r -> sd_select (nc_sample n) I = Some (nc_sample r).
Proof.
  intros W H. destruct (nc_select_bins_inv n I r H) as [Hc Hs].
  destruct (bins_slice_spec _ I _ Hc) as (Hb & _ & Hnb & HL & _).
  unfold nc_sample at 2. cbv zeta. rewrite Hnb, (pc_select_bins_np _ I _ W Hc).
  apply (mk_sample_select (pc_bin (nc_counts n)) (pc_bin (nc_counts r)) (pc_nb (nc_counts n)) (pc_np (nc_counts n))
           (nc_total_at n) (nc_jack_at n)); auto.
  - intros j Hj. apply (nc_total_bins n I r j H Hj).
  - intros k j _ Hj. apply (nc_jack_bins n I r k j H Hj).
Qed.

(* CorrFunc: member-wise lifting *)
Lemma opt_lift_inv g o o' :
  opt_lift g o = Some o' ->
  match o, o' with
  | Some n, Some n' => g n = Some n'
  | None, None => True
  | _, _ => False
  end.
Proof.
  destruct o as [n|]; simpl.
  - destruct (g n) as [n'|]; simpl; [|discriminate]. intros H; inversion H. reflexivity.
  - intros H; inversion H. exact I.
Qed.
Lemma cf_lift_inv g f r :
  cf_lift g f = Some r ->
  g (cf_dd f) = Some (cf_dd r) /\ opt_lift g (cf_dr f) = Some (cf_dr r)
  /\ opt_lift g (cf_rd f) = Some (cf_rd r) /\ opt_lift g (cf_rr f) = Some (cf_rr r).
Proof.
  unfold cf_lift. destruct (g (cf_dd f)) as [dd|]; [|discriminate]. cbn [obind].
  destruct (opt_lift g (cf_dr f)) as [dr|]; [|discriminate]. cbn [obind].
  destruct (opt_lift g (cf_rd f)) as [rd|]; [|discriminate]. cbn [obind].
  destruct (opt_lift g (cf_rr f)) as [rr|]; [|discriminate]. cbn [obind].
  unfold cf_make. destruct (_ && _)%bool; [|discriminate]. intros H. inversion H. cbn. auto.
Qed.
Lemma cf_est_lift g f r (h h' : ncounts -> Q) :
  cf_lift g f = Some r -> (forall n n', g n = Some n' -> h' n' = h n) ->
  cf_est r h' = cf_est f h /\ cf_est_defined r = cf_est_defined f.
Proof.
  intros H Hh. destruct (cf_lift_inv g f r H) as (Hdd & Hdr & Hrd & Hrr).
  apply opt_lift_inv in Hdr. apply opt_lift_inv in Hrd. apply opt_lift_inv in Hrr.
  unfold cf_est, cf_est_defined. rewrite (Hh _ _ Hdd).
  destruct (cf_dr f), (cf_dr r); try contradiction;
  destruct (cf_rd f), (cf_rd r); try contradiction;
  destruct (cf_rr f), (cf_rr r); try contradiction;
  repeat match goal with E : g _ = Some _ |- _ => rewrite (Hh _ _ E); clear E end; split; reflexivity.
Qed.
Theorem cf_slice_commutes_sample_bins f I r s :
  pc_wf (nc_counts (cf_dd f)) -> cf_select_bins f I = Some r -> cf_sample f = Some s ->
  exists s', cf_sample r = Some s' /\ sd_select s I = Some s'.
Proof.
  intros W H Hs. unfold cf_select_bins in H.
  destruct (cf_lift_inv _ f r H) as (Hdd & _).
  destruct (nc_select_bins_inv _ I _ Hdd) as [Hc _].
  destruct (bins_slice_spec _ I _ Hc) as (Hb & _ & Hnb & HL & _).
  unfold cf_sample in *.
  rewrite (proj2 (cf_est_lift _ f r (fun n => 0) (fun n => 0) H (fun _ _ _ => eq_refl))).
  destruct (cf_est_defined f); [|discriminate]. inversion Hs; subst s; clear Hs.
  eexists. split; [reflexivity|]. rewrite Hnb, (pc_select_bins_np _ I _ W Hc).
  apply (mk_sample_select (pc_bin (nc_counts (cf_dd f))) (pc_bin (nc_counts (cf_dd r)))
           (pc_nb (nc_counts (cf_dd f))) (pc_np (nc_counts (cf_dd f)))
           (fun b => cf_est f (fun n => nc_total_at n b)) (fun k b => cf_est f (fun n => nc_jack_at n k b))
           (fun b => cf_est r (fun n => nc_total_at n b)) (fun k b => cf_est r (fun n => nc_jack_at n k b))); auto.
  - intros j Hj. apply (cf_est_lift _ f r _ _ H). intros n n' E. apply (nc_total_bins n I n' j E Hj).
  - intros k j _ Hj. apply (cf_est_lift _ f r _ _ H). intros n n' E. apply (nc_jack_bins n I n' k j E Hj).
Qed.

(* ================================================================== *)
(* 9. selection of patches, then sampling                              *)
(*    jackknife sample m of x.patches[I] = the total of x.patches[I without its m-th
      entry]: the patch I_m is left out in addition to the patches not selected          *)
(* ================================================================== *)
Lemma In_remove_nth {A} k (l : list A) x : In x (remove_nth k l) -> In x l.
Proof.
  revert k. induction l as [|y l IH]; intros k H; simpl in *; [destruct k; exact H|].
  destruct k; simpl in H; [right; exact H|]. destruct H as [H|H]; [left; exact H|right; apply (IH k); exact H].
Qed.
Lemma all_lt_remove_nth n k I : all_lt n I = true -> all_lt n (remove_nth k I) = true.
Proof. rewrite !all_lt_spec. intros H i Hi. apply H. apply (In_remove_nth k). exact Hi. Qed.

Lemma submat_loo M I k : map (remove_nth k) (remove_nth k (submat M I)) = submat M (remove_nth k I).
Proof.
  unfold submat, sel. rewrite !remove_nth_map. rewrite map_map. apply map_ext.
  intros r. apply remove_nth_map.
Qed.
Lemma submat_rows M I k : (k < length I)%nat -> Forall (fun r => (k < length r)%nat) (submat M I).
Proof.
  intros Hk. apply Forall_forall. intros r Hr. unfold submat in Hr. apply in_map_iff in Hr.
  destruct Hr as (x & <- & _). rewrite sel_length. exact Hk.
Qed.

Theorem patch_slice_sample_loo c I r k b :
  pc_select_patches c I = Some r -> (b < pc_nb c)%nat -> (k < length I)%nat ->
  exists r', pc_select_patches c (remove_nth k I) = Some r' /\ pc_jack_at r k b == pc_total_at r' b.
Proof.
  unfold pc_select_patches. destruct (all_lt (pc_np c) I) eqn:EL; [|discriminate].
  intros H Hb Hk. inversion H; subst r; clear H. rewrite (all_lt_remove_nth _ k _ EL).
  eexists. split; [reflexivity|]. unfold pc_jack_at, pc_total_at. cbn [pc_counts].
  rewrite !(nth_mapI (fun M => submat M _) _ []) by exact Hb.
  rewrite mjack_is_loo.
  - unfold mloo. rewrite submat_loo. reflexivity.
  - rewrite (proj1 (submat_shape _ I)). exact Hk.
  - apply submat_rows. exact Hk.
Qed.

(* sum-of-weights arrays: removing row and column k of the (upper-triangular, halved
   diagonal) product array gives the product array of the shortened weight vectors *)
Definition skip (k i : nat) : nat := if (i <? k)%nat then i else S i.
Lemma nth_remove_nth {A} (l : list A) : forall k i d, nth i (remove_nth k l) d = nth (skip k i) l d.
Proof.
  induction l as [|x l IH]; intros k i d.
  - simpl. destruct k, i, (skip _ _); reflexivity.
  - destruct k as [|k]; simpl.
    + reflexivity.
    + destruct i as [|i]; [reflexivity|]. simpl. rewrite IH. unfold skip.
      change (S i <? S k)%nat with (i <? k)%nat. destruct (i <? k)%nat; reflexivity.
Qed.
Lemma remove_nth_tab {A} k n (f : nat -> A) :
  (k < n)%nat -> remove_nth k (tab n f) = tab (pred n) (fun i => f (skip k i)).
Proof.
  intros Hk. apply (nth_ext _ _ (f 0%nat) (f 0%nat)).
  - rewrite remove_nth_length, !tab_length by (rewrite tab_length; exact Hk). reflexivity.
  - intros i Hi. rewrite remove_nth_length, tab_length in Hi by (rewrite tab_length; exact Hk).
    rewrite nth_remove_nth. rewrite !nth_tab; [reflexivity|exact Hi|].
    unfold skip. destruct (Nat.ltb_spec i k); lia.
Qed.
Lemma triu_skip a k i j : triu_w a (skip k i) (skip k j) = triu_w a i j.
Proof.
  unfold triu_w, skip. destruct a; [|reflexivity].
  destruct (Nat.ltb_spec i k), (Nat.ltb_spec j k);
  repeat match goal with
         | |- context [(?x <? ?y)%nat] => destruct (Nat.ltb_spec x y)
         | |- context [(?x =? ?y)%nat] => destruct (Nat.eqb_spec x y)
         end; try reflexivity; lia.
Qed.
Lemma outer_w_loo a r1 r2 k :
  (k < length r1)%nat -> (k < length r2)%nat ->
  map (remove_nth k) (remove_nth k (outer_w a r1 r2)) = outer_w a (remove_nth k r1) (remove_nth k r2).
Proof.
  intros H1 H2. unfold outer_w. rewrite (remove_nth_tab k _ _ H1), map_tab.
  rewrite !remove_nth_length by assumption. apply tab_ext. intros i Hi.
  rewrite (remove_nth_tab k _ _ H2). apply tab_ext. intros j Hj.
  rewrite triu_skip, !nth_remove_nth. reflexivity.
Qed.
Lemma outer_w_shape a r1 r2 :
  length (outer_w a r1 r2) = length r1 /\ Forall (fun r => length r = length r2) (outer_w a r1 r2).
Proof.
  unfold outer_w. split; [apply tab_length|]. apply Forall_forall. intros r Hr.
  unfold tab at 1 in Hr. apply in_map_iff in Hr. destruct Hr as (i & <- & _). apply tab_length.
Qed.

Lemma sw_array_patches s I r b :
  sw_select_patches s I = Some r -> (b < sw_nb s)%nat -> (b < length (sw2 s))%nat ->
  sw_array_at r b = outer_w (sw_auto s) (sel 0 (nth b (sw1 s) []) I) (sel 0 (nth b (sw2 s) []) I).
Proof.
  unfold sw_select_patches. destruct (all_lt (sw_np s) I); [|discriminate].
  intros H Hb1 Hb2. inversion H; subst r; clear H. unfold sw_array_at. cbn [sw1 sw2 sw_auto].
  rewrite !(nth_mapI (fun r => sel 0 r I) _ []) by assumption. reflexivity.
Qed.

Theorem sw_patch_slice_sample_loo s I r k b :
  sw_select_patches s I = Some r -> (b < sw_nb s)%nat -> (b < length (sw2 s))%nat -> (k < length I)%nat ->
  exists r', sw_select_patches s (remove_nth k I) = Some r' /\ sw_jack_at r k b == sw_total_at r' b.
Proof.
  intros H Hb1 Hb2 Hk.
  assert (EL : all_lt (sw_np s) I = true).
  { unfold sw_select_patches in H. destruct (all_lt (sw_np s) I); [reflexivity|discriminate]. }
  destruct (sw_select_patches s (remove_nth k I)) as [r'|] eqn:H';
    [|unfold sw_select_patches in H'; rewrite (all_lt_remove_nth _ k _ EL) in H'; discriminate].
  exists r'. split; [reflexivity|]. unfold sw_jack_at, sw_total_at.
  rewrite (sw_array_patches s I r b H Hb1 Hb2), (sw_array_patches s _ r' b H' Hb1 Hb2).
  rewrite mjack_is_loo.
  - unfold mloo. rewrite outer_w_loo by (rewrite sel_length; exact Hk).
    unfold sel. rewrite !remove_nth_map. reflexivity.
  - rewrite (proj1 (outer_w_shape _ _ _)), sel_length. exact Hk.
  - eapply Forall_impl; [|apply outer_w_shape]. intros x Hx. cbv beta in Hx. rewrite Hx, sel_length. exact Hk.
Qed.

Lemma sw_select_patches_np s I r : (1 <= sw_nb s)%nat -> sw_select_patches s I = Some r -> sw_np r = length I /\ sw_bin r = sw_bin s.
Proof.
  unfold sw_select_patches. destruct (all_lt (sw_np s) I); [|discriminate].
  intros Hb H. inversion H; subst r; clear H. unfold sw_np. cbn. split; [|reflexivity].
  rewrite (nth_mapI (fun r => sel 0 r I) _ []) by exact Hb. apply sel_length.
Qed.

Theorem nc_patch_slice_sample_loo n I r k b :
  (1 <= pc_nb (nc_counts n))%nat -> (1 <= sw_nb (nc_sumw n))%nat ->
  nc_select_patches n I = Some r ->
  (b < pc_nb (nc_counts n))%nat -> (b < sw_nb (nc_sumw n))%nat -> (b < length (sw2 (nc_sumw n)))%nat ->
  (k < length I)%nat ->
  exists r', nc_select_patches n (remove_nth k I) = Some r' /\ nc_jack_at r k b == nc_total_at r' b.
Proof.
  intros N1 N2 H Hb1 Hb2 Hb3 Hk. unfold nc_select_patches in H.
  destruct (pc_select_patches (nc_counts n) I) as [c|] eqn:Hc; [|discriminate]. cbn [obind] in H.
  destruct (sw_select_patches (nc_sumw n) I) as [s|] eqn:Hs; [|discriminate]. cbn [obind] in H.
  unfold nc_make in H. destruct (_ && _)%bool eqn:Emk in H; [|discriminate]. inversion H; subst r; clear H.
  destruct (patch_slice_sample_loo _ I c k b Hc Hb1 Hk) as (c' & Hc' & Ec).
  destruct (sw_patch_slice_sample_loo _ I s k b Hs Hb2 Hb3 Hk) as (s' & Hs' & Es).
  unfold nc_select_patches. rewrite Hc', Hs'. cbn [obind]. unfold nc_make.
  destruct (patches_slice_spec _ _ _ Hc) as (B1 & _). destruct (patches_slice_spec _ _ _ Hc') as (B1' & _).
  destruct (sw_select_patches_np _ _ _ N2 Hs) as [P2 B2]. destruct (sw_select_patches_np _ _ _ N2 Hs') as [P2' B2'].
  rewrite (pc_select_patches_np _ _ _ N1 Hc'), P2', Nat.eqb_refl, B1', B2'.
  apply andb_true_iff in Emk. destruct Emk as [_ Emk]. rewrite B1, B2 in Emk. rewrite Emk. cbn [andb].
  eexists. split; [reflexivity|]. unfold nc_jack_at, nc_total_at. cbn [nc_counts nc_sumw].
  rewrite Ec, Es. reflexivity.
Qed.

(* CorrFunc: provided the smaller selection is defined, the estimator of jackknife sample m
   of f.patches[I] is the estimate of f.patches[I without its m-th entry] *)
Lemma cf_est_lift2 g1 g2 f r1 r2 (h1 h2 : ncounts -> Q) :
  cf_lift g1 f = Some r1 -> cf_lift g2 f = Some r2 ->
  (forall n n1 n2, g1 n = Some n1 -> g2 n = Some n2 -> h1 n1 == h2 n2) ->
  cf_est r1 h1 == cf_est r2 h2.
Proof.
  intros H1 H2 Hh.
  destruct (cf_lift_inv g1 f r1 H1) as (Hdd & Hdr & Hrd & Hrr).
  destruct (cf_lift_inv g2 f r2 H2) as (Kdd & Kdr & Krd & Krr).
  apply opt_lift_inv in Hdr. apply opt_lift_inv in Hrd. apply opt_lift_inv in Hrr.
  apply opt_lift_inv in Kdr. apply opt_lift_inv in Krd. apply opt_lift_inv in Krr.
  unfold cf_est.
  destruct (cf_dr f), (cf_dr r1), (cf_dr r2); try contradiction;
  destruct (cf_rd f), (cf_rd r1), (cf_rd r2); try contradiction;
  destruct (cf_rr f), (cf_rr r1), (cf_rr r2); try contradiction;
  repeat match goal with
         | E1 : g1 ?n = Some ?a, E2 : g2 ?n = Some ?b |- _ => rewrite ?(Hh _ _ _ E1 E2); clear E1 E2
         end; reflexivity.
Qed.
Theorem cf_patch_slice_sample_loo f I r r' k b :
  (forall n, In n (cf_dd f :: concat (map (fun o => match o with Some n => [n] | None => [] end)
                                       [cf_dr f; cf_rd f; cf_rr f])) ->
      (1 <= pc_nb (nc_counts n))%nat /\ (1 <= sw_nb (nc_sumw n))%nat /\ (b < pc_nb (nc_counts n))%nat
      /\ (b < sw_nb (nc_sumw n))%nat /\ (b < length (sw2 (nc_sumw n)))%nat) ->
  cf_select_patches f I = Some r -> cf_select_patches f (remove_nth k I) = Some r' -> (k < length I)%nat ->
  cf_est r (fun n => nc_jack_at n k b) == cf_est r' (fun n => nc_total_at n b).
Proof.
  intros W H H' Hk. unfold cf_select_patches in *.
  assert (G : forall n n1 n2, nc_select_patches n I = Some n1 -> nc_select_patches n (remove_nth k I) = Some n2 ->
              In n (cf_dd f :: concat (map (fun o => match o with Some n => [n] | None => [] end)
                                       [cf_dr f; cf_rd f; cf_rr f])) ->
              nc_jack_at n1 k b == nc_total_at n2 b).
  { intros n n1 n2 E1 E2 Hin. destruct (W n Hin) as (A1 & A2 & A3 & A4 & A5).
    destruct (nc_patch_slice_sample_loo n I n1 k b A1 A2 E1 A3 A4 A5 Hk) as (n2' & E2' & Eq).
    rewrite E2 in E2'. inversion E2'; subst n2'. exact Eq. }
  destruct (cf_lift_inv _ f r H) as (Hdd & Hdr & Hrd & Hrr).
  destruct (cf_lift_inv _ f r' H') as (Kdd & Kdr & Krd & Krr).
  apply opt_lift_inv in Hdr. apply opt_lift_inv in Hrd. apply opt_lift_inv in Hrr.
  apply opt_lift_inv in Kdr. apply opt_lift_inv in Krd. apply opt_lift_inv in Krr.
  unfold cf_est. simpl in G.
  destruct (cf_dr f) as [ndr|], (cf_dr r), (cf_dr r'); try contradiction;
  destruct (cf_rd f) as [nrd|], (cf_rd r), (cf_rd r'); try contradiction;
  destruct (cf_rr f) as [nrr|], (cf_rr r), (cf_rr r'); try contradiction;
  repeat match goal with
         | E1 : nc_select_patches ?n I = Some ?a, E2 : nc_select_patches ?n _ = Some ?b |- _ =>
           rewrite ?(G _ _ _ E1 E2) by (simpl; tauto); clear E1 E2
         end; reflexivity.
Qed.

(* ================================================================== *)
(* 10. iteration                                                       *)
(* ================================================================== *)
Lemma iterate_spec {A} n (cb : selector -> option A) : forall fuel i,
  (i + fuel = S n)%nat -> (i <= n)%nat ->
  iterate n cb fuel i = oseq (map (fun j => cb (SInt (Z.of_nat j))) (seq i (n - i))).
Proof.
  induction fuel as [|fuel IH]; intros i E Hi; [lia|]. cbn [iterate].
  destruct (Nat.eq_dec i n) as [->|Hne].
  - rewrite (resolve_int_out n n) by lia. rewrite Nat.sub_diag. reflexivity.
  - rewrite (resolve_int n i) by lia.
    replace (n - i)%nat with (S (n - S i)) by lia. cbn [seq map oseq].
    rewrite (IH (S i)) by lia. destruct (cb (SInt (Z.of_nat i))); reflexivity.
Qed.
(* iterating an Indexer of length n is the list of the single-index selections 0..n-1, in
   order; it raises iff one of them raises *)
Theorem iteration_lists_all {A} n (cb : selector -> option A) :
  iter_all n cb = oseq (tab n (fun i => cb (SInt (Z.of_nat i)))).
Proof. unfold iter_all, tab. rewrite (iterate_spec n cb (S n) 0) by lia. rewrite Nat.sub_0_r. reflexivity. Qed.

Lemma oseq_tab_some {A} n (f : nat -> option A) (g : nat -> A) :
  (forall i, (i < n)%nat -> f i = Some (g i)) -> oseq (tab n f) = Some (tab n g).
Proof.
  intros H. unfold tab.
  assert (G : forall l, (forall i, In i l -> (i < n)%nat) -> oseq (map f l) = Some (map g l)).
  { induction l as [|x l IH]; intros Hl; simpl; [reflexivity|].
    rewrite (H x) by (apply Hl; left; reflexivity). rewrite IH by (intros i Hi; apply Hl; right; exact Hi).
    reflexivity. }
  apply G. intros i Hi. apply in_seq in Hi. lia.
Qed.

Lemma strictly_inc_nth l : forall i,
  strictly_inc l = true -> (S i < length l)%nat -> Qltb (nth i l 0) (nth (S i) l 0) = true.
Proof.
  induction l as [|x l IH]; intros i H Hi; simpl in Hi; [lia|].
  destruct l as [|y l]; simpl in Hi; [lia|].
  change (Qltb x y && strictly_inc (y :: l) = true) in H. apply andb_true_iff in H. destruct H as [H1 H2].
  destruct i as [|i]; [exact H1|]. apply (IH i H2). simpl. lia.
Qed.

Theorem pc_iter_bins c :
  pc_wf c -> iter_all (nbins (pc_bin c)) (pc_bins c) = Some (tab (nbins (pc_bin c)) (pc_bin_item c)).
Proof.
  intros W. rewrite iteration_lists_all. apply oseq_tab_some. intros i Hi.
  unfold pc_bins. rewrite (resolve_int _ i Hi). cbn [obind]. unfold pc_select_bins, bin_select.
  assert (E1 : all_lt (nbins (pc_bin c)) [i] = true).
  { unfold all_lt. simpl. destruct (Nat.ltb_spec i (nbins (pc_bin c))); [reflexivity|lia]. }
  rewrite E1. cbn [sel map last app].
  assert (E2 : strictly_inc [nth i (edges (pc_bin c)) 0; nth (S i) (edges (pc_bin c)) 0] = true).
  { simpl. rewrite strictly_inc_nth; [reflexivity| |].
    - pose proof (pcw_bin _ W) as B. unfold bin_ok in B. apply andb_true_iff in B. tauto.
    - unfold nbins in Hi. lia. }
  rewrite E2. cbn [obind]. rewrite (pcw_nb _ W), E1. reflexivity.
Qed.
Theorem pc_iter_patches c :
  iter_all (pc_np c) (pc_patches c) = Some (tab (pc_np c) (pc_patch_item c)).
Proof.
  rewrite iteration_lists_all. apply oseq_tab_some. intros i Hi.
  unfold pc_patches. rewrite (resolve_int _ i Hi). cbn [obind]. unfold pc_select_patches.
  assert (E1 : all_lt (pc_np c) [i] = true).
  { unfold all_lt. simpl. destruct (Nat.ltb_spec i (pc_np c)); [reflexivity|lia]. }
  rewrite E1. reflexivity.
Qed.

(* ================================================================== *)
(* 11. the pinned code                                                 *)
(* ================================================================== *)
(* counts[:, item, item]: slices are handled as the specification demands ... *)
Theorem patches_slice_current_slice_ok c s :
  is_slice s = true -> pc_patches_current c s = pc_patches c s.
Proof.
  intros H. unfold pc_patches_current, pc_patches, pc_select_patches, pc_index_current. rewrite H.
  destruct (resolve (pc_np c) s) as [I|]; [|reflexivity]. cbn [obind].
  destruct (all_lt (pc_np c) I); reflexivity.
Qed.
(* ... an int or a list never yields a container: numpy pairs the two index lists *)
Theorem patches_slice_current_nonslice c s : is_slice s = false -> pc_patches_current c s = None.
Proof.
  intros H. unfold pc_patches_current, pc_index_current. rewrite H.
  destruct (resolve (pc_np c) s) as [I|]; [|reflexivity]. cbn [obind].
  destruct (all_lt (pc_np c) I); reflexivity.
Qed.
Lemma fancy_pairs_diag C I b m :
  (b < length C)%nat -> (m < length I)%nat ->
  nth m (nth b (fancy_pairs C I) []) 0 = nth3 C b (nth m I 0%nat) (nth m I 0%nat).
Proof.
  intros Hb Hm. unfold fancy_pairs, nth3.
  rewrite (nth_mapI (fun M => map (fun i => nth i (nth i M []) 0) I) _ []) by exact Hb.
  rewrite (nth_mapI (fun i => nth i (nth i (nth b C []) []) 0) _ 0%nat) by exact Hm. reflexivity.
Qed.

Definition c17_pc_example : pcounts :=
  {| pc_bin := {| edges := [0; 1; 2]; closed_right := true |}; pc_auto := false;
     pc_counts := [[[1; 2; 3]; [4; 5; 6]; [7; 8; 9]]; [[10; 20; 30]; [40; 50; 60]; [70; 80; 90]]] |}.
Theorem patches_slice_current_refuted :
  exists c, pc_wfb c = true /\
    (exists r, pc_patches c (SInt 1) = Some r) /\ pc_patches_current c (SInt 1) = None /\
    (exists r, pc_patches c (SList [0; 2]%Z) = Some r /\
               nth 0 (pc_counts r) [] = [[1; 3]; [7; 9]]) /\
    pc_patches_current c (SList [0; 2]%Z) = None /\
    fancy_pairs (pc_counts c) [0; 2]%nat = [[1; 9]; [10; 90]] /\
    (exists r, iter_all (pc_np c) (pc_patches c) = Some r) /\
    iter_all (pc_np c) (pc_patches_current c) = None.
Proof.
  exists c17_pc_example. vm_compute. repeat split; try (eexists; reflexivity).
  eexists. split; reflexivity.
Qed.

Definition c17_nc_example : ncounts :=
  {| nc_counts := c17_pc_example;
     nc_sumw := {| sw_bin := pc_bin c17_pc_example; sw_auto := false;
                   sw1 := [[1; 2; 1]; [2; 1; 1]]; sw2 := [[1; 1; 2]; [1; 2; 2]] |} |}.
Theorem nc_mul_current_refuted :
  exists n k, nc_wfb n = true /\ nc_mul_current k n = None /\ run (VNC n) (OMul k) <> Err.
Proof. exists c17_nc_example, 2. vm_compute. repeat split. discriminate. Qed.

Definition c17_sd_example : sdata :=
  {| sd_bin := {| edges := [0; 1; 2]; closed_right := true |}; sd_data := [1; 2];
     sd_samples := [[1; 3]; [2; 1]] |}.
Theorem sd_add_current_refuted :
  exists d, sd_wfb d = true /\ sd_add_current d d = None /\ sd_sub_current d d = None /\
            (exists r, sd_add d d = Some r /\ sd_data r = [2; 4]) /\
            (exists r, sd_sub d d = Some r /\ Forall (fun x => x == 0) (sd_data r)).
Proof.
  exists c17_sd_example. vm_compute. repeat split; eexists; (split; [reflexivity|]).
  - reflexivity.
  - repeat constructor.
Qed.

(* CorrFunc.__add__ of the pinned code: a + b silently drops the member that only b has,
   while b + a raises; the specification rejects both *)
Definition c17_cf_example_a : corrfunc :=
  {| cf_dd := c17_nc_example; cf_dr := Some c17_nc_example; cf_rd := None; cf_rr := None |}.
Definition c17_cf_example_b : corrfunc :=
  {| cf_dd := c17_nc_example; cf_dr := Some c17_nc_example; cf_rd := None; cf_rr := Some c17_nc_example |}.
Theorem cf_add_current_refuted :
  exists a b, cf_wfb a = true /\ cf_wfb b = true /\
    (exists r, cf_add_current a b = Some r /\ cf_rr r = None) /\ cf_add_current b a = None /\
    cf_add a b = None /\ cf_add b a = None.
Proof.
  exists c17_cf_example_a, c17_cf_example_b. vm_compute. repeat split.
  eexists. split; reflexivity.
Qed.

(* ================================================================== *)
(* 12. rejected selections; the two sides compared by the checker      *)
(* ================================================================== *)
Theorem bins_out_of_range_rejected c i : (nbins (pc_bin c) <= i)%nat -> pc_bins c (SInt (Z.of_nat i)) = None.
Proof. intros H. unfold pc_bins. rewrite resolve_int_out by exact H. reflexivity. Qed.
Theorem patches_out_of_range_rejected c i : (pc_np c <= i)%nat -> pc_patches c (SInt (Z.of_nat i)) = None.
Proof. intros H. unfold pc_patches. rewrite resolve_int_out by exact H. reflexivity. Qed.
Theorem empty_bin_selection_rejected c : pc_select_bins c [] = None.
Proof. reflexivity. Qed.
Theorem bool_scalar_rejected x : run x OMulBool = Err.
Proof. reflexivity. Qed.

(* run = spec, the two flags of c17_case, for the operators with a separate spec side *)
Theorem run_spec_add a b : pc_wf a -> pc_wf b -> run (VPC a) (OAdd (VPC b)) = spec (VPC a) (OAdd (VPC b)).
Proof. intros Wa Wb. simpl. rewrite (pc_add_is_spec a b Wa Wb). destruct (pc_add_spec a b); reflexivity. Qed.
Theorem run_spec_mul k a : pc_wf a -> run (VPC a) (OMul k) = spec (VPC a) (OMul k).
Proof. intros Wa. simpl. rewrite (pc_mul_is_spec k a Wa). reflexivity. Qed.
Theorem run_spec_iter_bins x : run x OIterBins = spec x OIterBins.
Proof. simpl. rewrite iteration_lists_all. reflexivity. Qed.
Theorem run_spec_iter_patches x : run x OIterPatches = spec x OIterPatches.
Proof. destruct x; simpl; try rewrite iteration_lists_all; reflexivity. Qed.
Theorem run_spec_bins_sample c s : pc_wf c -> run (VPC c) (OBinsSample s) = spec (VPC c) (OBinsSample s).
Proof.
  intros W. simpl. unfold pc_bins. destruct (resolve (nbins (pc_bin c)) s) as [I|]; [|reflexivity]. cbn [obind].
  destruct (pc_select_bins c I) as [r|] eqn:E.
  - cbn [omap obind v_sample]. rewrite (slice_commutes_sample_bins c I r W E). reflexivity.
  - cbn [omap obind]. unfold pc_select_bins in E. unfold sd_select, pc_sample. cbn [sd_bin sd_data sd_samples].
    destruct (bin_select (pc_bin c) I); [|reflexivity]. cbn [obind] in *. rewrite tab_length.
    destruct (all_lt (pc_nb c) I); [discriminate|reflexivity].
Qed.

(* ================================================================== *)
(* 13. the same statements with the executable well-formedness checks  *)
(*     as hypotheses (what Props/C17.v quotes)                         *)
(* ================================================================== *)
Lemma nc_wfb_pc n : nc_wfb n = true -> pc_wfb (nc_counts n) = true.
Proof.
  unfold nc_wfb. intros H. apply andb_true_iff in H. destruct H as [H _].
  apply andb_true_iff in H. destruct H as [H _]. apply andb_true_iff in H. tauto.
Qed.
Lemma cf_wfb_dd f : cf_wfb f = true -> nc_wfb (cf_dd f) = true.
Proof.
  unfold cf_wfb. intros H. do 4 (apply andb_true_iff in H; destruct H as [H _]). exact H.
Qed.

Theorem add_counts_b a b r :
  pc_wfb a = true -> pc_wfb b = true -> pc_add a b = Some r ->
  pc_bin r = pc_bin a /\ pc_auto r = pc_auto a /\ pc_nb r = pc_nb a /\ pc_np r = pc_np a /\
  forall bi i j, (bi < pc_nb a)%nat -> (i < pc_np a)%nat -> (j < pc_np a)%nat ->
    nth3 (pc_counts r) bi i j = nth3 (pc_counts a) bi i j + nth3 (pc_counts b) bi i j.
Proof. intros Wa Wb. apply add_counts; apply pc_wfb_wf; assumption. Qed.
Theorem add_assoc_b a b c ab r :
  pc_wfb a = true -> pc_wfb b = true -> pc_wfb c = true ->
  pc_add a b = Some ab -> pc_add ab c = Some r ->
  exists bc r', pc_add b c = Some bc /\ pc_add a bc = Some r' /\ pc_equiv r r'.
Proof. intros Wa Wb Wc. apply add_assoc; apply pc_wfb_wf; assumption. Qed.
Theorem slice_commutes_sample_bins_b c I r :
  pc_wfb c = true -> pc_select_bins c I = Some r -> sd_select (pc_sample c) I = Some (pc_sample r).
Proof. intros W. apply slice_commutes_sample_bins. apply pc_wfb_wf. exact W. Qed.
Theorem sw_slice_commutes_sample_bins_b s I r :
  sw_wfb s = true -> sw_select_bins s I = Some r -> sd_select (sw_sample s) I = Some (sw_sample r).
Proof. intros W. apply sw_slice_commutes_sample_bins. apply sw_wfb_wf. exact W. Qed.
Theorem nc_slice_commutes_sample_bins_b n I r :
  nc_wfb n = true -> nc_select_bins n I = Some r -> sd_select (nc_sample n) I = Some (nc_sample r).
Proof. intros W. apply nc_slice_commutes_sample_bins. apply pc_wfb_wf, nc_wfb_pc. exact W. Qed.
Theorem cf_slice_commutes_sample_bins_b f I r s :
  cf_wfb f = true -> cf_select_bins f I = Some r -> cf_sample f = Some s ->
  exists s', cf_sample r = Some s' /\ sd_select s I = Some s'.
Proof. intros W. apply cf_slice_commutes_sample_bins. apply pc_wfb_wf, nc_wfb_pc, cf_wfb_dd. exact W. Qed.
Theorem pc_iter_bins_b c :
  pc_wfb c = true -> iter_all (nbins (pc_bin c)) (pc_bins c) = Some (tab (nbins (pc_bin c)) (pc_bin_item c)).
Proof. intros W. apply pc_iter_bins. apply pc_wfb_wf. exact W. Qed.
Theorem run_spec_add_b a b :
  pc_wfb a = true -> pc_wfb b = true -> run (VPC a) (OAdd (VPC b)) = spec (VPC a) (OAdd (VPC b)).
Proof. intros Wa Wb. apply run_spec_add; apply pc_wfb_wf; assumption. Qed.
Theorem run_spec_mul_b k a : pc_wfb a = true -> run (VPC a) (OMul k) = spec (VPC a) (OMul k).
Proof. intros Wa. apply run_spec_mul; apply pc_wfb_wf; assumption. Qed.
Theorem run_spec_bins_sample_b c s :
  pc_wfb c = true -> run (VPC c) (OBinsSample s) = spec (VPC c) (OBinsSample s).
Proof. intros W. apply run_spec_bins_sample. apply pc_wfb_wf. exact W. Qed.
