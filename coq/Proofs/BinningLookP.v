(* C10, calls that only look between two measurements (Model/BinningLook.v):
   with copying accessors, or without in-place updates, every later measurement uses the edges the configuration was
   created with; an in-place update of what an aliasing accessor hands out moves the stored edges and with them the bins. *)
From Coq Require Import Qminmax.
From Verif Require Import Prelude Binning BinningP BinningLook.
Open Scope Q_scope.

(* ---------- the heap ---------- *)
Lemma arr_upd_other (hp : heap) ad x : ad <> 0%nat -> arr (upd hp ad x) 0 = arr hp 0.
Proof. intros H. unfold arr. destruct hp as [|a r]; destruct ad as [|k]; simpl; try reflexivity; congruence. Qed.

Lemma arr_app_first (hp : heap) v : (1 <= length hp)%nat -> arr (hp ++ [v]) 0 = arr hp 0.
Proof. intros H. unfold arr. apply app_nth1. lia. Qed.

(* array 0 holds the created edges, and no handle points to it *)
Definition look_inv (edges : list Q) (st : lstate) : Prop :=
  stored st = edges /\ (1 <= length (fst st))%nat /\ Forall (fun h : handle => fst h <> 0%nat) (snd st).
(* array 0 holds the created edges *)
Definition look_inv0 (edges : list Q) (st : lstate) : Prop :=
  stored st = edges /\ (1 <= length (fst st))%nat.

Lemma look_inv_init edges : look_inv edges (linit edges).
Proof. unfold look_inv, linit, stored, arr. simpl. repeat split; auto. Qed.

Lemma alloc_inv edges v st : look_inv edges st -> look_inv edges (alloc v st).
Proof.
  intros [Hs [Hl Hh]]. unfold look_inv, alloc, stored in *. simpl. split; [|split].
  - rewrite arr_app_first by exact Hl. exact Hs.
  - rewrite app_length. simpl. lia.
  - apply Forall_app. split; [exact Hh|]. constructor; [simpl; lia|constructor].
Qed.

Lemma alloc_inv0 edges v st : look_inv0 edges st -> look_inv0 edges (alloc v st).
Proof.
  intros [Hs Hl]. unfold look_inv0, alloc, stored in *. simpl. split.
  - rewrite arr_app_first by exact Hl. exact Hs.
  - rewrite app_length. simpl. lia.
Qed.

Lemma lwrite_inv edges h w st : look_inv edges st -> look_inv edges (lwrite h w st).
Proof.
  intros Hi. unfold lwrite. destruct (nth_error (snd st) h) as [[ad [off len]]|] eqn:E; [|exact Hi].
  destruct Hi as [Hs [Hl Hh]]. unfold look_inv, stored in *. simpl. split; [|split].
  - rewrite arr_upd_other; [exact Hs|].
    apply nth_error_In in E. rewrite Forall_forall in Hh. exact (Hh _ E).
  - rewrite upd_length. exact Hl.
  - exact Hh.
Qed.

Lemma lfresh_inv edges h w st : look_inv edges st -> look_inv edges (lfresh h w st).
Proof. intros Hi. unfold lfresh. destruct (nth_error (snd st) h); [apply alloc_inv|]; exact Hi. Qed.

Lemma lfresh_inv0 edges h w st : look_inv0 edges st -> look_inv0 edges (lfresh h w st).
Proof. intros Hi. unfold lfresh. destruct (nth_error (snd st) h); [apply alloc_inv0|]; exact Hi. Qed.

Lemma lget_copy_inv edges src a st : look_inv edges st -> look_inv edges (lget src a false st).
Proof. intros Hi. unfold lget. apply alloc_inv. exact Hi. Qed.

Lemma lget_inv0 edges src a alias st : look_inv0 edges st -> look_inv0 edges (lget src a alias st).
Proof.
  intros Hi. unfold lget.
  destruct (if alias then acc_window a (arr (fst st) src) else None); [|apply alloc_inv0; exact Hi].
  destruct Hi as [Hs Hl]. unfold look_inv0, stored in *. simpl. split; assumption.
Qed.

(* plot with an in-place shift of a COPY: the stored edges and the caller's handles stay *)
Lemma lplot_copy_inv edges src inplace step xo st :
  look_inv edges st -> look_inv edges (lplot src inplace false step xo st).
Proof.
  intros Hi. unfold lplot. destruct inplace; [|exact Hi].
  pose proof (lwrite_inv edges (length (snd st)) (WAdd xo) _
                (lget_copy_inv edges src (if step then AEdges else AMids) st Hi)) as [Hs [Hl _]].
  destruct Hi as [_ [_ Hh]]. unfold look_inv, stored in *. simpl. split; [exact Hs|]. split; [exact Hl|exact Hh].
Qed.

Lemma lstep_copying_inv edges op st :
  op_copying op = true -> look_inv edges st -> look_inv edges (lstep op st).
Proof.
  intros Hc Hi. destruct op as [src a alias|h w|h w| |src inplace alias step xo]; simpl in *.
  - destruct alias; [discriminate|]. apply lget_copy_inv. exact Hi.
  - apply lwrite_inv. exact Hi.
  - apply lfresh_inv. exact Hi.
  - exact Hi.
  - destruct inplace; [|exact Hi]. destruct alias; [discriminate|]. apply lplot_copy_inv. exact Hi.
Qed.

Lemma lstep_nowrite_inv0 edges op st :
  op_nowrite op = true -> look_inv0 edges st -> look_inv0 edges (lstep op st).
Proof.
  intros Hc Hi. destruct op as [src a alias|h w|h w| |src inplace alias step xo]; simpl in *.
  - apply lget_inv0. exact Hi.
  - discriminate.
  - apply lfresh_inv0. exact Hi.
  - exact Hi.
  - unfold lplot. destruct inplace; [discriminate|exact Hi].
Qed.

Lemma lrun_copying_inv edges ops : forall st,
  forallb op_copying ops = true -> look_inv edges st -> look_inv edges (lrun ops st).
Proof.
  induction ops as [|op ops IH]; intros st Hc Hi; simpl in *; [exact Hi|].
  apply andb_true_iff in Hc. destruct Hc as [H1 H2].
  apply IH; [exact H2|]. apply lstep_copying_inv; assumption.
Qed.

Lemma lrun_nowrite_inv0 edges ops : forall st,
  forallb op_nowrite ops = true -> look_inv0 edges st -> look_inv0 edges (lrun ops st).
Proof.
  induction ops as [|op ops IH]; intros st Hc Hi; simpl in *; [exact Hi|].
  apply andb_true_iff in Hc. destruct Hc as [H1 H2].
  apply IH; [exact H2|]. apply lstep_nowrite_inv0; assumption.
Qed.

(* ---------- copying accessors: whatever is done with what they hand out (in-place updates included, by the caller or
   inside a library call), the configuration keeps the edges it was created with ---------- *)
Theorem look_copying_keeps_edges edges ops :
  forallb op_copying ops = true -> edges_after edges ops = edges.
Proof.
  intros Hc. unfold edges_after.
  exact (proj1 (lrun_copying_inv edges ops (linit edges) Hc (look_inv_init edges))).
Qed.

(* ---------- no in-place update: aliasing accessors are harmless (x = binning.edges + xoffset) ---------- *)
Theorem look_nowrite_keeps_edges edges ops :
  forallb op_nowrite ops = true -> edges_after edges ops = edges.
Proof.
  intros Hc. unfold edges_after.
  assert (I : look_inv0 edges (linit edges)) by (unfold look_inv0, linit, stored, arr; simpl; split; auto).
  exact (proj1 (lrun_nowrite_inv0 edges ops (linit edges) Hc I)).
Qed.

(* ... hence every later measurement with the same configuration object follows the rule for the CREATED edges *)
Theorem look_safe_member hasw cr edges ops objs :
  forallb op_copying ops = true \/ forallb op_nowrite ops = true ->
  increasing edges -> (2 <= length edges)%nat ->
  edges_after edges ops = edges /\
  (forall b, (b < nbins edges)%nat ->
     fst (nth b (build_trees_fix hasw cr (edges_after edges ops) objs) dummy_tree) = spec_count cr edges objs b /\
     snd (nth b (build_trees_fix hasw cr (edges_after edges ops) objs) dummy_tree) == spec_weight hasw cr edges objs b /\
     nth b (hist_fix hasw cr (edges_after edges ops) objs) 0 == spec_weight hasw cr edges objs b) /\
  (forall z b, member cr (edges_after edges ops) b z <-> member cr edges b z).
Proof.
  intros Hs Hinc Hlen.
  assert (E : edges_after edges ops = edges).
  { destruct Hs as [H|H]; [apply look_copying_keeps_edges|apply look_nowrite_keeps_edges]; exact H. }
  rewrite E. split; [reflexivity|]. split; [|intros; reflexivity].
  intros b Hb.
  destruct (trees_partition hasw cr edges objs Hinc Hlen) as [_ [Ht _]].
  destruct (Ht b Hb) as [_ [_ [Hn Hw]]].
  destruct (hist_fix_member hasw cr edges objs Hinc Hlen) as [_ [Hh _]].
  split; [exact Hn|]. split; [exact Hw|]. exact (Hh b Hb).
Qed.

(* ---------- the aliasing variant ---------- *)
Lemma increasing_map_add d l : increasing l -> increasing (map (fun x => x + d) l).
Proof.
  induction l as [|a l IH]; intros H; [exact I|].
  destruct l as [|b l]; [exact I|].
  destruct H as [Hab Hr]. split.
  - apply Qplus_lt_l. exact Hab.
  - apply IH. exact Hr.
Qed.

(* x = binning.edges hands out the stored array; x += d (by the caller, or inside plot(style=step, xoffset=d)) *)
Lemma alias_shift_edges edges d :
  edges_after edges [LGet 0 AEdges true; LWrite 0 (WAdd d)] = map (fun x => x + d) edges /\
  edges_after edges [LPlot 0 true true true d] = map (fun x => x + d) edges.
Proof.
  unfold edges_after, lrun, linit, stored, lstep, lplot, lget, lwrite, arr, acc_window, write_window, window, wr_apply.
  simpl. rewrite firstn_all, skipn_all, app_nil_r. split; reflexivity.
Qed.

(* for EVERY binning and every positive shift there is a redshift that the created edges put into the first bin and that
   the measurement made after the update puts into no bin at all (both closed sides) *)
Theorem look_aliasing_refuted cr edges d :
  increasing edges -> (2 <= length edges)%nat -> 0 < d ->
  edges_after edges [LGet 0 AEdges true; LWrite 0 (WAdd d)] = map (fun x => x + d) edges /\
  edges_after edges [LPlot 0 true true true d] = map (fun x => x + d) edges /\
  exists z, member cr edges 0 z /\
    forall b, ~ member cr (edges_after edges [LPlot 0 true true true d]) b z.
Proof.
  intros Hinc Hlen Hd.
  destruct (alias_shift_edges edges d) as [E1 E2].
  split; [exact E1|]. split; [exact E2|]. rewrite E2.
  destruct edges as [|e0 [|e1 r]]; simpl in Hlen; try lia.
  assert (H01 : e0 < e1) by (destruct Hinc as [H _]; exact H).
  assert (Hinc' : increasing (map (fun x => x + d) (e0 :: e1 :: r))) by (apply increasing_map_add; exact Hinc).
  assert (Hlen' : (2 <= length (map (fun x => Qplus x d) (e0 :: e1 :: r)))%nat) by (rewrite map_length; simpl; lia).
  pose proof (proj2 (proj2 (proj2 (trees_partition true cr _ [] Hinc' Hlen')))) as Hout.
  assert (Hlt : e0 < e0 + d).
  { rewrite <- (Qplus_0_r e0) at 1. apply Qplus_lt_r. exact Hd. }
  destruct cr.
  - exists (Qmin (e0 + d) e1). split.
    + unfold member, edge. simpl. split; [lia|]. split.
      * apply Q.min_glb_lt; assumption.
      * apply Q.le_min_r.
    + intros b. apply Hout. left. unfold below, ehd, edge. simpl. apply Q.le_min_l.
  - exists e0. split.
    + unfold member, edge. simpl. split; [lia|]. split; [apply Qle_refl|exact H01].
    + intros b. apply Hout. left. unfold below, ehd, edge. simpl. exact Hlt.
Qed.

(* ---------- non-vacuity: one binning, two objects on edges, closed = left ----------
   created edges 1/4, 1/2, 1;  objects at 1/4 (first bin) and 1/2 (second bin), weights 1 and 2 *)
Definition look_ex_edges : list Q := [1 # 4; 1 # 2; 1].
Definition look_ex_objs : list obj := [(1 # 4, 1); (1 # 2, 2)].
Definition look_ex_trees (ops : list lop) : list tree :=
  build_trees_fix true false (edges_after look_ex_edges ops) look_ex_objs.

Example look_example :
  (* the rule on the created edges *)
  trees_eqb (spec_trees true false look_ex_edges look_ex_objs) [(1%nat, 1); (1%nat, 2)] = true /\
  (* looking, plot written as x = edges + xoffset on an aliasing accessor, plot written in place on a copying accessor,
     in-place shift of the (computed) bin centres, the caller's in-place update of a copy: unchanged *)
  trees_eqb (look_ex_trees [LLook; LPlot 0 false true true (1 # 16); LGet 0 ALeft true; LFresh 0 (WMul 2)])
            [(1%nat, 1); (1%nat, 2)] = true /\
  trees_eqb (look_ex_trees [LPlot 0 true false true (1 # 16)]) [(1%nat, 1); (1%nat, 2)] = true /\
  trees_eqb (look_ex_trees [LPlot 0 true true false (1 # 16)]) [(1%nat, 1); (1%nat, 2)] = true /\
  trees_eqb (look_ex_trees [LGet 0 AEdges false; LWrite 0 (WAdd (1 # 16)); LWrite 0 WSort; LWrite 0 (WSet 0 5)])
            [(1%nat, 1); (1%nat, 2)] = true /\
  (* plot(style=step, xoffset=1/16) written in place on the aliasing accessor: edges 5/16, 9/16, 17/16 -
     the object at 1/4 is dropped, the object at 1/2 moves to the first bin *)
  qlist_eqb (edges_after look_ex_edges [LPlot 0 true true true (1 # 16)]) [5 # 16; 9 # 16; 17 # 16] = true /\
  trees_eqb (look_ex_trees [LPlot 0 true true true (1 # 16)]) [(1%nat, 2); (0%nat, 0)] = true /\
  (* the offsets of repeated calls add up *)
  qlist_eqb (edges_after look_ex_edges [LPlot 0 true true true (1 # 16); LLook; LPlot 0 true true true (1 # 16)])
            [3 # 8; 5 # 8; 9 # 8] = true /\
  (* .right is a view of the stored array: x = binning.right; x *= 2 moves the inner and the last edge *)
  qlist_eqb (edges_after look_ex_edges [LGet 0 ARight true; LWrite 0 (WMul 2)]) [1 # 4; 1; 2] = true /\
  trees_eqb (look_ex_trees [LGet 0 ARight true; LWrite 0 (WMul 2)]) [(2%nat, 3); (0%nat, 0)] = true.
Proof. vm_compute. repeat split; reflexivity. Qed.

(* ---------- the checker: code 0 means the configuration reports the created binning and the three consumers follow
   the rule for the CREATED edges ---------- *)
Theorem look_case_sound cr hasw edges ops patches rep_cr rep_edges trees hist meas :
  c10_look_case cr hasw edges ops patches rep_cr rep_edges trees hist meas = 0%nat ->
  increasing edges /\ (2 <= length edges)%nat /\ rep_cr = cr /\ qlist_eqb rep_edges edges = true /\
  list_eqb (opt_eqb trees_eqb) trees (map (fun p => Some (spec_trees hasw cr edges p)) patches) = true /\
  (forall h, hist = Some h -> qlist_eqb h (spec_hist hasw cr edges patches) = true) /\
  (forall m, meas = Some m -> qmat_eqb m (spec_sum_weights hasw cr edges patches) = true).
Proof.
  unfold c10_look_case, code. intros H. apply code_from_zero in H; [|lia].
  simpl in H. repeat (apply andb_true_iff in H; destruct H as [?H H]).
  repeat match goal with K : (_ && _)%bool = true |- _ => apply andb_true_iff in K; destruct K as [?K ?K] end.
  split; [apply increasingb_spec; assumption|].
  split; [apply Nat.leb_le; assumption|].
  split; [symmetry; apply Bool.eqb_prop; assumption|].
  split; [assumption|]. split; [assumption|]. split.
  - intros h Eh. subst hist. assumption.
  - intros m Em. subst meas. assumption.
Qed.
