(* C14 — proofs about Model/Sphere.v (exact spherical geometry over R).
   Axioms used: the four standard-library real-number axioms only (see Props/C14.v). *)
From Coq Require Import Reals Lra Psatz List QArith Qreals.
From Interval Require Import Tactic.
From Verif Require Import Prelude Sphere.
Import ListNotations.
Open Scope R_scope.

(* ================================================================ vectors *)
Lemma vec3_eta (v : vec3) : v = (vx v, vy v, vz v).
Proof. destruct v as [[a b] c]; reflexivity. Qed.

Lemma sqrt_sq_pos k : 0 <= k -> sqrt (k * k) = k.
Proof. intro H. apply sqrt_square; assumption. Qed.

(* ================================================================ to3d *)
Theorem to3d_unit ra dec : norm2 (to3d ra dec) = 1.
Proof.
  unfold norm2, dot, to3d, vx, vy, vz; simpl.
  pose proof (sin2_cos2 ra) as A. pose proof (sin2_cos2 dec) as B. unfold Rsqr in *. nra.
Qed.

Lemma to3d_unit' ra dec :
  cos ra * cos dec * (cos ra * cos dec) + sin ra * cos dec * (sin ra * cos dec) + sin dec * sin dec = 1.
Proof. exact (to3d_unit ra dec). Qed.

(* ================================================================ Gram determinant, triangle *)
Lemma gram_det (a1 a2 a3 b1 b2 b3 c1 c2 c3 : R) :
  let x := a1*b1+a2*b2+a3*b3 in let y := b1*c1+b2*c2+b3*c3 in let z := a1*c1+a2*c2+a3*c3 in
  let na := a1*a1+a2*a2+a3*a3 in let nb := b1*b1+b2*b2+b3*b3 in let nc := c1*c1+c2*c2+c3*c3 in
  na*nb*nc + 2*x*y*z - na*y*y - nb*z*z - nc*x*x =
  (a1*(b2*c3-b3*c2) - a2*(b1*c3-b3*c1) + a3*(b1*c2-b2*c1))^2.
Proof. intros; unfold x,y,z,na,nb,nc; ring. Qed.

Lemma dot_bound_c (a1 a2 a3 b1 b2 b3 : R) :
  a1*a1+a2*a2+a3*a3 = 1 -> b1*b1+b2*b2+b3*b3 = 1 -> -1 <= a1*b1+a2*b2+a3*b3 <= 1.
Proof.
  intros Ha Hb.
  pose proof (pow2_ge_0 (a1-b1)). pose proof (pow2_ge_0 (a2-b2)). pose proof (pow2_ge_0 (a3-b3)).
  pose proof (pow2_ge_0 (a1+b1)). pose proof (pow2_ge_0 (a2+b2)). pose proof (pow2_ge_0 (a3+b3)).
  split; nra.
Qed.

Lemma dot_bound u v : norm2 u = 1 -> norm2 v = 1 -> -1 <= dot u v <= 1.
Proof. unfold norm2, dot. apply dot_bound_c. Qed.

Lemma acos_triangle x y z :
  -1 <= x <= 1 -> -1 <= y <= 1 -> -1 <= z <= 1 ->
  0 <= 1 + 2*x*y*z - x*x - y*y - z*z ->
  acos z <= acos x + acos y.
Proof.
  intros Hx Hy Hz Hg.
  pose proof (acos_bound x) as Ba. pose proof (acos_bound y) as Bb. pose proof (acos_bound z) as Bc.
  destruct (Rle_dec (acos x + acos y) PI) as [Hle|Hgt]; [|lra].
  apply cos_decr_0; try lra.
  rewrite cos_plus, !cos_acos, !sin_acos by lra.
  set (sx := sqrt (1 - x²)). set (sy := sqrt (1 - y²)).
  assert (Hsx : 0 <= sx) by apply sqrt_pos. assert (Hsy : 0 <= sy) by apply sqrt_pos.
  assert (Hsx2 : sx * sx = 1 - x*x).
  { unfold sx. rewrite sqrt_sqrt; unfold Rsqr; nra. }
  assert (Hsy2 : sy * sy = 1 - y*y).
  { unfold sy. rewrite sqrt_sqrt; unfold Rsqr; nra. }
  assert (Hkey : (z - x*y) * (z - x*y) <= (sx*sy) * (sx*sy)).
  { replace ((sx*sy)*(sx*sy)) with ((sx*sx)*(sy*sy)) by ring. rewrite Hsx2, Hsy2. nra. }
  assert (Hp : 0 <= sx * sy) by (apply Rmult_le_pos; assumption).
  nra.
Qed.

(* the great-circle angle is a metric on the unit sphere: triangle inequality *)
Theorem sphere_triangle (a b c : vec3) :
  norm2 a = 1 -> norm2 b = 1 -> norm2 c = 1 ->
  gc_angle a c <= gc_angle a b + gc_angle b c.
Proof.
  destruct a as [[a1 a2] a3], b as [[b1 b2] b3], c as [[c1 c2] c3].
  unfold gc_angle, norm2, dot, vx, vy, vz; simpl. intros Ha Hb Hc.
  apply acos_triangle; try (apply dot_bound_c; assumption).
  pose proof (gram_det a1 a2 a3 b1 b2 b3 c1 c2 c3) as G. cbv zeta in G.
  rewrite Ha, Hb, Hc in G.
  pose proof (pow2_ge_0 (a1*(b2*c3-b3*c2) - a2*(b1*c3-b3*c1) + a3*(b1*c2-b2*c1))) as P.
  nra.
Qed.

Lemma gc_angle_range u v : 0 <= gc_angle u v <= PI.
Proof. unfold gc_angle. apply acos_bound. Qed.

Lemma gc_angle_sym u v : gc_angle u v = gc_angle v u.
Proof. unfold gc_angle, dot. f_equal. ring. Qed.

Lemma gc_angle_refl u : norm2 u = 1 -> gc_angle u u = 0.
Proof. unfold gc_angle, norm2. intros ->. apply acos_1. Qed.

(* ================================================================ asin / acos order *)
Lemma asin_lt c d : -1 <= c -> c < d -> d <= 1 -> asin c < asin d.
Proof.
  intros H0 H1 H2. pose proof (asin_bound c). pose proof (asin_bound d).
  apply sin_increasing_0; try lra. rewrite !sin_asin by lra. assumption.
Qed.

Lemma asin_le c d : -1 <= c -> c <= d -> d <= 1 -> asin c <= asin d.
Proof.
  intros H0 [H1 | ->] H2; [left; apply asin_lt; assumption|right; reflexivity].
Qed.

Lemma acos_lt c d : -1 <= c -> c < d -> d <= 1 -> acos d < acos c.
Proof. intros. rewrite !acos_asin by lra. pose proof (asin_lt c d). lra. Qed.

(* ================================================================ chord <-> angle *)
Lemma chord_sq u v : norm2 u = 1 -> norm2 v = 1 -> norm2 (vsub u v) = 2 - 2 * dot u v.
Proof.
  destruct u as [[a1 a2] a3], v as [[b1 b2] b3]. unfold norm2, dot, vsub, vx, vy, vz; simpl.
  intros; nra.
Qed.

Lemma chord_of_angle_sq t : (chord t)^2 = 2 - 2 * cos t.
Proof.
  unfold chord. replace t with (2 * (t/2)) at 2 by field. rewrite cos_2a_sin. ring.
Qed.

(* |u - v|^2 = 2 - 2 u.v = (2 sin(theta/2))^2 with theta the great-circle angle *)
Theorem chord_is_great_circle u v : norm2 u = 1 -> norm2 v = 1 ->
  norm2 (vsub u v) = 2 - 2 * dot u v /\ 2 - 2 * dot u v = (chord (gc_angle u v))^2 /\
  chord_dist u v = chord (gc_angle u v).
Proof.
  intros Hu Hv. pose proof (dot_bound u v Hu Hv) as B.
  assert (E : 2 - 2 * dot u v = (chord (gc_angle u v))^2).
  { rewrite chord_of_angle_sq. unfold gc_angle. rewrite cos_acos by lra. reflexivity. }
  split; [apply chord_sq; assumption|]. split; [exact E|].
  unfold chord_dist. rewrite (chord_sq u v Hu Hv), E.
  replace (chord (gc_angle u v) ^ 2) with (chord (gc_angle u v) * chord (gc_angle u v)) by ring.
  apply sqrt_square. unfold chord.
  pose proof (gc_angle_range u v) as G.
  assert (0 <= sin (gc_angle u v / 2)) by (apply sin_ge_0; lra). lra.
Qed.

Theorem chord_strict_mono s t : 0 <= s -> s < t -> t <= PI -> chord s < chord t.
Proof.
  intros H0 Hst Ht. unfold chord. apply Rmult_lt_compat_l; [lra|].
  apply sin_increasing_1; lra.
Qed.

Theorem angle_strict_mono c d : 0 <= c -> c < d -> d <= 2 -> angle c < angle d.
Proof.
  intros H0 Hcd Hd. unfold angle. apply Rmult_lt_compat_l; [lra|].
  apply asin_lt; lra.
Qed.

Theorem angle_of_chord_inv t : 0 <= t <= PI -> angle (chord t) = t.
Proof.
  intros H. unfold angle, chord. replace (2 * sin (t/2) / 2) with (sin (t/2)) by field.
  rewrite asin_sin; lra.
Qed.

Theorem chord_of_angle_inv d : 0 <= d <= 2 -> chord (angle d) = d.
Proof.
  intros H. unfold angle, chord. replace (2 * asin (d/2) / 2) with (asin (d/2)) by field.
  rewrite sin_asin; lra.
Qed.

Lemma chord_range t : 0 <= t <= PI -> 0 <= chord t <= 2.
Proof.
  intros H. unfold chord. pose proof (SIN_bound (t/2)).
  assert (0 <= sin (t/2)) by (apply sin_ge_0; lra). lra.
Qed.

Lemma angle_range c : 0 <= c <= 2 -> 0 <= angle c <= PI.
Proof.
  intros H. unfold angle. pose proof (asin_bound (c/2)).
  assert (asin 0 <= asin (c/2)) by (apply asin_le; lra). rewrite asin_0 in *. lra.
Qed.

(* the algorithm of AngularCoordinates.distance computes the great-circle angle *)
Theorem separation_is_gc_angle ra1 dec1 ra2 dec2 :
  separation ra1 dec1 ra2 dec2 = gc_angle (to3d ra1 dec1) (to3d ra2 dec2).
Proof.
  unfold separation.
  destruct (chord_is_great_circle (to3d ra1 dec1) (to3d ra2 dec2) (to3d_unit _ _) (to3d_unit _ _))
    as (_ & _ & ->).
  apply angle_of_chord_inv. apply gc_angle_range.
Qed.

(* ================================================================ fmod *)
Lemma fmod_range t m : 0 < m -> 0 <= fmod t m < m.
Proof.
  intros Hm. unfold fmod. destruct (base_Int_part (t/m)) as [A B].
  set (k := IZR (Int_part (t/m))) in *.
  assert (E : t = (t/m)*m) by (field; lra).
  assert (k * m <= (t/m) * m) by (apply Rmult_le_compat_r; lra).
  assert ((t/m - 1) * m < k * m) by (apply Rmult_lt_compat_r; lra).
  split; nra.
Qed.

Lemma Int_part_unique r k : IZR k <= r < IZR k + 1 -> Int_part r = k.
Proof.
  intros [A B]. unfold Int_part.
  assert (E : (k + 1)%Z = up r).
  { apply tech_up; rewrite plus_IZR; simpl; lra. }
  rewrite <- E. ring.
Qed.

Lemma fmod_unique r k m : 0 < m -> 0 <= r < m -> fmod (r + IZR k * m) m = r.
Proof.
  intros Hm Hr. unfold fmod.
  assert (E : (r + IZR k * m) / m = IZR k + r / m) by (field; lra).
  rewrite E.
  assert (0 <= r / m < 1).
  { split; [apply Rmult_le_pos; [lra|left; apply Rinv_0_lt_compat; lra]|].
    apply (Rmult_lt_reg_r m); [lra|]. unfold Rdiv. rewrite Rmult_assoc, Rinv_l by lra. lra. }
  rewrite (Int_part_unique (IZR k + r / m) k) by lra. ring.
Qed.

Lemma fmod_id t m : 0 <= t < m -> fmod t m = t.
Proof.
  intros H. replace t with (t + IZR 0 * m) at 1 by (simpl; ring). apply fmod_unique; lra.
Qed.

Lemma fmod_shift t m : exists k : Z, fmod t m = t + IZR k * m.
Proof. exists (- Int_part (t / m))%Z. unfold fmod. rewrite opp_IZR. ring. Qed.

Lemma cos_period_Z x k : cos (x + IZR k * (2 * PI)) = cos x.
Proof.
  destruct (Z_le_gt_dec 0 k) as [H|H].
  - apply IZN in H. destruct H as [n ->]. rewrite <- INR_IZR_INZ.
    replace (x + INR n * (2 * PI)) with (x + 2 * INR n * PI) by ring. apply cos_period.
  - assert (H' : (0 <= - k)%Z) by lia. apply IZN in H'. destruct H' as [n Hn].
    rewrite <- (cos_period (x + IZR k * (2 * PI)) n). f_equal.
    rewrite INR_IZR_INZ, <- Hn, opp_IZR. ring.
Qed.

Lemma sin_period_Z x k : sin (x + IZR k * (2 * PI)) = sin x.
Proof.
  destruct (Z_le_gt_dec 0 k) as [H|H].
  - apply IZN in H. destruct H as [n ->]. rewrite <- INR_IZR_INZ.
    replace (x + INR n * (2 * PI)) with (x + 2 * INR n * PI) by ring. apply sin_period.
  - assert (H' : (0 <= - k)%Z) by lia. apply IZN in H'. destruct H' as [n Hn].
    rewrite <- (sin_period (x + IZR k * (2 * PI)) n). f_equal.
    rewrite INR_IZR_INZ, <- Hn, opp_IZR. ring.
Qed.

Lemma cos_fmod t : cos (fmod t (2 * PI)) = cos t.
Proof. destruct (fmod_shift t (2 * PI)) as [k ->]. apply cos_period_Z. Qed.
Lemma sin_fmod t : sin (fmod t (2 * PI)) = sin t.
Proof. destruct (fmod_shift t (2 * PI)) as [k ->]. apply sin_period_Z. Qed.

(* ================================================================ sgn *)
Lemma sgn_cases y : (y < 0 /\ sgn y = -1) \/ (0 <= y /\ sgn y = 1).
Proof. unfold sgn. destruct (Rlt_dec y 0); [left|right]; split; lra. Qed.

Lemma sgn_0 : sgn 0 = 1.
Proof. destruct (sgn_cases 0) as [[H _]|[_ H]]; [lra|exact H]. Qed.

Lemma sgn_scale k y : 0 < k -> sgn (k * y) = sgn y.
Proof.
  intros Hk. destruct (sgn_cases y) as [[H ->]|[H ->]], (sgn_cases (k*y)) as [[H' ->]|[H' ->]];
    try reflexivity; exfalso; nra.
Qed.

Lemma sgn_abs y : sgn y * Rabs y = y.
Proof.
  destruct (sgn_cases y) as [[H ->]|[H ->]].
  - rewrite Rabs_left by assumption. ring.
  - rewrite Rabs_right by lra. ring.
Qed.

(* ================================================================ from3d *)
Theorem ra_range v : 0 <= from3d_ra v < 2 * PI.
Proof. unfold from3d_ra. apply fmod_range. pose proof PI_RGT_0. lra. Qed.

Lemma dec_range v : - (PI / 2) <= from3d_dec v <= PI / 2.
Proof. unfold from3d_dec. apply asin_bound. Qed.

(* the returned right ascension is the polar angle of (x, y): atan2-free characterisation *)
Theorem from3d_ra_cos_sin v :
  let r2 := sqrt (vx v * vx v + vy v * vy v) in
  0 < r2 -> r2 * cos (from3d_ra v) = vx v /\ r2 * sin (from3d_ra v) = vy v.
Proof.
  destruct v as [[x y] z]. unfold from3d_ra, vx, vy, vz; simpl. intros Hr.
  set (r2 := sqrt (x * x + y * y)) in *.
  destruct (Rlt_dec 0 r2) as [_|N]; [|contradiction].
  assert (Hq : 0 <= x * x + y * y) by nra.
  assert (Hr2 : r2 * r2 = x * x + y * y) by (unfold r2; apply sqrt_sqrt; assumption).
  set (c := x / r2).
  assert (Hc : c * r2 = x) by (unfold c; field; lra).
  assert (Hcb : -1 <= c <= 1).
  { assert (c * c <= 1).
    { assert (c * c * (r2 * r2) <= 1 * (r2 * r2)) by (replace (c*c*(r2*r2)) with ((c*r2)*(c*r2)) by ring; rewrite Hc; nra).
      apply (Rmult_le_reg_r (r2 * r2)); [nra|assumption]. }
    split; nra. }
  rewrite cos_fmod, sin_fmod.
  assert (Hs : r2 * sqrt (1 - c²) = Rabs y).
  { rewrite <- sqrt_Rsqr_abs. rewrite <- (sqrt_square r2) at 1 by lra.
    rewrite <- sqrt_mult; [|nra|unfold Rsqr; nra].
    f_equal. unfold Rsqr. replace (r2 * r2 * (1 - c * c)) with (r2 * r2 - (c * r2) * (c * r2)) by ring.
    rewrite Hc, Hr2. ring. }
  destruct (sgn_cases y) as [[H E]|[H E]]; rewrite E.
  - replace (acos c * -1) with (- acos c) by ring. rewrite cos_neg, sin_neg, cos_acos, sin_acos by assumption.
    split; [lra|]. rewrite Ropp_mult_distr_r_reverse, Hs, Rabs_left by assumption. ring.
  - rewrite Rmult_1_r, cos_acos, sin_acos by assumption.
    split; [lra|]. rewrite Hs, Rabs_right by lra. reflexivity.
Qed.

(* round trip away from the poles *)
Theorem from3d_to3d ra dec :
  0 <= ra < 2 * PI -> - (PI / 2) < dec < PI / 2 -> from3d (to3d ra dec) = (ra, dec).
Proof.
  intros Hra Hdec. pose proof PI_RGT_0 as Hpi.
  assert (Hcd : 0 < cos dec) by (apply cos_gt_0; lra).
  unfold from3d. f_equal.
  - unfold from3d_ra, to3d, vx, vy; simpl.
    assert (Hr2 : sqrt (cos ra * cos dec * (cos ra * cos dec) + sin ra * cos dec * (sin ra * cos dec)) = cos dec).
    { replace (cos ra * cos dec * (cos ra * cos dec) + sin ra * cos dec * (sin ra * cos dec))
        with ((sin ra * sin ra + cos ra * cos ra) * (cos dec * cos dec)) by ring.
      pose proof (sin2_cos2 ra) as E. unfold Rsqr in E. rewrite E, Rmult_1_l.
      apply sqrt_square; lra. }
    rewrite Hr2. destruct (Rlt_dec 0 (cos dec)) as [_|N]; [|contradiction].
    replace (cos ra * cos dec / cos dec) with (cos ra) by (field; lra).
    destruct (Rle_dec ra PI) as [Hle|Hgt].
    + rewrite acos_cos by lra.
      assert (0 <= sin ra) by (apply sin_ge_0; lra).
      destruct (sgn_cases (sin ra * cos dec)) as [[Hsg _]|[_ ->]]; [exfalso; nra|].
      rewrite Rmult_1_r. apply fmod_id; lra.
    + assert (Hc : cos ra = cos (2 * PI - ra)).
      { replace (2 * PI - ra) with (- ra + IZR 1 * (2 * PI)) by (simpl; ring).
        rewrite cos_period_Z, cos_neg. reflexivity. }
      rewrite Hc, acos_cos by lra.
      assert (sin ra < 0) by (apply sin_lt_0; lra).
      destruct (sgn_cases (sin ra * cos dec)) as [[_ ->]|[Hsg _]]; [|exfalso; nra].
      replace ((2 * PI - ra) * -1) with (ra + IZR (-1) * (2 * PI)) by (simpl; ring).
      apply fmod_unique; lra.
  - unfold from3d_dec. fold (dot (to3d ra dec) (to3d ra dec)). fold (norm2 (to3d ra dec)).
    rewrite to3d_unit, sqrt_1. unfold to3d, vz; simpl. replace (sin dec / 1) with (sin dec) by field. apply asin_sin. lra.
Qed.

(* at the exact poles the right ascension is lost: the code's fallback returns 0 *)
Theorem from3d_pole z : 0 < z -> from3d (0, 0, z) = (0, PI / 2).
Proof.
  intros Hz. unfold from3d, from3d_ra, from3d_dec, vx, vy, vz; simpl.
  replace (0 * 0 + 0 * 0) with 0 by ring. rewrite sqrt_0.
  destruct (Rlt_dec 0 0) as [N|_]; [lra|].
  rewrite acos_1, Rmult_0_l, Rplus_0_l, sqrt_square by lra.
  f_equal; [apply fmod_id; pose proof PI_RGT_0; lra|].
  replace (z / z) with 1 by (field; lra). apply asin_1.
Qed.

Theorem from3d_pole_south z : z < 0 -> from3d (0, 0, z) = (0, - (PI / 2)).
Proof.
  intros Hz. unfold from3d, from3d_ra, from3d_dec, vx, vy, vz; simpl.
  replace (0 * 0 + 0 * 0) with 0 by ring. rewrite sqrt_0.
  destruct (Rlt_dec 0 0) as [N|_]; [lra|].
  rewrite acos_1, Rmult_0_l, Rplus_0_l.
  replace (z * z) with ((- z) * (- z)) by ring. rewrite sqrt_square by lra.
  f_equal; [apply fmod_id; pose proof PI_RGT_0; lra|].
  replace (z / - z) with (- (1)) by (field; lra). rewrite asin_opp, asin_1. reflexivity.
Qed.

Theorem from3d_to3d_pole ra :
  from3d (to3d ra (PI / 2)) = (0, PI / 2) /\ from3d (to3d ra (- (PI / 2))) = (0, - (PI / 2)).
Proof.
  unfold to3d. rewrite cos_neg, sin_neg, cos_PI2, sin_PI2, !Rmult_0_r.
  split; [apply from3d_pole; lra|]. apply from3d_pole_south; lra.
Qed.

(* from_3d only depends on the direction *)
Theorem from3d_scale k v : 0 < k -> from3d (vscale k v) = from3d v.
Proof.
  intros Hk. destruct v as [[x y] z]. unfold from3d, vscale, vx, vy, vz; simpl. f_equal.
  - unfold from3d_ra, vx, vy; simpl.
    replace (k * x * (k * x) + k * y * (k * y)) with ((k * k) * (x * x + y * y)) by ring.
    rewrite sqrt_mult by nra. rewrite sqrt_square by lra.
    set (r2 := sqrt (x * x + y * y)). rewrite sgn_scale by assumption.
    destruct (Rlt_dec 0 r2) as [P|N], (Rlt_dec 0 (k * r2)) as [P'|N']; try reflexivity.
    + replace (k * x / (k * r2)) with (x / r2) by (field; lra). reflexivity.
    + exfalso; nra.
    + exfalso; nra.
  - unfold from3d_dec, vx, vy, vz; simpl.
    replace (k * x * (k * x) + k * y * (k * y) + k * z * (k * z)) with ((k * k) * (x * x + y * y + z * z)) by ring.
    rewrite sqrt_mult by nra. rewrite sqrt_square by lra.
    set (r3 := sqrt (x * x + y * y + z * z)).
    destruct (Req_dec r3 0) as [E|NE].
    + rewrite E, Rmult_0_r. unfold Rdiv. rewrite Rinv_0, !Rmult_0_r. reflexivity.
    + replace (k * z / (k * r3)) with (z / r3) by (field; lra). reflexivity.
Qed.

(* ================================================================ mean *)
Lemma vscale_vadd k u v : vscale k (vadd u v) = vadd (vscale k u) (vscale k v).
Proof. unfold vscale, vadd, vx, vy, vz; simpl. f_equal; [f_equal|]; ring. Qed.
Lemma vscale_vscale k l v : vscale k (vscale l v) = vscale (k * l) v.
Proof. unfold vscale, vx, vy, vz; simpl. f_equal; [f_equal|]; ring. Qed.

Lemma rsum_scale k ws : rsum (map (Rmult k) ws) = k * rsum ws.
Proof. induction ws as [|w r IH]; simpl; [ring|]. rewrite IH. ring. Qed.

Lemma wsum_scale k ws : forall ps, wsum (map (Rmult k) ws) ps = vscale k (wsum ws ps).
Proof.
  induction ws as [|w r IH]; intros [|p ps]; simpl;
    try (unfold vscale, vx, vy, vz; simpl; f_equal; [f_equal|]; ring).
  rewrite IH, vscale_vadd, vscale_vscale. reflexivity.
Qed.

(* scaling all weights by k <> 0 leaves the weighted mean vector unchanged ... *)
Theorem vmean_scale_invariant k ws ps : k <> 0 -> rsum ws <> 0 ->
  vmean (map (Rmult k) ws) ps = vmean ws ps.
Proof.
  intros Hk Hs. unfold vmean. rewrite rsum_scale, wsum_scale, vscale_vscale. f_equal. field. split; assumption.
Qed.

(* ... and hence the mean direction *)
Theorem mean_scale_invariant k ws ps : 0 < k -> rsum ws <> 0 ->
  sph_mean (map (Rmult k) ws) ps = sph_mean ws ps.
Proof. intros Hk Hs. unfold sph_mean. rewrite vmean_scale_invariant by lra. reflexivity. Qed.

(* the mean is the direction of the (unnormalised or normalised) weighted vector sum *)
Theorem mean_is_direction_of_sum ws ps : 0 < rsum ws ->
  sph_mean ws ps = from3d (wsum ws ps).
Proof. intros H. unfold sph_mean, vmean. apply from3d_scale. apply Rinv_0_lt_compat. assumption. Qed.

Theorem mean_is_normalised_sum ws ps : 0 < rsum ws -> 0 < norm2 (wsum ws ps) ->
  sph_mean ws ps = from3d (normalize (wsum ws ps)) /\ norm2 (normalize (wsum ws ps)) = 1.
Proof.
  intros H Hn. split.
  - rewrite mean_is_direction_of_sum by assumption. unfold normalize. symmetry. apply from3d_scale.
    apply Rinv_0_lt_compat. apply sqrt_lt_R0. assumption.
  - unfold normalize. set (v := wsum ws ps) in *. set (s := sqrt (norm2 v)).
    assert (Hs : 0 < s) by (apply sqrt_lt_R0; assumption).
    assert (Hss : s * s = norm2 v) by (apply sqrt_sqrt; lra).
    unfold norm2, dot, vscale in *. destruct v as [[x y] z]. unfold vx, vy, vz in *; simpl in *.
    replace (/ s * x * (/ s * x) + / s * y * (/ s * y) + / s * z * (/ s * z))
      with ((x * x + y * y + z * z) * (/ s * / s)) by ring.
    rewrite <- Hss. field. lra.
Qed.

(* ================================================================ elimination of inverse functions
   (the installed Interval knows sin, cos, sqrt, PI but neither asin nor acos) *)
Lemma Rabs_le_inv x a : Rabs x <= a -> - a <= x <= a.
Proof. unfold Rabs. destruct (Rcase_abs x); lra. Qed.
Lemma Rabs_far_hi m y e : y + e < m -> ~ (Rabs (m - y) <= e).
Proof. intros H C. apply Rabs_le_inv in C. lra. Qed.  
Lemma Rabs_far_lo m y e : m < y - e -> ~ (Rabs (m - y) <= e).
Proof. intros H C. apply Rabs_le_inv in C. lra. Qed.

(* ---- acos ---- *)
Lemma acos_le_of_cos d t : 0 <= t <= PI -> -1 <= d <= 1 -> cos t <= d -> acos d <= t.
Proof. intros Ht Hd H. pose proof (acos_bound d). apply cos_decr_0; try lra. rewrite cos_acos by lra. exact H. Qed.
Lemma acos_ge_of_cos d t : 0 <= t <= PI -> -1 <= d <= 1 -> d <= cos t -> t <= acos d.
Proof. intros Ht Hd H. pose proof (acos_bound d). apply cos_decr_0; try lra. rewrite cos_acos by lra. exact H. Qed.
Lemma acos_lt_of_cos d t : 0 <= t <= PI -> -1 <= d <= 1 -> cos t < d -> acos d < t.
Proof. intros Ht Hd H. pose proof (acos_bound d). apply cos_decreasing_0; try lra. rewrite cos_acos by lra. exact H. Qed.
Lemma acos_gt_of_cos d t : 0 <= t <= PI -> -1 <= d <= 1 -> d < cos t -> t < acos d.
Proof. intros Ht Hd H. pose proof (acos_bound d). apply cos_decreasing_0; try lra. rewrite cos_acos by lra. exact H. Qed.

Theorem acos_close d y e : 0 <= e -> 0 <= y - e -> y + e <= PI ->
  cos (y + e) <= d <= cos (y - e) -> Rabs (acos d - y) <= e.
Proof.
  intros He H0 H1 [A B].
  assert (Hd : -1 <= d <= 1) by (pose proof (COS_bound (y+e)); pose proof (COS_bound (y-e)); lra).
  apply Rabs_le. split.
  - pose proof (acos_ge_of_cos d (y - e)). lra.
  - pose proof (acos_le_of_cos d (y + e)). lra.
Qed.

(* y - e below 0: only the upper side is informative *)
Theorem acos_close_lo d y e : 0 <= e -> y - e <= 0 -> 0 <= y -> y + e <= PI ->
  cos (y + e) <= d <= 1 -> Rabs (acos d - y) <= e.
Proof.
  intros He H0 Hy H1 [A B]. pose proof (acos_bound d).
  assert (Hd : -1 <= d <= 1) by (pose proof (COS_bound (y+e)); lra).
  apply Rabs_le. split; [lra|]. pose proof (acos_le_of_cos d (y + e)). lra.
Qed.

(* y + e above pi: only the lower side is informative *)
Theorem acos_close_hi d y e : 0 <= e -> 0 <= y - e -> y <= PI -> PI <= y + e ->
  -1 <= d <= cos (y - e) -> Rabs (acos d - y) <= e.
Proof.
  intros He H0 Hy H1 [A B]. pose proof (acos_bound d).
  assert (Hd : -1 <= d <= 1) by (pose proof (COS_bound (y-e)); lra).
  apply Rabs_le. split; [|lra]. pose proof (acos_ge_of_cos d (y - e)). lra.
Qed.

(* ---- asin ---- *)
Lemma asin_le_of_sin w t : - (PI/2) <= t <= PI/2 -> -1 <= w <= 1 -> w <= sin t -> asin w <= t.
Proof. intros Ht Hw H. pose proof (asin_bound w). apply sin_incr_0; try lra. rewrite sin_asin by lra. exact H. Qed.
Lemma asin_ge_of_sin w t : - (PI/2) <= t <= PI/2 -> -1 <= w <= 1 -> sin t <= w -> t <= asin w.
Proof. intros Ht Hw H. pose proof (asin_bound w). apply sin_incr_0; try lra. rewrite sin_asin by lra. exact H. Qed.
Lemma asin_lt_of_sin w t : - (PI/2) <= t <= PI/2 -> -1 <= w <= 1 -> w < sin t -> asin w < t.
Proof. intros Ht Hw H. pose proof (asin_bound w). apply sin_increasing_0; try lra. rewrite sin_asin by lra. exact H. Qed.
Lemma asin_gt_of_sin w t : - (PI/2) <= t <= PI/2 -> -1 <= w <= 1 -> sin t < w -> t < asin w.
Proof. intros Ht Hw H. pose proof (asin_bound w). apply sin_increasing_0; try lra. rewrite sin_asin by lra. exact H. Qed.

Theorem asin_close w y e : 0 <= e -> - (PI/2) <= y - e -> y + e <= PI/2 ->
  sin (y - e) <= w <= sin (y + e) -> Rabs (asin w - y) <= e.
Proof.
  intros He H0 H1 [A B].
  assert (Hw : -1 <= w <= 1) by (pose proof (SIN_bound (y+e)); pose proof (SIN_bound (y-e)); lra).
  apply Rabs_le. split.
  - pose proof (asin_ge_of_sin w (y - e)). lra.
  - pose proof (asin_le_of_sin w (y + e)). lra.
Qed.

Theorem asin_close_hi w y e : 0 <= e -> - (PI/2) <= y - e -> y <= PI/2 -> PI/2 <= y + e ->
  sin (y - e) <= w <= 1 -> Rabs (asin w - y) <= e.
Proof.
  intros He H0 Hy H1 [A B]. pose proof (asin_bound w).
  assert (Hw : -1 <= w <= 1) by (pose proof (SIN_bound (y-e)); lra).
  apply Rabs_le. split; [|lra]. pose proof (asin_ge_of_sin w (y - e)). lra.
Qed.

Theorem asin_close_lo w y e : 0 <= e -> y - e <= - (PI/2) -> - (PI/2) <= y -> y + e <= PI/2 ->
  -1 <= w <= sin (y + e) -> Rabs (asin w - y) <= e.
Proof.
  intros He H0 Hy H1 [A B]. pose proof (asin_bound w).
  assert (Hw : -1 <= w <= 1) by (pose proof (SIN_bound (y+e)); lra).
  apply Rabs_le. split; [lra|]. pose proof (asin_le_of_sin w (y + e)). lra.
Qed.

(* ---- AngularDistances.from_3d : angle c = 2 asin (c/2) ---- *)
Theorem angle_close c y e : 0 <= e -> - PI <= y - e -> y + e <= PI ->
  sin ((y - e) / 2) <= c / 2 <= sin ((y + e) / 2) -> Rabs (angle c - y) <= e.
Proof.
  intros He H0 H1 H. unfold angle.
  assert (Rabs (asin (c/2) - y/2) <= e/2).
  { apply asin_close; try lra.
    replace (y/2 - e/2) with ((y-e)/2) by field. replace (y/2 + e/2) with ((y+e)/2) by field. exact H. }
  apply Rabs_le. apply Rabs_le_inv in H2. lra.
Qed.

Theorem angle_close_hi c y e : 0 <= e -> - PI <= y - e -> y <= PI -> PI <= y + e ->
  sin ((y - e) / 2) <= c / 2 <= 1 -> Rabs (angle c - y) <= e.
Proof.
  intros He H0 Hy H1 H. unfold angle.
  assert (Rabs (asin (c/2) - y/2) <= e/2).
  { apply asin_close_hi; try lra. replace (y/2 - e/2) with ((y-e)/2) by field. exact H. }
  apply Rabs_le. apply Rabs_le_inv in H2. lra.
Qed.

Theorem angle_far_hi c y e : - PI <= y + e <= PI -> -1 <= c / 2 <= 1 ->
  sin ((y + e) / 2) < c / 2 -> ~ (Rabs (angle c - y) <= e).
Proof.
  intros H Hc A. apply Rabs_far_hi. unfold angle.
  pose proof (asin_gt_of_sin (c/2) ((y+e)/2)). lra.
Qed.
Theorem angle_far_lo c y e : - PI <= y - e <= PI -> -1 <= c / 2 <= 1 ->
  c / 2 < sin ((y - e) / 2) -> ~ (Rabs (angle c - y) <= e).
Proof.
  intros H Hc A. apply Rabs_far_lo. unfold angle.
  pose proof (asin_lt_of_sin (c/2) ((y-e)/2)). lra.
Qed.

(* ---- separations ---- *)
Definition dot_expr ra1 dec1 ra2 dec2 : R :=
  cos ra1 * cos dec1 * (cos ra2 * cos dec2) + sin ra1 * cos dec1 * (sin ra2 * cos dec2) + sin dec1 * sin dec2.
(* haversine of the separation: no cancellation for small angles *)
Definition hav_expr ra1 dec1 ra2 dec2 : R :=
  (sin ((dec1 - dec2) / 2))² + cos dec1 * cos dec2 * (sin ((ra1 - ra2) / 2))².

Lemma dot_to3d ra1 dec1 ra2 dec2 : dot (to3d ra1 dec1) (to3d ra2 dec2) = dot_expr ra1 dec1 ra2 dec2.
Proof. reflexivity. Qed.

Lemma cos_hav t : cos t = 1 - 2 * (sin (t / 2))².
Proof. replace t with (2 * (t/2)) at 1 by field. rewrite cos_2a_sin. unfold Rsqr. ring. Qed.

Lemma dot_hav ra1 dec1 ra2 dec2 : dot_expr ra1 dec1 ra2 dec2 = 1 - 2 * hav_expr ra1 dec1 ra2 dec2.
Proof.
  unfold dot_expr, hav_expr.
  pose proof (cos_hav (ra1 - ra2)) as A. pose proof (cos_hav (dec1 - dec2)) as B.
  rewrite cos_minus in A, B. nra.
Qed.

Lemma dot_expr_bound ra1 dec1 ra2 dec2 : -1 <= dot_expr ra1 dec1 ra2 dec2 <= 1.
Proof. rewrite <- dot_to3d. apply dot_bound; apply to3d_unit. Qed.

Theorem sep_close ra1 dec1 ra2 dec2 y e : 0 <= e -> 0 <= y - e -> y + e <= PI ->
  cos (y + e) <= dot_expr ra1 dec1 ra2 dec2 <= cos (y - e) ->
  Rabs (separation ra1 dec1 ra2 dec2 - y) <= e.
Proof. intros. rewrite separation_is_gc_angle. unfold gc_angle. rewrite dot_to3d. apply acos_close; assumption. Qed.

Theorem sep_hav_close ra1 dec1 ra2 dec2 y e : 0 <= e -> 0 <= y - e -> y + e <= PI ->
  (sin ((y - e) / 2))² <= hav_expr ra1 dec1 ra2 dec2 <= (sin ((y + e) / 2))² ->
  Rabs (separation ra1 dec1 ra2 dec2 - y) <= e.
Proof.
  intros He H0 H1 [A B]. apply sep_close; try assumption.
  rewrite dot_hav, (cos_hav (y+e)), (cos_hav (y-e)). lra.
Qed.

Theorem sep_hav_close_lo ra1 dec1 ra2 dec2 y e : 0 <= e -> y - e <= 0 -> 0 <= y -> y + e <= PI ->
  hav_expr ra1 dec1 ra2 dec2 <= (sin ((y + e) / 2))² ->
  Rabs (separation ra1 dec1 ra2 dec2 - y) <= e.
Proof.
  intros He H0 Hy H1 B. rewrite separation_is_gc_angle. unfold gc_angle. rewrite dot_to3d.
  apply acos_close_lo; try assumption. pose proof (dot_expr_bound ra1 dec1 ra2 dec2).
  rewrite dot_hav in *. rewrite (cos_hav (y+e)). lra.
Qed.

Theorem sep_hav_close_hi ra1 dec1 ra2 dec2 y e : 0 <= e -> 0 <= y - e -> y <= PI -> PI <= y + e ->
  (sin ((y - e) / 2))² <= hav_expr ra1 dec1 ra2 dec2 ->
  Rabs (separation ra1 dec1 ra2 dec2 - y) <= e.
Proof.
  intros He H0 Hy H1 B. rewrite separation_is_gc_angle. unfold gc_angle. rewrite dot_to3d.
  apply acos_close_hi; try assumption. pose proof (dot_expr_bound ra1 dec1 ra2 dec2).
  rewrite dot_hav in *. rewrite (cos_hav (y-e)). lra.
Qed.

Theorem sep_hav_far_hi ra1 dec1 ra2 dec2 y e : 0 <= y + e <= PI ->
  (sin ((y + e) / 2))² < hav_expr ra1 dec1 ra2 dec2 -> ~ (Rabs (separation ra1 dec1 ra2 dec2 - y) <= e).
Proof.
  intros H A. apply Rabs_far_hi. rewrite separation_is_gc_angle. unfold gc_angle. rewrite dot_to3d.
  apply acos_gt_of_cos; [assumption|apply dot_expr_bound|]. rewrite dot_hav, (cos_hav (y+e)). lra.
Qed.
Theorem sep_hav_far_lo ra1 dec1 ra2 dec2 y e : 0 <= y - e <= PI ->
  hav_expr ra1 dec1 ra2 dec2 < (sin ((y - e) / 2))² -> ~ (Rabs (separation ra1 dec1 ra2 dec2 - y) <= e).
Proof.
  intros H A. apply Rabs_far_lo. rewrite separation_is_gc_angle. unfold gc_angle. rewrite dot_to3d.
  apply acos_lt_of_cos; [assumption|apply dot_expr_bound|]. rewrite dot_hav, (cos_hav (y-e)). lra.
Qed.

(* ---- from_3d, declination ---- *)
Definition w_expr (x y z : R) : R := z / sqrt (x * x + y * y + z * z).
Lemma from3d_dec_expr x y z : from3d_dec (x, y, z) = asin (w_expr x y z).
Proof. reflexivity. Qed.

Lemma w_expr_bound x y z : -1 <= w_expr x y z <= 1.
Proof.
  unfold w_expr. set (q := x * x + y * y + z * z). assert (Hq : 0 <= q) by (unfold q; nra).
  destruct (Req_dec (sqrt q) 0) as [E|NE].
  - rewrite E. unfold Rdiv. rewrite Rinv_0, Rmult_0_r. lra.
  - assert (Hs : 0 < sqrt q) by (pose proof (sqrt_pos q); lra).
    assert (Hss : sqrt q * sqrt q = q) by (apply sqrt_sqrt; assumption).
    assert (Hz : z * z <= sqrt q * sqrt q) by (rewrite Hss; unfold q; nra).
    assert (- sqrt q <= z <= sqrt q) by (split; nra).
    split.
    + apply (Rmult_le_reg_r (sqrt q)); [assumption|]. unfold Rdiv. rewrite Rmult_assoc, Rinv_l by lra. lra.
    + apply (Rmult_le_reg_r (sqrt q)); [assumption|]. unfold Rdiv. rewrite Rmult_assoc, Rinv_l by lra. lra.
Qed.

Theorem dec_close x y z d e : 0 <= e -> - (PI/2) <= d - e -> d + e <= PI/2 ->
  sin (d - e) <= w_expr x y z <= sin (d + e) -> Rabs (from3d_dec (x, y, z) - d) <= e.
Proof. intros. rewrite from3d_dec_expr. apply asin_close; assumption. Qed.
Theorem dec_close_hi x y z d e : 0 <= e -> - (PI/2) <= d - e -> d <= PI/2 -> PI/2 <= d + e ->
  sin (d - e) <= w_expr x y z -> Rabs (from3d_dec (x, y, z) - d) <= e.
Proof. intros. rewrite from3d_dec_expr. apply asin_close_hi; try assumption. pose proof (w_expr_bound x y z). lra. Qed.
Theorem dec_close_lo x y z d e : 0 <= e -> d - e <= - (PI/2) -> - (PI/2) <= d -> d + e <= PI/2 ->
  w_expr x y z <= sin (d + e) -> Rabs (from3d_dec (x, y, z) - d) <= e.
Proof. intros. rewrite from3d_dec_expr. apply asin_close_lo; try assumption. pose proof (w_expr_bound x y z). lra. Qed.
Theorem dec_far_hi x y z d e : - (PI/2) <= d + e <= PI/2 ->
  sin (d + e) < w_expr x y z -> ~ (Rabs (from3d_dec (x, y, z) - d) <= e).
Proof. intros H A. apply Rabs_far_hi. rewrite from3d_dec_expr. apply asin_gt_of_sin; [assumption|apply w_expr_bound|assumption]. Qed.
Theorem dec_far_lo x y z d e : - (PI/2) <= d - e <= PI/2 ->
  w_expr x y z < sin (d - e) -> ~ (Rabs (from3d_dec (x, y, z) - d) <= e).
Proof. intros H A. apply Rabs_far_lo. rewrite from3d_dec_expr. apply asin_lt_of_sin; [assumption|apply w_expr_bound|assumption]. Qed.

(* ---- from_3d, right ascension: atan2-free, via sin/cos of the returned angle.
   [Rabs (chord (b - a))] is the chord distance on the unit circle between the directions
   a and b, insensitive to the 0/2pi wrap. *)
Definition ra_defect (x y b : R) : R :=
  let r2 := sqrt (x * x + y * y) in (r2 * cos b - x)² + (r2 * sin b - y)².

Lemma circle_chord a b : (cos b - cos a)² + (sin b - sin a)² = (chord (b - a))².
Proof.
  unfold Rsqr. pose proof (chord_of_angle_sq (b - a)) as E. rewrite cos_minus in E.
  pose proof (sin2_cos2 a) as A. pose proof (sin2_cos2 b) as B. unfold Rsqr in *. nra.
Qed.

Lemma ra_defect_eq x y z b : 0 < x * x + y * y ->
  ra_defect x y b = (x * x + y * y) * (chord (b - from3d_ra (x, y, z)))².
Proof.
  intros Hq. unfold ra_defect. cbv zeta.
  assert (Hr : 0 < sqrt (x * x + y * y)) by (apply sqrt_lt_R0; assumption).
  destruct (from3d_ra_cos_sin (x, y, z) Hr) as [Ex Ey]. unfold vx, vy in *; simpl in *.
  set (a := from3d_ra (x, y, z)) in *. set (r2 := sqrt (x * x + y * y)) in *.
  assert (Hss : r2 * r2 = x * x + y * y) by (apply sqrt_sqrt; lra).
  rewrite <- circle_chord. rewrite <- Ex at 1. rewrite <- Ey at 1.
  rewrite <- Hss. unfold Rsqr. ring.
Qed.

Theorem ra_close x y z b e : 0 <= e -> 0 < x * x + y * y ->
  ra_defect x y b <= (x * x + y * y) * e² ->
  Rabs (chord (b - from3d_ra (x, y, z))) <= e.
Proof.
  intros He Hq H. rewrite (ra_defect_eq x y z b Hq) in H.
  apply Rmult_le_reg_l in H; [|assumption].
  apply Rsqr_le_abs_0 in H. rewrite (Rabs_right e) in H by lra. exact H.
Qed.

Theorem ra_far x y z b e : 0 <= e -> 0 < x * x + y * y ->
  (x * x + y * y) * e² < ra_defect x y b ->
  ~ (Rabs (chord (b - from3d_ra (x, y, z))) <= e).
Proof.
  intros He Hq H C. rewrite (ra_defect_eq x y z b Hq) in H.
  apply Rmult_lt_reg_l in H; [|assumption].
  apply Rsqr_lt_abs_0 in H. rewrite (Rabs_right e) in H by lra. lra.
Qed.

(* small chord on the circle = small angle modulo 2 pi (what the chord bound means) *)
Theorem circle_chord_small a b e : 0 <= e <= 2 -> Rabs (chord (b - a)) <= e ->
  exists k : Z, Rabs (b - a - IZR k * (2 * PI)) <= angle e.
Proof.
  intros He H. pose proof PI_RGT_0 as Hpi.
  destruct (fmod_shift (b - a + PI) (2 * PI)) as [k Hk].
  pose proof (fmod_range (b - a + PI) (2 * PI) ltac:(lra)) as Hr.
  set (t := b - a + IZR k * (2 * PI)).
  assert (Ht : - PI <= t < PI) by (unfold t; lra).
  exists (- k)%Z. rewrite opp_IZR. replace (b - a - - IZR k * (2 * PI)) with t by (unfold t; ring).
  assert (Ec : chord (b - a) = chord t \/ chord (b - a) = - chord t).
  { unfold chord, t. replace ((b - a + IZR k * (2 * PI)) / 2) with ((b - a) / 2 + IZR k * PI) by field.
    destruct (Z.Even_or_Odd k) as [[j ->]|[j ->]].
    - left. rewrite mult_IZR. replace ((b - a) / 2 + 2 * IZR j * PI) with ((b - a) / 2 + IZR j * (2 * PI)) by ring.
      rewrite sin_period_Z. reflexivity.
    - right. rewrite plus_IZR, mult_IZR.
      replace ((b - a) / 2 + (2 * IZR j + 1) * PI) with (((b - a) / 2 + PI) + IZR j * (2 * PI)) by ring.
      rewrite sin_period_Z, neg_sin. ring. }
  assert (Hc : Rabs (chord t) <= e) by (destruct Ec as [E|E]; rewrite E in H; [|rewrite Rabs_Ropp in H]; exact H).
  apply Rabs_le_inv in Hc. unfold chord in Hc.
  assert (Hb : Rabs (asin (e/2) - 0) <= asin (e/2)).
  { rewrite Rminus_0_r. rewrite Rabs_right; [lra|]. apply Rle_ge. rewrite <- asin_0. apply asin_le; lra. }
  unfold angle. apply Rabs_le. split.
  - assert (- asin (e/2) <= t/2); [|lra]. rewrite <- asin_opp.
    apply asin_le_of_sin; try lra. 
  - assert (t/2 <= asin (e/2)); [|lra]. apply asin_ge_of_sin; lra.
Qed.

(* ---- conversions: plain two-sided bounds ---- *)
Theorem to3d_close ra dec x y z bx by_ bz :
  Rabs (cos ra * cos dec - x) <= bx -> Rabs (sin ra * cos dec - y) <= by_ -> Rabs (sin dec - z) <= bz ->
  Rabs (vx (to3d ra dec) - x) <= bx /\ Rabs (vy (to3d ra dec) - y) <= by_ /\ Rabs (vz (to3d ra dec) - z) <= bz.
Proof. intros; repeat split; assumption. Qed.

(* ---- mean ---- *)
Theorem mean_ra_eq ws ps : 0 < rsum ws -> fst (sph_mean ws ps) = from3d_ra (wsum ws ps).
Proof. intros H. rewrite mean_is_direction_of_sum by assumption. reflexivity. Qed.
Theorem mean_dec_eq ws ps : 0 < rsum ws -> snd (sph_mean ws ps) = from3d_dec (wsum ws ps).
Proof. intros H. rewrite mean_is_direction_of_sum by assumption. reflexivity. Qed.

(* ================================================================ rational enclosure of pi *)
Lemma pi_enclosure : Q2R pi_lo < PI < Q2R pi_hi.
Proof. unfold Q2R, pi_lo, pi_hi; simpl. split; interval with (i_prec 160). Qed.

Lemma code3_zero b1 b2 b3 : code [b1; b2; b3] = 0%nat -> b1 = true /\ b2 = true /\ b3 = true.
Proof. destruct b1, b2, b3; cbv; intro H; try discriminate; auto. Qed.

(* the rational test of the harness implies the real statement 0 <= ra < 2 pi *)
Theorem c14_ra_case_sound ra f : c14_ra_case ra f = 0%nat -> 0 <= Q2R ra < 2 * PI.
Proof.
  unfold c14_ra_case. intros H. apply code3_zero in H. destruct H as (A & _ & C).
  apply Qleb_le in A. apply Qltb_lt in C. apply Qle_Rle in A. apply Qlt_Rlt in C.
  rewrite Q2R_mult in C. destruct pi_enclosure as [L _].
  replace (Q2R 0) with 0 in A by (unfold Q2R; simpl; field).
  replace (Q2R 2) with 2 in C by (unfold Q2R; simpl; field). lra.
Qed.

(* ================================================================ input representations
   (Model/Sphere.v: in_format, fmtb, c14_repr_case).  Everything here is over Z and Q and uses no axiom. *)
Lemma odd_part_spec n : exists j, (0 <= j)%Z /\ Zpos n = (Zpos (odd_part n) * 2 ^ j)%Z.
Proof.
  induction n as [n IH | n IH |]; cbn [odd_part].
  - exists 0%Z. split; [lia | rewrite Z.pow_0_r; lia].
  - destruct IH as [j [Hj Hn]]. exists (j + 1)%Z. split; [lia|].
    rewrite Pos2Z.inj_xO, Hn, Z.pow_add_r, Z.pow_1_r by lia. ring.
  - exists 0%Z. split; [lia | reflexivity].
Qed.

Lemma Qden1_inject (y : Q) : Pos.eqb (Qden y) 1 = true -> (y == inject_Z (Qnum y))%Q.
Proof. destruct y as [a b]; cbn [Qden Qnum]. intro H. apply Pos.eqb_eq in H. subst. reflexivity. Qed.

Theorem fmtb_sound p E M x : (0 <= p)%Z -> fmtb p E M x = true -> in_format p E M x.
Proof.
  unfold fmtb. intros Hp H. apply andb_true_iff in H. destruct H as [H H3].
  apply andb_true_iff in H. destruct H as [H1 H2].
  apply Qltb_lt in H3. split; [|exact H3].
  apply Qden1_inject in H1.
  assert (R : (x * inject_Z (2 ^ E) == inject_Z (Qnum (Qred (x * inject_Z (2 ^ E)))))%Q)
    by (eapply Qeq_trans; [symmetry; apply Qred_correct | exact H1]).
  clear H1. rename R into H1.
  destruct (Qnum (Qred (x * inject_Z (2 ^ E)))) as [|n|n].
  - exists 0%Z, 0%Z. split; [lia|]. split.
    + change (Z.abs 0) with 0%Z. apply Z.pow_pos_nonneg; lia.
    + rewrite H1. reflexivity.
  - apply Z.ltb_lt in H2. destruct (odd_part_spec n) as [j [Hj Hn]].
    exists (Zpos (odd_part n)), j. split; [exact Hj|]. split.
    + rewrite Z.abs_eq by lia. exact H2.
    + rewrite H1, Hn. reflexivity.
  - apply Z.ltb_lt in H2. destruct (odd_part_spec n) as [j [Hj Hn]].
    exists (Zneg (odd_part n)), j. split; [exact Hj|]. split.
    + change (Z.abs (Zneg (odd_part n))) with (Zpos (odd_part n)). exact H2.
    + rewrite H1. change (Z.neg n) with (- Z.pos n)%Z. rewrite Hn.
      change (Z.neg (odd_part n)) with (- Z.pos (odd_part n))%Z.
      rewrite Z.mul_opp_l. reflexivity.
Qed.

Lemma inject_Z_eq a b : a = b -> (inject_Z a == inject_Z b)%Q.
Proof. intros ->. reflexivity. Qed.

(* a wider format holds every value of a narrower one *)
Theorem in_format_widen p E M p' E' M' x :
  (p <= p')%Z -> (0 <= E <= E')%Z -> (M <= M')%Z -> (0 <= M)%Z ->
  in_format p E M x -> in_format p' E' M' x.
Proof.
  intros Hp HE HM HM0 [[m [j [Hj [Hm Hx]]]] Hb]. split.
  - exists m, (j + (E' - E))%Z. split; [lia|]. split.
    + eapply Z.lt_le_trans; [exact Hm|].
      destruct (Z.le_gt_cases 0 p) as [P|P].
      * apply Z.pow_le_mono_r; lia.
      * rewrite (Z.pow_neg_r 2 p) in Hm by lia. lia.
    + replace (2 ^ E')%Z with (2 ^ E * 2 ^ (E' - E))%Z
        by (rewrite <- Z.pow_add_r by lia; f_equal; lia).
      rewrite inject_Z_mult, Qmult_assoc, Hx, <- inject_Z_mult.
      apply inject_Z_eq. rewrite Z.pow_add_r by lia. ring.
  - eapply Qlt_le_trans; [exact Hb|]. rewrite <- Zle_Qle. apply Z.pow_le_mono_r; lia.
Qed.

Theorem b16_in_b32 x : is_b16 x -> is_b32 x.
Proof. apply in_format_widen; lia. Qed.
Theorem b32_in_b64 x : is_b32 x -> is_b64 x.
Proof. apply in_format_widen; lia. Qed.

(* integers up to 2^p (inclusive) are values of a format of precision p *)
Theorem int_in_format p E M n : (0 < p)%Z -> (0 <= E)%Z -> (p < M)%Z -> (Z.abs n <= 2 ^ p)%Z ->
  in_format p E M (inject_Z n).
Proof.
  intros Hp HE HM Hn. split.
  - destruct (Z.eq_dec (Z.abs n) (2 ^ p)) as [Heq | Hne].
    + exists (Z.sgn n), (p + E)%Z. split; [lia|]. split.
      * assert (1 < 2 ^ p)%Z by (apply Z.pow_gt_1; lia). destruct n; simpl; lia.
      * rewrite <- inject_Z_mult. apply inject_Z_eq.
        assert (Hs : n = (Z.sgn n * 2 ^ p)%Z) by (destruct n; simpl Z.sgn; simpl Z.abs in Heq; lia).
        rewrite Hs at 1. rewrite Z.pow_add_r by lia. ring.
    + exists n, E. split; [lia|]. split; [lia|]. rewrite <- inject_Z_mult. reflexivity.
  - assert (2 ^ p < 2 ^ M)%Z by (apply Z.pow_lt_mono_r; lia).
    unfold inject_Z, Qabs, Qlt; simpl. lia.
Qed.

Theorem int_in_b64 n : (Z.abs n <= 2 ^ 53)%Z -> is_b64 (inject_Z n).
Proof. apply int_in_format; lia. Qed.

(* an odd integer times a power of two is not m * 2^j with a shorter m *)
Lemma odd_bound a m j E : Z.odd a = true -> (0 <= j)%Z -> (0 <= E)%Z ->
  (a * 2 ^ E = m * 2 ^ j)%Z -> (Z.abs a <= Z.abs m)%Z.
Proof.
  intros Ha Hj HE H. destruct (Z.le_gt_cases j E) as [L | G].
  - assert (K : (2 ^ E = 2 ^ (E - j) * 2 ^ j)%Z)
      by (rewrite <- Z.pow_add_r by lia; f_equal; lia).
    rewrite K, Z.mul_assoc in H. apply Z.mul_reg_r in H; [| apply Z.pow_nonzero; lia].
    subst m. rewrite Z.abs_mul.
    assert (0 < 2 ^ (E - j))%Z by (apply Z.pow_pos_nonneg; lia).
    rewrite (Z.abs_eq (2 ^ (E - j))) by lia. pose proof (Z.abs_nonneg a). nia.
  - exfalso.
    assert (K : (2 ^ j = 2 * 2 ^ (j - E - 1) * 2 ^ E)%Z).
    { replace j with (1 + (j - E - 1) + E)%Z at 1 by lia.
      rewrite !Z.pow_add_r by lia. rewrite Z.pow_1_r. reflexivity. }
    rewrite K, !Z.mul_assoc in H. apply Z.mul_reg_r in H; [| apply Z.pow_nonzero; lia].
    subst a. rewrite <- Z.mul_assoc, (Z.mul_comm m), <- Z.mul_assoc in Ha.
    rewrite Z.odd_mul in Ha. simpl in Ha. discriminate.
Qed.

(* narrowing is NOT the identity on values: a binary64 value that no binary32 value equals.
   Primitives that run in the precision of a float32 input therefore cannot return the binary64
   results the bounds of this property are about. *)
Theorem narrowing_refuted : exists x, is_b64 x /\ ~ is_b32 x.
Proof.
  exists (inject_Z 16777217). split.
  - apply int_in_b64. vm_compute. discriminate.
  - intros [[m [j [Hj [Hm Hx]]]] _]. rewrite <- inject_Z_mult in Hx.
    apply (proj1 (inject_Z_injective _ _)) in Hx.
    apply odd_bound in Hx; [| reflexivity | lia | lia].
    change (2 ^ 24)%Z with 16777216%Z in Hm. change (Z.abs 16777217) with 16777217%Z in Hx. lia.
Qed.

(* the harness test implies: the container holds the source values, which are binary64 values *)
Theorem c14_repr_case_sound p E M src held : (0 <= p)%Z ->
  c14_repr_case p E M src held = 0%nat ->
  qlist_eqb held src = true /\ Forall (in_format p E M) src /\ Forall is_b64 held.
Proof.
  unfold c14_repr_case. intros Hp H. apply code3_zero in H. destruct H as (A & B & C).
  split; [exact A|]. split; apply Forall_forall; intros x Hx.
  - apply fmtb_sound; [exact Hp|]. rewrite forallb_forall in B. apply B; exact Hx.
  - apply fmtb_sound; [lia|]. rewrite forallb_forall in C. apply C; exact Hx.
Qed.
