(* Proofs about Model/RankMemo.v: which ways of reading the trees give every rank of a world of
   separate processes the CURRENT trees, for all histories. *)
From Verif Require Import Prelude RankMemo.
Open Scope nat_scope.

Lemma upd_same {A : Type} (m : nat -> A) k a : upd m k a k = a.
Proof. unfold upd. rewrite Nat.eqb_refl. reflexivity. Qed.

Lemma upd_other {A : Type} (m : nat -> A) k a x : x <> k -> upd m k a x = m x.
Proof. unfold upd. intro H. apply Nat.eqb_neq in H. rewrite H. reflexivity. Qed.

Lemma upd2_same {A : Type} (m : nat -> nat -> A) r f a : upd2 m r f a r f = a.
Proof. unfold upd2. rewrite !Nat.eqb_refl. reflexivity. Qed.

Lemma upd2_other {A : Type} (m : nat -> nat -> A) r f a x y :
  (x <> r \/ y <> f) -> upd2 m r f a x y = m x y.
Proof.
  unfold upd2. intros [H|H]; apply Nat.eqb_neq in H; rewrite H.
  - reflexivity.
  - rewrite andb_false_r. reflexivity.
Qed.

Lemma upd2_cases {A : Type} (m : nat -> nat -> A) r f a x y :
  (x = r /\ y = f /\ upd2 m r f a x y = a) \/ ((x <> r \/ y <> f) /\ upd2 m r f a x y = m x y).
Proof.
  destruct (Nat.eq_dec x r) as [E1|N1]; [destruct (Nat.eq_dec y f) as [E2|N2]|].
  - left. subst. rewrite upd2_same. auto.
  - right. split; [right; exact N2|]. apply upd2_other. right. exact N2.
  - right. split; [left; exact N1|]. apply upd2_other. left. exact N1.
Qed.

(* the disk holds the versions `cur` says *)
Definition disk_is (s : mst) (cur : nat -> option nat) : Prop :=
  forall f, option_map snd (disk s f) = cur f.

Lemma disk_is_build s cur p r f v :
  disk_is s cur -> disk_is (fst (mstep p s (MBuild r f v))) (upd cur f (Some v)).
Proof.
  intros H x. simpl. unfold upd. destruct (x =? f); [reflexivity|apply H].
Qed.

Lemma disk_is_drop s cur p f :
  disk_is s cur -> disk_is (fst (mstep p s (MDrop f))) (upd cur f None).
Proof.
  intros H x. simpl. unfold upd. destruct (x =? f); [reflexivity|apply H].
Qed.

(* ---------------------------------------------------------------------------------------- *)
(* no memo across calls: every rank reads the current trees                                  *)
(* ---------------------------------------------------------------------------------------- *)
Lemma nomemo_gen evs : forall s cur, disk_is s cur -> mreads PNone s evs = spec_reads cur evs.
Proof.
  induction evs as [|e t IH]; intros s cur H; [reflexivity|].
  destruct e as [r f v|f|r f].
  - simpl. apply IH. exact (disk_is_build s cur PNone r f v H).
  - simpl. apply IH. exact (disk_is_drop s cur PNone f H).
  - pose proof (H f) as Hf. cbn [mreads spec_reads mstep].
    destruct (disk s f) as [[sd vd]|] eqn:E; cbn [fst snd]; simpl in Hf; rewrite <- Hf;
      f_equal; apply IH; exact H.
Qed.

Lemma disk_is_init : disk_is minit none_yet.
Proof. intro f. reflexivity. Qed.

Theorem nomemo_reads_current evs : mreads PNone minit evs = spec_reads none_yet evs.
Proof. apply nomemo_gen. exact disk_is_init. Qed.

(* ---------------------------------------------------------------------------------------- *)
(* a memo validated against the on-disk stamp: every rank reads the current trees            *)
(* ---------------------------------------------------------------------------------------- *)
Definition vinv (s : mst) : Prop :=
  (forall f sd vd, disk s f = Some (sd, vd) -> sd < clock s) /\
  (forall r f sm vm, memo s r f = Some (sm, vm) ->
     sm < clock s /\ forall vd, disk s f = Some (sm, vd) -> vd = vm).

Lemma vinv_init : vinv minit.
Proof. split; intros; discriminate. Qed.

Lemma vinv_build s r f v : vinv s -> vinv (fst (mstep PValidated s (MBuild r f v))).
Proof.
  intros [Ha Hb]. split; simpl.
  - intros x sd vd. unfold upd. destruct (x =? f) eqn:E.
    + intro H. inversion H. lia.
    + intro H. apply Ha in H. lia.
  - intros r' x sm vm Hm. destruct (Hb _ _ _ _ Hm) as [Hlt Hv]. split; [lia|].
    intros vd. unfold upd. destruct (x =? f) eqn:E.
    + intro H. inversion H. lia.
    + apply Hv.
Qed.

Lemma vinv_drop s f : vinv s -> vinv (fst (mstep PValidated s (MDrop f))).
Proof.
  intros [Ha Hb]. split; simpl.
  - intros x sd vd. unfold upd. destruct (x =? f); [discriminate|apply Ha].
  - intros r' x sm vm Hm. destruct (Hb _ _ _ _ Hm) as [Hlt Hv]. split; [exact Hlt|].
    intros vd. unfold upd. destruct (x =? f); [discriminate|apply Hv].
Qed.

Lemma vinv_load s r f sd vd : vinv s -> disk s f = Some (sd, vd) -> vinv (mload s r f sd vd).
Proof.
  intros [Ha Hb] Hd. split; simpl.
  - exact Ha.
  - intros r' x sm vm. destruct (upd2_cases (memo s) r f (Some (sd, vd)) r' x) as [[E1 [E2 E]]|[_ E]]; rewrite E.
    + intro H. inversion H. subst. split; [exact (Ha _ _ _ Hd)|].
      intros vd' H'. rewrite Hd in H'. inversion H'. reflexivity.
    + apply Hb.
Qed.

Lemma validated_gen evs :
  forall s cur, vinv s -> disk_is s cur -> mreads PValidated s evs = spec_reads cur evs.
Proof.
  induction evs as [|e t IH]; intros s cur Hv H; [reflexivity|].
  destruct e as [r f v|f|r f].
  - simpl. apply IH; [exact (vinv_build s r f v Hv)|exact (disk_is_build s cur PValidated r f v H)].
  - simpl. apply IH; [exact (vinv_drop s f Hv)|exact (disk_is_drop s cur PValidated f H)].
  - pose proof (H f) as Hf. cbn [mreads spec_reads mstep].
    destruct (disk s f) as [[sd vd]|] eqn:E; simpl in Hf; rewrite <- Hf.
    + destruct (memo s r f) as [[sm vm]|] eqn:M.
      * destruct (sm =? sd) eqn:Q; cbn [fst snd].
        -- apply Nat.eqb_eq in Q. subst sm.
           destruct Hv as [Ha Hb]. destruct (Hb _ _ _ _ M) as [_ Hvv].
           rewrite (Hvv vd E). f_equal. apply IH; [split; assumption|exact H].
        -- f_equal. apply IH; [exact (vinv_load s r f sd vd Hv E)|exact H].
      * cbn [fst snd]. f_equal. apply IH; [exact (vinv_load s r f sd vd Hv E)|exact H].
    + cbn [fst snd]. f_equal. apply IH; assumption.
Qed.

Theorem validated_reads_current evs : mreads PValidated minit evs = spec_reads none_yet evs.
Proof. apply validated_gen; [exact vinv_init|exact disk_is_init]. Qed.

(* ---------------------------------------------------------------------------------------- *)
(* a private memo that is not validated: fine as long as ONE process does everything ...     *)
(* ---------------------------------------------------------------------------------------- *)
Definition pinv (r : nat) (s : mst) : Prop :=
  forall f sm vm, memo s r f = Some (sm, vm) -> forall sd vd, disk s f = Some (sd, vd) -> vd = vm.

Lemma private_gen r evs :
  forall s cur, Forall (on_rank r) evs -> pinv r s -> disk_is s cur ->
  mreads PPrivate s evs = spec_reads cur evs.
Proof.
  induction evs as [|e t IH]; intros s cur Hr Hp H; [reflexivity|].
  inversion Hr as [|e' t' He Ht]; subst.
  destruct e as [r' f v|f|r' f]; simpl in He; subst.
  - simpl. apply IH; [exact Ht| |exact (disk_is_build s cur PPrivate r f v H)].
    intros x sm vm. simpl.
    destruct (upd2_cases (memo s) r f None r x) as [[_ [_ E]]|[[N|N] E]]; rewrite E.
    + discriminate.
    + congruence.
    + intros Hm sd vd. unfold upd. apply Nat.eqb_neq in N. rewrite N. apply (Hp _ _ _ Hm).
  - simpl. apply IH; [exact Ht| |exact (disk_is_drop s cur PPrivate f H)].
    intros x sm vm Hm sd vd. simpl. unfold upd. destruct (x =? f); [discriminate|apply (Hp _ _ _ Hm)].
  - pose proof (H f) as Hf. cbn [mreads spec_reads mstep].
    destruct (disk s f) as [[sd vd]|] eqn:E; simpl in Hf; rewrite <- Hf.
    + destruct (memo s r f) as [[sm vm]|] eqn:M; cbn [fst snd].
      * rewrite (Hp _ _ _ M _ _ E). f_equal. apply IH; assumption.
      * f_equal. apply IH; [exact Ht| |exact H].
        intros x sm vm. simpl.
        destruct (upd2_cases (memo s) r f (Some (sd, vd)) r x) as [[_ [E2 E3]]|[_ E3]]; rewrite E3.
        -- intro Hm. inversion Hm. subst. intros sd' vd' H'. rewrite E in H'. inversion H'. reflexivity.
        -- apply Hp.
    + cbn [fst snd]. f_equal. apply IH; assumption.
Qed.

Theorem private_single_process_current r evs :
  Forall (on_rank r) evs -> mreads PPrivate minit evs = spec_reads none_yet evs.
Proof.
  intro H. apply (private_gen r); [exact H| |exact disk_is_init].
  intros f sm vm Hm. discriminate.
Qed.

(* ... and wrong as soon as ANOTHER rank rebuilds: for all ranks, files and versions *)
Theorem private_stale_after_foreign_rebuild r r' f v v' :
  r <> r' ->
  mreads PPrivate minit [MBuild r' f v; MRead r f; MBuild r' f v'; MRead r f] = [Some v; Some v] /\
  spec_reads none_yet [MBuild r' f v; MRead r f; MBuild r' f v'; MRead r f] = [Some v; Some v'].
Proof.
  intro N. split.
  - cbn [mreads mstep minit disk memo clock fst snd].
    rewrite upd_same. cbn [fst snd].
    rewrite (upd2_other (fun _ _ : nat => @None (nat * nat)) r' f None r f) by (left; exact N).
    cbn [fst snd mload disk memo clock mstep].
    rewrite upd_same.
    rewrite (upd2_other _ r' f None r f) by (left; exact N).
    rewrite upd2_same. reflexivity.
  - cbn [spec_reads]. rewrite !upd_same. reflexivity.
Qed.

(* ---------------------------------------------------------------------------------------- *)
(* the world against the single process                                                      *)
(* ---------------------------------------------------------------------------------------- *)
Lemma spec_single evs : forall cur, spec_reads cur (single evs) = spec_reads cur evs.
Proof.
  induction evs as [|e t IH]; intro cur; [reflexivity|].
  destruct e; simpl; rewrite IH; reflexivity.
Qed.

Lemma single_on_rank evs : Forall (on_rank 0) (single evs).
Proof.
  induction evs as [|e t IH]; [constructor|].
  constructor; [destruct e; simpl; auto|exact IH].
Qed.

(* the single process may even keep a private memo: its reads are the spec *)
Theorem single_process_reads evs p :
  mreads p minit (single evs) = spec_reads none_yet evs.
Proof.
  rewrite <- (spec_single evs none_yet). destruct p.
  - apply nomemo_reads_current.
  - apply (private_single_process_current 0). apply single_on_rank.
  - apply validated_reads_current.
Qed.

Theorem world_equals_single_process_nomemo evs p :
  mreads PNone minit evs = mreads p minit (single evs).
Proof. rewrite single_process_reads. apply nomemo_reads_current. Qed.

Theorem world_equals_single_process_validated evs p :
  mreads PValidated minit evs = mreads p minit (single evs).
Proof. rewrite single_process_reads. apply validated_reads_current. Qed.

Theorem world_private_memo_refuted :
  exists evs, mreads PPrivate minit evs <> mreads PPrivate minit (single evs).
Proof.
  exists [MBuild 0 0 1; MRead 1 0; MBuild 0 0 2; MRead 1 0]. vm_compute. intro H. discriminate.
Qed.

(* checker: code 0 = every read is the current version *)
Lemma nlist_eqb_true_eq l1 l2 : nlist_eqb l1 l2 = true -> l1 = l2.
Proof. apply nlist_eqb_eq. Qed.

Theorem memo_case_sound n evs obs :
  c06_memo_case n evs obs = 0 -> obs = map enc (spec_reads none_yet evs).
Proof.
  unfold c06_memo_case, code. cbn [code_from].
  destruct (forallb (ev_ok n) evs && (length (map enc (mreads PNone minit evs)) =? length obs)); [|simpl; lia].
  destruct (nlist_eqb (map enc (mreads PNone minit evs)) obs) eqn:E; [|simpl; lia].
  intros _. apply nlist_eqb_true_eq in E. rewrite <- E, nomemo_reads_current. reflexivity.
Qed.
