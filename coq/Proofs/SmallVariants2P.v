From Verif Require Import SmallVariants2.
From Coq Require Import List Arith Bool.
Import ListNotations.

Theorem select_entry {A} (d : A) idx l a : a < length idx -> nth a (select d idx l) d = nth (nth a idx 0) l d.
Proof.
  intro H. unfold select.
  rewrite (nth_indep (map (fun i => nth i l d) idx) d ((fun i => nth i l d) 0)) by (rewrite map_length; exact H).
  apply (map_nth (fun i => nth i l d) idx 0 a).
Qed.
Theorem select_length {A} (d : A) idx l : length (select d idx l) = length idx.
Proof. apply map_length. Qed.
(* counts selected by the list and weight sums selected through a mask describe different patches for an unsorted list *)
Theorem select_mask_refuted :
  exists (idx : list nat) (l : list nat), select 0 idx l <> select_mask 0 idx l /\ length (select 0 idx l) = length (select_mask 0 idx l).
Proof. exists [4; 1; 5; 0], [10; 11; 12; 13; 14; 15]. vm_compute. split; [discriminate|reflexivity]. Qed.
Example select_mask_same_on_sorted : select 0 [0; 1; 4; 5] [10; 11; 12; 13; 14; 15] = select_mask 0 [0; 1; 4; 5] [10; 11; 12; 13; 14; 15].
Proof. reflexivity. Qed.

Theorem restore_sum_any stored count : restore_sum stored count = stored.
Proof. reflexivity. Qed.
Theorem restore_sum_or_refuted : exists count, restore_sum_or 0 count <> restore_sum 0 count.
Proof. exists 50. discriminate. Qed.
