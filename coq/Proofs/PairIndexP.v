(* Proofs about Model/PairIndex.v (C04, many patches):
     - the flat pair index i * N + j is injective on [0, N)^2 over the integers; held in a `bits`-wide
       signed integer it is exact as long as N^2 <= 2^(bits-1) and wraps for some pair of every larger N
       (11 / 181 / 46340 patches for 8 / 16 / 32 bits); at N = 182 a 16-bit index puts a pair on ANOTHER
       valid pair;
     - the sparse pair list written by to_hdf and read back pair by pair restores every entry, for any
       number of patches and bins; written back through a 16-bit flat index it does not;
     - the one-pass evaluation of total - row - column + diagonal on a pair list is the recount without
       patch k, and is the dense model of Jackknife.v / Estimators.v on the matrix the list stands for;
       the closed-form normalisations are those of the dense weight-product matrices. *)
From Verif Require Import Prelude Jackknife JackknifeP Estimators PairIndex.
From Coq Require Import Lia.
Open Scope Q_scope.

(* ================================================================== (1) flat pair index *)
Theorem flat_injective N i j i' j' :
  (0 <= j < N)%Z -> (0 <= j' < N)%Z -> flat N i j = flat N i' j' -> i = i' /\ j = j'.
Proof.
  unfold flat. intros Hj Hj' H.
  apply (Z.div_mod_unique N i i' j j'); [left; exact Hj | left; exact Hj' |].
  rewrite (Z.mul_comm N i), (Z.mul_comm N i'). exact H.
Qed.

Theorem unflat_flat N i j : (0 <= j < N)%Z -> unflat N (flat N i j) = (i, j).
Proof.
  intros Hj. unfold unflat, flat. f_equal.
  - rewrite Z.div_add_l by lia. rewrite Z.div_small by lia. lia.
  - rewrite Z.add_comm, Z.mod_add by lia. apply Z.mod_small. lia.
Qed.

Lemma pow2_split bits : (0 < bits)%Z -> (2 ^ bits = 2 * 2 ^ (bits - 1))%Z.
Proof. intros H. replace bits with (Z.succ (bits - 1)) at 1 by lia. apply Z.pow_succ_r. lia. Qed.

Lemma wrap_fits bits z : (0 < bits)%Z -> fits bits z -> wrap bits z = z.
Proof.
  intros Hb [H1 H2]. unfold wrap. pose proof (pow2_split bits Hb) as P.
  rewrite Z.mod_small by lia. lia.
Qed.

Lemma wrap_range bits z : (0 < bits)%Z -> fits bits (wrap bits z).
Proof.
  intros Hb. unfold fits, wrap. pose proof (pow2_split bits Hb) as P.
  assert (0 < 2 ^ (bits - 1))%Z by (apply Z.pow_pos_nonneg; lia).
  pose proof (Z.mod_pos_bound (z + 2 ^ (bits - 1)) (2 ^ bits)) as B. lia.
Qed.

Lemma wrap_changes bits z : (0 < bits)%Z -> ~ fits bits z -> wrap bits z <> z.
Proof. intros Hb Hn E. apply Hn. rewrite <- E. apply wrap_range. exact Hb. Qed.

(* a signed integer of `bits` bits holds every flat position of an N x N array iff N^2 <= 2^(bits-1) *)
Theorem flat_fits_below bits N i j :
  (0 < bits)%Z -> (N * N <= 2 ^ (bits - 1))%Z -> in_range N i -> in_range N j ->
  flat_w bits N i j = flat N i j.
Proof.
  intros Hb HN [Hi1 Hi2] [Hj1 Hj2]. apply wrap_fits; [exact Hb|].
  assert (0 < 2 ^ (bits - 1))%Z by (apply Z.pow_pos_nonneg; lia).
  unfold fits, flat. split; nia.
Qed.

Theorem flat_wraps_from bits N :
  (0 < bits)%Z -> (0 < N)%Z -> (2 ^ (bits - 1) < N * N)%Z ->
  exists i j, in_range N i /\ in_range N j /\ flat_w bits N i j <> flat N i j.
Proof.
  intros Hb HN HB. exists (N - 1)%Z, (N - 1)%Z. unfold in_range. repeat split; try lia.
  apply wrap_changes; [exact Hb|]. unfold fits, flat. nia.
Qed.

(* the thresholds: 8 bits hold 11 patches, 16 bits (the catalogs' patch id type) 181, 32 bits 46340 *)
Corollary flat16_fits_181 N i j :
  (0 <= N <= 181)%Z -> in_range N i -> in_range N j -> flat_w 16 N i j = flat N i j.
Proof. intros HN. apply flat_fits_below; [lia|]. change (2 ^ (16 - 1))%Z with 32768%Z. nia. Qed.

Corollary flat16_wraps_from_182 N :
  (182 <= N)%Z -> exists i j, in_range N i /\ in_range N j /\ flat_w 16 N i j <> flat N i j.
Proof. intros HN. apply flat_wraps_from; [lia|lia|]. change (2 ^ (16 - 1))%Z with 32768%Z. nia. Qed.

Corollary flat8_fits_11_wraps_12 :
  (forall N i j, (0 <= N <= 11)%Z -> in_range N i -> in_range N j -> flat_w 8 N i j = flat N i j)
  /\ (forall N, (12 <= N)%Z -> exists i j, in_range N i /\ in_range N j /\ flat_w 8 N i j <> flat N i j).
Proof.
  split.
  - intros N i j HN. apply flat_fits_below; [lia|]. change (2 ^ (8 - 1))%Z with 128%Z. nia.
  - intros N HN. apply flat_wraps_from; [lia|lia|]. change (2 ^ (8 - 1))%Z with 128%Z. nia.
Qed.

Corollary flat32_fits_46340_wraps_46341 :
  (forall N i j, (0 <= N <= 46340)%Z -> in_range N i -> in_range N j -> flat_w 32 N i j = flat N i j)
  /\ (forall N, (46341 <= N)%Z -> exists i j, in_range N i /\ in_range N j /\ flat_w 32 N i j <> flat N i j).
Proof.
  split.
  - intros N i j HN. apply flat_fits_below; [lia|]. change (2 ^ (32 - 1))%Z with 2147483648%Z. nia.
  - intros N HN. apply flat_wraps_from; [lia|lia|]. change (2 ^ (32 - 1))%Z with 2147483648%Z. nia.
Qed.

(* with 182 patches the pair (180, 8) has flat position 2^15: a 16-bit index reads -2^15, which numpy
   counts from the end of the 182^2 entries: the counts land on the valid pair (1, 174) *)
Theorem flat16_lands_on_other_pair :
  exists N i j i' j', in_range N i /\ in_range N j /\ in_range N i' /\ in_range N j'
    /\ (i, j) <> (i', j') /\ lands 16 N i j = (i', j') /\ lands 64 N i j = (i, j).
Proof.
  exists 182%Z, 180%Z, 8%Z, 1%Z, 174%Z. unfold in_range. repeat split; try lia; try discriminate.
Qed.

(* the wrap is not always visible: with exactly 256 patches the negative 16-bit value, read from the
   end of 2^16 entries, is the right position again - one more reason to vary N *)
Theorem flat16_invisible_at_256 i j : in_range 256 i -> in_range 256 j -> lands 16 256 i j = (i, j).
Proof.
  intros [Hi1 Hi2] [Hj1 Hj2]. unfold lands, flat_w, np_pos.
  assert (E : (if (wrap 16 (flat 256 i j) <? 0)%Z then (256 * 256 + wrap 16 (flat 256 i j))%Z
               else wrap 16 (flat 256 i j)) = flat 256 i j).
  { unfold wrap, flat. change (2 ^ (16 - 1))%Z with 32768%Z. change (2 ^ 16)%Z with 65536%Z.
    destruct (Z_lt_le_dec (i * 256 + j) 32768) as [L|G].
    - rewrite Z.mod_small by lia.
      destruct (Z.ltb_spec (i * 256 + j + 32768 - 32768) 0); lia.
    - replace (i * 256 + j + 32768)%Z with ((i * 256 + j - 32768) + 1 * 65536)%Z by lia.
      rewrite Z.mod_add by lia. rewrite Z.mod_small by lia.
      destruct (Z.ltb_spec (i * 256 + j - 32768 - 32768) 0); lia. }
  rewrite E. apply unflat_flat. lia.
Qed.

(* ================================================================== (2) sparse pair lists *)
Lemma sp_get_some l i j v : sp_get l i j = Some v -> exists e, In e l /\ key_eqb i j e = true /\ sp_v e = v.
Proof.
  induction l as [|e l IH]; simpl; [discriminate|].
  destruct (sp_get l i j) as [w|] eqn:E.
  - intros H. inversion H; subst. destruct (IH eq_refl) as [e' [Hin H']]. exists e'. split; [right; exact Hin | exact H'].
  - destruct (key_eqb i j e) eqn:K; [|discriminate]. intros H. inversion H. exists e. auto.
Qed.

Lemma sp_get_none l i j : sp_get l i j = None -> forall e, In e l -> key_eqb i j e = false.
Proof.
  induction l as [|e l IH]; simpl; [intros _ e []|].
  destruct (sp_get l i j) as [w|] eqn:E; [discriminate|].
  destruct (key_eqb i j e) eqn:K; [discriminate|]. intros _ e' [<-|Hin]; [exact K | apply IH; auto].
Qed.

Lemma key_eqb_true i j e : key_eqb i j e = true <-> sp_i e = i /\ sp_j e = j.
Proof. unfold key_eqb. rewrite andb_true_iff, !Nat.eqb_eq. tauto. Qed.

Lemma in_to_sparse N C e :
  In e (to_sparse N C) <->
  (sp_i e < N)%nat /\ (sp_j e < N)%nat /\ anynz (cell C (sp_i e) (sp_j e)) = true /\ sp_v e = cell C (sp_i e) (sp_j e).
Proof.
  unfold to_sparse. rewrite in_flat_map. split.
  - intros [i [Hi H]]. apply in_flat_map in H. destruct H as [j [Hj H]].
    apply in_seq in Hi. apply in_seq in Hj.
    destruct (anynz (cell C i j)) eqn:A; [|destruct H].
    destruct H as [<-|[]]. unfold sp_i, sp_j, sp_v. simpl. repeat split; try lia; assumption.
  - intros [Hi [Hj [A V]]]. exists (sp_i e). split; [apply in_seq; lia|].
    apply in_flat_map. exists (sp_j e). split; [apply in_seq; lia|].
    rewrite A. left. destruct e as [[a b] v]. unfold sp_i, sp_j, sp_v in *. simpl in *. subst. reflexivity.
Qed.

Lemma anynz_false_nth v b : anynz v = false -> nth b v 0 == 0.
Proof.
  unfold anynz. revert b. induction v as [|x v IH]; intros b H; simpl in *.
  - destruct b; reflexivity.
  - apply orb_false_iff in H. destruct H as [H1 H2]. destruct b as [|b].
    + apply negb_false_iff in H1. apply Qeq_bool_iff in H1. exact H1.
    + apply IH. exact H2.
Qed.

Lemma cell_nth (C : list mat) i j b : nth b (cell C i j) 0 = nth j (nth i (nth b C []) []) 0.
Proof.
  unfold cell.
  assert (E : (fun M : mat => nth j (nth i M []) 0) [] = 0) by (destruct i, j; reflexivity).
  rewrite <- E at 1. apply (map_nth (fun M : mat => nth j (nth i M []) 0)).
Qed.

(* what the reader restores from the list the writer produced is the entry that was written *)
Theorem sparse_roundtrip N (C : list mat) i j b :
  (i < N)%nat -> (j < N)%nat -> restored (to_sparse N C) i j b == nth j (nth i (nth b C []) []) 0.
Proof.
  intros Hi Hj. rewrite <- cell_nth. unfold restored.
  destruct (sp_get (to_sparse N C) i j) as [v|] eqn:E.
  - apply sp_get_some in E. destruct E as [e [Hin [K V]]].
    apply in_to_sparse in Hin. apply key_eqb_true in K. destruct K as [<- <-].
    destruct Hin as [_ [_ [_ V']]]. rewrite <- V, V'. reflexivity.
  - destruct (anynz (cell C i j)) eqn:A.
    + exfalso. pose proof (sp_get_none _ _ _ E (i, j, cell C i j)) as K.
      assert (In (i, j, cell C i j) (to_sparse N C)) as Hin
        by (apply in_to_sparse; unfold sp_i, sp_j, sp_v; simpl; auto).
      specialize (K Hin). unfold key_eqb, sp_i, sp_j in K. simpl in K. rewrite !Nat.eqb_refl in K. discriminate.
    + symmetry. apply anynz_false_nth. exact A.
Qed.

Lemma nth_map_seq {A} (f : nat -> A) n k d : (k < n)%nat -> nth k (map f (seq 0 n)) d = f k.
Proof.
  intros H. rewrite (nth_indep _ d (f 0%nat)) by (rewrite map_length, seq_length; exact H).
  rewrite map_nth. rewrite seq_nth by exact H. reflexivity.
Qed.

Lemma from_sparse_nth B N l b i j :
  (b < B)%nat -> (i < N)%nat -> (j < N)%nat ->
  nth j (nth i (nth b (from_sparse B N l) []) []) 0 = restored l i j b.
Proof.
  intros Hb Hi Hj. unfold from_sparse, mat.
  rewrite (nth_map_seq (fun b => map (fun i => map (fun j => restored l i j b) (seq 0 N)) (seq 0 N)) B b [] Hb).
  rewrite (nth_map_seq (fun i => map (fun j => restored l i j b) (seq 0 N)) N i [] Hi).
  apply (nth_map_seq (fun j => restored l i j b)). exact Hj.
Qed.

(* to_file then from_file: every entry of every bin, for any number of patches *)
Theorem sparse_roundtrip_dense B N (C : list mat) b i j :
  (b < B)%nat -> (i < N)%nat -> (j < N)%nat ->
  nth j (nth i (nth b (from_sparse B N (to_sparse N C)) []) []) 0 == nth j (nth i (nth b C []) []) 0.
Proof. intros Hb Hi Hj. rewrite from_sparse_nth by assumption. apply sparse_roundtrip; assumption. Qed.

(* one bin, 182 patches, a single count at the pair (180, 8) *)
Definition wrap_witness : list mat :=
  [map (fun i => map (fun j => if Nat.eqb i 180 && Nat.eqb j 8 then 1 else 0) (seq 0 182)) (seq 0 182)].

(* written back through a 16-bit flat index the count is gone from (180, 8) and sits on (1, 174);
   through a 64-bit index (and below 182 patches) nothing moves *)
Theorem sparse_roundtrip_wrapped_refuted :
  let l := to_sparse 182 wrap_witness in
  l = [(180%nat, 8%nat, [1])]
  /\ restored (map (lands_nat 16 182) l) 180 8 0 = 0 /\ restored (map (lands_nat 16 182) l) 1 174 0 = 1
  /\ restored (map (lands_nat 64 182) l) 180 8 0 = 1 /\ restored (map (lands_nat 64 182) l) 1 174 0 = 0.
Proof. vm_compute. repeat split; reflexivity. Qed.

(* ================================================================== (3) sums over a pair list *)
Lemma qsum_filter {A} (f : A -> Q) (p : A -> bool) l :
  qsum (map f (filter p l)) == qsum (map (fun e => if p e then f e else 0) l).
Proof.
  induction l as [|e l IH]; simpl; [reflexivity|].
  destruct (p e); simpl; rewrite IH; ring.
Qed.

Lemma length_add_nth k x acc : length (add_nth k x acc) = length acc.
Proof. revert k. induction acc as [|a acc IH]; intros [|k]; simpl; auto. Qed.

Lemma nth_add_nth k x acc i :
  (k < length acc)%nat -> nth i (add_nth k x acc) 0 == if Nat.eqb k i then nth i acc 0 + x else nth i acc 0.
Proof.
  revert k i. induction acc as [|a acc IH]; intros k i Hk; simpl in Hk; [lia|].
  destruct k as [|k]; destruct i as [|i]; cbn [add_nth nth Nat.eqb].
  - apply Qred_correct.
  - reflexivity.
  - reflexivity.
  - apply IH. lia.
Qed.

Lemma nth_zeros N i : nth i (zeros N) 0 = 0.
Proof. unfold zeros. revert i. induction N as [|N IH]; intros [|i]; simpl; auto. Qed.

(* a generic accumulator: position (pos e) receives (val e) when (use e) *)
Definition acc_list (N : nat) (use : spe -> bool) (pos : spe -> nat) (val : spe -> Q) (l : list spe) : list Q :=
  fold_right (fun e acc => if use e then add_nth (pos e) (val e) acc else acc) (zeros N) l.

Lemma acc_list_length N use pos val l : length (acc_list N use pos val l) = N.
Proof.
  induction l as [|e l IH]; simpl; [apply repeat_length|].
  destruct (use e); [rewrite length_add_nth|]; exact IH.
Qed.

Lemma acc_list_nth N use pos val l k :
  Forall (fun e => (pos e < N)%nat) l ->
  nth k (acc_list N use pos val l) 0 == qsum (map val (filter (fun e => use e && Nat.eqb (pos e) k) l)).
Proof.
  intros H. induction H as [|e l He Hl IH]; simpl.
  - rewrite nth_zeros. reflexivity.
  - destruct (use e); simpl.
    + rewrite nth_add_nth by (rewrite acc_list_length; exact He).
      destruct (Nat.eqb (pos e) k); simpl; rewrite IH; ring.
    + exact IH.
Qed.

Definition in_box (N : nat) (l : list spe) : Prop := Forall (fun e => (sp_i e < N)%nat /\ (sp_j e < N)%nat) l.

Lemma sp_rows_nth N b l k : in_box N l ->
  nth k (sp_rows N b l) 0 == qsum (map (ev b) (filter (fun e => Nat.eqb (sp_i e) k) l)).
Proof.
  intros H. change (sp_rows N b l) with (acc_list N (fun _ => true) sp_i (ev b) l).
  rewrite acc_list_nth; [reflexivity|]. eapply Forall_impl; [|exact H]. simpl. tauto.
Qed.

Lemma sp_cols_nth N b l k : in_box N l ->
  nth k (sp_cols N b l) 0 == qsum (map (ev b) (filter (fun e => Nat.eqb (sp_j e) k) l)).
Proof.
  intros H. change (sp_cols N b l) with (acc_list N (fun _ => true) sp_j (ev b) l).
  rewrite acc_list_nth; [reflexivity|]. eapply Forall_impl; [|exact H]. simpl. tauto.
Qed.

Lemma sp_diags_nth N b l k : in_box N l ->
  nth k (sp_diags N b l) 0 == qsum (map (ev b) (filter (fun e => Nat.eqb (sp_i e) (sp_j e) && Nat.eqb (sp_i e) k) l)).
Proof.
  intros H. change (sp_diags N b l) with (acc_list N (fun e => Nat.eqb (sp_i e) (sp_j e)) sp_i (ev b) l).
  rewrite acc_list_nth; [reflexivity|]. eapply Forall_impl; [|exact H]. simpl. tauto.
Qed.

Lemma sp_rows_length N b l : length (sp_rows N b l) = N.
Proof. apply (acc_list_length N (fun _ => true) sp_i (ev b) l). Qed.
Lemma sp_cols_length N b l : length (sp_cols N b l) = N.
Proof. apply (acc_list_length N (fun _ => true) sp_j (ev b) l). Qed.
Lemma sp_diags_length N b l : length (sp_diags N b l) = N.
Proof. apply (acc_list_length N (fun e => Nat.eqb (sp_i e) (sp_j e)) sp_i (ev b) l). Qed.

Lemma nth_map3 {A B C} (f : A -> B -> C -> Q) l1 l2 l3 k da db dc :
  (k < length l1)%nat -> length l2 = length l1 -> length l3 = length l1 ->
  nth k (map3 f l1 l2 l3) 0 = f (nth k l1 da) (nth k l2 db) (nth k l3 dc).
Proof.
  revert l2 l3 k. induction l1 as [|a l1 IH]; intros [|b l2] [|c l3] k Hk H2 H3; simpl in *; try lia.
  destruct k as [|k]; [reflexivity|]. apply IH; lia.
Qed.

Lemma sp_total_plain b l : sp_total b l == qsum (map (ev b) l).
Proof. apply qsumr_qsum. Qed.

(* the identity behind the jackknife trick, entry by entry *)
Lemma loo_identity b l k :
  qsum (map (ev b) l)
  - qsum (map (ev b) (filter (fun e => Nat.eqb (sp_j e) k) l))
  - qsum (map (ev b) (filter (fun e => Nat.eqb (sp_i e) k) l))
  + qsum (map (ev b) (filter (fun e => Nat.eqb (sp_i e) (sp_j e) && Nat.eqb (sp_i e) k) l))
  == sp_loo b l k.
Proof.
  unfold sp_loo, touches. induction l as [|e l IH]; simpl; [ring|].
  destruct (Nat.eqb (sp_i e) k) eqn:Ei; destruct (Nat.eqb (sp_j e) k) eqn:Ej; simpl.
  - apply Nat.eqb_eq in Ei. apply Nat.eqb_eq in Ej.
    assert (Nat.eqb (sp_i e) (sp_j e) = true) as -> by (apply Nat.eqb_eq; congruence). simpl.
    rewrite <- IH. ring.
  - assert (Nat.eqb (sp_i e) (sp_j e) = false) as ->.
    { apply Nat.eqb_eq in Ei. apply Nat.eqb_neq in Ej. apply Nat.eqb_neq. congruence. }
    simpl. rewrite <- IH. ring.
  - rewrite andb_false_r. simpl. rewrite <- IH. ring.
  - rewrite andb_false_r. simpl. rewrite <- IH. ring.
Qed.

(* C04 / C03 on a pair list: sample k of the one-pass evaluation is the total of the pairs that do
   not involve patch k, whatever the number of patches *)
Theorem sparse_sample_is_recount N b l k :
  in_box N l -> (k < N)%nat -> nth k (sp_samples N b l) 0 == sp_loo b l k.
Proof.
  intros H Hk. unfold sp_samples.
  rewrite (nth_map3 _ _ _ _ k 0 0 0)
    by (rewrite ?sp_rows_length, ?sp_cols_length, ?sp_diags_length; auto).
  rewrite Qred_correct, sp_total_plain, sp_rows_nth, sp_cols_nth, sp_diags_nth by exact H.
  apply loo_identity.
Qed.

(* ------------------------------------------------ the dense matrix a pair list stands for *)
Lemma qsum_seq_delta a (x : Q) s n :
  qsum (map (fun i => if Nat.eqb a i then x else 0) (seq s n))
  == if (s <=? a)%nat && (a <? s + n)%nat then x else 0.
Proof.
  revert s. induction n as [|n IH]; intros s; cbn [seq map qsum].
  - destruct (Nat.leb_spec s a); destruct (Nat.ltb_spec a (s + 0)); cbn [andb]; try reflexivity; lia.
  - rewrite IH.
    destruct (Nat.eqb_spec a s); destruct (Nat.leb_spec (S s) a); destruct (Nat.ltb_spec a (S s + n));
      destruct (Nat.leb_spec s a); destruct (Nat.ltb_spec a (s + S n)); cbn [andb]; try lia; ring.
Qed.

Lemma qsum_delta_in a (x : Q) N : (a < N)%nat -> qsum (map (fun i => if Nat.eqb a i then x else 0) (seq 0 N)) == x.
Proof.
  intros H. rewrite qsum_seq_delta. simpl.
  assert ((a <? N)%nat = true) as -> by (apply Nat.ltb_lt; exact H). reflexivity.
Qed.

Lemma sp_cell_sum b l i j :
  sp_cell b l i j == qsum (map (fun e => if Nat.eqb (sp_i e) i then (if Nat.eqb (sp_j e) j then ev b e else 0) else 0) l).
Proof.
  unfold sp_cell. rewrite qsum_filter. apply qsum_ext_all. intros e. unfold key_eqb.
  destruct (Nat.eqb (sp_i e) i); destruct (Nat.eqb (sp_j e) j); reflexivity.
Qed.

Lemma dense_row N b l i : (i < N)%nat -> nth i (dense N b l) [] = map (fun j => sp_cell b l i j) (seq 0 N).
Proof. intros H. unfold dense. apply (nth_map_seq (fun i => map (fun j => sp_cell b l i j) (seq 0 N))). exact H. Qed.

(* sum over a row of the dense matrix = the entries of the list in that row *)
Lemma dense_rowsum N b l i : in_box N l -> (i < N)%nat ->
  rowsum (dense N b l) i == qsum (map (ev b) (filter (fun e => Nat.eqb (sp_i e) i) l)).
Proof.
  intros H Hi. unfold rowsum. rewrite dense_row by exact Hi.
  rewrite (qsum_ext (fun j => sp_cell b l i j)
             (fun j => qsum (map (fun e => if Nat.eqb (sp_i e) i then (if Nat.eqb (sp_j e) j then ev b e else 0) else 0) l)))
    by (intros; apply sp_cell_sum).
  rewrite (qsum_swap (fun j e => if Nat.eqb (sp_i e) i then (if Nat.eqb (sp_j e) j then ev b e else 0) else 0)).
  rewrite qsum_filter. apply qsum_ext. intros e He.
  unfold in_box in H. rewrite Forall_forall in H. destruct (H e He) as [_ Hj].
  destruct (Nat.eqb (sp_i e) i).
  - apply qsum_delta_in. exact Hj.
  - apply qsum_zero.
Qed.

Lemma dense_colsum N b l j : in_box N l -> (j < N)%nat ->
  colsum (dense N b l) j == qsum (map (ev b) (filter (fun e => Nat.eqb (sp_j e) j) l)).
Proof.
  intros H Hj. unfold colsum, dense. rewrite map_map.
  rewrite (qsum_ext (fun i => nth j (map (fun j0 => sp_cell b l i j0) (seq 0 N)) 0)
             (fun i => qsum (map (fun e => if Nat.eqb (sp_i e) i then (if Nat.eqb (sp_j e) j then ev b e else 0) else 0) l))).
  2:{ intros i _. rewrite (nth_map_seq (fun j0 => sp_cell b l i j0)) by exact Hj. apply sp_cell_sum. }
  rewrite (qsum_swap (fun i e => if Nat.eqb (sp_i e) i then (if Nat.eqb (sp_j e) j then ev b e else 0) else 0)).
  rewrite qsum_filter. apply qsum_ext. intros e He.
  unfold in_box in H. rewrite Forall_forall in H. destruct (H e He) as [Hi _].
  rewrite (qsum_delta_in (sp_i e) (if Nat.eqb (sp_j e) j then ev b e else 0) N Hi). reflexivity.
Qed.

Lemma dense_diag N b l k : (k < N)%nat ->
  diag (dense N b l) k == qsum (map (ev b) (filter (fun e => Nat.eqb (sp_i e) (sp_j e) && Nat.eqb (sp_i e) k) l)).
Proof.
  intros Hk. unfold diag. rewrite dense_row by exact Hk.
  rewrite (nth_map_seq (fun j => sp_cell b l k j)) by exact Hk.
  unfold sp_cell. rewrite !qsum_filter. apply qsum_ext_all. intros e. unfold key_eqb.
  destruct (Nat.eqb_spec (sp_i e) k) as [->|Hne]; destruct (Nat.eqb_spec (sp_j e) k) as [->|Hne']; simpl.
  - rewrite Nat.eqb_refl. reflexivity.
  - assert (Nat.eqb k (sp_j e) = false) as -> by (apply Nat.eqb_neq; congruence). reflexivity.
  - rewrite andb_false_r. reflexivity.
  - rewrite andb_false_r. reflexivity.
Qed.

Lemma dense_total N b l : in_box N l -> total (dense N b l) == qsum (map (ev b) l).
Proof.
  intros H. unfold total, dense. rewrite map_map.
  rewrite (qsum_ext (fun i => qsum (map (fun j => sp_cell b l i j) (seq 0 N)))
             (fun i => qsum (map (ev b) (filter (fun e => Nat.eqb (sp_i e) i) l)))).
  2:{ intros i Hi. apply in_seq in Hi. rewrite <- (dense_rowsum N b l i H) by lia.
      unfold rowsum. rewrite dense_row by lia. reflexivity. }
  rewrite (qsum_ext (fun i => qsum (map (ev b) (filter (fun e => Nat.eqb (sp_i e) i) l)))
             (fun i => qsum (map (fun e => if Nat.eqb (sp_i e) i then ev b e else 0) l)))
    by (intros; apply qsum_filter).
  rewrite (qsum_swap (fun i e => if Nat.eqb (sp_i e) i then ev b e else 0)).
  apply qsum_ext. intros e He. unfold in_box in H. rewrite Forall_forall in H. destruct (H e He) as [Hi _].
  apply qsum_delta_in. exact Hi.
Qed.

(* the one-pass sums on the pair list are the sums of the dense model (Jackknife.v) on the matrix the
   list stands for: the value and every jackknife sample of sample_patch_sum *)
Theorem sparse_sums_are_dense N b l :
  in_box N l ->
  sp_total b l == total (dense N b l)
  /\ forall k, (k < N)%nat -> nth k (sp_samples N b l) 0 == sample (dense N b l) k.
Proof.
  intros H. split.
  - rewrite sp_total_plain, dense_total by exact H. reflexivity.
  - intros k Hk. rewrite sparse_sample_is_recount by assumption.
    unfold sample. rewrite dense_total, dense_colsum, dense_rowsum, dense_diag by assumption.
    symmetry. apply loo_identity.
Qed.

(* ------------------------------------------------ normalisation *)
Lemma nth_map2_q (f : Q -> Q -> Q) u v k :
  (k < length u)%nat -> (k < length v)%nat -> nth k (map2 f u v) 0 = f (nth k u 0) (nth k v 0).
Proof.
  revert v k. induction u as [|a u IH]; intros [|c v] k Hu Hv; simpl in *; try lia.
  destruct k as [|k]; [reflexivity|]. apply IH; lia.
Qed.

Lemma nth_map_q (f : Q -> Q) u k : (k < length u)%nat -> nth k (map f u) 0 = f (nth k u 0).
Proof.
  revert k. induction u as [|a u IH]; intros k Hu; simpl in *; [lia|].
  destruct k as [|k]; [reflexivity|]. apply IH; lia.
Qed.

Lemma qsum_without (l : list Q) k : (k < length l)%nat -> qsumr l - nth k l 0 == qsum (remove_nth k l).
Proof. intros H. rewrite qsumr_qsum, (qsum_remove l k H). ring. Qed.

(* the closed forms are the sums over the weight-product matrices of the dense model *)
Theorem big_den_is_dense auto u v :
  (auto = true -> u = v) ->
  big_den auto u v == total (weights_array auto u v)
  /\ forall k, (k < length u)%nat -> (k < length v)%nat ->
       nth k (big_den_loo auto u v) 0 == sample (weights_array auto u v) k.
Proof.
  intros Hauto. split.
  - rewrite weights_total. unfold big_den, norm_denominator. destruct auto; cbv iota.
    + rewrite <- (Hauto eq_refl). rewrite upper_half_sum_sq, !qsumr_qsum. reflexivity.
    + rewrite !qsumr_qsum. reflexivity.
  - intros k Hu Hv. rewrite weights_sample by assumption. unfold big_den_loo, norm_denominator. destruct auto; cbv iota zeta.
    + rewrite <- (Hauto eq_refl). rewrite nth_map_q by exact Hu. rewrite Qred_correct.
      rewrite upper_half_sum_sq. rewrite (qsum_without u k Hu). reflexivity.
    + rewrite nth_map2_q by assumption. rewrite Qred_correct.
      rewrite (qsum_without u k Hu), (qsum_without v k Hv). reflexivity.
Qed.

(* ------------------------------------------------ non-vacuity: a small case through both models *)
Definition exa_big : bpc :=
  {| b_auto := false; b_pairs := [(0%nat, 0%nat, [2]); (0%nat, 2%nat, [1]); (2%nat, 1%nat, [4]); (1%nat, 1%nat, [3])];
     b_w1 := [[1; 2; 1]]; b_w2 := [[2; 1; 1]] |}.
Definition exa_big_dr : bpc :=
  {| b_auto := false; b_pairs := [(0%nat, 1%nat, [1]); (2%nat, 2%nat, [1]); (1%nat, 0%nat, [2])];
     b_w1 := [[1; 2; 1]]; b_w2 := [[1; 1; 2]] |}.
