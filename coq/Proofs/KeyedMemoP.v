From Verif Require Import KeyedMemo.
From Coq Require Import List Arith Bool.
Import ListNotations.

Section KeyedMemoP.
  Context {X Y : Type} (f : X -> Y) (key : X -> nat).

  Lemma call_sound m x : sound f key m -> sound f key (fst (call f key m x)).
  Proof.
    intro Hs. unfold call. destruct (lookup (key x) m) as [y|] eqn:E; [exact Hs|].
    intros k y. cbn [fst lookup]. destruct (Nat.eqb k (key x)) eqn:Ek.
    - intro H. injection H as H. subst y. apply Nat.eqb_eq in Ek. exists x. split; [symmetry; exact Ek|reflexivity].
    - apply Hs.
  Qed.

  (* if the key determines the value, every call of every history returns f's value *)
  Theorem memo_correct_for_every_history :
    key_determines_value f key -> forall xs m, sound f key m -> snd (calls f key m xs) = map f xs.
  Proof.
    intros Hk xs. induction xs as [|x r IH]; intros m Hs; [reflexivity|].
    cbn [calls]. destruct (call f key m x) as [m1 y] eqn:C. destruct (calls f key m1 r) as [m2 ys] eqn:R. cbn [snd map].
    assert (Hy : y = f x).
    { unfold call in C. destruct (lookup (key x) m) as [y0|] eqn:E.
      - injection C as _ Hy. subst y0. destruct (Hs _ _ E) as [x0 [K F]]. rewrite <- F. apply Hk. exact K.
      - injection C as _ Hy. symmetry. exact Hy. }
    assert (Hs1 : sound f key m1) by (replace m1 with (fst (call f key m x)) by (rewrite C; reflexivity); apply call_sound; exact Hs).
    rewrite Hy. f_equal. specialize (IH m1 Hs1). rewrite R in IH. exact IH.
  Qed.

  (* and conversely: two arguments with one key and different values give a two-call history whose second answer is wrong *)
  Theorem memo_wrong_if_key_does_not_determine x x' :
    key x = key x' -> f x <> f x' -> snd (calls f key [] [x; x']) <> map f [x; x'].
  Proof.
    intros K D. unfold calls, call. cbn [lookup]. rewrite <- K. cbn [lookup]. rewrite Nat.eqb_refl. cbn [snd map].
    intro H. injection H as H. exact (D H).
  Qed.
End KeyedMemoP.

(* angles keyed by the numbers of the scales, not by the unit: 500 kpc and 500 kpc/h share a key *)
Theorem unit_blind_key_refuted :
  exists (f : nat * nat -> nat) (key : nat * nat -> nat) x x',
    key x = key x' /\ snd (calls f key [] [x; x']) <> map f [x; x'].
Proof.
  exists (fun p => fst p * S (snd p)), fst, (500, 0), (500, 1). split; [reflexivity|].
  apply memo_wrong_if_key_does_not_determine; [reflexivity|]. vm_compute. discriminate.
Qed.
