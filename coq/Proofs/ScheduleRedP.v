From Verif Require Import Prelude Schedule ScheduleP ScheduleRed.
From Coq Require Import Permutation.

Section RedP.
  Context {V R : Type}.

  (* whatever is computed from the rows in index order does not depend on the completion order - no algebraic
     property of the reduction is needed (so it holds bit for bit for floating-point sums) *)
  Theorem reduce_by_index_schedule_free (red : list (option V) -> R) n (arr arr' : list (nat * V)) :
    NoDup (map fst arr) -> Permutation arr arr' ->
    reduce_by_index red n arr = reduce_by_index red n arr'.
  Proof.
    intros Hnd Hp. unfold reduce_by_index, rows_by_index. f_equal.
    apply map_ext. intro q. apply keyed_fold_perm; assumption.
  Qed.

  (* a running total in arrival order is schedule-free when the operation is commutative-associative in the
     sense op (op a x) y = op (op a y) x ... *)
  Theorem reduce_by_arrival_comm (op : R -> V -> R) zero (arr arr' : list (nat * V)) :
    (forall a x y, op (op a x) y = op (op a y) x) -> Permutation arr arr' ->
    reduce_by_arrival op zero arr = reduce_by_arrival op zero arr'.
  Proof.
    intros Hc Hp. unfold reduce_by_arrival. revert zero.
    induction Hp as [|x l l' Hp IH|x y l|l l' l'' H1 IH1 H2 IH2]; intro zero; cbn [fold_left].
    - reflexivity.
    - apply IH.
    - rewrite Hc. reflexivity.
    - rewrite IH1. apply IH2.
  Qed.
End RedP.

(* ... and is not otherwise: with a rounding addition two completion orders of the same three results give
   different totals *)
Theorem reduce_by_arrival_rounding_refuted :
  exists (arr arr' : list (nat * Z)),
    Permutation arr arr' /\ NoDup (map fst arr) /\
    reduce_by_arrival radd 0%Z arr <> reduce_by_arrival radd 0%Z arr' /\
    reduce_by_index (fun rows => fold_left (fun acc r => match r with Some v => radd acc v | None => acc end) rows 0%Z) 3 arr
    = reduce_by_index (fun rows => fold_left (fun acc r => match r with Some v => radd acc v | None => acc end) rows 0%Z) 3 arr'.
Proof.
  exists [(0, 1%Z); (1, 2%Z); (2, 9%Z)], [(2, 9%Z); (0, 1%Z); (1, 2%Z)].
  split; [|split; [|split]].
  - apply Permutation_sym. change [(2, 9%Z); (0, 1%Z); (1, 2%Z)] with ([(2, 9%Z)] ++ [(0, 1%Z); (1, 2%Z)]).
    change [(0, 1%Z); (1, 2%Z); (2, 9%Z)] with ([(0, 1%Z); (1, 2%Z)] ++ [(2, 9%Z)]). apply Permutation_app_comm.
  - cbn. repeat constructor; cbn; intuition congruence.
  - vm_compute. discriminate.
  - vm_compute. reflexivity.
Qed.
