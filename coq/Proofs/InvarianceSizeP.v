(* C13, catalogs of any size: the radius as a maximum over ALL rows is invariant under row permutations and chunking, covers
   the patch and is the least such bound; a maximum over rows picked by their index is a lower bound only and depends on the
   row order; the linkage made from the radii over all rows counts every pair, whatever the order and the size. *)
From Verif Require Import Prelude PairCount PairCountP Invariance InvarianceP InvarianceXP InvarianceSize.
From Coq Require Import Permutation Qring Qfield Setoid Morphisms Lia.
Open Scope Q_scope.

(* ------------------------------------------------------------------ *)
(* 1. maxima of lists                                                    *)
Lemma qmax_list_incl l l' : (forall x, In x l -> exists y, In y l' /\ x <= y) -> qmax_list l <= qmax_list l'.
Proof.
  intro H. apply qmax_list_le; [apply qmax_list_nonneg|].
  intros x Hx. destruct (H x Hx) as [y [Hy Hxy]].
  eapply Qle_trans; [exact Hxy|apply qmax_list_ge; exact Hy].
Qed.

Lemma qmax_list_perm l l' : Permutation l l' -> qmax_list l == qmax_list l'.
Proof.
  intro H. apply Qle_antisym; apply qmax_list_incl; intros x Hx; exists x; (split; [|apply Qle_refl]).
  - eapply Permutation_in; eassumption.
  - eapply Permutation_in; [apply Permutation_sym; eassumption|assumption].
Qed.

Lemma qmax_lub a b r : a <= r -> b <= r -> qmax a b <= r.
Proof. intros Ha Hb. unfold qmax. destruct (Qleb a b); assumption. Qed.

Lemma qmax_list_app l1 l2 : qmax_list (l1 ++ l2) == qmax (qmax_list l1) (qmax_list l2).
Proof.
  apply Qle_antisym.
  - apply qmax_list_le.
    + eapply Qle_trans; [apply (qmax_list_nonneg l1)|apply qmax_ge_l].
    + intros x Hx. apply in_app_or in Hx as [Hx|Hx].
      * eapply Qle_trans; [apply qmax_list_ge; exact Hx|apply qmax_ge_l].
      * eapply Qle_trans; [apply qmax_list_ge; exact Hx|apply qmax_ge_r].
  - apply qmax_lub; apply qmax_list_incl; intros x Hx; exists x; (split; [|apply Qle_refl]); apply in_or_app; auto.
Qed.

Lemma qmax_list_concat ls : qmax_list (concat ls) == qmax_list (map qmax_list ls).
Proof.
  apply Qle_antisym.
  - apply qmax_list_incl. intros x Hx. apply in_concat in Hx as [l [Hl Hx]].
    exists (qmax_list l). split; [apply in_map; exact Hl|apply qmax_list_ge; exact Hx].
  - apply qmax_list_le; [apply qmax_list_nonneg|].
    intros y Hy. apply in_map_iff in Hy as [l [<- Hl]].
    apply qmax_list_incl. intros x Hx. exists x. split; [|apply Qle_refl].
    apply in_concat. exists l. split; assumption.
Qed.

(* ------------------------------------------------------------------ *)
(* 2. rows picked by their index                                         *)
Lemma pick_from_In {A : Type} sel i (l : list A) x : In x (pick_from sel i l) -> In x l.
Proof.
  revert i. induction l as [|y l IH]; intros i H; simpl in *; [exact H|].
  destruct (sel i); [destruct H as [H|H]; [left; exact H|right; eapply IH; exact H]|right; eapply IH; exact H].
Qed.

Lemma pick_from_all {A : Type} sel i (l : list A) : (forall j, sel j = true) -> pick_from sel i l = l.
Proof. intro H. revert i. induction l as [|y l IH]; intro i; simpl; [reflexivity|]. rewrite H, IH. reflexivity. Qed.

Lemma every_1 i : every 1 i = true.
Proof. unfold every. rewrite Nat.mod_1_r. reflexivity. Qed.

Lemma pick_every_two {A : Type} k (a b : A) : (2 <= k)%nat -> pick (every k) [a; b] = [a].
Proof.
  intro Hk. unfold pick, every. simpl.
  rewrite Nat.mod_0_l by lia. simpl. rewrite Nat.mod_small by lia. reflexivity.
Qed.

Lemma pick_from_first {A : Type} m i (l : list A) : pick_from (first_rows m) i l = firstn (m - i) l.
Proof.
  revert i. induction l as [|y l IH]; intro i; simpl; [rewrite firstn_nil; reflexivity|].
  unfold first_rows at 1. destruct (i <? m)%nat eqn:E.
  - apply Nat.ltb_lt in E. replace (m - i)%nat with (S (m - S i)) by lia. simpl. rewrite IH. reflexivity.
  - apply Nat.ltb_ge in E. rewrite IH. replace (m - S i)%nat with 0%nat by lia. replace (m - i)%nat with 0%nat by lia. reflexivity.
Qed.
Lemma pick_first {A : Type} m (l : list A) : pick (first_rows m) l = firstn m l.
Proof. unfold pick. rewrite pick_from_first, Nat.sub_0_r. reflexivity. Qed.

Lemma probe_step_small m n : (n < 2 * m)%nat -> probe_step m n = 1%nat.
Proof.
  intro H. unfold probe_step. destruct m as [|m]; [lia|].
  assert (n / S m < 2)%nat by (apply Nat.div_lt_upper_bound; lia). lia.
Qed.

(* ------------------------------------------------------------------ *)
(* 3. the radius over all rows                                           *)
Section SizeP.
  Context {P : Type} (ang : P -> P -> Q).
  Notation lobj := (lobj P).

  (* the order of the rows does not matter *)
  Theorem radius_all_row_perm c (A A' : list lobj) : Permutation A A' -> radius_all ang c A == radius_all ang c A'.
  Proof. intro H. unfold radius_all, dists. apply qmax_list_perm. apply Permutation_map. exact H. Qed.

  (* nor how the rows are cut into chunks: the maximum of the maxima of the chunks *)
  Theorem radius_all_chunks c (chunks : list (list lobj)) :
    radius_all ang c (concat chunks) == qmax_list (map (radius_all ang c) chunks).
  Proof.
    unfold radius_all, dists. rewrite concat_map, qmax_list_concat, map_map. reflexivity.
  Qed.
  Theorem radius_all_app c (A1 A2 : list lobj) :
    radius_all ang c (A1 ++ A2) == qmax (radius_all ang c A1) (radius_all ang c A2).
  Proof. unfold radius_all, dists. rewrite map_app. apply qmax_list_app. Qed.

  (* it bounds the separation of every row, and it is the least such bound *)
  Theorem radius_all_covers c (A : list lobj) o : In o A -> ang (lp o) c <= radius_all ang c A.
  Proof. intro H. unfold radius_all, dists. apply qmax_list_ge. apply (in_map (fun o => ang (lp o) c)). exact H. Qed.
  Theorem radius_all_least c (A : list lobj) r :
    0 <= r -> (forall o, In o A -> ang (lp o) c <= r) -> radius_all ang c A <= r.
  Proof.
    intros Hr H. unfold radius_all, dists. apply qmax_list_le; [exact Hr|].
    intros x Hx. apply in_map_iff in Hx as [o [<- Ho]]. apply H. exact Ho.
  Qed.

  (* a maximum over the rows picked by any rule on the row index is a lower bound of it ... *)
  Theorem radius_sub_le sel c (A : list lobj) : radius_sub ang sel c A <= radius_all ang c A.
  Proof.
    unfold radius_sub, radius_all, dists. apply qmax_list_incl. intros x Hx.
    apply in_map_iff in Hx as [o [<- Ho]]. exists (ang (lp o) c). split; [|apply Qle_refl].
    apply (in_map (fun o => ang (lp o) c)). eapply pick_from_In. exact Ho.
  Qed.
  (* ... which is the radius as long as the rule picks everything: a probe of about m rows on a patch of fewer than 2 m
     rows - the sizes at which the two cannot be told apart *)
  Theorem radius_probe_small m c (A : list lobj) : (length A < 2 * m)%nat -> radius_probe ang m c A = radius_all ang c A.
  Proof.
    intro H. unfold radius_probe, radius_sub. rewrite (probe_step_small m _ H). unfold pick.
    rewrite pick_from_all by apply every_1. reflexivity.
  Qed.

  (* the radii of a measurement, per patch the maximum over the catalogs of the radius over all rows of that patch, are
     the [reach] of Model/Invariance.v ... *)
  Lemma filter_concat {A : Type} (p : A -> bool) (ls : list (list A)) : filter p (concat ls) = concat (map (filter p) ls).
  Proof. induction ls as [|l ls IH]; simpl; [reflexivity|]. rewrite filter_app, IH. reflexivity. Qed.
  Theorem reach_by_all c (cats : list (list lobj)) i : reach_by (radius_all ang) c cats i == reach ang c cats i.
  Proof.
    unfold reach_by, reach, radius_all, dists, rows_of.
    rewrite filter_concat, concat_map, qmax_list_concat, !map_map. reflexivity.
  Qed.

  (* ... and do not depend on the row order of any catalog *)
  Lemma filter_perm {A : Type} (p : A -> bool) (l l' : list A) : Permutation l l' -> Permutation (filter p l) (filter p l').
  Proof.
    induction 1; simpl.
    - constructor.
    - destruct (p x); [constructor|]; assumption.
    - destruct (p x), (p y); try apply Permutation_refl. apply perm_swap.
    - etransitivity; eassumption.
  Qed.
  Lemma concat_perm {A : Type} (ls ls' : list (list A)) : Forall2 (@Permutation A) ls ls' -> Permutation (concat ls) (concat ls').
  Proof. induction 1; simpl; [constructor|]. apply Permutation_app; assumption. Qed.
  Theorem reach_row_perm c (cats cats' : list (list lobj)) i :
    Forall2 (@Permutation lobj) cats cats' -> reach ang c cats i == reach ang c cats' i.
  Proof.
    intro H. unfold reach. apply qmax_list_perm. apply Permutation_map. apply filter_perm. apply concat_perm. exact H.
  Qed.

  (* the link test is a function of the two radii up to == *)
  Lemma link_sym_ext c R R' M i j : R i == R' i -> R j == R' j -> link_sym ang c R M i j = link_sym ang c R' M i j.
  Proof.
    intros Hi Hj. unfold link_sym.
    destruct (Qleb (ang (c i) (c j)) (R i + R j + M)) eqn:E1, (Qleb (ang (c i) (c j)) (R' i + R' j + M)) eqn:E2; try reflexivity.
    - apply Qleb_le in E1. rewrite Hi, Hj in E1. apply Qleb_le in E1. congruence.
    - apply Qleb_le in E2. rewrite <- Hi, <- Hj in E2. apply Qleb_le in E2. congruence.
  Qed.
  (* the decision which patch pairs are visited does not depend on the row order of any catalog *)
  Theorem link_row_perm c (cats cats' : list (list lobj)) M i j :
    Forall2 (@Permutation lobj) cats cats' ->
    link_sym ang c (reach ang c cats) M i j = link_sym ang c (reach ang c cats') M i j.
  Proof. intro H. apply link_sym_ext; apply reach_row_perm; exact H. Qed.

  Context (ang_sym : forall a b, ang a b == ang b a)
          (ang_tri : forall a b c, ang a c <= ang a b + ang b c).

  (* counting over the patch pairs linked through the radii over ALL rows loses nothing, whatever the sizes ... *)
  Theorem linked_count_all_rows c (cats : list (list lobj)) M lo hi A B :
    In A cats -> In B cats -> hi <= M ->
    linked_count ang (link_sym ang c (reach ang c cats) M) lo hi A B == count ang lo hi A B.
  Proof.
    intros HA HB HM. apply (linked_count_covering ang ang_sym ang_tri); [apply reach_covers; exact HA|apply reach_covers; exact HB|exact HM].
  Qed.
  (* ... so the same rows in another order - each measurement with the radii of its own catalogs - count the same ... *)
  Theorem linked_count_all_rows_perm c (cats cats' : list (list lobj)) M lo hi A A' B B' :
    In A cats -> In B cats -> In A' cats' -> In B' cats' -> hi <= M -> Permutation A A' -> Permutation B B' ->
    linked_count ang (link_sym ang c (reach ang c cats') M) lo hi A' B'
    == linked_count ang (link_sym ang c (reach ang c cats) M) lo hi A B.
  Proof.
    intros HA HB HA' HB' HM PA PB.
    rewrite (linked_count_all_rows c cats' M lo hi A' B' HA' HB' HM), (linked_count_all_rows c cats M lo hi A B HA HB HM).
    symmetry. apply count_row_perm; assumption.
  Qed.
  (* ... and the parts of a split catalog, however much smaller than the whole, add up to it *)
  Theorem linked_count_all_rows_split c (cats cats1 cats2 : list (list lobj)) M lo hi A B1 B2 :
    In A cats -> In (B1 ++ B2) cats -> In A cats1 -> In B1 cats1 -> In A cats2 -> In B2 cats2 -> hi <= M ->
    linked_count ang (link_sym ang c (reach ang c cats) M) lo hi A (B1 ++ B2)
    == linked_count ang (link_sym ang c (reach ang c cats1) M) lo hi A B1
       + linked_count ang (link_sym ang c (reach ang c cats2) M) lo hi A B2.
  Proof.
    intros HA HB HA1 HB1 HA2 HB2 HM.
    rewrite (linked_count_all_rows c cats M lo hi _ _ HA HB HM), (linked_count_all_rows c cats1 M lo hi _ _ HA1 HB1 HM),
            (linked_count_all_rows c cats2 M lo hi _ _ HA2 HB2 HM).
    apply count_additive.
  Qed.
End SizeP.

(* ------------------------------------------------------------------ *)
(* 4. a maximum over rows picked by their index is not such a radius      *)
Definition lrow (x w : Q) (k : nat) : lobj Q := {| lp := x; lw := w; lpatch := k |}.

(* every k-th row, any k >= 2: two rows in one order give the radius, in the other order they give a number that does not
   cover the patch *)
Theorem radius_stride_order_refuted : forall k, (2 <= k)%nat ->
  exists (A A' : list (lobj Q)) (c : Q),
    Permutation A A' /\
    radius_sub line_ang (every k) c A == radius_all line_ang c A /\
    radius_sub line_ang (every k) c A' < radius_all line_ang c A' /\
    ~ radius_sub line_ang (every k) c A == radius_sub line_ang (every k) c A'.
Proof.
  intros k Hk. exists [lrow 1 1 0; lrow 0 1 0], [lrow 0 1 0; lrow 1 1 0], 0.
  unfold radius_sub. rewrite !(pick_every_two k _ _ Hk).
  split; [apply perm_swap|]. split; [vm_compute; reflexivity|]. split; [vm_compute; reflexivity|].
  vm_compute. discriminate.
Qed.

(* the first m rows, any m >= 1 *)
Lemma radius_all_repeat_at_centre m : radius_all line_ang 0 (repeat (lrow 0 1 0) m) <= 0.
Proof.
  apply radius_all_least; [apply Qle_refl|]. intros o Ho. apply repeat_spec in Ho. subst o. vm_compute. discriminate.
Qed.
Theorem radius_first_rows_order_refuted : forall m, (1 <= m)%nat ->
  exists (A A' : list (lobj Q)) (c : Q),
    Permutation A A' /\ ~ radius_sub line_ang (first_rows m) c A == radius_sub line_ang (first_rows m) c A'.
Proof.
  intros m Hm. exists (lrow 1 1 0 :: repeat (lrow 0 1 0) m), (repeat (lrow 0 1 0) m ++ [lrow 1 1 0]), 0.
  split; [apply Permutation_cons_append|].
  unfold radius_sub. rewrite !pick_first.
  rewrite firstn_app, repeat_length, Nat.sub_diag, firstn_O, app_nil_r.
  rewrite (@firstn_all2 _ m (repeat (lrow 0 1 0) m)) by (rewrite repeat_length; lia).
  destruct m as [|m]; [lia|]. cbn [firstn].
  intro H.
  assert (H1 : 1 <= radius_all line_ang 0 (lrow 1 1 0 :: firstn m (repeat (lrow 0 1 0) (S m)))).
  { apply (radius_all_covers line_ang 0 _ (lrow 1 1 0)). left. reflexivity. }
  rewrite H in H1. pose proof (radius_all_repeat_at_centre (S m)) as H0.
  assert (C : 1 <= 0) by (eapply Qle_trans; eassumption). vm_compute in C. apply C. reflexivity.
Qed.

(* the linkage made from probed radii.  On the line: centres 0 and 4, data D at 3 (patch 1), a sample U of four rows in
   patch 0 of which one reaches out to 17/10; M = hi = 16/10, so D x U holds one counted pair (separation 13/10, weight
   3 * 5).  A probe of about m = 2 rows looks at every second row of U: with the far row at an odd index the radius of
   patch 0 comes out as 1/10, the patches are not linked and the pair is lost; with the same rows in another order it is
   counted; and the two halves of U - two rows each, all of them looked at - count it, so that the parts do not add up to
   the whole. *)
Theorem probe_link_refuted :
  exists (m : nat) (c : nat -> Q) (M lo hi : Q) (D U U' U1 U2 : list (lobj Q)),
    Permutation U U' /\ U = U1 ++ U2 /\ hi <= M /\
    linked_count line_ang (link_sym line_ang c (reach line_ang c [D; U]) M) lo hi D U == count line_ang lo hi D U /\
    ~ linked_count line_ang (link_sym line_ang c (reach_by (radius_probe line_ang m) c [D; U]) M) lo hi D U
      == count line_ang lo hi D U /\
    ~ linked_count line_ang (link_sym line_ang c (reach_by (radius_probe line_ang m) c [D; U']) M) lo hi D U'
      == linked_count line_ang (link_sym line_ang c (reach_by (radius_probe line_ang m) c [D; U]) M) lo hi D U /\
    ~ linked_count line_ang (link_sym line_ang c (reach_by (radius_probe line_ang m) c [D; U]) M) lo hi D U
      == linked_count line_ang (link_sym line_ang c (reach_by (radius_probe line_ang m) c [D; U1]) M) lo hi D U1
         + linked_count line_ang (link_sym line_ang c (reach_by (radius_probe line_ang m) c [D; U2]) M) lo hi D U2.
Proof.
  exists 2%nat, (fun i => match i with O => 0 | _ => 4 end), (16 # 10), 0, (16 # 10),
         [lrow 3 3 1],
         [lrow 0 1 0; lrow (17 # 10) 5 0; lrow (1 # 10) 1 0; lrow (- (1 # 10)) 1 0],
         [lrow (17 # 10) 5 0; lrow 0 1 0; lrow (1 # 10) 1 0; lrow (- (1 # 10)) 1 0],
         [lrow 0 1 0; lrow (17 # 10) 5 0], [lrow (1 # 10) 1 0; lrow (- (1 # 10)) 1 0].
  split; [apply perm_swap|]. split; [reflexivity|]. split; [discriminate|].
  split; [vm_compute; reflexivity|].
  split; [vm_compute; discriminate|]. split; [vm_compute; discriminate|]. vm_compute. discriminate.
Qed.
