(* C08 — proofs about Model/FsCrash.v: for every workload, every prior state satisfying the
   stated hypotheses and EVERY prefix length k, what recovery sees in the crash state
   apply (firstn k ops) s0 is an error, the old state or the new state.  The positive theorems
   are about the repaired forms (strict id list; marker removed before the trees are rewritten;
   .smp/.cov removed before .dat is rewritten); the `_refuted` lemmas exhibit, by computation,
   the crash point at which the pinned forms fail. *)
From Verif Require Import Prelude FsCrash.
Open Scope nat_scope.
Local Arguments Nat.eqb : simpl never.

(* ------------------------------------------------------------------ paths, apply *)
Lemma path_beq_refl a : path_beq a a = true.
Proof. destruct a; simpl; auto using Nat.eqb_refl. Qed.

Lemma path_beq_eq a b : path_beq a b = true -> a = b.
Proof. destruct a, b; simpl; intro H; try discriminate; try reflexivity; apply Nat.eqb_eq in H; subst; reflexivity. Qed.

Lemma path_beq_neq a b : a <> b -> path_beq a b = false.
Proof. intro H. destruct (path_beq a b) eqn:E; [|reflexivity]. apply path_beq_eq in E. contradiction. Qed.

Lemma apply_app l1 l2 s : apply (l1 ++ l2) s = apply l2 (apply l1 s).
Proof. unfold apply. apply fold_left_app. Qed.

(* which paths an operation leaves alone / the only path it changes (a rename changes two) *)
Definition avoids (q : path) (o : fop) : Prop :=
  match o with Put p _ | Del p => p <> q | Mv a b => a <> q /\ b <> q end.
Definition only (p : path) (o : fop) : Prop :=
  match o with Put a _ | Del a => a = p | Mv _ _ => False end.

Lemma only_avoids p q o : p <> q -> only p o -> avoids q o.
Proof. intros H Ho. destruct o; simpl in *; try congruence. destruct Ho. Qed.

Lemma avoids_paths q o : ~ In q (op_paths o) -> avoids q o.
Proof. destruct o; simpl; intro H; [| |split]; intro E; apply H; subst; auto. Qed.

Lemma apply1_other s o q : avoids q o -> apply1 s o q = s q.
Proof.
  intro H. destruct o; simpl in *.
  - rewrite path_beq_neq; auto.
  - rewrite path_beq_neq; auto.
  - destruct H as [H1 H2]. rewrite !path_beq_neq; auto.
Qed.

Lemma apply_untouched l : forall s q, Forall (avoids q) l -> apply l s q = s q.
Proof.
  induction l as [|o l IH]; intros s q H; [reflexivity|]. inversion H; subst.
  change (apply (o :: l) s) with (apply l (apply1 s o)). rewrite IH by assumption. apply apply1_other; assumption.
Qed.

(* operations that change one path only (what a rename leaves at its target depends on another path) *)
Definition plain (o : fop) : Prop := match o with Mv _ _ => False | _ => True end.
Lemma only_plain p o : only p o -> plain o.
Proof. destruct o; simpl; auto. Qed.

Lemma apply_cong l : Forall plain l -> forall s s' q, s q = s' q -> apply l s q = apply l s' q.
Proof.
  induction l as [|o l IH]; intros Hp s s' q H; [exact H|]. inversion Hp; subst.
  change (apply l (apply1 s o) q = apply l (apply1 s' o) q). apply IH; [assumption|].
  destruct o; simpl in *; [destruct (path_beq q p); auto|destruct (path_beq q p); auto|contradiction].
Qed.


Lemma apply_ext l : forall s s', (forall q, s q = s' q) -> forall q, apply l s q = apply l s' q.
Proof.
  induction l as [|o l IH]; intros s s' H q; [apply H|].
  change (apply l (apply1 s o) q = apply l (apply1 s' o) q). apply IH.
  intro r. destruct o; simpl; rewrite ?H; reflexivity.
Qed.

Lemma apply_last_put l p c s : apply (l ++ [Put p c]) s p = Some c.
Proof. rewrite apply_app. simpl. rewrite path_beq_refl. reflexivity. Qed.

Lemma Forall_firstn {A} (P : A -> Prop) k : forall l, Forall P l -> Forall P (firstn k l).
Proof. induction k; intros [|x l] H; simpl; auto. inversion H; subst. constructor; auto. Qed.

Lemma firstn_app_cases {A} k (l1 l2 : list A) :
  (k <= length l1 /\ firstn k (l1 ++ l2) = firstn k l1) \/
  (exists j, k = length l1 + j /\ firstn k (l1 ++ l2) = l1 ++ firstn j l2).
Proof.
  rewrite firstn_app. destruct (le_lt_dec k (length l1)) as [H|H].
  - left. split; [assumption|]. replace (k - length l1) with 0 by lia. simpl. apply app_nil_r.
  - right. exists (k - length l1). split; [lia|]. rewrite firstn_all2 by lia. reflexivity.
Qed.

Lemma firstn_repeat {A} (x : A) n : forall k, firstn k (repeat x n) = repeat x (min k n).
Proof. induction n; intros [|k]; simpl; auto. rewrite IHn. reflexivity. Qed.

(* ------------------------------------------------------------------ tree caches *)
Definition consistent (s : fs) (i : nat) : Prop :=
  match decode (s (PBin i)) with None => True | Some b' => s (PTrees i) = Some (TreesF (Some b')) end.
Definition safe (s : fs) (i : nat) : Prop := forall b, use_trees s i b = UErr \/ use_trees s i b = Used b.
(* the marker is absent, or names the trees that are there, or says "unbinned" *)
Definition good (s : fs) (i : nat) : Prop :=
  match decode (s (PBin i)) with
  | None => True
  | Some m => exists bt, s (PTrees i) = Some (TreesF (Some bt)) /\ (m = bt \/ m = 0)
  end.

Lemma consistent_b_spec s i : consistent_b s i = true -> consistent s i.
Proof.
  unfold consistent_b, consistent. destruct (decode (s (PBin i))) as [b'|]; auto.
  destruct (s (PTrees i)) as [[]|]; try discriminate. destruct t as [bt|]; try discriminate.
  intro H. apply Nat.eqb_eq in H. subst. reflexivity.
Qed.

Lemma consistent_good s i : consistent s i -> good s i.
Proof. unfold consistent, good. destruct (decode (s (PBin i))); auto. intro H. eexists; split; [exact H|auto]. Qed.

Lemma good_safe s i : good s i -> safe s i.
Proof.
  unfold good, safe, use_trees. destruct (decode (s (PBin i))) as [m|]; auto.
  intros [bt [Ht Hm]] b. destruct (m =? b) eqn:E; auto. rewrite Ht. apply Nat.eqb_eq in E.
  destruct (bt =? b) eqn:E2; auto. apply Nat.eqb_neq in E2.
  destruct Hm as [Hm|Hm]; [congruence|]. subst. rewrite Nat.eqb_refl, orb_true_r. auto.
Qed.

Lemma use_trees_ext s s' i b :
  s (PBin i) = s' (PBin i) -> s (PTrees i) = s' (PTrees i) -> use_trees s i b = use_trees s' i b.
Proof. unfold use_trees. intros -> ->. reflexivity. Qed.

Lemma trees_ops_touch i b e : Forall (only (PTrees i)) (trees_ops i b e).
Proof.
  unfold trees_ops. apply Forall_app. split; [|repeat constructor].
  apply Forall_forall. intros o H. apply repeat_spec in H. subst. reflexivity.
Qed.

Lemma marker_ops_touch i b : Forall (only (PBin i)) (marker_ops i b).
Proof. unfold marker_ops. destruct (b =? 0); repeat constructor. Qed.

Lemma touch_other (l : list fop) (p q : path) : p <> q -> Forall (only p) l -> Forall (avoids q) l.
Proof. intros Hpq H. eapply Forall_impl; [|exact H]. intros o Ho. apply (only_avoids p q o Hpq Ho). Qed.

Lemma trees_ops_result i b e s : apply (trees_ops i b e) s (PTrees i) = Some (TreesF (Some b)).
Proof. unfold trees_ops. apply apply_last_put. Qed.

(* from a state without marker, every prefix of the pinned build sequence is good *)
Lemma cur_from_nomarker s i b e j : s (PBin i) = None -> good (apply (firstn j (build_cur i b e)) s) i.
Proof.
  intro Hs. unfold build_cur.
  destruct (firstn_app_cases j (trees_ops i b e) (marker_ops i b)) as [[_ ->]|[j' [_ ->]]].
  - unfold good. rewrite apply_untouched, Hs; [exact I|].
    apply Forall_firstn. apply (touch_other _ (PTrees i)); [discriminate|apply trees_ops_touch].
  - rewrite apply_app. set (s2 := apply (trees_ops i b e) s).
    assert (Hb : s2 (PBin i) = None).
    { unfold s2. rewrite apply_untouched; [exact Hs|]. apply (touch_other _ (PTrees i)); [discriminate|apply trees_ops_touch]. }
    assert (Ht : forall l, Forall (only (PBin i)) l -> apply l s2 (PTrees i) = Some (TreesF (Some b))).
    { intros l Hl. rewrite apply_untouched; [apply trees_ops_result|]. apply (touch_other _ (PBin i)); [discriminate|exact Hl]. }
    unfold good. rewrite (Ht (firstn j' (marker_ops i b))) by (apply Forall_firstn, marker_ops_touch).
    unfold marker_ops. destruct (b =? 0) eqn:Eb; [apply Nat.eqb_eq in Eb; subst b|];
      destruct j' as [|[|[|j']]]; simpl; rewrite ?firstn_nil; simpl; rewrite ?Nat.eqb_refl, ?path_beq_refl, ?Hb; simpl; eauto.
Qed.

Lemma fix_patch_good s0 i b e k :
  consistent s0 i -> good (apply (firstn k (build_fix (present (s0 (PBin i))) i b e)) s0) i.
Proof.
  intro H0. unfold build_fix. destruct (s0 (PBin i)) as [c|] eqn:Hc; simpl present; cbv iota.
  - destruct k as [|k]; [simpl; apply consistent_good; exact H0|].
    change (firstn (S k) ([Del (PBin i)] ++ build_cur i b e)) with (Del (PBin i) :: firstn k (build_cur i b e)).
    change (apply (Del (PBin i) :: firstn k (build_cur i b e)) s0) with (apply (firstn k (build_cur i b e)) (apply1 s0 (Del (PBin i)))).
    apply cur_from_nomarker. simpl. rewrite Nat.eqb_refl. reflexivity.
  - simpl app. apply cur_from_nomarker. exact Hc.
Qed.

Lemma build_patch_touch fixed s b force ie :
  Forall (fun o => only (PBin (fst ie)) o \/ only (PTrees (fst ie)) o) (ops_build_patch fixed s b force ie).
Proof.
  unfold ops_build_patch. destruct (needs_build s (fst ie) b force); [|constructor].
  assert (Hc : Forall (fun o => only (PBin (fst ie)) o \/ only (PTrees (fst ie)) o) (build_cur (fst ie) b (snd ie))).
  { unfold build_cur. apply Forall_app. split.
    - eapply Forall_impl; [|apply trees_ops_touch]. simpl. auto.
    - eapply Forall_impl; [|apply marker_ops_touch]. simpl. auto. }
  destruct fixed; [|exact Hc]. unfold build_fix. apply Forall_app. split; [|exact Hc].
  destruct (present (s (PBin (fst ie)))); repeat constructor.
Qed.

Lemma build_patch_plain fixed s b force ie : Forall plain (ops_build_patch fixed s b force ie).
Proof. eapply Forall_impl; [|apply build_patch_touch]. intros o [H|H]; exact (only_plain _ _ H). Qed.

Lemma build_patch_other fixed s b force ie i l :
  fst ie <> i -> (forall o, In o l -> In o (ops_build_patch fixed s b force ie)) ->
  forall s', apply l s' (PBin i) = s' (PBin i) /\ apply l s' (PTrees i) = s' (PTrees i).
Proof.
  intros Hne Hin s'. pose proof (build_patch_touch fixed s b force ie) as Ht. rewrite Forall_forall in Ht.
  split; apply apply_untouched; apply Forall_forall; intros o Ho; destruct (Ht o (Hin o Ho)) as [E|E]; (eapply only_avoids; [|exact E]); congruence.
Qed.

Lemma firstn_In {A} k (l : list A) x : In x (firstn k l) -> In x l.
Proof. revert l. induction k; intros [|y l]; simpl; try tauto. intros [H|H]; auto. Qed.

(* the crash state of a catalog-wide build, seen from patch i, is a crash state of patch i's own
   operation list (or the untouched prior state) *)
Lemma build_lift fixed s0 b force i : forall ies, NoDup (map fst ies) -> forall k s,
  exists l', (l' = [] \/ exists e k', In (i, e) ies /\ l' = firstn k' (ops_build_patch fixed s0 b force (i, e))) /\
    apply (firstn k (flat_map (ops_build_patch fixed s0 b force) ies)) s (PBin i) = apply l' s (PBin i) /\
    apply (firstn k (flat_map (ops_build_patch fixed s0 b force) ies)) s (PTrees i) = apply l' s (PTrees i).
Proof.
  induction ies as [|[j e] ies IH]; intros Hnd k s.
  - exists []. destruct k; simpl; auto.
  - simpl map in Hnd. inversion Hnd as [|? ? Hnotin Hnd']; subst. simpl flat_map.
    destruct (firstn_app_cases k (ops_build_patch fixed s0 b force (j, e)) (flat_map (ops_build_patch fixed s0 b force) ies))
      as [[_ ->]|[k2 [_ ->]]].
    + destruct (Nat.eq_dec j i) as [->|Hne].
      * exists (firstn k (ops_build_patch fixed s0 b force (i, e))). split; [right; exists e, k; split; [left; reflexivity|reflexivity]|auto].
      * exists []. split; [auto|]. simpl apply at 2 4.
        apply (build_patch_other fixed s0 b force (j, e) i); [exact Hne|]. intros o Ho. eapply firstn_In; exact Ho.
    + rewrite apply_app. set (s1 := apply (ops_build_patch fixed s0 b force (j, e)) s).
      destruct (Nat.eq_dec j i) as [->|Hne].
      * (* the rest touches other patches only *)
        exists (ops_build_patch fixed s0 b force (i, e)). split.
        { right. exists e, (length (ops_build_patch fixed s0 b force (i, e))). split; [left; reflexivity|]. rewrite firstn_all. reflexivity. }
        fold s1.
        assert (Hrest : forall l s', (forall o, In o l -> In o (flat_map (ops_build_patch fixed s0 b force) ies)) ->
                  apply l s' (PBin i) = s' (PBin i) /\ apply l s' (PTrees i) = s' (PTrees i)).
        { intros l s' Hl. split; apply apply_untouched; apply Forall_forall; intros o Ho;
            apply Hl, in_flat_map in Ho; destruct Ho as [[j' e'] [Hin Ho]];
            pose proof (build_patch_touch fixed s0 b force (j', e')) as Ht; rewrite Forall_forall in Ht;
            assert (j' <> i) by (intro; subst; apply Hnotin; apply in_map_iff; exists (i, e'); auto);
            destruct (Ht o Ho) as [E|E]; (eapply only_avoids; [|exact E]); simpl; congruence. }
        apply Hrest. intros o Ho. eapply firstn_In; exact Ho.
      * destruct (IH Hnd' k2 s1) as [l' [Hl' [Hb Ht]]]. exists l'. split.
        { destruct Hl' as [->|[e' [k' [Hin ->]]]]; [auto|]. right. exists e', k'. split; [right; exact Hin|reflexivity]. }
        rewrite Hb, Ht.
        destruct (build_patch_other fixed s0 b force (j, e) i (ops_build_patch fixed s0 b force (j, e)) Hne (fun o H => H) s) as [E1 E2].
        fold s1 in E1, E2.
        assert (Hpl : Forall plain l').
        { destruct Hl' as [->|[e' [k' [_ ->]]]]; [constructor|apply Forall_firstn, build_patch_plain]. }
        split; apply apply_cong; assumption.
Qed.

(* F12 repaired: with the marker removed before the trees are rewritten, after a crash at ANY point of
   a catalog-wide (re)build, for ANY later request b', every patch either fails loudly or uses trees
   built for b' *)
Theorem crash_safe_fix s0 ies b force k i :
  NoDup (map fst ies) -> consistent_b s0 i = true ->
  forall b', let s := apply (firstn k (ops_build true s0 ies b force)) s0 in
             use_trees s i b' = UErr \/ use_trees s i b' = Used b'.
Proof.
  intros Hnd Hc b' s. apply consistent_b_spec in Hc.
  destruct (build_lift true s0 b force i ies Hnd k s0) as [l' [Hl' [Hb Ht]]].
  unfold s, ops_build. rewrite (use_trees_ext _ (apply l' s0) i b' Hb Ht).
  apply good_safe. destruct Hl' as [->|[e [k' [_ ->]]]]; [apply consistent_good; exact Hc|].
  unfold ops_build_patch. simpl fst. simpl snd. destruct (needs_build s0 i b force).
  - apply fix_patch_good. exact Hc.
  - destruct k'; simpl; apply consistent_good; exact Hc.
Qed.

Theorem crash_safe_fix_measure s0 ies b force k ids b' :
  NoDup (map fst ies) -> forallb (consistent_b s0) ids = true ->
  let s := apply (firstn k (ops_build true s0 ies b force)) s0 in
  measure s ids b' = Err \/ measure s ids b' = Ok (map (fun _ => b') ids).
Proof.
  intros Hnd Hc s. unfold measure. induction ids as [|i ids IH]; [right; reflexivity|].
  simpl in Hc. apply andb_true_iff in Hc. destruct Hc as [Hi Hr]. specialize (IH Hr).
  simpl map. simpl existsb.
  destruct (crash_safe_fix s0 ies b force k i Hnd Hi b') as [E|E]; fold s in E; rewrite E; simpl; [left; reflexivity|].
  destruct (existsb _ _); [left; reflexivity|]. right. destruct IH as [IH|IH]; [discriminate|]. injection IH as IH. rewrite IH. reflexivity.
Qed.

(* the pinned order: rebuilding for binning 2 over a cache built for binning 1; the crash after the
   pickle of patch 0 is complete and before its marker is rewritten leaves marker 1 over trees 2,
   and a later unforced build for binning 1 uses them *)
Definition s_old_trees : list (path * content) :=
  [(PRoot, Dir); (PIds, IdsF [0; 1]);
   (PBin 0, BinF (BWhole 1)); (PTrees 0, TreesF (Some 1)); (PBin 1, BinF (BWhole 1)); (PTrees 1, TreesF (Some 1))].
Theorem stale_marker_refuted :
  forallb (consistent_b (fs_of s_old_trees)) [0; 1] = true /\
  let s := apply (firstn 2 (ops_build false (fs_of s_old_trees) [(0, 0); (1, 0)] 2 false)) (fs_of s_old_trees) in
  use_trees s 0 1 = Used 2 /\ measure s [0; 1] 1 = Ok [2; 1].
Proof. vm_compute. repeat split. Qed.

(* ------------------------------------------------------------------ opening a catalog *)
Definition meta_fine (c : option content) : bool :=
  match c with None | Some (MetaF true) => true | _ => false end.

Fixpoint collect_data (s : fs) (ids : list nat) : option observable :=
  match ids with
  | [] => Some []
  | i :: r => match patch_data (s (PData i)), collect_data s r with
              | Some x, Some y => Some ((i, x) :: y)
              | _, _ => None
              end
  end.

Lemma recover_patch_cases s i : recover_patch s i = None \/ recover_patch s i = patch_data (s (PData i)).
Proof. unfold recover_patch. destruct (s (PMeta i)) as [[| | [|] | | | | | |]|]; auto. Qed.

Lemma recover_patch_fine s i : meta_fine (s (PMeta i)) = true -> recover_patch s i = patch_data (s (PData i)).
Proof. unfold recover_patch, meta_fine. destruct (s (PMeta i)) as [[| | [|] | | | | | |]|]; auto; discriminate. Qed.

Lemma collect_cases s ids : collect s ids = None \/ collect s ids = collect_data s ids.
Proof.
  induction ids as [|i ids IH]; simpl; [auto|].
  destruct (recover_patch_cases s i) as [E|E]; rewrite E; [auto|].
  destruct IH as [H|H]; rewrite H; [|auto]. destruct (patch_data (s (PData i))); auto.
Qed.

Lemma collect_all_fine s ids :
  (forall i, In i ids -> meta_fine (s (PMeta i)) = true) -> collect s ids = collect_data s ids.
Proof.
  induction ids as [|i ids IH]; intro H; simpl; [reflexivity|].
  rewrite recover_patch_fine by (apply H; left; reflexivity). rewrite IH by (intros; apply H; right; assumption). reflexivity.
Qed.

Lemma collect_data_ext s s' ids : (forall i, s (PData i) = s' (PData i)) -> collect_data s ids = collect_data s' ids.
Proof. intro H. induction ids as [|i ids IH]; simpl; [reflexivity|]. rewrite H, IH. reflexivity. Qed.

Lemma recover_no_ids strict s : s PIds = None -> recover_cat strict s = Err.
Proof. intro H. unfold recover_cat. rewrite H. destruct (s PRoot); reflexivity. Qed.

(* two states that differ only in meta.yml files, the second with all of them absent or complete *)
Lemma recover_meta_only strict s s' :
  s PRoot = s' PRoot -> s PIds = s' PIds -> (forall i, s (PData i) = s' (PData i)) ->
  (forall i, In i (ids_of s') -> meta_fine (s' (PMeta i)) = true) ->
  recover_cat strict s = Err \/ recover_cat strict s = recover_cat strict s'.
Proof.
  intros Hr Hi Hd Hm. unfold recover_cat. rewrite Hr, Hi. unfold ids_of in Hm.
  destruct (s' PRoot); auto. destruct (s' PIds) as [[| | | | |ids| | |]|]; auto.
  destruct (strict && is_nil ids); auto.
  rewrite (collect_all_fine s' ids Hm). destruct (collect_cases s ids) as [E|E]; rewrite E; auto.
  rewrite (collect_data_ext s s' ids Hd). auto.
Qed.

Definition is_meta_put (o : fop) : Prop := exists i b, o = Put (PMeta i) (MetaF b).

Lemma ops_metadata_shape s ids : Forall is_meta_put (ops_metadata s ids).
Proof.
  unfold ops_metadata. apply Forall_forall. intros o H. apply in_flat_map in H. destruct H as [i [_ H]].
  destruct (present (s (PMeta i))); simpl in H; [tauto|]. destruct H as [<-|[<-|[]]]; eexists; eexists; reflexivity.
Qed.

Lemma meta_puts_untouched l s q : Forall is_meta_put l -> (forall i, q <> PMeta i) -> apply l s q = s q.
Proof.
  intros H Hq. apply apply_untouched. eapply Forall_impl; [|exact H]. intros o [i [b ->]]. simpl. intro E. apply (Hq i). symmetry. exact E.
Qed.

Lemma meta_final s ids : forall s' i,
  meta_fine (s' (PMeta i)) = true \/ (In i ids /\ present (s (PMeta i)) = false) ->
  meta_fine (apply (ops_metadata s ids) s' (PMeta i)) = true.
Proof.
  induction ids as [|a r IH]; intros s' i H.
  - simpl. destruct H as [H|[[] _]]. exact H.
  - unfold ops_metadata. simpl flat_map. rewrite apply_app. apply IH.
    destruct (Nat.eq_dec a i) as [->|Hne].
    + destruct (present (s (PMeta i))) eqn:Ep.
      * simpl. destruct H as [H|[_ H]]; [auto|discriminate].
      * left. simpl. rewrite Nat.eqb_refl. reflexivity.
    + assert (Hu : apply (if present (s (PMeta a)) then [] else [Put (PMeta a) (MetaF false); Put (PMeta a) (MetaF true)]) s' (PMeta i) = s' (PMeta i)).
      { apply apply_untouched. destruct (present (s (PMeta a))); repeat constructor; simpl; congruence. }
      rewrite Hu. destruct H as [H|[[H|H] Hp]]; [auto|contradiction|auto].
Qed.

Lemma ops_meta_all_eq ids : ops_meta_all ids = ops_metadata empty_fs ids.
Proof. reflexivity. Qed.

Definition wf_cat (s : fs) : Prop := wf_cat_b s = true.

Lemma wf_cat_inv s : wf_cat s ->
  exists r ids, s PRoot = Some r /\ s PIds = Some (IdsF ids) /\
    forall i, In i ids -> (exists x, patch_data (s (PData i)) = Some x) /\ meta_fine (s (PMeta i)) = true.
Proof.
  unfold wf_cat, wf_cat_b. intro H. apply andb_true_iff in H. destruct H as [Hr H].
  destruct (s PRoot) as [r|]; [|discriminate]. destruct (s PIds) as [[| | | | |ids| | |]|]; try discriminate.
  apply andb_true_iff in H. destruct H as [_ H]. rewrite forallb_forall in H.
  exists r, ids. repeat split; try reflexivity; specialize (H i H0); apply andb_true_iff in H; destruct H as [H1 H2].
  - destruct (patch_data (s (PData i))) as [x|]; [eauto|discriminate].
  - unfold meta_fine. destruct (s (PMeta i)) as [[| | [|] | | | | | |]|]; auto; discriminate.
Qed.

(* metadata computation on an existing catalog: error or the catalog itself, at every point *)
Theorem crash_safe_metadata strict s0 k :
  wf_cat s0 ->
  let ops := ops_metadata s0 (ids_of s0) in
  In (recover_cat strict (apply (firstn k ops) s0)) [Err; recover_cat strict s0; recover_cat strict (apply ops s0)].
Proof.
  intros Hwf ops. destruct (wf_cat_inv s0 Hwf) as [r [ids [Hr [Hi Hall]]]].
  assert (Hsh : Forall is_meta_put (firstn k ops)) by (apply Forall_firstn, ops_metadata_shape).
  destruct (recover_meta_only strict (apply (firstn k ops) s0) s0) as [E|E].
  - apply meta_puts_untouched; [exact Hsh|discriminate].
  - apply meta_puts_untouched; [exact Hsh|discriminate].
  - intro i. apply meta_puts_untouched; [exact Hsh|discriminate].
  - unfold ids_of. rewrite Hi. intros i Hin. apply Hall. exact Hin.
  - rewrite E. simpl. auto.
  - rewrite E. simpl. auto.
Qed.

Theorem metadata_complete strict s0 :
  wf_cat s0 -> recover_cat strict (apply (ops_metadata s0 (ids_of s0)) s0) = recover_cat strict s0.
Proof.
  intro Hwf. destruct (wf_cat_inv s0 Hwf) as [r [ids [Hr [Hi Hall]]]].
  pose proof (ops_metadata_shape s0 (ids_of s0)) as Hsh.
  set (sf := apply (ops_metadata s0 (ids_of s0)) s0).
  assert (E1 : sf PRoot = s0 PRoot) by (apply meta_puts_untouched; [exact Hsh|discriminate]).
  assert (E2 : sf PIds = s0 PIds) by (apply meta_puts_untouched; [exact Hsh|discriminate]).
  assert (E3 : forall i, sf (PData i) = s0 (PData i)) by (intro i; apply meta_puts_untouched; [exact Hsh|discriminate]).
  unfold recover_cat. rewrite E1, E2, Hr, Hi. destruct (strict && is_nil ids); [reflexivity|].
  rewrite (collect_all_fine sf ids), (collect_all_fine s0 ids), (collect_data_ext sf s0 ids E3); [reflexivity| |].
  - intros i Hin. apply Hall. exact Hin.
  - intros i Hin. apply meta_final. left. apply Hall. exact Hin.
Qed.

(* ---- creation *)
Lemma ops_pieces_touch : forall ps acc, Forall (avoids PIds) (fst (ops_pieces acc ps)).
Proof.
  induction ps as [|[p rs] ps IH]; intro acc; simpl; [constructor|].
  destruct (acc_get acc p) as [old|].
  - specialize (IH (acc_set acc p (old ++ rs))). destruct (ops_pieces (acc_set acc p (old ++ rs)) ps). simpl in *.
    constructor; [discriminate|exact IH].
  - specialize (IH (acc_set acc p rs)). destruct (ops_pieces (acc_set acc p rs) ps). simpl in *.
    repeat (constructor; [discriminate|]). exact IH.
Qed.

Lemma create_body_touch ps : Forall (avoids PIds) (ops_create_body ps).
Proof. unfold ops_create_body. constructor; [discriminate|apply ops_pieces_touch]. Qed.

(* whatever the body of the creation is, as long as it does not touch patch_ids.bin and the id list - written aside
   and moved into place by ONE rename - comes after it: every crash state is an error or the complete new catalog *)
Lemma crash_safe_marker_last (body : list fop) ps s0 k :
  Forall (avoids PIds) body -> s0 PIds = None ->
  let ops := body ++ ops_create_ids ps ++ ops_meta_all (created_ids ps) in
  In (recover_cat true (apply (firstn k ops) s0)) [Err; recover_cat true (apply ops s0)].
Proof.
  intros Hb H0 ops. unfold ops.
  destruct (firstn_app_cases k body (ops_create_ids ps ++ ops_meta_all (created_ids ps))) as [[_ ->]|[j [_ ->]]].
  - left. symmetry. apply recover_no_ids. rewrite apply_untouched; [exact H0|]. apply Forall_firstn, Hb.
  - rewrite !apply_app. set (s1 := apply body s0).
    assert (H1 : s1 PIds = None) by (unfold s1; rewrite apply_untouched; [exact H0|exact Hb]).
    destruct j as [|[|[|j]]].
    + left. symmetry. simpl. apply recover_no_ids. exact H1.
    + (* patch_ids.tmp created *) left. symmetry. apply recover_no_ids. simpl. exact H1.
    + (* patch_ids.tmp written, not yet moved *) left. symmetry. apply recover_no_ids. simpl. exact H1.
    + change (firstn (S (S (S j))) (ops_create_ids ps ++ ops_meta_all (created_ids ps)))
        with (ops_create_ids ps ++ firstn j (ops_meta_all (created_ids ps))).
      rewrite !apply_app. set (s2 := apply (ops_create_ids ps) s1).
      rewrite ops_meta_all_eq.
      pose proof (ops_metadata_shape empty_fs (created_ids ps)) as Hsh.
      assert (Hsh' : Forall is_meta_put (firstn j (ops_metadata empty_fs (created_ids ps)))) by (apply Forall_firstn; exact Hsh).
      assert (Hids : s2 PIds = Some (IdsF (created_ids ps))) by reflexivity.
      destruct (recover_meta_only true (apply (firstn j (ops_metadata empty_fs (created_ids ps))) s2)
                                       (apply (ops_metadata empty_fs (created_ids ps)) s2)) as [E|E].
      * rewrite !meta_puts_untouched; auto; discriminate.
      * rewrite !meta_puts_untouched; auto; discriminate.
      * intro i. rewrite !meta_puts_untouched; auto; discriminate.
      * unfold ids_of. rewrite meta_puts_untouched; [|exact Hsh|discriminate]. rewrite Hids.
        intros i Hin. apply meta_final. right. split; [exact Hin|reflexivity].
      * rewrite E. simpl. auto.
      * rewrite E. simpl. auto.
Qed.

(* the PINNED way of writing the marker (created and written in place) under the repaired id-list check: safe as long as
   the id list reaches the file in ONE write system call (at most 2048 ids); in two pieces: marker_in_pieces_refuted *)
Theorem crash_safe_marker_last_pinned (body : list fop) ps s0 k :
  Forall (avoids PIds) body -> s0 PIds = None ->
  let ops := body ++ ops_create_ids_pinned ps ++ ops_meta_all (created_ids ps) in
  In (recover_cat true (apply (firstn k ops) s0)) [Err; recover_cat true (apply ops s0)].
Proof.
  intros Hb H0 ops. unfold ops.
  destruct (firstn_app_cases k body (ops_create_ids_pinned ps ++ ops_meta_all (created_ids ps))) as [[_ ->]|[j [_ ->]]].
  - left. symmetry. apply recover_no_ids. rewrite apply_untouched; [exact H0|]. apply Forall_firstn, Hb.
  - rewrite !apply_app. set (s1 := apply body s0).
    destruct j as [|[|j]].
    + left. symmetry. simpl. apply recover_no_ids. unfold s1. rewrite apply_untouched; [exact H0|exact Hb].
    + left. simpl. unfold recover_cat. simpl. destruct (s1 PRoot); reflexivity.
    + change (firstn (S (S j)) (ops_create_ids_pinned ps ++ ops_meta_all (created_ids ps)))
        with (ops_create_ids_pinned ps ++ firstn j (ops_meta_all (created_ids ps))).
      rewrite !apply_app. set (s2 := apply (ops_create_ids_pinned ps) s1).
      rewrite ops_meta_all_eq.
      pose proof (ops_metadata_shape empty_fs (created_ids ps)) as Hsh.
      assert (Hsh' : Forall is_meta_put (firstn j (ops_metadata empty_fs (created_ids ps)))) by (apply Forall_firstn; exact Hsh).
      assert (Hids : s2 PIds = Some (IdsF (created_ids ps))) by reflexivity.
      destruct (recover_meta_only true (apply (firstn j (ops_metadata empty_fs (created_ids ps))) s2)
                                       (apply (ops_metadata empty_fs (created_ids ps)) s2)) as [E|E].
      * rewrite !meta_puts_untouched; auto; discriminate.
      * rewrite !meta_puts_untouched; auto; discriminate.
      * intro i. rewrite !meta_puts_untouched; auto; discriminate.
      * unfold ids_of. rewrite meta_puts_untouched; [|exact Hsh|discriminate]. rewrite Hids.
        intros i Hin. apply meta_final. right. split; [exact Hin|reflexivity].
      * rewrite E. simpl. auto.
      * rewrite E. simpl. auto.
Qed.


(* F21 and F35 repaired: with an empty id list treated as an error and the id list moved into place by one rename, a
   crash at any point of the creation of a catalog (in a directory without patch_ids.bin) leaves an error or the
   complete new catalog *)
Theorem crash_safe_create ps s0 k :
  s0 PIds = None ->
  let ops := ops_create ps in
  In (recover_cat true (apply (firstn k ops) s0)) [Err; recover_cat true (apply ops s0)].
Proof. intros H0 ops. unfold ops, ops_create. apply crash_safe_marker_last; [apply create_body_touch|exact H0]. Qed.

(* ---- overwrite: deletions in ANY order, then creation *)
Definition sub (s' s : fs) : Prop := forall q, s' q = None \/ s' q = s q.

Lemma del_sub l : forall s, sub (apply (map Del l) s) s.
Proof.
  induction l as [|p l IH]; intros s q; [right; reflexivity|].
  simpl map. change (apply (Del p :: map Del l) s) with (apply (map Del l) (apply1 s (Del p))).
  destruct (IH (apply1 s (Del p)) q) as [E|E]; [left; exact E|]. rewrite E. simpl. destruct (path_beq q p); auto.
Qed.

Lemma del_gone l q : In q l -> forall s, apply (map Del l) s q = None.
Proof.
  induction l as [|p l IH]; intros Hin s; [destruct Hin|].
  simpl map. change (apply (Del p :: map Del l) s) with (apply (map Del l) (apply1 s (Del p))).
  destruct Hin as [->|Hin]; [|apply IH; exact Hin].
  destruct (del_sub l (apply1 s (Del q)) q) as [E|E]; [exact E|]. rewrite E. simpl. rewrite path_beq_refl. reflexivity.
Qed.

Lemma collect_sub s' s ids :
  sub s' s ->
  (forall i, In i ids -> (exists x, patch_data (s (PData i)) = Some x) /\ meta_fine (s (PMeta i)) = true) ->
  collect s' ids = None \/ collect s' ids = collect s ids.
Proof.
  intros Hsub. induction ids as [|i ids IH]; intro Hall; simpl; [auto|].
  destruct (Hall i (or_introl eq_refl)) as [[x Hx] Hm].
  rewrite (recover_patch_fine s i Hm), Hx.
  assert (Hm' : meta_fine (s' (PMeta i)) = true) by (destruct (Hsub (PMeta i)) as [E|E]; rewrite E; [reflexivity|exact Hm]).
  rewrite (recover_patch_fine s' i Hm').
  destruct (Hsub (PData i)) as [E|E]; rewrite E; [left; reflexivity|]. rewrite Hx.
  destruct IH as [E2|E2]; [intros; apply Hall; right; assumption| |]; rewrite E2; auto.
Qed.

Lemma recover_sub strict s' s : wf_cat s -> sub s' s -> recover_cat strict s' = Err \/ recover_cat strict s' = recover_cat strict s.
Proof.
  intros Hwf Hsub. destruct (wf_cat_inv s Hwf) as [r [ids [Hr [Hi Hall]]]]. unfold recover_cat.
  destruct (Hsub PRoot) as [E|E]; rewrite E; [auto|]. rewrite Hr.
  destruct (Hsub PIds) as [E2|E2]; rewrite E2; [auto|]. rewrite Hi.
  destruct (strict && is_nil ids); [auto|].
  destruct (collect_sub s' s ids Hsub Hall) as [E3|E3]; rewrite E3; auto.
Qed.

Lemma mem_path_In p l : mem_path p l = true -> In p l.
Proof.
  induction l as [|q l IH]; simpl; [discriminate|]. intro H. apply orb_true_iff in H.
  destruct H as [H|H]; [left; symmetry; apply path_beq_eq; exact H|right; auto].
Qed.

Lemma fs_of_in l q c : fs_of l q = Some c -> In (q, c) l.
Proof.
  induction l as [|[p d] l IH]; simpl; [discriminate|]. destruct (path_beq q p) eqn:E.
  - intro H. injection H as ->. apply path_beq_eq in E. subst. left. reflexivity.
  - intro H. right. auto.
Qed.

(* for EVERY order in which rmtree may remove the old entries *)
Theorem crash_safe_overwrite l order ps k :
  wf_cat (fs_of l) -> valid_order_b l order = true ->
  let s0 := fs_of l in
  let ops := ops_overwrite order ps in
  In (recover_cat true (apply (firstn k ops) s0)) [Err; recover_cat true s0; recover_cat true (apply ops s0)].
Proof.
  intros Hwf Hval s0 ops. unfold ops, ops_overwrite.
  destruct (firstn_app_cases k (map Del order) (ops_create ps)) as [[_ ->]|[j [_ ->]]].
  - rewrite firstn_map. destruct (recover_sub true (apply (map Del (firstn k order)) s0) s0 Hwf (del_sub _ _)) as [E|E]; rewrite E; simpl; auto.
  - rewrite !apply_app. set (s1 := apply (map Del order) s0).
    assert (H1 : s1 PIds = None).
    { unfold s1. apply del_gone. destruct (wf_cat_inv _ Hwf) as [r [ids [_ [Hi _]]]].
      apply fs_of_in in Hi. unfold valid_order_b in Hval. apply andb_true_iff in Hval. destruct Hval as [Hc _].
      unfold covers in Hc. rewrite forallb_forall in Hc. apply mem_path_In. apply (Hc _ Hi). }
    destruct (crash_safe_create ps s1 j H1) as [E|[E|[]]]; rewrite <- E; simpl; auto.
Qed.

(* F21: the pinned recovery opens the crash state between creating and writing patch_ids.bin as a
   catalog without patches *)
Definition ps_demo : list piece := [(0, [0; 1]); (1, [2]); (0, [3])].
Theorem empty_ids_refuted :
  let ops := ops_create_pinned ps_demo in
  recover_cat false (apply ops empty_fs) = Ok [(0, [0; 1; 3]); (1, [2])] /\
  recover_cat false (apply (firstn 11 ops) empty_fs) = Ok [] /\
  recover_cat true (apply (firstn 11 ops) empty_fs) = Err.
Proof. vm_compute. repeat split. Qed.

(* an empty marker (older caches may hold one: a creation of the pinned commit that died between creating and writing
   patch_ids.bin) is refused by the repaired recovery, whatever else the directory holds *)
Theorem empty_marker_refused s : s PIds = Some (IdsF []) -> recover_cat true s = Err.
Proof. intro H. unfold recover_cat. rewrite H. destruct (s PRoot); reflexivity. Qed.

(* the repaired creation never leaves an empty marker: patch_ids.bin is absent or holds the complete list *)
Theorem create_marker_whole (body : list fop) ps s0 k :
  Forall (avoids PIds) body -> s0 PIds = None ->
  let ops := body ++ ops_create_ids ps ++ ops_meta_all (created_ids ps) in
  In (apply (firstn k ops) s0 PIds) [None; Some (IdsF (created_ids ps))].
Proof.
  intros Hb H0 ops. unfold ops.
  destruct (firstn_app_cases k body (ops_create_ids ps ++ ops_meta_all (created_ids ps))) as [[_ ->]|[j [_ ->]]].
  - left. symmetry. rewrite apply_untouched; [exact H0|]. apply Forall_firstn, Hb.
  - rewrite !apply_app. set (s1 := apply body s0).
    assert (H1 : s1 PIds = None) by (unfold s1; rewrite apply_untouched; [exact H0|exact Hb]).
    destruct j as [|[|[|j]]]; try (left; symmetry; simpl; exact H1).
    right. left.
    change (firstn (S (S (S j))) (ops_create_ids ps ++ ops_meta_all (created_ids ps)))
      with (ops_create_ids ps ++ firstn j (ops_meta_all (created_ids ps))).
    rewrite !apply_app. rewrite ops_meta_all_eq. rewrite meta_puts_untouched; [reflexivity| |discriminate].
    apply Forall_firstn, ops_metadata_shape.
Qed.

(* F35: the pinned creation writes patch_ids.bin in place; a long id list reaches the file in several write system
   calls (here two: l1, then l2).  Whatever the body is and whatever the complete catalog o is: the crash state after
   the first of them opens WITHOUT an error, as the first |l1| patches of o - a strict subset *)
Lemma collect_app s l1 l2 o : collect s (l1 ++ l2) = Some o -> collect s l1 = Some (firstn (length l1) o) /\ length o = length l1 + length l2.
Proof.
  revert o. induction l1 as [|i l1 IH]; intros o H; simpl in *.
  - split; [reflexivity|]. revert o H. induction l2 as [|i l2 IH2]; intros o H; simpl in *.
    + injection H as <-. reflexivity.
    + destruct (recover_patch s i); [|discriminate]. destruct (collect s l2) as [y|]; [|discriminate].
      injection H as <-. simpl. rewrite (IH2 y eq_refl). reflexivity.
  - destruct (recover_patch s i); [|discriminate]. destruct (collect s (l1 ++ l2)) as [y|]; [|discriminate].
    injection H as <-. destruct (IH y eq_refl) as [E1 E2]. rewrite E1. simpl. split; [reflexivity|]. rewrite E2. reflexivity.
Qed.

Lemma collect_put_ids s ids c : collect (apply1 s (Put PIds c)) ids = collect s ids.
Proof. induction ids as [|i ids IH]; [reflexivity|]. cbn [collect]. rewrite IH. reflexivity. Qed.

Theorem marker_in_pieces_refuted (body : list fop) (l1 l2 : list nat) s0 o :
  l1 <> [] -> l2 <> [] ->
  let ops := body ++ ops_ids_pieces l1 l2 in
  recover_cat true (apply ops s0) = Ok o ->
  exists k, k < length ops /\
    recover_cat true (apply (firstn k ops) s0) = Ok (firstn (length l1) o) /\ length l1 < length o.
Proof.
  intros H1 H2 ops Hf. exists (length body + 2). unfold ops. split; [rewrite app_length; simpl; lia|].
  rewrite firstn_app, firstn_all2 by lia. replace (length body + 2 - length body) with 2 by lia.
  unfold ops in Hf. rewrite apply_app in Hf. rewrite apply_app. set (s1 := apply body s0) in *.
  change (apply (firstn 2 (ops_ids_pieces l1 l2)) s1) with (apply1 (apply1 s1 (Put PIds (IdsF []))) (Put PIds (IdsF l1))).
  change (apply (ops_ids_pieces l1 l2) s1)
    with (apply1 (apply1 (apply1 s1 (Put PIds (IdsF []))) (Put PIds (IdsF l1))) (Put PIds (IdsF (l1 ++ l2)))) in Hf.
  set (sa := apply1 s1 (Put PIds (IdsF []))) in *. set (sb := apply1 sa (Put PIds (IdsF l1))) in *.
  unfold recover_cat in *.
  change (apply1 sb (Put PIds (IdsF (l1 ++ l2))) PRoot) with (s1 PRoot) in Hf. change (sb PRoot) with (s1 PRoot).
  change (apply1 sb (Put PIds (IdsF (l1 ++ l2))) PIds) with (Some (IdsF (l1 ++ l2))) in Hf.
  change (sb PIds) with (Some (IdsF l1)).
  destruct (s1 PRoot); [|discriminate].
  rewrite collect_put_ids in Hf. unfold sb, sa in *. rewrite !collect_put_ids in *.
  destruct l1 as [|a l1]; [congruence|].
  change (true && is_nil ((a :: l1) ++ l2)) with false in Hf. change (true && is_nil (a :: l1)) with false.
  cbv iota in *.
  destruct (collect s1 ((a :: l1) ++ l2)) as [y|] eqn:E; [|discriminate]. injection Hf as <-.
  destruct (collect_app _ _ _ _ E) as [E1 E2]. rewrite E1. split; [reflexivity|].
  rewrite E2. destruct l2; [congruence|]. simpl. lia.
Qed.

(* ------------------------------------------------------------------ result files *)
Lemma apply_repeat_put p c n s : apply (repeat (Put p c) (S n)) s p = Some c.
Proof.
  replace (repeat (Put p c) (S n)) with (repeat (Put p c) n ++ [Put p c]) by (rewrite <- repeat_cons; reflexivity).
  exact (apply_last_put (repeat (Put p c) n) p c s).
Qed.

Theorem crash_safe_single s0 extra tail v k :
  let ops := ops_res_single extra tail v in
  In (recover_single (apply (firstn k ops) s0)) [Err; recover_single s0; Ok (v, v)].
Proof.
  intro ops. unfold ops, ops_res_single.
  destruct (firstn_app_cases k (repeat (Put PRes (ResF None)) (S extra)) (repeat (Put PRes (ResF (Some v))) (S tail))) as [[_ ->]|[j [_ ->]]].
  - rewrite firstn_repeat. destruct (min k (S extra)) as [|m]; [simpl; auto|].
    unfold recover_single. rewrite (apply_repeat_put PRes (ResF None) m s0). simpl. auto.
  - rewrite apply_app, firstn_repeat. destruct (min j (S tail)) as [|m].
    + assert (E : apply (repeat (Put PRes (ResF (Some v))) 0) (apply (repeat (Put PRes (ResF None)) (S extra)) s0) PRes = Some (ResF None))
        by exact (apply_repeat_put PRes (ResF None) extra s0).
      unfold recover_single. rewrite E. simpl. auto.
    + unfold recover_single. rewrite (apply_repeat_put PRes (ResF (Some v)) m _). simpl. auto.
Qed.

(* F18 repaired: .smp and .cov are removed before .dat is rewritten *)
Theorem crash_safe_triple_fix s0 v k :
  let ops := ops_triple_fix s0 v in
  In (recover_triple (apply (firstn k ops) s0)) [Err; recover_triple s0; Ok (v, v)].
Proof.
  intro ops. unfold ops, ops_triple_fix, ops_triple_cur, recover_triple.
  destruct (s0 PSmp) as [cs|] eqn:Es; destruct (s0 PCov) as [cc|] eqn:Ec; simpl present; cbv iota; simpl app;
    do 9 (destruct k as [|k]; [simpl; rewrite ?Es; simpl; auto; destruct (s0 PDat) as [[| | | | | |[]| |]|]; simpl; auto|]);
    simpl; auto.
Qed.

(* F18: overwriting an existing triple in the pinned order; crash after .dat is complete *)
Definition s_old_triple : list (path * content) := [(PDat, ResF (Some 1)); (PSmp, ResF (Some 1)); (PCov, ResF (Some 1))].
Theorem result_triple_mixed_refuted :
  recover_triple (fs_of s_old_triple) = Ok (1, 1) /\
  recover_triple (apply (ops_triple_cur 2) (fs_of s_old_triple)) = Ok (2, 2) /\
  recover_triple (apply (firstn 2 (ops_triple_cur 2)) (fs_of s_old_triple)) = Ok (2, 1).
Proof. vm_compute. repeat split. Qed.

(* ------------------------------------------------------------------ what "new" is for a creation *)
Lemma acc_get_set acc p r q : acc_get (acc_set acc p r) q = if q =? p then Some r else acc_get acc q.
Proof.
  induction acc as [|[a ra] acc IH]; simpl.
  - destruct (Nat.eqb_spec p q), (Nat.eqb_spec q p); subst; try reflexivity; congruence.
  - destruct (Nat.eqb_spec a p); simpl.
    + subst. destruct (Nat.eqb_spec p q), (Nat.eqb_spec q p); subst; try reflexivity; congruence.
    + rewrite IH. destruct (Nat.eqb_spec a q), (Nat.eqb_spec q p); subst; try reflexivity; congruence.
Qed.

Lemma ops_pieces_spec : forall ps acc s,
  (forall p r, acc_get acc p = Some r -> s (PData p) = Some (DataF true r)) ->
  (forall p, acc_get (snd (ops_pieces acc ps)) p =
             match acc_get acc p with
             | Some r => Some (r ++ recs_for ps p)
             | None => if has_piece ps p then Some (recs_for ps p) else None
             end) /\
  (forall p r, acc_get (snd (ops_pieces acc ps)) p = Some r -> apply (fst (ops_pieces acc ps)) s (PData p) = Some (DataF true r)).
Proof.
  induction ps as [|[p rs] ps IH]; intros acc s Hinv.
  - simpl. split.
    + intro q. destruct (acc_get acc q); [rewrite app_nil_r|]; reflexivity.
    + exact Hinv.
  - simpl ops_pieces. destruct (acc_get acc p) as [old|] eqn:Eg.
    + set (acc1 := acc_set acc p (old ++ rs)).
      set (s1 := apply1 s (Put (PData p) (DataF true (old ++ rs)))).
      assert (Hinv1 : forall q r, acc_get acc1 q = Some r -> s1 (PData q) = Some (DataF true r)).
      { intros q r. unfold acc1, s1. rewrite acc_get_set. simpl. destruct (q =? p) eqn:E.
        - intro H. injection H as <-. reflexivity.
        - apply Hinv. }
      destruct (IH acc1 s1 Hinv1) as [H1 H2]. destruct (ops_pieces acc1 ps) as [o a] eqn:Eo. simpl in *.
      split.
      * intro q. rewrite H1. unfold acc1. rewrite acc_get_set. unfold recs_for. simpl. unfold has_piece. simpl.
        rewrite (Nat.eqb_sym p q). destruct (q =? p) eqn:E.
        { apply Nat.eqb_eq in E. subst. rewrite Eg, <- app_assoc. reflexivity. }
        { simpl. destruct (acc_get acc q); reflexivity. }
      * intros q r Hq. change (apply o s1 (PData q) = Some (DataF true r)). apply H2. exact Hq.
    + set (acc1 := acc_set acc p rs).
      set (s1 := apply [Put (PDir p) Dir; Put (PData p) (DataF false []); Put (PData p) (DataF true []); Put (PData p) (DataF true rs)] s).
      assert (Hinv1 : forall q r, acc_get acc1 q = Some r -> s1 (PData q) = Some (DataF true r)).
      { intros q r. unfold acc1, s1. rewrite acc_get_set. simpl. destruct (q =? p) eqn:E.
        - intro H. injection H as <-. reflexivity.
        - apply Hinv. }
      destruct (IH acc1 s1 Hinv1) as [H1 H2]. destruct (ops_pieces acc1 ps) as [o a] eqn:Eo. simpl in *.
      split.
      * intro q. rewrite H1. unfold acc1. rewrite acc_get_set. unfold recs_for. simpl. unfold has_piece. simpl.
        rewrite (Nat.eqb_sym p q). destruct (q =? p) eqn:E.
        { apply Nat.eqb_eq in E. subst. rewrite Eg. reflexivity. }
        { simpl. destruct (acc_get acc q); reflexivity. }
      * intros q r Hq. change (apply o s1 (PData q) = Some (DataF true r)). apply H2. exact Hq.
Qed.

Lemma fs_insert_in x k l : In x (fs_insert k l) <-> x = k \/ In x l.
Proof.
  induction l as [|y l IH]; simpl; [intuition|].
  destruct (k <=? y); simpl; [intuition|]. rewrite IH. intuition.
Qed.

Lemma fs_sort_in x l : In x (fs_sort l) <-> In x l.
Proof.
  unfold fs_sort. induction l as [|y l IH]; simpl; [tauto|]. rewrite fs_insert_in, IH. intuition.
Qed.

Lemma acc_get_in acc i : In i (map fst acc) <-> exists r, acc_get acc i = Some r.
Proof.
  induction acc as [|[a ra] acc IH]; simpl.
  - split; [tauto|intros [r H]; discriminate].
  - destruct (Nat.eqb_spec a i).
    + split; [eauto|auto].
    + rewrite <- IH. intuition.
Qed.

Lemma collect_data_map s ids f :
  (forall i, In i ids -> patch_data (s (PData i)) = Some (f i)) -> collect_data s ids = Some (map (fun i => (i, f i)) ids).
Proof.
  induction ids as [|i ids IH]; intro H; simpl; [reflexivity|].
  rewrite (H i (or_introl eq_refl)), IH by (intros; apply H; right; assumption). reflexivity.
Qed.

Lemma ops_pieces_paths : forall ps acc,
  Forall (fun o => exists p, only (PDir p) o \/ only (PData p) o) (fst (ops_pieces acc ps)).
Proof.
  induction ps as [|[p rs] ps IH]; intro acc; simpl; [constructor|].
  destruct (acc_get acc p) as [old|].
  - specialize (IH (acc_set acc p (old ++ rs))). destruct (ops_pieces (acc_set acc p (old ++ rs)) ps). simpl in *.
    constructor; [exists p; simpl; auto|exact IH].
  - specialize (IH (acc_set acc p rs)). destruct (ops_pieces (acc_set acc p rs) ps). simpl in *.
    repeat (constructor; [exists p; simpl; auto|]). exact IH.
Qed.

Lemma recs_for_nonempty ps i :
  (forall pc, In pc ps -> snd pc <> []) -> has_piece ps i = true -> recs_for ps i <> [].
Proof.
  intros Hne H. unfold has_piece in H. apply existsb_exists in H. destruct H as [[p rs] [Hin E]]. simpl in E.
  intro Hnil. specialize (Hne _ Hin). simpl in Hne. destruct rs as [|r rs]; [congruence|].
  assert (Hr : In r (recs_for ps i)).
  { unfold recs_for. apply in_flat_map. exists (p, r :: rs). split; [exact Hin|]. simpl. rewrite E. left. reflexivity. }
  rewrite Hnil in Hr. destruct Hr.
Qed.

(* an uninterrupted creation is readable and holds, patch by patch, exactly the records of that patch's
   pieces in the order they were handed to the writer *)
Theorem create_complete strict ps s0 :
  ps <> [] -> (forall pc, In pc ps -> snd pc <> []) ->
  recover_cat strict (apply (ops_create ps) s0) = Ok (map (fun i => (i, recs_for ps i)) (created_ids ps)).
Proof.
  intros Hps Hne. unfold ops_create. rewrite !apply_app.
  set (s1 := apply (ops_create_body ps) s0). set (s2 := apply (ops_create_ids ps) s1).
  set (ids := created_ids ps). set (sF := apply (ops_meta_all ids) s2).
  pose proof (ops_metadata_shape empty_fs ids) as Hsh. rewrite <- ops_meta_all_eq in Hsh.
  destruct (ops_pieces_spec ps [] (apply1 s0 (Put PRoot Dir))) as [H1 H2]; [intros p r H; discriminate|].
  assert (Hroot : sF PRoot = Some Dir).
  { unfold sF. rewrite meta_puts_untouched; [|exact Hsh|discriminate]. unfold s2, ops_create_ids. simpl.
    unfold s1, ops_create_body. change (apply (Put PRoot Dir :: fst (ops_pieces [] ps)) s0) with (apply (fst (ops_pieces [] ps)) (apply1 s0 (Put PRoot Dir))).
    rewrite apply_untouched; [simpl; reflexivity|]. eapply Forall_impl; [|apply ops_pieces_paths]. intros o [p [E|E]]; (eapply only_avoids; [|exact E]); discriminate. }
  assert (Hids : sF PIds = Some (IdsF ids)).
  { unfold sF. rewrite meta_puts_untouched; [|exact Hsh|discriminate]. reflexivity. }
  assert (Hdata : forall i, In i ids -> patch_data (sF (PData i)) = Some (recs_for ps i)).
  { intros i Hin. unfold ids, created_ids in Hin. apply fs_sort_in, acc_get_in in Hin. destruct Hin as [r Hr].
    pose proof (H2 i r Hr) as Hd. rewrite H1 in Hr. simpl in Hr.
    destruct (has_piece ps i) eqn:Ehp; [|discriminate]. injection Hr as <-.
    unfold sF. rewrite meta_puts_untouched; [|exact Hsh|discriminate]. unfold s2, ops_create_ids. simpl.
    unfold s1, ops_create_body. change (apply (Put PRoot Dir :: fst (ops_pieces [] ps)) s0) with (apply (fst (ops_pieces [] ps)) (apply1 s0 (Put PRoot Dir))).
    rewrite Hd. pose proof (recs_for_nonempty ps i Hne Ehp) as Hn. destruct (recs_for ps i); [congruence|reflexivity]. }
  assert (Hnil : is_nil ids = false).
  { destruct ps as [|[p rs] ps']; [congruence|].
    assert (Hin : In p ids).
    { unfold ids, created_ids. apply fs_sort_in, acc_get_in. rewrite H1. simpl. unfold has_piece. simpl. rewrite Nat.eqb_refl. simpl. eauto. }
    destruct ids; [destruct Hin|reflexivity]. }
  fold sF. unfold recover_cat. rewrite Hroot, Hids, Hnil, andb_false_r.
  rewrite collect_all_fine.
  - rewrite (collect_data_map sF ids (recs_for ps) Hdata). reflexivity.
  - intros i Hin. unfold sF. rewrite ops_meta_all_eq. apply meta_final. right. split; [exact Hin|reflexivity].
Qed.

(* ------------------------------------------------------------------ products under user-given names *)
Definition rv_put (v : nat) (o : fop) : Prop := exists p, o = Put p (ResF None) \/ o = Put p (ResF (Some v)).

Lemma ops_wfiles_shape v ws : Forall (rv_put v) (ops_wfiles ws v).
Proof.
  unfold ops_wfiles. induction ws as [|w ws IH]; cbn [flat_map]; [constructor|].
  apply Forall_app. split; [|exact IH]. unfold ops_wfile. apply Forall_app. split; apply Forall_forall; intros o Ho;
    apply repeat_spec in Ho; subst; exists (fst w); auto.
Qed.

(* while files are (re)written every name holds what it held before, an incomplete file or a complete new one *)
Lemma rv_puts_point v l : Forall (rv_put v) l -> forall s q,
  apply l s q = s q \/ apply l s q = Some (ResF None) \/ apply l s q = Some (ResF (Some v)).
Proof.
  induction 1 as [|o l Ho _ IH]; intros s q; [left; reflexivity|].
  change (apply (o :: l) s) with (apply l (apply1 s o)).
  destruct (IH (apply1 s o) q) as [E|E]; [|right; exact E]. rewrite E.
  destruct Ho as [p [->| ->]]; simpl; destruct (path_beq q p); auto.
Qed.

Lemma ops_wfiles_head v ws p : first_written ws = Some p ->
  exists rest, ops_wfiles ws v = Put p (ResF None) :: rest /\ Forall (rv_put v) rest.
Proof.
  intro Hf. destruct ws as [|[q [e t]] ws]; [discriminate|]. simpl in Hf. injection Hf as ->.
  pose proof (ops_wfiles_shape v ((p, (e, t)) :: ws)) as Hsh.
  unfold ops_wfiles in *. cbn [flat_map] in *. unfold ops_wfile at 1. unfold ops_wfile at 1 in Hsh.
  cbn [fst snd repeat app] in *.
  eexists. split; [reflexivity|]. inversion Hsh; assumption.
Qed.

Lemma first_put_point v p l s j : Forall (rv_put v) l ->
  apply (firstn (S j) (Put p (ResF None) :: l)) s p = Some (ResF None) \/
  apply (firstn (S j) (Put p (ResF None) :: l)) s p = Some (ResF (Some v)).
Proof.
  intro H. cbn [firstn].
  change (apply (Put p (ResF None) :: firstn j l) s) with (apply (firstn j l) (apply1 s (Put p (ResF None)))).
  destruct (rv_puts_point v _ (Forall_firstn (rv_put v) j l H) (apply1 s (Put p (ResF None))) p) as [E|E]; [|exact E].
  left. rewrite E. simpl. rewrite path_beq_refl. reflexivity.
Qed.

Lemma read_all_ext nr : forall s s', (forall p, In p nr -> s p = s' p) -> read_all s nr = read_all s' nr.
Proof.
  induction nr as [|p nr IH]; intros s s' H; [reflexivity|]. simpl.
  rewrite (H p (or_introl eq_refl)), (IH s s'); [reflexivity|]. intros q Hq. apply H. right. exact Hq.
Qed.

Lemma read_all_gone nr : forall s p, In p nr -> s p = None -> read_all s nr = None.
Proof.
  induction nr as [|q nr IH]; intros s p Hin E; [destruct Hin|]. simpl. destruct Hin as [->|Hin].
  - rewrite E. reflexivity.
  - rewrite (IH s p Hin E). destruct (s q) as [[| | | | | |[]| |]|]; reflexivity.
Qed.

Lemma read_all_cases v nr : forall s,
  (forall p, In p nr -> s p = None \/ s p = Some (ResF None) \/ s p = Some (ResF (Some v))) ->
  read_all s nr = None \/ read_all s nr = Some (map (fun _ => v) nr).
Proof.
  induction nr as [|q nr IH]; intros s H; [right; reflexivity|]. simpl.
  destruct (IH s (fun p Hp => H p (or_intror Hp))) as [E|E]; rewrite E.
  - left. destruct (s q) as [[| | | | | |[]| |]|]; reflexivity.
  - destruct (H q (or_introl eq_refl)) as [E1|[E1|E1]]; rewrite E1; auto.
Qed.

Lemma ops_dels_sub s0 nd k : sub (apply (firstn k (ops_dels s0 nd)) s0) s0.
Proof. unfold ops_dels. rewrite firstn_map. apply del_sub. Qed.

Lemma ops_dels_gone s0 nd p : In p nd -> apply (ops_dels s0 nd) s0 p = None.
Proof.
  intro Hin. unfold ops_dels. destruct (s0 p) as [c|] eqn:E.
  - apply del_gone. apply filter_In. split; [exact Hin|]. rewrite E. reflexivity.
  - destruct (del_sub (filter (fun p0 => present (s0 p0)) nd) s0 p) as [H|H]; [exact H|]. rewrite H. exact E.
Qed.

(* what a reader sees of a state all of whose read names are unchanged or gone *)
Lemma recover_product_sub nr s' s : sub s' s -> recover_product nr s' = Err \/ recover_product nr s' = recover_product nr s.
Proof.
  intro Hsub. unfold recover_product.
  assert (H : (exists p, In p nr /\ s' p = None) \/ (forall p, In p nr -> s' p = s p)).
  { induction nr as [|q nr IH]; [right; intros p []|].
    destruct IH as [[p [Hp E]]|IH]; [left; exists p; split; [right; exact Hp|exact E]|].
    destruct (Hsub q) as [E|E]; [left; exists q; split; [left; reflexivity|exact E]|].
    right. intros p [<-|Hp]; [exact E|apply IH; exact Hp]. }
  destruct H as [[p [Hp E]]|H].
  - left. rewrite (read_all_gone nr s' p Hp E). reflexivity.
  - right. rewrite (read_all_ext nr s' s H). reflexivity.
Qed.

(* THE naming theorem: the names removed (nd), written (ws) and read (nr) are arbitrary paths; if every
   name that is read is removed beforehand or is the file written first, then after a crash at ANY point,
   from ANY prior state (older products, leftovers of an earlier crash, nothing), the reader fails or sees
   the old product or the complete new one *)
Theorem crash_safe_product s0 nd ws nr v k :
  (forall p, In p nr -> In p nd \/ first_written ws = Some p) ->
  let ops := ops_product true s0 nd ws v in
  In (recover_product nr (apply (firstn k ops) s0)) [Err; recover_product nr s0; Ok (map (fun _ => v) nr)].
Proof.
  intros Hn ops. unfold ops, ops_product.
  destruct (firstn_app_cases k (ops_dels s0 nd) (ops_wfiles ws v)) as [[_ ->]|[j [_ ->]]].
  - destruct (recover_product_sub nr _ s0 (ops_dels_sub s0 nd k)) as [E|E]; rewrite E; simpl; auto.
  - rewrite apply_app. set (s1 := apply (ops_dels s0 nd) s0).
    destruct j as [|j].
    + simpl. assert (Hs : sub s1 s0) by (unfold s1; rewrite <- (firstn_all (ops_dels s0 nd)); apply ops_dels_sub).
      change (apply [] s1) with s1.
      destruct (recover_product_sub nr s1 s0 Hs) as [E|E]; rewrite E; simpl; auto.
    + assert (Hc : forall p, In p nr ->
        apply (firstn (S j) (ops_wfiles ws v)) s1 p = None \/
        apply (firstn (S j) (ops_wfiles ws v)) s1 p = Some (ResF None) \/
        apply (firstn (S j) (ops_wfiles ws v)) s1 p = Some (ResF (Some v))).
      { intros p Hp.
        pose proof (Forall_firstn (rv_put v) (S j) _ (ops_wfiles_shape v ws)) as Hsh.
        destruct (Hn p Hp) as [Hd|Hf].
        - destruct (rv_puts_point v _ Hsh s1 p) as [E|E]; [|right; exact E].
          left. rewrite E. unfold s1. apply ops_dels_gone. exact Hd.
        - destruct (ops_wfiles_head v ws p Hf) as [rest [Eo Hr]]. rewrite Eo.
          right. apply first_put_point. exact Hr. }
      unfold recover_product. destruct (read_all_cases v nr _ Hc) as [E|E]; rewrite E; simpl; auto.
Qed.

(* an uninterrupted write reads back as the new product when every name that is read is written *)
Lemma ops_wfile_paths v w : Forall (only (fst w)) (ops_wfile v w).
Proof. unfold ops_wfile. apply Forall_app. split; apply Forall_forall; intros o Ho; apply repeat_spec in Ho; subst; reflexivity. Qed.

Lemma ops_wfiles_final v : forall ws s p, In p (map fst ws) -> apply (ops_wfiles ws v) s p = Some (ResF (Some v)).
Proof.
  unfold ops_wfiles. induction ws as [|w ws IH]; intros s p Hin; [destruct Hin|].
  cbn [flat_map]. rewrite apply_app.
  destruct (mem_path p (map fst ws)) eqn:Em.
  - apply IH. apply mem_path_In. exact Em.
  - destruct Hin as [<-|Hin].
    + rewrite apply_untouched.
      * unfold ops_wfile. rewrite apply_app. apply apply_repeat_put.
      * clear IH. induction ws as [|w' ws IH]; cbn [flat_map]; [constructor|]. simpl in Em. apply orb_false_iff in Em. destruct Em as [E1 E2].
        apply Forall_app. split; [|apply IH; exact E2].
        apply (touch_other _ (fst w')); [|apply ops_wfile_paths]. intro H. rewrite H, path_beq_refl in E1. discriminate.
    + exfalso. clear IH. induction ws as [|w' ws IH]; [destruct Hin|]. simpl in Em. apply orb_false_iff in Em. destruct Em as [E1 E2].
      destruct Hin as [<-|Hin]; [rewrite path_beq_refl in E1; discriminate|auto].
Qed.

Theorem product_complete fixed s0 nd ws nr v :
  (forall p, In p nr -> In p (map fst ws)) ->
  recover_product nr (apply (ops_product fixed s0 nd ws v) s0) = Ok (map (fun _ => v) nr).
Proof.
  intro H. unfold ops_product. rewrite apply_app. unfold recover_product.
  set (s1 := apply (if fixed then ops_dels s0 nd else []) s0).
  assert (E : read_all (apply (ops_wfiles ws v) s1) nr = Some (map (fun _ => v) nr)).
  { clear -H. induction nr as [|p nr IH]; [reflexivity|]. simpl.
    rewrite (ops_wfiles_final v ws s1 p (H p (or_introl eq_refl))), IH; [reflexivity|]. intros q Hq. apply H. right. exact Hq. }
  rewrite E. reflexivity.
Qed.

(* the boolean the harness evaluates on the observed names implies the hypotheses of both theorems *)
Lemma names_ok_b_spec nd ws nr : names_ok_b nd ws nr = true ->
  (forall p, In p nr -> In p nd \/ first_written ws = Some p) /\ (forall p, In p nr -> In p (map fst ws)).
Proof.
  unfold names_ok_b. intro H. apply andb_true_iff in H. destruct H as [H1 H2]. rewrite forallb_forall in H1, H2. split.
  - intros p Hp. specialize (H1 p Hp). apply orb_true_iff in H1. destruct H1 as [H1|H1]; [left; apply mem_path_In; exact H1|].
    right. destruct (first_written ws) as [q|]; [|discriminate]. apply path_beq_eq in H1. subst. reflexivity.
  - intros p Hp. apply mem_path_In. exact (H2 p Hp).
Qed.

(* the instance of the current code for a prefix without and with dots: one derivation of the names *)
Theorem crash_safe_triple_named (dat smp cov : path) s0 e1 t1 e2 t2 e3 t3 v k :
  let ops := ops_product true s0 [smp; cov] [(dat, (e1, t1)); (smp, (e2, t2)); (cov, (e3, t3))] v in
  In (recover_product [dat; smp] (apply (firstn k ops) s0)) [Err; recover_product [dat; smp] s0; Ok [v; v]].
Proof.
  apply (crash_safe_product s0 [smp; cov] [(dat, (e1, t1)); (smp, (e2, t2)); (cov, (e3, t3))] [dat; smp] v k).
  intros p [<-|[<-|[]]]; simpl; auto.
Qed.

(* ... and what goes wrong when the names are derived in two ways: the files are written and read as
   prefix + ".dat/.smp/.cov" (POther 3, 4, 5) while the removal still computes stem + ".smp/.cov"
   (POther 1, 2, which do not exist): the old samples survive the rewrite of .dat *)
Definition s_old_named : list (path * content) :=
  [(PRoot, Dir); (POther 3, ResF (Some 1)); (POther 4, ResF (Some 1)); (POther 5, ResF (Some 1))].
Theorem product_names_refuted :
  let nd := [POther 1; POther 2] in
  let ws := [(POther 3, (0, 0)); (POther 4, (0, 0)); (POther 5, (0, 0))] in
  let nr := [POther 3; POther 4] in
  names_ok_b nd ws nr = false /\
  recover_product nr (fs_of s_old_named) = Ok [1; 1] /\
  recover_product nr (apply (ops_product true (fs_of s_old_named) nd ws 2) (fs_of s_old_named)) = Ok [2; 2] /\
  recover_product nr (apply (firstn 2 (ops_product true (fs_of s_old_named) nd ws 2)) (fs_of s_old_named)) = Ok [2; 1].
Proof. vm_compute. repeat split. Qed.

(* ------------------------------------------------------------------ appends above the size of the user-space buffer *)
Lemma cut_ops_touch p old rs cuts : Forall (only (PData p)) (cut_ops p old rs cuts).
Proof. unfold cut_ops. apply Forall_forall. intros o H. apply in_map_iff in H. destruct H as [c [<- _]]. reflexivity. Qed.

(* system calls on one file followed by one more on the same file: only the last content is seen *)
Lemma apply_overwritten l p c s q :
  Forall (only p) l -> apply (l ++ [Put p c]) s q = apply1 s (Put p c) q.
Proof.
  intro H. rewrite apply_app. change (apply [Put p c] (apply l s) q) with (apply1 (apply l s) (Put p c) q).
  simpl. destruct (path_beq q p) eqn:E; [reflexivity|].
  apply apply_untouched. apply (touch_other l p q); [|exact H]. intros ->. rewrite path_beq_refl in E. discriminate.
Qed.

Lemma ops_bpieces_nocuts : forall ps acc, ops_bpieces acc (map (fun pc => (pc, [])) ps) = ops_pieces acc ps.
Proof.
  induction ps as [|[p rs] ps IH]; intro acc; simpl; [reflexivity|].
  destruct (acc_get acc p) as [old|]; rewrite IH; reflexivity.
Qed.

Lemma ops_bpieces_touch : forall bps acc, Forall (avoids PIds) (fst (ops_bpieces acc bps)).
Proof.
  induction bps as [|[[p rs] cuts] bps IH]; intro acc; simpl; [constructor|].
  destruct (acc_get acc p) as [old|].
  - specialize (IH (acc_set acc p (old ++ rs))). destruct (ops_bpieces (acc_set acc p (old ++ rs)) bps). simpl in *.
    apply Forall_app. split.
    + apply (touch_other _ (PData p) PIds); [discriminate|apply cut_ops_touch].
    + constructor; [discriminate|exact IH].
  - specialize (IH (acc_set acc p rs)). destruct (ops_bpieces (acc_set acc p rs) bps). simpl in *.
    repeat (constructor; [discriminate|]). apply Forall_app. split.
    + apply (touch_other _ (PData p) PIds); [discriminate|apply cut_ops_touch].
    + constructor; [discriminate|exact IH].
Qed.

Lemma bcreate_body_touch bps : Forall (avoids PIds) (ops_bcreate_body bps).
Proof. unfold ops_bcreate_body. constructor; [discriminate|apply ops_bpieces_touch]. Qed.

(* however the pieces are cut: the same accumulated records and, file by file, the same final state *)
Lemma bpieces_final : forall bps acc,
  snd (ops_bpieces acc bps) = snd (ops_pieces acc (unbuf bps)) /\
  forall s q, apply (fst (ops_bpieces acc bps)) s q = apply (fst (ops_pieces acc (unbuf bps))) s q.
Proof.
  induction bps as [|[[p rs] cuts] bps IH]; intro acc; simpl; [split; reflexivity|].
  destruct (acc_get acc p) as [old|].
  - destruct (IH (acc_set acc p (old ++ rs))) as [H1 H2].
    destruct (ops_bpieces (acc_set acc p (old ++ rs)) bps) as [ob ab].
    destruct (ops_pieces (acc_set acc p (old ++ rs)) (unbuf bps)) as [o a]. simpl in *.
    split; [exact H1|]. intros s q.
    replace (cut_ops p old rs cuts ++ Put (PData p) (DataF true (old ++ rs)) :: ob)
      with ((cut_ops p old rs cuts ++ [Put (PData p) (DataF true (old ++ rs))]) ++ ob) by (rewrite <- app_assoc; reflexivity).
    rewrite apply_app, H2.
    change (apply (Put (PData p) (DataF true (old ++ rs)) :: o) s q)
      with (apply o (apply1 s (Put (PData p) (DataF true (old ++ rs)))) q).
    apply apply_ext. intro r. apply apply_overwritten, cut_ops_touch.
  - destruct (IH (acc_set acc p rs)) as [H1 H2].
    destruct (ops_bpieces (acc_set acc p rs) bps) as [ob ab].
    destruct (ops_pieces (acc_set acc p rs) (unbuf bps)) as [o a]. simpl in *.
    split; [exact H1|]. intros s q.
    set (s3 := apply1 (apply1 (apply1 s (Put (PDir p) Dir)) (Put (PData p) (DataF false []))) (Put (PData p) (DataF true []))).
    change (apply (cut_ops p [] rs cuts ++ Put (PData p) (DataF true rs) :: ob) s3 q
            = apply o (apply1 s3 (Put (PData p) (DataF true rs))) q).
    replace (cut_ops p [] rs cuts ++ Put (PData p) (DataF true rs) :: ob)
      with ((cut_ops p [] rs cuts ++ [Put (PData p) (DataF true rs)]) ++ ob) by (rewrite <- app_assoc; reflexivity).
    rewrite apply_app, H2. apply apply_ext. intro r. apply apply_overwritten, cut_ops_touch.
Qed.

Lemma collect_ext s s' ids : (forall q, s q = s' q) -> collect s ids = collect s' ids.
Proof. intro H. induction ids as [|i ids IH]; simpl; [reflexivity|]. unfold recover_patch. rewrite !H, IH. reflexivity. Qed.

Lemma recover_cat_ext strict s s' : (forall q, s q = s' q) -> recover_cat strict s = recover_cat strict s'.
Proof.
  intro H. unfold recover_cat. rewrite !H. destruct (s' PRoot); [|reflexivity].
  destruct (s' PIds) as [[| | | | |ids| | |]|]; try reflexivity. rewrite (collect_ext s s' ids H). reflexivity.
Qed.

Lemma bcreate_state bps s0 q : apply (ops_bcreate bps) s0 q = apply (ops_create (unbuf bps)) s0 q.
Proof.
  unfold ops_bcreate, ops_create. rewrite !apply_app. apply apply_ext. intro r. apply apply_ext. clear r. intro r.
  unfold ops_bcreate_body, ops_create_body.
  change (apply (fst (ops_bpieces [] bps)) (apply1 s0 (Put PRoot Dir)) r
          = apply (fst (ops_pieces [] (unbuf bps))) (apply1 s0 (Put PRoot Dir)) r).
  apply (proj2 (bpieces_final bps [])).
Qed.

(* an uninterrupted creation leaves the same catalog however the appends were cut into system calls *)
Theorem bcreate_final strict bps s0 :
  recover_cat strict (apply (ops_bcreate bps) s0) = recover_cat strict (apply (ops_create (unbuf bps)) s0).
Proof. apply recover_cat_ext. intro q. apply bcreate_state. Qed.

Theorem bcreate_complete strict bps s0 :
  bps <> [] -> (forall bp, In bp bps -> snd (fst bp) <> []) ->
  recover_cat strict (apply (ops_bcreate bps) s0)
  = Ok (map (fun i => (i, recs_for (unbuf bps) i)) (created_ids (unbuf bps))).
Proof.
  intros Hne Hall. rewrite bcreate_final. apply create_complete.
  - unfold unbuf. destruct bps; [congruence|discriminate].
  - intros pc Hin. unfold unbuf in Hin. apply in_map_iff in Hin. destruct Hin as [bp [<- Hin]]. apply Hall. exact Hin.
Qed.

(* for EVERY way the appends are cut into system calls (complete or torn records in between) *)
Theorem crash_safe_bcreate bps s0 k :
  s0 PIds = None ->
  let ops := ops_bcreate bps in
  In (recover_cat true (apply (firstn k ops) s0)) [Err; recover_cat true (apply ops s0)].
Proof. intros H0 ops. unfold ops, ops_bcreate. apply crash_safe_marker_last; [apply bcreate_body_touch|exact H0]. Qed.

Theorem crash_safe_boverwrite l order bps k :
  wf_cat (fs_of l) -> valid_order_b l order = true ->
  let s0 := fs_of l in
  let ops := ops_boverwrite order bps in
  In (recover_cat true (apply (firstn k ops) s0)) [Err; recover_cat true s0; recover_cat true (apply ops s0)].
Proof.
  intros Hwf Hval s0 ops. unfold ops, ops_boverwrite.
  destruct (firstn_app_cases k (map Del order) (ops_bcreate bps)) as [[_ ->]|[j [_ ->]]].
  - rewrite firstn_map. destruct (recover_sub true (apply (map Del (firstn k order)) s0) s0 Hwf (del_sub _ _)) as [E|E]; rewrite E; simpl; auto.
  - rewrite !apply_app. set (s1 := apply (map Del order) s0).
    assert (H1 : s1 PIds = None).
    { unfold s1. apply del_gone. destruct (wf_cat_inv _ Hwf) as [r [ids [_ [Hi _]]]].
      apply fs_of_in in Hi. unfold valid_order_b in Hval. apply andb_true_iff in Hval. destruct Hval as [Hc _].
      unfold covers in Hc. rewrite forallb_forall in Hc. apply mem_path_In. apply (Hc _ Hi). }
    destruct (crash_safe_bcreate bps s1 j H1) as [E|[E|[]]]; rewrite <- E; simpl; auto.
Qed.

(* the marker after the whole body IS the safe order ... *)
Lemma bcreate_early_all bps : ops_bcreate_early (length (ops_bcreate_body bps)) bps = ops_bcreate bps.
Proof. unfold ops_bcreate_early, ops_bcreate. rewrite firstn_all, skipn_all. reflexivity. Qed.

(* ... and any earlier point is not: patch 0 receives [0;1;2] (two system calls) and later [4;5] (two system calls,
   the first ends inside a record), patch 1 receives [3].  patch_ids.bin written while the second piece of patch 0
   is still in a user-space buffer (after 10 of the 12 system calls of the body): a crash right after the marker
   leaves a catalog that opens without error and lacks the records 4 and 5 *)
Definition bps_demo : list bpiece := [((0, [0; 1; 2]), [(2, false)]); ((1, [3]), []); ((0, [4; 5]), [(1, true)])].
Theorem marker_before_flush_refuted :
  let ops := ops_bcreate_early 10 bps_demo in
  length (ops_bcreate_body bps_demo) = 12 /\
  recover_cat true (apply ops empty_fs) = Ok [(0, [0; 1; 2; 4; 5]); (1, [3])] /\
  recover_cat true (apply (ops_bcreate bps_demo) empty_fs) = Ok [(0, [0; 1; 2; 4; 5]); (1, [3])] /\
  recover_cat true (apply (firstn 13 ops) empty_fs) = Ok [(0, [0; 1; 2]); (1, [3])] /\
  recover_cat true (apply (firstn 14 ops) empty_fs) = Err.
Proof. vm_compute. repeat split. Qed.

(* ------------------------------------------------------------------ deaths by unwinding *)
Lemma content_beq_eq a b : content_beq a b = true -> a = b.
Proof.
  destruct a, b; simpl; try discriminate; try reflexivity.
  - intro H. apply andb_true_iff in H. destruct H as [H1 H2]. apply Bool.eqb_prop in H1. apply nlist_eqb_eq in H2. congruence.
  - intro H. apply Bool.eqb_prop in H. congruence.
  - destruct b0, b; simpl; try discriminate; try reflexivity. intro H. apply Nat.eqb_eq in H. congruence.
  - destruct t, t0; simpl; try discriminate; try reflexivity. intro H. apply Nat.eqb_eq in H. congruence.
  - intro H. apply nlist_eqb_eq in H. congruence.
  - destruct v, v0; simpl; try discriminate; try reflexivity. intro H. apply Nat.eqb_eq in H. congruence.
  - intro H. apply nlist_eqb_eq in H. congruence.
Qed.

Lemma ocontent_beq_eq a b : ocontent_beq a b = true -> a = b.
Proof. destruct a, b; simpl; try discriminate; [|reflexivity]. intro H. apply content_beq_eq in H. congruence. Qed.

Lemma In_mem_path p l : In p l -> mem_path p l = true.
Proof.
  induction l as [|q l IH]; simpl; [tauto|]. intros [->|H].
  - rewrite path_beq_refl. reflexivity.
  - rewrite (IH H). apply orb_true_r.
Qed.

Lemma fs_of_none l q : ~ In q (map fst l) -> fs_of l q = None.
Proof.
  induction l as [|[p c] l IH]; simpl; [reflexivity|]. intro H.
  destruct (path_beq q p) eqn:E.
  - apply path_beq_eq in E. subst. exfalso. apply H. left. reflexivity.
  - apply IH. intro Hin. apply H. right. exact Hin.
Qed.

Lemma apply_none ops s q : s q = None -> ~ In q (flat_map op_paths ops) -> apply ops s q = None.
Proof.
  intros H0 Hn. rewrite apply_untouched; [exact H0|].
  apply Forall_forall. intros o Ho. apply avoids_paths. intro E. apply Hn. apply in_flat_map. exists o. auto.
Qed.

Lemma fs_eq_on_all u s1 s2 :
  fs_eq_on u s1 s2 = true -> (forall q, ~ In q u -> s1 q = None /\ s2 q = None) -> forall q, s1 q = s2 q.
Proof.
  intros H Hout q. destruct (mem_path q u) eqn:E.
  - apply mem_path_In in E. unfold fs_eq_on in H. rewrite forallb_forall in H. apply ocontent_beq_eq. apply H. exact E.
  - assert (Hn : ~ In q u) by (intro Hin; apply In_mem_path in Hin; congruence).
    destruct (Hout q Hn) as [-> ->]. reflexivity.
Qed.

(* the decision procedure is sound: the state equals the crash state after some k operations, at EVERY path *)
Lemma prefix_state_spec l0 ops l :
  prefix_state_b l0 ops l = true -> exists k, forall q, fs_of l q = apply (firstn k ops) (fs_of l0) q.
Proof.
  unfold prefix_state_b. intro H. apply existsb_exists in H. destruct H as [k [_ Hk]]. exists k.
  intro q. symmetry. revert q. apply (fs_eq_on_all _ _ _ Hk).
  intros q Hn. unfold universe in Hn. rewrite !in_app_iff in Hn. split.
  - apply apply_none.
    + apply fs_of_none. tauto.
    + intro Hin. apply Hn. right. left. rewrite in_flat_map in Hin. destruct Hin as [o [Ho Eo]].
      rewrite in_flat_map. exists o. split; [|exact Eo]. apply (firstn_In k ops o Ho).
  - apply fs_of_none. tauto.
Qed.

Lemma measure_ext s s' ids b : (forall q, s q = s' q) -> measure s ids b = measure s' ids b.
Proof.
  intro H. unfold measure.
  assert (E : map (fun i => use_trees s i b) ids = map (fun i => use_trees s' i b) ids).
  { apply map_ext. intro i. apply use_trees_ext; apply H. }
  rewrite E. reflexivity.
Qed.

Lemma w_class_at_ext fixed w s s' req : (forall q, s q = s' q) -> w_class_at fixed w s req = w_class_at fixed w s' req.
Proof.
  intro H. destruct w; unfold w_class_at;
    try (rewrite (recover_cat_ext fixed s s' H); reflexivity).
  - rewrite (measure_ext s s' _ req H). reflexivity.
  - unfold recover_single. rewrite H. reflexivity.
  - unfold recover_triple. rewrite !H. reflexivity.
  - unfold recover_product. rewrite (read_all_ext nr s s'); [reflexivity|]. intros p _. apply H.
Qed.

Lemma w_s0_list w : w_s0 w = fs_of (w_s0l w).
Proof. destruct w; reflexivity. Qed.

Lemma w_class_at_prefix fixed w k req :
  w_class fixed w k req = w_class_at fixed w (apply (firstn k (w_ops fixed w)) (w_s0 w)) req.
Proof. destruct w; reflexivity. Qed.

(* a death by unwinding that leaves a state some crash point leaves is classified like that crash point *)
Theorem unwound_as_crash fixed w l req :
  prefix_state_b (w_s0l w) (w_ops fixed w) l = true ->
  exists k, w_class_at fixed w (fs_of l) req = w_class fixed w k req.
Proof.
  intro H. destruct (prefix_state_spec _ _ _ H) as [k Hk]. exists k.
  rewrite w_class_at_prefix, w_s0_list. apply w_class_at_ext. exact Hk.
Qed.

(* ... so for the creation of a catalog it recovers as an error or as the complete new catalog *)
Theorem unwound_create_safe ps l :
  prefix_state_b [] (ops_create ps) l = true ->
  In (recover_cat true (fs_of l)) [Err; recover_cat true (apply (ops_create ps) empty_fs)].
Proof.
  intro H. destruct (prefix_state_spec _ _ _ H) as [k Hk].
  rewrite (recover_cat_ext true (fs_of l) _ Hk). apply (crash_safe_create ps empty_fs k). reflexivity.
Qed.

Theorem unwound_overwrite_safe l0 order ps l :
  wf_cat (fs_of l0) -> valid_order_b l0 order = true ->
  prefix_state_b l0 (ops_overwrite order ps) l = true ->
  In (recover_cat true (fs_of l)) [Err; recover_cat true (fs_of l0); recover_cat true (apply (ops_overwrite order ps) (fs_of l0))].
Proof.
  intros Hwf Hval H. destruct (prefix_state_spec _ _ _ H) as [k Hk].
  rewrite (recover_cat_ext true (fs_of l) _ Hk). apply (crash_safe_overwrite l0 order ps k Hwf Hval).
Qed.

(* the abort path of the creation: the operations issued are a prefix of those of the uninterrupted run *)
Lemma ops_pieces_firstn : forall ps acc j, exists k,
  fst (ops_pieces acc (firstn j ps)) = firstn k (fst (ops_pieces acc ps)).
Proof.
  induction ps as [|[p rs] ps IH]; intros acc j.
  - exists 0. destruct j; reflexivity.
  - destruct j as [|j]; [exists 0; reflexivity|]. simpl.
    destruct (acc_get acc p) as [old|].
    + destruct (IH (acc_set acc p (old ++ rs)) j) as [k Hk]. exists (S k).
      destruct (ops_pieces (acc_set acc p (old ++ rs)) (firstn j ps)), (ops_pieces (acc_set acc p (old ++ rs)) ps).
      simpl in *. rewrite Hk. reflexivity.
    + destruct (IH (acc_set acc p rs) j) as [k Hk]. exists (4 + k).
      destruct (ops_pieces (acc_set acc p rs) (firstn j ps)), (ops_pieces (acc_set acc p rs) ps).
      simpl in *. rewrite Hk. reflexivity.
Qed.

Lemma firstn_firstn_app {A} k (l1 l2 : list A) : firstn k l1 = firstn (min k (length l1)) (l1 ++ l2).
Proof.
  rewrite firstn_app. replace (min k (length l1) - length l1) with 0 by lia. simpl. rewrite app_nil_r.
  destruct (Nat.le_ge_cases k (length l1)).
  - rewrite Nat.min_l by assumption. reflexivity.
  - rewrite Nat.min_r by assumption. rewrite !firstn_all2; auto.
Qed.

Theorem unwound_create_prefix j ps : exists k, ops_create_unwound false j ps = firstn k (ops_create ps).
Proof.
  unfold ops_create_unwound, ops_create, ops_create_body. rewrite app_nil_r.
  destruct (ops_pieces_firstn ps [] j) as [k Hk]. rewrite Hk.
  exists (min (S k) (length (Put PRoot Dir :: fst (ops_pieces [] ps)))).
  rewrite <- firstn_firstn_app. reflexivity.
Qed.

(* directly: without the code of the regular end no patch_ids.bin appears, the next use is an error *)
Theorem unwound_create_err strict j ps s0 :
  s0 PIds = None -> recover_cat strict (apply (ops_create_unwound false j ps) s0) = Err.
Proof.
  intro H0. apply recover_no_ids. unfold ops_create_unwound. rewrite app_nil_r.
  rewrite apply_untouched; [exact H0|apply create_body_touch].
Qed.

Theorem unwound_overwrite_err strict l order j ps :
  wf_cat (fs_of l) -> valid_order_b l order = true ->
  recover_cat strict (apply (ops_overwrite_unwound false order j ps) (fs_of l)) = Err.
Proof.
  intros Hwf Hval. unfold ops_overwrite_unwound. rewrite apply_app. apply unwound_create_err.
  apply del_gone. destruct (wf_cat_inv _ Hwf) as [r [ids [_ [Hi _]]]].
  apply fs_of_in in Hi. unfold valid_order_b in Hval. apply andb_true_iff in Hval. destruct Hval as [Hc _].
  unfold covers in Hc. rewrite forallb_forall in Hc. apply mem_path_In. apply (Hc _ Hi).
Qed.

(* the regular end on the abort path: interrupted after 2 of 3 pieces the directory opens without an error, with a
   part of the records; no crash point of the uninterrupted run leaves that state *)
Definition s_unwound_fin : list (path * content) :=
  [(PRoot, Dir); (PDir 0, Dir); (PData 0, DataF true [0; 1]); (PDir 1, Dir); (PData 1, DataF true [2]); (PIds, IdsF [0; 1])].
Theorem finalize_on_abort_refuted :
  (forall q, apply (ops_create_unwound true 2 ps_demo) empty_fs q = fs_of s_unwound_fin q) /\
  recover_cat true (fs_of s_unwound_fin) = Ok [(0, [0; 1]); (1, [2])] /\
  recover_cat true (apply (ops_create ps_demo) empty_fs) = Ok [(0, [0; 1; 3]); (1, [2])] /\
  prefix_state_b [] (ops_create ps_demo) s_unwound_fin = false /\
  w_class_at true (WCreate ps_demo) (fs_of s_unwound_fin) 0 = 1.
Proof.
  split; [|vm_compute; repeat split].
  intro q. destruct q as [| |[|[|i]]|[|[|i]]|i|i|i| | | | |n|]; reflexivity.
Qed.

(* ------------------------------------------------------------------ mixed forms *)
Lemma w_class2_same b w k req : w_class2 b b w k req = w_class b w k req.
Proof. destruct w; reflexivity. Qed.
Lemma w_class_at2_same b w s req : w_class_at2 b b w s req = w_class_at b w s req.
Proof. destruct w; reflexivity. Qed.
Lemma c08_case2_same b w k req c : c08_case2 b b w k req c = c08_case b w k req c.
Proof. unfold c08_case2, c08_case. rewrite w_class2_same. reflexivity. Qed.
Lemma c08_unwound2_same b w l req c chk : c08_unwound2 b b w l req c chk = c08_unwound b w l req c chk.
Proof. unfold c08_unwound2, c08_unwound. rewrite w_class_at2_same. reflexivity. Qed.
