(* proofs about Model/PatchIds.v *)
From Verif Require Import PatchData PatchDataP PatchIds.
From Coq Require Import List NArith ZArith Bool Lia Arith Sorting.Mergesort Sorting.Sorted Permutation.
Import ListNotations.
Open Scope N_scope.

Lemma id_bytes_read id t : id_ok id = true -> read_pairs (id_bytes id ++ t) = Z.of_nat id :: read_pairs t.
Proof.
  intro H. unfold id_ok in H. apply N.ltb_lt in H. unfold id_bytes.
  rewrite N.mod_small by lia. set (v := N.of_nat id) in *.
  rewrite !le_bytes_S. cbn [le_bytes app read_pairs]. f_equal.
  unfold int16_of.
  assert (E : v mod 256 + 256 * (v / 256 mod 256) = v).
  { rewrite (N.mod_small (v / 256) 256) by (apply N.div_lt_upper_bound; lia).
    rewrite N.add_comm. symmetry. apply N.div_mod. discriminate. }
  rewrite E. assert (Hlt : (v <? 32768) = true) by (apply N.ltb_lt; exact H). rewrite Hlt.
  unfold v. apply nat_N_Z.
Qed.

Lemma read_pairs_ids l : forallb id_ok l = true -> read_pairs (flat_map id_bytes l) = map Z.of_nat l.
Proof.
  induction l as [|id t IH]; intro H; [reflexivity|]. cbn [forallb] in H. apply andb_true_iff in H as [Hi Ht].
  cbn [flat_map map]. rewrite id_bytes_read by exact Hi. rewrite IH by exact Ht. reflexivity.
Qed.

Lemma forallb_perm {A} (f : A -> bool) l l' : Permutation l l' -> forallb f l = true -> forallb f l' = true.
Proof.
  intros Hp H. apply forallb_forall. intros x Hx. rewrite forallb_forall in H. apply H.
  eapply Permutation_in; [symmetry; exact Hp|exact Hx].
Qed.

(* what is read back is the writers' keys, each once, in ascending order *)
Theorem ids_roundtrip ids :
  ids <> [] -> forallb id_ok ids = true -> read_ids (ids_file ids) = Some (map Z.of_nat (sort_ids ids)).
Proof.
  intros Hne Hok. unfold read_ids, ids_file.
  assert (Hp : Permutation ids (sort_ids ids)) by apply NatSort.Permuted_sort.
  rewrite read_pairs_ids by (eapply forallb_perm; eassumption).
  destruct (sort_ids ids) as [|x t] eqn:E; [|reflexivity].
  apply Permutation_length in Hp. destruct ids; [congruence|simpl in Hp; discriminate].
Qed.

Theorem ids_sorted_permutation ids :
  Permutation ids (sort_ids ids) /\ Sorted (fun x y => is_true (x <=? y)%nat) (sort_ids ids).
Proof. split; [apply NatSort.Permuted_sort|apply NatSort.Sorted_sort]. Qed.

(* an id beyond int16 does not come back: it wraps *)
Theorem id_above_int16_refuted : exists id, read_ids (ids_file [id]) <> Some [Z.of_nat id].
Proof. exists (N.to_nat 40000). vm_compute. discriminate. Qed.

(* a file cut after m bytes reads back as the first m/2 ids - silently, unless fewer than two bytes are left *)
Lemma read_pairs_firstn m : forall bs, read_pairs (firstn m bs) = firstn (Nat.div2 m) (read_pairs bs).
Proof.
  induction m as [m IH] using lt_wf_ind. intro bs.
  destruct m as [|[|m']].
  - reflexivity.
  - destruct bs as [|b t]; [reflexivity|]. cbn [firstn Nat.div2]. destruct t; reflexivity.
  - destruct bs as [|lo [|hi t]].
    + reflexivity.
    + cbn [firstn read_pairs]. destruct m'; reflexivity.
    + cbn [firstn read_pairs Nat.div2]. rewrite (IH m') by lia. reflexivity.
Qed.

Theorem ids_file_cut ids m :
  forallb id_ok ids = true ->
  read_pairs (firstn m (ids_file ids)) = firstn (Nat.div2 m) (map Z.of_nat (sort_ids ids)).
Proof.
  intro Hok. rewrite read_pairs_firstn. unfold ids_file. rewrite read_pairs_ids; [reflexivity|].
  eapply forallb_perm; [apply NatSort.Permuted_sort|exact Hok].
Qed.

Corollary ids_file_cut_short ids m : (m < 2)%nat -> read_ids (firstn m (ids_file ids)) = None.
Proof.
  intro H. unfold read_ids. rewrite read_pairs_firstn.
  destruct m as [|[|m']]; [reflexivity|reflexivity|lia].
Qed.
