(* C04, the documented n(z) formula over the reals:  n = w_sp / sqrt(dz^2 * w_ss * w_pp).
   The executable model (Model/Estimators.v) is over Q and therefore states the formula in squared form
   with the sign of w_sp (EstimatorsP.nz_def, nz_sq_unique); this file shows that the real-valued
   formula with the square root is exactly the value characterised by that squared form. *)
From Coq Require Import Reals Lra.
Open Scope R_scope.

Definition nzR (wsp dz wss wpp : R) : R := wsp / sqrt (dz * dz * wss * wpp).

Theorem nz_sqrt_form (wsp dz wss wpp : R) :
  0 < dz * dz * wss * wpp ->
  let y := nzR wsp dz wss wpp in
  y * y * (dz * dz * wss * wpp) = wsp * wsp /\ (0 <= wsp -> 0 <= y) /\ (wsp <= 0 -> y <= 0).
Proof.
  intros Hr y. unfold y, nzR. set (rad := dz * dz * wss * wpp) in *.
  assert (Hs : 0 < sqrt rad) by (apply sqrt_lt_R0; exact Hr).
  assert (Hsq : sqrt rad * sqrt rad = rad) by (apply sqrt_sqrt; lra).
  split; [|split].
  - unfold Rdiv. replace (wsp * / sqrt rad * (wsp * / sqrt rad) * rad)
      with (wsp * wsp * (rad * (/ sqrt rad * / sqrt rad))) by ring.
    rewrite <- Hsq at 1. replace (sqrt rad * sqrt rad * (/ sqrt rad * / sqrt rad)) with 1 by (field; lra). ring.
  - intro H. apply Rmult_le_pos; [exact H|]. left. apply Rinv_0_lt_compat. exact Hs.
  - intro H. unfold Rdiv. assert (0 < / sqrt rad) by (apply Rinv_0_lt_compat; exact Hs). nra.
Qed.

(* ... and it is the only such value *)
Theorem nz_sqrt_unique (wsp dz wss wpp y : R) :
  0 < dz * dz * wss * wpp ->
  y * y * (dz * dz * wss * wpp) = wsp * wsp -> (0 <= wsp -> 0 <= y) -> (wsp <= 0 -> y <= 0) ->
  y = nzR wsp dz wss wpp.
Proof.
  intros Hr Hy Hp Hn. destruct (nz_sqrt_form wsp dz wss wpp Hr) as [E [P N]].
  set (z := nzR wsp dz wss wpp) in *. set (rad := dz * dz * wss * wpp) in *.
  assert (Hyz : y * y = z * z).
  { apply (Rmult_eq_reg_r rad); [rewrite Hy, E; reflexivity|lra]. }
  destruct (Rle_or_lt 0 wsp) as [Hw|Hw].
  - specialize (Hp Hw). specialize (P Hw). nra.
  - assert (Hw' : wsp <= 0) by lra. specialize (Hn Hw'). specialize (N Hw'). nra.
Qed.
