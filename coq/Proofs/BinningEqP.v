(* C10, near-equal binnings: which comparisons of binnings may decide that cached trees are kept.
   Models: Model/BinningEq.v (on top of Model/Binning.v), reused lemmas: Proofs/BinningP.v. *)
From Verif Require Import Prelude Binning BinningP BinningEq.
Require Import Lqa.
Open Scope Q_scope.

(* ---------- the exact comparison ---------- *)

(* binnings that are EXACTLY equal (closed side, every edge) put every redshift into the same bins *)
Theorem eq_exact_sound : cmp_sound binning_eqb.
Proof. intros [cr e] [cr' e'] H k z. simpl. apply transport_sound. exact H. Qed.

Lemma digitize_qeq cr e' e z :
  length e' = length e -> (forall k, nth k e' 0 == nth k e 0) -> digitize cr e' z = digitize cr e z.
Proof.
  revert e. induction e' as [|x e' IH]; intros [|y e] Hl Hn; simpl in Hl; try discriminate; [reflexivity|].
  simpl. pose proof (Hn 0%nat) as H0. simpl in H0.
  assert (P : passb cr x z = passb cr y z).
  { apply Bool.eq_iff_eq_true. rewrite !passb_true. destruct cr; rewrite H0; reflexivity. }
  rewrite P. destruct (passb cr y z); [|reflexivity]. f_equal. apply IH; [lia|].
  intro k. exact (Hn (S k)).
Qed.

(* ... and give the same trees, object for object *)
Lemma trees_for_eqb hasw k' k objs : bkey_eqb k' k = true -> trees_for hasw k' objs = trees_for hasw k objs.
Proof.
  destruct k' as [[cr' e']|], k as [[cr e]|]; simpl; try discriminate; [|reflexivity].
  intro H. apply binning_eqb_props in H. destruct H as [Hc [Hl Hn]]. subst cr'.
  assert (Hnb : nbins e' = nbins e) by (unfold nbins; lia).
  unfold build_trees_fix. rewrite Hnb. apply map_ext. intro b.
  unfold get_tree, group. rewrite Hnb.
  assert (G : filter (fun o => (digitize cr e' (oz o) =? S b)%nat) objs =
              filter (fun o => (digitize cr e (oz o) =? S b)%nat) objs).
  { apply filter_ext. intro o. rewrite (digitize_qeq cr e' e (oz o) Hl Hn). reflexivity. }
  rewrite G. reflexivity.
Qed.

(* the parametrised cache decision with the exact comparison IS Model/Binning.v's cache *)
Lemma patch_build_by_exact hasw force k objs c :
  patch_build_by bkey_eqb hasw force k objs c = patch_build hasw force k objs c.
Proof. destruct c as [[k' t]|]; reflexivity. Qed.

Lemma cat_build_by_exact hasw force k patches c :
  cat_build_by bkey_eqb hasw force k patches c = cat_build hasw force k patches c.
Proof.
  revert c. induction patches as [|o ps IH]; intros [|e cs]; simpl; try reflexivity.
  rewrite patch_build_by_exact, IH. reflexivity.
Qed.

(* sufficiency: a comparison that answers `equal` only for exactly equal binnings keeps cached trees only
   when they ARE the trees of the binning requested now *)
Theorem cache_cmp_sufficient eqk :
  (forall k' k, eqk k' k = true -> bkey_eqb k' k = true) -> cache_correct eqk.
Proof.
  intros Hsub hasw k objs c Hv. unfold patch_build_by. destruct c as [[k' t]|]; simpl.
  - destruct (eqk k' k) eqn:E; simpl.
    + exists k'. simpl in Hv. rewrite Hv. rewrite (trees_for_eqb hasw k' k objs (Hsub _ _ E)). reflexivity.
    + exists k. reflexivity.
  - exists k. reflexivity.
Qed.

Corollary cache_exact_correct : cache_correct bkey_eqb.
Proof. apply cache_cmp_sufficient. intros k' k H. exact H. Qed.

(* ---------- necessity: nothing coarser than the exact comparison is correct ---------- *)
Lemma qlist_eqb_of_nth l1 l2 :
  length l1 = length l2 -> (forall k, (k < length l1)%nat -> nth k l1 0 == nth k l2 0) -> qlist_eqb l1 l2 = true.
Proof.
  unfold qlist_eqb. revert l2. induction l1 as [|x l1 IH]; intros [|y l2] Hl Hn; simpl in Hl; try discriminate; [reflexivity|].
  simpl. apply andb_true_iff. split.
  - apply Qeq_bool_iff. apply (Hn 0%nat). simpl. lia.
  - apply IH; [lia|]. intros k Hk. apply (Hn (S k)). simpl. lia.
Qed.

Lemma binning_ok_spec a : binning_ok a = true -> increasing (snd a) /\ (2 <= length (snd a))%nat.
Proof.
  unfold binning_ok. rewrite andb_true_iff. intros [Hi Hl].
  split; [apply increasingb_spec; exact Hi|apply Nat.leb_le; exact Hl].
Qed.

Lemma spec_count_single cr e z w b :
  spec_count cr e [(z, w)] b = if memberb cr e b z then 1%nat else 0%nat.
Proof. unfold spec_count, spec_group. simpl. unfold oz. simpl. destruct (memberb cr e b z); reflexivity. Qed.

Theorem cache_cmp_exact_only eqk a b :
  cache_correct eqk -> binning_ok a = true -> binning_ok b = true ->
  eqk (Some a) (Some b) = true -> binning_eqb a b = true.
Proof.
  intros Hc Ha Hb E.
  (* trees cached for a are kept when b is requested, so they have to be b's trees, for every patch *)
  assert (T : forall z, trees_for false (Some a) [(z, 1)] = trees_for false (Some b) [(z, 1)]).
  { intro z.
    destruct (Hc false (Some b) [(z, 1)] (Some (Some a, trees_for false (Some a) [(z, 1)]))) as [k' Hk'].
    - simpl. reflexivity.
    - unfold patch_build_by, needs_rebuild_by in Hk'. rewrite E in Hk'. cbn [orb negb] in Hk'.
      injection Hk' as _ Ht. exact Ht. }
  destruct a as [cr e], b as [cr' e']. simpl in T.
  apply binning_ok_spec in Ha. apply binning_ok_spec in Hb. simpl in Ha, Hb.
  destruct Ha as [Hi Hl], Hb as [Hi' Hl'].
  assert (Hlen : length e = length e').
  { pose proof (trees_partition false cr e [(0, 1)] Hi Hl) as [L _].
    pose proof (trees_partition false cr' e' [(0, 1)] Hi' Hl') as [L' _].
    rewrite (T 0) in L. rewrite L in L'. unfold nbins in L'. lia. }
  assert (M : forall k z, member cr e k z <-> member cr' e' k z).
  { intros k z. destruct (Nat.lt_ge_cases k (nbins e)) as [Hk|Hk].
    - pose proof (trees_partition false cr e [(z, 1)] Hi Hl) as [_ [B _]].
      pose proof (trees_partition false cr' e' [(z, 1)] Hi' Hl') as [_ [B' _]].
      assert (Hk' : (k < nbins e')%nat) by (unfold nbins in *; lia).
      destruct (B k Hk) as [_ [_ [F _]]]. destruct (B' k Hk') as [_ [_ [F' _]]].
      rewrite (T z) in F. rewrite F in F'. rewrite !spec_count_single in F'.
      rewrite <- !memberb_spec.
      destruct (memberb cr e k z), (memberb cr' e' k z); try discriminate F'; tauto.
    - unfold nbins in Hk. unfold member. rewrite <- Hlen. split; intros [Hlt _]; lia. }
  destruct (member_determines_binning cr cr' e e' Hi Hi' Hl Hl' M) as [Hcr [_ He]].
  unfold binning_eqb. simpl. subst cr'. rewrite Bool.eqb_reflx. simpl.
  apply qlist_eqb_of_nth; [exact Hlen|]. intros k Hk. apply (He k Hk).
Qed.

(* both directions in one statement, for valid binnings: a comparison is correct for the cache exactly when
   `equal` implies exactly equal *)
Corollary cache_correct_iff eqk :
  (forall k' k, eqk k' k = true -> match k', k with
                                    | Some a, Some b => binning_ok a = true /\ binning_ok b = true
                                    | None, None => True
                                    | _, _ => False end) ->
  (cache_correct eqk <-> forall k' k, eqk k' k = true -> bkey_eqb k' k = true).
Proof.
  intro Hdom. split.
  - intros Hc k' k E. pose proof (Hdom _ _ E) as D.
    destruct k' as [a|], k as [b|]; simpl; try contradiction; [|reflexivity].
    destruct D as [Da Db]. exact (cache_cmp_exact_only eqk a b Hc Da Db E).
  - apply cache_cmp_sufficient.
Qed.

(* ---------- every tolerant comparison is unsound ---------- *)
Lemma qclose2_refl rtol atol x : 0 <= rtol -> 0 <= atol -> qclose2 rtol atol x x = true.
Proof.
  intros Hr Ha. unfold qclose2. apply Qleb_le.
  assert (E : Qabs (x - x) == 0).
  { assert (Z0 : x - x == 0) by ring. rewrite Z0. reflexivity. }
  rewrite E. pose proof (Qabs_nonneg x) as N.
  assert (0 <= rtol * Qabs x) by (apply Qmult_le_0_compat; assumption). lra.
Qed.

(* whatever the tolerance (relative, absolute or both, as long as one of them is positive) there are two
   valid binnings of the same length and closed side that compare equal although a redshift lying exactly
   on an edge of the first belongs to different bins of the two *)
Theorem close_refuted rtol atol :
  0 <= rtol -> 0 <= atol -> 0 < rtol + atol ->
  exists a b z, binning_ok a = true /\ binning_ok b = true /\ length (snd a) = length (snd b) /\ fst a = fst b /\
    binning_close rtol atol a b = true /\
    member (fst a) (snd a) 1 z /\ ~ member (fst b) (snd b) 1 z /\ member (fst b) (snd b) 0 z.
Proof.
  intros Hr Ha Hpos.
  assert (W : exists d, 0 < d /\ d < 1 /\ d <= atol + rtol * 2).
  { destruct (Qlt_le_dec (atol + rtol * 2) (1#2)) as [L|L].
    - exists (atol + rtol * 2). repeat split; lra.
    - exists (1#2). repeat split; lra. }
  destruct W as [d [D0 [D1 Dt]]].
  exists (false, [1; 2; 3]), (false, [1; 2 + d; 3]), 2. simpl.
  assert (OKb : binning_ok (false, [1; 2 + d; 3]) = true).
  { unfold binning_ok. simpl. rewrite !andb_true_iff. repeat split; try reflexivity; apply Qltb_lt; lra. }
  split; [reflexivity|]. split; [exact OKb|]. split; [reflexivity|]. split; [reflexivity|].
  split.
  - unfold binning_close, qlist_close2. simpl. rewrite !andb_true_iff.
    repeat split; try (apply qclose2_refl; assumption).
    unfold qclose2. apply Qleb_le.
    assert (E1 : Qabs (2 - (2 + d)) == d).
    { assert (Z0 : 2 - (2 + d) == - d) by ring. rewrite Z0. rewrite Qabs_opp. apply Qabs_pos. lra. }
    assert (E2 : Qabs (2 + d) == 2 + d) by (apply Qabs_pos; lra).
    rewrite E1, E2.
    assert (P : 0 <= rtol * d) by (apply Qmult_le_0_compat; lra).
    assert (R : rtol * (2 + d) == rtol * 2 + rtol * d) by ring.
    rewrite R. lra.
  - unfold member, edge. simpl. split; [split; [lia|lra]|]. split.
    + intros [_ [A _]]. lra.
    + split; [lia|lra].
Qed.

(* the tolerance of the size of float64 round-off is enough: np.linspace(0.1, 0.4, 4) against the same edges
   typed by hand differ in one unit in the last place at 0.3; they compare equal with rtol = 10^-9, are not
   equal, and the redshift 0.3 (the float64 value) lies in bin 2 of the typed edges, in bin 1 of the generated *)
Definition e_linspace : list Q :=
  [3602879701896397 # 36028797018963968; 3602879701896397 # 18014398509481984;
   1351079888211149 # 4503599627370496; 3602879701896397 # 9007199254740992].
Definition e_typed : list Q :=
  [3602879701896397 # 36028797018963968; 3602879701896397 # 18014398509481984;
   5404319552844595 # 18014398509481984; 3602879701896397 # 9007199254740992].
Definition z_03 : Q := 5404319552844595 # 18014398509481984.

Theorem close_refuted_ulp :
  binning_ok (false, e_linspace) = true /\ binning_ok (false, e_typed) = true /\
  binning_close (1 # 1000000000) 0 (false, e_linspace) (false, e_typed) = true /\
  binning_eqb (false, e_linspace) (false, e_typed) = false /\
  memberb false e_linspace 1 z_03 = true /\ memberb false e_typed 2 z_03 = true /\
  memberb false e_typed 1 z_03 = false.
Proof. vm_compute. repeat split; reflexivity. Qed.

(* the cache with that tolerant comparison: trees built for the generated edges are kept when the typed edges
   are requested; the object with redshift 0.3 stays in bin 1, the closed-side rule of the REQUESTED edges puts
   it into bin 2; the exact comparison rebuilds *)
Theorem cache_close_refuted :
  exists patches ka kb,
    let tol := bkey_close (1 # 1000000000) 0 in
    let pre := cat_build true false ka patches (cache_init (length patches)) in
    cache_valid true patches pre /\
    tol ka kb = true /\ bkey_eqb ka kb = false /\
    cat_build_by tol true false kb patches pre = pre /\
    map entry_trees (cat_build_by tol true false kb patches pre) <> map (fun o => Some (spec_trees_for true kb o)) patches /\
    map entry_trees (cat_build true false kb patches pre) = map (fun o => Some (spec_trees_for true kb o)) patches /\
    ~ cache_correct tol.
Proof.
  exists [[(z_03, 2); (1 # 4, 4)]; [(z_03, 8)]], (Some (false, e_linspace)), (Some (false, e_typed)).
  cbv zeta.
  split.
  { apply cat_build_valid. apply cache_init_valid. }
  split; [vm_compute; reflexivity|]. split; [vm_compute; reflexivity|].
  split; [vm_compute; reflexivity|].
  split; [vm_compute; intro H; discriminate H|].
  split; [vm_compute; reflexivity|].
  intro Hc.
  destruct (Hc true (Some (false, e_typed)) [(z_03, 8)]
               (Some (Some (false, e_linspace), trees_for true (Some (false, e_linspace)) [(z_03, 8)])))
    as [k' Hk']; [simpl; reflexivity|].
  vm_compute in Hk'. discriminate Hk'.
Qed.

(* ---------- the checker evaluated on every observed comparison ---------- *)
Theorem eq_case_sound cr e cr' e' ie ine ic :
  c10_eq_case cr e cr' e' ie ine ic = 0%nat ->
  increasing e /\ increasing e' /\
  ie = binning_eqb (cr, e) (cr', e') /\ ine = negb ie /\
  (forall c, ic = Some c -> c = ie) /\
  (ie = true -> forall k z, member cr e k z <-> member cr' e' k z).
Proof.
  unfold c10_eq_case, code. intro H. apply code_from_zero in H; [|lia].
  simpl in H. rewrite !andb_true_iff in H.
  destruct H as [H0 [H1 [H2 [_ [[H4 H4'] _]]]]].
  apply Bool.eqb_prop in H0. apply Bool.eqb_prop in H1.
  apply binning_ok_spec in H4. apply binning_ok_spec in H4'. simpl in H4, H4'.
  split; [tauto|]. split; [tauto|]. split; [exact H0|]. split; [rewrite H1, H0; reflexivity|].
  split.
  - intros c Hic. subst ic. apply Bool.eqb_prop in H2. rewrite H2, H0. reflexivity.
  - intro Hie. apply transport_sound. rewrite <- H0. exact Hie.
Qed.
