From Verif Require Import Mantissa.
From Coq Require Import ZArith Lia.
Open Scope Z_scope.

Theorem exact_below p z : 0 <= z < 2 ^ p -> keep_bits p z = z.
Proof. intros [_ H]. unfold keep_bits. apply Z.ltb_lt in H. rewrite H. reflexivity. Qed.

(* every count a measurement can produce below 2^53 pairs is held exactly in float64, and so are sums and differences of
   such counts as long as they stay below 2^53: the delete-one totals are exact *)
Theorem loo_exact_in_float64 total involved :
  0 <= involved <= total -> total < 2 ^ 53 ->
  keep_bits 53 (loo (keep_bits 53 total) (keep_bits 53 involved)) = total - involved.
Proof.
  intros H1 H2. rewrite (exact_below 53 total) by lia. rewrite (exact_below 53 involved) by lia.
  unfold loo. apply exact_below. lia.
Qed.

(* a 24-bit significand loses the count 2^24 + 1, and with it a delete-one total *)
Theorem float32_count_refuted : keep_bits 24 (2 ^ 24 + 1) <> 2 ^ 24 + 1 /\ keep_bits 53 (2 ^ 24 + 1) = 2 ^ 24 + 1.
Proof. vm_compute. split; [discriminate|reflexivity]. Qed.
Theorem float32_loo_refuted :
  exists total involved, 0 <= involved <= total /\ total < 2 ^ 53 /\
    loo (keep_bits 24 total) (keep_bits 24 involved) <> total - involved.
Proof. exists (2 ^ 24 + 1), 1. vm_compute. repeat split; discriminate. Qed.
