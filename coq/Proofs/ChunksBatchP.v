From Verif Require Import Prelude Chunks ChunksBatch.

(* with row groups of ONE size the single request fetches what the loop would *)
Example batch_agrees_on_uniform_groups :
  let groups := [[1; 2; 3]; [4; 5; 6]; [7; 8; 9]; [10; 11; 12]; [13; 14]] in
  parquet_chunks_batch 5 groups = parquet_chunks 5 groups /\ concat (parquet_chunks 5 groups) = concat groups.
Proof. vm_compute. split; reflexivity. Qed.

(* with groups of 3 rows and 1 row in turn and chunks of 5 rows every request fetches 3 + 1 rows: every chunk is one row
   short, the pass ends after ceil(n / 5) chunks and the last rows are never delivered - while the loop delivers every row *)
Theorem batch_loses_rows_refuted :
  exists (cs : nat) (groups : list (list nat)),
    concat (parquet_chunks cs groups) = concat groups /\
    concat (parquet_chunks_batch cs groups) <> concat groups /\
    length (concat (parquet_chunks_batch cs groups)) < length (concat groups).
Proof.
  exists 5, (alternating 6 0). vm_compute. repeat split; [discriminate|repeat constructor].
Qed.
