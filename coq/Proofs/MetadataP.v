From Verif Require Import Prelude Metadata.
Open Scope Q_scope.

Lemma fold_max_ge_init (r : list Q) x : x <= fold_left (fun a b => if Qleb a b then b else a) r x.
Proof.
  revert x. induction r as [|y r IH]; intros x; simpl; [apply Qle_refl|].
  destruct (Qleb x y) eqn:E.
  - eapply Qle_trans; [apply Qle_bool_iff; exact E|apply IH].
  - apply IH.
Qed.

Lemma fold_max_ge (r : list Q) x d : In d r -> d <= fold_left (fun a b => if Qleb a b then b else a) r x.
Proof.
  revert x. induction r as [|y r IH]; intros x []; simpl.
  - subst. destruct (Qleb x d) eqn:E; [apply fold_max_ge_init|].
    eapply Qle_trans; [|apply fold_max_ge_init].
    apply Qlt_le_weak, Qnot_le_lt. intro H. apply Qle_bool_iff in H. unfold Qleb in E. congruence.
  - apply IH. assumption.
Qed.

(* every record lies within the stored radius (the maximum distance) *)
Theorem radius_covers dists ws d : In d dists -> d <= radius (compute dists ws).
Proof.
  unfold compute, qmaxl; simpl. destruct dists as [|x r]; intros []; subst.
  - apply fold_max_ge_init.
  - apply fold_max_ge. assumption.
Qed.

(* … and it is attained: the radius is one of the distances (non-empty patch) *)
Lemma fold_max_in (r : list Q) x :
  let m := fold_left (fun a b => if Qleb a b then b else a) r x in m = x \/ In m r.
Proof.
  revert x. induction r as [|y r IH]; intros x; simpl; [left; reflexivity|].
  destruct (Qleb x y).
  - destruct (IH y) as [H|H]; [right; left; symmetry; exact H|right; right; exact H].
  - destruct (IH x) as [H|H]; [left; exact H|right; right; exact H].
Qed.
Theorem radius_attained dists ws : dists <> [] -> In (radius (compute dists ws)) dists.
Proof.
  unfold compute, qmaxl; simpl. destruct dists as [|x r]; [congruence|]. intros _.
  destruct (fold_max_in r x) as [H|H]; [left; symmetry; exact H|right; exact H].
Qed.

Theorem meta_counts dists ws :
  num_records (compute dists ws) = length dists /\
  sum_weights (compute dists ws) == match ws with None => inject_Z (Z.of_nat (length dists)) | Some w => qsum w end.
Proof. split; reflexivity. Qed.

Lemma map_fst_combine' {A B} (l : list A) : forall (l' : list B),
  length l = length l' -> map fst (combine l l') = l.
Proof. induction l as [|x l IH]; intros [|y l'] H; simpl in *; try reflexivity; try discriminate. f_equal. apply IH. congruence. Qed.
Lemma map_snd_combine' {A B} (l : list A) : forall (l' : list B),
  length l = length l' -> map snd (combine l l') = l'.
Proof. induction l as [|x l IH]; intros [|y l'] H; simpl in *; try reflexivity; try discriminate. f_equal. apply IH. congruence. Qed.

(* repaired pairing: a returned pairing has ids 0..N-1 and centre i is the i-th given one *)
Theorem centres_in_order {C} (ids : list nat) (centres : list C) prs (d : C) :
  pair_centres_fix ids centres = Some prs ->
  map fst prs = seq 0 (length centres) /\
  forall i, (i < length centres)%nat -> nth i (map snd prs) d = nth i centres d.
Proof.
  unfold pair_centres_fix. destruct (nlist_eqb ids (seq 0 (length centres))) eqn:E; [|discriminate].
  intros H; inversion H; subst prs. apply nlist_eqb_eq in E. subst ids.
  assert (L : length (seq 0 (length centres)) = length centres) by apply seq_length.
  split.
  - apply map_fst_combine'. exact L.
  - intros i _. rewrite map_snd_combine' by exact L. reflexivity.
Qed.

(* pinned pairing: a centre that attracts nothing shifts every later centre *)
Theorem zip_misaligned_refuted :
  exists (ids : list nat) (centres : list nat),
    (* centres named by their index; patch 1 got no object, so ids = [0;2] *)
    pair_centres_cur ids centres = [(0%nat, 0%nat); (2%nat, 1%nat)] /\ pair_centres_fix ids centres = None.
Proof. exists [0%nat; 2%nat], [0%nat; 1%nat; 2%nat]. split; reflexivity. Qed.

(* the guard refuses differing id sets and any centre pair farther apart than rtol * radius;
   with rtol <= 1 this includes "farther apart than the patch radius" *)
Theorem guard_refuses ids1 ids2 dists radii rtol :
  guard ids1 ids2 dists radii rtol = true ->
  ids1 = ids2 /\ forall dr, In dr (combine dists radii) -> fst dr <= rtol * snd dr.
Proof.
  unfold guard. intros H. apply andb_true_iff in H as [H1 H2]. split; [apply nlist_eqb_eq; exact H1|].
  intros dr Hin. apply (proj1 (forallb_forall _ _) H2) in Hin. apply Qle_bool_iff. exact Hin.
Qed.

Corollary guard_refuses_beyond_radius ids1 ids2 dists radii rtol d r :
  0 <= rtol -> rtol <= 1 -> 0 <= r -> In (d, r) (combine dists radii) -> r < d ->
  guard ids1 ids2 dists radii rtol = false.
Proof.
  intros H0 H1 Hr Hin Hd. destruct (guard ids1 ids2 dists radii rtol) eqn:E; [|reflexivity].
  apply guard_refuses in E as [_ E]. specialize (E (d, r) Hin). simpl in E.
  exfalso. apply (Qlt_not_le _ _ Hd). eapply Qle_trans; [exact E|].
  rewrite <- (Qmult_1_l r) at 2. apply Qmult_le_compat_r; assumption.
Qed.

(* ================= patch-definition options and split_into_patches ================= *)
From Coq Require Import Permutation.

(* documented precedence: patch_centers > patch_name > patch_num *)
Theorem determine_precedence :
  (forall name num, determine true name num = Some Apply) /\
  (forall num, determine false true num = Some Divide) /\
  determine false false true = Some Create /\
  determine false false false = None.
Proof. repeat split. Qed.

(* the assigned centre is a nearest one … *)
Lemma argmin_lt row : row <> [] -> (argmin row < length row)%nat.
Proof.
  induction row as [|d r IH]; [congruence|]. intros _. destruct r as [|e r'].
  - simpl. lia.
  - change (argmin (d :: e :: r')) with (let k := argmin (e :: r') in if Qleb d (nth k (e :: r') 0) then 0%nat else S k).
    cbv zeta. destruct (Qleb d (nth (argmin (e :: r')) (e :: r') 0)).
    + simpl. lia.
    + assert (H : (argmin (e :: r') < length (e :: r'))%nat) by (apply IH; congruence).
      simpl length in *. lia.
Qed.

Theorem argmin_min row j : (j < length row)%nat -> nth (argmin row) row 0 <= nth j row 0.
Proof.
  revert j. induction row as [|d r IH]; intros j Hj; [simpl in Hj; lia|].
  destruct r as [|e r'].
  - simpl in Hj. assert (j = 0)%nat by lia. subst. simpl. apply Qle_refl.
  - change (argmin (d :: e :: r')) with (let k := argmin (e :: r') in if Qleb d (nth k (e :: r') 0) then 0%nat else S k).
    cbv zeta. set (k := argmin (e :: r')) in *.
    destruct (Qleb d (nth k (e :: r') 0)) eqn:E.
    + destruct j as [|j'].
      * simpl. apply Qle_refl.
      * change (d <= nth j' (e :: r') 0). eapply Qle_trans; [apply Qleb_le; exact E|].
        apply IH. simpl in Hj |- *. lia.
    + change (nth k (e :: r') 0 <= nth j (d :: e :: r') 0). destruct j as [|j'].
      * simpl nth at 2. apply Qlt_le_weak, Qnot_le_lt. intro H. apply Qleb_le in H. congruence.
      * change (nth k (e :: r') 0 <= nth j' (e :: r') 0). apply IH. simpl in Hj |- *. lia.
Qed.

(* … and a strictly nearest centre is the assigned one *)
Theorem argmin_unique row k :
  (k < length row)%nat -> (forall j, (j < length row)%nat -> j <> k -> nth k row 0 < nth j row 0) -> argmin row = k.
Proof.
  intros Hk H. destruct (Nat.eq_dec (argmin row) k) as [|N]; [assumption|exfalso].
  assert (L : (argmin row < length row)%nat) by (apply argmin_lt; destruct row; [simpl in Hk; lia|congruence]).
  specialize (H _ L N). apply (Qlt_not_le _ _ H). apply argmin_min. exact Hk.
Qed.

Lemma own_centre_nearest_spec row p :
  own_centre_nearest row p = true <-> (p < length row)%nat /\ forall j, (j < length row)%nat -> nth p row 0 <= nth j row 0.
Proof.
  unfold own_centre_nearest. rewrite andb_true_iff, Nat.ltb_lt, forallb_forall. split; intros [H1 H2]; split; try assumption.
  - intros j Hj. apply Qleb_le. apply H2. apply nth_In. exact Hj.
  - intros x Hx. apply Qleb_le. destruct (In_nth _ _ 0 Hx) as [j [Hj <-]]. apply H2. exact Hj.
Qed.

Section SplitP.
  Context {R : Type}.
  Implicit Types (f : R -> nat) (chunks : list (chunk R)).

  Lemma select_map f p (rs : list R) : select p rs (map f rs) = filter (fun r => (f r =? p)%nat) rs.
  Proof.
    unfold select. induction rs as [|r rs IH]; [reflexivity|]. simpl.
    destruct (f r =? p)%nat; simpl; rewrite IH; reflexivity.
  Qed.

  (* centres given: patch p holds exactly the input records whose nearest centre is p, in input
     order, whatever the chunking and whatever an index column says *)
  Theorem apply_partition f chunks p :
    patch_data (Some f) chunks p = Some (filter (fun r => (f r =? p)%nat) (concat (map recs chunks))).
  Proof.
    unfold patch_data. induction chunks as [|ch rest IH]; [reflexivity|].
    simpl. rewrite IH. rewrite select_map, filter_app. reflexivity.
  Qed.

  Corollary apply_ignores_column f chunks chunks' p :
    map recs chunks = map recs chunks' -> patch_data (Some f) chunks p = patch_data (Some f) chunks' p.
  Proof. intros H. rewrite !apply_partition, H. reflexivity. Qed.

  Corollary apply_any_chunking f chunks chunks' p :
    concat (map recs chunks) = concat (map recs chunks') -> patch_data (Some f) chunks p = patch_data (Some f) chunks' p.
  Proof. intros H. rewrite !apply_partition, H. reflexivity. Qed.

  Lemma in_all_recs_perm chunks chunks' r :
    Permutation chunks chunks' -> In r (concat (map recs chunks)) -> In r (concat (map recs chunks')).
  Proof.
    intros P H. apply in_concat in H as [l [Hl Hr]]. apply in_map_iff in Hl as [ch [<- Hch]].
    apply in_concat. exists (recs ch). split; [|exact Hr]. apply in_map. eapply Permutation_in; eassumption.
  Qed.

  (* … and for every order in which the (sub-)chunks of the workers reach the writer *)
  Theorem apply_belongs_any_order f chunks arrived p l r :
    Permutation arrived chunks -> patch_data (Some f) arrived p = Some l ->
    (In r l <-> In r (concat (map recs chunks)) /\ f r = p).
  Proof.
    intros P H. rewrite apply_partition in H. inversion H; subst l; clear H.
    rewrite filter_In, Nat.eqb_eq. split; intros [H1 H2]; split; try assumption.
    - eapply in_all_recs_perm; eassumption.
    - eapply in_all_recs_perm; [apply Permutation_sym|]; eassumption.
  Qed.

  (* no centres: the column decides, chunk by chunk; without a column there is no catalog *)
  Theorem divide_uses_column chunks p :
    patch_data None chunks p =
    patch_data_with (fun ch : chunk R => col ch) chunks p.
  Proof. reflexivity. Qed.
End SplitP.

(* records = rows of distances to the given centres: every record stored in patch p has centre p
   as a nearest centre (the reported centres reproduce the partition), with or without an index
   column in the input, for every chunking and arrival order *)
Theorem apply_reproduces_partition (chunks arrived : list (chunk (list Q))) p l row :
  Permutation arrived chunks -> (forall ch r, In ch chunks -> In r (recs ch) -> r <> []) ->
  patch_data (Some argmin) arrived p = Some l -> In row l -> own_centre_nearest row p = true.
Proof.
  intros P NE H Hin. apply (apply_belongs_any_order argmin chunks arrived p l row P H) in Hin as [Hin Hp].
  apply own_centre_nearest_spec. subst p.
  apply in_concat in Hin as [rs [Hrs Hr]]. apply in_map_iff in Hrs as [ch [<- Hch]].
  split; [apply argmin_lt; eapply NE; eassumption|apply argmin_min].
Qed.

(* the other statement order is not the documented one: with a column that disagrees with the
   nearest centre, patch 0 stores a record that is strictly nearer to centre 1 *)
Theorem column_first_refuted :
  exists (ch : chunk (list Q)) (row : list Q),
    patch_data_colfirst (Some argmin) [ch] 0 = Some [row] /\ own_centre_nearest row 0 = false /\
    patch_data (Some argmin) [ch] 0 = Some [] /\ patch_data (Some argmin) [ch] 1 = Some [row].
Proof. exists {| recs := [[3#4; 1#4]]; col := Some [0%nat] |}, [3#4; 1#4]. vm_compute. repeat split. Qed.

(* ================= the guard with any number of catalogs ================= *)
Lemma lex_ltb_irrefl a : lex_ltb a a = false.
Proof. induction a as [|x a IH]; simpl; [reflexivity|]. rewrite Nat.ltb_irrefl, Nat.eqb_refl, IH. reflexivity. Qed.

Lemma lex_ltb_asym a : forall b, lex_ltb a b = true -> lex_ltb b a = false.
Proof.
  induction a as [|x a IH]; intros [|y b]; simpl; intro H; try reflexivity; try discriminate.
  destruct (Nat.ltb_spec x y), (Nat.ltb_spec y x), (Nat.eqb_spec x y), (Nat.eqb_spec y x); simpl in *;
    try lia; try discriminate; try reflexivity.
  apply IH. exact H.
Qed.

Lemma lex_ge_trans a : forall b c, lex_ltb a b = false -> lex_ltb b c = false -> lex_ltb a c = false.
Proof.
  induction a as [|x a IH]; intros [|y b] [|z c]; simpl; intros H1 H2; try reflexivity; try discriminate.
  destruct (Nat.ltb_spec x y), (Nat.ltb_spec y z), (Nat.ltb_spec x z),
           (Nat.eqb_spec x y), (Nat.eqb_spec y z), (Nat.eqb_spec x z); simpl in *;
    try lia; try discriminate; try reflexivity.
  eapply IH; eassumption.
Qed.

Section SortDescP.
  Context {A : Type} (key : A -> list nat).

  Lemma insert_desc_perm x l : Permutation (insert_desc key x l) (x :: l).
  Proof.
    induction l as [|y r IH]; simpl; [apply Permutation_refl|].
    destruct (lex_ltb (key x) (key y)); [|apply Permutation_refl].
    eapply Permutation_trans; [apply perm_skip, IH|apply perm_swap].
  Qed.

  Theorem sort_desc_perm l : Permutation (sort_desc key l) l.
  Proof.
    induction l as [|x l IH]; simpl; [apply perm_nil|].
    eapply Permutation_trans; [apply insert_desc_perm|apply perm_skip, IH].
  Qed.

  Inductive sorted_desc : list A -> Prop :=
  | sd_nil : sorted_desc []
  | sd_cons x l : (forall y, In y l -> lex_ltb (key x) (key y) = false) -> sorted_desc l -> sorted_desc (x :: l).

  Lemma insert_desc_sorted x l : sorted_desc l -> sorted_desc (insert_desc key x l).
  Proof.
    induction 1 as [|y r Hy Hs IH]; simpl.
    - constructor; [intros y []|constructor].
    - destruct (lex_ltb (key x) (key y)) eqn:E.
      + constructor; [|exact IH]. intros z Hz.
        apply (Permutation_in _ (insert_desc_perm x r)) in Hz. destruct Hz as [<-|Hz].
        * apply lex_ltb_asym. exact E.
        * apply Hy. exact Hz.
      + constructor; [|constructor; assumption]. intros z [<-|Hz]; [exact E|].
        eapply lex_ge_trans; [exact E|apply Hy; exact Hz].
  Qed.

  Lemma sort_desc_sorted l : sorted_desc (sort_desc key l).
  Proof. induction l as [|x l IH]; simpl; [constructor|apply insert_desc_sorted, IH]. Qed.

  (* the first element of the sorted list has a maximal key *)
  Theorem sort_desc_head_max l r o : sort_desc key l = r :: o -> forall x, In x l -> lex_ltb (key r) (key x) = false.
  Proof.
    intros E x Hx. pose proof (sort_desc_sorted l) as S. rewrite E in S. inversion S as [|? ? Hr _]; subst.
    apply (Permutation_in _ (Permutation_sym (sort_desc_perm l))) in Hx. rewrite E in Hx.
    destruct Hx as [<-|Hx]; [apply lex_ltb_irrefl|apply Hr; exact Hx].
  Qed.
End SortDescP.

(* ... and among the positions with a maximal key it is the first one (stable sort) *)
Lemma sort_desc_seq_head_first (f : nat -> list nat) n : forall s h o,
  sort_desc f (seq s n) = h :: o -> forall j, (s <= j < h)%nat -> lex_ltb (f j) (f h) = true.
Proof.
  induction n as [|n IH]; intros s h o E j Hj; simpl in E; [discriminate|].
  destruct (sort_desc f (seq (S s) n)) as [|h' o'] eqn:E'; simpl in E.
  - injection E as <- _. lia.
  - destruct (lex_ltb (f s) (f h')) eqn:L; injection E as <- _; [|lia].
    destruct (Nat.eq_dec j s) as [->|Hne]; [exact L|]. eapply IH; [exact E'|lia].
Qed.

Lemma check_order_spec key cats ref others :
  check_order key cats = ref :: others ->
  (ref < length cats)%nat /\
  (forall j, (j < length cats)%nat -> lex_ltb (key (gnth cats ref)) (key (gnth cats j)) = false) /\
  (forall j, (j < ref)%nat -> lex_ltb (key (gnth cats j)) (key (gnth cats ref)) = true) /\
  (forall j, In j others <-> (j < length cats)%nat /\ j <> ref).
Proof.
  unfold check_order. intro E.
  pose proof (sort_desc_perm (fun i => key (gnth cats i)) (seq 0 (length cats))) as P. rewrite E in P.
  assert (Hin : forall j, In j (ref :: others) <-> (j < length cats)%nat).
  { intro j. split; intro H.
    - apply (Permutation_in _ P) in H. apply in_seq in H. lia.
    - apply (Permutation_in _ (Permutation_sym P)). apply in_seq. lia. }
  assert (ND : NoDup (ref :: others)) by (eapply Permutation_NoDup; [apply Permutation_sym, P|apply seq_NoDup]).
  repeat split.
  - apply Hin. left. reflexivity.
  - intros j Hj. apply (sort_desc_head_max _ _ _ _ E). apply in_seq. lia.
  - intros j Hj. eapply (sort_desc_seq_head_first (fun i => key (gnth cats i))); [exact E|lia].
  - apply Hin. right. exact H.
  - intros ->. inversion ND; subst. contradiction.
  - intros [H1 H2]. apply Hin in H1. destruct H1 as [H1|H1]; [congruence|exact H1].
Qed.

Lemma within_spec rtol dists radii :
  within rtol dists radii = true <-> forall dr, In dr (combine dists radii) -> fst dr <= rtol * snd dr.
Proof.
  unfold within. rewrite forallb_forall. split; intros H dr Hin; specialize (H dr Hin); apply Qle_bool_iff; exact H.
Qed.

Lemma guard_is_within ids1 ids2 dists radii rtol :
  guard ids1 ids2 dists radii rtol = nlist_eqb ids1 ids2 && within rtol dists radii.
Proof. reflexivity. Qed.

Lemma ids_match_spec cats :
  ids_match cats = true -> forall j, (j < length cats)%nat -> g_ids (gnth cats j) = g_ids (gnth cats 0).
Proof.
  destruct cats as [|c r]; simpl; intros H j Hj; [lia|].
  destruct j as [|j]; [reflexivity|]. unfold gnth. simpl.
  apply nlist_eqb_eq. apply (proj1 (forallb_forall _ _) H). apply nth_In. lia.
Qed.

(* acceptance: every catalog has the ids of the first one, and there is a reference catalog - one
   whose records-per-patch tuple is maximal, the first such in the call - such that the centres of
   every other catalog are within rtol times the reference catalog's own radii *)
Theorem guard_many_refuses key cats dt rtol :
  cats <> [] -> guard_many_by key cats dt rtol = true ->
  (forall j, (j < length cats)%nat -> g_ids (gnth cats j) = g_ids (gnth cats 0)) /\
  exists ref, (ref < length cats)%nat /\
    (forall j, (j < length cats)%nat -> lex_ltb (key (gnth cats ref)) (key (gnth cats j)) = false) /\
    (forall j, (j < ref)%nat -> lex_ltb (key (gnth cats j)) (key (gnth cats ref)) = true) /\
    forall j, (j < length cats)%nat -> j <> ref ->
      forall dr, In dr (combine (tab dt ref j) (g_radii (gnth cats ref))) -> fst dr <= rtol * snd dr.
Proof.
  intros Hne H. unfold guard_many_by in H. apply andb_true_iff in H as [Hids H].
  split; [apply ids_match_spec; exact Hids|].
  destruct (check_order key cats) as [|ref others] eqn:E.
  - exfalso. unfold check_order in E.
    pose proof (sort_desc_perm (fun i => key (gnth cats i)) (seq 0 (length cats))) as P. rewrite E in P.
    apply Permutation_nil in P. destruct cats; [congruence|discriminate].
  - destruct (check_order_spec _ _ _ _ E) as (H1 & H2 & H3 & H4).
    exists ref. repeat split; try assumption.
    intros j Hj Hjr. apply within_spec.
    unfold guard_ref, check_fixed in H. apply (proj1 (forallb_forall _ _) H).
    apply in_map. apply H4. split; assumption.
Qed.

(* with rtol <= 1: centres farther apart than the reference catalog's patch radius are refused *)
Theorem guard_many_within_radius key cats dt rtol :
  cats <> [] -> 0 <= rtol -> rtol <= 1 ->
  (forall c r, In c cats -> In r (g_radii c) -> 0 <= r) ->
  guard_many_by key cats dt rtol = true ->
  exists ref, (ref < length cats)%nat /\
    (forall j, (j < length cats)%nat -> lex_ltb (key (gnth cats ref)) (key (gnth cats j)) = false) /\
    forall j, (j < length cats)%nat -> j <> ref ->
      forall dr, In dr (combine (tab dt ref j) (g_radii (gnth cats ref))) -> fst dr <= snd dr.
Proof.
  intros Hne H0 H1 Hpos H. destruct (guard_many_refuses _ _ _ _ Hne H) as (_ & ref & Hr & Hmax & _ & Hd).
  exists ref. repeat split; try assumption. intros j Hj Hjr dr Hin.
  eapply Qle_trans; [apply (Hd j Hj Hjr dr Hin)|].
  assert (0 <= snd dr).
  { destruct dr as [d r]. apply in_combine_r in Hin. simpl. eapply Hpos; [|exact Hin]. apply nth_In. exact Hr. }
  rewrite <- (Qmult_1_l (snd dr)) at 2. apply Qmult_le_compat_r; assumption.
Qed.

(* two catalogs: the guard of the pair, the radii being those of the catalog that sorts first *)
Theorem guard_many_two key a b dt rtol :
  guard_many_by key [a; b] dt rtol =
  if lex_ltb (key a) (key b) then guard (g_ids b) (g_ids a) (tab dt 1 0) (g_radii b) rtol
  else guard (g_ids b) (g_ids a) (tab dt 0 1) (g_radii a) rtol.
Proof.
  unfold guard_many_by, check_order, guard_ref, check_fixed, guard, within, gnth. simpl.
  destruct (lex_ltb (key a) (key b)); simpl; rewrite !andb_true_r; reflexivity.
Qed.

(* the decision does not depend on the order in which the other catalogs are looked at *)
Theorem check_fixed_perm rtol radii others others' :
  Permutation others others' -> check_fixed rtol radii others = check_fixed rtol radii others'.
Proof.
  intro P. unfold check_fixed.
  destruct (forallb (fun d => within rtol d radii) others') eqn:E.
  - apply forallb_forall. intros d Hd. apply (proj1 (forallb_forall _ _) E). eapply Permutation_in; eassumption.
  - destruct (forallb (fun d => within rtol d radii) others) eqn:E'; [|reflexivity].
    rewrite <- E. symmetry. apply forallb_forall. intros d Hd. apply (proj1 (forallb_forall _ _) E').
    eapply Permutation_in; [apply Permutation_sym|]; eassumption.
Qed.

(* a k-catalog measurement is accepted iff every (reference, other) pair is *)
Theorem check_fixed_pairwise rtol radii others :
  check_fixed rtol radii others = true <-> forall d, In d others -> within rtol d radii = true.
Proof. unfold check_fixed. apply forallb_forall. Qed.

(* what the code's reference passes, some admissible reference passes *)
Theorem guard_many_some_ref cats dt rtol :
  cats <> [] -> guard_many cats dt rtol = true -> guard_some_ref cats dt rtol = true.
Proof.
  intros Hne H. unfold guard_many, guard_many_by in H. apply andb_true_iff in H as [Hids H].
  unfold guard_some_ref. rewrite Hids. simpl.
  destruct (check_order g_nrec cats) as [|ref others] eqn:E.
  - exfalso. unfold check_order in E.
    pose proof (sort_desc_perm (fun i => g_nrec (gnth cats i)) (seq 0 (length cats))) as P. rewrite E in P.
    apply Permutation_nil in P. destruct cats; [congruence|discriminate].
  - destruct (check_order_spec _ _ _ _ E) as (H1 & H2 & _ & H4).
    apply existsb_exists. exists ref. split; [apply in_seq; lia|].
    apply andb_true_iff. split.
    + apply orb_true_iff. left. unfold maximal_by. apply forallb_forall. intros c Hc.
      apply negb_true_iff. destruct (In_nth _ _ gnone Hc) as (j & Hj & <-). apply H2. exact Hj.
    + unfold guard_ref, check_fixed in *. apply forallb_forall. intros d Hd.
      apply in_map_iff in Hd as (j & <- & Hj). apply filter_In in Hj as [Hj Hjr].
      apply (proj1 (forallb_forall _ _) H). apply in_map. apply H4.
      apply in_seq in Hj. apply negb_true_iff, Nat.eqb_neq in Hjr. lia.
Qed.

(* ---- the loop that tests against radii inflated by the catalogs looked at before ---- *)
Lemma qmax_ge_l a b : a <= qmax a b.
Proof. unfold qmax. destruct (Qleb a b) eqn:E; [apply Qle_bool_iff; exact E|apply Qle_refl]. Qed.

Lemma within_inflated rtol d : 0 <= rtol -> forall radii X,
  within rtol d radii = true -> within rtol d (zipw qmax radii X) = true.
Proof.
  intro H0. unfold within. induction d as [|x d IH]; intros [|r radii] [|y X]; simpl; intro H; try reflexivity.
  apply andb_true_iff in H as [H1 H2]. apply andb_true_iff. split; [|apply IH; exact H2].
  apply Qle_bool_iff. apply Qle_bool_iff in H1. eapply Qle_trans; [exact H1|].
  rewrite !(Qmult_comm rtol). apply Qmult_le_compat_r; [apply qmax_ge_l|exact H0].
Qed.

(* it accepts whatever the test against the reference's own radii accepts ... *)
Theorem check_fixed_implies_running rtol : 0 <= rtol -> forall others radii,
  check_fixed rtol radii (map fst others) = true -> check_running rtol radii others = true.
Proof.
  intro H0. induction others as [|[d r] rest IH]; intros radii H; simpl in *; [reflexivity|].
  apply andb_true_iff in H as [H1 H2]. apply andb_true_iff. split; [exact H1|].
  apply IH. unfold check_fixed in *. apply forallb_forall. intros d' Hd'.
  apply within_inflated; [exact H0|]. apply (proj1 (forallb_forall _ _) H2). exact Hd'.
Qed.

(* ... but also a later catalog whose centres are three reference radii off, when a catalog
   with extended patches was looked at before (reference radius 2/5, aligned catalog of radius 3,
   then a catalog of radius 2/5 offset by 6/5) - and the answer depends on the order *)
Theorem check_running_refuted :
  exists radii others d r,
    In (d, r) (combine (fst (nth 1 others ([], []))) radii) /\ d == 3 * r /\
    check_fixed (1 # 2) radii (map fst others) = false /\
    check_running (1 # 2) radii others = true /\
    check_running (1 # 2) radii (rev others) = false.
Proof.
  exists [2 # 5], [([0], [3]); ([6 # 5], [2 # 5])], (6 # 5), (2 # 5).
  split; [left; reflexivity|]. split; [reflexivity|]. repeat split; vm_compute; reflexivity.
Qed.

(* ================= creation routes: reported centres = centres in use ================= *)
Section RoutesP.
  Context {C R : Type} (dist : R -> C -> Q).
  Implicit Types (given : option (list C)) (made means cs : list C) (chunks : list (chunk R)).

  (* the pinned routes report the centres the records were split by: the given ones, or the made ones whatever the
     oracle returned; the data means are reported only when there are no centres at all *)
  Theorem route_reports_centres_in_use given name num made means cs :
    centres_in_use given name num made = Some cs -> route_centres given name num made means = cs.
  Proof. unfold route_centres. intros ->. reflexivity. Qed.

  Theorem route_in_use_cases given name num made :
    (forall cs, given = Some cs -> centres_in_use given name num made = Some cs) /\
    (given = None -> name = false -> num = true -> centres_in_use given name num made = Some made) /\
    (given = None -> name = true -> centres_in_use given name num made = None).
  Proof.
    repeat split.
    - intros cs ->. reflexivity.
    - intros -> -> ->. reflexivity.
    - intros -> ->. reflexivity.
  Qed.

  Lemma row_to_length cs r : length (row_to dist cs r) = length cs.
  Proof. unfold row_to. apply map_length. Qed.

  (* every record stored in patch p has the REPORTED centre p as a nearest reported centre: centres given or made,
     any oracle, any chunking, any arrival order of the (sub-)chunks *)
  Theorem route_reproduces_partition given name num made means cs chunks arrived p l r :
    centres_in_use given name num made = Some cs -> cs <> [] -> Permutation arrived chunks ->
    route_data dist given name num made arrived p = Some l -> In r l ->
    own_centre_nearest (row_to dist (route_centres given name num made means) r) p = true.
  Proof.
    intros U NE P H Hin. rewrite (route_reports_centres_in_use _ _ _ _ _ _ U).
    unfold route_data in H. rewrite U in H. simpl in H.
    apply (apply_belongs_any_order (nearest dist cs) chunks arrived p l r P H) in Hin as [_ Hp].
    apply own_centre_nearest_spec. subst p. unfold nearest. split.
    - apply argmin_lt. intro E. apply NE. apply length_zero_iff_nil. rewrite <- (row_to_length cs r), E. reflexivity.
    - apply argmin_min.
  Qed.

  Corollary route_create_any_oracle made means chunks arrived p l r :
    made <> [] -> Permutation arrived chunks ->
    route_data dist None false true made arrived p = Some l -> In r l ->
    own_centre_nearest (row_to dist (route_centres None false true made means) r) p = true.
  Proof. intros NE. apply (route_reproduces_partition None false true made means made); [reflexivity|exact NE]. Qed.

  (* a catalog built from the same records with patch_centers = <the first catalog> (= its reported centres), whatever
     else is passed along, however the records are chunked: the same patches *)
  Theorem route_rebuild_same_partition given name num made means cs chunks chunks' name' num' made' p :
    centres_in_use given name num made = Some cs ->
    concat (map recs chunks') = concat (map recs chunks) ->
    route_data dist (Some (route_centres given name num made means)) name' num' made' chunks' p =
    route_data dist given name num made chunks p.
  Proof.
    intros U E. rewrite (route_reports_centres_in_use _ _ _ _ _ _ U).
    unfold route_data. rewrite U. simpl. apply apply_any_chunking. exact E.
  Qed.
End RoutesP.

(* handing the loader the caller's argument instead of the centres in use: in Create mode the argument is None, the
   catalog reports the data means, a stored record is strictly nearer to another reported centre and the catalog
   rebuilt from the reported centres has other patches *)
Theorem route_arg_refuted :
  exists (made means : list Q) (chunks : list (chunk Q)) (r : Q),
    let dist := fun x c : Q => (x - c) * (x - c) in
    route_data dist None false true made chunks 1 = Some [r; 20] /\
    own_centre_nearest (row_to dist (route_centres None false true made means) r) 1 = true /\
    own_centre_nearest (row_to dist (route_centres_arg None means) r) 1 = false /\
    route_data dist (Some (route_centres_arg None means)) false false [] chunks 1 = Some [20].
Proof.
  exists [0; 10], [2; 13], [ {| recs := [0; 4]; col := None |}; {| recs := [6; 20]; col := None |} ], 6.
  vm_compute. repeat split.
Qed.

(* the checker's model column is the nearest reported centre of every row *)
Lemma nearest_rows_spec rows : nearest_rows rows = map argmin rows.
Proof. reflexivity. Qed.

(* ================= degenerate patches in the guard ================= *)
Lemma Qleb_ext a b c d : (a <= b <-> c <= d) -> Qleb a b = Qleb c d.
Proof.
  intros H. destruct (Qleb a b) eqn:E1, (Qleb c d) eqn:E2; try reflexivity.
  - apply Qleb_le in E1. apply H in E1. apply Qleb_le in E1. congruence.
  - apply Qleb_le in E2. apply H in E2. apply Qleb_le in E2. congruence.
Qed.

Lemma Qeqb_eq a b : Qeqb a b = true <-> a == b.
Proof. apply Qeq_bool_iff. Qed.

(* a zero radius with a positive distance is refused - whatever rtol is *)
Theorem patch_refused_zero_radius d r rtol : r == 0 -> 0 < d -> patch_refused d r rtol = true.
Proof.
  intros Hr Hd. unfold patch_refused. apply negb_true_iff.
  destruct (Qleb d (rtol * r)) eqn:E; [|reflexivity].
  apply Qleb_le in E. rewrite Hr, Qmult_0_r in E. exfalso. exact (Qlt_not_le _ _ Hd E).
Qed.

(* coinciding centres are accepted on a zero radius (0 / 0 = nan, nan > rtol is False) *)
Theorem patch_accepted_coinciding d r rtol : d == 0 -> r == 0 -> patch_refused d r rtol = false.
Proof.
  intros Hd Hr. unfold patch_refused. apply negb_false_iff. apply Qleb_le.
  rewrite Hd, Hr, Qmult_0_r. apply Qle_refl.
Qed.

Lemma quotient_le_iff d r rtol : 0 < r -> (d / r <= rtol <-> d <= rtol * r).
Proof.
  intros Hr. split; intro H.
  - assert (E : d == d / r * r) by (field; intro C; rewrite C in Hr; exact (Qlt_irrefl _ Hr)).
    rewrite E. apply Qmult_le_compat_r; [exact H|apply Qlt_le_weak; exact Hr].
  - apply Qle_shift_div_r; assumption.
Qed.

(* the division-free form is what the float expression  distance / radius > rtol  decides, degenerate radii included *)
Theorem patch_refused_ieee_eq d r rtol : 0 <= d -> 0 <= r -> patch_refused_ieee d r rtol = patch_refused d r rtol.
Proof.
  intros Hd Hr. unfold patch_refused_ieee, fdiv.
  destruct (Qeqb r 0) eqn:Er.
  - apply Qeqb_eq in Er. destruct (Qeqb d 0) eqn:Ed.
    + apply Qeqb_eq in Ed. simpl. symmetry. apply patch_accepted_coinciding; assumption.
    + simpl. symmetry. apply patch_refused_zero_radius; [exact Er|].
      apply Qle_lt_or_eq in Hd as [Hd|Hd]; [exact Hd|].
      exfalso. assert (C : Qeqb d 0 = true) by (apply Qeqb_eq; symmetry; exact Hd). congruence.
  - simpl. unfold patch_refused. f_equal. apply Qleb_ext. apply quotient_le_iff.
    apply Qle_lt_or_eq in Hr as [Hr|Hr]; [exact Hr|].
    exfalso. assert (C : Qeqb r 0 = true) by (apply Qeqb_eq; symmetry; exact Hr). congruence.
Qed.

(* on a proper patch (radius > 0) the zero-defined quotient decides the same - which is why no scene made of
   proper patches can tell the two apart *)
Theorem patch_refused_div0_proper d r rtol : 0 < r -> patch_refused_div0 d r rtol = patch_refused d r rtol.
Proof.
  intros Hr. unfold patch_refused_div0, patch_refused, qdiv0.
  destruct (Qeqb r 0) eqn:Er.
  - apply Qeqb_eq in Er. rewrite Er in Hr. exfalso. exact (Qlt_irrefl _ Hr).
  - f_equal. apply Qleb_ext. apply quotient_le_iff. exact Hr.
Qed.

(* Coq's own division is the zero-defined one: a model written with  d / r  in Q would be the refuted reading *)
Theorem qdiv0_is_Qdiv d r : qdiv0 d r == d / r.
Proof.
  unfold qdiv0. destruct (Qeqb r 0) eqn:Er; [|reflexivity].
  apply Qeqb_eq in Er. rewrite Er. unfold Qdiv. change (/ 0) with 0. rewrite Qmult_0_r. reflexivity.
Qed.

(* ... and it exempts every zero-radius patch: any displacement is let through when rtol >= 0 *)
Theorem patch_refused_div0_zero_radius d r rtol : r == 0 -> 0 <= rtol -> patch_refused_div0 d r rtol = false.
Proof.
  intros Hr H0. unfold patch_refused_div0, qdiv0.
  assert (E : Qeqb r 0 = true) by (apply Qeqb_eq; exact Hr). rewrite E.
  apply negb_false_iff. apply Qleb_le. exact H0.
Qed.

(* refutation: with the zero-defined quotient the guard accepts two catalogs although the centres of a patch lie
   farther apart than the patch radius (statement violated), where the division-free guard refuses *)
Theorem quotient_zero_refuted :
  exists (dists radii : list Q) (d r : Q),
    In (d, r) (combine dists radii) /\ 0 <= r /\ r < d /\
    within_div0 (1#2) dists radii = true /\ within (1#2) dists radii = false /\ within 1 dists radii = false.
Proof.
  exists [0; 7#10], [1; 0], (7#10), 0. repeat split; try (vm_compute; reflexivity).
  - right. left. reflexivity.
  - discriminate.
Qed.

(* the list forms: within = no patch refused *)
Lemma within_is_patchwise rtol dists radii :
  within rtol dists radii = forallb (fun dr => negb (patch_refused (fst dr) (snd dr) rtol)) (combine dists radii).
Proof.
  unfold within, patch_refused. induction (combine dists radii) as [|dr l IH]; simpl; [reflexivity|].
  rewrite negb_involutive, IH. reflexivity.
Qed.

Theorem within_zero_radius rtol dists radii d r :
  within rtol dists radii = true -> In (d, r) (combine dists radii) -> r == 0 -> d <= 0.
Proof.
  intros H Hin Hr. apply (proj1 (within_spec _ _ _) H) in Hin. simpl in Hin.
  rewrite Hr, Qmult_0_r in Hin. exact Hin.
Qed.

(* the guard of two catalogs refuses a displaced partner of a zero-radius patch, whatever rtol and the other radii are *)
Theorem guard_refuses_zero_radius ids1 ids2 dists radii rtol d r :
  In (d, r) (combine dists radii) -> r == 0 -> 0 < d -> guard ids1 ids2 dists radii rtol = false.
Proof.
  intros Hin Hr Hd. destruct (guard ids1 ids2 dists radii rtol) eqn:E; [|reflexivity].
  rewrite guard_is_within in E. apply andb_true_iff in E as [_ E].
  exfalso. apply (Qlt_not_le _ _ Hd). eapply within_zero_radius; eassumption.
Qed.

Theorem check_fixed_zero_radius rtol radii others :
  check_fixed rtol radii others = true -> zero_radius_aligned radii others = true.
Proof.
  unfold check_fixed, zero_radius_aligned. rewrite !forallb_forall. intros H d Hd.
  specialize (H d Hd). apply forallb_forall. intros [x r] Hin.
  simpl. destruct (Qeqb r 0) eqn:Er; [|reflexivity]. simpl.
  apply Qeqb_eq in Er. apply Qleb_le. eapply within_zero_radius; eassumption.
Qed.

(* any number of catalogs: acceptance implies the degenerate clause for the reference the code selects *)
Theorem guard_many_zero_ok cats dt rtol : guard_many cats dt rtol = true -> guard_zero_ok cats dt = true.
Proof.
  unfold guard_many, guard_many_by, guard_zero_ok. intros H. apply andb_true_iff in H as [_ H].
  destruct (check_order g_nrec cats) as [|ref others]; [reflexivity|].
  unfold guard_ref in H. eapply check_fixed_zero_radius. exact H.
Qed.

(* hence an accepted call never trips flag 16 of the degenerate checker unless model and code disagree *)
Theorem guardd_case_sound cats dt :
  guard_many cats dt (1#2) = true -> c12_guardd_case cats dt true = c12_guardn_case cats dt true.
Proof.
  intros H. unfold c12_guardd_case. rewrite (guard_many_zero_ok _ _ _ H).
  rewrite orb_true_r. apply Nat.add_0_r.
Qed.
