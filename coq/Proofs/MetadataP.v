From Verif Require Import Prelude Metadata.
Open Scope Q_scope.

Lemma fold_max_ge_init (r : list Q) x : x <= fold_left (fun a b => if Qleb a b then b else a) r x.
Proof.
  revert x. induction r as [|y r IH]; intros x; simpl; [apply Qle_refl|].
  destruct (Qleb x y) eqn:E.
  - eapply Qle_trans; [apply Qle_bool_iff; exact E|apply IH].
  - apply IH.
Qed.

Lemma fold_max_ge (r : list Q) x d : In d r -> d <= fold_left (fun a b => if Qleb a b then b else a) r x.
Proof.
  revert x. induction r as [|y r IH]; intros x []; simpl.
  - subst. destruct (Qleb x d) eqn:E; [apply fold_max_ge_init|].
    eapply Qle_trans; [|apply fold_max_ge_init].
    apply Qlt_le_weak, Qnot_le_lt. intro H. apply Qle_bool_iff in H. unfold Qleb in E. congruence.
  - apply IH. assumption.
Qed.

(* every record lies within the stored radius (the maximum distance) *)
Theorem radius_covers dists ws d : In d dists -> d <= radius (compute dists ws).
Proof.
  unfold compute, qmaxl; simpl. destruct dists as [|x r]; intros []; subst.
  - apply fold_max_ge_init.
  - apply fold_max_ge. assumption.
Qed.

(* … and it is attained: the radius is one of the distances (non-empty patch) *)
Lemma fold_max_in (r : list Q) x :
  let m := fold_left (fun a b => if Qleb a b then b else a) r x in m = x \/ In m r.
Proof.
  revert x. induction r as [|y r IH]; intros x; simpl; [left; reflexivity|].
  destruct (Qleb x y).
  - destruct (IH y) as [H|H]; [right; left; symmetry; exact H|right; right; exact H].
  - destruct (IH x) as [H|H]; [left; exact H|right; right; exact H].
Qed.
Theorem radius_attained dists ws : dists <> [] -> In (radius (compute dists ws)) dists.
Proof.
  unfold compute, qmaxl; simpl. destruct dists as [|x r]; [congruence|]. intros _.
  destruct (fold_max_in r x) as [H|H]; [left; symmetry; exact H|right; exact H].
Qed.

Theorem meta_counts dists ws :
  num_records (compute dists ws) = length dists /\
  sum_weights (compute dists ws) == match ws with None => inject_Z (Z.of_nat (length dists)) | Some w => qsum w end.
Proof. split; reflexivity. Qed.

Lemma map_fst_combine' {A B} (l : list A) : forall (l' : list B),
  length l = length l' -> map fst (combine l l') = l.
Proof. induction l as [|x l IH]; intros [|y l'] H; simpl in *; try reflexivity; try discriminate. f_equal. apply IH. congruence. Qed.
Lemma map_snd_combine' {A B} (l : list A) : forall (l' : list B),
  length l = length l' -> map snd (combine l l') = l'.
Proof. induction l as [|x l IH]; intros [|y l'] H; simpl in *; try reflexivity; try discriminate. f_equal. apply IH. congruence. Qed.

(* repaired pairing: a returned pairing has ids 0..N-1 and centre i is the i-th given one *)
Theorem centres_in_order {C} (ids : list nat) (centres : list C) prs (d : C) :
  pair_centres_fix ids centres = Some prs ->
  map fst prs = seq 0 (length centres) /\
  forall i, (i < length centres)%nat -> nth i (map snd prs) d = nth i centres d.
Proof.
  unfold pair_centres_fix. destruct (nlist_eqb ids (seq 0 (length centres))) eqn:E; [|discriminate].
  intros H; inversion H; subst prs. apply nlist_eqb_eq in E. subst ids.
  assert (L : length (seq 0 (length centres)) = length centres) by apply seq_length.
  split.
  - apply map_fst_combine'. exact L.
  - intros i _. rewrite map_snd_combine' by exact L. reflexivity.
Qed.

(* pinned pairing: a centre that attracts nothing shifts every later centre *)
Theorem zip_misaligned_refuted :
  exists (ids : list nat) (centres : list nat),
    (* centres named by their index; patch 1 got no object, so ids = [0;2] *)
    pair_centres_cur ids centres = [(0%nat, 0%nat); (2%nat, 1%nat)] /\ pair_centres_fix ids centres = None.
Proof. exists [0%nat; 2%nat], [0%nat; 1%nat; 2%nat]. split; reflexivity. Qed.

(* the guard refuses differing id sets and any centre pair farther apart than rtol * radius;
   with rtol <= 1 this includes "farther apart than the patch radius" *)
Theorem guard_refuses ids1 ids2 dists radii rtol :
  guard ids1 ids2 dists radii rtol = true ->
  ids1 = ids2 /\ forall dr, In dr (combine dists radii) -> fst dr <= rtol * snd dr.
Proof.
  unfold guard. intros H. apply andb_true_iff in H as [H1 H2]. split; [apply nlist_eqb_eq; exact H1|].
  intros dr Hin. apply (proj1 (forallb_forall _ _) H2) in Hin. apply Qle_bool_iff. exact Hin.
Qed.

Corollary guard_refuses_beyond_radius ids1 ids2 dists radii rtol d r :
  0 <= rtol -> rtol <= 1 -> 0 <= r -> In (d, r) (combine dists radii) -> r < d ->
  guard ids1 ids2 dists radii rtol = false.
Proof.
  intros H0 H1 Hr Hin Hd. destruct (guard ids1 ids2 dists radii rtol) eqn:E; [|reflexivity].
  apply guard_refuses in E as [_ E]. specialize (E (d, r) Hin). simpl in E.
  exfalso. apply (Qlt_not_le _ _ Hd). eapply Qle_trans; [exact E|].
  rewrite <- (Qmult_1_l r) at 2. apply Qmult_le_compat_r; assumption.
Qed.
