From Verif Require Import Prelude Metadata.
Open Scope Q_scope.

Lemma fold_max_ge_init (r : list Q) x : x <= fold_left (fun a b => if Qleb a b then b else a) r x.
Proof.
  revert x. induction r as [|y r IH]; intros x; simpl; [apply Qle_refl|].
  destruct (Qleb x y) eqn:E.
  - eapply Qle_trans; [apply Qle_bool_iff; exact E|apply IH].
  - apply IH.
Qed.

Lemma fold_max_ge (r : list Q) x d : In d r -> d <= fold_left (fun a b => if Qleb a b then b else a) r x.
Proof.
  revert x. induction r as [|y r IH]; intros x []; simpl.
  - subst. destruct (Qleb x d) eqn:E; [apply fold_max_ge_init|].
    eapply Qle_trans; [|apply fold_max_ge_init].
    apply Qlt_le_weak, Qnot_le_lt. intro H. apply Qle_bool_iff in H. unfold Qleb in E. congruence.
  - apply IH. assumption.
Qed.

(* every record lies within the stored radius (the maximum distance) *)
Theorem radius_covers dists ws d : In d dists -> d <= radius (compute dists ws).
Proof.
  unfold compute, qmaxl; simpl. destruct dists as [|x r]; intros []; subst.
  - apply fold_max_ge_init.
  - apply fold_max_ge. assumption.
Qed.

(* … and it is attained: the radius is one of the distances (non-empty patch) *)
Lemma fold_max_in (r : list Q) x :
  let m := fold_left (fun a b => if Qleb a b then b else a) r x in m = x \/ In m r.
Proof.
  revert x. induction r as [|y r IH]; intros x; simpl; [left; reflexivity|].
  destruct (Qleb x y).
  - destruct (IH y) as [H|H]; [right; left; symmetry; exact H|right; right; exact H].
  - destruct (IH x) as [H|H]; [left; exact H|right; right; exact H].
Qed.
Theorem radius_attained dists ws : dists <> [] -> In (radius (compute dists ws)) dists.
Proof.
  unfold compute, qmaxl; simpl. destruct dists as [|x r]; [congruence|]. intros _.
  destruct (fold_max_in r x) as [H|H]; [left; symmetry; exact H|right; exact H].
Qed.

Theorem meta_counts dists ws :
  num_records (compute dists ws) = length dists /\
  sum_weights (compute dists ws) == match ws with None => inject_Z (Z.of_nat (length dists)) | Some w => qsum w end.
Proof. split; reflexivity. Qed.

Lemma map_fst_combine' {A B} (l : list A) : forall (l' : list B),
  length l = length l' -> map fst (combine l l') = l.
Proof. induction l as [|x l IH]; intros [|y l'] H; simpl in *; try reflexivity; try discriminate. f_equal. apply IH. congruence. Qed.
Lemma map_snd_combine' {A B} (l : list A) : forall (l' : list B),
  length l = length l' -> map snd (combine l l') = l'.
Proof. induction l as [|x l IH]; intros [|y l'] H; simpl in *; try reflexivity; try discriminate. f_equal. apply IH. congruence. Qed.

(* repaired pairing: a returned pairing has ids 0..N-1 and centre i is the i-th given one *)
Theorem centres_in_order {C} (ids : list nat) (centres : list C) prs (d : C) :
  pair_centres_fix ids centres = Some prs ->
  map fst prs = seq 0 (length centres) /\
  forall i, (i < length centres)%nat -> nth i (map snd prs) d = nth i centres d.
Proof.
  unfold pair_centres_fix. destruct (nlist_eqb ids (seq 0 (length centres))) eqn:E; [|discriminate].
  intros H; inversion H; subst prs. apply nlist_eqb_eq in E. subst ids.
  assert (L : length (seq 0 (length centres)) = length centres) by apply seq_length.
  split.
  - apply map_fst_combine'. exact L.
  - intros i _. rewrite map_snd_combine' by exact L. reflexivity.
Qed.

(* pinned pairing: a centre that attracts nothing shifts every later centre *)
Theorem zip_misaligned_refuted :
  exists (ids : list nat) (centres : list nat),
    (* centres named by their index; patch 1 got no object, so ids = [0;2] *)
    pair_centres_cur ids centres = [(0%nat, 0%nat); (2%nat, 1%nat)] /\ pair_centres_fix ids centres = None.
Proof. exists [0%nat; 2%nat], [0%nat; 1%nat; 2%nat]. split; reflexivity. Qed.

(* the guard refuses differing id sets and any centre pair farther apart than rtol * radius;
   with rtol <= 1 this includes "farther apart than the patch radius" *)
Theorem guard_refuses ids1 ids2 dists radii rtol :
  guard ids1 ids2 dists radii rtol = true ->
  ids1 = ids2 /\ forall dr, In dr (combine dists radii) -> fst dr <= rtol * snd dr.
Proof.
  unfold guard. intros H. apply andb_true_iff in H as [H1 H2]. split; [apply nlist_eqb_eq; exact H1|].
  intros dr Hin. apply (proj1 (forallb_forall _ _) H2) in Hin. apply Qle_bool_iff. exact Hin.
Qed.

Corollary guard_refuses_beyond_radius ids1 ids2 dists radii rtol d r :
  0 <= rtol -> rtol <= 1 -> 0 <= r -> In (d, r) (combine dists radii) -> r < d ->
  guard ids1 ids2 dists radii rtol = false.
Proof.
  intros H0 H1 Hr Hin Hd. destruct (guard ids1 ids2 dists radii rtol) eqn:E; [|reflexivity].
  apply guard_refuses in E as [_ E]. specialize (E (d, r) Hin). simpl in E.
  exfalso. apply (Qlt_not_le _ _ Hd). eapply Qle_trans; [exact E|].
  rewrite <- (Qmult_1_l r) at 2. apply Qmult_le_compat_r; assumption.
Qed.

(* ================= patch-definition options and split_into_patches ================= *)
From Coq Require Import Permutation.

(* documented precedence: patch_centers > patch_name > patch_num *)
Theorem determine_precedence :
  (forall name num, determine true name num = Some Apply) /\
  (forall num, determine false true num = Some Divide) /\
  determine false false true = Some Create /\
  determine false false false = None.
Proof. repeat split. Qed.

(* the assigned centre is a nearest one … *)
Lemma argmin_lt row : row <> [] -> (argmin row < length row)%nat.
Proof.
  induction row as [|d r IH]; [congruence|]. intros _. destruct r as [|e r'].
  - simpl. lia.
  - change (argmin (d :: e :: r')) with (let k := argmin (e :: r') in if Qleb d (nth k (e :: r') 0) then 0%nat else S k).
    cbv zeta. destruct (Qleb d (nth (argmin (e :: r')) (e :: r') 0)).
    + simpl. lia.
    + assert (H : (argmin (e :: r') < length (e :: r'))%nat) by (apply IH; congruence).
      simpl length in *. lia.
Qed.

Theorem argmin_min row j : (j < length row)%nat -> nth (argmin row) row 0 <= nth j row 0.
Proof.
  revert j. induction row as [|d r IH]; intros j Hj; [simpl in Hj; lia|].
  destruct r as [|e r'].
  - simpl in Hj. assert (j = 0)%nat by lia. subst. simpl. apply Qle_refl.
  - change (argmin (d :: e :: r')) with (let k := argmin (e :: r') in if Qleb d (nth k (e :: r') 0) then 0%nat else S k).
    cbv zeta. set (k := argmin (e :: r')) in *.
    destruct (Qleb d (nth k (e :: r') 0)) eqn:E.
    + destruct j as [|j'].
      * simpl. apply Qle_refl.
      * change (d <= nth j' (e :: r') 0). eapply Qle_trans; [apply Qleb_le; exact E|].
        apply IH. simpl in Hj |- *. lia.
    + change (nth k (e :: r') 0 <= nth j (d :: e :: r') 0). destruct j as [|j'].
      * simpl nth at 2. apply Qlt_le_weak, Qnot_le_lt. intro H. apply Qleb_le in H. congruence.
      * change (nth k (e :: r') 0 <= nth j' (e :: r') 0). apply IH. simpl in Hj |- *. lia.
Qed.

(* … and a strictly nearest centre is the assigned one *)
Theorem argmin_unique row k :
  (k < length row)%nat -> (forall j, (j < length row)%nat -> j <> k -> nth k row 0 < nth j row 0) -> argmin row = k.
Proof.
  intros Hk H. destruct (Nat.eq_dec (argmin row) k) as [|N]; [assumption|exfalso].
  assert (L : (argmin row < length row)%nat) by (apply argmin_lt; destruct row; [simpl in Hk; lia|congruence]).
  specialize (H _ L N). apply (Qlt_not_le _ _ H). apply argmin_min. exact Hk.
Qed.

Lemma own_centre_nearest_spec row p :
  own_centre_nearest row p = true <-> (p < length row)%nat /\ forall j, (j < length row)%nat -> nth p row 0 <= nth j row 0.
Proof.
  unfold own_centre_nearest. rewrite andb_true_iff, Nat.ltb_lt, forallb_forall. split; intros [H1 H2]; split; try assumption.
  - intros j Hj. apply Qleb_le. apply H2. apply nth_In. exact Hj.
  - intros x Hx. apply Qleb_le. destruct (In_nth _ _ 0 Hx) as [j [Hj <-]]. apply H2. exact Hj.
Qed.

Section SplitP.
  Context {R : Type}.
  Implicit Types (f : R -> nat) (chunks : list (chunk R)).

  Lemma select_map f p (rs : list R) : select p rs (map f rs) = filter (fun r => (f r =? p)%nat) rs.
  Proof.
    unfold select. induction rs as [|r rs IH]; [reflexivity|]. simpl.
    destruct (f r =? p)%nat; simpl; rewrite IH; reflexivity.
  Qed.

  (* centres given: patch p holds exactly the input records whose nearest centre is p, in input
     order, whatever the chunking and whatever an index column says *)
  Theorem apply_partition f chunks p :
    patch_data (Some f) chunks p = Some (filter (fun r => (f r =? p)%nat) (concat (map recs chunks))).
  Proof.
    unfold patch_data. induction chunks as [|ch rest IH]; [reflexivity|].
    simpl. rewrite IH. rewrite select_map, filter_app. reflexivity.
  Qed.

  Corollary apply_ignores_column f chunks chunks' p :
    map recs chunks = map recs chunks' -> patch_data (Some f) chunks p = patch_data (Some f) chunks' p.
  Proof. intros H. rewrite !apply_partition, H. reflexivity. Qed.

  Corollary apply_any_chunking f chunks chunks' p :
    concat (map recs chunks) = concat (map recs chunks') -> patch_data (Some f) chunks p = patch_data (Some f) chunks' p.
  Proof. intros H. rewrite !apply_partition, H. reflexivity. Qed.

  Lemma in_all_recs_perm chunks chunks' r :
    Permutation chunks chunks' -> In r (concat (map recs chunks)) -> In r (concat (map recs chunks')).
  Proof.
    intros P H. apply in_concat in H as [l [Hl Hr]]. apply in_map_iff in Hl as [ch [<- Hch]].
    apply in_concat. exists (recs ch). split; [|exact Hr]. apply in_map. eapply Permutation_in; eassumption.
  Qed.

  (* … and for every order in which the (sub-)chunks of the workers reach the writer *)
  Theorem apply_belongs_any_order f chunks arrived p l r :
    Permutation arrived chunks -> patch_data (Some f) arrived p = Some l ->
    (In r l <-> In r (concat (map recs chunks)) /\ f r = p).
  Proof.
    intros P H. rewrite apply_partition in H. inversion H; subst l; clear H.
    rewrite filter_In, Nat.eqb_eq. split; intros [H1 H2]; split; try assumption.
    - eapply in_all_recs_perm; eassumption.
    - eapply in_all_recs_perm; [apply Permutation_sym|]; eassumption.
  Qed.

  (* no centres: the column decides, chunk by chunk; without a column there is no catalog *)
  Theorem divide_uses_column chunks p :
    patch_data None chunks p =
    patch_data_with (fun ch : chunk R => col ch) chunks p.
  Proof. reflexivity. Qed.
End SplitP.

(* records = rows of distances to the given centres: every record stored in patch p has centre p
   as a nearest centre (the reported centres reproduce the partition), with or without an index
   column in the input, for every chunking and arrival order *)
Theorem apply_reproduces_partition (chunks arrived : list (chunk (list Q))) p l row :
  Permutation arrived chunks -> (forall ch r, In ch chunks -> In r (recs ch) -> r <> []) ->
  patch_data (Some argmin) arrived p = Some l -> In row l -> own_centre_nearest row p = true.
Proof.
  intros P NE H Hin. apply (apply_belongs_any_order argmin chunks arrived p l row P H) in Hin as [Hin Hp].
  apply own_centre_nearest_spec. subst p.
  apply in_concat in Hin as [rs [Hrs Hr]]. apply in_map_iff in Hrs as [ch [<- Hch]].
  split; [apply argmin_lt; eapply NE; eassumption|apply argmin_min].
Qed.

(* the other statement order is not the documented one: with a column that disagrees with the
   nearest centre, patch 0 stores a record that is strictly nearer to centre 1 *)
Theorem column_first_refuted :
  exists (ch : chunk (list Q)) (row : list Q),
    patch_data_colfirst (Some argmin) [ch] 0 = Some [row] /\ own_centre_nearest row 0 = false /\
    patch_data (Some argmin) [ch] 0 = Some [] /\ patch_data (Some argmin) [ch] 1 = Some [row].
Proof. exists {| recs := [[3#4; 1#4]]; col := Some [0%nat] |}, [3#4; 1#4]. vm_compute. repeat split. Qed.
