(* Proofs about the random reader and the generator state machine (nat / Q part, closed). *)
From Verif Require Import Prelude Chunks ChunksP Randoms.
Open Scope nat_scope.

(* ---------- sizes of the generator calls of one pass ---------- *)
Lemma length_concat_map_range l : length (concat (map range l)) = nsum (map slice_len l).
Proof.
  induction l as [|se l IH]; simpl; [reflexivity|].
  rewrite app_length, IH. unfold range, slice_len. rewrite seq_length. reflexivity.
Qed.

Theorem random_sizes_sum n cs :
  1 <= cs ->
  nsum (random_sizes n cs) = n /\ Forall (fun k => 1 <= k <= cs) (random_sizes n cs).
Proof.
  intros Hcs. unfold random_sizes. split.
  - rewrite <- length_concat_map_range, slices_cover by exact Hcs. apply seq_length.
  - apply Forall_map. eapply Forall_impl; [|apply (slices_bound n cs Hcs)].
    intros se [H _]. exact H.
Qed.

Theorem random_sizes_length n cs : 1 <= cs -> length (random_sizes n cs) = (n + cs - 1) / cs.
Proof. intros H. unfold random_sizes. rewrite map_length. apply slices_length. exact H. Qed.

(* all chunks but the last are full: only the last call is truncated *)
Lemma slices_from_full fuel s n cs se rest :
  1 <= cs -> slices_from fuel s n cs = se :: rest -> rest <> [] -> slice_len se = cs.
Proof.
  intros Hcs. destruct fuel as [|f]; simpl; [discriminate|].
  destruct (Nat.leb_spec n s); [discriminate|].
  intros E Hr. inversion E; subst; clear E. unfold slice_len; simpl.
  destruct f as [|f]; simpl in Hr; [congruence|].
  destruct (Nat.leb_spec n (s + cs)); [congruence|]. lia.
Qed.

Theorem random_sizes_only_last_truncated n cs pre k post :
  1 <= cs -> random_sizes n cs = pre ++ k :: post -> post <> [] -> k = cs.
Proof.
  intros Hcs. unfold random_sizes, slices. generalize n at 1 as fuel. generalize 0 as s.
  intros s fuel. revert s fuel. induction pre as [|p pre IH]; intros s fuel E Hp; simpl in E.
  - destruct (slices_from fuel s n cs) as [|se rest] eqn:Es; simpl in E; [discriminate|].
    inversion E; subst. eapply slices_from_full; [exact Hcs|exact Es|].
    intro C; subst rest; simpl in *. apply Hp. reflexivity.
  - destruct fuel as [|f]; simpl in E; [discriminate|].
    destruct (Nat.leb_spec n s); simpl in E; [discriminate|].
    inversion E; subst. eapply IH; eauto.
Qed.

(* ---------- the generator state machine ---------- *)
Section GeneratorP.
  Context {seed sample : Type}.
  Context (stream : seed -> nat -> sample).
  Context (width : nat).

  Notation state := (@state seed).
  Notation run := (run stream width).
  Notation step := (step stream width).
  Notation draws := (draws stream width).
  Notation draw := (draw stream width).

  Lemma run_app h t (st : state) :
    run (h ++ t) st =
    let '(s1, o1) := run h st in let '(s2, o2) := run t s1 in (s2, o1 ++ o2).
  Proof.
    revert st. induction h as [|o h IH]; intros st; simpl.
    - destruct (run t st). reflexivity.
    - destruct (step o st) as [s1 out]. rewrite IH.
      destruct (run h s1) as [s2 o1]. destruct (run t s2) as [s3 o2]. reflexivity.
  Qed.

  Lemma draws_seed sizes (st : state) : st_seed (fst (draws st sizes)) = st_seed st.
  Proof.
    revert st. induction sizes as [|k r IH]; intros st; simpl; [reflexivity|].
    specialize (IH (mkState (st_seed st) (st_pos st + width * k))). simpl in IH.
    destruct (draws _ r) as [s2 cs]. simpl in *. exact IH.
  Qed.

  Lemma step_seed o (st : state) : st_seed (fst (step o st)) = seed_after [o] (st_seed st).
  Proof.
    destruct o; simpl; try reflexivity.
    pose proof (draws_seed (random_sizes n cs) (reseed st)) as H. exact H.
  Qed.

  Lemma run_seed h (st : state) : st_seed (fst (run h st)) = seed_after h (st_seed st).
  Proof.
    revert st. induction h as [|o h IH]; intros st; simpl; [reflexivity|].
    pose proof (step_seed o st) as Hs. destruct (step o st) as [s1 out]. simpl in Hs.
    specialize (IH s1). destruct (run h s1) as [s2 outs]. simpl in *. rewrite IH, Hs.
    destruct o; reflexivity.
  Qed.

  (* the state after reseed() is a function of the seed only *)
  Lemma reseed_fresh (st : state) : reseed st = fresh (st_seed st).
  Proof. reflexivity. Qed.

  Lemma last_app_single {A} (l : list A) x d : last (l ++ [x]) d = x.
  Proof. induction l as [|y l IH]; simpl; [reflexivity|]. destruct (l ++ [x]) eqn:E; [destruct l; discriminate|exact IH]. Qed.

  (* outputs of an operation that begins with reseed() do not depend on ANY earlier history *)
  Theorem reseed_history_free_gen h n cs (st : state) :
    outputs_of_last (run (h ++ [Pass n cs]) st) =
    outputs_of_last (run [Pass n cs] (fresh (seed_after h (st_seed st)))).
  Proof.
    rewrite run_app. pose proof (run_seed h st) as Hs.
    destruct (run h st) as [s1 o1]. simpl in Hs. simpl.
    rewrite (reseed_fresh s1), Hs.
    change (reseed (fresh (seed_after h (st_seed st)))) with (fresh (seed_after h (st_seed st))).
    destruct (draws (fresh (seed_after h (st_seed st))) (random_sizes n cs)) as [s2 out].
    unfold outputs_of_last. simpl. apply last_app_single.
  Qed.

  Theorem probe_history_free_gen h k (st : state) :
    outputs_of_last (run (h ++ [Probe k]) st) =
    outputs_of_last (run [Probe k] (fresh (seed_after h (st_seed st)))).
  Proof.
    rewrite run_app. pose proof (run_seed h st) as Hs.
    destruct (run h st) as [s1 o1]. simpl in Hs.
    unfold outputs_of_last. simpl. rewrite last_app_single, Hs. reflexivity.
  Qed.

  (* histories that never call reseed(new_seed): probes, direct calls, reseeds, partial and
     complete passes, in any number and order *)
  Definition keeps_seed (h : list (op seed)) : Prop :=
    Forall (fun o => match o with SetSeed _ => False | _ => True end) h.

  Lemma seed_after_keeps h s : keeps_seed h -> seed_after h s = s.
  Proof.
    intros H. revert s. induction H as [|o h Ho Hh IH]; intros s; simpl; [reflexivity|].
    destruct o; try apply IH. contradiction.
  Qed.

  Theorem reseed_history_free h n cs (s : seed) :
    keeps_seed h ->
    outputs_of_last (run (h ++ [Pass n cs]) (fresh s)) = outputs_of_last (run [Pass n cs] (fresh s)).
  Proof. intros H. rewrite reseed_history_free_gen. simpl. rewrite seed_after_keeps by exact H. reflexivity. Qed.

  (* a partial pass is a history of that kind *)
  Lemma partial_pass_keeps n cs j : keeps_seed (partial_pass n cs j).
  Proof.
    constructor; [exact I|]. constructor; [exact I|]. apply Forall_map. apply Forall_forall. intros; exact I.
  Qed.

  (* ---------- shape of the outputs ---------- *)
  Lemma draws_sizes sizes (st : state) : map ch_size (snd (draws st sizes)) = sizes.
  Proof.
    revert st. induction sizes as [|k r IH]; intros st; simpl; [reflexivity|].
    specialize (IH (mkState (st_seed st) (st_pos st + width * k))).
    destruct (draws _ r) as [s2 cs]. simpl in *. rewrite IH. reflexivity.
  Qed.

  Lemma draws_shape sizes (st : state) :
    Forall (fun c => length (ch_vecs c) = width /\ Forall (fun v => length v = ch_size c) (ch_vecs c))
           (snd (draws st sizes)).
  Proof.
    revert st. induction sizes as [|k r IH]; intros st; simpl; [constructor|].
    specialize (IH (mkState (st_seed st) (st_pos st + width * k))).
    destruct (draws _ r) as [s2 cs]. simpl in *. constructor; [|exact IH]. simpl. split.
    - rewrite map_length, seq_length. reflexivity.
    - apply Forall_map. apply Forall_forall. intros v _. unfold draw_vec.
      rewrite map_length, seq_length. reflexivity.
  Qed.

  (* a pass produces exactly n records, in chunks of 1..cs *)
  Theorem pass_total n cs (st : state) :
    1 <= cs ->
    let out := outputs_of_last (run [Pass n cs] st) in
    nsum (map ch_size out) = n /\ Forall (fun c => 1 <= ch_size c <= cs) out /\
    Forall (fun c => length (ch_vecs c) = width /\ Forall (fun v => length v = ch_size c) (ch_vecs c)) out.
  Proof.
    intros Hcs. unfold outputs_of_last. simpl.
    pose proof (draws_sizes (random_sizes n cs) (reseed st)) as Hsz.
    pose proof (draws_shape (random_sizes n cs) (reseed st)) as Hsh.
    destruct (draws (reseed st) (random_sizes n cs)) as [s2 out]. simpl in *.
    destruct (random_sizes_sum n cs Hcs) as [Hsum Hb].
    split; [rewrite Hsz; exact Hsum|]. split; [|exact Hsh].
    rewrite <- Hsz in Hb. rewrite Forall_map in Hb. exact Hb.
  Qed.

  (* the chunks are consecutive blocks of the stream of the seed, starting at position 0:
     chunk i starts at width * (sum of the earlier sizes) *)
  Lemma draws_content sizes (st : state) :
    snd (draws st sizes) =
    snd (fold_left (fun '(p, acc) k =>
                      (p + width * k,
                       acc ++ [mkChunk k (map (fun v => draw_vec stream (st_seed st) (p + v * k) k) (seq 0 width))]))
                   sizes (st_pos st, [])).
  Proof.
    enough (G : forall acc, acc ++ snd (draws st sizes) =
       snd (fold_left (fun '(p, acc) k =>
                      (p + width * k,
                       acc ++ [mkChunk k (map (fun v => draw_vec stream (st_seed st) (p + v * k) k) (seq 0 width))]))
                   sizes (st_pos st, acc))) by (apply (G [])).
    revert st. induction sizes as [|k r IH]; intros st acc; simpl; [apply app_nil_r|].
    specialize (IH (mkState (st_seed st) (st_pos st + width * k))). simpl in IH.
    destruct (draws _ r) as [s2 cs]. simpl in *. rewrite <- IH, <- app_assoc. reflexivity.
  Qed.

  (* visible trace = sizes of all chunks, in order *)
  Lemma calls_ECall l : calls (map ECall l) = l.
  Proof. unfold calls. induction l as [|k r IHr]; simpl; [reflexivity|]. f_equal. exact IHr. Qed.

  Lemma step_calls o (st : state) : map ch_size (snd (step o st)) = calls (op_events o).
  Proof.
    destruct o; simpl; try reflexivity.
    pose proof (draws_sizes (random_sizes n cs) (reseed st)) as H.
    destruct (draws (reseed st) (random_sizes n cs)) as [s2 out]. simpl in *. rewrite H.
    symmetry. apply calls_ECall.
  Qed.

  Lemma calls_app a b : calls (a ++ b) = calls a ++ calls b.
  Proof. unfold calls. rewrite map_app, concat_app. reflexivity. Qed.

  Theorem run_calls ops (st : state) : map ch_size (concat (snd (run ops st))) = calls (trace ops).
  Proof.
    revert st. induction ops as [|o r IH]; intros st; simpl; [reflexivity|].
    pose proof (step_calls o st) as Hc. destruct (step o st) as [s1 out].
    specialize (IH s1). destruct (run r s1) as [s2 outs]. simpl in *.
    unfold trace. simpl. rewrite map_app, calls_app, Hc. f_equal. exact IH.
  Qed.
End GeneratorP.

(* repeated reseeds are one reseed: the collapsed trace loses nothing *)
Lemma reseed_idem {seed} (st : @state seed) : reseed (reseed st) = reseed st.
Proof. reflexivity. Qed.

Lemma collapse_calls evs : calls (collapse evs) = calls evs.
Proof.
  induction evs as [|e r IH]; [reflexivity|].
  destruct e; [|simpl; unfold calls in *; simpl; f_equal; exact IH].
  destruct r as [|e' r']; [reflexivity|].
  destruct e'; [exact IH|].
  change (collapse (EReseed :: ECall k :: r')) with (EReseed :: collapse (ECall k :: r')).
  unfold calls in *. simpl in *. exact IH.
Qed.

(* without the reseed at the start of a pass, history matters *)
Theorem noreseed_refuted :
  exists (h : list (op nat)) n cs s,
    outputs_of_last (run_noreseed (fun sd p => sd + p) 2 (h ++ [Pass n cs]) (fresh s)) <>
    outputs_of_last (run_noreseed (fun sd p => sd + p) 2 [Pass n cs] (fresh s)).
Proof. exists [Draw 1], 3, 2, 7. vm_compute. discriminate. Qed.

(* the last pass of an event log that ends with the model trace of a pass *)
Lemma after_last_reseed_calls l acc : after_last_reseed (map ECall l) acc = acc ++ l.
Proof.
  revert acc. induction l as [|k l IH]; intros acc; simpl; [symmetry; apply app_nil_r|].
  rewrite IH, <- app_assoc. reflexivity.
Qed.

Lemma after_last_reseed_app pre l acc :
  after_last_reseed (pre ++ EReseed :: map ECall l) acc = l.
Proof.
  revert acc. induction pre as [|e pre IH]; intros acc; simpl.
  - apply (after_last_reseed_calls l []).
  - destruct e; apply IH.
Qed.

Theorem from_random_last_pass (seed : Type) n cs probe :
  after_last_reseed (trace (@from_random_ops seed n cs probe)) [] = random_sizes n cs.
Proof.
  unfold from_random_ops, trace. destruct probe as [k|]; simpl; rewrite app_nil_r.
  - apply (after_last_reseed_app [EReseed; ECall k] (random_sizes n cs) []).
  - apply (after_last_reseed_app [] (random_sizes n cs) []).
Qed.

(* ---------- joint attribute draw ---------- *)
Theorem joint_draw weights redshifts idx i :
  i < length idx ->
  exists j, j = nth i idx 0 /\
    nth i (draw_attributes weights redshifts idx) (0%Q, 0%Q) = (nth j weights 0%Q, nth j redshifts 0%Q).
Proof.
  intros Hi. exists (nth i idx 0). split; [reflexivity|]. unfold draw_attributes.
  rewrite nth_indep with (d' := (fun j => (nth j weights 0%Q, nth j redshifts 0%Q)) 0)
    by (rewrite map_length; exact Hi).
  apply (map_nth (fun j => (nth j weights 0%Q, nth j redshifts 0%Q)) idx 0 i).
Qed.

Theorem joint_draw_length weights redshifts idx :
  length (draw_attributes weights redshifts idx) = length idx.
Proof. apply map_length. Qed.

(* every drawn pair is a ROW of the attribute table *)
Theorem joint_draw_rows weights redshifts idx :
  length weights = length redshifts ->
  Forall (fun j => j < length weights) idx ->
  forall wz, In wz (draw_attributes weights redshifts idx) -> In wz (combine weights redshifts).
Proof.
  intros Hl Hidx wz Hin. unfold draw_attributes in Hin. apply in_map_iff in Hin.
  destruct Hin as [j [E Hj]]. subst wz. rewrite Forall_forall in Hidx. specialize (Hidx j Hj).
  rewrite <- (combine_nth weights redshifts j 0%Q 0%Q Hl). apply nth_In.
  rewrite combine_length, <- Hl, Nat.min_id. exact Hidx.
Qed.

(* two independent index vectors can produce a pair that is no row *)
Theorem indep_draw_refuted :
  exists weights redshifts idx1 idx2 wz,
    length weights = length redshifts /\
    Forall (fun j => j < length weights) idx1 /\ Forall (fun j => j < length weights) idx2 /\
    In wz (draw_attributes_indep weights redshifts idx1 idx2) /\
    ~ In wz (combine weights redshifts).
Proof.
  exists [1%Q; 2%Q], [3%Q; 4%Q], [0], [1], (1%Q, 4%Q). simpl.
  split; [reflexivity|]. split; [repeat constructor|]. split; [repeat constructor|].
  split; [left; reflexivity|]. intros [H|[H|[]]]; discriminate.
Qed.

(* attributes of a generated chunk: rows of the table, whatever the stream is *)
Theorem chunk_attributes_rows {sample} (to_index : nat -> sample -> nat) weights redshifts (c : @chunk sample) :
  length weights = length redshifts ->
  (forall s, to_index (length weights) s < length weights) ->
  forall wz, In wz (chunk_attributes to_index weights redshifts c) -> In wz (combine weights redshifts).
Proof.
  intros Hl Hb. apply joint_draw_rows; [exact Hl|]. apply Forall_map. apply Forall_forall.
  intros s _. apply Hb.
Qed.

(* the executable checker is sound for the row property *)
Theorem joint_ok_sound weights redshifts pairs :
  joint_ok weights redshifts pairs = true ->
  forall wz, In wz pairs ->
  exists j, j < length weights /\ j < length redshifts /\
            (fst wz == nth j weights 0)%Q /\ (snd wz == nth j redshifts 0)%Q.
Proof.
  unfold joint_ok. rewrite forallb_forall. intros H wz Hin. specialize (H wz Hin).
  apply existsb_exists in H. destruct H as [j [Hj Hb]].
  apply in_seq in Hj. apply andb_true_iff in Hb. destruct Hb as [H1 H2].
  exists j. repeat split; try lia; apply Qeq_bool_iff; assumption.
Qed.


(* ---------- attribute tables with arbitrary content (NaN, inf, duplicates, one row) ---------- *)
Lemma fval_eqb_same a b : fval_eqb a b = true <-> fval_same a b.
Proof.
  destruct a, b; simpl; try (split; [discriminate|intros []]); try (split; auto; fail).
  unfold Qeqb. apply Qeq_bool_iff.
Qed.

Lemma fval_eqb_refl a : fval_eqb a a = true.
Proof. apply fval_eqb_same. destruct a; simpl; auto. reflexivity. Qed.

(* a NaN row is a row: the value-level comparison does not lose it *)
Lemma fval_same_nan : fval_same FNaN FNaN /\ fval_eqb FNaN FNaN = true.
Proof. split; [exact I|reflexivity]. Qed.

(* the Q model is the instance A = Q *)
Lemma draw_attributes_is_g weights redshifts idx :
  draw_attributes weights redshifts idx = draw_attributes_g 0%Q weights redshifts idx.
Proof. reflexivity. Qed.

Section AttrTableP.
  Context {A : Type} (d : A).

  Theorem joint_draw_g (ws zs : list A) idx i :
    i < length idx ->
    nth i (draw_attributes_g d ws zs idx) (d, d) = (nth (nth i idx 0) ws d, nth (nth i idx 0) zs d).
  Proof.
    intros Hi. unfold draw_attributes_g.
    rewrite nth_indep with (d' := (fun j => (nth j ws d, nth j zs d)) 0)
      by (rewrite map_length; exact Hi).
    apply (map_nth (fun j => (nth j ws d, nth j zs d)) idx 0 i).
  Qed.

  Theorem joint_draw_length_g (ws zs : list A) idx : length (draw_attributes_g d ws zs idx) = length idx.
  Proof. apply map_length. Qed.

  (* every drawn pair is a ROW of the table, whatever the values are *)
  Theorem joint_draw_rows_g (ws zs : list A) idx :
    length ws = length zs ->
    Forall (fun j => j < length ws) idx ->
    forall wz, In wz (draw_attributes_g d ws zs idx) -> In wz (combine ws zs).
  Proof.
    intros Hl Hidx wz Hin. unfold draw_attributes_g in Hin. apply in_map_iff in Hin.
    destruct Hin as [j [E Hj]]. subst wz. rewrite Forall_forall in Hidx. specialize (Hidx j Hj).
    rewrite <- (combine_nth ws zs j d d Hl). apply nth_In.
    rewrite combine_length, <- Hl, Nat.min_id. exact Hidx.
  Qed.

  (* drawing from ANY prepared table whose rows are rows of the supplied samples gives rows of
     the supplied samples: pass-through, row selection, row permutation, row repetition *)
  Theorem prepared_draw_rows (ws zs ws' zs' : list A) idx :
    length ws' = length zs' ->
    incl (combine ws' zs') (combine ws zs) ->
    Forall (fun j => j < length ws') idx ->
    forall wz, In wz (draw_attributes_g d ws' zs' idx) -> In wz (combine ws zs).
  Proof.
    intros Hl Hincl Hidx wz Hin. apply Hincl. exact (joint_draw_rows_g ws' zs' idx Hl Hidx wz Hin).
  Qed.

  Lemma split_fst_snd (l : list (A * A)) : List.split l = (map fst l, map snd l).
  Proof.
    induction l as [|[a b] l IH]; simpl; [reflexivity|]. rewrite IH. reflexivity.
  Qed.

  Lemma combine_map_fst_snd (l : list (A * A)) : combine (map fst l) (map snd l) = l.
  Proof. induction l as [|[a b] l IH]; simpl; [reflexivity|]. rewrite IH. reflexivity. Qed.

  (* dropping whole rows (both columns by ONE mask) keeps the two columns aligned *)
  Theorem prepare_joint_rows (keep : A -> bool) (ws zs : list A) :
    let t := prepare_joint keep ws zs in
    length (fst t) = length (snd t) /\ incl (combine (fst t) (snd t)) (combine ws zs).
  Proof.
    unfold prepare_joint. rewrite split_fst_snd. simpl. split.
    - rewrite !map_length. reflexivity.
    - rewrite combine_map_fst_snd. intros wz Hin. apply filter_In in Hin. tauto.
  Qed.

  Theorem joint_filter_draw_rows (keep : A -> bool) (ws zs : list A) idx :
    let t := prepare_joint keep ws zs in
    Forall (fun j => j < length (fst t)) idx ->
    forall wz, In wz (draw_attributes_g d (fst t) (snd t) idx) -> In wz (combine ws zs).
  Proof.
    intros t Hidx. destruct (prepare_joint_rows keep ws zs) as [Hl Hincl].
    exact (prepared_draw_rows ws zs (fst t) (snd t) idx Hl Hincl Hidx).
  Qed.

  (* the executable checker is sound for the row property, for any sound comparison *)
  Theorem joint_ok_g_sound (eqb : A -> A -> bool) (R : A -> A -> Prop) :
    (forall a b, eqb a b = true -> R a b) ->
    forall ws zs pairs, joint_ok_g d eqb ws zs pairs = true ->
    forall wz, In wz pairs ->
    exists j, j < length ws /\ j < length zs /\ R (fst wz) (nth j ws d) /\ R (snd wz) (nth j zs d).
  Proof.
    intros HR ws zs pairs H wz Hin. unfold joint_ok_g in H. rewrite forallb_forall in H.
    specialize (H wz Hin). apply existsb_exists in H. destruct H as [j [Hj Hb]].
    apply in_seq in Hj. apply andb_true_iff in Hb. destruct Hb as [H1 H2].
    exists j. repeat split; try lia; apply HR; assumption.
  Qed.

  (* ... and complete: what is drawn jointly from the table passes *)
  Theorem joint_ok_g_complete (eqb : A -> A -> bool) :
    (forall a, eqb a a = true) ->
    forall ws zs idx, length ws = length zs -> Forall (fun j => j < length ws) idx ->
    joint_ok_g d eqb ws zs (draw_attributes_g d ws zs idx) = true.
  Proof.
    intros Hrefl ws zs idx Hl Hidx. unfold joint_ok_g, draw_attributes_g. apply forallb_forall.
    intros wz Hin. apply in_map_iff in Hin. destruct Hin as [j [E Hj]]. subst wz.
    rewrite Forall_forall in Hidx. specialize (Hidx j Hj).
    apply existsb_exists. exists j. split.
    - apply in_seq. rewrite <- Hl, Nat.min_id. lia.
    - simpl. rewrite !Hrefl. reflexivity.
  Qed.
End AttrTableP.

(* the index twin shows the index vector, and the draw over any table is the twin's indices
   looked up in that table: the table content never influences WHICH rows are drawn *)
Theorem twin_index m idx :
  Forall (fun j => j < m) idx -> map fst (twin_attributes m idx) = idx /\ map snd (twin_attributes m idx) = idx.
Proof.
  intros H. unfold twin_attributes, draw_attributes_g. rewrite !map_map. simpl.
  split; rewrite <- (map_id idx) at 2; apply map_ext_in; intros j Hj;
    rewrite Forall_forall in H; specialize (H j Hj); rewrite seq_nth by exact H; reflexivity.
Qed.

Theorem draw_via_twin {A} (d : A) (ws zs : list A) m idx :
  Forall (fun j => j < m) idx ->
  draw_attributes_g d ws zs idx =
  map (fun j => (nth j ws d, nth j zs d)) (map fst (twin_attributes m idx)).
Proof. intros H. rewrite (proj1 (twin_index m idx H)). reflexivity. Qed.

(* two columns compacted independently: the lengths can still agree while the rows do not *)
Theorem indep_filter_refuted :
  exists (ws zs : list fval) idx wz,
    length ws = length zs /\
    let t := prepare_indep fval_finite ws zs in
    length (fst t) = length (snd t) /\
    Forall (fun j => j < length (fst t)) idx /\
    In wz (draw_attributes_g FNaN (fst t) (snd t) idx) /\
    ~ In wz (combine ws zs) /\
    joint_ok_g (FFin 0) fval_eqb ws zs [wz] = false.
Proof.
  exists [FNaN; FFin 2; FFin 3], [FFin (1#8); FFin (2#8); FNaN], [0], (FFin 2, FFin (1#8)). simpl.
  split; [reflexivity|]. split; [reflexivity|]. split; [repeat constructor|].
  split; [left; reflexivity|]. split; [|vm_compute; reflexivity].
  intros [H|[H|[H|[]]]]; discriminate.
Qed.

(* the same table with the rows selected by ONE mask: every drawn pair is a row *)
Example joint_filter_instance :
  let ws := [FNaN; FFin 2; FFin 3] in
  let zs := [FFin (1#8); FFin (2#8); FNaN] in
  prepare_joint fval_finite ws zs = ([FFin 2], [FFin (2#8)]) /\
  joint_ok_g (FFin 0) fval_eqb ws zs (draw_attributes_g FNaN ws zs [0; 2; 1; 0]) = true.
Proof. vm_compute. split; reflexivity. Qed.

(* status 0 of the checker means what the flags say *)
Theorem c16_attr_case_zero k nout m ra0 ra1 dec0 dec1 ras decs ws zs wbits zbits twin coords_same pairs pbits repro :
  c16_attr_case k nout m ra0 ra1 dec0 dec1 ras decs ws zs wbits zbits twin coords_same pairs pbits repro = 0 ->
  nout = k /\ length pairs = k /\
  (forall wz, In wz pairs ->
     exists j, j < length ws /\ j < length zs /\
               fval_same (fst wz) (nth j ws (FFin 0)) /\ fval_same (snd wz) (nth j zs (FFin 0))) /\
  repro = true.
Proof.
  unfold c16_attr_case, code. simpl.
  destruct (_ && list_eqb _ _ _); [|simpl; lia].
  destruct ((nout =? k) && (length ras =? k) && (length decs =? k) && (length pairs =? k)) eqn:E1; [|simpl; lia].
  destruct (in_window ra0 ra1 ras && in_window dec0 dec1 decs); [|simpl; lia].
  destruct (joint_ok_g (FFin 0) fval_eqb ws zs pairs) eqn:E3; [|simpl; lia].
  destruct repro; [|simpl; lia].
  intros _. apply andb_true_iff in E1. destruct E1 as [E1 Ep]. apply andb_true_iff in E1. destruct E1 as [E1 _].
  apply andb_true_iff in E1. destruct E1 as [E1 _].
  apply Nat.eqb_eq in E1. apply Nat.eqb_eq in Ep.
  repeat split; try assumption.
  apply (joint_ok_g_sound (FFin 0) fval_eqb fval_same (fun a b => proj1 (fval_eqb_same a b)) ws zs pairs E3).
Qed.


(* ====================== several generator objects alive at once ====================== *)
Lemma nth_error_set_nth_eq {A} (l : list A) i x y :
  nth_error l i = Some y -> nth_error (set_nth i x l) i = Some x.
Proof.
  revert i. induction l as [|a l IH]; intros [|i]; simpl; try discriminate; auto.
Qed.

Lemma nth_error_set_nth_neq {A} (l : list A) i j x :
  i <> j -> nth_error (set_nth j x l) i = nth_error l i.
Proof.
  revert i j. induction l as [|a l IH]; intros [|i] [|j] H; simpl; try reflexivity; try congruence.
  apply IH. congruence.
Qed.

Lemma set_nth_length {A} (l : list A) i x : length (set_nth i x l) = length l.
Proof. revert i. induction l as [|a l IH]; intros [|i]; simpl; auto. Qed.

Section WorldP.
  Context {seed sample : Type}.
  Context (stream : seed -> nat -> sample).
  Notation gen := (gen seed).
  Notation wop := (wop seed).
  Notation wrun := (@wrun seed sample stream).
  Notation outputs_of := (@outputs_of sample).

  (* NON-INTERFERENCE: whatever else is constructed and used in between, and in whatever order,
     object i produces what it produces alone, and ends in the state it reaches alone *)
  Theorem world_independent (sched : list wop) : forall (w : list gen) i g,
    nth_error w i = Some g ->
    let r := run stream (g_width g) (project i sched) (g_state g) in
    outputs_of i (snd (wrun sched w)) = snd r /\
    nth_error (fst (wrun sched w)) i = Some (mkGen (g_hasw g) (g_hasz g) (fst r)).
  Proof.
    induction sched as [|a sched IH]; intros w i g Hi; simpl.
    - split; [reflexivity|]. rewrite Hi. destruct g; reflexivity.
    - destruct a as [hw hz s|j o]; simpl.
      + assert (Hi' : nth_error (w ++ [mkGen hw hz (fresh s)]) i = Some g).
        { rewrite nth_error_app1; [exact Hi|]. apply nth_error_Some. congruence. }
        specialize (IH _ _ _ Hi'). simpl in IH.
        destruct (wrun sched (w ++ [mkGen hw hz (fresh s)])) as [w2 outs]. exact IH.
      + destruct (Nat.eqb_spec j i) as [->|Hne].
        * rewrite Hi. simpl.
          destruct (step stream (g_width g) o (g_state g)) as [st1 out] eqn:Es.
          set (g' := mkGen (g_hasw g) (g_hasz g) st1) in *.
          assert (Hi' : nth_error (set_nth i g' w) i = Some g') by (eapply nth_error_set_nth_eq; exact Hi).
          specialize (IH _ _ _ Hi'). simpl in IH. unfold g_width in *. simpl in IH.
          destruct (wrun sched (set_nth i g' w)) as [w2 outs]. simpl.
          destruct (run stream (cfg_width (g_hasw g) (g_hasz g)) (project i sched) st1) as [st2 outs2].
          simpl in *. destruct IH as [IH1 IH2]. rewrite Nat.eqb_refl. simpl.
          split; [f_equal; exact IH1|exact IH2].
        * destruct (nth_error w j) as [gj|] eqn:Ej.
          -- destruct (step stream (g_width gj) o (g_state gj)) as [st1 out].
             assert (Hi' : nth_error (set_nth j (mkGen (g_hasw gj) (g_hasz gj) st1) w) i = Some g).
             { rewrite nth_error_set_nth_neq; [exact Hi|congruence]. }
             specialize (IH _ _ _ Hi'). simpl in IH.
             destruct (wrun sched (set_nth j _ w)) as [w2 outs]. simpl.
             destruct (Nat.eqb_spec j i); [congruence|]. simpl. exact IH.
          -- specialize (IH _ _ _ Hi). simpl in IH.
             destruct (wrun sched w) as [w2 outs]. exact IH.
  Qed.

  Lemma wrun_app (a b : list wop) (w : list gen) :
    wrun (a ++ b) w =
    let '(w1, o1) := wrun a w in let '(w2, o2) := wrun b w1 in (w2, o1 ++ o2).
  Proof.
    revert w. induction a as [|x a IH]; intros w; simpl.
    - destruct (wrun b w). reflexivity.
    - destruct (wstep stream x w) as [w1 out]. rewrite IH.
      destruct (wrun a w1) as [w2 o1]. destruct (wrun b w2) as [w3 o2]. destruct out; reflexivity.
  Qed.

  (* ... also for an object constructed in the middle of a schedule, after any earlier use [pre]
     of the objects that existed before *)
  Theorem world_new_independent (pre rest : list wop) (w : list gen) hw hz s :
    let w1 := fst (wrun pre w) in
    outputs_of (length w1) (snd (wrun (WNew hw hz s :: rest) w1)) =
    snd (run stream (cfg_width hw hz) (project (length w1) rest) (fresh s)).
  Proof.
    intros w1. simpl.
    pose proof (world_independent rest (w1 ++ [mkGen hw hz (fresh s)]) (length w1) (mkGen hw hz (fresh s))) as H.
    simpl in H. destruct (wrun rest (w1 ++ [mkGen hw hz (fresh s)])) as [w2 outs]. simpl in *.
    apply H. rewrite nth_error_app2, Nat.sub_diag; [reflexivity|lia].
  Qed.

  (* every chunk has as many vectors as ITS OWN object draws: 2 (x, y), or 3 when it was given
     weights or redshifts (the index vector) *)
  Lemma step_shape width o (st : @state seed) :
    Forall (fun c : @chunk sample => length (ch_vecs c) = width) (snd (step stream width o st)).
  Proof.
    destruct o; simpl; try constructor; simpl;
      try (rewrite map_length, seq_length; reflexivity); try constructor.
    pose proof (draws_shape stream width (random_sizes n cs) (reseed st)) as H.
    eapply Forall_impl; [|exact H]. simpl. intros c [Hc _]. exact Hc.
  Qed.

  Lemma run_shape width ops (st : @state seed) :
    Forall (Forall (fun c : @chunk sample => length (ch_vecs c) = width)) (snd (run stream width ops st)).
  Proof.
    revert st. induction ops as [|o r IH]; intros st; simpl; [constructor|].
    pose proof (step_shape width o st) as Hs. destruct (step stream width o st) as [s1 out].
    specialize (IH s1). destruct (run stream width r s1) as [s2 outs]. simpl in *.
    constructor; assumption.
  Qed.

  Theorem world_chunk_width (sched : list wop) (w : list gen) i g :
    nth_error w i = Some g ->
    Forall (Forall (fun c : @chunk sample => length (ch_vecs c) = cfg_width (g_hasw g) (g_hasz g)))
           (outputs_of i (snd (wrun sched w))).
  Proof.
    intros Hi. destruct (world_independent sched w i g Hi) as [H _]. rewrite H. apply run_shape.
  Qed.
End WorldP.

(* with ONE shared set of flags the statement is false (compare world_new_independent with
   pre = [] and w = []): object 0 was given weights and redshifts, a second object without them is
   constructed, and object 0 then draws no index vector *)
Theorem shared_flags_refuted :
  exists (rest : list (wop nat)) hw hz s,
    outputs_of 0 (snd (wrun_shared (fun sd p => sd + p) (WNew hw hz s :: rest) (false, false) [])) <>
    snd (run (fun sd p => sd + p) (cfg_width hw hz) (project 0 rest) (fresh s)).
Proof.
  exists [WNew false false 7; WOp 0 (Draw 2)], true, true, 100. vm_compute. discriminate.
Qed.

(* status 0 of the checker means what the flags say *)
Theorem c16_multi_gen_zero hw hz obs evs evs_solo ra0 ra1 dec0 dec1 ras decs weights redshifts pairs :
  c16_multi_gen hw hz obs evs evs_solo ra0 ra1 dec0 dec1 ras decs weights redshifts pairs = 0 ->
  Forall (fun o => mo_n o = op_total (mo_ops o) /\ mo_same o = true /\
                   (op_total (mo_ops o) <> 0 -> mo_w o = hw /\ mo_z o = hz)) obs /\
  (forall wz, In wz pairs ->
     exists j, j < length weights /\ j < length redshifts /\
               (fst wz == nth j weights 0)%Q /\ (snd wz == nth j redshifts 0)%Q).
Proof.
  unfold c16_multi_gen, code. simpl.
  destruct (history_agree _ evs && history_agree _ evs_solo); [|simpl; lia].
  destruct (forallb (fun o => mo_n o =? op_total (mo_ops o)) obs && _ && _) eqn:E1; [|simpl; lia].
  destruct (in_window ra0 ra1 ras && in_window dec0 dec1 decs); [|simpl; lia].
  destruct (joint_ok weights redshifts pairs) eqn:E3; [|simpl; lia].
  destruct (forallb mo_same obs) eqn:E4; [|simpl; lia].
  destruct (forallb _ obs && (length pairs =? _)) eqn:E5; [|simpl; lia].
  intros _. split; [|apply joint_ok_sound; exact E3].
  apply andb_true_iff in E1. destruct E1 as [E1 _]. apply andb_true_iff in E1. destruct E1 as [E1 _].
  apply andb_true_iff in E5. destruct E5 as [E5 _].
  rewrite forallb_forall in E1, E4, E5. apply Forall_forall. intros o Ho.
  split; [apply Nat.eqb_eq, E1, Ho|]. split; [apply E4, Ho|].
  intros Hnz. specialize (E5 o Ho). apply orb_true_iff in E5. destruct E5 as [E5|E5].
  - apply Nat.eqb_eq in E5. contradiction.
  - apply andb_true_iff in E5. destruct E5 as [Ea Eb]. split; apply eqb_prop; assumption.
Qed.

(* ---------- observers (ambient state: logging, progress, diagnostics) ---------- *)
Lemma nsum_app a b : nsum (a ++ b) = nsum a + nsum b.
Proof. unfold nsum. induction a as [|x a IH]; simpl; [reflexivity|]. rewrite IH. lia. Qed.

Lemma after_last_reseed_cat a b acc :
  after_last_reseed (a ++ b) acc = after_last_reseed b (after_last_reseed a acc).
Proof.
  revert acc. induction a as [|e a IH]; intros acc; simpl; [reflexivity|].
  destruct e; apply IH.
Qed.

Section ObserversP.
  Context {seed sample : Type}.
  Context (stream : seed -> nat -> sample).
  Context (width : nat).

  Notation state := (@state seed).
  Notation observe := (@observe seed sample stream width).
  Notation observe_all := (@observe_all seed sample stream width).
  Notation draws_obs := (@draws_obs seed sample stream width).
  Notation pass_obs := (@pass_obs seed sample stream width).
  Notation pass_with := (@pass_with seed sample stream width).
  Notation draws := (draws stream width).
  Notation step := (step stream width).

  (* no observer of this kind changes the seed in force *)
  Lemma observe_seed o (st : state) : st_seed (fst (observe o st)) = st_seed st.
  Proof. destruct o; reflexivity. Qed.

  Lemma observe_all_seed os (st : state) : st_seed (observe_all os st) = st_seed st.
  Proof.
    revert st. induction os as [|o os IH]; intros st; simpl; [reflexivity|].
    unfold Randoms.observe_all in *. simpl. rewrite IH. apply observe_seed.
  Qed.

  (* observers that look at a copy (or restore what they touched) leave every state as it is *)
  Lemma observe_transparent o (st : state) : transparent o = true -> fst (observe o st) = st.
  Proof. destruct o; simpl; intros H; try discriminate; reflexivity. Qed.

  Lemma observe_all_transparent os (st : state) : forallb transparent os = true -> observe_all os st = st.
  Proof.
    revert st. induction os as [|o os IH]; intros st H; simpl in *; [reflexivity|].
    apply andb_true_iff in H. destruct H as [Ho Hos].
    unfold Randoms.observe_all in *. simpl. rewrite (observe_transparent o st Ho). apply IH. exact Hos.
  Qed.

  Lemma draws_obs_transparent each (st : state) sizes :
    forallb transparent each = true -> draws_obs each st sizes = draws st sizes.
  Proof.
    intros H. revert st. induction sizes as [|k r IH]; intros st; simpl; [reflexivity|].
    rewrite (observe_all_transparent each _ H). rewrite IH. reflexivity.
  Qed.

  Lemma draws_obs_nil (st : state) sizes : draws_obs [] st sizes = draws st sizes.
  Proof. apply draws_obs_transparent. reflexivity. Qed.

  (* with the observers switched off a pass is the pass of the generator *)
  Theorem pass_obs_off h n cs (st : state) : pass_obs false h n cs st = step (Pass n cs) st.
  Proof. reflexivity. Qed.

  (* a pass does not depend on whether transparent observers run: the records are a function of
     the seed in force, whatever the ambient state switches on *)
  Theorem pass_obs_transparent on h n cs (st : state) :
    forallb transparent (h_start h) = true -> forallb transparent (h_each h) = true ->
    pass_obs on h n cs st = step (Pass n cs) st.
  Proof.
    intros Hs He. destruct on; [|reflexivity]. unfold Randoms.pass_obs.
    rewrite (observe_all_transparent _ _ Hs). apply draws_obs_transparent. exact He.
  Qed.

  Corollary pass_obs_ambient_free h n cs (st : state) :
    forallb transparent (h_start h) = true -> forallb transparent (h_each h) = true ->
    pass_obs true h n cs st = pass_obs false h n cs st.
  Proof. intros Hs He. rewrite !pass_obs_transparent by assumption. reflexivity. Qed.

  (* ANY observers at the start of a pass are harmless when the state is restored by re-seeding
     after them (observers keep the seed; the state after reseed() depends on the seed only) *)
  Lemma observe_all_app a b (st : state) : observe_all (a ++ b) st = observe_all b (observe_all a st).
  Proof. unfold Randoms.observe_all. apply fold_left_app. Qed.

  Theorem start_rewind_harmless os each n cs (st : state) :
    pass_obs true (mkHooks (os ++ [ORewind]) each) n cs st = pass_obs true (mkHooks [] each) n cs st.
  Proof.
    unfold Randoms.pass_obs. simpl. rewrite observe_all_app.
    change (observe_all [ORewind] (observe_all os (reseed st))) with (reseed (observe_all os (reseed st))).
    rewrite (reseed_fresh (observe_all os (reseed st))), observe_all_seed. reflexivity.
  Qed.

  (* the sizes of the chunks do not depend on the observers at all: the clause "exactly n
     records" cannot see an observer that moves the stream *)
  Lemma draws_obs_sizes each sizes (st : state) : map ch_size (snd (draws_obs each st sizes)) = sizes.
  Proof.
    revert st. induction sizes as [|k r IH]; intros st; simpl; [reflexivity|].
    specialize (IH (observe_all each (mkState (st_seed st) (st_pos st + width * k)))).
    destruct (draws_obs each _ r) as [s2 cs]. simpl in *. rewrite IH. reflexivity.
  Qed.

  Theorem pass_obs_sizes on h n cs (st : state) :
    map ch_size (snd (pass_obs on h n cs st)) = random_sizes n cs.
  Proof.
    destruct on; unfold Randoms.pass_obs; [apply draws_obs_sizes|apply draws_sizes].
  Qed.

  (* where the observers at the start leave the stream: width * (the calls after the last reseed of
     their event log) *)
  Lemma observe_all_pos os (st : state) acc :
    st_pos st = width * nsum acc ->
    st_pos (observe_all os st) = width * nsum (after_last_reseed (start_events os) acc).
  Proof.
    revert st acc. induction os as [|o os IH]; intros st acc H; simpl; [exact H|].
    unfold Randoms.observe_all in *. simpl. unfold start_events in *. simpl.
    rewrite after_last_reseed_cat. apply IH.
    destruct o; simpl; try exact H.
    - rewrite H, nsum_app. unfold nsum. simpl. lia.
    - unfold nsum. simpl. lia.
    - unfold nsum. simpl. lia.
  Qed.

  (* the tie the harness uses: when the calls after the last reseed of the event log of a pass are
     exactly the sizes of the pass, the observers left the state of the re-seed behind, and the pass
     is the pass of the generator *)
  Theorem tie_sound os n cs :
    after_last_reseed (pass_obs_events os n cs) [] = random_sizes n cs ->
    forall st : state, pass_obs true (mkHooks os []) n cs st = step (Pass n cs) st.
  Proof.
    unfold pass_obs_events. simpl. rewrite after_last_reseed_cat, after_last_reseed_calls.
    intros E st.
    assert (P : after_last_reseed (start_events os) [] = []).
    { apply (f_equal (@length nat)) in E. rewrite app_length in E.
      destruct (after_last_reseed (start_events os) []); [reflexivity|simpl in E; lia]. }
    unfold Randoms.pass_obs. simpl. rewrite draws_obs_nil.
    assert (F : observe_all os (reseed st) = reseed st).
    { pose proof (observe_all_seed os (reseed st)) as Hs.
      pose proof (observe_all_pos os (reseed st) [] (eq_sym (Nat.mul_0_r width))) as Hp.
      rewrite P in Hp. unfold nsum in Hp. simpl in Hp. rewrite Nat.mul_0_r in Hp.
      destruct (observe_all os (reseed st)) as [s p]. simpl in *. subst. reflexivity. }
    rewrite F. reflexivity.
  Qed.

  (* ---------- independent of an observer IFF the observer restores the state ---------- *)
  Definition stream_injective : Prop :=
    forall s s' p p', stream s p = stream s' p' -> s = s' /\ p = p'.

  Lemma random_sizes_1_1 : random_sizes 1 1 = [1].
  Proof. reflexivity. Qed.

  Theorem observer_free_iff :
    1 <= width -> stream_injective ->
    forall f : state -> state,
    (forall n cs st, pass_with f n cs st = snd (step (Pass n cs) st)) <->
    (forall s, f (fresh s) = fresh s).
  Proof.
    intros Hw Hinj f. split.
    - intros H s. specialize (H 1 1 (fresh s)). unfold Randoms.pass_with, Randoms.step in H.
      rewrite random_sizes_1_1 in H.
      change (reseed (fresh s)) with (fresh s) in H.
      destruct (f (fresh s)) as [s' p'] eqn:Ef.
      destruct width as [|w]; [lia|]. simpl in H.
      injection H as H _.
      apply Hinj in H. destruct H as [Hs Hp].
      unfold fresh. subst. f_equal. lia.
    - intros H n cs st. unfold Randoms.pass_with. simpl.
      rewrite (reseed_fresh st), H. reflexivity.
  Qed.

  (* for the observers of the model: a pass is independent of an observer at its start iff the
     observer does not advance the stream *)
  Lemma observe_fresh o s : fst (observe o (fresh s)) = mkState s (width * advance o).
  Proof.
    destruct o; unfold fresh; simpl; rewrite ?Nat.mul_0_r; reflexivity.
  Qed.

  Theorem start_observer_free_iff (s0 : seed) :
    1 <= width -> stream_injective ->
    forall o,
    (forall n cs st, snd (pass_obs true (mkHooks [o] []) n cs st) = snd (pass_obs false (mkHooks [o] []) n cs st)) <->
    advance o = 0.
  Proof.
    intros Hw Hinj o.
    pose proof (observer_free_iff Hw Hinj (fun st => fst (observe o st))) as [A B].
    split.
    - intros H.
      assert (G : forall s, fst (observe o (fresh s)) = fresh s).
      { apply A. intros n cs st. specialize (H n cs st). unfold Randoms.pass_obs in H. simpl in H.
        rewrite draws_obs_nil in H. exact H. }
      specialize (G s0). rewrite observe_fresh in G. unfold fresh in G.
      injection G as G. destruct (advance o); [reflexivity|]. destruct width; lia.
    - intros H n cs st. unfold Randoms.pass_obs. simpl. rewrite draws_obs_nil.
      apply B. intros s. rewrite observe_fresh, H, Nat.mul_0_r. reflexivity.
  Qed.
End ObserversP.

(* an observer that draws a preview through get_probe (re-seeds, then leaves the stream advanced)
   changes every record of the pass, while the sizes stay what they were *)
Theorem advancing_observer_refuted :
  exists k n cs s,
    let h := mkHooks [OProbe k] [] in
    let stream := fun sd p : nat => sd + p in
    snd (pass_obs stream 2 true h n cs (fresh s)) <> snd (pass_obs stream 2 false h n cs (fresh s)) /\
    map ch_size (snd (pass_obs stream 2 true h n cs (fresh s))) =
    map ch_size (snd (pass_obs stream 2 false h n cs (fresh s))).
Proof. exists 3, 5, 2, 7. vm_compute. split; [discriminate|reflexivity]. Qed.

(* a live preview (no re-seed) is refuted the same way *)
Theorem preview_observer_refuted :
  exists k n cs s,
    let h := mkHooks [OPreview k] [] in
    let stream := fun sd p : nat => sd + p in
    snd (pass_obs stream 2 true h n cs (fresh s)) <> snd (pass_obs stream 2 false h n cs (fresh s)).
Proof. exists 1, 3, 2, 7. vm_compute. discriminate. Qed.

(* between the chunks even a re-seed is not harmless: every chunk starts the stream again *)
Theorem rewinding_each_observer_refuted :
  exists n cs s,
    let h := mkHooks [] [ORewind] in
    let stream := fun sd p : nat => sd + p in
    snd (pass_obs stream 2 true h n cs (fresh s)) <> snd (pass_obs stream 2 false h n cs (fresh s)).
Proof. exists 4, 2, 7. vm_compute. discriminate. Qed.

(* ---------- the checker of one route under one ambient setting ---------- *)
Lemma qlist_eqb_Forall2 a b : list_eqb Qeqb a b = true -> Forall2 Qeq a b.
Proof.
  revert b. induction a as [|x a IH]; intros [|y b] H; simpl in H; try discriminate; [constructor|].
  apply andb_true_iff in H. destruct H as [H1 H2]. constructor; [apply Qeq_bool_iff; exact H1|apply IH; exact H2].
Qed.

Theorem c16_ambient_case_zero r evs nout ra0 ra1 dec0 dec1 ras decs weights redshifts pairs
        ref_ras ref_decs ref_pairs bits_same same_neutral :
  c16_ambient_case r evs nout ra0 ra1 dec0 dec1 ras decs weights redshifts pairs
                   ref_ras ref_decs ref_pairs bits_same same_neutral = 0 ->
  after_last_reseed evs [] = aroute_sizes r /\
  nout = aroute_total r /\ length ras = aroute_total r /\
  Forall2 Qeq ras ref_ras /\ Forall2 Qeq decs ref_decs /\
  bits_same = true /\ same_neutral = true /\
  (forall wz, In wz pairs ->
     exists j, j < length weights /\ j < length redshifts /\
               (fst wz == nth j weights 0)%Q /\ (snd wz == nth j redshifts 0)%Q).
Proof.
  unfold c16_ambient_case, code. simpl.
  destruct (amb_tie _ _ _ _ _ _ _ _ _ _ _) eqn:E0; [|simpl; lia].
  destruct (amb_size _ _ _ _) eqn:E1; [|simpl; lia].
  destruct (in_window ra0 ra1 ras && in_window dec0 dec1 decs); [|simpl; lia].
  destruct (joint_ok weights redshifts pairs) eqn:E3; [|simpl; lia].
  destruct (amb_same _ _ _ _ _ _ _) eqn:E4; [|simpl; lia].
  destruct same_neutral; [|simpl; lia].
  intros _.
  unfold amb_tie in E0. apply andb_true_iff in E0. destruct E0 as [E0 _].
  unfold amb_size in E1. apply andb_true_iff in E1. destruct E1 as [E1a E1]. apply andb_true_iff in E1. destruct E1 as [E1b _].
  unfold amb_same in E4. apply andb_true_iff in E4. destruct E4 as [E4a E4]. apply andb_true_iff in E4. destruct E4 as [E4b E4].
  apply andb_true_iff in E4. destruct E4 as [E4c _].
  split; [symmetry; apply nlist_eqb_eq; exact E0|].
  split; [apply Nat.eqb_eq; exact E1a|]. split; [apply Nat.eqb_eq; exact E1b|].
  split; [apply qlist_eqb_Forall2; exact E4b|]. split; [apply qlist_eqb_Forall2; exact E4c|].
  split; [exact E4a|]. split; [reflexivity|]. apply joint_ok_sound. exact E3.
Qed.
