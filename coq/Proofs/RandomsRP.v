(* Proofs about the cylindrical equal-area map of BoxRandoms (real numbers).
   Axioms: the four of the standard library's real numbers / trigonometry. *)
From Coq Require Import Reals Lra.
From Verif Require Import RandomsR.
Open Scope R_scope.

Lemma uniform_bounds lo hi u : lo <= hi -> 0 <= u <= 1 -> lo <= uniform lo hi u <= hi.
Proof. unfold uniform. intros H [H0 H1]. split; nra. Qed.

(* ---------- window ---------- *)
Theorem window_ra ra0 ra1 u : ra0 <= ra1 -> 0 <= u <= 1 -> ra0 <= ra_of ra0 ra1 u <= ra1.
Proof. apply uniform_bounds. Qed.

Lemma sin_le_range d0 d1 : - (PI / 2) <= d0 -> d0 <= d1 -> d1 <= PI / 2 -> sin d0 <= sin d1.
Proof. intros. apply sin_incr_1; lra. Qed.

Theorem window_asin d0 d1 y :
  - (PI / 2) <= d0 -> d0 <= d1 -> d1 <= PI / 2 ->
  sin d0 <= y <= sin d1 -> d0 <= asin y <= d1.
Proof.
  intros H0 H01 H1 [Hy0 Hy1].
  assert (Hy : -1 <= y <= 1).
  { pose proof (SIN_bound d0). pose proof (SIN_bound d1). lra. }
  pose proof (asin_bound y) as [Ha0 Ha1].
  pose proof (sin_asin y Hy) as Hs.
  split.
  - apply sin_incr_0; lra.
  - apply sin_incr_0; lra.
Qed.

Theorem window_dec d0 d1 v :
  - (PI / 2) <= d0 -> d0 <= d1 -> d1 <= PI / 2 -> 0 <= v <= 1 ->
  d0 <= dec_of d0 d1 v <= d1.
Proof.
  intros H0 H01 H1 Hv. unfold dec_of, y_of. apply window_asin; try assumption.
  apply uniform_bounds; [apply sin_le_range; assumption|exact Hv].
Qed.

(* both poles are allowed: the window [-pi/2, pi/2] itself *)
Corollary window_dec_full v : 0 <= v <= 1 -> - (PI / 2) <= dec_of (- (PI / 2)) (PI / 2) v <= PI / 2.
Proof. intros Hv. apply window_dec; try lra. pose proof PI_RGT_0. lra. Qed.

(* ---------- equal area ---------- *)
(* y = sin(dec) on the whole range, hence dy = cos(dec) d(dec) *)
Theorem equal_area_sin_asin y : -1 <= y <= 1 -> sin (asin y) = y.
Proof. apply sin_asin. Qed.

(* the area element cos(dec) d(dec) d(ra), pulled back through dec = asin y, is dy d(ra):
   cos(asin y) * (d/dy asin y) = 1 *)
Theorem equal_area y (H : -1 < y < 1) :
  cos (asin y) * derive_pt asin y (derivable_pt_asin y H) = 1.
Proof.
  rewrite derive_pt_asin, cos_asin by lra.
  assert (Hp : 0 < 1 - y²). { unfold Rsqr. nra. }
  pose proof (sqrt_lt_R0 _ Hp). field. lra.
Qed.

(* cumulative form: the sample falls below declination a exactly when the uniform variate
   falls below the AREA fraction of the sub-window [dec0, a] *)
Theorem equal_area_cdf d0 d1 a v :
  - (PI / 2) <= d0 -> d0 <= d1 -> d1 <= PI / 2 -> d0 <= a <= d1 -> 0 <= v <= 1 ->
  (dec_of d0 d1 v <= a <-> v * (sin d1 - sin d0) <= sin a - sin d0).
Proof.
  intros H0 H01 H1 [Ha0 Ha1] Hv.
  pose proof (window_dec d0 d1 v H0 H01 H1 Hv) as [Hd0 Hd1].
  assert (Hy : -1 <= y_of d0 d1 v <= 1).
  { pose proof (uniform_bounds (sin d0) (sin d1) v (sin_le_range d0 d1 H0 H01 H1) Hv).
    pose proof (SIN_bound d0). pose proof (SIN_bound d1). unfold y_of. lra. }
  pose proof (sin_asin _ Hy) as Hs. fold (dec_of d0 d1 v) in Hs.
  assert (E : v * (sin d1 - sin d0) = sin (dec_of d0 d1 v) - sin d0).
  { rewrite Hs. unfold y_of, uniform. ring. }
  rewrite E. split; intro H.
  - assert (sin (dec_of d0 d1 v) <= sin a) by (apply sin_incr_1; lra). lra.
  - apply sin_incr_0; lra.
Qed.

Corollary equal_area_fraction ra0 ra1 d0 d1 a v :
  ra0 < ra1 ->
  - (PI / 2) <= d0 -> d0 <= d1 -> d1 <= PI / 2 -> d0 <= a <= d1 -> 0 <= v <= 1 ->
  (dec_of d0 d1 v <= a <-> v * window_area ra0 ra1 d0 d1 <= window_area ra0 ra1 d0 a).
Proof.
  intros Hra H0 H01 H1 Ha Hv. rewrite (equal_area_cdf d0 d1 a v H0 H01 H1 Ha Hv).
  unfold window_area. split; intro H; nra.
Qed.

(* a declination drawn uniformly (no sin/arcsin) stays in the window ... *)
Theorem flat_window d0 d1 v : d0 <= d1 -> 0 <= v <= 1 -> d0 <= dec_flat d0 d1 v <= d1.
Proof. apply uniform_bounds. Qed.

(* ... but is not uniform in area *)
Theorem flat_dec_refuted :
  exists d0 d1 a v,
    - (PI / 2) <= d0 /\ d0 <= d1 /\ d1 <= PI / 2 /\ d0 <= a <= d1 /\ 0 <= v <= 1 /\
    ~ (dec_flat d0 d1 v <= a <-> v * (sin d1 - sin d0) <= sin a - sin d0).
Proof.
  pose proof PI_RGT_0 as Hpi.
  exists 0, (PI / 2), (PI / 4), (3 / 5).
  repeat split; try lra.
  intros [_ H]. unfold dec_flat, uniform in H.
  rewrite sin_PI2, sin_0, sin_PI4 in H.
  assert (Hs : 3 / 5 * (1 - 0) <= 1 / sqrt 2 - 0).
  { assert (H2 : sqrt 2 <= 5 / 3).
    { rewrite <- (sqrt_Rsqr (5 / 3)) by lra. apply sqrt_le_1_alt. unfold Rsqr. lra. }
    assert (H3 : 0 < sqrt 2) by (apply sqrt_lt_R0; lra).
    apply (Rmult_le_reg_r (sqrt 2)); [exact H3|]. field_simplify; [|lra]. lra. }
  specialize (H Hs). lra.
Qed.
