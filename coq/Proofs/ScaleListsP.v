From Verif Require Import ScaleLists.
From Coq Require Import List Arith Bool.
Import ListNotations.

Theorem keep_ith l i d : nth i (keep l) d = nth i l d.
Proof. reflexivity. Qed.
Theorem keep_length l : length (keep l) = length l.
Proof. reflexivity. Qed.

(* ascending lists without repeats are left alone by the variant (the common case) ... *)
Example unique_sorted_fixed_on_ascending : unique_sorted [(1, 10); (5, 50); (100, 1000)] = [(1, 10); (5, 50); (100, 1000)].
Proof. reflexivity. Qed.
(* ... any other list is reordered, or shortened *)
Theorem unique_sorted_reorders_refuted : exists l i d, length (unique_sorted l) = length l /\ nth i (unique_sorted l) d <> nth i l d.
Proof. exists [(100, 1000); (1, 10)], 0, (0, 0). vm_compute. split; [reflexivity|discriminate]. Qed.
Theorem unique_sorted_drops_repeats_refuted : exists l, length (unique_sorted l) < length l.
Proof. exists [(1, 10); (5, 50); (1, 10)]. vm_compute. repeat constructor. Qed.

Theorem keep_spec (l : list range) (i : nat) (d : range) : nth i (keep l) d = nth i l d /\ length (keep l) = length l.
Proof. split; reflexivity. Qed.
Theorem unique_sorted_refuted :
  (exists l i d, length (unique_sorted l) = length l /\ nth i (unique_sorted l) d <> nth i l d) /\
  (exists l, length (unique_sorted l) < length l).
Proof. split; [exact unique_sorted_reorders_refuted|exact unique_sorted_drops_repeats_refuted]. Qed.
